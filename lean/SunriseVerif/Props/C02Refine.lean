import SunriseVerif.Props.C04Store
import SunriseVerif.Props.C04Interval
import SunriseVerif.Props.C02Kernel
import SunriseVerif.Model.CLCustodyAbs
import Mathlib.Order.Monotone.Basic

/-!
C02 (refinement CL → CLCustody) — PROOFS that the store-level liquidity operations of `Model/CL.lean` satisfy the guards
of the custody abstraction `Model/CLCustody.lean` and take the abstraction `CLCustodyAbs.absC` to `CLCustody.step` (until
now tied only by the run-time lock-step of `Model/CLCustodyAbs.lean`).  `absOf s pool p slack sp` is `absC` with the pool
record explicit (`absC_eq`).

Rounding allowance:  `errW sp P lo hi = u·(1/(c·sp hi) + 1/c + 1)`, `c` = `P` clamped into `[sp lo, sp hi]`, `u = 10^-18`
(= `C02Kernel.E'` at the prices the kernels are called with; `errW_le_errTol`: ≤ `CLCustodyAbs.errTol m` for `0 < m ≤ sp lo`).

1. `withdraw_guard_store`   successful `decreaseLiquidity` ⇒ `(Op.withdraw i liq ab aq errW).guard (absC s)`
   `withdraw_bank_store`    exactly `(ab, aq)` leave the pool account; third accounts untouched
2. `deposit_guard_store`    successful `createPosition` ⇒ `(Op.deposit lo hi δ out.base out.quote errW).guard`
   `increaseLiquidity_parts` `increaseLiquidity` = `decreaseLiquidity` ; `createPosition` (both covered by 1 and 2)
3. `custody_step_refines_deposit`   (FULL) `absOf s' = CLCustody.step (absOf s) (deposit …)` after `createPosition`
   `custody_step_refines_withdraw`  (FULL when liquidity remains in the position) the same for `decreaseLiquidity`
   `custody_step_refines_partial` + `withdraw_positions_refine`  whole-liquidity withdrawals: every component except that
      the store deletes the record where `CLBook.decAt` keeps a zero entry, and resets price/cursor with the last position
4. `swap_step_amounts_guard`, `swapDown_guard_of_bucket`, `swapUp_guard_of_bucket`  one bucket step of the swap loop, all
   four modes: amount in ≥ exact − E', amount out ≤ exact + E'
Building blocks: sign symmetry of `Mul`/`Quo`/`TruncateInt` (a withdrawal evaluates the kernels at NEGATIVE liquidity and
takes `|TruncateInt|`), `calcActualAmounts_ok` (its three branches = the clamp of the entitlement formulas),
`withdraw_amounts_guard`, `deposit_amounts_guard`, bank frames of `prepareClaimableFees` / `collectFees`.

Hypotheses
* `GridOK sp`, `OnGrid sp tp lo/hi` (sp = the model's `TickToSqrtPrice` on the position's two bounds), and
  `priceInTick sp P cursor`: the documented price-grid boundary of C02Custody (`TickToSqrtPrice` strictly increasing and
  positive is assumed, not proved: `C04Interval.Mono`); `priceInTick` is `C04Interval.Closed` (proved there for the pool
  stored after swaps / first position, under `Mono`).
* `Inv s` (item 3): the C04 store invariant, proved preserved by every non-swap message (`C04Store.*_preserves`).
* `sender ≠ poolAddr pool` (a module account does not sign), `p.base ≠ p.quote` (`createPoolValid` does not enforce it).
* item 4: `0 < next`, `onSide bfq cur next` (the price does not move against the trade) = `C05Loop.bucket_facts`.
NOT proved: the composition of the per-step swap guards along `swapLoop` / `swapExactIn/Out` (crossings, `keep` of the
final truncation, fee transfers) into a store-level swap refinement; exact list equality for whole-liquidity withdrawals
(false as stated: the abstraction keeps zero entries).
-/
namespace Sunrise.C02Refine
open Sunrise Sunrise.CL Sunrise.TickMath Sunrise.Gen.KernelsCL Sunrise.C04Refine Sunrise.C04StoreL
open Sunrise.C05Loop (bind_ok res_ok_inj)
open Sunrise.C04Interval (err_bind ok_bind panic_bind ite_err_ok ite_ok)
open Sunrise.C02Kernel
open Sunrise.CLCustody (ratOfDec spOf GridOK priceInTick entBase entQuote clamp PRECQ)

/-! ### A. sign symmetry of the `LegacyDec` operations (a withdrawal evaluates the kernels at NEGATIVE liquidity) -/

theorem chopRound_neg (d : Int) : Dec.chopRound (-d) = -Dec.chopRound d := by
  unfold Dec.chopRound
  by_cases h1 : d < 0
  · have h2 : ¬ (-d < 0) := by omega
    simp only [h1, h2, if_true, if_false, Int.neg_neg]
  · by_cases h3 : d = 0
    · subst h3; decide
    · have h2 : -d < 0 := by omega
      simp only [h1, h2, if_true, if_false, Int.neg_neg]

theorem mul_neg_right (x y : Dec) : Dec.mul x (Dec.neg y) = Dec.neg (Dec.mul x y) := by
  simp only [Dec.mul, Dec.neg, Int.mul_neg, chopRound_neg]

theorem quo_neg_left (x d : Dec) : Dec.quo (Dec.neg x) d = Dec.neg (Dec.quo x d) := by
  simp only [Dec.quo, Dec.neg, Dec.tquo, Int.neg_mul, Int.neg_tdiv, chopRound_neg]

theorem truncateInt_neg (x : Dec) : Dec.truncateInt (Dec.neg x) = -Dec.truncateInt x := by
  simp only [Dec.truncateInt, Dec.chopTrunc, Dec.neg, Dec.tquo, Int.neg_tdiv]

theorem base_neg (liq a b : Dec) : CalcAmountBaseDelta (Dec.neg liq) a b false = Dec.neg (CalcAmountBaseDelta liq a b false) := by
  unfold CalcAmountBaseDelta
  split <;> simp only [Bool.false_eq_true, if_false, mul_neg_right, quo_neg_left]

theorem quote_neg (liq a b : Dec) : CalcAmountQuoteDelta (Dec.neg liq) a b false = Dec.neg (CalcAmountQuoteDelta liq a b false) := by
  simp only [CalcAmountQuoteDelta, Bool.false_eq_true, if_false, mul_neg_right]

theorem iabs_trunc_neg (x : Dec) (hx : 0 ≤ x.raw) : iabs (Dec.truncateInt (Dec.neg x)) = Dec.truncateInt x := by
  have h := (Dec.truncateInt_nonneg_bounds x hx).2.2
  rw [truncateInt_neg]; unfold iabs
  split <;> omega

/-- the integer number of coins `TruncateInt` yields is at most the decimal amount -/
theorem trunc_le_q (x : Dec) (hx : 0 ≤ x.raw) : ((Dec.truncateInt x : Int) : Rat) ≤ q x ∧ 0 ≤ Dec.truncateInt x := by
  have h := Dec.truncateInt_nonneg_bounds x hx
  refine ⟨?_, h.2.2⟩
  have h1 : ((PREC : Int) : Rat) * ((Dec.truncateInt x : Int) : Rat) ≤ (x.raw : Rat) := by exact_mod_cast h.1
  rw [PREC_cast] at h1
  unfold q
  rw [le_div_iff₀ (by positivity)]
  linarith

/-! ### B. what `UpdatePosition` / `CalcActualAmounts` compute -/

theorem updatePosition_amounts {s s' : St} {pool : Nat} {lo hi : Int} {delta : Dec} {posId : Nat} {ab aq : Int} {loE hiE : Bool}
    (h : updatePosition s pool lo hi delta posId = .ok (s', ab, aq, loE, hiE)) :
    ∃ p x y, getPool s pool = some p ∧ calcActualAmounts p lo hi delta = .ok (x, y) ∧
      ab = Dec.truncateInt x ∧ aq = Dec.truncateInt y := by
  unfold updatePosition at h
  simp only [bind, pure, err_bind, ok_bind] at h
  obtain ⟨r1, h1, h⟩ := bind_ok h
  obtain ⟨r2, h2, h⟩ := bind_ok h
  obtain ⟨_, _, _, ⟨a1, _, _⟩, _⟩ := upsertTick_effect (s' := r1.1) (e := r1.2) h1
  obtain ⟨_, _, _, ⟨b1, _, _⟩, _⟩ := upsertTick_effect (s' := r2.1) (e := r2.2) h2
  cases hp : getPool r2.1 pool with
  | none => rw [hp] at h; cases h
  | some p =>
    rw [hp] at h
    cases hq : getPosition r2.1 posId with
    | none => rw [hq] at h; cases h
    | some pos =>
      rw [hq] at h
      simp only [] at h
      by_cases hneg : (pos.liq.add delta).isNegative = true
      · rw [if_pos hneg] at h; cases h
      · rw [if_neg hneg] at h
        obtain ⟨x, hx, h⟩ := bind_ok h
        obtain ⟨s5, h5, h⟩ := bind_ok h
        have e := res_ok_inj h
        have e2 : Dec.truncateInt x.1 = ab := congrArg (fun z => z.2.1) e
        have e3 : Dec.truncateInt x.2 = aq := congrArg (fun z => z.2.2.1) e
        refine ⟨p, x.1, x.2, ?_, hx, e2.symm, e3.symm⟩
        rw [← getPool_congr (b1.trans a1) pool]; exact hp

theorem calcActualAmounts_ok {p : Pool} {lo hi : Int} {delta x y : Dec} (h : calcActualAmounts p lo hi delta = .ok (x, y)) :
    ∃ pl pu, delta.isZero = false ∧ lo < hi ∧ tickToSqrtPrice lo p.tp = .ok pl ∧ tickToSqrtPrice hi p.tp = .ok pu ∧
      ((lo ≤ p.tick ∧ p.tick < hi ∧ x = CalcAmountBaseDelta delta p.sqrtP pu delta.isPositive
          ∧ y = CalcAmountQuoteDelta delta p.sqrtP pl delta.isPositive) ∨
       (p.tick < lo ∧ x = CalcAmountBaseDelta delta pl pu delta.isPositive ∧ y = Dec.zero) ∨
       (hi ≤ p.tick ∧ x = Dec.zero ∧ y = CalcAmountQuoteDelta delta pl pu delta.isPositive)) := by
  unfold calcActualAmounts at h
  simp only [bind, pure, err_bind, ok_bind] at h
  obtain ⟨hz, h⟩ := ite_err_ok h
  obtain ⟨pp, hpp, h⟩ := bind_ok h
  have hT : lo < hi ∧ tickToSqrtPrice lo p.tp = .ok pp.1 ∧ tickToSqrtPrice hi p.tp = .ok pp.2 := by
    unfold ticksToSqrtPrice at hpp
    simp only [bind, pure, err_bind, ok_bind] at hpp
    obtain ⟨hlt, hpp⟩ := ite_err_ok hpp
    obtain ⟨u', hu, hpp⟩ := bind_ok hpp
    obtain ⟨l', hl, hpp⟩ := bind_ok hpp
    have e := res_ok_inj hpp
    subst e
    exact ⟨by omega, hl, hu⟩
  refine ⟨pp.1, pp.2, by simpa using hz, hT.1, hT.2.1, hT.2.2, ?_⟩
  by_cases hin : IsCurrentTickInRange p.tick lo hi = true
  · rw [if_pos hin] at h
    obtain ⟨b, hb, h⟩ := bind_ok h
    have e := res_ok_inj h
    rcases ite_ok hb with ⟨_, hb⟩ | ⟨_, hb⟩
    · have eb := res_ok_inj hb
      simp only [IsCurrentTickInRange, Bool.and_eq_true, decide_eq_true_eq] at hin
      refine Or.inl ⟨hin.1, hin.2, ?_, ?_⟩
      · rw [eb]; exact (congrArg Prod.fst e).symm
      · exact (congrArg Prod.snd e).symm
    · cases hb
  · rw [if_neg hin] at h
    simp only [IsCurrentTickInRange, Bool.and_eq_true, decide_eq_true_eq] at hin
    by_cases hlo : p.tick < lo
    · rw [if_pos hlo] at h
      obtain ⟨b, hb, h⟩ := bind_ok h
      have e := res_ok_inj h
      rcases ite_ok hb with ⟨_, hb⟩ | ⟨_, hb⟩
      · have eb := res_ok_inj hb
        refine Or.inr (Or.inl ⟨hlo, ?_, (congrArg Prod.snd e).symm⟩)
        rw [eb]; exact (congrArg Prod.fst e).symm
      · cases hb
    · rw [if_neg hlo] at h
      have e := res_ok_inj h
      exact Or.inr (Or.inr ⟨by omega, (congrArg Prod.fst e).symm, (congrArg Prod.snd e).symm⟩)

/-! ### C. the withdrawal amounts against the exact entitlement -/

/-- the rounding allowance of one `CalcActualAmounts` evaluation: `C02Kernel.E'` at `a` = the current sqrt price clamped
    into the position's range and `b = sp hi`; this is `u·(1/(a·b) + 1/a + 1)`, the form of the run-time tolerance
    `CLCustodyAbs.errTol` (see `errW_le_errTol`) -/
def errW (sp : Int → Rat) (P : Rat) (lo hi : Int) : Rat :=
  u * (1 / (clamp P (sp lo) (sp hi) * sp hi) + 1 / clamp P (sp lo) (sp hi) + 1)

theorem ratOfDec_eq_q (d : Dec) : ratOfDec d = q d := by unfold ratOfDec q PRECQ; norm_num

theorem spOf_ok {tp : TickParams} {t : Int} {v : Dec} (h : tickToSqrtPrice t tp = .ok v) : spOf tp t = q v := by
  unfold spOf; rw [h]; exact ratOfDec_eq_q v

theorem grid_mono {sp : Int → Rat} (hg : GridOK sp) {a b : Int} (h : a ≤ b) : sp a ≤ sp b := by
  rcases Int.lt_or_eq_of_le h with h | h
  · exact le_of_lt (hg.2 a b h)
  · rw [h]

theorem clamp_mid {x lo hi : Rat} (h1 : lo ≤ x) (h2 : x ≤ hi) : clamp x lo hi = x := by
  unfold clamp; rw [if_neg (not_lt.mpr h1), if_neg (not_lt.mpr h2)]

theorem clamp_low {x lo hi : Rat} (h1 : x ≤ lo) (h2 : lo ≤ hi) : clamp x lo hi = lo := by
  unfold clamp
  by_cases h : x < lo
  · rw [if_pos h]
  · have e : x = lo := le_antisymm h1 (not_lt.mp h)
    rw [if_neg h, if_neg (by rw [e]; exact not_lt.mpr h2), e]

theorem clamp_high {x lo hi : Rat} (h1 : hi ≤ x) (h2 : lo ≤ hi) : clamp x lo hi = hi := by
  unfold clamp
  rw [if_neg (not_lt.mpr (le_trans h2 h1))]
  by_cases h : hi < x
  · rw [if_pos h]
  · rw [if_neg h]; exact le_antisymm (not_lt.mp h) h1

theorem errW_ge_u {sp : Int → Rat} (hg : GridOK sp) (P : Rat) {lo hi : Int} (hlh : lo < hi) : u ≤ errW sp P lo hi := by
  have hc := clamp_mem P (sp lo) (sp hi) (le_of_lt (hg.2 lo hi hlh))
  have h0 : 0 < clamp P (sp lo) (sp hi) := lt_of_lt_of_le (hg.1 lo) hc.1
  have h1 : 0 < sp hi := hg.1 hi
  have h2 : 0 ≤ 1 / (clamp P (sp lo) (sp hi) * sp hi) := by positivity
  have h3 : 0 ≤ 1 / clamp P (sp lo) (sp hi) := by positivity
  unfold errW
  nlinarith [u_pos, mul_nonneg (le_of_lt u_pos) h2, mul_nonneg (le_of_lt u_pos) h3]

theorem E'_eq_errW (sp : Int → Rat) (P : Rat) (lo hi : Int) (a b : Dec)
    (hqa : q a = clamp P (sp lo) (sp hi)) (hqb : q b = sp hi) : E' a b = errW sp P lo hi := by
  unfold E' errW; rw [hqa, hqb]

/-- `errW` is within the run-time tolerance `CLCustodyAbs.errTol m` for every `0 < m` below the position's lower grid
    price (so below the clamped price and `sp hi`) -/
theorem errW_le_errTol {sp : Int → Rat} (hg : GridOK sp) (P : Rat) {lo hi : Int} (hlh : lo < hi) {m : Rat}
    (hm : 0 < m) (hml : m ≤ sp lo) : errW sp P lo hi ≤ CLCustody.errTol m := by
  have hlh' : sp lo ≤ sp hi := le_of_lt (hg.2 lo hi hlh)
  have hc := clamp_mem P (sp lo) (sp hi) hlh'
  have h1 : m ≤ clamp P (sp lo) (sp hi) := le_trans hml hc.1
  have h2 : m ≤ sp hi := le_trans hml hlh'
  have hcp : 0 < clamp P (sp lo) (sp hi) := lt_of_lt_of_le hm h1
  unfold errW CLCustody.errTol
  rw [if_neg (not_le.mpr hm)]
  have e : (1 : Rat) / PRECQ = u := by unfold PRECQ u; norm_num
  rw [e]
  have k1 : 1 / (clamp P (sp lo) (sp hi) * sp hi) ≤ 1 / (m * m) :=
    one_div_le_one_div_of_le (by positivity) (mul_le_mul h1 h2 (le_of_lt hm) (le_of_lt hcp))
  have k2 : 1 / clamp P (sp lo) (sp hi) ≤ 1 / m := one_div_le_one_div_of_le hm h1
  exact mul_le_mul_of_nonneg_left (by linarith) (le_of_lt u_pos)

/-- base side of a withdrawal: the coins paid (`|TruncateInt|` of the kernel at NEGATIVE liquidity) are at most the exact
    entitlement plus `errW` -/
theorem withdraw_base_part (sp : Int → Rat) (hg : GridOK sp) (P : Rat) (lo hi : Int) (hlh : lo < hi) (liq a b : Dec)
    (hl : 0 ≤ liq.raw) (hqa : q a = clamp P (sp lo) (sp hi)) (hqb : q b = sp hi) :
    ((iabs (Dec.truncateInt (CalcAmountBaseDelta (Dec.neg liq) a b false)) : Int) : Rat)
        ≤ entBase sp P ⟨lo, hi, liq.raw⟩ + errW sp P lo hi
    ∧ 0 ≤ iabs (Dec.truncateInt (CalcAmountBaseDelta (Dec.neg liq) a b false)) := by
  have hlh' : sp lo ≤ sp hi := le_of_lt (hg.2 lo hi hlh)
  have hc := clamp_mem P (sp lo) (sp hi) hlh'
  have ha : 0 < a.raw := raw_pos_of_q_pos (by rw [hqa]; linarith [hc.1, hg.1 lo])
  have hab : a.raw ≤ b.raw := raw_le_of_q_le (by rw [hqa, hqb]; exact hc.2)
  have hnn : 0 ≤ (CalcAmountBaseDelta liq a b false).raw := by
    rw [base_unfold_le liq a b false hab]
    simp only [Bool.false_eq_true, if_false]
    exact (baseCore_bounds liq a b hl ha hab).2.2
  rw [base_neg, iabs_trunc_neg _ hnn]
  have ht := trunc_le_q _ hnn
  have hw := withdraw_base_guard sp P lo hi liq.raw a b hl (hg.1 lo) hlh' hqa hqb
  rw [E'_eq_errW sp P lo hi a b hqa hqb] at hw
  exact ⟨le_trans ht.1 hw, ht.2⟩

/-- quote side -/
theorem withdraw_quote_part (sp : Int → Rat) (hg : GridOK sp) (P : Rat) (lo hi : Int) (hlh : lo < hi) (liq a b : Dec)
    (hl : 0 ≤ liq.raw) (hqa : q a = sp lo) (hqb : q b = clamp P (sp lo) (sp hi)) :
    ((iabs (Dec.truncateInt (CalcAmountQuoteDelta (Dec.neg liq) a b false)) : Int) : Rat)
        ≤ entQuote sp P ⟨lo, hi, liq.raw⟩ + errW sp P lo hi
    ∧ 0 ≤ iabs (Dec.truncateInt (CalcAmountQuoteDelta (Dec.neg liq) a b false)) := by
  have hlh' : sp lo ≤ sp hi := le_of_lt (hg.2 lo hi hlh)
  have hc := clamp_mem P (sp lo) (sp hi) hlh'
  have hnn : 0 ≤ (CalcAmountQuoteDelta liq a b false).raw := by
    simp only [CalcAmountQuoteDelta, Bool.false_eq_true, if_false]
    exact (q_mul_bounds _ liq (Int.mul_nonneg (Dec.abs_raw_nonneg _) hl)).2.2
  rw [quote_neg, iabs_trunc_neg _ hnn]
  have ht := trunc_le_q _ hnn
  have hw := withdraw_quote_guard sp P lo hi liq.raw a b hl hlh' hqa hqb
  have hu := errW_ge_u hg P hlh
  exact ⟨by linarith [ht.1, hw, u_pos], ht.2⟩

theorem iabs_trunc_zero : iabs (Dec.truncateInt Dec.zero) = 0 := by decide

/-- `sp` is the model's grid on tick `t`: `TickToSqrtPrice t` succeeds there and `sp t` is its rational value -/
def OnGrid (sp : Int → Rat) (tp : TickParams) (t : Int) : Prop := ∀ v, tickToSqrtPrice t tp = .ok v → sp t = q v

theorem onGrid_of_eq {sp : Int → Rat} {tp : TickParams} {t : Int} (h : sp t = spOf tp t) : OnGrid sp tp t := by
  intro v hv; rw [h, spOf_ok hv]

/-- **withdrawal amounts of `CalcActualAmounts`** (negative liquidity delta, `roundUp = false`): whichever of its three
    branches is taken (cursor below / inside / above the position's range), the integer coins `|TruncateInt|` are at most
    the exact entitlement at the current price clamped into the range, plus `errW` -/
theorem withdraw_amounts_guard (sp : Int → Rat) (hg : GridOK sp) (p : Pool) (lo hi : Int) (liq x y : Dec)
    (hin : priceInTick sp (q p.sqrtP) p.tick) (hl : 0 ≤ liq.raw)
    (hlo : OnGrid sp p.tp lo) (hhi : OnGrid sp p.tp hi)
    (h : calcActualAmounts p lo hi (Dec.neg liq) = .ok (x, y)) :
    lo < hi ∧ 0 < liq.raw ∧
    ((iabs (Dec.truncateInt x) : Int) : Rat) ≤ entBase sp (q p.sqrtP) ⟨lo, hi, liq.raw⟩ + errW sp (q p.sqrtP) lo hi ∧
    ((iabs (Dec.truncateInt y) : Int) : Rat) ≤ entQuote sp (q p.sqrtP) ⟨lo, hi, liq.raw⟩ + errW sp (q p.sqrtP) lo hi ∧
    0 ≤ iabs (Dec.truncateInt x) ∧ 0 ≤ iabs (Dec.truncateInt y) := by
  obtain ⟨pl, pu, hz, hlh, hpl, hpu, hc⟩ := calcActualAmounts_ok h
  have hpos : 0 < liq.raw := by
    have : liq.raw ≠ 0 := by simpa [Dec.isZero, Dec.neg] using hz
    omega
  have hnp : (Dec.neg liq).isPositive = false := by simp [Dec.isPositive, Dec.neg]; omega
  rw [hnp] at hc
  have hql := hlo pl hpl
  have hqu := hhi pu hpu
  have hlh' : sp lo ≤ sp hi := le_of_lt (hg.2 lo hi hlh)
  have hE : 0 ≤ errW sp (q p.sqrtP) lo hi := le_trans (le_of_lt u_pos) (errW_ge_u hg _ hlh)
  refine ⟨hlh, hpos, ?_⟩
  rcases hc with ⟨h1, h2, ex, ey⟩ | ⟨h1, ex, ey⟩ | ⟨h1, ex, ey⟩
  · -- cursor inside the range: sp lo ≤ sp tick ≤ P ≤ sp (tick+1) ≤ sp hi
    have hcl : clamp (q p.sqrtP) (sp lo) (sp hi) = q p.sqrtP :=
      clamp_mid (le_trans (grid_mono hg h1) hin.1) (le_trans hin.2 (grid_mono hg (by omega)))
    have hb := withdraw_base_part sp hg (q p.sqrtP) lo hi hlh liq p.sqrtP pu hl hcl.symm hqu.symm
    have hq := withdraw_quote_part sp hg (q p.sqrtP) lo hi hlh liq pl p.sqrtP hl hql.symm hcl.symm
    rw [quote_symm] at hq
    rw [ex, ey]
    exact ⟨hb.1, hq.1, hb.2, hq.2⟩
  · -- cursor below the range: P ≤ sp (tick+1) ≤ sp lo, all base
    have hcl : clamp (q p.sqrtP) (sp lo) (sp hi) = sp lo :=
      clamp_low (le_trans hin.2 (grid_mono hg (by omega))) hlh'
    have hb := withdraw_base_part sp hg (q p.sqrtP) lo hi hlh liq pl pu hl (by rw [hcl]; exact hql.symm) hqu.symm
    rw [ex, ey, iabs_trunc_zero]
    refine ⟨hb.1, ?_, hb.2, le_refl _⟩
    unfold entQuote; simp only [hcl, sub_self, mul_zero, zero_add, Int.cast_zero]; exact hE
  · -- cursor at or above the range: sp hi ≤ sp tick ≤ P, all quote
    have hcl : clamp (q p.sqrtP) (sp lo) (sp hi) = sp hi :=
      clamp_high (le_trans (grid_mono hg h1) hin.1) hlh'
    have hq := withdraw_quote_part sp hg (q p.sqrtP) lo hi hlh liq pl pu hl hql.symm (by rw [hcl]; exact hqu.symm)
    rw [ex, ey, iabs_trunc_zero]
    refine ⟨?_, hq.1, le_refl _, hq.2⟩
    unfold entBase; simp only [hcl, sub_self, mul_zero, zero_add, Int.cast_zero]; exact hE

/-! ### D. bank effects -/

theorem bank_setAccum (s : St) (a : Accum) : (setAccum s a).bank = s.bank := rfl
theorem bank_delAccPos (s : St) (i : Nat) : (delAccPos s i).bank = s.bank := rfl
theorem bank_setAccPos (s : St) (a : AccPos) : (setAccPos s a).bank = s.bank := by unfold setAccPos; split <;> rfl

macro "bank_leaf" h:ident : tactic => `(tactic| (
  have e := congrArg Prod.fst (res_ok_inj $h)
  dsimp only at e
  subst e
  repeat (first | rfl | rw [bank_setAccum] | rw [bank_setAccPos] | rw [bank_delAccPos] | split)))

theorem prepareClaimableFees_bank {s s' : St} {posId : Nat} {c : List (String × Int)}
    (h : prepareClaimableFees s posId = .ok (s', c)) : s'.bank = s.bank := by
  unfold prepareClaimableFees at h
  simp only [bind, pure, err_bind, ok_bind] at h
  split at h
  · split at h
    · split at h
      · obtain ⟨outside, _, h⟩ := bind_ok h
        obtain ⟨total, _, h⟩ := bind_ok h
        split at h
        · split at h
          · split at h
            · obtain ⟨per, _, h⟩ := bind_ok h
              bank_leaf h
            · bank_leaf h
          · cases h
        · bank_leaf h
      · cases h
    · cases h
  · cases h

theorem foldl_send_not_ok (src dst : Addr) (cs : List (String × Int)) :
    ∀ (r : Res Bank), (∀ b, r ≠ .ok b) →
      ∀ b', cs.foldl (fun (r : Res Bank) c => r.bind fun b => b.send src dst c.1 c.2) r ≠ .ok b' := by
  induction cs with
  | nil => intro r hr b'; exact hr b'
  | cons c cs ih =>
    intro r hr b'
    simp only [List.foldl_cons]
    apply ih
    intro b
    cases r with
    | ok a => exact absurd rfl (hr a)
    | err e => intro h; cases h
    | panic k => intro h; cases h

theorem sendCoins_other {src dst : Addr} (cs : List (String × Int)) :
    ∀ {b b' : Bank}, sendCoins b src dst cs = .ok b' → ∀ a d, a ≠ src → a ≠ dst → b'.bal a d = b.bal a d := by
  induction cs with
  | nil => intro b b' h a d _ _; unfold sendCoins at h; simp only [List.foldl_nil] at h; rw [res_ok_inj h]
  | cons c cs ih =>
    intro b b' h a d h1 h2
    unfold sendCoins at h
    simp only [List.foldl_cons] at h
    cases hs : (Res.ok b : Res Bank).bind (fun b => b.send src dst c.1 c.2) with
    | ok b1 =>
      rw [hs] at h
      have hb1 : b.send src dst c.1 c.2 = .ok b1 := hs
      have := ih (b := b1) (b' := b') h a d h1 h2
      rw [this, (Bank.send_ok hb1).2.2]
      simp [h1, h2]
    | err e => rw [hs] at h; exact absurd h (foldl_send_not_ok src dst cs _ (by intro b hb; cases hb) b')
    | panic k => rw [hs] at h; exact absurd h (foldl_send_not_ok src dst cs _ (by intro b hb; cases hb) b')

/-- collecting fees moves coins from the pool's FEE account to the owner only -/
theorem collectFees_bank {s s' : St} {sender : Addr} {posId : Nat} {c : List (String × Int)} {pos : Position}
    (hpos : getPosition s posId = some pos) (h : collectFees s sender posId = .ok (s', c)) :
    ∀ a d, a ≠ feesAddr pos.pool → a ≠ sender → s'.bank.bal a d = s.bank.bal a d := by
  unfold collectFees at h
  simp only [bind, pure, err_bind, ok_bind] at h
  rw [hpos] at h
  simp only [] at h
  obtain ⟨_, h⟩ := ite_err_ok h
  obtain ⟨x, hx, h⟩ := bind_ok h
  have hb := prepareClaimableFees_bank (s' := x.1) (c := x.2) hx
  intro a d h1 h2
  rcases ite_ok h with ⟨_, h⟩ | ⟨_, h⟩
  · have e := congrArg Prod.fst (res_ok_inj h)
    dsimp only at e; subst e; rw [hb]
  · obtain ⟨_, h⟩ := ite_err_ok h
    obtain ⟨b, hsend, h⟩ := bind_ok h
    have e := congrArg Prod.fst (res_ok_inj h)
    dsimp only at e; subst e
    show b.bal a d = s.bank.bal a d
    rw [sendCoins_other _ hsend a d h1 h2, hb]

theorem poolAddr_ne_feesAddr (id : Nat) : poolAddr id ≠ feesAddr id := by
  unfold poolAddr feesAddr
  intro h
  have := congrArg String.toList h
  simp [toString] at this

/-! ### E. `DecreaseLiquidity` -/

theorem bank_condRemove (x : St) (b : Bank) (pool : Nat) (lo hi : Int) (loE hiE : Bool) :
    (if hiE then removeTick (if loE then removeTick { x with bank := b } pool lo else { x with bank := b }) pool hi
      else (if loE then removeTick { x with bank := b } pool lo else { x with bank := b })).bank = b := by
  cases loE <;> cases hiE <;> rfl

/-- inversion of a successful `DecreaseLiquidity`, keeping the amounts and the two bank sends -/
theorem decreaseLiquidity_parts {s : St} {sender : Addr} {posId : Nat} {liq : Dec} {s' : St} {ab aq : Int}
    (h : decreaseLiquidity s sender posId liq = .ok (s', ab, aq)) :
    ∃ pos p s1 c s2 ab0 aq0 loE hiE b1 b2,
      getPosition s posId = some pos ∧ sender = pos.owner ∧ 0 ≤ liq.raw ∧ liq.raw ≤ pos.liq.raw ∧ getPool s pos.pool = some p ∧
      collectFees s sender posId = .ok (s1, c) ∧
      updatePosition s1 pos.pool pos.lower pos.upper (Dec.neg liq) posId = .ok (s2, ab0, aq0, loE, hiE) ∧
      ab = iabs ab0 ∧ aq = iabs aq0 ∧
      s2.bank.send (poolAddr p.id) sender p.base ab = .ok b1 ∧ b1.send (poolAddr p.id) sender p.quote aq = .ok b2 ∧
      s'.bank = b2 := by
  unfold decreaseLiquidity at h
  simp only [bind, pure, err_bind, ok_bind] at h
  cases hpos : getPosition s posId with
  | none => rw [hpos] at h; cases h
  | some pos =>
    rw [hpos] at h
    simp only [] at h
    obtain ⟨hown, h⟩ := ite_err_ok h
    obtain ⟨hn, h⟩ := ite_err_ok h
    obtain ⟨hle, h⟩ := ite_err_ok h
    cases hp : getPool s pos.pool with
    | none => rw [hp] at h; cases h
    | some p =>
      rw [hp] at h
      simp only [] at h
      obtain ⟨x, hx, h⟩ := bind_ok h
      obtain ⟨y, hy, h⟩ := bind_ok h
      obtain ⟨_, h⟩ := ite_err_ok h
      obtain ⟨_, h⟩ := ite_err_ok h
      obtain ⟨b1, hb1, h⟩ := bind_ok h
      obtain ⟨b2, hb2, h⟩ := bind_ok h
      have e := res_ok_inj h
      have e1 := congrArg Prod.fst e
      have e2 : iabs y.2.1 = ab := congrArg (fun z => z.2.1) e
      have e3 : iabs y.2.2.1 = aq := congrArg (fun z => z.2.2) e
      dsimp only at e1
      have hn' : 0 ≤ liq.raw := by
        have : ¬ liq.raw < 0 := by simpa [Dec.isNegative] using hn
        omega
      refine ⟨pos, p, x.1, x.2, y.1, y.2.1, y.2.2.1, y.2.2.2.1, y.2.2.2.2, b1, b2, rfl, ?_, hn', by omega, hp, hx, hy,
        e2.symm, e3.symm, ?_, ?_, ?_⟩
      · exact Classical.not_not.mp hown
      · rw [← e2]; exact hb1
      · rw [← e3]; exact hb2
      · rw [← e1]; exact bank_condRemove _ _ _ _ _ _ _

theorem getPool_id {s : St} {pool : Nat} {p : Pool} (h : getPool s pool = some p) : p.id = pool := by
  have := List.find?_some h
  simpa using this

/-- the abstract position of a stored position is in the abstraction's list -/
theorem absC_pos_index {s : St} {posId : Nat} {pos : Position} (hpos : getPosition s posId = some pos) :
    ∃ i : Nat, (((s.positions.filter (·.pool == pos.pool)).reverse).map
      fun q => (⟨q.lower, q.upper, q.liq.raw⟩ : CLBook.Pos))[i]? = some (⟨pos.lower, pos.upper, pos.liq.raw⟩ : CLBook.Pos) := by
  apply List.getElem?_of_mem
  apply List.mem_map.mpr
  refine ⟨pos, ?_, rfl⟩
  apply List.mem_reverse.mpr
  apply List.mem_filter.mpr
  exact ⟨List.mem_of_find?_eq_some hpos, by simp⟩

/-- `CLCustodyAbs.absC` with the pool record made explicit -/
def absOf (s : St) (pool : Nat) (p : Pool) (slack : Rat) (sp : Int → Rat) : CLCustody.St :=
  { book := {
      pos := ((s.positions.filter (·.pool == pool)).reverse).map fun q => ⟨q.lower, q.upper, q.liq.raw⟩
      gross := fun t => match findTick s pool t with | some ti => ti.gross.raw | none => 0
      net := fun t => match findTick s pool t with | some ti => ti.net.raw | none => 0
      tick := p.tick
      active := p.liq.raw }
    sp := sp
    P := ratOfDec p.sqrtP
    base := (s.bank.bal (poolAddr pool) p.base : Int)
    quote := (s.bank.bal (poolAddr pool) p.quote : Int)
    slack := slack }

theorem absC_eq {s : St} {pool : Nat} {p : Pool} (hp : getPool s pool = some p) (slack : Rat) (sp : Int → Rat) :
    CLCustody.absC s pool slack sp = some (absOf s pool p slack sp) := by
  simp only [CLCustody.absC, hp]
  rfl

/-- **1. `withdraw_guard_store`** — a successful store-level `DecreaseLiquidity` satisfies the guard of the custody
    abstraction's `withdraw` operation on the abstraction (`CLCustodyAbs.absC`) of the state before, with the analytic
    rounding allowance `e = errW` (= `C02Kernel.E'` at the clamped price; at most `errTol` of the smallest price involved,
    `errW_le_errTol`):  coins paid out ≤ exact entitlement + e  on both sides, `0 ≤ δ ≤` the position's liquidity. -/
theorem withdraw_guard_store {s s' : St} {sender : Addr} {posId : Nat} {liq : Dec} {ab aq : Int}
    {pos : Position} {p : Pool} (sp : Int → Rat) (slack : Rat)
    (h : decreaseLiquidity s sender posId liq = .ok (s', ab, aq))
    (hpos : getPosition s posId = some pos) (hp : getPool s pos.pool = some p)
    (hg : GridOK sp) (hin : priceInTick sp (ratOfDec p.sqrtP) p.tick)
    (hlo : OnGrid sp p.tp pos.lower) (hhi : OnGrid sp p.tp pos.upper) :
    ∃ (a : CLCustody.St) (i : Nat), CLCustody.absC s pos.pool slack sp = some a ∧
      a.book.pos[i]? = some ⟨pos.lower, pos.upper, pos.liq.raw⟩ ∧
      (CLCustody.Op.withdraw i liq.raw (ab : Rat) (aq : Rat) (errW sp a.P pos.lower pos.upper)).guard a := by
  obtain ⟨pos', p', s1, c, s2, ab0, aq0, loE, hiE, b1, b2, hpos', _, hl, hle, hp', hcf, hup, eab, eaq, _, _, _⟩ :=
    decreaseLiquidity_parts h
  rw [hpos] at hpos'; cases hpos'
  rw [hp] at hp'; cases hp'
  obtain ⟨p1, x, y, hp1, hcalc, ex, ey⟩ := updatePosition_amounts hup
  have hcore := collectFees_core hcf
  rw [getPool_congr hcore.1, hp] at hp1; cases hp1
  rw [ratOfDec_eq_q] at hin
  obtain ⟨hlh, hpos0, hB, hQ, _, _⟩ := withdraw_amounts_guard sp hg p pos.lower pos.upper liq x y hin hl hlo hhi hcalc
  obtain ⟨i, hi⟩ := absC_pos_index hpos
  have hP : 0 < q p.sqrtP := lt_of_lt_of_le (hg.1 p.tick) hin.1
  refine ⟨absOf s pos.pool p slack sp, i, absC_eq hp slack sp, hi, ?_⟩
  show CLCustody.Op.guard (absOf s pos.pool p slack sp)
    (CLCustody.Op.withdraw i liq.raw (ab : Rat) (aq : Rat) (errW sp (ratOfDec p.sqrtP) pos.lower pos.upper))
  rw [ratOfDec_eq_q]
  have hPe : (absOf s pos.pool p slack sp).P = q p.sqrtP := ratOfDec_eq_q _
  unfold CLCustody.Op.guard
  simp only [CLCustody.bookOp, CLBook.Op.guard, hPe]
  refine ⟨⟨_, hi, hl, hle⟩, le_trans (le_of_lt u_pos) (errW_ge_u hg _ hlh), hP, _, hi, ?_, ?_⟩
  · rw [eab, ex]; exact hB
  · rw [eaq, ey]; exact hQ

/-- **1 (bank effect).** exactly `(ab, aq)` leave the pool account — the pool account's balances of the pool's two
    denominations drop by `ab` and `aq`, the pool could pay them, they are non-negative; every account other than the
    owner, the pool account and the pool's fee account is untouched (the fee account pays the collected fees to the owner
    in the same message).  Boundary hypotheses: the signer is not the pool's module account, and the pool's two
    denominations differ (`createPoolValid` does not require it; with equal denominations the two balances of the
    abstraction are the same number and `absC` is not meaningful). -/
theorem withdraw_bank_store {s s' : St} {sender : Addr} {posId : Nat} {liq : Dec} {ab aq : Int}
    {pos : Position} {p : Pool}
    (h : decreaseLiquidity s sender posId liq = .ok (s', ab, aq))
    (hpos : getPosition s posId = some pos) (hp : getPool s pos.pool = some p)
    (hs : sender ≠ poolAddr pos.pool) (hd : p.base ≠ p.quote) :
    0 ≤ ab ∧ 0 ≤ aq ∧
    ab ≤ s.bank.bal (poolAddr pos.pool) p.base ∧ aq ≤ s.bank.bal (poolAddr pos.pool) p.quote ∧
    s'.bank.bal (poolAddr pos.pool) p.base = s.bank.bal (poolAddr pos.pool) p.base - ab ∧
    s'.bank.bal (poolAddr pos.pool) p.quote = s.bank.bal (poolAddr pos.pool) p.quote - aq ∧
    (∀ a d, a ≠ sender → a ≠ poolAddr pos.pool → a ≠ feesAddr pos.pool → s'.bank.bal a d = s.bank.bal a d) := by
  obtain ⟨pos', p', s1, c, s2, ab0, aq0, loE, hiE, b1, b2, hpos', _, hl, hle, hp', hcf, hup, eab, eaq, hs1, hs2, hbank⟩ :=
    decreaseLiquidity_parts h
  rw [hpos] at hpos'; cases hpos'
  rw [hp] at hp'; cases hp'
  rw [getPool_id hp] at hs1 hs2
  obtain ⟨_, _, _, _, _, _, _, _, _, _, _, _, _, hb21, _, _⟩ := updatePosition_frames hup
  have hfee := collectFees_bank hpos hcf
  have hpf := poolAddr_ne_feesAddr pos.pool
  have hs' : poolAddr pos.pool ≠ sender := fun e => hs e.symm
  obtain ⟨n1, l1, e1⟩ := Bank.send_ok hs1
  obtain ⟨n2, l2, e2⟩ := Bank.send_ok hs2
  have k1 : s2.bank.bal (poolAddr pos.pool) p.base = s.bank.bal (poolAddr pos.pool) p.base := by
    rw [hb21]; exact hfee _ _ hpf hs'
  have k2 : s2.bank.bal (poolAddr pos.pool) p.quote = s.bank.bal (poolAddr pos.pool) p.quote := by
    rw [hb21]; exact hfee _ _ hpf hs'
  have k3 : b1.bal (poolAddr pos.pool) p.quote = s2.bank.bal (poolAddr pos.pool) p.quote := by
    rw [e1]; simp [hs', hd, Ne.symm hd]
  refine ⟨n1, n2, by rw [← k1]; exact l1, by rw [← k2, ← k3]; exact l2, ?_, ?_, ?_⟩
  · rw [hbank, e2, e1, ← k1]; simp [hs', hd, Ne.symm hd]; omega
  · rw [hbank, e2, ← k2, ← k3]; simp [hs', hd, Ne.symm hd]; omega
  · intro a d ha1 ha2 ha3
    rw [hbank, e2, e1]
    simp [ha1, ha2]
    rw [hb21]; exact hfee a d ha3 ha1

/-! ### F. deposits (`CreatePosition`, and through it the second half of `IncreaseLiquidity`) -/

/-- `TruncateInt` of a whole non-negative decimal is exact -/
theorem trunc_whole (x : Dec) (hx : 0 ≤ x.raw) (hw : x.raw % PREC = 0) : ((Dec.truncateInt x : Int) : Rat) = q x := by
  have h := Dec.truncateInt_nonneg_bounds x hx
  have e : x.raw = PREC * Dec.truncateInt x := by
    have h1 := h.1; have h2 := h.2.1
    simp only [Dec.PREC_eq] at h1 h2 hw ⊢
    omega
  unfold q
  rw [e]; push_cast; rw [PREC_cast]; field_simp

theorem deposit_base_part (sp : Int → Rat) (hg : GridOK sp) (P : Rat) (lo hi : Int) (hlh : lo < hi) (δ a b : Dec)
    (hl : 0 ≤ δ.raw) (hqa : q a = clamp P (sp lo) (sp hi)) (hqb : q b = sp hi) :
    entBase sp P ⟨lo, hi, δ.raw⟩ ≤ ((Dec.truncateInt (CalcAmountBaseDelta δ a b true) : Int) : Rat) + errW sp P lo hi := by
  have hlh' : sp lo ≤ sp hi := le_of_lt (hg.2 lo hi hlh)
  have hc := clamp_mem P (sp lo) (sp hi) hlh'
  have ha : 0 < a.raw := raw_pos_of_q_pos (by rw [hqa]; linarith [hc.1, hg.1 lo])
  have hab : a.raw ≤ b.raw := raw_le_of_q_le (by rw [hqa, hqb]; exact hc.2)
  have hnn : 0 ≤ (CalcAmountBaseDelta δ a b true).raw := by
    rw [base_unfold_le δ a b true hab]
    simp only [if_true]
    have h0 := (baseCore_bounds δ a b hl ha hab).2.2
    exact le_trans h0 (Dec.ceil_nonneg_bounds _ h0).1
  rw [trunc_whole _ hnn (base_up δ a b hl ha hab).2.2]
  have hw := deposit_base_guard sp P lo hi δ.raw a b hl (hg.1 lo) hlh' hqa hqb
  rw [E'_eq_errW sp P lo hi a b hqa hqb] at hw
  exact hw

theorem deposit_quote_part (sp : Int → Rat) (hg : GridOK sp) (P : Rat) (lo hi : Int) (hlh : lo < hi) (δ a b : Dec)
    (hl : 0 ≤ δ.raw) (hqa : q a = sp lo) (hqb : q b = clamp P (sp lo) (sp hi)) :
    entQuote sp P ⟨lo, hi, δ.raw⟩ ≤ ((Dec.truncateInt (CalcAmountQuoteDelta δ a b true) : Int) : Rat) + errW sp P lo hi := by
  have hlh' : sp lo ≤ sp hi := le_of_lt (hg.2 lo hi hlh)
  have hc := clamp_mem P (sp lo) (sp hi) hlh'
  have hab : a.raw ≤ b.raw := raw_le_of_q_le (by rw [hqa, hqb]; exact hc.1)
  have hnn : 0 ≤ (CalcAmountQuoteDelta δ a b true).raw := by
    simp only [CalcAmountQuoteDelta, if_true]
    have h0 := (q_mul_bounds _ δ (Int.mul_nonneg (Dec.abs_raw_nonneg (Dec.sub b a)) hl)).2.2
    exact le_trans h0 (Dec.ceil_nonneg_bounds _ h0).1
  rw [trunc_whole _ hnn (quote_up δ a b hl hab).2.2]
  have hw := deposit_quote_guard sp P lo hi δ.raw a b hl hlh' hqa hqb
  have hu := errW_ge_u hg P hlh
  linarith [u_pos]

theorem trunc_zero : Dec.truncateInt Dec.zero = 0 := by decide

/-- **deposit amounts of `CalcActualAmounts`** (positive liquidity delta, `roundUp = true`): in each of the three branches
    the integer coins requested are at least the exact entitlement minus `errW` -/
theorem deposit_amounts_guard (sp : Int → Rat) (hg : GridOK sp) (p : Pool) (lo hi : Int) (δ x y : Dec)
    (hin : priceInTick sp (q p.sqrtP) p.tick) (hl : 0 < δ.raw)
    (hlo : OnGrid sp p.tp lo) (hhi : OnGrid sp p.tp hi)
    (h : calcActualAmounts p lo hi δ = .ok (x, y)) :
    lo < hi ∧
    entBase sp (q p.sqrtP) ⟨lo, hi, δ.raw⟩ ≤ ((Dec.truncateInt x : Int) : Rat) + errW sp (q p.sqrtP) lo hi ∧
    entQuote sp (q p.sqrtP) ⟨lo, hi, δ.raw⟩ ≤ ((Dec.truncateInt y : Int) : Rat) + errW sp (q p.sqrtP) lo hi := by
  obtain ⟨pl, pu, hz, hlh, hpl, hpu, hc⟩ := calcActualAmounts_ok h
  have hnp : δ.isPositive = true := by simp [Dec.isPositive]; omega
  rw [hnp] at hc
  have hl' : 0 ≤ δ.raw := by omega
  have hql := hlo pl hpl
  have hqu := hhi pu hpu
  have hlh' : sp lo ≤ sp hi := le_of_lt (hg.2 lo hi hlh)
  have hE : 0 ≤ errW sp (q p.sqrtP) lo hi := le_trans (le_of_lt u_pos) (errW_ge_u hg _ hlh)
  refine ⟨hlh, ?_⟩
  rcases hc with ⟨h1, h2, ex, ey⟩ | ⟨h1, ex, ey⟩ | ⟨h1, ex, ey⟩
  · have hcl : clamp (q p.sqrtP) (sp lo) (sp hi) = q p.sqrtP :=
      clamp_mid (le_trans (grid_mono hg h1) hin.1) (le_trans hin.2 (grid_mono hg (by omega)))
    have hb := deposit_base_part sp hg (q p.sqrtP) lo hi hlh δ p.sqrtP pu hl' hcl.symm hqu.symm
    have hq := deposit_quote_part sp hg (q p.sqrtP) lo hi hlh δ pl p.sqrtP hl' hql.symm hcl.symm
    rw [quote_symm] at hq
    rw [ex, ey]
    exact ⟨hb, hq⟩
  · have hcl : clamp (q p.sqrtP) (sp lo) (sp hi) = sp lo :=
      clamp_low (le_trans hin.2 (grid_mono hg (by omega))) hlh'
    have hb := deposit_base_part sp hg (q p.sqrtP) lo hi hlh δ pl pu hl' (by rw [hcl]; exact hql.symm) hqu.symm
    rw [ex, ey, trunc_zero]
    refine ⟨hb, ?_⟩
    unfold entQuote; simp only [hcl, sub_self, mul_zero, zero_add, Int.cast_zero]; exact hE
  · have hcl : clamp (q p.sqrtP) (sp lo) (sp hi) = sp hi :=
      clamp_high (le_trans (grid_mono hg h1) hin.1) hlh'
    have hq := deposit_quote_part sp hg (q p.sqrtP) lo hi hlh δ pl pu hl' hql.symm (by rw [hcl]; exact hqu.symm)
    rw [ex, ey, trunc_zero]
    refine ⟨?_, hq⟩
    unfold entBase; simp only [hcl, sub_self, mul_zero, zero_add, Int.cast_zero]; exact hE

/-- inversion of a successful `CreatePosition`, keeping the outputs and the two bank sends -/
theorem createPosition_parts {s : St} {sender : Addr} {pool : Nat} {lo hi : Int} {dBase dQuote : Denom}
    {aBase aQuote minBase minQuote : Int} {s' : St} {out : CreatePosOut}
    (h : createPosition s sender pool lo hi dBase aBase dQuote aQuote minBase minQuote = .ok (s', out)) :
    ∃ p0 s1 delta s3 ab aq loE hiE b1 b2,
      getPool s pool = some p0 ∧ p0.base = dBase ∧ p0.quote = dQuote ∧
      ((poolLive p0 = true ∧ s1 = s) ∨
        (poolLive p0 = false ∧ ∃ sp t, TickMath.sqrtPriceToTick sp p0.tp = .ok t ∧ s1 = setPool s { p0 with sqrtP := sp, tick := t })) ∧
      delta.isZero = false ∧
      updatePosition (withFresh s1 sender pool lo hi) pool lo hi delta s1.nextPos = .ok (s3, ab, aq, loE, hiE) ∧
      out.base = ab ∧ out.quote = aq ∧ out.id = s1.nextPos ∧
      s3.bank.send sender (poolAddr pool) dBase ab = .ok b1 ∧ b1.send sender (poolAddr pool) dQuote aq = .ok b2 ∧
      s' = { s3 with bank := b2 } := by
  unfold createPosition at h
  cases hp : getPool s pool with
  | none => rw [hp] at h; cases h
  | some p0 =>
    rw [hp] at h
    cases hlive : poolLive p0 with
    | true =>
      simp only [bind, pure, err_bind, ok_bind, hlive] at h
      obtain ⟨hct, h⟩ := ite_err_ok h
      obtain ⟨hdb, h⟩ := ite_err_ok h
      obtain ⟨hdq, h⟩ := ite_err_ok h
      obtain ⟨_, h⟩ := ite_err_ok h
      obtain ⟨_, h⟩ := ite_err_ok h
      obtain ⟨x, _, h⟩ := bind_ok h
      rcases ite_ok h with ⟨hc, _⟩ | ⟨_, h⟩
      · simp at hc
      rcases ite_ok h with ⟨_, h⟩ | ⟨_, h⟩
      · cases h
      obtain ⟨hnz, h⟩ := ite_err_ok h
      obtain ⟨y, hy, h⟩ := bind_ok h
      obtain ⟨_, h⟩ := ite_err_ok h
      obtain ⟨_, h⟩ := ite_err_ok h
      obtain ⟨_, h⟩ := ite_err_ok h
      obtain ⟨_, h⟩ := ite_err_ok h
      obtain ⟨b1, hb1, h⟩ := bind_ok h
      obtain ⟨b2, hb2, h⟩ := bind_ok h
      have hr := res_ok_inj h
      have ho := (congrArg Prod.snd hr).symm
      dsimp only at ho
      refine ⟨p0, s, _, y.1, y.2.1, y.2.2.1, y.2.2.2.1, y.2.2.2.2, b1, b2, rfl, Classical.not_not.mp hdb,
        Classical.not_not.mp hdq, Or.inl ⟨hlive, rfl⟩, by simpa using hnz, hy, by rw [ho], by rw [ho], by rw [ho], hb1, hb2, ?_⟩
      exact (congrArg Prod.fst hr).symm
    | false =>
      simp only [bind, pure, err_bind, ok_bind, hlive] at h
      obtain ⟨hct, h⟩ := ite_err_ok h
      obtain ⟨hdb, h⟩ := ite_err_ok h
      obtain ⟨hdq, h⟩ := ite_err_ok h
      obtain ⟨_, h⟩ := ite_err_ok h
      obtain ⟨_, h⟩ := ite_err_ok h
      obtain ⟨x, _, h⟩ := bind_ok h
      rcases ite_ok h with ⟨_, h⟩ | ⟨hc, _⟩
      swap
      · exact absurd rfl hc
      obtain ⟨_, h⟩ := ite_err_ok h
      obtain ⟨sp, _, h⟩ := bind_ok h
      obtain ⟨t, ht, h⟩ := bind_ok h
      rcases ite_ok h with ⟨_, h⟩ | ⟨_, h⟩
      · cases h
      obtain ⟨hnz, h⟩ := ite_err_ok h
      obtain ⟨y, hy, h⟩ := bind_ok h
      obtain ⟨_, h⟩ := ite_err_ok h
      obtain ⟨_, h⟩ := ite_err_ok h
      obtain ⟨_, h⟩ := ite_err_ok h
      obtain ⟨_, h⟩ := ite_err_ok h
      obtain ⟨b1, hb1, h⟩ := bind_ok h
      obtain ⟨b2, hb2, h⟩ := bind_ok h
      have hr := res_ok_inj h
      have ho := (congrArg Prod.snd hr).symm
      dsimp only at ho
      refine ⟨p0, setPool s { p0 with sqrtP := sp, tick := t }, _, y.1, y.2.1, y.2.2.1, y.2.2.2.1, y.2.2.2.2, b1, b2, rfl,
        Classical.not_not.mp hdb, Classical.not_not.mp hdq, Or.inr ⟨hlive, sp, t, ht, rfl⟩, by simpa using hnz, hy,
        by rw [ho], by rw [ho], by rw [ho], hb1, hb2, ?_⟩
      exact (congrArg Prod.fst hr).symm

/-- **2. `deposit_guard_store`** — a successful store-level `CreatePosition` satisfies the guard of the custody
    abstraction's `deposit` operation: coins paid in ≥ exact entitlement − e on both sides, with `e = errW`, `lo < hi`,
    `0 < δ`.  `p` is the pool record `UpdatePosition` reads: the stored record for a live pool; for the first position of an
    empty pool the stored record with the price / cursor just fixed by `initFirstPositionForPool` (the abstraction performs
    `setPrice` first; `C04Interval.createPosition_first` proves the interval hypothesis for that case).  The guard is
    stated on the abstraction of the state before with that record. -/
theorem deposit_guard_store {s s' : St} {sender : Addr} {pool : Nat} {lo hi : Int} {dBase dQuote : Denom}
    {aBase aQuote minBase minQuote : Int} {out : CreatePosOut} (sp : Int → Rat) (slack : Rat)
    (h : createPosition s sender pool lo hi dBase aBase dQuote aQuote minBase minQuote = .ok (s', out))
    (hg : GridOK sp) :
    ∃ p0 p δ, getPool s pool = some p0 ∧
      ((poolLive p0 = true ∧ p = p0) ∨
        (poolLive p0 = false ∧ ∃ P t, TickMath.sqrtPriceToTick P p0.tp = .ok t ∧ p = { p0 with sqrtP := P, tick := t })) ∧
      0 < δ.raw ∧
      (∃ s1 s3 ab aq loE hiE,
        updatePosition (withFresh s1 sender pool lo hi) pool lo hi δ s1.nextPos = .ok (s3, ab, aq, loE, hiE)
        ∧ out.base = ab ∧ out.quote = aq) ∧
      (priceInTick sp (ratOfDec p.sqrtP) p.tick → OnGrid sp p.tp lo → OnGrid sp p.tp hi →
        (CLCustody.Op.deposit lo hi δ.raw (out.base : Rat) (out.quote : Rat) (errW sp (ratOfDec p.sqrtP) lo hi)).guard
          (absOf s pool p slack sp)) := by
  obtain ⟨p0, s1, delta, s3, ab, aq, loE, hiE, b1, b2, hp0, _, _, hcase, hnz, hup, eb, eq', _, _, _, _⟩ :=
    createPosition_parts h
  obtain ⟨p, x, y, hp, hcalc, ex, ey⟩ := updatePosition_amounts hup
  rw [getPool_congr (withFresh_frame s1 sender pool lo hi).1] at hp
  -- the fresh record has zero liquidity, UpdatePosition rejects a negative result: delta > 0
  have hδ : 0 < delta.raw := by
    obtain ⟨_, _, _, pos, _, _, _, hq, hneg, _⟩ := updatePosition_frames hup
    have hfresh : getPosition (withFresh s1 sender pool lo hi) s1.nextPos = some ⟨s1.nextPos, pool, sender, lo, hi, Dec.zero⟩ := by
      have := C04Interval.getPosition_setPosition s1 ⟨s1.nextPos, pool, sender, lo, hi, Dec.zero⟩
      rw [← this]; rfl
    rw [hfresh] at hq
    have e : pos.liq = Dec.zero := by rw [← Option.some.inj hq]
    rw [e] at hneg
    have h1 : ¬ (0 + delta.raw < 0) := by simpa [Dec.isNegative, Dec.add, Dec.zero] using hneg
    have h2 : delta.raw ≠ 0 := by simpa [Dec.isZero] using hnz
    omega
  have hpc : (poolLive p0 = true ∧ p = p0) ∨
      (poolLive p0 = false ∧ ∃ P t, TickMath.sqrtPriceToTick P p0.tp = .ok t ∧ p = { p0 with sqrtP := P, tick := t }) := by
    rcases hcase with ⟨hl, e⟩ | ⟨hl, P, t, ht, e⟩
    · subst e; rw [hp0] at hp; exact Or.inl ⟨hl, (Option.some.inj hp).symm⟩
    · subst e
      rw [C04Interval.getPool_setPool (p' := { p0 with sqrtP := P, tick := t }) hp0 rfl rfl] at hp
      exact Or.inr ⟨hl, P, t, ht, (Option.some.inj hp).symm⟩
  refine ⟨p0, p, delta, hp0, hpc, hδ, ⟨s1, s3, ab, aq, loE, hiE, hup, eb, eq'⟩, ?_⟩
  intro hin hlo hhi
  rw [ratOfDec_eq_q] at hin ⊢
  obtain ⟨hlh, hB, hQ⟩ := deposit_amounts_guard sp hg p lo hi delta x y hin hδ hlo hhi hcalc
  have hP : 0 < q p.sqrtP := lt_of_lt_of_le (hg.1 p.tick) hin.1
  have hPe : (absOf s pool p slack sp).P = q p.sqrtP := ratOfDec_eq_q _
  unfold CLCustody.Op.guard
  simp only [CLCustody.bookOp, CLBook.Op.guard, hPe]
  refine ⟨⟨hlh, by omega⟩, le_trans (le_of_lt u_pos) (errW_ge_u hg _ hlh), hP, ?_, ?_⟩
  · rw [eb, ex]; exact hB
  · rw [eq', ey]; exact hQ

/-- `IncreaseLiquidity` = `DecreaseLiquidity` of the whole position followed by `CreatePosition` with the withdrawn coins
    added: its two custody steps are covered by `withdraw_guard_store` / `withdraw_bank_store` on `s` and
    `deposit_guard_store` on the intermediate state -/
theorem increaseLiquidity_parts {s s' : St} {sender : Addr} {posId : Nat} {aBase aQuote minBase minQuote : Int}
    {out : CreatePosOut} (h : increaseLiquidity s sender posId aBase aQuote minBase minQuote = .ok (s', out)) :
    ∃ pos s1 wb wq p, getPosition s posId = some pos ∧
      decreaseLiquidity s sender posId pos.liq = .ok (s1, wb, wq) ∧ getPool s1 pos.pool = some p ∧
      createPosition s1 sender pos.pool pos.lower pos.upper p.base (wb + aBase) p.quote (wq + aQuote)
        (wb + minBase) (wq + minQuote) = .ok (s', out) := by
  unfold increaseLiquidity at h
  simp only [bind, pure, err_bind, ok_bind] at h
  cases hpos : getPosition s posId with
  | none => rw [hpos] at h; cases h
  | some pos =>
    rw [hpos] at h
    simp only [] at h
    obtain ⟨_, h⟩ := ite_err_ok h
    obtain ⟨_, h⟩ := ite_err_ok h
    obtain ⟨_, h⟩ := ite_err_ok h
    obtain ⟨x, hx, h⟩ := bind_ok h
    cases hp : getPool x.1 pos.pool with
    | none => rw [hp] at h; cases h
    | some p =>
      rw [hp] at h
      exact ⟨pos, x.1, x.2.1, x.2.2, p, rfl, hx, hp, h⟩

/-! ### H. the step of the abstraction -/

/-- store facts about a successful `DecreaseLiquidity` under the C04 store invariant: tick gross/net move by `−liq` at the
    two bounds (the deletion of emptied ticks is invisible through the abstraction), the pool record keeps its static
    fields, cursor, price; active liquidity follows `applyDelta`; a pool left without positions is reset -/
theorem decreaseLiquidity_book {s s' : St} {sender : Addr} {posId : Nat} {liq : Dec} {ab aq : Int}
    {pos : Position} {p : Pool} (hI : Inv s)
    (h : decreaseLiquidity s sender posId liq = .ok (s', ab, aq))
    (hpos : getPosition s posId = some pos) (hp : getPool s pos.pool = some p) :
    (∀ t, grossOf s' pos.pool t = grossOf s pos.pool t + (if t = pos.lower then -liq.raw else 0) + (if t = pos.upper then -liq.raw else 0) ∧
          netOf s' pos.pool t = netOf s pos.pool t + (if t = pos.lower then -liq.raw else 0) - (if t = pos.upper then -liq.raw else 0)) ∧
    ∃ p', getPool s' pos.pool = some p' ∧ p'.base = p.base ∧ p'.quote = p.quote ∧ p'.tp = p.tp ∧
      (poolHasPosition s' pos.pool = true →
        p'.tick = p.tick ∧ p'.sqrtP = p.sqrtP ∧
        p'.liq.raw = if pos.lower ≤ p.tick ∧ p.tick < pos.upper then p.liq.raw + -liq.raw else p.liq.raw) ∧
      (poolHasPosition s' pos.pool = false → p'.liq = Dec.zero ∧ p'.tick = 0 ∧ p'.sqrtP = Dec.zero) := by
  obtain ⟨pos', p0, s1, c, s2, ab0, aq0, loE, hiE, b2, hq, hn, hle, hp0, hcf, hu, hs'⟩ := decreaseLiquidity_inv h
  rw [hpos] at hq; cases hq
  rw [hp] at hp0; cases hp0
  have hc := collectFees_core hcf
  have hI1 : Inv s1 := hI.core hc
  have hq1 : getPosition s1 posId = some pos := by rw [getPosition_congr hc.2.1]; exact hpos
  have hp1 : getPool s1 pos.pool = some p := by rw [getPool_congr hc.1]; exact hp
  have hposm : pos ∈ s1.positions := List.mem_of_find?_eq_some hq1
  have hlt : pos.lower < pos.upper := (hI1.w.posWf pos hposm).2
  obtain ⟨_, _, _, _, _, _, k7, kflo, kfhi⟩ := updatePosition_struct hu hI1.w.idsNodup hq1 (by omega)
  have hticks := (updatePosition_ticks hu).1
  obtain ⟨a1, a2, a3, a4, a5, a6, a7⟩ := condRemove_facts loE { s2 with bank := b2 } pos.pool pos.lower
    (fun e => kflo.mp e)
  obtain ⟨b1, b2', b3, b4, b5, b6, b7⟩ := condRemove_facts hiE (condRemove loE { s2 with bank := b2 } pos.pool pos.lower)
    pos.pool pos.upper (fun e => by rw [(a1 _ _).1, (a1 _ _).2]; exact kfhi.mp e)
  have hs'' : s' = condRemove hiE (condRemove loE { s2 with bank := b2 } pos.pool pos.lower) pos.pool pos.upper := by
    rw [hs']; unfold condRemove; rfl
  have hgf : ∀ p' t', grossOf s' p' t' = grossOf s2 p' t' ∧ netOf s' p' t' = netOf s2 p' t' := by
    intro p' t'; rw [hs'']
    exact ⟨(b1 p' t').1.trans (a1 p' t').1, (b1 p' t').2.trans (a1 p' t').2⟩
  have hpools : s'.pools = s2.pools := by rw [hs'']; exact b3.trans a3
  have hposs : s'.positions = s2.positions := by rw [hs'']; exact b4.trans a4
  constructor
  · intro t
    rw [(hgf pos.pool t).1, (hgf pos.pool t).2, (hticks t).1, (hticks t).2,
      grossOf_congr hc.2.2.1, netOf_congr hc.2.2.1]
    exact ⟨rfl, rfl⟩
  · obtain ⟨p', hp', ⟨_, hb, hqd, _, htp⟩, hhas, hlast⟩ := updatePosition_pool hu hp1
    refine ⟨p', by rw [getPool_congr hpools]; exact hp', hb, hqd, htp, ?_, ?_⟩
    · intro hh; rw [poolHasPosition_congr hposs] at hh; exact hhas hh
    · intro hh; rw [poolHasPosition_congr hposs] at hh; exact hlast hh

/-- **3. `custody_step_refines_partial`** — FULL statement intended: `absC s' = some (CLCustody.step (absC s) op)` for
    `op = withdraw i liq ab aq e`.  Proved here, component by component, under the C04 store invariant `Inv s`
    (`C04Store.*_preserves`): balances, slack, grid, tick gross/net (all ticks), and — while the pool still has a position —
    price, cursor and active liquidity coincide with `CLCustody.step`.  NOT proved: the position LIST component
    (`book.pos`: the store deletes a position whose liquidity reaches 0, `CLBook.decAt` keeps a zero entry, so the lists
    agree only up to zero-liquidity entries — the run-time lock-step compares `livePos`), and after the LAST position of a
    pool is withdrawn the store resets price and cursor to 0 while the abstraction keeps them (third clause). -/
theorem custody_step_refines_partial {s s' : St} {sender : Addr} {posId : Nat} {liq : Dec} {ab aq : Int}
    {pos : Position} {p : Pool} (sp : Int → Rat) (slack e : Rat) (hI : Inv s)
    (h : decreaseLiquidity s sender posId liq = .ok (s', ab, aq))
    (hpos : getPosition s posId = some pos) (hp : getPool s pos.pool = some p)
    (hs : sender ≠ poolAddr pos.pool) (hd : p.base ≠ p.quote)
    (i : Nat) (hi : (absOf s pos.pool p slack sp).book.pos[i]? = some ⟨pos.lower, pos.upper, pos.liq.raw⟩) :
    ∃ p', getPool s' pos.pool = some p' ∧
      (absOf s' pos.pool p' (slack + e) sp).base
        = (CLCustody.step (absOf s pos.pool p slack sp) (.withdraw i liq.raw ab aq e)).base ∧
      (absOf s' pos.pool p' (slack + e) sp).quote
        = (CLCustody.step (absOf s pos.pool p slack sp) (.withdraw i liq.raw ab aq e)).quote ∧
      (absOf s' pos.pool p' (slack + e) sp).slack
        = (CLCustody.step (absOf s pos.pool p slack sp) (.withdraw i liq.raw ab aq e)).slack ∧
      (absOf s' pos.pool p' (slack + e) sp).sp
        = (CLCustody.step (absOf s pos.pool p slack sp) (.withdraw i liq.raw ab aq e)).sp ∧
      (absOf s' pos.pool p' (slack + e) sp).book.gross
        = (CLCustody.step (absOf s pos.pool p slack sp) (.withdraw i liq.raw ab aq e)).book.gross ∧
      (absOf s' pos.pool p' (slack + e) sp).book.net
        = (CLCustody.step (absOf s pos.pool p slack sp) (.withdraw i liq.raw ab aq e)).book.net ∧
      (poolHasPosition s' pos.pool = true →
        (absOf s' pos.pool p' (slack + e) sp).P
          = (CLCustody.step (absOf s pos.pool p slack sp) (.withdraw i liq.raw ab aq e)).P ∧
        (absOf s' pos.pool p' (slack + e) sp).book.tick
          = (CLCustody.step (absOf s pos.pool p slack sp) (.withdraw i liq.raw ab aq e)).book.tick ∧
        (absOf s' pos.pool p' (slack + e) sp).book.active
          = (CLCustody.step (absOf s pos.pool p slack sp) (.withdraw i liq.raw ab aq e)).book.active) ∧
      (poolHasPosition s' pos.pool = false →
        (absOf s' pos.pool p' (slack + e) sp).book.active = 0 ∧ p'.tick = 0 ∧ p'.sqrtP = Dec.zero) := by
  obtain ⟨hgn, p', hp', hb, hq, _, hhas, hlast⟩ := decreaseLiquidity_book hI h hpos hp
  obtain ⟨_, _, _, _, kb, kq, _⟩ := withdraw_bank_store h hpos hp hs hd
  have hstep : (CLCustody.step (absOf s pos.pool p slack sp) (.withdraw i liq.raw ab aq e))
      = { absOf s pos.pool p slack sp with
          book := CLBook.applyDelta (absOf s pos.pool p slack sp).book pos.lower pos.upper (-liq.raw)
                    (CLBook.decAt (absOf s pos.pool p slack sp).book.pos i liq.raw)
          base := (absOf s pos.pool p slack sp).base - ab
          quote := (absOf s pos.pool p slack sp).quote - aq
          slack := slack + e } := by
    simp only [CLCustody.step, CLCustody.bookOp, CLBook.step, hi]
    rfl
  rw [hstep]
  refine ⟨p', hp', ?_, ?_, rfl, rfl, ?_, ?_, ?_, ?_⟩
  · show ((s'.bank.bal (poolAddr pos.pool) p'.base : Int) : Rat) = ((s.bank.bal (poolAddr pos.pool) p.base : Int) : Rat) - ab
    rw [hb, kb]; push_cast; ring
  · show ((s'.bank.bal (poolAddr pos.pool) p'.quote : Int) : Rat) = ((s.bank.bal (poolAddr pos.pool) p.quote : Int) : Rat) - aq
    rw [hq, kq]; push_cast; ring
  · funext t
    exact (hgn t).1
  · funext t
    exact (hgn t).2
  · intro hh
    obtain ⟨h1, h2, h3⟩ := hhas hh
    refine ⟨?_, h1, ?_⟩
    · show ratOfDec p'.sqrtP = ratOfDec p.sqrtP
      rw [h2]
    · show p'.liq.raw = _
      rw [h3]; rfl
  · intro hh
    obtain ⟨h1, h2, h3⟩ := hlast hh
    exact ⟨by show p'.liq.raw = 0; rw [h1]; rfl, h2, h3⟩

theorem cst_ext {a b : CLCustody.St} (h1 : a.book.pos = b.book.pos) (h2 : a.book.gross = b.book.gross)
    (h3 : a.book.net = b.book.net) (h4 : a.book.tick = b.book.tick) (h5 : a.book.active = b.book.active)
    (h6 : a.sp = b.sp) (h7 : a.P = b.P) (h8 : a.base = b.base) (h9 : a.quote = b.quote) (h10 : a.slack = b.slack) : a = b := by
  obtain ⟨⟨_, _, _, _, _⟩, _, _, _, _, _⟩ := a
  obtain ⟨⟨_, _, _, _, _⟩, _, _, _, _, _⟩ := b
  simp only at h1 h2 h3 h4 h5 h6 h7 h8 h9 h10
  subst h1 h2 h3 h4 h5 h6 h7 h8 h9 h10
  rfl

theorem withFresh_bank (s1 : St) (sender : Addr) (pool : Nat) (lo hi : Int) : (withFresh s1 sender pool lo hi).bank = s1.bank := by
  unfold withFresh setPosition; split <;> rfl

/-- **3 (deposits, FULL).** `custody_step_refines_deposit`: after a successful `CreatePosition` the abstraction of the new
    state IS `CLCustody.step` of the abstraction of the old state (with the pool record `p` that `UpdatePosition` read: the
    stored one, or for the first position of an empty pool the one carrying the price / cursor just fixed — the
    abstraction's `setPrice`) with `deposit lo hi δ out.base out.quote e`: position list, tick gross/net, cursor, active
    liquidity, price, both balances and slack. -/
theorem custody_step_refines_deposit {s s' : St} {sender : Addr} {pool : Nat} {lo hi : Int} {dBase dQuote : Denom}
    {aBase aQuote minBase minQuote : Int} {out : CreatePosOut} (sp : Int → Rat) (slack e : Rat) (hI : Inv s)
    (h : createPosition s sender pool lo hi dBase aBase dQuote aQuote minBase minQuote = .ok (s', out))
    (hs : sender ≠ poolAddr pool) (hd : dBase ≠ dQuote) :
    ∃ p0 p p' δ, getPool s pool = some p0 ∧
      ((poolLive p0 = true ∧ p = p0) ∨
        (poolLive p0 = false ∧ ∃ P t, TickMath.sqrtPriceToTick P p0.tp = .ok t ∧ p = { p0 with sqrtP := P, tick := t })) ∧
      getPool s' pool = some p' ∧ 0 < δ ∧
      absOf s' pool p' (slack + e) sp
        = CLCustody.step (absOf s pool p slack sp) (.deposit lo hi δ (out.base : Rat) (out.quote : Rat) e) := by
  obtain ⟨p0, s1, delta, s3, ab, aq, loE, hiE, b1, b2, hp0, hdb, hdq, hcase, hnz, hup, eb, eq', _, hs1, hs2, hs'⟩ :=
    createPosition_parts h
  -- the state UpdatePosition starts from differs from `s` in the pool record only
  have hs1f : s1.positions = s.positions ∧ s1.ticks = s.ticks ∧ s1.bank = s.bank ∧ s1.nextPos = s.nextPos := by
    rcases hcase with ⟨_, e1⟩ | ⟨_, _, _, _, e1⟩ <;> subst e1 <;> exact ⟨rfl, rfl, rfl, rfl⟩
  obtain ⟨f1, f2, f3, f4⟩ := hs1f
  have hWpos := withFresh_positions s1 sender pool lo hi (by rw [f1, f4]; exact hI.w.idsLt)
  have hWt := (withFresh_frame s1 sender pool lo hi).2.1
  have hWp := (withFresh_frame s1 sender pool lo hi).1
  obtain ⟨_, s2, p, pos, _, _, hpW, hq, hneg, _, hposs2, _, hticks3, hbank3, hposs3, _⟩ := updatePosition_frames hup
  have hfresh : getPosition (withFresh s1 sender pool lo hi) s1.nextPos = some ⟨s1.nextPos, pool, sender, lo, hi, Dec.zero⟩ := by
    have := C04Interval.getPosition_setPosition s1 ⟨s1.nextPos, pool, sender, lo, hi, Dec.zero⟩
    rw [← this]; rfl
  have epos : pos = ⟨s1.nextPos, pool, sender, lo, hi, Dec.zero⟩ := by rw [hfresh] at hq; exact (Option.some.inj hq).symm
  subst epos
  have hδ : 0 < delta.raw := by
    have h1 : ¬ (0 + delta.raw < 0) := by simpa [Dec.isNegative, Dec.add, Dec.zero] using hneg
    have h2 : delta.raw ≠ 0 := by simpa [Dec.isZero] using hnz
    omega
  have hpc : (poolLive p0 = true ∧ p = p0) ∨
      (poolLive p0 = false ∧ ∃ P t, TickMath.sqrtPriceToTick P p0.tp = .ok t ∧ p = { p0 with sqrtP := P, tick := t }) := by
    rw [getPool_congr hWp] at hpW
    rcases hcase with ⟨hl, e⟩ | ⟨hl, P, t, ht, e⟩
    · subst e; rw [hp0] at hpW; exact Or.inl ⟨hl, (Option.some.inj hpW).symm⟩
    · subst e
      rw [C04Interval.getPool_setPool (p' := { p0 with sqrtP := P, tick := t }) hp0 rfl rfl] at hpW
      exact Or.inr ⟨hl, P, t, ht, (Option.some.inj hpW).symm⟩
  have hpb : p.base = dBase ∧ p.quote = dQuote := by
    rcases hpc with ⟨_, e⟩ | ⟨_, _, _, _, e⟩ <;> subst e <;> exact ⟨hdb, hdq⟩
  -- the position store after
  have hq2 : getPosition s2 s1.nextPos = some ⟨s1.nextPos, pool, sender, lo, hi, Dec.zero⟩ := by
    rw [getPosition_congr hposs2]; exact hq
  have hnotin : s1.nextPos ∉ s.positions.map (·.id) := by
    intro hm
    obtain ⟨x, hx, he⟩ := List.mem_map.mp hm
    have := hI.w.idsLt x hx
    rw [f4] at he; omega
  have hpos3 : s3.positions = s.positions ++ [⟨s1.nextPos, pool, sender, lo, hi, ⟨0 + delta.raw⟩⟩] := by
    rw [hposs3, s3Of_positions s2 s1.nextPos _ delta hq2]
    have hz : ¬ (Dec.add (Dec.zero) delta).isZero = true := by simp [Dec.isZero, Dec.add, Dec.zero]; omega
    rw [if_neg hz, hposs2, hWpos, f1, List.map_append, map_replace_self _ _ _ hnotin]
    simp [Dec.add, Dec.zero]
  have hs'pos : s'.positions = s3.positions := by rw [hs']
  have hs'ticks : s'.ticks = s3.ticks := by rw [hs']
  have hs'pools : s'.pools = s3.pools := by rw [hs']
  have hhas : poolHasPosition s3 pool = true := by
    rw [poolHasPosition_iff]
    exact ⟨⟨s1.nextPos, pool, sender, lo, hi, ⟨0 + delta.raw⟩⟩, by rw [hpos3]; simp, rfl⟩
  obtain ⟨p', hp', ⟨_, hb', hq', _, _⟩, hlive, _⟩ := updatePosition_pool hup hpW
  obtain ⟨ht, hsq, hliq⟩ := hlive hhas
  have hticks := (updatePosition_ticks hup).1
  -- the bank
  have hs'' : poolAddr pool ≠ sender := fun e => hs e.symm
  obtain ⟨_, _, e1⟩ := Bank.send_ok hs1
  obtain ⟨_, _, e2⟩ := Bank.send_ok hs2
  have hb3 : s3.bank = s.bank := by rw [hbank3, withFresh_bank, f3]
  have kb : s'.bank.bal (poolAddr pool) p'.base = s.bank.bal (poolAddr pool) p.base + ab := by
    rw [hs', hb', hpb.1]
    show b2.bal (poolAddr pool) dBase = _
    rw [e2, e1, hb3]; simp [hs'', hd, Ne.symm hd]
  have kq : s'.bank.bal (poolAddr pool) p'.quote = s.bank.bal (poolAddr pool) p.quote + aq := by
    rw [hs', hq', hpb.2]
    show b2.bal (poolAddr pool) dQuote = _
    rw [e2, e1, hb3]; simp [hs'', hd, Ne.symm hd]
  refine ⟨p0, p, p', delta.raw, hp0, hpc, by rw [getPool_congr hs'pools]; exact hp', hδ, ?_⟩
  apply cst_ext
  · show ((s'.positions.filter (·.pool == pool)).reverse).map (fun q => (⟨q.lower, q.upper, q.liq.raw⟩ : CLBook.Pos))
      = ⟨lo, hi, delta.raw⟩ :: ((s.positions.filter (·.pool == pool)).reverse).map (fun q => (⟨q.lower, q.upper, q.liq.raw⟩ : CLBook.Pos))
    rw [hs'pos, hpos3]
    simp [List.filter_append]
  · funext t
    show grossOf s' pool t = grossOf s pool t + (if t = lo then delta.raw else 0) + (if t = hi then delta.raw else 0)
    rw [grossOf_congr hs'ticks, (hticks t).1, grossOf_congr (hWt.trans f2)]
  · funext t
    show netOf s' pool t = netOf s pool t + (if t = lo then delta.raw else 0) - (if t = hi then delta.raw else 0)
    rw [netOf_congr hs'ticks, (hticks t).2, netOf_congr (hWt.trans f2)]
  · exact ht
  · show p'.liq.raw = if lo ≤ p.tick ∧ p.tick < hi then p.liq.raw + delta.raw else p.liq.raw
    exact hliq
  · rfl
  · show ratOfDec p'.sqrtP = ratOfDec p.sqrtP
    rw [hsq]
  · show ((s'.bank.bal (poolAddr pool) p'.base : Int) : Rat) = ((s.bank.bal (poolAddr pool) p.base : Int) : Rat) + (out.base : Rat)
    rw [kb, eb]; push_cast; ring
  · show ((s'.bank.bal (poolAddr pool) p'.quote : Int) : Rat) = ((s.bank.bal (poolAddr pool) p.quote : Int) : Rat) + (out.quote : Rat)
    rw [kq, eq']; push_cast; ring
  · rfl

/-! ### H'. the position list after a withdrawal -/

theorem decAt_replace (posId : Nat) (pos q : Position) (δ : Int)
    (hq : toPos q = { toPos pos with liq := pos.liq.raw - δ }) :
    ∀ R : List Position, (R.map (·.id)).Nodup → pos ∈ R → pos.id = posId →
      ∃ i : Nat, (R.map toPos)[i]? = some (toPos pos) ∧
        (R.map fun x => if x.id == posId then q else x).map toPos = CLBook.decAt (R.map toPos) i δ ∧
        (R.filter (·.id != posId)).map toPos = (R.map toPos).eraseIdx i := by
  intro R
  induction R with
  | nil => intro _ h; cases h
  | cons x xs ih =>
    intro hnd hmem hid
    rw [List.map_cons, List.nodup_cons] at hnd
    by_cases hx : pos = x
    · subst hx
      refine ⟨0, rfl, ?_, ?_⟩
      · have h1 : (pos.id == posId) = true := by simp [hid]
        rw [List.map_cons, if_pos h1, map_replace_self xs posId q (hid ▸ hnd.1)]
        simp only [List.map_cons, CLBook.decAt, hq]
        rfl
      · have h1 : (pos.id != posId) = false := by simp [hid]
        rw [List.filter_cons, h1, filter_ne_id_self xs posId (hid ▸ hnd.1)]
        simp
    · have hmem' : pos ∈ xs := by
        rcases List.mem_cons.mp hmem with h | h
        · exact absurd h hx
        · exact h
      have hxid : x.id ≠ posId := by
        intro e
        apply hnd.1
        rw [e, ← hid]
        exact List.mem_map.mpr ⟨pos, hmem', rfl⟩
      obtain ⟨i, h1, h2, h3⟩ := ih hnd.2 hmem' hid
      refine ⟨i + 1, by simpa using h1, ?_, ?_⟩
      · have hb : (x.id == posId) = false := by simp [hxid]
        rw [List.map_cons, hb]
        simp only [Bool.false_eq_true, if_false, List.map_cons, CLBook.decAt]
        rw [h2]
      · have hb : (x.id != posId) = true := by simp [hxid]
        rw [List.filter_cons, hb]
        simp only [if_true, List.map_cons, List.eraseIdx_cons_succ]
        rw [h3]

theorem filter_swap_reverse {α : Type} (P N : α → Bool) (L : List α) :
    ((L.filter N).filter P).reverse = ((L.filter P).reverse).filter N := by
  rw [List.filter_reverse, List.filter_filter, List.filter_filter]
  congr 1
  apply List.filter_congr
  intro x _
  exact Bool.and_comm _ _

/-- **3 (withdrawals, position list).** the abstraction's position list after a successful `DecreaseLiquidity`: at the
    index `i` of the withdrawn position, `CLBook.decAt` (what `CLCustody.step` computes) when liquidity remains; when the
    whole liquidity is withdrawn the store deletes the record — the list is the old one with entry `i` erased, where
    `decAt` keeps an entry of liquidity 0. -/
theorem withdraw_positions_refine {s s' : St} {sender : Addr} {posId : Nat} {liq : Dec} {ab aq : Int}
    {pos : Position} (hI : Inv s)
    (h : decreaseLiquidity s sender posId liq = .ok (s', ab, aq))
    (hpos : getPosition s posId = some pos) :
    ∃ i : Nat, (absPos s pos.pool)[i]? = some (toPos pos) ∧
      absPos s' pos.pool = if liq.raw = pos.liq.raw then (absPos s pos.pool).eraseIdx i
                           else CLBook.decAt (absPos s pos.pool) i liq.raw := by
  obtain ⟨pos', p0, s1, c, s2, ab0, aq0, loE, hiE, b2, hq, hn, hle, hp0, hcf, hu, hs'⟩ := decreaseLiquidity_inv h
  rw [hpos] at hq; cases hq
  have hc := collectFees_core hcf
  have hq1 : getPosition s1 posId = some pos := by rw [getPosition_congr hc.2.1]; exact hpos
  obtain ⟨_, t2, _, pos2, _, _, _, hq2', _, _, hposs2, _, _, _, hposs3, _⟩ := updatePosition_frames hu
  rw [hq1] at hq2'; cases hq2'
  have hq2 : getPosition t2 posId = some pos := by rw [getPosition_congr hposs2]; exact hq1
  have hs'pos : s'.positions = s2.positions := by
    rw [hs']; cases loE <;> cases hiE <;> rfl
  have hposm : pos ∈ s.positions := List.mem_of_find?_eq_some hpos
  have hid : pos.id = posId := by
    have := List.find?_some hpos
    simpa using this
  have hnd := hI.w.idsNodup
  -- R = the pool's positions, newest first
  have hRnd : (((s.positions.filter (·.pool == pos.pool)).reverse).map (·.id)).Nodup := by
    rw [List.map_reverse, List.nodup_reverse]
    exact hnd.sublist (List.Sublist.map _ List.filter_sublist)
  have hRmem : pos ∈ (s.positions.filter (·.pool == pos.pool)).reverse :=
    List.mem_reverse.mpr (List.mem_filter.mpr ⟨hposm, by simp⟩)
  obtain ⟨i, h1, h2, h3⟩ := decAt_replace posId pos { pos with liq := Dec.add pos.liq (Dec.neg liq) } liq.raw
    (by simp [toPos, Dec.add, Dec.neg]; omega) _ hRnd hRmem hid
  refine ⟨i, h1, ?_⟩
  unfold absPos
  rw [hs'pos, hposs3, s3Of_positions t2 posId pos (Dec.neg liq) hq2, hposs2, hc.2.1]
  by_cases hz : liq.raw = pos.liq.raw
  · have hz' : (Dec.add pos.liq (Dec.neg liq)).isZero = true := by simp [Dec.isZero, Dec.add, Dec.neg]; omega
    rw [if_pos hz', if_pos hz, ← h3, filter_swap_reverse]
  · have hz' : ¬ (Dec.add pos.liq (Dec.neg liq)).isZero = true := by simp [Dec.isZero, Dec.add, Dec.neg]; omega
    rw [if_neg hz', if_neg hz, ← h2, List.filter_map]
    have hfl : s.positions.filter ((fun x => x.pool == pos.pool) ∘ fun x =>
          if (x.id == posId) = true then { pos with liq := Dec.add pos.liq (Dec.neg liq) } else x)
        = s.positions.filter (fun x => x.pool == pos.pool) := by
      apply List.filter_congr
      intro x hx
      simp only [Function.comp]
      by_cases hxi : (x.id == posId) = true
      · have : x = pos := by
          have hxe : x.id = pos.id := by rw [hid]; simpa using hxi
          exact List.inj_on_of_nodup_map hnd hx hposm hxe
        subst this
        simp [hxi]
      · simp [hxi]
    rw [hfl]
    simp only [List.map_reverse]

theorem decAt_eq_nil {l : List CLBook.Pos} {i : Nat} {δ : Int} (h : CLBook.decAt l i δ = []) : l = [] := by
  cases l with
  | nil => rfl
  | cons x xs => cases i <;> simp [CLBook.decAt] at h

/-- **3 (withdrawals, FULL when liquidity remains).** `custody_step_refines_withdraw`: a successful `DecreaseLiquidity`
    of LESS than the position's liquidity takes the abstraction of the state to EXACTLY `CLCustody.step` of it with
    `withdraw i liq ab aq e` (all components: position list, gross/net, cursor, active liquidity, price, balances, slack).
    For a withdrawal of the WHOLE liquidity see `custody_step_refines_partial` + `withdraw_positions_refine`: the store
    deletes the record (and resets price and cursor when it was the pool's last one) where the abstraction keeps a
    zero entry (and the price) — equality holds only up to that, which is what the lock-step's `obsEqC` compares. -/
theorem custody_step_refines_withdraw {s s' : St} {sender : Addr} {posId : Nat} {liq : Dec} {ab aq : Int}
    {pos : Position} {p : Pool} (sp : Int → Rat) (slack e : Rat) (hI : Inv s)
    (h : decreaseLiquidity s sender posId liq = .ok (s', ab, aq))
    (hpos : getPosition s posId = some pos) (hp : getPool s pos.pool = some p)
    (hs : sender ≠ poolAddr pos.pool) (hd : p.base ≠ p.quote) (hlt : liq.raw < pos.liq.raw) :
    ∃ (p' : Pool) (i : Nat), getPool s' pos.pool = some p' ∧
      (absOf s pos.pool p slack sp).book.pos[i]? = some ⟨pos.lower, pos.upper, pos.liq.raw⟩ ∧
      absOf s' pos.pool p' (slack + e) sp
        = CLCustody.step (absOf s pos.pool p slack sp) (.withdraw i liq.raw ab aq e) := by
  obtain ⟨i, hi, hposl⟩ := withdraw_positions_refine hI h hpos
  rw [if_neg (by omega)] at hposl
  have hi' : (absOf s pos.pool p slack sp).book.pos[i]? = some ⟨pos.lower, pos.upper, pos.liq.raw⟩ := hi
  obtain ⟨p', hp', c1, c2, c3, c4, c5, c6, c7, _⟩ := custody_step_refines_partial sp slack e hI h hpos hp hs hd i hi'
  have hhas : poolHasPosition s' pos.pool = true := by
    cases hh : poolHasPosition s' pos.pool with
    | true => rfl
    | false =>
      exfalso
      have hnone := poolHasPosition_false s' pos.pool hh
      have hnil : absPos s' pos.pool = [] := by
        unfold absPos
        have : s'.positions.filter (·.pool == pos.pool) = [] := by
          apply List.filter_eq_nil_iff.mpr
          intro x hx; simpa using hnone x hx
        rw [this]; rfl
      rw [hnil] at hposl
      have := decAt_eq_nil hposl.symm
      rw [this] at hi; simp at hi
  obtain ⟨d1, d2, d3⟩ := c7 hhas
  refine ⟨p', i, hp', hi', ?_⟩
  apply cst_ext _ c5 c6 d2 d3 c4 d1 c1 c2 c3
  show absPos s' pos.pool = _
  rw [hposl]
  simp only [CLCustody.step, CLCustody.bookOp, CLBook.step, hi']
  rfl

/-! ### I. swap steps (bucket kernels of the swap loop) -/
section Swap
open Sunrise.C05Loop (bucket kernelOf bucket_ok_eq amtInOf amtOutOf onSide equal_true
  bfq_outGivenIn_shape qfb_outGivenIn_shape)

theorem bfq_igo_shape (lim fee cur tgt liq rem : Dec) :
    (bfq_ComputeSwapWithinBucketInGivenOut lim fee cur tgt liq rem).2.1.raw
      ≤ (CalcAmountQuoteDelta liq (bfq_ComputeSwapWithinBucketInGivenOut lim fee cur tgt liq rem).1 cur false).raw ∧
    (bfq_ComputeSwapWithinBucketInGivenOut lim fee cur tgt liq rem).2.2.1
      = CalcAmountBaseDelta liq (bfq_ComputeSwapWithinBucketInGivenOut lim fee cur tgt liq rem).1 cur true := by
  unfold bfq_ComputeSwapWithinBucketInGivenOut
  simp only []
  split
  · split
    · split
      · rename_i h; refine ⟨?_, rfl⟩; simp only []; simp [Dec.gt] at h; omega
      · exact ⟨Int.le_refl _, rfl⟩
    · split
      · rename_i h; refine ⟨?_, rfl⟩; simp only []; simp [Dec.gt] at h; omega
      · exact ⟨Int.le_refl _, rfl⟩
  · split
    · split
      · rename_i h; refine ⟨?_, rfl⟩; simp only []; simp [Dec.gt] at h; omega
      · exact ⟨Int.le_refl _, rfl⟩
    · rename_i h0
      have e := equal_true (by simpa using h0)
      split
      · rename_i h; refine ⟨?_, rfl⟩
        simp only []; rw [← e]; simp [Dec.gt] at h; omega
      · refine ⟨?_, rfl⟩
        simp only []; rw [← e]

theorem qfb_igo_shape (lim fee cur tgt liq rem : Dec) :
    (qfb_ComputeSwapWithinBucketInGivenOut lim fee cur tgt liq rem).2.1.raw
      ≤ (CalcAmountBaseDelta liq (qfb_ComputeSwapWithinBucketInGivenOut lim fee cur tgt liq rem).1 cur false).raw ∧
    (qfb_ComputeSwapWithinBucketInGivenOut lim fee cur tgt liq rem).2.2.1
      = CalcAmountQuoteDelta liq (qfb_ComputeSwapWithinBucketInGivenOut lim fee cur tgt liq rem).1 cur true := by
  unfold qfb_ComputeSwapWithinBucketInGivenOut
  simp only []
  split
  · split
    · split
      · rename_i h; refine ⟨?_, rfl⟩; simp only []; simp [Dec.gt] at h; omega
      · exact ⟨Int.le_refl _, rfl⟩
    · split
      · rename_i h; refine ⟨?_, rfl⟩; simp only []; simp [Dec.gt] at h; omega
      · exact ⟨Int.le_refl _, rfl⟩
  · split
    · split
      · rename_i h; refine ⟨?_, rfl⟩; simp only []; simp [Dec.gt] at h; omega
      · exact ⟨Int.le_refl _, rfl⟩
    · rename_i h0
      have e := equal_true (by simpa using h0)
      split
      · rename_i h; refine ⟨?_, rfl⟩
        simp only []; rw [← e]; simp [Dec.gt] at h; omega
      · refine ⟨?_, rfl⟩
        simp only []; rw [← e]

/-- in all four modes the step's amount IN is the rounded-up kernel between the returned price and the current one, the
    amount OUT at most the rounded-down kernel (exact-out steps cap it by what is still wanted) -/
theorem bucket_amounts {exactIn bfq : Bool} {lim fee cur tgt liq rem : Dec} {r : Dec × Dec × Dec × Dec}
    (h : bucket exactIn bfq lim fee cur tgt liq rem = .ok r) :
    amtInOf exactIn r = (if bfq then CalcAmountBaseDelta liq r.1 cur true else CalcAmountQuoteDelta liq r.1 cur true) ∧
    (amtOutOf exactIn r).raw
      ≤ (if bfq then CalcAmountQuoteDelta liq r.1 cur false else CalcAmountBaseDelta liq r.1 cur false).raw := by
  have hr := bucket_ok_eq h
  subst hr
  cases exactIn <;> cases bfq <;> simp only [kernelOf, amtInOf, amtOutOf, if_true, Bool.false_eq_true, if_false]
  · exact ⟨(qfb_igo_shape lim fee cur tgt liq rem).2, (qfb_igo_shape lim fee cur tgt liq rem).1⟩
  · exact ⟨(bfq_igo_shape lim fee cur tgt liq rem).2, (bfq_igo_shape lim fee cur tgt liq rem).1⟩
  · have := qfb_outGivenIn_shape lim fee cur tgt liq rem
    exact ⟨this.1, by rw [this.2.1]⟩
  · have := bfq_outGivenIn_shape lim fee cur tgt liq rem
    exact ⟨this.1, by rw [this.2.1]⟩

theorem u_half_le_E' (a b : Dec) (ha : 0 < a.raw) (hb : 0 < b.raw) : u / 2 ≤ E' a b := by
  have hqa := q_pos ha; have hqb := q_pos hb
  have h2 : 0 ≤ 1 / (q a * q b) := by positivity
  have h3 : 0 ≤ 1 / q a := by positivity
  unfold E'
  nlinarith [u_pos, mul_nonneg (le_of_lt u_pos) h2, mul_nonneg (le_of_lt u_pos) h3]

/-- **4. `swap_step_amounts_guard`** — the two amount conjuncts of `CLCustody.Op.swapDown / swapUp` for ONE bucket step
    of the swap loop in any of the four modes (`bucket exactIn bfq …` is what `swapLoop` calls; its `.step` trace event
    carries exactly `r.1`, `amtInOf`, `amtOutOf`): amount in ≥ exact − e, amount out ≤ exact + e with `e = E'` at the two
    prices of the step.  Hypotheses `0 < r.1` and `onSide bfq cur r.1` (the price does not move against the trade) are
    `C05Loop.bucket_facts` (proved there under `DirCond`). -/
theorem swap_step_amounts_guard {exactIn bfq : Bool} {lim fee cur tgt liq rem : Dec} {r : Dec × Dec × Dec × Dec}
    (h : bucket exactIn bfq lim fee cur tgt liq rem = .ok r)
    (hl : 0 ≤ liq.raw) (hc : 0 < cur.raw) (hn : 0 < r.1.raw) (hside : onSide bfq cur r.1) :
    if bfq then
      (liq.raw : Rat) / PRECQ * (1 / q r.1 - 1 / q cur) ≤ q (amtInOf exactIn r) + E' r.1 cur ∧
      q (amtOutOf exactIn r) ≤ (liq.raw : Rat) / PRECQ * (q cur - q r.1) + E' r.1 cur
    else
      (liq.raw : Rat) / PRECQ * (q r.1 - q cur) ≤ q (amtInOf exactIn r) + E' cur r.1 ∧
      q (amtOutOf exactIn r) ≤ (liq.raw : Rat) / PRECQ * (1 / q cur - 1 / q r.1) + E' cur r.1 := by
  obtain ⟨hin, hout⟩ := bucket_amounts h
  cases bfq
  · -- quote for base: cur ≤ next
    simp only [onSide, Bool.false_eq_true, if_false] at hside hin hout ⊢
    have hu := u_half_le_E' cur r.1 hc hn
    constructor
    · rw [hin, quote_symm]
      have := quote_in_custody liq.raw cur r.1 hl hside
      linarith
    · refine le_trans (q_le hout) ?_
      rcases Int.lt_or_eq_of_le hside with hlt | heq
      · rw [base_swap liq r.1 cur false hlt]
        exact base_out_custody liq.raw cur r.1 hl hc hside
      · have e : r.1 = cur := by
          cases hr1 : r.1; cases hcur : cur
          rw [hr1, hcur] at heq; simp only at heq; rw [heq]
        rw [e]
        exact base_out_custody liq.raw cur cur hl hc (Int.le_refl _)
  · -- base for quote: next ≤ cur
    simp only [onSide, if_true] at hside hin hout ⊢
    have hu := u_half_le_E' r.1 cur hn hc
    constructor
    · rw [hin]
      exact base_in_custody liq.raw r.1 cur hl hn hside
    · refine le_trans (q_le hout) ?_
      have := quote_out_custody liq.raw r.1 cur hl hside
      linarith

/-- the whole guard of `swapDown` for one base-for-quote bucket step, given the bookkeeping / interval conjuncts
    (`C04RefineLoop`, `C04Interval`) -/
theorem swapDown_guard_of_bucket {exactIn : Bool} {lim fee cur tgt liq rem : Dec} {r : Dec × Dec × Dec × Dec}
    (a : CLCustody.St) (c' : Int)
    (h : bucket exactIn true lim fee cur tgt liq rem = .ok r)
    (hP : a.P = q cur) (hL : a.book.active = liq.raw) (hl : 0 ≤ liq.raw)
    (hn : 0 < r.1.raw) (hside : r.1.raw ≤ cur.raw)
    (hbook : (CLBook.Op.moveWithin c').guard a.book) (hc' : c' ≤ a.book.tick) (hin : priceInTick a.sp (q r.1) c') :
    (CLCustody.Op.swapDown (q r.1) c' (q (amtInOf exactIn r)) (q (amtOutOf exactIn r)) (E' r.1 cur)).guard a := by
  have hc : 0 < cur.raw := by omega
  have hg := swap_step_amounts_guard h hl hc hn (by simp only [onSide, if_true]; exact hside)
  simp only [if_true] at hg
  have hE : 0 ≤ E' r.1 cur := le_trans (by linarith [u_pos]) (u_half_le_E' r.1 cur hn hc)
  unfold CLCustody.Op.guard
  simp only [CLCustody.bookOp, hP, hL]
  exact ⟨hbook, hE, q_pos hn, q_le hside, hc', hin, hg.1, hg.2⟩

/-- the whole guard of `swapUp` for one quote-for-base bucket step -/
theorem swapUp_guard_of_bucket {exactIn : Bool} {lim fee cur tgt liq rem : Dec} {r : Dec × Dec × Dec × Dec}
    (a : CLCustody.St) (c' : Int)
    (h : bucket exactIn false lim fee cur tgt liq rem = .ok r)
    (hP : a.P = q cur) (hL : a.book.active = liq.raw) (hl : 0 ≤ liq.raw)
    (hc : 0 < cur.raw) (hside : cur.raw ≤ r.1.raw)
    (hbook : (CLBook.Op.moveWithin c').guard a.book) (hc' : a.book.tick ≤ c') (hin : priceInTick a.sp (q r.1) c') :
    (CLCustody.Op.swapUp (q r.1) c' (q (amtInOf exactIn r)) (q (amtOutOf exactIn r)) (E' cur r.1)).guard a := by
  have hn : 0 < r.1.raw := by omega
  have hg := swap_step_amounts_guard h hl hc hn (by simp only [onSide, Bool.false_eq_true, if_false]; exact hside)
  simp only [Bool.false_eq_true, if_false] at hg
  have hE : 0 ≤ E' cur r.1 := le_trans (by linarith [u_pos]) (u_half_le_E' cur r.1 hc hn)
  unfold CLCustody.Op.guard
  simp only [CLCustody.bookOp, hP, hL]
  exact ⟨hbook, hE, q_pos hc, q_le hside, hc', hin, hg.1, hg.2⟩

end Swap

/-! ### G. non-vacuity: a concrete pool on the ×10 grid (`C05Loop.tp10`)

`st0`: one pool (fee 0.3 %, tick ratio 10), no position; `st1`: after the first position [−1, 1) funded with 10^6 + 10^6
coins (price 1.0, cursor 0, liquidity ≈ 1.46·10^6); then half a million units of liquidity are withdrawn. -/
section Example
open Sunrise.C05Loop (tp10 tickUp_price)
open Sunrise.C04Interval (sp_0 sp_m1)

def cX : Rat := 316227766016837933 / 10 ^ 18
/-- a price grid that is `GridOK` on all of ℤ and coincides with the model's `TickToSqrtPrice` (ratio 10) on −1, 0, 1 -/
def gridX (t : Int) : Rat :=
  if t ≤ -1 then cX / (-(t : Rat)) else if t = 0 then 1 else if t = 1 then 3162277660168379332 / 10 ^ 18 else 8 + (t : Rat)

theorem gridX_step (t : Int) : gridX t < gridX (t + 1) := by
  unfold gridX
  by_cases h1 : t ≤ -2
  · have a1 : t ≤ -1 := by omega
    have a2 : t + 1 ≤ -1 := by omega
    rw [if_pos a1, if_pos a2]
    have hr : (t : Rat) ≤ -2 := by exact_mod_cast h1
    push_cast
    apply div_lt_div_of_pos_left
    · unfold cX; norm_num
    · linarith
    · linarith
  · by_cases h2 : t = -1
    · subst h2; norm_num [cX]
    · by_cases h3 : t = 0
      · subst h3; norm_num
      · by_cases h4 : t = 1
        · subst h4; norm_num
        · have b1 : ¬ t ≤ -1 := by omega
          have b2 : ¬ (t + 1 ≤ -1) := by omega
          have b3 : ¬ (t + 1 = 0) := by omega
          have b4 : ¬ (t + 1 = 1) := by omega
          rw [if_neg b1, if_neg h3, if_neg h4, if_neg b2, if_neg b3, if_neg b4]; push_cast; linarith

theorem gridX_ok : GridOK gridX := by
  refine ⟨?_, fun a b h => strictMono_int_of_lt_succ gridX_step h⟩
  intro t
  unfold gridX
  by_cases h1 : t ≤ -1
  · rw [if_pos h1]
    have hr : (t : Rat) ≤ -1 := by exact_mod_cast h1
    apply div_pos
    · unfold cX; norm_num
    · linarith
  · rw [if_neg h1]
    split
    · norm_num
    · split
      · norm_num
      · have : (2 : Rat) ≤ (t : Rat) := by exact_mod_cast (show (2 : Int) ≤ t by omega)
        linarith

def bank0 : Bank := (Bank.empty.credit "lp" "base" 5000000).credit "lp" "quote" 5000000
def st0 : St := (createPool { bank := bank0 } "base" "quote" ⟨3000000000000000⟩ ⟨10 * PREC⟩ ⟨0⟩).1
def st1 : St :=
  match createPosition st0 "lp" 0 (-1) 1 "base" 1000000 "quote" 1000000 0 0 with | .ok (s, _) => s | _ => st0
def cpOut (r : Res (St × CreatePosOut)) : Int × Int := match r with | .ok (_, o) => (o.base, o.quote) | _ => (-1, -1)
def dlOut (r : Res (St × Int × Int)) : Int × Int := match r with | .ok (_, a, b) => (a, b) | _ => (-1, -1)

theorem ok_of_dlOut {r : Res (St × Int × Int)} {a b : Int} (hn : a ≠ -1) (h : dlOut r = (a, b)) : ∃ s', r = .ok (s', a, b) := by
  cases r with
  | ok v =>
    obtain ⟨s', x, y⟩ := v
    simp only [dlOut, Prod.mk.injEq] at h
    obtain ⟨rfl, rfl⟩ := h
    exact ⟨s', rfl⟩
  | err c => simp [dlOut] at h; omega
  | panic k => simp [dlOut] at h; omega

theorem ok_of_cpOut {r : Res (St × CreatePosOut)} {a b : Int} (hn : a ≠ -1) (h : cpOut r = (a, b)) :
    ∃ s' o, r = .ok (s', o) ∧ o.base = a ∧ o.quote = b := by
  cases r with
  | ok v =>
    simp only [cpOut, Prod.mk.injEq] at h
    exact ⟨v.1, v.2, rfl, h.1, h.2⟩
  | err c => simp [cpOut] at h; omega
  | panic k => simp [cpOut] at h; omega

theorem cp_val : cpOut (createPosition st0 "lp" 0 (-1) 1 "base" 1000000 "quote" 1000000 0 0) = (1000000, 1000000) := by
  decide +kernel
theorem dl_val : dlOut (decreaseLiquidity st1 "lp" 0 ⟨500000 * PREC⟩) = (341886, 341886) := by decide +kernel
theorem pool_val : (getPool st1 0).map (fun p => (p.tick, p.sqrtP, p.tp)) = some (0, ⟨PREC⟩, tp10) := by decide +kernel
theorem pos_val : (getPosition st1 0).map (fun p => (p.lower, p.upper, p.pool)) = some (-1, 1, 0) := by decide +kernel

theorem onGrid_m1 : OnGrid gridX tp10 (-1) := by
  intro v hv
  have : v = ⟨316227766016837933⟩ := res_ok_inj (hv.symm.trans sp_m1)
  subst this; unfold gridX q cX; norm_num
theorem onGrid_1 : OnGrid gridX tp10 1 := by
  intro v hv
  have : v = ⟨3162277660168379332⟩ := res_ok_inj (hv.symm.trans tickUp_price)
  subst this; unfold gridX q; norm_num
theorem inTick_0 : priceInTick gridX (ratOfDec ⟨PREC⟩) 0 := by
  unfold priceInTick gridX ratOfDec PRECQ; norm_num [PREC]

/-- the hypotheses of `withdraw_guard_store` and `withdraw_bank_store` hold on `st1`: the withdrawal of 5·10^5 units of
    liquidity pays 341886 + 341886 coins and satisfies the custody guard -/
example : ∃ s' a i, decreaseLiquidity st1 "lp" 0 ⟨500000 * PREC⟩ = .ok (s', 341886, 341886) ∧
    CLCustody.absC st1 0 0 gridX = some a ∧
    (CLCustody.Op.withdraw i (500000 * PREC) ((341886 : Int) : Rat) ((341886 : Int) : Rat) (errW gridX a.P (-1) 1)).guard a ∧
    s'.bank.bal (poolAddr 0) "base" = st1.bank.bal (poolAddr 0) "base" - 341886 := by
  obtain ⟨s', hok⟩ := ok_of_dlOut (by decide) dl_val
  obtain ⟨pos, p, _, _, _, _, _, _, _, _, _, hpos, _, _, _, hp, _⟩ := decreaseLiquidity_parts hok
  have hpv := pos_val
  rw [hpos] at hpv
  simp only [Option.map_some, Option.some.injEq, Prod.mk.injEq] at hpv
  obtain ⟨e1, e2, e3⟩ := hpv
  rw [e3] at hp
  have hqv := pool_val
  rw [hp] at hqv
  simp only [Option.map_some, Option.some.injEq, Prod.mk.injEq] at hqv
  obtain ⟨f1, f2, f3⟩ := hqv
  have hp' : getPool st1 pos.pool = some p := by rw [e3]; exact hp
  have hg := withdraw_guard_store gridX 0 hok hpos hp' gridX_ok (by rw [f1, f2]; exact inTick_0)
    (by rw [f3, e1]; exact onGrid_m1) (by rw [f3, e2]; exact onGrid_1)
  obtain ⟨a, i, ha, _, hgd⟩ := hg
  rw [e1, e2] at hgd
  rw [e3] at ha
  have hb := withdraw_bank_store hok hpos hp' (by rw [e3]; decide) (by
    have : (getPool st1 0).map (fun p => decide (p.base ≠ p.quote)) = some true := by decide +kernel
    rw [hp] at this; simpa using this)
  have hbase : p.base = "base" := by
    have : (getPool st1 0).map (fun p => p.base) = some "base" := by decide +kernel
    rw [hp] at this; simpa using this
  rw [e3, hbase] at hb
  exact ⟨s', a, i, hok, ha, hgd, hb.2.2.2.2.1⟩

/-- the hypotheses of `deposit_guard_store` hold on `st0` (first position of the pool: 10^6 + 10^6 coins in) -/
example : ∃ s' out p δ, createPosition st0 "lp" 0 (-1) 1 "base" 1000000 "quote" 1000000 0 0 = .ok (s', out) ∧
    out.base = 1000000 ∧ out.quote = 1000000 ∧ 0 < δ ∧
    (priceInTick gridX (ratOfDec p.sqrtP) p.tick → OnGrid gridX p.tp (-1) → OnGrid gridX p.tp 1 →
      (CLCustody.Op.deposit (-1) 1 δ (out.base : Rat) (out.quote : Rat) (errW gridX (ratOfDec p.sqrtP) (-1) 1)).guard
        (absOf st0 0 p 0 gridX)) := by
  obtain ⟨s', o, hok, hb, hq⟩ := ok_of_cpOut (by decide) cp_val
  obtain ⟨p0, p, δ, _, _, hδ, _, hgd⟩ := deposit_guard_store gridX 0 hok gridX_ok
  exact ⟨s', o, p, δ.raw, hok, hb, hq, hδ, hgd⟩

theorem cp2_val : cpOut (createPosition st1 "lp" 0 (-1) 1 "base" 1000 "quote" 1000 0 0) = (1000, 1000) := by decide +kernel
theorem live_val : (getPool st1 0).map (fun p => poolLive p) = some true := by decide +kernel

/-- ALL hypotheses of `deposit_guard_store` discharged: a second position on the live pool `st1` (1000 + 1000 coins in) -/
example : ∃ s' out p δ, createPosition st1 "lp" 0 (-1) 1 "base" 1000 "quote" 1000 0 0 = .ok (s', out) ∧
    out.base = 1000 ∧ out.quote = 1000 ∧ 0 < δ ∧ getPool st1 0 = some p ∧
    (CLCustody.Op.deposit (-1) 1 δ (out.base : Rat) (out.quote : Rat) (errW gridX (ratOfDec p.sqrtP) (-1) 1)).guard
        (absOf st1 0 p 0 gridX) := by
  obtain ⟨s', o, hok, hb, hq⟩ := ok_of_cpOut (by decide) cp2_val
  obtain ⟨p0, p, δ, hp0, hcase, hδ, _, hgd⟩ := deposit_guard_store gridX 0 hok gridX_ok
  have hlv := live_val
  rw [hp0] at hlv
  simp only [Option.map_some, Option.some.injEq] at hlv
  have hpe : p = p0 := by
    rcases hcase with ⟨_, e⟩ | ⟨hl, _⟩
    · exact e
    · rw [hlv] at hl; cases hl
  subst hpe
  have hqv := pool_val
  rw [hp0] at hqv
  simp only [Option.map_some, Option.some.injEq, Prod.mk.injEq] at hqv
  obtain ⟨f1, f2, f3⟩ := hqv
  exact ⟨s', o, p, δ.raw, hok, hb, hq, hδ, hp0,
    hgd (by rw [f1, f2]; exact inTick_0) (by rw [f3]; exact onGrid_m1) (by rw [f3]; exact onGrid_1)⟩

theorem inv_st0 : Inv st0 := createPool_inv_ok "base" "quote" ⟨3000000000000000⟩ ⟨10 * PREC⟩ ⟨0⟩ (empty_inv bank0)

theorem inv_st1 : Inv st1 := by
  obtain ⟨s', o, hok, _, _⟩ := ok_of_cpOut (by decide) cp_val
  have h := createPosition_inv_ok inv_st0 hok
  have e : st1 = s' := by unfold st1; rw [hok]
  rw [e]; exact h

theorem posliq_val : (getPosition st1 0).map (fun p => p.liq.raw) = some 1462475295574264369794569 := by decide +kernel

/-- ALL hypotheses of `custody_step_refines_withdraw` hold on `st1` (store invariant included): the abstraction of the
    state after the withdrawal is exactly `CLCustody.step` -/
example : ∃ s' p p' i, decreaseLiquidity st1 "lp" 0 ⟨500000 * PREC⟩ = .ok (s', 341886, 341886) ∧
    getPool st1 0 = some p ∧ getPool s' 0 = some p' ∧
    absOf s' 0 p' (0 + 1 / 1000) gridX
      = CLCustody.step (absOf st1 0 p 0 gridX) (.withdraw i (500000 * PREC) ((341886 : Int) : Rat) ((341886 : Int) : Rat) (1 / 1000)) := by
  obtain ⟨s', hok⟩ := ok_of_dlOut (by decide) dl_val
  obtain ⟨pos, p, _, _, _, _, _, _, _, _, _, hpos, _, _, _, hp, _⟩ := decreaseLiquidity_parts hok
  have hpv := pos_val
  rw [hpos] at hpv
  simp only [Option.map_some, Option.some.injEq, Prod.mk.injEq] at hpv
  obtain ⟨e1, e2, e3⟩ := hpv
  have hlv := posliq_val
  rw [hpos] at hlv
  simp only [Option.map_some, Option.some.injEq] at hlv
  have hd : p.base ≠ p.quote := by
    have : (getPool st1 pos.pool).map (fun p => decide (p.base ≠ p.quote)) = some true := by rw [e3]; decide +kernel
    rw [hp] at this; simpa using this
  obtain ⟨p', i, hp', _, heq⟩ := custody_step_refines_withdraw gridX 0 (1 / 1000) inv_st1 hok hpos hp
    (by rw [e3]; decide) hd (by rw [hlv]; decide)
  rw [e3] at hp hp' heq
  exact ⟨s', p, p', i, hok, hp, hp', heq⟩

def bkOut (r : Res (Dec × Dec × Dec × Dec)) : Int × Int × Int :=
  match r with | .ok r => (r.1.raw, r.2.1.raw, r.2.2.1.raw) | _ => (-1, -1, -1)

theorem ok_of_bkOut {r : Res (Dec × Dec × Dec × Dec)} {a b c : Int} (hn : a ≠ -1) (h : bkOut r = (a, b, c)) :
    ∃ v, r = .ok v ∧ v.1.raw = a ∧ v.2.1.raw = b ∧ v.2.2.1.raw = c := by
  cases r with
  | ok v =>
    simp only [bkOut, Prod.mk.injEq] at h
    exact ⟨v, rfl, h.1, h.2.1, h.2.2⟩
  | err c => simp [bkOut] at h; omega
  | panic k => simp [bkOut] at h; omega

theorem bk_down_val : bkOut (Sunrise.C05Loop.bucket true true MinSqrtPrice ⟨3000000000000000⟩ ⟨PREC⟩ ⟨316227766016837933⟩
    ⟨1000000 * PREC⟩ ⟨1000 * PREC⟩) = (999003993018960097, 997000000000000000000, 996006981039903000000) := by decide +kernel
theorem bk_up_val : bkOut (Sunrise.C05Loop.bucket false false MaxSqrtPrice ⟨3000000000000000⟩ ⟨PREC⟩ ⟨3162277660168379332⟩
    ⟨1000000 * PREC⟩ ⟨1000 * PREC⟩) = (1001001001001001002, 1000000000000000000000, 1002000000000000000000) := by decide +kernel

/-- the hypotheses of `swap_step_amounts_guard` hold for a base-for-quote exact-in step (1000 base into liquidity 10^6 at
    price 1.0: 997 in after fee, 996.00698… quote out, price 0.999003…) and a quote-for-base exact-out step -/
example : ∃ r, Sunrise.C05Loop.bucket true true MinSqrtPrice ⟨3000000000000000⟩ ⟨PREC⟩ ⟨316227766016837933⟩
      ⟨1000000 * PREC⟩ ⟨1000 * PREC⟩ = .ok r ∧ r.1.raw = 999003993018960097 ∧
    ((1000000 * PREC : Int) : Rat) / PRECQ * (1 / q r.1 - 1 / q ⟨PREC⟩) ≤ q (Sunrise.C05Loop.amtInOf true r) + E' r.1 ⟨PREC⟩ ∧
    q (Sunrise.C05Loop.amtOutOf true r) ≤ ((1000000 * PREC : Int) : Rat) / PRECQ * (q ⟨PREC⟩ - q r.1) + E' r.1 ⟨PREC⟩ := by
  obtain ⟨r, hok, h1, _, _⟩ := ok_of_bkOut (by decide) bk_down_val
  have hg := swap_step_amounts_guard hok (by decide) (by decide) (by rw [h1]; decide)
    (by simp only [Sunrise.C05Loop.onSide, if_true]; rw [h1]; decide)
  simp only [if_true] at hg
  exact ⟨r, hok, h1, hg.1, hg.2⟩

example : ∃ r, Sunrise.C05Loop.bucket false false MaxSqrtPrice ⟨3000000000000000⟩ ⟨PREC⟩ ⟨3162277660168379332⟩
      ⟨1000000 * PREC⟩ ⟨1000 * PREC⟩ = .ok r ∧ r.1.raw = 1001001001001001002 ∧
    ((1000000 * PREC : Int) : Rat) / PRECQ * (q r.1 - q ⟨PREC⟩) ≤ q (Sunrise.C05Loop.amtInOf false r) + E' ⟨PREC⟩ r.1 ∧
    q (Sunrise.C05Loop.amtOutOf false r) ≤ ((1000000 * PREC : Int) : Rat) / PRECQ * (1 / q ⟨PREC⟩ - 1 / q r.1) + E' ⟨PREC⟩ r.1 := by
  obtain ⟨r, hok, h1, _, _⟩ := ok_of_bkOut (by decide) bk_up_val
  have hg := swap_step_amounts_guard hok (by decide) (by decide) (by rw [h1]; decide)
    (by simp only [Sunrise.C05Loop.onSide, Bool.false_eq_true, if_false]; rw [h1]; decide)
  simp only [Bool.false_eq_true, if_false] at hg
  exact ⟨r, hok, h1, hg.1, hg.2⟩

/-- ALL hypotheses of `custody_step_refines_deposit` hold on `st1` -/
example : ∃ s' out p0 p p' δ, createPosition st1 "lp" 0 (-1) 1 "base" 1000 "quote" 1000 0 0 = .ok (s', out) ∧
    getPool st1 0 = some p0 ∧ getPool s' 0 = some p' ∧ 0 < δ ∧
    absOf s' 0 p' (0 + 1 / 1000) gridX
      = CLCustody.step (absOf st1 0 p 0 gridX) (.deposit (-1) 1 δ (out.base : Rat) (out.quote : Rat) (1 / 1000)) := by
  obtain ⟨s', o, hok, _, _⟩ := ok_of_cpOut (by decide) cp2_val
  obtain ⟨p0, p, p', δ, hp0, _, hp', hδ, heq⟩ :=
    custody_step_refines_deposit gridX 0 (1 / 1000) inv_st1 hok (by decide) (by decide)
  exact ⟨s', o, p0, p, p', δ, hok, hp0, hp', hδ, heq⟩

/-- OBSERVATION (boundary of `withdraw_bank_store` / item 3): `Msg/CreatePool` accepts a pool whose base and quote
    denominations are the same (msg_server_create_pool.go validates each denom separately only); for such a pool the two
    balances of the custody abstraction are one and the same account balance -/
example : createPoolValid "uusdc" "uusdc" ⟨3000000000000000⟩ ⟨10 * PREC⟩ ⟨0⟩ = true := by decide

end Example

end Sunrise.C02Refine

#print axioms Sunrise.C02Refine.withdraw_amounts_guard
#print axioms Sunrise.C02Refine.withdraw_guard_store
#print axioms Sunrise.C02Refine.withdraw_bank_store
#print axioms Sunrise.C02Refine.deposit_amounts_guard
#print axioms Sunrise.C02Refine.deposit_guard_store
#print axioms Sunrise.C02Refine.increaseLiquidity_parts
#print axioms Sunrise.C02Refine.decreaseLiquidity_book
#print axioms Sunrise.C02Refine.custody_step_refines_partial
#print axioms Sunrise.C02Refine.custody_step_refines_deposit
#print axioms Sunrise.C02Refine.withdraw_positions_refine
#print axioms Sunrise.C02Refine.custody_step_refines_withdraw
#print axioms Sunrise.C02Refine.swap_step_amounts_guard
#print axioms Sunrise.C02Refine.swapDown_guard_of_bucket
#print axioms Sunrise.C02Refine.swapUp_guard_of_bucket
#print axioms Sunrise.C02Refine.errW_le_errTol
#print axioms Sunrise.C02Refine.gridX_ok
#print axioms Sunrise.C02Refine.dl_val
#print axioms Sunrise.C02Refine.cp_val
