/-
C14 — replicated execution is deterministic.

(a) For every `range` over a Go map in consensus code: the observable result of the loop is the same for every order in which
    the map's entries can be presented (`List.Perm`), `*_perm` below.
(b) `all_sites_covered`: the REGENERATED list of such loops (Gen/Facts.lean, rewritten from the working tree on every run) contains
    only loops whose exact text (hash of the loop, hash of the statements consuming what it wrote) was modelled and proved in (a).
(c) `no_forbidden_constructs`: the regenerated list of wall-clock / randomness / goroutine / select / float / unsafe / %p / sync
    uses in consensus packages is empty up to the listed, justified exceptions.
-/
import SunriseVerif.Model.Determinism
import SunriseVerif.Gen.Facts

namespace Sunrise.C14
open Sunrise.Determinism

/-! ### generic -/

theorem foldl_perm {α β : Type} {f : β → α → β} (comm : ∀ b x y, f (f b x) y = f (f b y) x)
    {l₁ l₂ : List α} (p : l₁.Perm l₂) (b : β) : l₁.foldl f b = l₂.foldl f b :=
  p.foldl_eq' (fun x _ y _ z => comm z x y) b

theorem foldO_perm {α β : Type} {f : β → α → Option β}
    (comm : ∀ b x y, (f b x).bind (fun b' => f b' y) = (f b y).bind (fun b' => f b' x))
    {l₁ l₂ : List α} (p : l₁.Perm l₂) : ∀ b, foldO f b l₁ = foldO f b l₂ := by
  induction p with
  | nil => intro b; rfl
  | cons x _ ih => intro b; simp only [foldO]; cases f b x <;> simp [ih]
  | swap x y l =>
    intro b
    have h := congrArg (fun o => Option.bind o (fun b' => foldO f b' l)) (comm b y x)
    simpa [foldO, Option.bind_assoc] using h
  | trans _ _ ih₁ ih₂ => intro b; exact (ih₁ b).trans (ih₂ b)

theorem upd_comm_true {κ : Type} [DecidableEq κ] (m : κ → Bool) (a b : κ) :
    upd (upd m a true) b true = upd (upd m b true) a true := by
  funext k; unfold upd; by_cases h1 : k = a <;> by_cases h2 : k = b <;> simp [h1, h2]

/-! ### x/da/keeper/abci.go: `range shardProofCount` -/

theorem insertAll_apply (vs : List String) (m : String → Bool) (v : String) :
    (vs.foldl (fun m v => upd m v true) m) v = (m v || vs.contains v) := by
  induction vs generalizing m with
  | nil => simp
  | cons a as ih =>
    simp only [List.foldl_cons, ih, List.contains_cons]
    unfold upd
    by_cases h : v = a
    · simp [h]
    · have hb : (v == a) = false := beq_eq_false_iff_ne.mpr h
      simp [h, hb]

theorem daLoop_safe (env : DaEnv) (l : List (Int × Int)) (a : DaAcc) :
    (daLoop env a l).safeShardIndices = a.safeShardIndices ++ (l.filter (fun e => env.safe e.2)).map (·.1) := by
  induction l generalizing a with
  | nil => simp [daLoop]
  | cons e es ih =>
    have ih' := ih (daStep env a e)
    simp only [daLoop, List.foldl_cons] at ih' ⊢
    rw [ih']
    unfold daStep
    by_cases h : env.safe e.2 <;> simp [h]

theorem daLoop_fault (env : DaEnv) (l : List (Int × Int)) (a : DaAcc) (v : String) :
    (daLoop env a l).faultValidators v
      = (a.faultValidators v || l.any (fun e => env.safe e.2 && (env.unsubmitted e.1).contains v)) := by
  induction l generalizing a with
  | nil => simp [daLoop]
  | cons e es ih =>
    have ih' := ih (daStep env a e)
    simp only [daLoop, List.foldl_cons] at ih' ⊢
    rw [ih']
    unfold daStep
    by_cases h : env.safe e.2
    · simp [h, insertAll_apply, Bool.or_assoc]
    · simp [h]

/-- Whatever order the entries of `shardProofCount` are visited in, `len(safeShardIndices)`, every `checkCorrectInvalidity`
verdict and the key set of `faultValidators` are the same. -/
theorem da_shardProofCount_perm (env : DaEnv) (a : DaAcc) {l₁ l₂ : List (Int × Int)} (p : l₁.Perm l₂) :
    daObs (daLoop env a l₁) = daObs (daLoop env a l₂) := by
  have pf : ((l₁.filter (fun e => env.safe e.2)).map (·.1)).Perm ((l₂.filter (fun e => env.safe e.2)).map (·.1)) :=
    (p.filter _).map _
  have ps : (daLoop env a l₁).safeShardIndices.Perm (daLoop env a l₂).safeShardIndices := by
    rw [daLoop_safe, daLoop_safe]; exact List.Perm.append_left _ pf
  unfold daObs
  congr 1
  · exact ps.length_eq
  · funext ix
    unfold checkCorrectInvalidity
    congr 1
    funext i
    rw [ps.contains_eq]
  · funext v
    rw [daLoop_fault, daLoop_fault, p.any_eq]

example : (daObs (daLoop ⟨fun c => decide (c ≥ 2), fun i => if i = 7 then ["v1"] else []⟩ ⟨[], fun _ => false⟩
    [(7, 3), (9, 1), (4, 2)])).len = 2 := by decide

/-! ### x/da/keeper/abci.go: `range faultValidators` -/

theorem faultStep_comm (env : FaultEnv) (s : String → Int) (x y : String) :
    faultStep env (faultStep env s x) y = faultStep env (faultStep env s y) x := by
  funext k
  unfold faultStep
  by_cases gx : env.getErr x <;> by_cases gy : env.getErr y <;> by_cases sx : env.setErr x <;> by_cases sy : env.setErr y <;>
    simp [gx, gy, sx, sy]
  unfold upd
  by_cases hxy : x = y
  · subst hxy; rfl
  · have hyx : ¬ y = x := fun h => hxy h.symm
    by_cases k1 : k = x <;> by_cases k2 : k = y <;> simp_all

/-- The `fault_counts/` store after the loop does not depend on the order in which `faultValidators` is visited. -/
theorem da_faultValidators_perm (env : FaultEnv) (s : String → Int) {l₁ l₂ : List String} (p : l₁.Perm l₂) :
    faultLoop env s l₁ = faultLoop env s l₂ :=
  foldl_perm (faultStep_comm env) p s

example : faultLoop ⟨fun _ => false, fun v => v == "b"⟩ (fun _ => 0) ["a", "b", "c"] "a" = 1 := by decide

/-! ### gauge tally `range currValidators`, gov tally `range validators` -/

/-- total contribution of one vote to one key -/
def delta (mul : Int → Int → Int) (vp : Int) : List Weighted → Nat → Int
  | [], _ => 0
  | w :: ws, k => (if k = w.key then mul vp (w.weight.getD 0) else 0) + delta mul vp ws k

theorem addWeights_eq (mul : Int → Int → Int) (vp : Int) (ws : List Weighted) (r : Nat → Int) :
    addWeights mul vp ws r
      = if ws.all (fun w => w.weight.isSome) then some (fun k => r k + delta mul vp ws k) else none := by
  induction ws generalizing r with
  | nil => simp [addWeights, delta]
  | cons w ws ih =>
    cases hw : w.weight with
    | none => simp [addWeights, hw]
    | some x =>
      simp only [addWeights, hw, ih, List.all_cons, Option.isSome_some, Bool.true_and]
      by_cases h : ws.all (fun w => w.weight.isSome)
      · simp only [h, if_true]
        congr 1
        funext k
        unfold upd
        by_cases hk : k = w.key
        · subst hk; simp [delta, hw, Int.add_assoc]
        · simp [delta, hk]
      · simp [h]

/-- normal form of one iteration: aborts depending on the entry alone, otherwise adds -/
theorem tallyStep_eq (mul : Int → Int → Int) (a : TallyAcc) (v : ValInfo) :
    tallyStep mul a v =
      if v.vote.isEmpty then some a
      else match v.power with
        | none => none
        | some vp =>
          if v.vote.all (fun w => w.weight.isSome)
          then some { results := fun k => a.results k + delta mul vp v.vote k, total := a.total + vp }
          else none := by
  unfold tallyStep
  by_cases he : v.vote.isEmpty
  · simp [he]
  · simp only [he]
    cases v.power with
    | none => rfl
    | some vp =>
      simp only [addWeights_eq]
      by_cases h : v.vote.all (fun w => w.weight.isSome) <;> simp [h]

theorem tallyStep_comm (mul : Int → Int → Int) (a : TallyAcc) (x y : ValInfo) :
    (tallyStep mul a x).bind (fun b => tallyStep mul b y) = (tallyStep mul a y).bind (fun b => tallyStep mul b x) := by
  simp only [tallyStep_eq]
  cases hx : x.power <;> cases hy : y.power <;>
    by_cases ex : x.vote.isEmpty <;> by_cases ey : y.vote.isEmpty <;>
    by_cases ax : x.vote.all (fun w => w.weight.isSome) <;> by_cases ay : y.vote.all (fun w => w.weight.isSome) <;>
    simp [ex, ey, ax, ay]
  all_goals (constructor <;> (try funext k) <;> omega)

/-- Per-key totals and total voting power (or the fact that the tally aborts) do not depend on the order in which the validator
map is visited: addition of the exact integer representation of `LegacyDec` is commutative and associative. -/
theorem tally_validators_perm (mul : Int → Int → Int) (a : TallyAcc) {l₁ l₂ : List ValInfo} (p : l₁.Perm l₂) :
    tallyLoop mul a l₁ = tallyLoop mul a l₂ :=
  foldO_perm (tallyStep_comm mul) p a

example : ((tallyLoop (· * ·) ⟨fun _ => 0, 0⟩ [⟨some 3, [⟨1, some 2⟩, ⟨2, some 5⟩]⟩, ⟨some 4, [⟨1, some 1⟩]⟩]).map
    (fun r => (r.results 1, r.results 2, r.total))) = some (10, 15, 7) := by decide

/-! ### `NewTallyResultFromMap` then `sort.SliceStable` by pool id -/

theorem fromMap_eq (trunc : Int → Int) (l : List (Nat × Int)) :
    fromMap trunc l = l.map (fun e => ({ poolId := e.1, count := trunc e.2 } : TallyResult)) := by
  unfold fromMap
  suffices h : ∀ acc : List TallyResult,
      l.foldl (fun acc e => acc ++ [({ poolId := e.1, count := trunc e.2 } : TallyResult)]) acc
        = acc ++ l.map (fun e => ({ poolId := e.1, count := trunc e.2 } : TallyResult)) by simpa using h []
  induction l with
  | nil => simp
  | cons e es ih => intro acc; simp [ih]

theorem inj_of_nodup_map {α β : Type} {f : α → β} : ∀ {l : List α}, (l.map f).Nodup → ∀ {a b : α}, a ∈ l → b ∈ l → f a = f b → a = b
  | [], _, _, _, ha, _, _ => by cases ha
  | x :: xs, hn, a, b, ha, hb, hab => by
    rw [List.map_cons, List.nodup_cons] at hn
    rcases List.mem_cons.mp ha with rfl | ha' <;> rcases List.mem_cons.mp hb with rfl | hb'
    · rfl
    · exact absurd (hab ▸ List.mem_map_of_mem hb') hn.1
    · exact absurd (hab ▸ List.mem_map_of_mem ha') hn.1
    · exact inj_of_nodup_map hn.2 ha' hb' hab

/-- The slice returned by `Tally` is the same for every iteration order of `results`: map keys are distinct, the sort key is the
map key, so the sorted slice is unique. (Without the sort the slice order IS the iteration order: see `unsorted_depends_on_order`.) -/
theorem tally_results_perm (trunc : Int → Int) {l₁ l₂ : List (Nat × Int)} (p : l₁.Perm l₂)
    (distinct : (l₁.map (·.1)).Nodup) : tallyResults trunc l₁ = tallyResults trunc l₂ := by
  unfold tallyResults sortByPool
  rw [fromMap_eq, fromMap_eq]
  have hperm : (List.mergeSort (l₁.map (fun e => ({ poolId := e.1, count := trunc e.2 } : TallyResult))) lePool).Perm
      (List.mergeSort (l₂.map (fun e => ({ poolId := e.1, count := trunc e.2 } : TallyResult))) lePool) :=
    ((List.mergeSort_perm _ _).trans (p.map _)).trans (List.mergeSort_perm _ _).symm
  have tr : ∀ a b c : TallyResult, lePool a b = true → lePool b c = true → lePool a c = true := by
    intro a b c; simp only [lePool, decide_eq_true_eq]; omega
  have tot : ∀ a b : TallyResult, (lePool a b || lePool b a) = true := by
    intro a b; simp only [lePool, Bool.or_eq_true, decide_eq_true_eq]; omega
  refine List.Perm.eq_of_pairwise (le := fun a b => lePool a b = true) ?_ (List.pairwise_mergeSort tr tot _)
    (List.pairwise_mergeSort tr tot _) hperm
  intro a b ha hb hab hba
  have ha' : a ∈ l₁.map (fun e => ({ poolId := e.1, count := trunc e.2 } : TallyResult)) := (List.mergeSort_perm _ _).mem_iff.mp ha
  have hb' : b ∈ l₁.map (fun e => ({ poolId := e.1, count := trunc e.2 } : TallyResult)) :=
    (p.map _).mem_iff.mpr ((List.mergeSort_perm _ _).mem_iff.mp hb)
  obtain ⟨ea, hea, rfl⟩ := List.mem_map.mp ha'
  obtain ⟨eb, heb, rfl⟩ := List.mem_map.mp hb'
  have hk : ea.1 = eb.1 := by
    simp only [lePool, decide_eq_true_eq] at hab hba; omega
  rw [inj_of_nodup_map distinct hea heb hk]

/-- Non-vacuity, and the reason the sort is needed: the unsorted slice differs between two orders of the same map. -/
theorem unsorted_depends_on_order :
    fromMap id [(1, 10), (2, 20)] ≠ fromMap id [(2, 20), (1, 10)]
      ∧ tallyResults id [(1, 10), (2, 20)] = tallyResults id [(2, 20), (1, 10)] :=
  ⟨by decide, tally_results_perm id (List.Perm.swap _ _ _) (by decide)⟩

/-! ### set-valued loops: `BlockedAddresses`, `RegisterIBC` -/

theorem blockedAddresses_perm (init : String → Bool) {l₁ l₂ : List String} (p : l₁.Perm l₂) :
    setLoop init l₁ = setLoop init l₂ :=
  foldl_perm (fun m a b => upd_comm_true m a b) p init

theorem setLoop_apply (ks : List String) (m : String → Bool) (v : String) : setLoop m ks v = (m v || ks.contains v) :=
  insertAll_apply ks m v

theorem registerIBC_perm (urls : String → List String) (init : String → Bool) {l₁ l₂ : List String} (p : l₁.Perm l₂) :
    registerLoop urls init l₁ = registerLoop urls init l₂ := by
  refine foldl_perm (fun m a b => ?_) p init
  funext k
  simp only [setLoop_apply]
  cases m k <;> cases (urls a).contains k <;> cases (urls b).contains k <;> rfl

/-! ### (b) coverage of the regenerated site list -/

/-- (The two `useHash` values of app/gov/gov.go and x/da/keeper/abci.go were re-pinned after the `fix:` commits of C16 and
C09 had been merged and the consumers re-read: the results are still consumed as exact sums / via `len` and set membership only.)
The loops modelled above, pinned to the exact text that was read. A loop that is new, or whose body or whose consumers were
edited, is not in this list and `all_sites_covered` stops checking until the edit has been re-read and re-proved. -/
def provedSites : List (SiteKey × String) := [
  (⟨"x/da/keeper/abci.go", "Keeper.TallyValidityProofs", "bf266bf6d9552a10", "9c6a58ec8daf3b20"⟩, "da_shardProofCount_perm"),
  (⟨"x/da/keeper/abci.go", "Keeper.TallyValidityProofs", "be6981b53e1b490c", "e3b0c44298fc1c14"⟩, "da_faultValidators_perm"),
  (⟨"x/liquidityincentive/keeper/keeper_tally.go", "Keeper.Tally", "0644c488301fd097", "8e2a7b1caaf46145"⟩, "tally_validators_perm + tally_results_perm"),
  (⟨"x/liquidityincentive/keeper/keeper_tally.go", "NewTallyResultFromMap", "2235446aa0991664", "56995f062822be51"⟩, "tally_results_perm"),
  (⟨"app/gov/gov.go", "ProvideCalculateVoteResultsAndVotingPowerFn", "0052199aef1c30b7", "e5e97ce8fd3b55ac"⟩, "tally_validators_perm"),
  (⟨"app/app.go", "BlockedAddresses", "5b1a88bdcf47a2ac", "6d5d4cb790d512d9"⟩, "blockedAddresses_perm"),
  (⟨"app/ibc.go", "RegisterIBC", "01f0d245491437f2", "e3b0c44298fc1c14"⟩, "registerIBC_perm")
]

def siteKey (s : Gen.Facts.MapRangeSite) : SiteKey := ⟨s.file, s.fn, s.hash, s.useHash⟩

def covered (s : Gen.Facts.MapRangeSite) : Bool := provedSites.any (fun p => p.1 == siteKey s)

theorem all_sites_covered : ∀ s ∈ Gen.Facts.mapRangeSites, covered s = true := by decide

/-- and nothing in `provedSites` is stale (every pinned loop still exists as pinned) -/
theorem proved_sites_exist : ∀ p ∈ provedSites, (Gen.Facts.mapRangeSites.any (fun s => p.1 == siteKey s)) = true := by decide

/-! ### (c) other sources of nondeterminism -/

/-- Justified exceptions: (kind, file, function, detail, why). -/
def allowedConstructs : List (Gen.Facts.Construct × String) := [
  (⟨"rand", "x/da/types/shards.go", "GetRandomIndicesFromSeed", "rand.NewPCG"⟩,
    "math/rand/v2 PCG constructed from an explicit seed argument (derived from the validator address); no global source"),
  (⟨"rand", "x/da/types/shards.go", "GetRandomIndicesFromSeed", "rand.New"⟩,
    "rand.New over that explicitly seeded PCG; Shuffle on it is a pure function of the seed (property C20)"),
  (⟨"float", "app/consts/consts.go", "(package)", "0.002"⟩,
    "untyped constant used only as the default min-gas-price string of the node configuration, not in state transitions")
]

def allowed (c : Gen.Facts.Construct) : Bool := allowedConstructs.any (fun a => a.1 == c)

theorem no_forbidden_constructs : Gen.Facts.forbiddenConstructs.filter (fun c => !allowed c) = [] := by decide

end Sunrise.C14
