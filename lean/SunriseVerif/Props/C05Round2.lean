import SunriseVerif.Props.C05Round
import SunriseVerif.Props.C02Kernel

/-!
C05, continuation of `Props/C05Round.lean`: the SYMMETRIC one-bucket round trip base → quote → base and the
base-for-quote price monotonicity, on the regenerated kernels (Gen/KernelsCL.lean).  Raw 10^18-scaled integers;
`q d = d.raw / 10^18`, `u = 10⁻¹⁸`, `Eup a b = u/2/(a·b) + u/2/a + u/2` (`C02Kernel`).

1. `roundtrip_no_profit_bucket_bq` : leg 1 `bfq_ComputeSwapWithinBucketOutGivenIn` (base in, short of its target,
   price P → P'), leg 2 `qfb_ComputeSwapWithinBucketOutGivenIn` (ANY quote amount, ANY fee, short or not) back up to
   P'' with P' ≤ P'' ≤ P.  Then   base out of leg 2  ≤  after-fee base input of leg 1 + Eup(P', P'')  ≤ x + Eup(P',P'').
   The exact `≤` is FALSE (`roundtrip_bq_exact_le_false`, checked: at P ≈ 7.3·10⁻⁹ leg 2 pays 1.567·10¹⁵ ulps
   = 0.0016 base tokens MORE than leg 1 took in; fee 0, both legs pass their `_ok` guards, P'' = P exactly).
   The only favourable rounding is the banker's `Quo(Quo(Mul))` of `CalcAmountBaseDelta(…, false)` in leg 2; both
   next-price roundings go against the trader (that is the content of `leg1_exact_le` and of `P'' ≤ P`).
   For P' ≥ 1.0 the slack is < 2 ulps, hence `roundtrip_no_profit_bucket_bq_ulp` (raw: out ≤ in + 1 ulp) and
   `roundtrip_no_profit_bucket_bq_tokens` (whole tokens: EXACT no-profit, `TruncateInt out ≤ X`).
2. `bucket_price_mono_bfq` : for fixed (P, L, f, target) the reached price of the base-for-quote step is ANTITONE in
   the input, exactly (no slack), provided the smaller input is not rounded to 0 by the fee multiplication.
   At after-fee input 0 it is FALSE (`bucket_price_not_antitone_at_zero`): input 0 leaves the price at P, a tiny
   positive input moves it UP by one ulp (this is `C05Loop.bfq_outGivenIn_against_trade` read as a monotonicity failure).
3. `swapExactOut_feesNonneg`: see `Lemmas/C05Round2Fees.lean` (separate file).
NOT proved: a whole-token version of 1 for prices below 1.0 (there `Eup` exceeds one ulp and is unbounded as
P → MinSqrtPrice; a random search over whole-token round trips at P ∈ [10⁻¹⁰, 10⁻⁷] found no whole-token profit: the
truncation of the intermediate quote amount dominates there).  Whether the `+ 1 ulp` of `…_bq_ulp` is attained for
P' ≥ 1.0 is open (random search, 3·10⁵ trips, found no instance; all found violations of exact `≤` have P' < 1.0).
-/
namespace Sunrise.C05Round2
open Sunrise Dec Sunrise.Gen.KernelsCL Sunrise.C05 Sunrise.C05Loop Sunrise.C05Round Sunrise.C02Kernel

/-! ### 0. small facts -/

/-- `CalcAmountBaseDelta` is symmetric in its two prices -/
theorem base_sym (liq a b : Dec) (r : Bool) (hab : a.raw ≤ b.raw) :
    CalcAmountBaseDelta liq b a r = CalcAmountBaseDelta liq a b r := by
  by_cases h : a.raw < b.raw
  · exact base_swap liq b a r h
  · have e : a.raw = b.raw := by omega
    cases a; cases b; simp only at e; subst e; rfl

theorem raw_eq_q (d : Dec) : (d.raw : Rat) = q d * 10 ^ 18 := by unfold q; field_simp

/-- leg 1 (base in, short of the target): the rounded-up next price `N` satisfies `L·(1/N − 1/P) ≤ a`: the EXACT base
    amount that moves the price from `P` down to `N` is at most the after-fee input `a`. -/
theorem leg1_exact_le (P L a : Dec) (hP : 0 < P.raw) (hL : 0 < L.raw) (ha : 0 ≤ a.raw) :
    0 < (GetNextSqrtPriceFromAmountBaseInRoundingUp P L a).raw
    ∧ q L * (1 / q (GetNextSqrtPriceFromAmountBaseInRoundingUp P L a) - 1 / q P) ≤ q a := by
  have hNpos := baseIn_next_pos P L a hP hL ha
  refine ⟨hNpos, ?_⟩
  by_cases hz : a.raw = 0
  · have : a.isZero = true := by simp [Dec.isZero, hz]
    have e : GetNextSqrtPriceFromAmountBaseInRoundingUp P L a = P := by
      simp [GetNextSqrtPriceFromAmountBaseInRoundingUp, this]
    rw [e]
    have := q_nonneg ha
    simpa using this
  · have hb := baseIn_next_ge_exact P L a
    unfold S_baseIn_next_ge_exact at hb
    have hN := hb hP hL (by omega)
    generalize GetNextSqrtPriceFromAmountBaseInRoundingUp P L a = N at hN hNpos ⊢
    have h1 : (L.raw : Rat) * (P.raw : Rat) * ((PREC : Int) : Rat)
        ≤ (N.raw : Rat) * ((L.raw : Rat) * ((PREC : Int) : Rat) + (a.raw : Rat) * (P.raw : Rat)) := by
      exact_mod_cast hN
    rw [PREC_cast, raw_eq_q L, raw_eq_q P, raw_eq_q N, raw_eq_q a] at h1
    have hl := q_pos hL; have hp := q_pos hP; have hn := q_pos hNpos
    generalize q L = l at *; generalize q P = p at *; generalize q N = n at *; generalize q a = x at *
    have key : l * p ≤ n * (l + x * p) := by
      have h2 : (10 ^ 18 : Rat) ^ 3 * (l * p) ≤ (10 ^ 18 : Rat) ^ 3 * (n * (l + x * p)) := by linarith [h1]
      exact le_of_mul_le_mul_left h2 (by positivity)
    have e : l * (1 / n - 1 / p) = (l * p - l * n) / (n * p) := by field_simp
    rw [e, div_le_iff₀ (mul_pos hn hp)]
    linarith [key]

/-! ### 1. round trip base → quote → base -/

/-- **1 (any fee).**  base → quote → base inside one bucket.  Leg 1: `x` base in at price `P`, fee rate `f ∈ [0,1]`,
    target `tD` not reached (`hshort`), new price `P' = r1.1`.  Leg 2: ANY quote amount `yIn` in at `P'` with ANY fee
    rate `f₂` and target `tU`, new price `P'' = r2.1`.  If leg 2 does not move the price against its trade
    (`P' ≤ P''`; proved by `C05Loop.qfb_outGivenIn_facts`) and not above the start (`P'' ≤ P`), the base paid out by leg 2
    is at most the after-fee input of leg 1 plus the upward rounding slack `Eup(P',P'')` of
    `CalcAmountBaseDelta(…, false)`.  Exact `≤` is false: `roundtrip_bq_exact_le_false`. -/
theorem roundtrip_no_profit_bucket_bq (lim1 lim2 f f2 P tD tU L x yIn : Dec)
    (hP : 0 < P.raw) (hL : 0 < L.raw) (hx : 0 ≤ x.raw) (hf0 : 0 ≤ f.raw) (hf1 : f.raw ≤ PREC)
    (hshort : Dec.gte (Dec.mul x (Dec.sub Dec.one f)) (CalcAmountBaseDelta L tD P true) = false) :
    let r1 := bfq_ComputeSwapWithinBucketOutGivenIn lim1 f P tD L x
    let r2 := qfb_ComputeSwapWithinBucketOutGivenIn lim2 f2 r1.1 tU L yIn
    r1.1.raw ≤ r2.1.raw → r2.1.raw ≤ P.raw →
      0 ≤ r2.2.2.1.raw
      ∧ q r2.2.2.1 ≤ q (Dec.mul x (Dec.sub Dec.one f)) + Eup r1.1 r2.1
      ∧ q (Dec.mul x (Dec.sub Dec.one f)) ≤ q x := by
  intro r1 r2 hdir hback
  have ha := afterFee_le x f hx hf0 hf1
  have hs : r1.1 = _ := bfq_outGivenIn_short lim1 f P tD L x hshort
  have h1 : 0 < r1.1.raw ∧ q L * (1 / q r1.1 - 1 / q P) ≤ q (Dec.mul x (Dec.sub Dec.one f)) := by
    rw [hs]; exact leg1_exact_le P L _ hP hL ha.1
  have h2pos : 0 < r2.1.raw := lt_of_lt_of_le h1.1 hdir
  have hsh : r2.2.2.1 = CalcAmountBaseDelta L r2.1 r1.1 false := (qfb_outGivenIn_shape lim2 f2 r1.1 tU L yIn).2.1
  rw [base_sym L r1.1 r2.1 false hdir] at hsh
  have hbd := (base_down L r1.1 r2.1 (le_of_lt hL) h1.1 hdir).2
  have hnn := baseDelta_any_nonneg L r1.1 r2.1 false (le_of_lt hL) h1.1 h2pos
  rw [← hsh] at hbd hnn
  have hex : exactB L r1.1 r2.1 ≤ q L * (1 / q r1.1 - 1 / q P) := by
    rw [exactB_eq L r1.1 r2.1 h1.1 h2pos]
    have hq2 := q_pos h2pos
    have hle : q r2.1 ≤ q P := q_le hback
    have hinv : 1 / q P ≤ 1 / q r2.1 := one_div_le_one_div_of_le hq2 hle
    exact mul_le_mul_of_nonneg_left (by linarith) (le_of_lt (q_pos hL))
  exact ⟨hnn, by linarith [h1.2], q_le ha.2⟩

/-- for prices `≥ 1.0` the slack `Eup` is at most 1.5 ulps -/
theorem Eup_le_of_ge_one (a b : Dec) (ha : PREC ≤ a.raw) (hb : PREC ≤ b.raw) : Eup a b ≤ 3 / 2 * u := by
  have h1 : (1 : Rat) ≤ q a := by
    unfold q; rw [le_div_iff₀ (by positivity)]
    have : ((PREC : Int) : Rat) ≤ (a.raw : Rat) := by exact_mod_cast ha
    rw [PREC_cast] at this; linarith
  have h2 : (1 : Rat) ≤ q b := by
    unfold q; rw [le_div_iff₀ (by positivity)]
    have : ((PREC : Int) : Rat) ≤ (b.raw : Rat) := by exact_mod_cast hb
    rw [PREC_cast] at this; linarith
  have hu : 0 ≤ u / 2 := by linarith [u_pos]
  have h12 : (1 : Rat) ≤ q a * q b := by nlinarith
  have e1 : u / 2 / (q a * q b) ≤ u / 2 := div_le_self hu h12
  have e2 : u / 2 / q a ≤ u / 2 := div_le_self hu h1
  unfold Eup; linarith

/-- **1 (ulps, P' ≥ 1.0).**  Same setting with `P' ≥ 1.0`: leg 2 pays at most ONE ulp (10⁻¹⁸ base) more than the
    after-fee input of leg 1. -/
theorem roundtrip_no_profit_bucket_bq_ulp (lim1 lim2 f f2 P tD tU L x yIn : Dec)
    (hP : 0 < P.raw) (hL : 0 < L.raw) (hx : 0 ≤ x.raw) (hf0 : 0 ≤ f.raw) (hf1 : f.raw ≤ PREC)
    (hshort : Dec.gte (Dec.mul x (Dec.sub Dec.one f)) (CalcAmountBaseDelta L tD P true) = false) :
    let r1 := bfq_ComputeSwapWithinBucketOutGivenIn lim1 f P tD L x
    let r2 := qfb_ComputeSwapWithinBucketOutGivenIn lim2 f2 r1.1 tU L yIn
    PREC ≤ r1.1.raw → r1.1.raw ≤ r2.1.raw → r2.1.raw ≤ P.raw →
      r2.2.2.1.raw ≤ (Dec.mul x (Dec.sub Dec.one f)).raw + 1 ∧ r2.2.2.1.raw ≤ x.raw + 1 := by
  intro r1 r2 hone hdir hback
  have h := roundtrip_no_profit_bucket_bq lim1 lim2 f f2 P tD tU L x yIn hP hL hx hf0 hf1 hshort hdir hback
  have hE := Eup_le_of_ge_one r1.1 r2.1 hone (le_trans hone hdir)
  have ha := afterFee_le x f hx hf0 hf1
  have h2 : q r2.2.2.1 ≤ q (Dec.mul x (Dec.sub Dec.one f)) + 3 / 2 * u := by linarith [h.2.1]
  have key : r2.2.2.1.raw ≤ (Dec.mul x (Dec.sub Dec.one f)).raw + 1 := by
    by_contra hc
    have hc' : (Dec.mul x (Dec.sub Dec.one f)).raw + 2 ≤ r2.2.2.1.raw := by omega
    have hc2 : (((Dec.mul x (Dec.sub Dec.one f)).raw : Rat)) + 2 ≤ (r2.2.2.1.raw : Rat) := by exact_mod_cast hc'
    rw [raw_eq_q, raw_eq_q r2.2.2.1] at hc2
    unfold u at h2
    have : (0:Rat) < 10 ^ 18 := by positivity
    nlinarith
  exact ⟨key, by omega⟩

/-- **1 (whole tokens, P' ≥ 1.0).**  `X` whole base tokens in; the loop's final `TruncateInt` of the base paid by leg 2
    is `≤ X`: exact no-profit in whole tokens. -/
theorem roundtrip_no_profit_bucket_bq_tokens (lim1 lim2 f f2 P tD tU L yIn : Dec) (X : Int)
    (hP : 0 < P.raw) (hL : 0 < L.raw) (hX : 0 ≤ X) (hf0 : 0 ≤ f.raw) (hf1 : f.raw ≤ PREC)
    (hshort : Dec.gte (Dec.mul (Dec.ofInt X) (Dec.sub Dec.one f)) (CalcAmountBaseDelta L tD P true) = false) :
    let r1 := bfq_ComputeSwapWithinBucketOutGivenIn lim1 f P tD L (Dec.ofInt X)
    let r2 := qfb_ComputeSwapWithinBucketOutGivenIn lim2 f2 r1.1 tU L yIn
    PREC ≤ r1.1.raw → r1.1.raw ≤ r2.1.raw → r2.1.raw ≤ P.raw → Dec.truncateInt r2.2.2.1 ≤ X := by
  intro r1 r2 hone hdir hback
  have hx : 0 ≤ (Dec.ofInt X).raw := by simp only [Dec.ofInt]; exact Int.mul_nonneg hX (by decide)
  have h0 := (roundtrip_no_profit_bucket_bq lim1 lim2 f f2 P tD tU L (Dec.ofInt X) yIn hP hL hx hf0 hf1 hshort hdir hback).1
  have h := (roundtrip_no_profit_bucket_bq_ulp lim1 lim2 f f2 P tD tU L (Dec.ofInt X) yIn hP hL hx hf0 hf1 hshort
    hone hdir hback).2
  have ht := truncateInt_nonneg_bounds r2.2.2.1 h0
  have h3 : r2.2.2.1.raw ≤ X * PREC + 1 := h
  generalize Dec.truncateInt r2.2.2.1 = t at ht ⊢
  generalize r2.2.2.1.raw = o at ht h3
  simp only [PREC_eq] at ht h3
  omega

/-- **FINDING — exact `≤` is false for base → quote → base** (fee 0, one bucket).  P = 7.282388096·10⁻⁹, L = 1.1309…,
    204.38… base tokens in: P' = 7.282378512·10⁻⁹, quote out 10839 ulps.  Feeding exactly those 10839 ulps back returns
    the price to P'' = P exactly, and the banker's `Quo(Quo(Mul))` pays 204.3817… base tokens:
    1 567 483 244 488 864 ulps (≈ 0.0016 base tokens) MORE than leg 1 took in.  Both legs pass their `_ok` guards and
    stop short of their targets.  (`Eup(P',P'')` ≈ 0.0094 here, so the bound of `roundtrip_no_profit_bucket_bq` holds.) -/
theorem roundtrip_bq_exact_le_false :
    let P : Dec := ⟨7282388096⟩; let L : Dec := ⟨1130900979211982592⟩; let x : Dec := ⟨204380198882843019991⟩
    let r1 := bfq_ComputeSwapWithinBucketOutGivenIn ⟨1⟩ ⟨0⟩ P ⟨1⟩ L x
    let r2 := qfb_ComputeSwapWithinBucketOutGivenIn ⟨10^40⟩ ⟨0⟩ r1.1 ⟨10^40⟩ L r1.2.2.1
    bfq_ComputeSwapWithinBucketOutGivenIn_ok ⟨1⟩ ⟨0⟩ P ⟨1⟩ L x = true
    ∧ qfb_ComputeSwapWithinBucketOutGivenIn_ok ⟨10^40⟩ ⟨0⟩ r1.1 ⟨10^40⟩ L r1.2.2.1 = true
    ∧ Dec.gte (Dec.mul x (Dec.sub Dec.one ⟨0⟩)) (CalcAmountBaseDelta L ⟨1⟩ P true) = false
    ∧ Dec.gte (Dec.mul r1.2.2.1 (Dec.sub Dec.one ⟨0⟩)) (CalcAmountQuoteDelta L ⟨10^40⟩ r1.1 true) = false
    ∧ (Dec.mul x (Dec.sub Dec.one ⟨0⟩)).raw = x.raw
    ∧ r1.1.raw = 7282378512 ∧ r1.2.2.1.raw = 10839
    ∧ r2.1.raw = P.raw
    ∧ r2.2.2.1.raw = x.raw + 1567483244488864 := by decide +kernel

/-! ### 2. monotonicity of the reached price, base for quote -/

theorem mulTruncate_mono (a1 a2 c : Dec) (h0 : 0 ≤ a1.raw) (h : a1.raw ≤ a2.raw) (hc : 0 ≤ c.raw) :
    (Dec.mulTruncate a1 c).raw ≤ (Dec.mulTruncate a2 c).raw := by
  have n1 : 0 ≤ a1.raw * c.raw := Int.mul_nonneg h0 hc
  have n2 : 0 ≤ a2.raw * c.raw := Int.mul_nonneg (le_trans h0 h) hc
  have hle : a1.raw * c.raw ≤ a2.raw * c.raw := Int.mul_le_mul_of_nonneg_right h hc
  have b1 := mulTruncate_nonneg_bounds a1 c n1
  have b2 := mulTruncate_nonneg_bounds a2 c n2
  generalize (Dec.mulTruncate a1 c).raw = t1 at b1 ⊢
  generalize (Dec.mulTruncate a2 c).raw = t2 at b2 ⊢
  generalize a1.raw * c.raw = m1 at *
  generalize a2.raw * c.raw = m2 at *
  simp only [PREC_eq] at b1 b2
  omega

/-- the rounded-up next price of a base-in step is antitone in a POSITIVE amount -/
theorem baseIn_next_antitone (P L a1 a2 : Dec) (hP : 0 < P.raw) (hL : 0 < L.raw)
    (h0 : 0 < a1.raw) (h : a1.raw ≤ a2.raw) :
    (GetNextSqrtPriceFromAmountBaseInRoundingUp P L a2).raw ≤ (GetNextSqrtPriceFromAmountBaseInRoundingUp P L a1).raw := by
  have z1 := isZero_false_of_ne (a := a1) (by omega)
  have z2 := isZero_false_of_ne (a := a2) (by omega)
  simp only [GetNextSqrtPriceFromAmountBaseInRoundingUp, z1, z2, Bool.false_eq_true, if_false]
  have hT := mulTruncate_mono a1 a2 P (le_of_lt h0) h (le_of_lt hP)
  have hT1 := (mulTruncate_nonneg_bounds a1 P (Int.mul_nonneg (le_of_lt h0) (le_of_lt hP))).2.2
  have hU := (mulRoundUp_nonneg_bounds L P (le_of_lt (Int.mul_pos hL hP))).2.2
  have hd1 : 0 < (Dec.add (Dec.mulTruncate a1 P) L).raw := by simp only [Dec.add]; omega
  have hd2 : 0 < (Dec.add (Dec.mulTruncate a2 P) L).raw := by simp only [Dec.add]; omega
  have hD : (Dec.add (Dec.mulTruncate a1 P) L).raw ≤ (Dec.add (Dec.mulTruncate a2 P) L).raw := by
    simp only [Dec.add]; omega
  have hQ1 := quoRoundUp_pos_bounds (Dec.mulRoundUp L P) _ hU hd1
  have hQ2 := quoRoundUp_pos_bounds (Dec.mulRoundUp L P) _ hU hd2
  generalize (Dec.quoRoundUp (Dec.mulRoundUp L P) (Dec.add (Dec.mulTruncate a1 P) L)).raw = N1 at hQ1 ⊢
  generalize (Dec.quoRoundUp (Dec.mulRoundUp L P) (Dec.add (Dec.mulTruncate a2 P) L)).raw = N2 at hQ2 ⊢
  generalize (Dec.add (Dec.mulTruncate a1 P) L).raw = D1 at *
  generalize (Dec.add (Dec.mulTruncate a2 P) L).raw = D2 at *
  generalize (Dec.mulRoundUp L P).raw * PREC = W at *
  by_contra hc
  have hc' : N1 + 1 ≤ N2 := by omega
  have e1 : (N1 + 1) * D2 ≤ N2 * D2 := Int.mul_le_mul_of_nonneg_right hc' (le_of_lt hd2)
  have e2 : N1 * D1 ≤ N1 * D2 := Int.mul_le_mul_of_nonneg_left hD hQ1.2.2
  have e3 : (N1 + 1) * D2 = N1 * D2 + D2 := by ring
  omega

/-- **2 (price, base for quote).**  Fixed (P, L, f, target): if the larger input `x₂` stops short of the target then so
    does the smaller `x₁`, and the reached prices are ordered `P'₂ ≤ P'₁` — exactly, no rounding slack — provided the
    after-fee amount of the smaller input is not 0 (`ha1`; false without it: `bucket_price_not_antitone_at_zero`).
    (`P'₁ ≤ P` is NOT claimed: false below price 1.0, `C05Loop.bfq_outGivenIn_against_trade`.) -/
theorem bucket_price_mono_bfq (lim f P tD L x1 x2 : Dec)
    (hP : 0 < P.raw) (hL : 0 < L.raw) (h0 : 0 ≤ x1.raw) (h : x1.raw ≤ x2.raw) (hf1 : f.raw ≤ PREC)
    (ha1 : 0 < (Dec.mul x1 (Dec.sub Dec.one f)).raw)
    (hshort : Dec.gte (Dec.mul x2 (Dec.sub Dec.one f)) (CalcAmountBaseDelta L tD P true) = false) :
    Dec.gte (Dec.mul x1 (Dec.sub Dec.one f)) (CalcAmountBaseDelta L tD P true) = false
    ∧ (bfq_ComputeSwapWithinBucketOutGivenIn lim f P tD L x2).1.raw
        ≤ (bfq_ComputeSwapWithinBucketOutGivenIn lim f P tD L x1).1.raw := by
  have ha := afterFee_mono x1 x2 f h0 h hf1
  have hshort1 : Dec.gte (Dec.mul x1 (Dec.sub Dec.one f)) (CalcAmountBaseDelta L tD P true) = false := by
    simp only [Dec.gte, decide_eq_false_iff_not, not_le] at hshort ⊢
    omega
  refine ⟨hshort1, ?_⟩
  rw [bfq_outGivenIn_short lim f P tD L x1 hshort1, bfq_outGivenIn_short lim f P tD L x2 hshort]
  exact baseIn_next_antitone P L _ _ hP hL ha1 ha

/-- **FINDING — at after-fee input 0 the reached price is NOT antitone**: input 0 leaves the price at
    P = 1.000000007·10⁻⁹, input 10⁻⁹ base moves it UP to 1.000000008·10⁻⁹ (fee 0; both pass the `_ok` guard and stop
    short of the target). -/
theorem bucket_price_not_antitone_at_zero :
    let P : Dec := ⟨1000000007⟩; let L : Dec := ⟨1000000 * PREC + 1⟩
    bfq_ComputeSwapWithinBucketOutGivenIn_ok ⟨1⟩ ⟨0⟩ P ⟨1⟩ L ⟨0⟩ = true
    ∧ bfq_ComputeSwapWithinBucketOutGivenIn_ok ⟨1⟩ ⟨0⟩ P ⟨1⟩ L ⟨1000000000⟩ = true
    ∧ Dec.gte (Dec.mul ⟨1000000000⟩ (Dec.sub Dec.one ⟨0⟩)) (CalcAmountBaseDelta L ⟨1⟩ P true) = false
    ∧ (bfq_ComputeSwapWithinBucketOutGivenIn ⟨1⟩ ⟨0⟩ P ⟨1⟩ L ⟨0⟩).1.raw = 1000000007
    ∧ (bfq_ComputeSwapWithinBucketOutGivenIn ⟨1⟩ ⟨0⟩ P ⟨1⟩ L ⟨1000000000⟩).1.raw = 1000000008 := by decide +kernel

/-! ### non-vacuity -/

/-- P = 2.0, L = 10^6, fee 0.3 %, 1000 base tokens in, the whole quote tokens received go back: all hypotheses of
    `roundtrip_no_profit_bucket_bq(_ulp,_tokens)` hold and at most 1000 base tokens come back. -/
example :
    let P : Dec := ⟨2 * PREC⟩; let L : Dec := ⟨1000000 * PREC⟩; let f : Dec := ⟨3000000000000000⟩
    let r1 := bfq_ComputeSwapWithinBucketOutGivenIn ⟨1⟩ f P ⟨PREC⟩ L (Dec.ofInt 1000)
    let y := Dec.truncateInt r1.2.2.1
    let r2 := qfb_ComputeSwapWithinBucketOutGivenIn ⟨10 * PREC⟩ f r1.1 ⟨3 * PREC⟩ L (Dec.ofInt y)
    0 < P.raw ∧ 0 < L.raw ∧ 0 ≤ f.raw ∧ f.raw ≤ PREC
    ∧ Dec.gte (Dec.mul (Dec.ofInt 1000) (Dec.sub Dec.one f)) (CalcAmountBaseDelta L ⟨PREC⟩ P true) = false
    ∧ PREC ≤ r1.1.raw ∧ r1.1.raw < r2.1.raw ∧ r2.1.raw ≤ P.raw ∧ 0 < y
    ∧ Dec.truncateInt r2.2.2.1 ≤ 1000 ∧ 990 ≤ Dec.truncateInt r2.2.2.1 := by decide +kernel

/-- `bucket_price_mono_bfq`: same bucket, inputs 1000 and 2000 base tokens: strictly ordered prices -/
example :
    let P : Dec := ⟨2 * PREC⟩; let L : Dec := ⟨1000000 * PREC⟩; let f : Dec := ⟨3000000000000000⟩
    0 < (Dec.mul (Dec.ofInt 1000) (Dec.sub Dec.one f)).raw
    ∧ Dec.gte (Dec.mul (Dec.ofInt 2000) (Dec.sub Dec.one f)) (CalcAmountBaseDelta L ⟨PREC⟩ P true) = false
    ∧ (bfq_ComputeSwapWithinBucketOutGivenIn ⟨1⟩ f P ⟨PREC⟩ L (Dec.ofInt 2000)).1.raw
        < (bfq_ComputeSwapWithinBucketOutGivenIn ⟨1⟩ f P ⟨PREC⟩ L (Dec.ofInt 1000)).1.raw := by decide +kernel

#print axioms roundtrip_no_profit_bucket_bq
#print axioms roundtrip_no_profit_bucket_bq_ulp
#print axioms roundtrip_no_profit_bucket_bq_tokens
#print axioms roundtrip_bq_exact_le_false
#print axioms bucket_price_mono_bfq
#print axioms bucket_price_not_antitone_at_zero

end Sunrise.C05Round2
