import SunriseVerif.Model.FeeAnte
import SunriseVerif.Lemmas.Dec
import SunriseVerif.Spec.C18
/-!
C18 — fees.  Theorems about the model of the fee decorator and `Keeper.Burn` (Model/FeeAnte.lean, tied to the
real application by the `fee` correspondence suite) and about the arithmetic kernels REGENERATED from
`validator_tx_fee.go` / `keeper_burn.go` (Gen/KernelsFee.lean, Gen/KernelsGovFee.lean).
-/
set_option linter.unusedSimpArgs false
set_option linter.unusedVariables false
namespace Sunrise.C18
open Sunrise Sunrise.Bank Sunrise.FeeAnte Sunrise.Gen.KernelsFee Sunrise.Gen.KernelsGovFee

/-! ### admission in check mode after genesis -/

/-- the `<sunrise>` filter passes exactly the one-coin fee sets in the fee denom or a bypass denom -/
theorem denomFilter_iff (cfg : Cfg) (fee : List Coin) :
    denomFilter cfg fee = true ↔ ∃ c, fee = [c] ∧ (c.denom = cfg.feeDenom ∨ c.denom ∈ cfg.bypass) := by
  constructor
  · intro h
    match fee, h with
    | [c], h =>
      refine ⟨c, rfl, ?_⟩
      simp only [denomFilter, Bool.or_eq_true, beq_iff_eq, List.contains_eq_mem, decide_eq_true_eq] at h
      exact h
  · rintro ⟨c, rfl, h⟩
    simp only [denomFilter, Bool.or_eq_true, beq_iff_eq, List.contains_eq_mem, decide_eq_true_eq]
    exact h

/-- a single fee coin meets the minimum gas price iff a price is configured for its denom with a non-zero required
    amount and the coin covers it -/
theorem isAnyGTE_single (c : Coin) (req : List Coin) :
    isAnyGTE [c] req = true ↔ req ≠ [] ∧ c.amount ≥ amountOf req c.denom ∧ amountOf req c.denom ≠ 0 := by
  unfold isAnyGTE
  cases req with
  | nil => simp
  | cons r rs => simp [List.any]

/-- DECISION LOGIC (check mode, height > 0): the fee checker admits a transaction iff it declares exactly one fee coin,
    of the fee denom or a bypass denom, and either no minimum gas price is configured or the coin meets it. -/
theorem admitted_iff (cfg : Cfg) (height : Int) (minGas : List (Denom × Dec)) (tx : Tx) (hh : height > 0) :
    feeCheckerOk cfg .check height minGas tx = true ↔
      (∃ c, tx.fee = [c] ∧ (c.denom = cfg.feeDenom ∨ c.denom ∈ cfg.bypass)) ∧
      (minGasIsZero minGas = true ∨ isAnyGTE tx.fee (requiredFees minGas tx.gas) = true) := by
  unfold feeCheckerOk
  simp only [if_true, hh, Bool.and_eq_true]
  rw [denomFilter_iff]
  constructor
  · rintro ⟨h1, h2⟩
    refine ⟨h1, ?_⟩
    by_cases hz : minGasIsZero minGas = true
    · exact Or.inl hz
    · simp only [hz, if_false] at h2; exact Or.inr h2
  · rintro ⟨h1, h2⟩
    refine ⟨h1, ?_⟩
    by_cases hz : minGasIsZero minGas = true
    · simp [hz]
    · simp only [hz, if_false]
      cases h2 with
      | inl h => exact absurd h hz
      | inr h => exact h

example : feeCheckerOk ⟨"urise", ["ubbb"], Dec.zero⟩ .check 5 [("urise", ⟨25000000000000000⟩)] ⟨[⟨"urise", 5000⟩], 200000, "a0", none, false⟩ = true := by decide
example : feeCheckerOk ⟨"urise", ["ubbb"], Dec.zero⟩ .check 5 [("urise", ⟨25000000000000000⟩)] ⟨[⟨"urise", 4999⟩], 200000, "a0", none, false⟩ = false := by decide
example : feeCheckerOk ⟨"urise", ["ubbb"], Dec.zero⟩ .check 5 [] ⟨[⟨"uaaa", 5000⟩], 200000, "a0", none, false⟩ = false := by decide

/-- outside check mode the checker never rejects (fees of any shape reach the deduction step) -/
theorem checker_only_in_check_mode (cfg : Cfg) (mode : Mode) (height : Int) (minGas : List (Denom × Dec)) (tx : Tx)
    (hm : mode ≠ .check) : feeCheckerOk cfg mode height minGas tx = true := by
  unfold feeCheckerOk; simp [hm]

/-- the required amount is the exact ceiling of price·gas (regenerated kernels `requiredFeeDec`, `requiredAmount`) -/
theorem required_is_ceil (p : Dec) (gas : Int) : S_required_ceil p gas := by
  unfold S_required_ceil
  intro hp hg
  have hx : 0 ≤ p.raw * gas := Int.mul_nonneg hp hg
  have hmul : (requiredFeeDec p (Dec.ofInt gas)).raw = p.raw * gas := by
    unfold requiredFeeDec Dec.mul Dec.ofInt
    simp only []
    have e : p.raw * (gas * PREC) = (p.raw * gas) * PREC := by rw [Int.mul_assoc]
    rw [e]
    have hnn : ¬ (p.raw * gas * PREC < 0) := by
      have := Int.mul_nonneg hx (Int.le_of_lt Dec.PREC_pos); omega
    unfold Dec.chopRound
    simp only [hnn, if_false]
    unfold Dec.chopRoundNN
    have h1 : p.raw * gas * PREC % PREC = 0 := Int.mul_emod_left _ _
    have h2 : p.raw * gas * PREC / PREC = p.raw * gas := Int.mul_ediv_cancel _ (Int.ne_of_gt Dec.PREC_pos)
    simp only [h1, h2, if_true]
  generalize hf : requiredFeeDec p (Dec.ofInt gas) = f at hmul
  have hfnn : 0 ≤ f.raw := by omega
  have hc := Dec.ceil_nonneg_bounds f hfnn
  have hcn : 0 ≤ (Dec.ceil f).raw := by omega
  have ht := Dec.truncateInt_nonneg_bounds (Dec.ceil f) hcn
  unfold requiredAmount
  have hP : PREC = 1000000000000000000 := rfl
  rw [hP] at hc ht ⊢
  omega

example : requiredAmount (requiredFeeDec ⟨25000000000000000⟩ (Dec.ofInt 200001)) = 5001 := by decide

/-! ### the fee moves in full or nothing moves -/

/-- total of a denom inside a coin list -/
def tot : List Coin → Denom → Int
  | [], _ => 0
  | c :: r, d => (if c.denom = d then c.amount else 0) + tot r d

theorem sendCoins_exact (cs : List Coin) : ∀ (b b' : Bank) (s t : Addr), s ≠ t → sendCoins b s t cs = .ok b' →
    (∀ a d, b'.bal a d = b.bal a d + (if a = t then tot cs d else 0) - (if a = s then tot cs d else 0))
    ∧ b'.sup = b.sup ∧ (∀ c ∈ cs, 0 ≤ c.amount) := by
  induction cs with
  | nil =>
    intro b b' s t _ h
    simp only [sendCoins, Res.ok.injEq] at h
    subst h
    refine ⟨?_, rfl, ?_⟩
    · intro a d; simp [tot]
    · intro c hc; cases hc
  | cons c r ih =>
    intro b b' s t hst h
    simp only [sendCoins] at h
    obtain ⟨b1, h1, h2⟩ := bind_ok h
    obtain ⟨hnn, hle, e1⟩ := send_ok h1
    obtain ⟨ihb, ihs, ihp⟩ := ih b1 b' s t hst h2
    subst e1
    have hts : t ≠ s := fun e => hst e.symm
    refine ⟨?_, ?_, ?_⟩
    · intro a d
      rw [ihb a d]
      simp only [credit_bal, tot]
      by_cases ha : a = s <;> by_cases hb : a = t <;> by_cases hd : c.denom = d <;>
        simp [ha, hb, hd, hst, hts, Ne.symm, eq_comm] <;> (try subst hd) <;> (try simp [hst, hts]) <;> omega
    · rw [ihs]; rfl
    · intro c' hc'
      cases hc' with
      | head => exact hnn
      | tail _ hm => exact ihp c' hm

/-- ACCEPTED ⇒ the declared fee moves in full from the payer — or the granter, who must consent unless he is the payer —
    to the fee collector; every other balance and every supply is unchanged; a zero fee moves nothing. -/
theorem fee_moved_in_full (cfg : Cfg) (mode : Mode) (height : Int) (minGas : List (Denom × Dec)) (b b' : Bank) (tx : Tx)
    (h : ante cfg mode height minGas b tx = .ok b') :
    ∃ src, deductFrom tx = .ok src ∧ (src = tx.payer ∨ (some src = tx.granter ∧ (src = tx.payer ∨ tx.grantOk = true))) ∧
      (src ≠ collector →
        (∀ a d, b'.bal a d = b.bal a d + (if a = collector then tot tx.fee d else 0) - (if a = src then tot tx.fee d else 0))
        ∧ b'.sup = b.sup) := by
  unfold ante at h
  split at h
  · simp at h
  split at h
  · simp at h
  split at h
  · simp at h
  obtain ⟨src, hsrc, h⟩ := bind_ok h
  refine ⟨src, hsrc, ?_, ?_⟩
  · unfold deductFrom at hsrc
    cases hg : tx.granter with
    | none => simp only [hg, Res.ok.injEq] at hsrc; exact Or.inl hsrc.symm
    | some g =>
      simp only [hg] at hsrc
      split at hsrc
      · simp at hsrc
      · rename_i hc
        simp only [Res.ok.injEq] at hsrc
        subst hsrc
        refine Or.inr ⟨rfl, ?_⟩
        by_cases hp : g = tx.payer
        · exact Or.inl hp
        · right
          cases hgo : tx.grantOk with
          | true => rfl
          | false => exact absurd ⟨hp, by simp [hgo]⟩ hc
  · intro hne
    split at h
    · -- zero fee: nothing moves
      rename_i hz
      simp only [Res.ok.injEq] at h
      subst h
      have hzero : ∀ d, tot tx.fee d = 0 := by
        intro d
        have : ∀ l : List Coin, coinsIsZero l = true → tot l d = 0 := by
          intro l
          induction l with
          | nil => intro _; rfl
          | cons c r ih =>
            intro hl
            simp only [coinsIsZero, List.all_cons, Bool.and_eq_true, beq_iff_eq] at hl
            have := ih (by simpa [coinsIsZero] using hl.2)
            simp only [tot, this, hl.1]; split <;> rfl
        exact this tx.fee hz
      refine ⟨?_, rfl⟩
      intro a d; simp [hzero]
    · split at h
      · simp at h
      · have := sendCoins_exact tx.fee b b' src collector hne h
        exact ⟨this.1, this.2.1⟩

/-- REJECTED ⇒ no charge: baseapp writes the ante branch only on success -/
theorem rejected_without_charge (cfg : Cfg) (mode : Mode) (height : Int) (minGas : List (Denom × Dec)) (others : Bool) (b : Bank) (tx : Tx) :
    (anteStep cfg mode height minGas others b tx).2 ≠ "ok" → (anteStep cfg mode height minGas others b tx).1 = b := by
  unfold anteStep
  cases ante cfg mode height minGas b tx with
  | ok b' => cases others <;> simp
  | err c => simp [Res.cls]
  | panic k => simp [Res.cls]

/-- ACCEPTED in check mode after genesis ⇒ the admission conditions held and the gas limit is positive -/
theorem accepted_only_if_admitted (cfg : Cfg) (height : Int) (minGas : List (Denom × Dec)) (b b' : Bank) (tx : Tx)
    (hh : height > 0) (h : ante cfg .check height minGas b tx = .ok b') :
    tx.gas ≠ 0 ∧ (∃ c, tx.fee = [c] ∧ (c.denom = cfg.feeDenom ∨ c.denom ∈ cfg.bypass)) ∧
      (minGasIsZero minGas = true ∨ isAnyGTE tx.fee (requiredFees minGas tx.gas) = true) := by
  unfold ante at h
  split at h
  · simp at h
  rename_i hg
  split at h
  · simp at h
  rename_i hc
  have hg' : tx.gas ≠ 0 := by
    intro e; exact hg ⟨by decide, hh, e⟩
  have hc' : feeCheckerOk cfg .check height minGas tx = true := by
    cases hx : feeCheckerOk cfg .check height minGas tx with
    | true => rfl
    | false => exact absurd ⟨by decide, by simp [hx]⟩ hc
  exact ⟨hg', (admitted_iff cfg height minGas tx hh).1 hc'⟩

/-- CONVERSELY: an admissible one-coin fee with positive gas, a consenting source and sufficient funds is accepted -/
theorem admitted_if (cfg : Cfg) (height : Int) (minGas : List (Denom × Dec)) (b : Bank) (tx : Tx) (c : Coin) (src : Addr)
    (hg : tx.gas ≠ 0) (hfee : tx.fee = [c]) (hden : c.denom = cfg.feeDenom ∨ c.denom ∈ cfg.bypass)
    (hmin : minGasIsZero minGas = true ∨ isAnyGTE tx.fee (requiredFees minGas tx.gas) = true)
    (hsrc : deductFrom tx = .ok src) (hpos : 0 ≤ c.amount) (hfunds : c.amount ≤ b.bal src c.denom) :
    ∃ b', ante cfg .check height minGas b tx = .ok b' := by
  unfold ante
  have h1 : ¬ (Mode.check ≠ Mode.simulate ∧ height > 0 ∧ tx.gas = 0) := fun h => hg h.2.2
  simp only [h1, if_false]
  have hc : feeCheckerOk cfg .check height minGas tx = true := by
    by_cases hh : height > 0
    · exact (admitted_iff cfg height minGas tx hh).2 ⟨⟨c, hfee, hden⟩, hmin⟩
    · unfold feeCheckerOk
      simp only [if_true, hh, if_false, Bool.true_and]
      cases hmin with
      | inl h => simp [h]
      | inr h => by_cases hz : minGasIsZero minGas = true <;> simp [hz, h]
  have h2 : ¬ (Mode.check ≠ Mode.simulate ∧ (!feeCheckerOk cfg .check height minGas tx) = true) := by simp [hc]
  simp only [h2, if_false]
  have h3 : ¬ (Mode.check ≠ Mode.simulate ∧ priorityPanics tx = true) := by
    simp only [priorityPanics, Bool.and_eq_true, beq_iff_eq]; intro h; exact hg h.2.1
  simp only [h3, if_false, hsrc, Res.bind, hfee]
  by_cases hz : c.amount = 0
  · exact ⟨b, by simp [coinsIsZero, hz]⟩
  · have hp : c.amount > 0 := by omega
    have hnz : coinsIsZero [c] = false := by simp [coinsIsZero, hz]
    have hv : coinsIsValid [c] = true := by simp [coinsIsValid, validFrom, hp]
    simp only [hnz, hv, Bool.not_true, Bool.false_eq_true, if_false, sendCoins, Bank.send]
    have n1 : ¬ c.amount < 0 := by omega
    have n2 : ¬ b.bal src c.denom < c.amount := by omega
    simp only [n1, n2, if_false, Res.bind]
    exact ⟨_, rfl⟩

example : (ante ⟨"urise", [], Dec.zero⟩ .check 3 [] ((Bank.empty.credit "a0" "urise" 10)) ⟨[⟨"urise", 4⟩], 100, "a0", none, false⟩).isOk = true := by decide

/-! ### Burn -/

/-- `burnAmount` (regenerated from keeper_burn.go) is the floor of ratio·amount for non-negative operands -/
theorem burnAmount_floor (ratio : Dec) (amt : Int) : S_burn_floor ratio amt := by
  unfold S_burn_floor
  intro hr ha
  unfold burnAmount Dec.truncateInt Dec.mulInt Dec.chopTrunc
  simp only []
  exact Dec.tquo_nonneg_eq (Int.mul_nonneg hr ha) (Int.le_of_lt Dec.PREC_pos)

/-- for every ratio in [0,1]: 0 ≤ burnAmount ≤ amount -/
theorem burnAmount_bounds (ratio : Dec) (amt : Int) : S_burn_bounds ratio amt := by
  unfold S_burn_bounds
  intro hr hr1 ha
  rw [burnAmount_floor ratio amt hr ha]
  have hx : 0 ≤ ratio.raw * amt := Int.mul_nonneg hr ha
  have hle : ratio.raw * amt ≤ PREC * amt := Int.mul_le_mul_of_nonneg_right hr1 ha
  constructor
  · exact Int.ediv_nonneg hx (Int.le_of_lt Dec.PREC_pos)
  · have h1 : ratio.raw * amt / PREC ≤ PREC * amt / PREC := Int.ediv_le_ediv Dec.PREC_pos hle
    rw [Int.mul_ediv_cancel_left _ (Int.ne_of_gt Dec.PREC_pos)] at h1
    exact h1

example : burnAmount ⟨333333333333333333⟩ 10 = 3 := by decide

/-- total burned by `Burn` over a coin list: only coins of the fee denom count -/
def burned (cfg : Cfg) : List Coin → Int
  | [] => 0
  | c :: r => (if c.denom = cfg.feeDenom then burnAmount cfg.burnRatio c.amount else 0) + burned cfg r

theorem collector_ne_feeModule : collector ≠ feeModule := by decide

/-- BURN IS EXACT: a successful `Burn` lowers the collector's balance and the supply of the fee denom by exactly
    Σ ⌊ratio·amount⌋ over the fee-denom coins, and changes no other balance, no other denom, no other supply. -/
theorem burn_exact (cfg : Cfg) (cs : List Coin) : ∀ (b b' : Bank), FeeAnte.burn cfg b cs = .ok b' →
    (∀ a d, b'.bal a d = b.bal a d - (if a = collector ∧ d = cfg.feeDenom then burned cfg cs else 0))
    ∧ (∀ d, b'.sup d = b.sup d - (if d = cfg.feeDenom then burned cfg cs else 0)) := by
  induction cs with
  | nil =>
    intro b b' h
    simp only [FeeAnte.burn, Res.ok.injEq] at h
    subst h
    exact ⟨by intro a d; simp [burned], by intro d; simp [burned]⟩
  | cons c r ih =>
    intro b b' h
    unfold FeeAnte.burn at h
    by_cases hd : c.denom ≠ cfg.feeDenom
    · rw [if_pos hd] at h
      have := ih b b' h
      have hd' : ¬ c.denom = cfg.feeDenom := hd
      simpa [burned, hd'] using this
    · have hd' : c.denom = cfg.feeDenom := by simpa using hd
      rw [if_neg hd] at h
      by_cases hz : burnAmount cfg.burnRatio c.amount = 0
      · rw [if_pos hz] at h
        have := ih b b' h
        simpa [burned, hd', hz] using this
      · rw [if_neg hz] at h
        by_cases hn : burnAmount cfg.burnRatio c.amount < 0
        · rw [if_pos hn] at h; simp at h
        · rw [if_neg hn] at h
          obtain ⟨b1, h1, h⟩ := bind_ok h
          obtain ⟨b2, h2, h⟩ := bind_ok h
          obtain ⟨_, _, e1⟩ := send_ok h1
          obtain ⟨_, _, e2⟩ := burn_ok h2
          obtain ⟨ihb, ihs⟩ := ih b2 b' h
          subst e1 e2
          have hcf := collector_ne_feeModule
          have hfc : feeModule ≠ collector := fun e => hcf e.symm
          constructor
          · intro a d
            rw [ihb a d]
            simp only [addSupply_bal, credit_bal, burned, hd', if_true]
            by_cases ha : a = collector <;> by_cases hdd : d = cfg.feeDenom <;> by_cases hm : a = feeModule <;>
              simp [ha, hdd, hm, hcf, hfc, hd'] <;> omega
          · intro d
            rw [ihs d]
            simp only [addSupply_sup, credit_sup, burned, hd', if_true]
            by_cases hdd : d = cfg.feeDenom <;> simp [hdd, hd'] <;> omega

/-- corollary for one fee coin and any ratio in [0,1]: exactly ⌊ratio·amount⌋ leaves collector and supply -/
theorem burn_exact_single (cfg : Cfg) (b b' : Bank) (amt : Int) (hr : 0 ≤ cfg.burnRatio.raw) (ha : 0 ≤ amt)
    (h : FeeAnte.burn cfg b [⟨cfg.feeDenom, amt⟩] = .ok b') :
    b'.bal collector cfg.feeDenom = b.bal collector cfg.feeDenom - cfg.burnRatio.raw * amt / PREC
    ∧ b'.sup cfg.feeDenom = b.sup cfg.feeDenom - cfg.burnRatio.raw * amt / PREC
    ∧ (∀ d, d ≠ cfg.feeDenom → b'.sup d = b.sup d ∧ ∀ a, b'.bal a d = b.bal a d) := by
  obtain ⟨hb, hs⟩ := burn_exact cfg _ b b' h
  have e : burned cfg [⟨cfg.feeDenom, amt⟩] = cfg.burnRatio.raw * amt / PREC := by
    simp [burned, burnAmount_floor cfg.burnRatio amt hr ha]
  refine ⟨?_, ?_, ?_⟩
  · rw [hb]; simp [e]
  · rw [hs]; simp [e]
  · intro d hd
    refine ⟨by rw [hs]; simp [hd], fun a => by rw [hb]; simp [hd]⟩

/-- a failed `Burn` changes nothing (the keeper call's branch is discarded) -/
theorem burn_failed_no_change (cfg : Cfg) (b : Bank) (cs : List Coin) :
    (burnStep cfg b cs).2 ≠ "ok" → (burnStep cfg b cs).1 = b := by
  unfold burnStep
  cases FeeAnte.burn cfg b cs <;> simp [Res.cls]

example : (FeeAnte.burn ⟨"urise", [], ⟨500000000000000000⟩⟩ (Bank.empty.credit collector "urise" 10) [⟨"urise", 7⟩]).isOk = true := by decide

end Sunrise.C18
