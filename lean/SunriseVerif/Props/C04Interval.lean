import SunriseVerif.Model.CL
import SunriseVerif.Props.C04
import SunriseVerif.Props.C05Loop

/-!
C04 (price part) — "the current price lies within the price interval of the current tick (bounds included)", proved from
the structure of the model of x/liquiditypool (types/tick.go `CalculateSqrtPriceToTick`, keeper_swap.go loop, the
regenerated `*_NextTickAfterCrossing` kernels).  `sp t` below = `tickToSqrtPrice t tp`; all comparisons on raw integers.

Predicates
  `InTick tp P t`   sp t = a,  a ≤ P,  and  P = a  or  P < sp (t+1)            (what `sqrtPriceToTick` guarantees)
  `Within tp P t`   sp t = a,  a ≤ P,  and  P = a  or  P ≤ sp (t+1)            (loop invariant; `InTick → Within`)
  `Closed tp P t`   sp t = a,  a ≤ P,  and  P ≤ b for every b = sp (t+1)       (C04 as stated; `Within → Closed` under `Mono`)
  `Mono tp`         sp t < sp (t+1) whenever both exist                        (ASSUMED, = `GridOK` of Model/CLCustody)
  `IterPrices bfq tp iter`   going down only: for each initialised tick ti on the path, sp (ti.tick − 1) exists and is
                             ≤ sp ti.tick (ASSUMED; under `Mono` only the existence is left: `IterPrices.of_mono`)

1. `sqrtPriceToTick_inTick`    sqrtPriceToTick P tp = .ok t → InTick tp P t      (all four return branches; no hypothesis)
2. `InTick.halfOpen`, `InTick.closed`, `sqrtPriceToTick_closed`                  (under `Mono`)
3. `cross_up_within/closed`, `cross_down_within/closed`                          (crossing conventions t / t−1)
   `cross_down_not_inTick`: after a DOWNWARD crossing the price equals sp (cursor+1) — the half-open form fails there,
   the closed form ("bounds included") is the strongest statement that survives the loop.
4. `swapLoop_cursor` (induction on fuel): on `.ok` the pair (sqrtP, tick) is unchanged or satisfies `Within`; pools untouched.
   `swapLoop_within`, `swapLoop_closed`; `computeSwap_within/closed`; `swapExactIn_within/closed`,
   `swapExactOut_within/closed` (about the pool STORED after the swap); `createPosition_first(_closed)` (first position
   of an empty pool: the stored pool has `InTick`).
5. concrete runs on the ×10 grid (`decide +kernel`).
-/
namespace Sunrise.C04Interval
open Sunrise Sunrise.TickMath Sunrise.CL Sunrise.Gen.KernelsCL Sunrise.C05Loop

def InTick (tp : TickParams) (P : Dec) (t : Int) : Prop :=
  ∃ a, tickToSqrtPrice t tp = .ok a ∧ a.raw ≤ P.raw ∧
    (P.raw = a.raw ∨ ∃ b, tickToSqrtPrice (t + 1) tp = .ok b ∧ P.raw < b.raw)

/-- the verification tail of `CalculateSqrtPriceToTick` after the search: candidate `tick`, flag `oob` -/
def wrapT (r : Res Dec) : Res Dec :=
  match r with | .ok v => .ok v | .err _ => .err "sqrt-price-to-tick" | .panic k => .panic k

def tickTail (P : Dec) (tp : TickParams) (tick : Int) (oob : Bool) : Res Int :=
  (wrapT (tickToSqrtPrice (tick + 1) tp)).bind fun p1 =>
  if P.raw ≥ p1.raw then
    (wrapT (tickToSqrtPrice (tick + 2) tp)).bind fun p2 =>
    if (!oob ∧ P.raw ≥ p2.raw) ∨ (oob ∧ P.raw > p2.raw) then Res.err "sqrt-price-to-tick"
    else if P == p2 then .ok (tick + 2)
    else .ok (tick + 1)
  else
    (wrapT (tickToSqrtPrice tick tp)).bind fun p0 =>
    if P.raw ≥ p0.raw then .ok tick
    else
      (wrapT (tickToSqrtPrice (tick - 1) tp)).bind fun pm =>
      if P.raw < pm.raw then Res.err "sqrt-price-to-tick"
      else .ok (tick - 1)

def candidate (tick0 : Int) : Int × Bool :=
  if tick0 ≤ TICK_MIN then (TICK_MIN + 1, true)
  else if tick0 ≥ TICK_MAX - 1 then (TICK_MAX - 2, true)
  else (tick0, false)

theorem sqrtPriceToTick_eq (P : Dec) (tp : TickParams) :
    sqrtPriceToTick P tp =
      (multipliedPriceToTick (Dec.mul (Dec.mul Multiplier P) P) tp).bind fun tick0 =>
        if tick0 < TICK_MIN then .err "invalid-tickers" else tickTail P tp (candidate tick0).1 (candidate tick0).2 := by
  unfold sqrtPriceToTick
  simp only [bind, pure]
  congr 1

theorem wrapT_ok {r : Res Dec} {v : Dec} (h : wrapT r = .ok v) : r = .ok v := by
  cases r with
  | ok w => exact h
  | err c => cases h
  | panic k => cases h

theorem tickTail_inTick {P : Dec} {tp : TickParams} {tick t : Int} {oob : Bool} (h : tickTail P tp tick oob = .ok t) :
    InTick tp P t := by
  unfold tickTail at h
  obtain ⟨p1, h1, h⟩ := bind_ok h
  have h1 := wrapT_ok h1
  by_cases c1 : P.raw ≥ p1.raw
  · rw [if_pos c1] at h
    obtain ⟨p2, h2, h⟩ := bind_ok h
    have h2 := wrapT_ok h2
    by_cases c2 : (!oob ∧ P.raw ≥ p2.raw) ∨ (oob ∧ P.raw > p2.raw)
    · rw [if_pos c2] at h; cases h
    · rw [if_neg c2] at h
      by_cases c3 : (P == p2) = true
      · rw [if_pos c3] at h
        have e : P = p2 := by simpa using c3
        cases h
        exact ⟨p2, h2, by rw [e], Or.inl (by rw [e])⟩
      · rw [if_neg c3] at h
        cases h
        have ne : P ≠ p2 := by simpa using c3
        have ne' : P.raw ≠ p2.raw := fun hh => ne (by cases P; cases p2; simp at hh; simp [hh])
        refine ⟨p1, h1, c1, Or.inr ⟨p2, ?_, ?_⟩⟩
        · have : tick + 1 + 1 = tick + 2 := by omega
          rw [this]; exact h2
        · cases oob <;> simp at c2 <;> omega
  · rw [if_neg c1] at h
    obtain ⟨p0, h0, h⟩ := bind_ok h
    have h0 := wrapT_ok h0
    by_cases c2 : P.raw ≥ p0.raw
    · rw [if_pos c2] at h
      cases h
      exact ⟨p0, h0, c2, Or.inr ⟨p1, h1, by omega⟩⟩
    · rw [if_neg c2] at h
      obtain ⟨pm, hm, h⟩ := bind_ok h
      have hm := wrapT_ok hm
      by_cases c3 : P.raw < pm.raw
      · rw [if_pos c3] at h; cases h
      · rw [if_neg c3] at h
        cases h
        refine ⟨pm, hm, by omega, Or.inr ⟨p0, ?_, by omega⟩⟩
        have : tick - 1 + 1 = tick := by omega
        rw [this]; exact h0

theorem sqrtPriceToTick_inTick {P : Dec} {tp : TickParams} {t : Int} (h : sqrtPriceToTick P tp = .ok t) :
    InTick tp P t := by
  rw [sqrtPriceToTick_eq] at h
  obtain ⟨tick0, _, h⟩ := bind_ok h
  by_cases c : tick0 < TICK_MIN
  · rw [if_pos c] at h; cases h
  · rw [if_neg c] at h; exact tickTail_inTick h

/-! ### 2. grid monotonicity ⇒ interval forms -/

def Mono (tp : TickParams) : Prop :=
  ∀ t a b, tickToSqrtPrice t tp = .ok a → tickToSqrtPrice (t + 1) tp = .ok b → a.raw < b.raw

/-- loop-invariant form: at or above the cursor tick's price, and on the tick or at most the next tick's price -/
def Within (tp : TickParams) (P : Dec) (t : Int) : Prop :=
  ∃ a, tickToSqrtPrice t tp = .ok a ∧ a.raw ≤ P.raw ∧
    (P.raw = a.raw ∨ ∃ b, tickToSqrtPrice (t + 1) tp = .ok b ∧ P.raw ≤ b.raw)

/-- closed-interval form: `sp t ≤ P`, and `P ≤ sp (t+1)` whenever tick `t+1` has a price -/
def Closed (tp : TickParams) (P : Dec) (t : Int) : Prop :=
  ∃ a, tickToSqrtPrice t tp = .ok a ∧ a.raw ≤ P.raw ∧ ∀ b, tickToSqrtPrice (t + 1) tp = .ok b → P.raw ≤ b.raw

theorem InTick.within {tp : TickParams} {P : Dec} {t : Int} (h : InTick tp P t) : Within tp P t := by
  obtain ⟨a, ha, hle, h⟩ := h
  refine ⟨a, ha, hle, ?_⟩
  rcases h with h | ⟨b, hb, hlt⟩
  · exact Or.inl h
  · exact Or.inr ⟨b, hb, by omega⟩

theorem Within.closed {tp : TickParams} {P : Dec} {t : Int} (hm : Mono tp) (h : Within tp P t) : Closed tp P t := by
  obtain ⟨a, ha, hle, h⟩ := h
  refine ⟨a, ha, hle, fun b hb => ?_⟩
  rcases h with h | ⟨b', hb', hlt⟩
  · have := hm t a b ha hb; omega
  · have : b' = b := res_ok_inj (hb'.symm.trans hb)
    subst this; exact hlt

/-- under grid monotonicity `InTick` is the half-open interval `sp t ≤ P < sp (t+1)` (whenever tick `t+1` has a price) -/
theorem InTick.halfOpen {tp : TickParams} {P : Dec} {t : Int} (hm : Mono tp) (h : InTick tp P t) :
    ∃ a, tickToSqrtPrice t tp = .ok a ∧ a.raw ≤ P.raw ∧ ∀ b, tickToSqrtPrice (t + 1) tp = .ok b → P.raw < b.raw := by
  obtain ⟨a, ha, hle, h⟩ := h
  refine ⟨a, ha, hle, fun b hb => ?_⟩
  rcases h with h | ⟨b', hb', hlt⟩
  · have := hm t a b ha hb; omega
  · have : b' = b := res_ok_inj (hb'.symm.trans hb)
    subst this; exact hlt

theorem InTick.closed {tp : TickParams} {P : Dec} {t : Int} (hm : Mono tp) (h : InTick tp P t) : Closed tp P t :=
  h.within.closed hm

/-- **2.** closed interval for the tick returned by `sqrtPriceToTick`, given the next tick has a price -/
theorem sqrtPriceToTick_closed {P : Dec} {tp : TickParams} {t : Int} {b : Dec} (hm : Mono tp)
    (h : sqrtPriceToTick P tp = .ok t) (hb : tickToSqrtPrice (t + 1) tp = .ok b) :
    ∃ a, tickToSqrtPrice t tp = .ok a ∧ a.raw ≤ P.raw ∧ P.raw ≤ b.raw := by
  obtain ⟨a, ha, hle, hub⟩ := (sqrtPriceToTick_inTick h).closed hm
  exact ⟨a, ha, hle, hub b hb⟩

/-! ### 3. crossing an initialised tick -/

/-- going up (quote-for-base): the price sits on tick `t`, the cursor becomes `t`: left end of `[sp t, sp (t+1)]` -/
theorem cross_up_within {tp : TickParams} {lim fee a : Dec} {t : Int} (ha : tickToSqrtPrice t tp = .ok a) :
    Within tp a (qfb_NextTickAfterCrossing lim fee t) := by
  rw [(Sunrise.C04.cross_conventions lim fee a t).2.1]
  exact ⟨a, ha, Int.le_refl _, Or.inl rfl⟩

/-- going down (base-for-quote): the price sits on tick `t`, the cursor becomes `t − 1`: right end of `[sp (t−1), sp t]`
    (needs: tick `t − 1` has a price, not above the price of tick `t`) -/
theorem cross_down_within' {tp : TickParams} {lim fee a c : Dec} {t : Int}
    (ha : tickToSqrtPrice t tp = .ok a) (hc : tickToSqrtPrice (t - 1) tp = .ok c) (hle : c.raw ≤ a.raw) :
    Within tp a (bfq_NextTickAfterCrossing lim fee t) := by
  rw [(Sunrise.C04.cross_conventions lim fee a t).2.2.2]
  have e : t - 1 + 1 = t := by omega
  exact ⟨c, hc, hle, Or.inr ⟨a, by rw [e]; exact ha, Int.le_refl _⟩⟩

theorem cross_down_within {tp : TickParams} {lim fee a c : Dec} {t : Int} (hm : Mono tp)
    (ha : tickToSqrtPrice t tp = .ok a) (hc : tickToSqrtPrice (t - 1) tp = .ok c) :
    Within tp a (bfq_NextTickAfterCrossing lim fee t) := by
  have e : t - 1 + 1 = t := by omega
  have hlt := hm (t - 1) c a hc (by rw [e]; exact ha)
  exact cross_down_within' ha hc (by omega)

theorem cross_up_closed {tp : TickParams} {lim fee a : Dec} {t : Int} (hm : Mono tp) (ha : tickToSqrtPrice t tp = .ok a) :
    Closed tp a (qfb_NextTickAfterCrossing lim fee t) := (cross_up_within ha).closed hm

theorem cross_down_closed {tp : TickParams} {lim fee a c : Dec} {t : Int} (hm : Mono tp)
    (ha : tickToSqrtPrice t tp = .ok a) (hc : tickToSqrtPrice (t - 1) tp = .ok c) :
    Closed tp a (bfq_NextTickAfterCrossing lim fee t) := (cross_down_within hm ha hc).closed hm

/-- after a downward crossing the price is NOT in the half-open interval of the new cursor: `InTick` fails there
    (the price equals the price of tick `cursor + 1`), which is why the loop invariant is the closed form -/
theorem cross_down_not_inTick {tp : TickParams} {lim fee a : Dec} {t : Int} (hm : Mono tp)
    (ha : tickToSqrtPrice t tp = .ok a) : ¬ InTick tp a (bfq_NextTickAfterCrossing lim fee t) := by
  rw [(Sunrise.C04.cross_conventions lim fee a t).2.2.2]
  have e : t - 1 + 1 = t := by omega
  rintro ⟨c, hc, hle, h⟩
  have hlt := hm (t - 1) c a hc (by rw [e]; exact ha)
  rcases h with h | ⟨b, hb, hlt'⟩
  · omega
  · rw [e] at hb
    have : b = a := res_ok_inj (hb.symm.trans ha)
    subst this; omega

/-! ### 4. the swap loop -/

theorem crossTick_cursor {s : St} {ss : SwapState} {bfq : Bool} {lim fee : Dec} {ti : TickInfo} {accVal : DecCoins}
    {denomIn : Denom} {upd : Bool} {p : St × SwapState} (h : crossTick s ss bfq lim fee ti accVal denomIn upd = .ok p) :
    p.2.sqrtP = ss.sqrtP ∧
      p.2.tick = (if bfq then bfq_NextTickAfterCrossing lim fee ti.tick else qfb_NextTickAfterCrossing lim fee ti.tick) ∧
      p.1.pools = s.pools := by
  unfold crossTick at h
  cases upd
  · cases bfq <;> cases h <;> simp
  · simp -zeta only [if_true] at h
    cases hg : (DecCoins.sub (DecCoins.add accVal [(denomIn, ss.growthPerLiq)]) ti.feeGrowth) with
    | ok g => rw [hg] at h; cases bfq <;> cases h <;> simp [setTick]
    | err c => rw [hg] at h; cases h
    | panic k => rw [hg] at h; cases h

theorem ss2Of_tick (exactIn upd : Bool) (ss : SwapState) (r : Dec × Dec × Dec × Dec) :
    (ss2Of exactIn upd ss r).tick = ss.tick := by
  cases exactIn <;> cases upd <;> simp [ss2Of, ss1Of, updateFeeGrowth] <;> split <;> simp

/-- what the settlement part of an iteration does to (price, cursor, pools) -/
theorem settleK_cursor {β : Type} {bfq upd : Bool} {lim fee : Dec} {tp : TickParams} {accVal : DecCoins} {denomIn : Denom}
    {s : St} {start tickPrice next : Dec} {ss2 : SwapState} {ti : TickInfo} {rest : List TickInfo}
    {K : St × SwapState × List TickInfo → Res β} {x : β}
    (h : settleK bfq upd lim fee tp accVal denomIn s start tickPrice next ss2 ti rest K = .ok x) :
    ∃ s3 ss3 iter3, K (s3, ss3, iter3) = .ok x ∧ ss3.sqrtP = ss2.sqrtP ∧ s3.pools = s.pools ∧
      (iter3 = rest ∨ iter3 = ti :: rest) ∧
      ((tickPrice = next ∧
          ss3.tick = (if bfq then bfq_NextTickAfterCrossing lim fee ti.tick else qfb_NextTickAfterCrossing lim fee ti.tick)) ∨
       (sqrtPriceToTick next tp = .ok ss3.tick) ∨
       (start = next ∧ ss3.tick = ss2.tick)) := by
  unfold settleK at h
  by_cases heq : (tickPrice == next) = true
  · rw [if_pos heq] at h
    have heq' : tickPrice = next := by simpa using heq
    obtain ⟨p, hp, hK⟩ := bind_ok h
    have hc := crossTick_cursor hp
    exact ⟨p.1, p.2, rest, hK, hc.1, hc.2.2, Or.inl rfl, Or.inl ⟨heq', hc.2.1⟩⟩
  · rw [if_neg heq] at h
    by_cases hord : (if bfq = true then tickPrice.raw > next.raw else tickPrice.raw < next.raw)
    · rw [if_pos hord] at h; cases h
    · rw [if_neg hord] at h
      by_cases hmv : (!(start == next)) = true
      · rw [if_pos hmv] at h
        obtain ⟨t, ht, hK⟩ := bind_ok h
        exact ⟨_, _, _, hK, rfl, rfl, Or.inr rfl, Or.inr (Or.inl ht)⟩
      · rw [if_neg hmv] at h
        have hs : start = next := by simpa using hmv
        exact ⟨_, _, _, h, rfl, rfl, Or.inr rfl, Or.inr (Or.inr ⟨hs, rfl⟩)⟩

/-- what the tick iterator must provide: going down, the tick below every initialised tick on the path has a price, not
    above that tick's own price (the loop itself only evaluates the prices of the initialised ticks).  Nothing is needed
    going up. -/
def IterPrices (bfq : Bool) (tp : TickParams) (iter : List TickInfo) : Prop :=
  bfq = true → ∀ ti ∈ iter, ∀ a, tickToSqrtPrice ti.tick tp = .ok a →
    ∃ c, tickToSqrtPrice (ti.tick - 1) tp = .ok c ∧ c.raw ≤ a.raw

/-- under grid monotonicity only the existence of those prices is left to assume -/
theorem IterPrices.of_mono {bfq : Bool} {tp : TickParams} {iter : List TickInfo} (hm : Mono tp)
    (h : bfq = true → ∀ ti ∈ iter, ∃ c, tickToSqrtPrice (ti.tick - 1) tp = .ok c) : IterPrices bfq tp iter := by
  intro hb ti hti a ha
  obtain ⟨c, hc⟩ := h hb ti hti
  have e : ti.tick - 1 + 1 = ti.tick := by omega
  have := hm (ti.tick - 1) c a hc (by rw [e]; exact ha)
  exact ⟨c, hc, by omega⟩

theorem IterPrices.up (tp : TickParams) (iter : List TickInfo) : IterPrices false tp iter := by
  intro hb; cases hb

/-- the pair (price, cursor) is unchanged, or it has been re-established in the `Within` form -/
def Moved (tp : TickParams) (x y : SwapState) : Prop :=
  (y.sqrtP = x.sqrtP ∧ y.tick = x.tick) ∨ Within tp y.sqrtP y.tick

theorem swapLoop_cursor {exactIn bfq upd : Bool} {lim fee : Dec} {tp : TickParams} {accVal : DecCoins} {denomIn : Denom} :
    ∀ (fuel noProg : Nat) (s : St) (ss : SwapState) (iter : List TickInfo) (s' : St) (ss' : SwapState),
      IterPrices bfq tp iter → swapLoop exactIn bfq upd lim fee tp accVal denomIn fuel noProg s ss iter = .ok (s', ss') →
      Moved tp ss ss' ∧ s'.pools = s.pools := by
  intro fuel
  induction fuel with
  | zero => intro noProg s ss iter s' ss' _ h; rw [swapLoop_zero] at h; cases h
  | succ fuel ih =>
    intro noProg s ss iter s' ss' hip h
    rw [swapLoop_succ_eq] at h
    split at h
    · cases h; exact ⟨Or.inl ⟨rfl, rfl⟩, rfl⟩
    · cases iter with
      | nil => cases h
      | cons ti rest =>
        simp only [] at h
        obtain ⟨tickPrice, hT, h⟩ := wrapTickK_ok h
        obtain ⟨r, hB, h⟩ := bind_ok h
        split at h
        · cases h
        · obtain ⟨s3, ss3, iter3, hK, hP, hpools, hiter3, hcur⟩ := settleK_cursor h
          rw [(ss2Of_facts exactIn upd ss r).1] at hP
          rw [ss2Of_tick] at hcur
          have hip3 : IterPrices bfq tp iter3 := by
            intro hb t ht
            rcases hiter3 with e | e
            · subst e; exact hip hb t (List.mem_cons_of_mem _ ht)
            · subst e; exact hip hb t ht
          have hrec : ∃ noProg', swapLoop exactIn bfq upd lim fee tp accVal denomIn fuel noProg' s3 ss3 iter3 = .ok (s', ss') := by
            simp only [] at hK
            by_cases hz : (if exactIn = true then amtInOf exactIn r else amtOutOf exactIn r).isZero = true
            · rw [if_pos hz] at hK
              by_cases hn : noProg ≥ 100
              · rw [if_pos hn] at hK; cases hK
              · rw [if_neg hn] at hK; exact ⟨_, hK⟩
            · rw [if_neg hz] at hK; exact ⟨_, hK⟩
          obtain ⟨noProg', hrec⟩ := hrec
          obtain ⟨hmv, hpools'⟩ := ih noProg' s3 ss3 iter3 s' ss' hip3 hrec
          refine ⟨?_, hpools'.trans hpools⟩
          have hstep : Moved tp ss ss3 := by
            rcases hcur with ⟨he, ht⟩ | ht | ⟨he, ht⟩
            · right
              rw [hP, ← he, ht]
              cases hb : bfq
              · simp only [Bool.false_eq_true, if_false]; exact cross_up_within hT
              · simp only [if_true]
                obtain ⟨c, hc, hle⟩ := hip hb ti List.mem_cons_self tickPrice hT
                exact cross_down_within' hT hc hle
            · right
              rw [hP]; exact (sqrtPriceToTick_inTick ht).within
            · left
              exact ⟨by rw [hP, he], ht⟩
          rcases hmv with ⟨e1, e2⟩ | hw
          · rcases hstep with ⟨f1, f2⟩ | hw
            · exact Or.inl ⟨e1.trans f1, e2.trans f2⟩
            · right; rw [e1, e2]; exact hw
          · exact Or.inr hw

/-- **4a.** the loop preserves the `Within` form of "price inside the cursor tick" -/
theorem swapLoop_within {exactIn bfq upd : Bool} {lim fee : Dec} {tp : TickParams} {accVal : DecCoins} {denomIn : Denom}
    {fuel noProg : Nat} {s : St} {ss : SwapState} {iter : List TickInfo} {s' : St} {ss' : SwapState}
    (hip : IterPrices bfq tp iter) (h0 : Within tp ss.sqrtP ss.tick)
    (h : swapLoop exactIn bfq upd lim fee tp accVal denomIn fuel noProg s ss iter = .ok (s', ss')) :
    Within tp ss'.sqrtP ss'.tick := by
  rcases (swapLoop_cursor fuel noProg s ss iter s' ss' hip h).1 with ⟨e1, e2⟩ | hw
  · rw [e1, e2]; exact h0
  · exact hw

/-- **4b.** the loop preserves the closed-interval statement -/
theorem swapLoop_closed {exactIn bfq upd : Bool} {lim fee : Dec} {tp : TickParams} {accVal : DecCoins} {denomIn : Denom}
    {fuel noProg : Nat} {s : St} {ss : SwapState} {iter : List TickInfo} {s' : St} {ss' : SwapState}
    (hm : Mono tp) (hip : IterPrices bfq tp iter) (h0 : Closed tp ss.sqrtP ss.tick)
    (h : swapLoop exactIn bfq upd lim fee tp accVal denomIn fuel noProg s ss iter = .ok (s', ss')) :
    Closed tp ss'.sqrtP ss'.tick := by
  rcases (swapLoop_cursor fuel noProg s ss iter s' ss' hip h).1 with ⟨e1, e2⟩ | hw
  · rw [e1, e2]; exact h0
  · exact hw.closed hm

/-! ### 4c. `computeSwap`, `swapExactIn`, `swapExactOut` -/

theorem finishSwap_cursor (exactIn upd : Bool) (acc : Accum) (denomIn : Denom) (amount : Int) (s1 : St) (ss : SwapState) :
    (finishSwap exactIn upd acc denomIn amount s1 ss).2.sqrtP = ss.sqrtP ∧
    (finishSwap exactIn upd acc denomIn amount s1 ss).2.tick = ss.tick ∧
    (finishSwap exactIn upd acc denomIn amount s1 ss).1.pools = s1.pools := by
  cases exactIn <;> cases upd <;> exact ⟨rfl, rfl, rfl⟩

theorem computeSwap_cursor {exactIn : Bool} {s : St} {pool : Nat} {denomIn denomOut : Denom} {amount : Int} {fee mLimit : Dec}
    {upd : Bool} {s2 : St} {o : SwapOut} {p : Pool} (hp : getPool s pool = some p)
    (hip : IterPrices (decide (denomIn = p.base)) p.tp (tickIter s pool p.tick (decide (denomIn = p.base))))
    (h : computeSwap exactIn s pool denomIn denomOut amount fee mLimit upd = .ok (s2, o)) :
    ((o.sqrtP = p.sqrtP ∧ o.tick = p.tick) ∨ Within p.tp o.sqrtP o.tick) ∧ s2.pools = s.pools := by
  rw [computeSwap_eq, hp] at h
  simp only [] at h
  by_cases c1 : (!poolLive p) = true
  · rw [if_pos c1] at h; cases h
  rw [if_neg c1] at h
  by_cases c2 : denomOut ≠ p.base ∧ denomOut ≠ p.quote
  · rw [if_pos c2] at h; cases h
  rw [if_neg c2] at h
  by_cases c3 : denomIn ≠ p.base ∧ denomIn ≠ p.quote
  · rw [if_pos c3] at h; cases h
  rw [if_neg c3] at h
  by_cases c4 : denomOut = denomIn
  · rw [if_pos c4] at h; cases h
  rw [if_neg c4] at h
  cases ha : getAccum s pool with
  | none => rw [ha] at h; cases h
  | some acc =>
    rw [ha] at h
    simp only [] at h
    obtain ⟨lim, _, h⟩ := bind_ok h
    by_cases c5 : (if denomIn = p.base then bfq_ValidateSqrtPrice_err lim fee lim p.sqrtP
            else qfb_ValidateSqrtPrice_err lim fee lim p.sqrtP) = true
    · rw [if_pos c5] at h; cases h
    rw [if_neg c5] at h
    obtain ⟨x, hx, h⟩ := bind_ok h
    by_cases c6 : x.2.remaining.isNegative = true
    · rw [if_pos c6] at h; cases h
    rw [if_neg c6] at h
    have h' := res_ok_inj h
    have hf := finishSwap_cursor exactIn upd acc denomIn amount x.1 x.2
    rw [h'] at hf
    obtain ⟨hmv, hpools⟩ := swapLoop_cursor _ _ _ _ _ x.1 x.2 hip hx
    refine ⟨?_, hf.2.2.trans hpools⟩
    rw [hf.1, hf.2.1]
    exact hmv

theorem err_bind {α β : Type} (c : String) (f : α → Res β) : (Res.err c : Res α).bind f = .err c := rfl
theorem panic_bind {α β : Type} (k : PanicKind) (f : α → Res β) : (Res.panic k : Res α).bind f = .panic k := rfl
theorem ok_bind {α β : Type} (a : α) (f : α → Res β) : (Res.ok a : Res α).bind f = f a := rfl

theorem updatePoolForSwap_ok {s : St} {p : Pool} {sender : Addr} {dI dO : Denom} {aI aO : Int} {o : SwapOut} {s2 : St}
    (h : updatePoolForSwap s p sender dI aI dO aO o = .ok s2) :
    ∃ b, s2 = setPool { s with bank := b } { p with liq := o.liq, tick := o.tick, sqrtP := o.sqrtP } := by
  unfold updatePoolForSwap at h
  simp only [bind, pure, err_bind] at h
  split at h
  · cases h
  split at h
  · cases h
  obtain ⟨b1, _, h⟩ := bind_ok h
  split at h
  all_goals
    obtain ⟨b2, _, h⟩ := bind_ok h
    split at h
    · cases h
    obtain ⟨b3, _, h⟩ := bind_ok h
    split at h
    · cases h
    split at h
    · cases h
    exact ⟨b3, (res_ok_inj h).symm⟩

theorem find_map_replace (l : List Pool) (pool : Nat) (p p' : Pool) (hid : p'.id = pool)
    (h : l.find? (·.id == pool) = some p) :
    (l.map fun q => if q.id == pool then p' else q).find? (·.id == pool) = some p' := by
  induction l with
  | nil => simp at h
  | cons x xs ih =>
    simp only [List.map_cons, List.find?_cons] at h ⊢
    by_cases hx : (x.id == pool) = true
    · simp [hx, hid]
    · have hx' : (x.id == pool) = false := by simpa using hx
      simp only [hx'] at h ⊢
      simp only [Bool.false_eq_true, if_false, hx']
      exact ih h

theorem getPool_setPool {s s' : St} {pool : Nat} {p p' : Pool} (hp : getPool s pool = some p) (hpools : s'.pools = s.pools)
    (hid : p'.id = p.id) : getPool (setPool s' p') pool = some p' := by
  unfold getPool at hp ⊢
  have hpid : p.id = pool := by
    have := List.find?_some hp
    simpa using this
  simp only [setPool, hpools, hid, hpid]
  exact find_map_replace s.pools pool p p' (hid.trans hpid) hp

theorem swap_tail {s s1 s2 : St} {pool : Nat} {p : Pool} {o : SwapOut} {sender : Addr} {dI dO : Denom} {aI aO : Int}
    (hp : getPool s pool = some p) (hpools : s1.pools = s.pools)
    (hcur : (o.sqrtP = p.sqrtP ∧ o.tick = p.tick) ∨ Within p.tp o.sqrtP o.tick)
    (hu : updatePoolForSwap s1 p sender dI aI dO aO o = .ok s2) :
    ∃ q, getPool s2 pool = some q ∧ q.tp = p.tp ∧
      ((q.sqrtP = p.sqrtP ∧ q.tick = p.tick) ∨ Within p.tp q.sqrtP q.tick) := by
  obtain ⟨b, hs2⟩ := updatePoolForSwap_ok hu
  refine ⟨{ p with liq := o.liq, tick := o.tick, sqrtP := o.sqrtP }, ?_, rfl, hcur⟩
  rw [hs2]
  exact getPool_setPool (s := s) hp hpools rfl

theorem swapExactIn_cursor {s : St} {sender : Addr} {pool : Nat} {denomIn denomOut : Denom} {amount : Int} {feeEnabled : Bool}
    {s2 : St} {out : Int} {p : Pool} (hp : getPool s pool = some p)
    (hip : IterPrices (decide (denomIn = p.base)) p.tp (tickIter s pool p.tick (decide (denomIn = p.base))))
    (h : swapExactIn s sender pool denomIn amount denomOut feeEnabled = .ok (s2, out)) :
    ∃ q, getPool s2 pool = some q ∧ q.tp = p.tp ∧
      ((q.sqrtP = p.sqrtP ∧ q.tick = p.tick) ∨ Within p.tp q.sqrtP q.tick) := by
  unfold swapExactIn at h
  rw [hp] at h
  simp only [bind, pure, err_bind, ok_bind] at h
  split at h
  · cases h
  obtain ⟨x, hx, h⟩ := bind_ok h
  split at h
  · cases h
  split at h
  · cases h
  obtain ⟨s2', hu, h⟩ := bind_ok h
  have := res_ok_inj h
  cases this
  obtain ⟨hcur, hpools⟩ := computeSwap_cursor hp hip hx
  exact swap_tail hp hpools hcur hu

theorem swapExactOut_cursor {s : St} {sender : Addr} {pool : Nat} {denomIn denomOut : Denom} {amount : Int} {feeEnabled : Bool}
    {s2 : St} {out : Int} {p : Pool} (hp : getPool s pool = some p)
    (hip : IterPrices (decide (denomIn = p.base)) p.tp (tickIter s pool p.tick (decide (denomIn = p.base))))
    (h : swapExactOut s sender pool denomOut amount denomIn feeEnabled = .ok (s2, out)) :
    ∃ q, getPool s2 pool = some q ∧ q.tp = p.tp ∧
      ((q.sqrtP = p.sqrtP ∧ q.tick = p.tick) ∨ Within p.tp q.sqrtP q.tick) := by
  unfold swapExactOut at h
  rw [hp] at h
  simp only [bind, pure, err_bind, ok_bind] at h
  split at h
  · cases h
  obtain ⟨x, hx, h⟩ := bind_ok h
  split at h
  · cases h
  split at h
  · cases h
  obtain ⟨s2', hu, h⟩ := bind_ok h
  have := res_ok_inj h
  cases this
  obtain ⟨hcur, hpools⟩ := computeSwap_cursor hp hip hx
  exact swap_tail hp hpools hcur hu

theorem cursor_within {tp : TickParams} {P P' : Dec} {t t' : Int} (h0 : Within tp P t)
    (h : (P' = P ∧ t' = t) ∨ Within tp P' t') : Within tp P' t' := by
  rcases h with ⟨e1, e2⟩ | hw
  · rw [e1, e2]; exact h0
  · exact hw

theorem cursor_closed {tp : TickParams} {P P' : Dec} {t t' : Int} (hm : Mono tp) (h0 : Closed tp P t)
    (h : (P' = P ∧ t' = t) ∨ Within tp P' t') : Closed tp P' t' := by
  rcases h with ⟨e1, e2⟩ | hw
  · rw [e1, e2]; exact h0
  · exact hw.closed hm

/-- **4c.** `computeSwap`: the reported (price, cursor) satisfies `Within` if the pool's did -/
theorem computeSwap_within {exactIn : Bool} {s : St} {pool : Nat} {denomIn denomOut : Denom} {amount : Int} {fee mLimit : Dec}
    {upd : Bool} {s2 : St} {o : SwapOut} {p : Pool} (hp : getPool s pool = some p)
    (hip : IterPrices (decide (denomIn = p.base)) p.tp (tickIter s pool p.tick (decide (denomIn = p.base))))
    (h0 : Within p.tp p.sqrtP p.tick)
    (h : computeSwap exactIn s pool denomIn denomOut amount fee mLimit upd = .ok (s2, o)) :
    Within p.tp o.sqrtP o.tick :=
  cursor_within h0 (computeSwap_cursor hp hip h).1

theorem computeSwap_closed {exactIn : Bool} {s : St} {pool : Nat} {denomIn denomOut : Denom} {amount : Int} {fee mLimit : Dec}
    {upd : Bool} {s2 : St} {o : SwapOut} {p : Pool} (hm : Mono p.tp) (hp : getPool s pool = some p)
    (hip : IterPrices (decide (denomIn = p.base)) p.tp (tickIter s pool p.tick (decide (denomIn = p.base))))
    (h0 : Closed p.tp p.sqrtP p.tick)
    (h : computeSwap exactIn s pool denomIn denomOut amount fee mLimit upd = .ok (s2, o)) :
    Closed p.tp o.sqrtP o.tick :=
  cursor_closed hm h0 (computeSwap_cursor hp hip h).1

/-- **4c.** `SwapExactAmountIn`: the pool stored after a successful swap satisfies `Within` if the pool before did -/
theorem swapExactIn_within {s : St} {sender : Addr} {pool : Nat} {denomIn denomOut : Denom} {amount : Int} {feeEnabled : Bool}
    {s2 : St} {out : Int} {p : Pool} (hp : getPool s pool = some p)
    (hip : IterPrices (decide (denomIn = p.base)) p.tp (tickIter s pool p.tick (decide (denomIn = p.base))))
    (h0 : Within p.tp p.sqrtP p.tick)
    (h : swapExactIn s sender pool denomIn amount denomOut feeEnabled = .ok (s2, out)) :
    ∃ q, getPool s2 pool = some q ∧ q.tp = p.tp ∧ Within q.tp q.sqrtP q.tick := by
  obtain ⟨q, hq, htp, hc⟩ := swapExactIn_cursor hp hip h
  exact ⟨q, hq, htp, by rw [htp]; exact cursor_within h0 hc⟩

theorem swapExactIn_closed {s : St} {sender : Addr} {pool : Nat} {denomIn denomOut : Denom} {amount : Int} {feeEnabled : Bool}
    {s2 : St} {out : Int} {p : Pool} (hm : Mono p.tp) (hp : getPool s pool = some p)
    (hip : IterPrices (decide (denomIn = p.base)) p.tp (tickIter s pool p.tick (decide (denomIn = p.base))))
    (h0 : Closed p.tp p.sqrtP p.tick)
    (h : swapExactIn s sender pool denomIn amount denomOut feeEnabled = .ok (s2, out)) :
    ∃ q, getPool s2 pool = some q ∧ q.tp = p.tp ∧ Closed q.tp q.sqrtP q.tick := by
  obtain ⟨q, hq, htp, hc⟩ := swapExactIn_cursor hp hip h
  exact ⟨q, hq, htp, by rw [htp]; exact cursor_closed hm h0 hc⟩

/-- **4c.** `SwapExactAmountOut` -/
theorem swapExactOut_within {s : St} {sender : Addr} {pool : Nat} {denomIn denomOut : Denom} {amount : Int} {feeEnabled : Bool}
    {s2 : St} {out : Int} {p : Pool} (hp : getPool s pool = some p)
    (hip : IterPrices (decide (denomIn = p.base)) p.tp (tickIter s pool p.tick (decide (denomIn = p.base))))
    (h0 : Within p.tp p.sqrtP p.tick)
    (h : swapExactOut s sender pool denomOut amount denomIn feeEnabled = .ok (s2, out)) :
    ∃ q, getPool s2 pool = some q ∧ q.tp = p.tp ∧ Within q.tp q.sqrtP q.tick := by
  obtain ⟨q, hq, htp, hc⟩ := swapExactOut_cursor hp hip h
  exact ⟨q, hq, htp, by rw [htp]; exact cursor_within h0 hc⟩

theorem swapExactOut_closed {s : St} {sender : Addr} {pool : Nat} {denomIn denomOut : Denom} {amount : Int} {feeEnabled : Bool}
    {s2 : St} {out : Int} {p : Pool} (hm : Mono p.tp) (hp : getPool s pool = some p)
    (hip : IterPrices (decide (denomIn = p.base)) p.tp (tickIter s pool p.tick (decide (denomIn = p.base))))
    (h0 : Closed p.tp p.sqrtP p.tick)
    (h : swapExactOut s sender pool denomOut amount denomIn feeEnabled = .ok (s2, out)) :
    ∃ q, getPool s2 pool = some q ∧ q.tp = p.tp ∧ Closed q.tp q.sqrtP q.tick := by
  obtain ⟨q, hq, htp, hc⟩ := swapExactOut_cursor hp hip h
  exact ⟨q, hq, htp, by rw [htp]; exact cursor_closed hm h0 hc⟩

/-! ### 4d. first position of a pool -/

theorem upsertTick_ok {s : St} {pool : Nat} {t : Int} {d : Dec} {u : Bool} {r : St × Bool}
    (h : upsertTick s pool t d u = .ok r) : r.1.pools = s.pools ∧ r.1.positions = s.positions := by
  unfold upsertTick at h
  simp only [bind, pure] at h
  obtain ⟨ti, _, h⟩ := bind_ok h
  cases h
  exact ⟨rfl, rfl⟩

theorem setAccumPositionFee_pools {s : St} {pool : Nat} {lo hi : Int} {posId : Nat} {delta : Dec} {s' : St}
    (h : setAccumPositionFee s pool lo hi posId delta = .ok s') : s'.pools = s.pools := by
  unfold setAccumPositionFee at h
  simp only [bind, pure, err_bind, ok_bind] at h
  split at h
  · obtain ⟨outside, _, h⟩ := bind_ok h
    split at h
    · split at h
      · cases h
      · cases h; simp [setAccum, setAccPos]; split <;> rfl
    · split at h
      · cases h
      · split at h
        · split at h
          · cases h
          · obtain ⟨u, _, h⟩ := bind_ok h
            cases h; simp [setAccum, setAccPos]; split <;> rfl
        · obtain ⟨u, _, h⟩ := bind_ok h
          cases h; simp [setAccum, setAccPos]; split <;> rfl
  · cases h

theorem setPosition_pools (s : St) (p : Position) : (setPosition s p).pools = s.pools := by
  unfold setPosition; split <;> rfl

theorem getPosition_setPosition (s : St) (p : Position) : getPosition (setPosition s p) p.id = some p := by
  unfold getPosition setPosition
  split
  · rename_i hany
    simp only []
    generalize s.positions = l at hany
    induction l with
    | nil => simp at hany
    | cons x xs ih =>
      simp only [List.map_cons, List.find?_cons]
      by_cases hx : (x.id == p.id) = true
      · simp [hx]
      · have hx' : (x.id == p.id) = false := by simpa using hx
        simp only [hx', Bool.false_eq_true, if_false]
        apply ih
        simpa [hx'] using hany
  · rename_i hany
    simp only [List.find?_append]
    have : s.positions.find? (fun x => x.id == p.id) = none := by
      rw [List.find?_eq_none]
      intro x hx hh
      exact hany (List.any_eq_true.mpr ⟨x, hx, hh⟩)
    simp [this]

theorem poolHasPosition_setPosition (s : St) (p : Position) : poolHasPosition (setPosition s p) p.pool = true := by
  unfold poolHasPosition setPosition
  split
  · rename_i hany
    obtain ⟨x, hx, hh⟩ := List.any_eq_true.mp hany
    simp only []
    apply List.any_eq_true.mpr
    refine ⟨p, ?_, by simp⟩
    apply List.mem_map.mpr
    exact ⟨x, hx, by simp [hh]⟩
  · simp

theorem updatePosition_keeps {s : St} {pool : Nat} {lo hi : Int} {delta : Dec} {posId : Nat} {p : Pool} {np : Position}
    {r : St × Int × Int × Bool × Bool}
    (h : updatePosition s pool lo hi delta posId = .ok r)
    (hp : getPool s pool = some p) (hpos : getPosition s posId = some np) (hnp : np.pool = pool)
    (hnz : (Dec.add np.liq delta).isZero = false) :
    ∃ q, getPool r.1 pool = some q ∧ q.tp = p.tp ∧ q.sqrtP = p.sqrtP ∧ q.tick = p.tick := by
  unfold updatePosition at h
  simp only [bind, pure, err_bind, ok_bind] at h
  obtain ⟨r1, h1, h⟩ := bind_ok h
  obtain ⟨r2, h2, h⟩ := bind_ok h
  have e1 := upsertTick_ok h1
  have e2 := upsertTick_ok h2
  have hp2 : getPool r2.1 pool = some p := by
    unfold getPool at hp ⊢; rw [e2.1, e1.1]; exact hp
  have hpos2 : getPosition r2.1 posId = some np := by
    unfold getPosition at hpos ⊢; rw [e2.2, e1.2]; exact hpos
  rw [hp2, hpos2] at h
  simp only [hnz, Bool.false_eq_true, if_false] at h
  have hhas : poolHasPosition (setPosition r2.1 { np with liq := np.liq.add delta }) pool = true := by
    subst hnp
    exact poolHasPosition_setPosition r2.1 { np with liq := np.liq.add delta }
  simp only [hhas, Bool.not_true, Bool.false_eq_true, if_false] at h
  split at h
  · cases h
  obtain ⟨x2, _, h⟩ := bind_ok h
  obtain ⟨s5, h5, h⟩ := bind_ok h
  have hr := res_ok_inj h
  subst hr
  have e5 := setAccumPositionFee_pools h5
  have hpools3 : (setPosition r2.1 { np with liq := np.liq.add delta }).pools = s.pools := by
    rw [setPosition_pools, e2.1, e1.1]
  show ∃ q, getPool s5 pool = some q ∧ _
  have hg : getPool s5 pool = s5.pools.find? (·.id == pool) := rfl
  rw [hg, e5]
  split
  · refine ⟨_, getPool_setPool hp hpools3 rfl, rfl, rfl, rfl⟩
  · exact ⟨_, getPool_setPool hp hpools3 rfl, rfl, rfl, rfl⟩

theorem ite_err_ok {α : Type} {c : Prop} [Decidable c] {e : String} {b : Res α} {v : α}
    (h : (if c then Res.err e else b) = .ok v) : ¬ c ∧ b = .ok v := by
  by_cases hc : c
  · rw [if_pos hc] at h; cases h
  · rw [if_neg hc] at h; exact ⟨hc, h⟩

theorem ite_ok {α : Type} {c : Prop} [Decidable c] {a b : Res α} {v : α}
    (h : (if c then a else b) = .ok v) : (c ∧ a = .ok v) ∨ (¬ c ∧ b = .ok v) := by
  by_cases hc : c
  · rw [if_pos hc] at h; exact Or.inl ⟨hc, h⟩
  · rw [if_neg hc] at h; exact Or.inr ⟨hc, h⟩

theorem createPosition_first {s : St} {sender : Addr} {pool : Nat} {lo hi : Int} {dBase dQuote : Denom}
    {aBase aQuote minBase minQuote : Int} {s' : St} {out : CreatePosOut} {p0 : Pool}
    (hp : getPool s pool = some p0) (hlive : poolLive p0 = false)
    (h : createPosition s sender pool lo hi dBase aBase dQuote aQuote minBase minQuote = .ok (s', out)) :
    ∃ q, getPool s' pool = some q ∧ q.tp = p0.tp ∧ InTick q.tp q.sqrtP q.tick := by
  unfold createPosition at h
  rw [hp] at h
  simp only [bind, pure, err_bind, ok_bind, hlive] at h
  obtain ⟨_, h⟩ := ite_err_ok h
  obtain ⟨_, h⟩ := ite_err_ok h
  obtain ⟨_, h⟩ := ite_err_ok h
  obtain ⟨_, h⟩ := ite_err_ok h
  obtain ⟨_, h⟩ := ite_err_ok h
  obtain ⟨x, _, h⟩ := bind_ok h
  rcases ite_ok h with ⟨_, h⟩ | ⟨hc, _⟩
  swap
  · exact absurd rfl hc
  obtain ⟨_, h⟩ := ite_err_ok h
  obtain ⟨sp, _, h⟩ := bind_ok h
  obtain ⟨t, ht, h⟩ := bind_ok h
  rcases ite_ok h with ⟨_, h⟩ | ⟨_, h⟩
  · cases h
  obtain ⟨hnz, h⟩ := ite_err_ok h
  obtain ⟨y, hy, h⟩ := bind_ok h
  obtain ⟨_, h⟩ := ite_err_ok h
  obtain ⟨_, h⟩ := ite_err_ok h
  obtain ⟨_, h⟩ := ite_err_ok h
  obtain ⟨_, h⟩ := ite_err_ok h
  obtain ⟨b1, _, h⟩ := bind_ok h
  obtain ⟨b2, _, h⟩ := bind_ok h
  have hr := res_ok_inj h
  have hs' : s'.pools = y.1.pools := (congrArg (fun z => z.1.pools) hr).symm
  have key := updatePosition_keeps (h := hy) (p := { p0 with sqrtP := sp, tick := t })
    (np := ⟨(setPool s { p0 with sqrtP := sp, tick := t }).nextPos, pool, sender, lo, hi, Dec.zero⟩)
    (by
      unfold getPool
      simp only [setPosition_pools]
      exact getPool_setPool (s := s) (s' := s) hp rfl rfl)
    (getPosition_setPosition (setPool s { p0 with sqrtP := sp, tick := t })
      ⟨(setPool s { p0 with sqrtP := sp, tick := t }).nextPos, pool, sender, lo, hi, Dec.zero⟩)
    rfl
    (by
      have : ¬ (GetLiquidityFromAmounts sp x.1 x.2 aBase aQuote).isZero = true := hnz
      simpa [Dec.add, Dec.zero, Dec.isZero] using this)
  obtain ⟨q, hq, h1, h2, h3⟩ := key
  refine ⟨q, ?_, h1, ?_⟩
  · unfold getPool at hq ⊢; rw [hs']; exact hq
  · rw [h1, h2, h3]; exact sqrtPriceToTick_inTick ht


/-- first position, closed-interval form under grid monotonicity -/
theorem createPosition_first_closed {s : St} {sender : Addr} {pool : Nat} {lo hi : Int} {dBase dQuote : Denom}
    {aBase aQuote minBase minQuote : Int} {s' : St} {out : CreatePosOut} {p0 : Pool}
    (hm : Mono p0.tp) (hp : getPool s pool = some p0) (hlive : poolLive p0 = false)
    (h : createPosition s sender pool lo hi dBase aBase dQuote aQuote minBase minQuote = .ok (s', out)) :
    ∃ q, getPool s' pool = some q ∧ q.tp = p0.tp ∧ Closed q.tp q.sqrtP q.tick := by
  obtain ⟨q, hq, htp, hin⟩ := createPosition_first hp hlive h
  exact ⟨q, hq, htp, hin.closed (by rw [htp]; exact hm)⟩

/-! ### 5. non-vacuity (ratio ×10 per tick, offset 0: tick prices 0.01, 0.1, 1, 10, … ; sqrt prices 0.0316…, 0.1, 0.316…, 1, 3.16…) -/

def okTick (r : Res Int) : Option Int := match r with | .ok v => some v | _ => none

theorem res_of_okTick {r : Res Int} {n : Int} (h : okTick r = some n) : r = .ok n := by
  cases r with
  | ok v => simp [okTick] at h; rw [h]
  | err c => simp [okTick] at h
  | panic k => simp [okTick] at h

theorem sp_0 : tickToSqrtPrice 0 tp10 = .ok ⟨PREC⟩ := res_of_rawOr (by decide) (by decide +kernel)
theorem sp_1 : tickToSqrtPrice 1 tp10 = .ok ⟨3162277660168379332⟩ := tickUp_price
theorem sp_2 : tickToSqrtPrice 2 tp10 = .ok ⟨10 * PREC⟩ := res_of_rawOr (by decide) (by decide +kernel)
theorem sp_m1 : tickToSqrtPrice (-1) tp10 = .ok ⟨316227766016837933⟩ := res_of_rawOr (by decide) (by decide +kernel)
theorem sp_m2 : tickToSqrtPrice (-2) tp10 = .ok ⟨100000000000000000⟩ := res_of_rawOr (by decide) (by decide +kernel)
theorem sp_m3 : tickToSqrtPrice (-3) tp10 = .ok ⟨31622776601683793⟩ := res_of_rawOr (by decide) (by decide +kernel)

/-- sqrt price 2.0 (price 4): the search proposes tick 1, the verification tail steps back to tick 0 (the `tick − 1`
    return branch); 1.0 ≤ 2.0 < 3.16… -/
theorem tick_of_two : sqrtPriceToTick ⟨2 * PREC⟩ tp10 = .ok 0 := res_of_okTick (by decide +kernel)

example : InTick tp10 ⟨2 * PREC⟩ 0 ∧
    tickToSqrtPrice 0 tp10 = .ok ⟨PREC⟩ ∧ tickToSqrtPrice (0 + 1) tp10 = .ok ⟨3162277660168379332⟩ ∧
    PREC ≤ 2 * PREC ∧ 2 * PREC < 3162277660168379332 :=
  ⟨sqrtPriceToTick_inTick tick_of_two, sp_0, sp_1, by decide, by decide⟩

/-- exactly on tick 1, and one ulp below it -/
theorem tick_on_grid : sqrtPriceToTick ⟨3162277660168379332⟩ tp10 = .ok 1 := res_of_okTick (by decide +kernel)
theorem tick_below_grid : sqrtPriceToTick ⟨3162277660168379331⟩ tp10 = .ok 0 := res_of_okTick (by decide +kernel)

example : InTick tp10 ⟨3162277660168379332⟩ 1 ∧ InTick tp10 ⟨3162277660168379331⟩ 0 :=
  ⟨sqrtPriceToTick_inTick tick_on_grid, sqrtPriceToTick_inTick tick_below_grid⟩

/-- loop level, base-for-quote exact-in, 3·10⁶ base into liquidity 10⁶ at price 1.0 / cursor 0 with initialised ticks −1
    and −2 below: the first iteration ends exactly on tick −1 (crossing, cursor −2, price at the RIGHT end of
    [sp(−2), sp(−1)]), the second stops inside that interval and recomputes the cursor (−2). -/
def tiD1 : TickInfo := ⟨0, -1, ⟨0⟩, ⟨0⟩, []⟩
def tiD2 : TickInfo := ⟨0, -2, ⟨0⟩, ⟨0⟩, []⟩
def ssE : SwapState := ⟨⟨3000000 * PREC⟩, ⟨0⟩, ⟨PREC⟩, 0, ⟨1000000 * PREC⟩, ⟨0⟩, ⟨0⟩, []⟩
def resE : Res (St × SwapState) :=
  swapLoop true true true MinSqrtPrice ⟨3000000000000000⟩ tp10 [] "base" 5 0 {} ssE [tiD1, tiD2]
def finalPT (r : Res (St × SwapState)) : Int × Int := match r with | .ok (_, x) => (x.sqrtP.raw, x.tick) | _ => (-1, 0)

theorem ok_of_finalPT {r : Res (St × SwapState)} {a b : Int} (hn : a ≠ -1) (h : finalPT r = (a, b)) :
    ∃ s' ss', r = .ok (s', ss') ∧ ss'.sqrtP.raw = a ∧ ss'.tick = b := by
  cases r with
  | ok v =>
    have h1 := congrArg Prod.fst h
    have h2 := congrArg Prod.snd h
    exact ⟨v.1, v.2, rfl, h1, h2⟩
  | err c => have := congrArg Prod.fst h; simp [finalPT] at this; omega
  | panic k => have := congrArg Prod.fst h; simp [finalPT] at this; omega

theorem resE_pt : finalPT resE = (250563789814457223, -2) := by decide +kernel

theorem iterE : IterPrices true tp10 [tiD1, tiD2] := by
  intro _ ti hti a ha
  simp only [List.mem_cons, List.mem_nil_iff, or_false] at hti
  rcases hti with rfl | rfl
  · have : a = ⟨316227766016837933⟩ := res_ok_inj (ha.symm.trans sp_m1)
    subst this
    exact ⟨_, sp_m2, by decide⟩
  · have : a = ⟨100000000000000000⟩ := res_ok_inj (ha.symm.trans sp_m2)
    subst this
    exact ⟨_, sp_m3, by decide⟩

example : ∃ s' ss', resE = .ok (s', ss') ∧ ss'.sqrtP.raw = 250563789814457223 ∧ ss'.tick = -2
    ∧ Within tp10 ss'.sqrtP ss'.tick := by
  obtain ⟨s', ss', hok, hp, ht⟩ := ok_of_finalPT (by decide) resE_pt
  refine ⟨s', ss', hok, hp, ht, ?_⟩
  exact swapLoop_within iterE ⟨⟨PREC⟩, sp_0, by decide, Or.inl rfl⟩ hok

/-- handler level: `computeSwap` on the one-position pool of C05Loop (`stD`: price 1.0, cursor 0, range [−1, 1)),
    1000 base in: price 0.999…, cursor −1 -/
def outPT (r : Res (St × SwapOut)) : Int × Int := match r with | .ok (_, o) => (o.sqrtP.raw, o.tick) | _ => (-1, 0)

theorem ok_of_outPT {r : Res (St × SwapOut)} {a b : Int} (hn : a ≠ -1) (h : outPT r = (a, b)) :
    ∃ s2 o, r = .ok (s2, o) ∧ o.sqrtP.raw = a ∧ o.tick = b := by
  cases r with
  | ok v =>
    have h1 := congrArg Prod.fst h
    have h2 := congrArg Prod.snd h
    exact ⟨v.1, v.2, rfl, h1, h2⟩
  | err c => have := congrArg Prod.fst h; simp [outPT] at this; omega
  | panic k => have := congrArg Prod.fst h; simp [outPT] at this; omega

theorem csE_pt : outPT (computeSwap true stD 0 "base" "quote" 1000 poolD.feeRate ⟨0⟩ false) = (999003993018960097, -1) := by
  decide +kernel

example : ∃ s2 o, computeSwap true stD 0 "base" "quote" 1000 poolD.feeRate ⟨0⟩ false = .ok (s2, o)
    ∧ o.sqrtP.raw = 999003993018960097 ∧ o.tick = -1 ∧ Within tp10 o.sqrtP o.tick := by
  obtain ⟨s2, o, hok, hp, ht⟩ := ok_of_outPT (by decide) csE_pt
  refine ⟨s2, o, hok, hp, ht, ?_⟩
  have hgp : getPool stD 0 = some poolD := rfl
  refine computeSwap_within (p := poolD) hgp ?_ ⟨⟨PREC⟩, sp_0, by decide, Or.inl rfl⟩ hok
  have hd : decide (("base" : Denom) = poolD.base) = true := by decide
  have hti : tickIter stD 0 poolD.tick true = [⟨0, -1, ⟨1000000 * PREC⟩, ⟨1000000 * PREC⟩, []⟩] := by rfl
  rw [hd, hti]
  intro _ ti hti' a ha
  have : ti = ⟨0, -1, ⟨1000000 * PREC⟩, ⟨1000000 * PREC⟩, []⟩ := by simpa using hti'
  subst this
  have : a = ⟨316227766016837933⟩ := res_ok_inj (ha.symm.trans sp_m1)
  subst this
  exact ⟨_, sp_m2, by decide⟩

/-! ### axioms -/
#print axioms sqrtPriceToTick_inTick
#print axioms sqrtPriceToTick_closed
#print axioms InTick.halfOpen
#print axioms cross_up_within
#print axioms cross_down_within
#print axioms cross_up_closed
#print axioms cross_down_closed
#print axioms cross_down_not_inTick
#print axioms swapLoop_cursor
#print axioms swapLoop_within
#print axioms swapLoop_closed
#print axioms computeSwap_within
#print axioms computeSwap_closed
#print axioms swapExactIn_within
#print axioms swapExactIn_closed
#print axioms swapExactOut_within
#print axioms swapExactOut_closed
#print axioms createPosition_first
#print axioms createPosition_first_closed
#print axioms tick_of_two
#print axioms resE_pt
#print axioms csE_pt

end Sunrise.C04Interval
