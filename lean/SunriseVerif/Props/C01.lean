import SunriseVerif.Model.CL
import SunriseVerif.Lemmas.Dec
import Mathlib.Tactic.Linarith
import Mathlib.Tactic.Ring
/-!
C01 — block processing never halts.  Totality / progress facts about the hand-written models of the code that block
hooks and transactions run without gas metering (tick search loops of x/liquiditypool/types/tick.go, the incentive
allocation called from liquidityincentive's BeginBlocker).  Hook totality of the other modules is proved in their own
property files and re-checked by this property's check (see checks/c01.py).
-/
namespace Sunrise.C01
open Sunrise Sunrise.Dec Sunrise.CL Sunrise.TickMath

/-- AllocateIncentive (as fixed) never panics, whatever the pool state, sender and coins:
    the only division is by the in-range liquidity, guarded to be positive -/
theorem allocateIncentive_no_panic (s : St) (pool : Nat) (sender : Addr) (coins : List (String × Int)) :
    (allocateIncentive s pool sender coins).isPanic = false := by
  unfold allocateIncentive
  simp only [bind, Res.bind]
  cases hp : getPool s pool with
  | none => rfl
  | some p =>
    simp only []
    by_cases hl : poolLive p = true
    · simp only [hl, Bool.not_true, Bool.false_eq_true, if_false]
      cases ha : getAccum s pool with
      | none => rfl
      | some a =>
        simp only []
        by_cases hpos : p.liq.isPositive = true
        · simp only [hpos, Bool.not_true, Bool.false_eq_true, if_false]
          by_cases hc : canSendAll s.bank sender coins = true
          · simp only [hc, Bool.not_true, Bool.false_eq_true, if_false]
            -- sendCoins returns ok or err (bank sends never panic)
            have hs : ∀ (cs : List (String × Int)) (r : Res Bank), r.isPanic = false →
                (cs.foldl (fun (r : Res Bank) c => r.bind fun b => b.send sender (feesAddr pool) c.1 c.2) r).isPanic = false := by
              intro cs
              induction cs with
              | nil => intro r hr; exact hr
              | cons c cs ih =>
                intro r hr
                simp only [List.foldl_cons]
                apply ih
                cases r with
                | ok b =>
                  simp only [Res.bind, Bank.send]
                  by_cases h1 : c.2 < 0
                  · simp [h1, Res.isPanic]
                  · by_cases h2 : b.bal sender c.1 < c.2 <;> simp [h1, h2, Res.isPanic]
                | err e => rfl
                | panic k => simp [Res.isPanic] at hr
            have := hs coins (.ok s.bank) rfl
            unfold sendCoins
            cases hb : (coins.foldl (fun (r : Res Bank) c => r.bind fun b => b.send sender (feesAddr pool) c.1 c.2) (.ok s.bank)) with
            | ok b =>
              simp only []
              have hz : p.liq.isZero = false := by
                simp only [Dec.isPositive, decide_eq_true_eq] at hpos
                simp [Dec.isZero]; omega
              simp [DecCoins.quoDecTruncate, hz, Res.isPanic]
            | err e => rfl
            | panic k => rw [hb] at this; simp [Res.isPanic] at this
          · have : canSendAll s.bank sender coins = false := by simpa using hc
            simp [this, Res.isPanic]
        · have : p.liq.isPositive = false := by simpa using hpos
          simp [this, Res.isPanic]
    · have : poolLive p = false := by simpa using hl
      simp [this, Res.isPanic]

/-- upward tick search (`multipliedPrice = multipliedPrice.Quo(priceRatio)`) makes strict progress whenever
    ratio < 2·p·(ratio − 1) in raw units — true for every price at or above the offset price (≈10^36 raw) and every
    ratio in (1, 2·10^18): that branch of the unmetered Go loop terminates -/
theorem searchUp_progress (p ratio : Dec) (hp : 0 < p.raw) (hr : PREC < ratio.raw)
    (hbig : ratio.raw < 2 * p.raw * (ratio.raw - PREC)) : (Dec.quo p ratio).raw < p.raw := by
  have hr0 : 0 < ratio.raw := by have : (0:Int) < PREC := by decide
                                 omega
  have hn : 0 ≤ p.raw * PREC * PREC := Int.mul_nonneg (Int.mul_nonneg (le_of_lt hp) (by decide)) (by decide)
  unfold Dec.quo
  rw [tquo_nonneg_eq hn (le_of_lt hr0)]
  set t := p.raw * PREC * PREC / ratio.raw with ht
  have ht0 : 0 ≤ t := Int.ediv_nonneg hn (le_of_lt hr0)
  have hq := chopRound_nonneg_bounds t ht0
  have h1 : t * ratio.raw ≤ p.raw * PREC * PREC := Int.ediv_mul_le _ (ne_of_gt hr0)
  -- ratio·(t + HALF) < ratio·(PREC·p)
  have hH : 2 * HALF = PREC := by decide
  have h2 : ratio.raw * (t + HALF) < ratio.raw * (PREC * p.raw) := by
    have e1 : ratio.raw * (t + HALF) = t * ratio.raw + ratio.raw * HALF := by ring
    have e2 : ratio.raw * (PREC * p.raw) = p.raw * PREC * PREC + p.raw * (ratio.raw - PREC) * PREC := by ring
    have e3 : 2 * (ratio.raw * HALF) = ratio.raw * PREC := by rw [← hH]; ring
    have e4 : ratio.raw * PREC < 2 * (p.raw * (ratio.raw - PREC) * PREC) := by
      have : ratio.raw * PREC < (2 * p.raw * (ratio.raw - PREC)) * PREC := Int.mul_lt_mul_of_pos_right hbig (by decide)
      linarith
    linarith
  have h3 : t + HALF < PREC * p.raw := lt_of_mul_lt_mul_left h2 (le_of_lt hr0)
  have h4 : PREC * chopRound t < PREC * p.raw := by linarith [hq.1]
  exact lt_of_mul_lt_mul_left h4 (by decide)

/-- downward tick search (`multipliedPrice = multipliedPrice.Mul(priceRatio)`) makes strict progress when one step
    grows the price by at least one ulp: p·(ratio − 1) ≥ 1 -/
theorem searchDown_progress (p ratio : Dec) (hp : 0 < p.raw) (hr : PREC < ratio.raw)
    (hbig : PREC ≤ p.raw * (ratio.raw - PREC)) : p.raw < (Dec.mul p ratio).raw := by
  have hr0 : 0 ≤ ratio.raw := by have : (0:Int) < PREC := by decide
                                 omega
  have hm := mul_nonneg_bounds p ratio (Int.mul_nonneg (le_of_lt hp) hr0)
  have e : p.raw * ratio.raw = p.raw * PREC + p.raw * (ratio.raw - PREC) := by ring
  have hH : 2 * HALF = PREC := by decide
  have hc : p.raw * PREC = PREC * p.raw := Int.mul_comm _ _
  have hH' : HALF < PREC := by decide
  have : PREC * p.raw < PREC * (Dec.mul p ratio).raw := by linarith [hm.2.1]
  exact lt_of_mul_lt_mul_left this (by decide)

/-- TOTALITY of the downward search (as fixed): whatever the ratio, price and target, the loop ends within
    `target − p + 1` iterations — every continuing step raises the raw price by at least one unit. So the search can no
    longer hang the node; what remains unbounded by gas is only the NUMBER of iterations for ratios next to 1. -/
theorem searchDown_total (ratio target : Dec) :
    ∀ (fuel : Nat) (p : Dec) (t : Int), (target.raw - p.raw).toNat < fuel → searchDown ratio target fuel p t ≠ .err "fuel" := by
  intro fuel
  induction fuel with
  | zero => intro p t h; omega
  | succ n ih =>
    intro p t h
    unfold searchDown
    by_cases hlt : p.raw < target.raw
    · simp only [hlt, if_true]
      by_cases hg : (Dec.mul p ratio).raw > p.raw
      · simp only [hg, decide_true, Bool.not_true, Bool.false_eq_true, if_false]
        apply ih
        omega
      · simp [hg]
    · simp [hlt]

/-- TOTALITY of the upward search (as fixed), for non-negative targets: ends within `p − target + 1` iterations -/
theorem searchUp_total (ratio target : Dec) :
    ∀ (fuel : Nat) (p : Dec) (t : Int), (p.raw - target.raw).toNat < fuel → searchUp ratio target fuel p t ≠ .err "fuel" := by
  intro fuel
  induction fuel with
  | zero => intro p t h; omega
  | succ n ih =>
    intro p t h
    unfold searchUp
    by_cases hgt : p.raw > target.raw
    · simp only [hgt, if_true]
      by_cases hz : ratio.isZero = true
      · simp [hz]
      · have hz' : ratio.isZero = false := by simpa using hz
        simp only [hz', Bool.false_eq_true, if_false]
        by_cases hl : (Dec.quo p ratio).raw < p.raw
        · simp only [hl, decide_true, Bool.not_true, Bool.false_eq_true, if_false]
          apply ih
          omega
        · simp [hl]
    · simp [hgt]

/-- the input that hung the unfixed code (multiplied price 9e-18, ratio 1.0001) now ends in one step with an error -/
theorem low_price_search_ends : searchDown ⟨1000100000000000000⟩ ⟨1000000000000000000000000000000000000⟩ 5 ⟨9⟩ 0 = .err "price-out-of-bound" := by
  have h : Dec.mul ⟨9⟩ ⟨1000100000000000000⟩ = ⟨9⟩ := by decide
  simp [searchDown, h]

/-- non-vacuity of the progress hypotheses: the offset price 1.0 (raw 10^36 after the 10^18 multiplier) with ratio 1.0001 -/
example : PREC < (⟨1000100000000000000⟩ : Dec).raw ∧
    (⟨1000100000000000000⟩ : Dec).raw < 2 * (10^36 : Int) * ((⟨1000100000000000000⟩ : Dec).raw - PREC) := by decide

end Sunrise.C01
