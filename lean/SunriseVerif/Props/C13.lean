import SunriseVerif.Model.Convert
/-!
C13 — RISE/vRISE supply.  Part 1: conversion is exactly 1:1 and atomic (model of keeper_convert.go,
tied to the code by the `convert` correspondence suite).
-/
set_option linter.unusedSimpArgs false
namespace Sunrise.C13
open Sunrise Sunrise.Bank Sunrise.Convert

/-- A successful conversion moves exactly `amount` out of `dIn` and into `dOut` for the holder, changes the two
    supplies by ∓amount (combined supply unchanged), leaves the module account and everybody else as they were. -/
theorem swapDenoms_exact (b b' : Bank) (holder : Addr) (dIn dOut : Denom) (amount : Int)
    (hne : dIn ≠ dOut) (hh : holder ≠ moduleAcc)
    (h : swapDenoms b holder dIn dOut amount = .ok b') :
    b'.bal holder dIn = b.bal holder dIn - amount ∧ b'.bal holder dOut = b.bal holder dOut + amount
    ∧ b'.sup dIn = b.sup dIn - amount ∧ b'.sup dOut = b.sup dOut + amount
    ∧ b'.bal moduleAcc dIn = b.bal moduleAcc dIn ∧ b'.bal moduleAcc dOut = b.bal moduleAcc dOut
    ∧ (∀ a d, a ≠ holder → a ≠ moduleAcc → b'.bal a d = b.bal a d)
    ∧ (∀ d, d ≠ dIn → d ≠ dOut → b'.bal holder d = b.bal holder d ∧ b'.sup d = b.sup d)
    ∧ 0 ≤ amount ∧ amount ≤ b.bal holder dIn := by
  have hne' : dOut ≠ dIn := fun e => hne e.symm
  have hh' : moduleAcc ≠ holder := fun e => hh e.symm
  unfold swapDenoms at h
  by_cases hn : amount < 0
  · simp [hn] at h
  · simp only [hn, if_false] at h
    obtain ⟨b1, h1, h⟩ := bind_ok h
    obtain ⟨b2, h2, h⟩ := bind_ok h
    obtain ⟨b3, h3, h⟩ := bind_ok h
    obtain ⟨hnn, hle, e1⟩ := send_ok h1
    obtain ⟨_, _, e2⟩ := burn_ok h2
    obtain ⟨_, e3⟩ := mint_ok h3
    obtain ⟨_, _, e4⟩ := send_ok h
    subst e1 e2 e3 e4
    refine ⟨?_, ?_, ?_, ?_, ?_, ?_, ?_, ?_, hnn, hle⟩
    · simp [hh, hh', hne, hne']; omega
    · simp [hh, hh', hne, hne']
    · simp [hne, hne']; omega
    · simp [hne, hne']
    · simp [hh, hh', hne, hne']; omega
    · simp [hh, hh', hne, hne']; omega
    · intro a d ha hm; simp [ha, hm]
    · intro d h1 h2; simp [h1, h2]

/-- Msg/Convert: rejected messages change nothing; accepted ones are exact (corollary) -/
theorem msgConvert_atomic (bond fee : Denom) (b : Bank) (holder : Addr) (amount : Int) :
    (msgConvert bond fee b holder amount).2 ≠ "ok" → (msgConvert bond fee b holder amount).1 = b := by
  unfold msgConvert
  by_cases h : amount ≤ 0
  · simp [h]
  · simp only [h, if_false]
    cases hc : convert bond fee b holder amount <;> simp [Res.cls]

/-- combined balance of the holder and combined supply are invariant under a successful conversion -/
theorem convert_combined_invariant (b b' : Bank) (holder : Addr) (bond fee : Denom) (amount : Int)
    (hne : bond ≠ fee) (hh : holder ≠ moduleAcc) (h : convert bond fee b holder amount = .ok b') :
    b'.bal holder bond + b'.bal holder fee = b.bal holder bond + b.bal holder fee
    ∧ b'.sup bond + b'.sup fee = b.sup bond + b.sup fee := by
  have := swapDenoms_exact b b' holder bond fee amount hne hh h
  omega

theorem convertReverse_combined_invariant (b b' : Bank) (holder : Addr) (bond fee : Denom) (amount : Int)
    (hne : bond ≠ fee) (hh : holder ≠ moduleAcc) (h : convertReverse bond fee b holder amount = .ok b') :
    b'.bal holder bond + b'.bal holder fee = b.bal holder bond + b.bal holder fee
    ∧ b'.sup bond + b'.sup fee = b.sup bond + b.sup fee := by
  have := swapDenoms_exact b b' holder fee bond amount (fun e => hne e.symm) hh h
  omega

/-- non-vacuity: a concrete successful conversion -/
example : (convert "uvrise" "urise" (Bank.empty.credit "a0" "uvrise" 10) "a0" 3).isOk = true := by decide

end Sunrise.C13
