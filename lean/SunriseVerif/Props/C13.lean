import SunriseVerif.Model.Convert
import SunriseVerif.Model.Mint
import SunriseVerif.Lemmas.Dec
import SunriseVerif.Gen.FactsBan
/-!
C13 — RISE/vRISE supply.  Part 1: conversion is exactly 1:1 and atomic (model of keeper_convert.go,
tied to the code by the `convert` correspondence suite).
-/
set_option linter.unusedSimpArgs false
namespace Sunrise.C13
open Sunrise Sunrise.Bank Sunrise.Convert

/-- A successful conversion moves exactly `amount` out of `dIn` and into `dOut` for the holder, changes the two
    supplies by ∓amount (combined supply unchanged), leaves the module account and everybody else as they were. -/
theorem swapDenoms_exact (b b' : Bank) (holder : Addr) (dIn dOut : Denom) (amount : Int)
    (hne : dIn ≠ dOut) (hh : holder ≠ moduleAcc)
    (h : swapDenoms b holder dIn dOut amount = .ok b') :
    b'.bal holder dIn = b.bal holder dIn - amount ∧ b'.bal holder dOut = b.bal holder dOut + amount
    ∧ b'.sup dIn = b.sup dIn - amount ∧ b'.sup dOut = b.sup dOut + amount
    ∧ b'.bal moduleAcc dIn = b.bal moduleAcc dIn ∧ b'.bal moduleAcc dOut = b.bal moduleAcc dOut
    ∧ (∀ a d, a ≠ holder → a ≠ moduleAcc → b'.bal a d = b.bal a d)
    ∧ (∀ d, d ≠ dIn → d ≠ dOut → b'.bal holder d = b.bal holder d ∧ b'.sup d = b.sup d)
    ∧ 0 ≤ amount ∧ amount ≤ b.bal holder dIn := by
  have hne' : dOut ≠ dIn := fun e => hne e.symm
  have hh' : moduleAcc ≠ holder := fun e => hh e.symm
  unfold swapDenoms at h
  by_cases hn : amount < 0
  · simp [hn] at h
  · simp only [hn, if_false] at h
    obtain ⟨b1, h1, h⟩ := bind_ok h
    obtain ⟨b2, h2, h⟩ := bind_ok h
    obtain ⟨b3, h3, h⟩ := bind_ok h
    obtain ⟨hnn, hle, e1⟩ := send_ok h1
    obtain ⟨_, _, e2⟩ := burn_ok h2
    obtain ⟨_, e3⟩ := mint_ok h3
    obtain ⟨_, _, e4⟩ := send_ok h
    subst e1 e2 e3 e4
    refine ⟨?_, ?_, ?_, ?_, ?_, ?_, ?_, ?_, hnn, hle⟩
    · simp [hh, hh', hne, hne']; omega
    · simp [hh, hh', hne, hne']
    · simp [hne, hne']; omega
    · simp [hne, hne']
    · simp [hh, hh', hne, hne']; omega
    · simp [hh, hh', hne, hne']; omega
    · intro a d ha hm; simp [ha, hm]
    · intro d h1 h2; simp [h1, h2]

/-- Msg/Convert: rejected messages change nothing; accepted ones are exact (corollary) -/
theorem msgConvert_atomic (bond fee : Denom) (b : Bank) (holder : Addr) (amount : Int) :
    (msgConvert bond fee b holder amount).2 ≠ "ok" → (msgConvert bond fee b holder amount).1 = b := by
  unfold msgConvert
  by_cases h : amount ≤ 0
  · simp [h]
  · simp only [h, if_false]
    cases hc : convert bond fee b holder amount <;> simp [Res.cls]

/-- combined balance of the holder and combined supply are invariant under a successful conversion -/
theorem convert_combined_invariant (b b' : Bank) (holder : Addr) (bond fee : Denom) (amount : Int)
    (hne : bond ≠ fee) (hh : holder ≠ moduleAcc) (h : convert bond fee b holder amount = .ok b') :
    b'.bal holder bond + b'.bal holder fee = b.bal holder bond + b.bal holder fee
    ∧ b'.sup bond + b'.sup fee = b.sup bond + b.sup fee := by
  have := swapDenoms_exact b b' holder bond fee amount hne hh h
  omega

theorem convertReverse_combined_invariant (b b' : Bank) (holder : Addr) (bond fee : Denom) (amount : Int)
    (hne : bond ≠ fee) (hh : holder ≠ moduleAcc) (h : convertReverse bond fee b holder amount = .ok b') :
    b'.bal holder bond + b'.bal holder fee = b.bal holder bond + b.bal holder fee
    ∧ b'.sup bond + b'.sup fee = b.sup bond + b.sup fee := by
  have := swapDenoms_exact b b' holder fee bond amount (fun e => hne e.symm) hh h
  omega

/-- non-vacuity: a concrete successful conversion -/
example : (convert "uvrise" "urise" (Bank.empty.credit "a0" "uvrise" 10) "a0" 3).isOk = true := by decide

end Sunrise.C13

/-! ## Part 2: minting (kernels regenerated from app/mint/{mint,inflation}.go; Model/Mint.lean) -/
namespace Sunrise.C13
open Sunrise.Mint Sunrise.Gen.KernelsMint Sunrise.Gen.KernelsGovFee

/-- the rate cap the regenerated function uses: max(minimum, initial·(1−disinflation)^years) -/
def rateCap (years : Int) (init minimum dis : Dec) : Dec :=
  if Dec.lt (inflationRateCapRaw init dis years) minimum then minimum else inflationRateCapRaw init dis years

/-- the two clamps of CalculateAnnualProvision applied to a candidate next supply `n` -/
def clip (cap total n : Int) : Int :=
  let n1 := if n > cap then cap else n
  let n2 := if n1 < total then total else n1
  n2 - total

/-- the regenerated function is: next = ⌊(1+rateCap)·supply⌋, clipped to the cap from above and to the supply from below -/
theorem annualProvision_eq (years : Int) (init minimum dis : Dec) (cap total : Int) :
    CalculateAnnualProvision years init minimum dis cap total
      = clip cap total (nextSupplyRaw (rateCap years init minimum dis) total) := by
  unfold CalculateAnnualProvision rateCap clip nextSupplyRaw inflationRateCapRaw
  simp only []
  split
  · rename_i hlt
    try simp only [hlt, if_true]
    generalize Dec.truncateInt (Dec.mulInt (Dec.add Dec.one minimum) total) = t
    simp only [decide_eq_true_eq]
    repeat' split
    all_goals omega
  · rename_i hlt
    try simp only [hlt, if_false]
    generalize Dec.truncateInt (Dec.mulInt (Dec.add Dec.one (Dec.mul init (Dec.powerI (Dec.sub Dec.one dis) years))) total) = t
    simp only [decide_eq_true_eq]
    repeat' split
    all_goals omega

theorem clip_bounds (cap total n : Int) :
    0 ≤ clip cap total n ∧ (total ≤ cap → total + clip cap total n ≤ cap) ∧ (clip cap total n ≤ n - total ∨ clip cap total n = 0) := by
  unfold clip
  simp only []
  split <;> split <;> omega

/-- ⌊(1+r)·supply⌋ − supply ≤ r·supply -/
theorem nextSupplyRaw_le (r : Dec) (total : Int) (ht : 0 ≤ total) (hr : 0 ≤ r.raw) :
    (nextSupplyRaw r total - total) * PREC ≤ r.raw * total := by
  have hnn : 0 ≤ (Dec.mulInt (Dec.add Dec.one r) total).raw := by
    simp only [Dec.mulInt, Dec.add, Dec.one]
    exact Int.mul_nonneg (by have := Dec.PREC_pos; omega) ht
  have hb := Dec.truncateInt_nonneg_bounds _ hnn
  unfold nextSupplyRaw
  simp only [Dec.mulInt, Dec.add, Dec.one] at hb ⊢
  have e : (PREC + r.raw) * total = PREC * total + r.raw * total := Int.add_mul _ _ _
  generalize Dec.truncateInt ⟨(PREC + r.raw) * total⟩ = t at hb ⊢
  rw [e] at hb
  generalize r.raw * total = X at hb ⊢
  have e2 : (t - total) * PREC = PREC * t - PREC * total := by
    rw [Int.sub_mul, Int.mul_comm, Int.mul_comm total PREC]
  rw [e2]; omega

/-- ANNUAL PROVISION (regenerated `CalculateAnnualProvision`, every parameter universally quantified):
    never negative; never lifts a supply that is within the cap above the cap; at most rateCap·supply. -/
theorem annualProvision_bounds (years : Int) (init minimum dis : Dec) (cap total : Int) :
    0 ≤ CalculateAnnualProvision years init minimum dis cap total
    ∧ (total ≤ cap → total + CalculateAnnualProvision years init minimum dis cap total ≤ cap)
    ∧ (0 ≤ total → 0 ≤ (rateCap years init minimum dis).raw →
        CalculateAnnualProvision years init minimum dis cap total * PREC ≤ (rateCap years init minimum dis).raw * total) := by
  rw [annualProvision_eq]
  obtain ⟨h1, h2, h3⟩ := clip_bounds cap total (nextSupplyRaw (rateCap years init minimum dis) total)
  refine ⟨h1, h2, ?_⟩
  intro ht hr
  have hk := nextSupplyRaw_le (rateCap years init minimum dis) total ht hr
  have hx : 0 ≤ (rateCap years init minimum dis).raw * total := Int.mul_nonneg hr ht
  cases h3 with
  | inl h =>
    have := Int.mul_le_mul_of_nonneg_right h (Int.le_of_lt Dec.PREC_pos)
    omega
  | inr h => rw [h]; simpa using hx

example : annual 0 900000000000000 = 90000000000000 := by decide
example : annual 0 950000000000000 = 50000000000000 := by decide   -- clipped by the cap
example : annual 30 100000000000000 = 2000000000000 := by decide   -- minimum rate 2 %

/-- PRO-RATING (regenerated `blockProvision`): never negative, and at most annual·Δs/secondsPerYear -/
theorem blockProvision_bounds (ann secs : Int) (ha : 0 ≤ ann) (hs : 0 ≤ secs) :
    0 ≤ blockProvision ann secs ∧ blockProvision ann secs * secondsPerYear ≤ ann * secs := by
  unfold blockProvision
  have hn : 0 ≤ ann * secs := Int.mul_nonneg ha hs
  rw [Int.tdiv_eq_ediv_of_nonneg hn]
  have hy : (0:Int) < secondsPerYear := by decide
  refine ⟨Int.ediv_nonneg hn (Int.le_of_lt hy), ?_⟩
  exact Int.ediv_mul_le _ (Int.ne_of_gt hy)

/-- one step never mints more than the annual provision (the clamp) nor more than the pro-rated share -/
theorem provision_bounds (genesisNs nowNs : Int) (s : St) :
    provision genesisNs nowNs s ≤ annual (yearsSinceGenesis genesisNs nowNs) (totalSupply s.supBond s.supFee)
    ∧ provision genesisNs nowNs s ≤
        blockProvision (annual (yearsSinceGenesis genesisNs nowNs) (totalSupply s.supBond s.supFee))
          (unix nowNs - s.last.getD (unix nowNs - 60)) := by
  unfold provision clampBlock
  simp only []
  split <;> omega

/-- SPLIT (regenerated `feeProvision`, `bondProvision`), for every ratio in [0,1] and every non-negative block provision:
    fee + bond = block (nothing lost), fee = ⌊ratio·block⌋, both parts non-negative -/
theorem split_exact (ratio : Dec) (block : Int) (hr0 : 0 ≤ ratio.raw) (hr1 : ratio.raw ≤ PREC) (hb : 0 ≤ block) :
    feeProvision ratio block + bondProvision block (feeProvision ratio block) = block
    ∧ feeProvision ratio block = ratio.raw * block / PREC
    ∧ 0 ≤ feeProvision ratio block ∧ 0 ≤ bondProvision block (feeProvision ratio block) := by
  have hx : 0 ≤ ratio.raw * block := Int.mul_nonneg hr0 hb
  have hf : feeProvision ratio block = ratio.raw * block / PREC := by
    unfold feeProvision Dec.truncateInt Dec.mulInt Dec.chopTrunc
    exact Dec.tquo_nonneg_eq hx (Int.le_of_lt Dec.PREC_pos)
  have hle : ratio.raw * block ≤ PREC * block := Int.mul_le_mul_of_nonneg_right hr1 hb
  have h1 : ratio.raw * block / PREC ≤ PREC * block / PREC := Int.ediv_le_ediv Dec.PREC_pos hle
  rw [Int.mul_ediv_cancel_left _ (Int.ne_of_gt Dec.PREC_pos)] at h1
  have h0 : 0 ≤ ratio.raw * block / PREC := Int.ediv_nonneg hx (Int.le_of_lt Dec.PREC_pos)
  unfold bondProvision
  rw [hf]
  exact ⟨by omega, rfl, h0, by omega⟩

example : feeProvision ⟨333333333333333333⟩ 10 = 3 ∧ bondProvision 10 3 = 7 := by decide

/-- what one call mints in each denom -/
def mintedFee (ratio : Dec) (g n : Int) (s : St) : Int := (mintFn ratio g n s).supFee - s.supFee
def mintedBond (ratio : Dec) (g n : Int) (s : St) : Int := (mintFn ratio g n s).supBond - s.supBond

/-- MINTING IS NEVER NEGATIVE (any ratio, any times, any state) -/
theorem provision_nonneg (ratio : Dec) (g n : Int) (s : St) :
    0 ≤ mintedFee ratio g n s ∧ 0 ≤ mintedBond ratio g n s := by
  unfold mintedFee mintedBond mintFn
  simp only []
  split
  · simp only []; constructor <;> split <;> omega
  · simp

/-- NOTHING LOST: for ratio in [0,1] the two mints add up to exactly the step's provision (or nothing is minted) -/
theorem minted_total (ratio : Dec) (g n : Int) (s : St) (hr0 : 0 ≤ ratio.raw) (hr1 : ratio.raw ≤ PREC) :
    mintedFee ratio g n s + mintedBond ratio g n s = max 0 (provision g n s)
    ∧ (0 < provision g n s → mintedFee ratio g n s = ratio.raw * provision g n s / PREC) := by
  unfold mintedFee mintedBond mintFn
  simp only []
  split
  · rename_i hp
    obtain ⟨h1, h2, h3, h4⟩ := split_exact ratio (provision g n s) hr0 hr1 (by omega)
    simp only []
    refine ⟨?_, fun _ => ?_⟩
    · split <;> split <;> omega
    · split <;> omega
  · rename_i hp
    simp only [Int.sub_self]
    exact ⟨by omega, fun h => absurd h hp⟩

/-- NEVER ABOVE THE CAP: whatever the elapsed time (also gaps of many years), a supply within the cap stays within the cap -/
theorem never_above_cap (ratio : Dec) (g n : Int) (s : St) (hr0 : 0 ≤ ratio.raw) (hr1 : ratio.raw ≤ PREC)
    (hcap : s.supFee + s.supBond ≤ SupplyCap) :
    (mintFn ratio g n s).supFee + (mintFn ratio g n s).supBond ≤ SupplyCap := by
  obtain ⟨ht, _⟩ := minted_total ratio g n s hr0 hr1
  obtain ⟨hp, _⟩ := provision_bounds g n s
  have hb := (annualProvision_bounds (yearsSinceGenesis g n) InflationRateCapInitial InflationRateCapMinimum DisinflationRate
    SupplyCap (totalSupply s.supBond s.supFee)).2.1
  have ha := (annualProvision_bounds (yearsSinceGenesis g n) InflationRateCapInitial InflationRateCapMinimum DisinflationRate
    SupplyCap (totalSupply s.supBond s.supFee)).1
  unfold mintedFee mintedBond at ht
  unfold annual at hp
  unfold totalSupply at hb hp ha
  have := hb (by omega)
  omega

/-- above the cap nothing is minted -/
theorem no_mint_above_cap (ratio : Dec) (g n : Int) (s : St) (hr0 : 0 ≤ ratio.raw) (hr1 : ratio.raw ≤ PREC)
    (hcap : SupplyCap ≤ s.supFee + s.supBond) :
    mintedFee ratio g n s + mintedBond ratio g n s = 0 := by
  obtain ⟨ht, _⟩ := minted_total ratio g n s hr0 hr1
  obtain ⟨hp, _⟩ := provision_bounds g n s
  have hann : annual (yearsSinceGenesis g n) (totalSupply s.supBond s.supFee) = 0 := by
    unfold annual
    rw [annualProvision_eq]
    unfold clip totalSupply
    simp only []
    split <;> split <;> omega
  omega

/-- NEVER MORE THAN THE PRO-RATED ANNUAL CAP: minted·secondsPerYear·10^18 ≤ rateCap·supply·Δs, Δs = seconds since the stored last mint -/
theorem le_prorated_annual_cap (ratio : Dec) (g n : Int) (s : St) (hr0 : 0 ≤ ratio.raw) (hr1 : ratio.raw ≤ PREC)
    (hsup : 0 ≤ s.supFee + s.supBond) (hsecs : 0 ≤ unix n - s.last.getD (unix n - 60))
    (hrate : 0 ≤ (rateCap (yearsSinceGenesis g n) InflationRateCapInitial InflationRateCapMinimum DisinflationRate).raw) :
    (mintedFee ratio g n s + mintedBond ratio g n s) * secondsPerYear * PREC ≤
      (rateCap (yearsSinceGenesis g n) InflationRateCapInitial InflationRateCapMinimum DisinflationRate).raw
        * (s.supFee + s.supBond) * (unix n - s.last.getD (unix n - 60)) := by
  obtain ⟨ht, _⟩ := minted_total ratio g n s hr0 hr1
  obtain ⟨_, hp⟩ := provision_bounds g n s
  have hab := annualProvision_bounds (yearsSinceGenesis g n) InflationRateCapInitial InflationRateCapMinimum DisinflationRate
    SupplyCap (totalSupply s.supBond s.supFee)
  have htot : totalSupply s.supBond s.supFee = s.supFee + s.supBond := by unfold totalSupply; omega
  rw [htot] at hab hp
  obtain ⟨ha0, _, ha2⟩ := hab
  have ha2 := ha2 hsup hrate
  unfold annual at hp
  generalize CalculateAnnualProvision (yearsSinceGenesis g n) InflationRateCapInitial InflationRateCapMinimum DisinflationRate
    SupplyCap (s.supFee + s.supBond) = A at *
  generalize (rateCap (yearsSinceGenesis g n) InflationRateCapInitial InflationRateCapMinimum DisinflationRate).raw = R at *
  generalize unix n - s.last.getD (unix n - 60) = D at *
  generalize s.supFee + s.supBond = T at *
  obtain ⟨hb0, hb1⟩ := blockProvision_bounds A D ha0 hsecs
  generalize blockProvision A D = B at *
  generalize mintedFee ratio g n s + mintedBond ratio g n s = M at *
  have hM : M ≤ B := by omega
  have hM0 : 0 ≤ M := by omega
  have hy : (0:Int) ≤ secondsPerYear := by decide
  -- M·Y·P ≤ B·Y·P ≤ A·D·P = (A·P)·D ≤ (R·T)·D
  have s1 : M * secondsPerYear * PREC ≤ B * secondsPerYear * PREC :=
    Int.mul_le_mul_of_nonneg_right (Int.mul_le_mul_of_nonneg_right hM hy) (Int.le_of_lt Dec.PREC_pos)
  have s2 : B * secondsPerYear * PREC ≤ A * D * PREC :=
    Int.mul_le_mul_of_nonneg_right hb1 (Int.le_of_lt Dec.PREC_pos)
  have s3 : A * D * PREC = A * PREC * D := by rw [Int.mul_assoc, Int.mul_comm D PREC, ← Int.mul_assoc]
  have s4 : A * PREC * D ≤ R * T * D := Int.mul_le_mul_of_nonneg_right ha2 hsecs
  omega

example : (mintFn ⟨500000000000000000⟩ 0 (31536000 * 1000000000) ⟨400000000000000, 500000000000000, some 31535940⟩) =
    ⟨400000078767123, 500000078767123, some 31536000⟩ := by decide
-- a ten-year gap next to the cap: the clamp keeps the supply at the cap
example : let s' := mintFn ⟨500000000000000000⟩ 0 (315360000 * 1000000000) ⟨490000000000000, 500000000000000, some 0⟩
    s'.supFee + s'.supBond = SupplyCap := by decide

/-! ### the ratio over a whole history: governance updates interleaved with blocks -/

/-- an accepted update stores a ratio in [0,1]; a refused one stores nothing -/
theorem setRatio_spec (cur new : Dec) :
    ((setRatio cur new).2 = true → (setRatio cur new).1 = new ∧ 0 ≤ new.raw ∧ new.raw ≤ PREC)
    ∧ ((setRatio cur new).2 = false → (setRatio cur new).1 = cur ∧ (new.raw < 0 ∨ PREC < new.raw)) := by
  unfold setRatio ratioValid
  by_cases h0 : 0 ≤ new.raw <;> by_cases h1 : new.raw ≤ PREC <;> simp [h0, h1] <;> omega

inductive HOp where
  | setRatio (r : Dec)
  | block (nowNs : Int) (fired : Bool)

def hstep (g : Int) (x : Dec × St) : HOp → Dec × St
  | .setRatio r => ((setRatio x.1 r).1, x.2)
  | .block n f => (x.1, Mint.block x.1 g n f x.2)

/-- THE STORED RATIO IS ALWAYS IN [0,1] AND THE SUPPLY NEVER PASSES THE CAP, for every interleaving of parameter updates
    (any proposed value) and blocks (any times): the hypothesis of `split_exact` / `never_above_cap` is an invariant -/
theorem history_ratio_and_cap (g : Int) (ops : List HOp) (x : Dec × St)
    (hr0 : 0 ≤ x.1.raw) (hr1 : x.1.raw ≤ PREC) (hcap : x.2.supFee + x.2.supBond ≤ SupplyCap) :
    let y := ops.foldl (hstep g) x
    0 ≤ y.1.raw ∧ y.1.raw ≤ PREC ∧ y.2.supFee + y.2.supBond ≤ SupplyCap := by
  induction ops generalizing x with
  | nil => exact ⟨hr0, hr1, hcap⟩
  | cons op ops ih =>
    simp only [List.foldl_cons]
    cases op with
    | setRatio r =>
      apply ih
      · show 0 ≤ (setRatio x.1 r).1.raw
        by_cases h : (setRatio x.1 r).2 = true
        · obtain ⟨e, h0, _⟩ := (setRatio_spec x.1 r).1 h; rw [e]; exact h0
        · obtain ⟨e, _⟩ := (setRatio_spec x.1 r).2 (by simpa using h); rw [e]; exact hr0
      · show (setRatio x.1 r).1.raw ≤ PREC
        by_cases h : (setRatio x.1 r).2 = true
        · obtain ⟨e, _, h1⟩ := (setRatio_spec x.1 r).1 h; rw [e]; exact h1
        · obtain ⟨e, _⟩ := (setRatio_spec x.1 r).2 (by simpa using h); rw [e]; exact hr1
      · exact hcap
    | block n f =>
      apply ih
      · exact hr0
      · exact hr1
      · show (Mint.block x.1 g n f x.2).supFee + (Mint.block x.1 g n f x.2).supBond ≤ SupplyCap
        unfold Mint.block
        split
        · exact never_above_cap x.1 g n x.2 hr0 hr1 hcap
        · exact hcap

example : (setRatio ⟨500000000000000000⟩ ⟨1500000000000000000⟩) = (⟨500000000000000000⟩, false) := by decide
example : (setRatio ⟨500000000000000000⟩ ⟨-1⟩).2 = false ∧ (setRatio ⟨500000000000000000⟩ ⟨PREC⟩).2 = true := by decide

end Sunrise.C13

/-! ## Part 3: the transfer ban as a decision table.
    `Gen/FactsBan.lean` (regenerated by svx/facts_ban.go on every run) lists EVERY `bankKeeper.Send*` call site of the custom
    modules with whether an `IsSendEnabledCoins` check dominates it. Below, every site is classified by hand; the theorem
    decides that (a) no site is unclassified (a new call site breaks the proof), (b) every site that moves coins of a denom
    chosen by the message sender between a user and a pool is dominated by a send-enabled check ON THE SAME COINS, (c) coins
    derived from a checked coin are dominated by some check, (d) no classification entry is stale.
    The classes that need no syntactic guard are justified next to the constructor and exercised by the `ban` suite on the
    real application (every message kind attempted with `uvrise` and a share denom). -/
namespace Sunrise.C13
open Sunrise.Gen.FactsBan

inductive SiteClass
  | guardedUserDenom  -- denom chosen by the sender (pool deposit / withdrawal / swap in / swap out): needs the same-coins check
  | guardedDerived    -- coin in the denom of an already checked coin (swap fee in TokenIn's denom): needs a dominating check
  | routed            -- x/swap interface fee / IBC payout: the denom is the in/out denom of a pool swap executed by the same
                      -- message, where liquiditypool's guarded sites reject send-disabled denoms first (dynamic check)
  | feePayment        -- fee deduction user → fee_collector MODULE account (C18; not a transfer between users)
  | fixedDenom        -- denom fixed by code or params: fee denom (converter, selfdelegation, shareclass), DA collateral,
                      -- share tokens minted/burned through the shareclass module account for their owner
  | moduleFlow        -- module → module, or payout of protocol-chosen coins from a module-controlled account
deriving DecidableEq, Repr

def classification : List (String × String × Nat × SiteClass) := [
  ("app/mint/mint.go", "ProvideMintFn", 0, .moduleFlow),
  ("app/mint/mint.go", "ProvideMintFn", 1, .moduleFlow),
  ("x/da/keeper/abci.go", "Keeper.ChangeToVerifiedFromProofPeriod", 0, .fixedDenom),
  ("x/da/keeper/abci.go", "Keeper.ChangeToVerifiedFromProofPeriod", 1, .fixedDenom),  -- refund of recorded challengers (fix S13a)
  ("x/da/keeper/abci.go", "Keeper.TallyValidityProofs", 0, .fixedDenom),
  ("x/da/keeper/abci.go", "Keeper.TallyValidityProofs", 1, .fixedDenom),
  ("x/da/keeper/abci.go", "Keeper.TallyValidityProofs", 2, .fixedDenom),
  ("x/da/keeper/msg_server_publish_data.go", "msgServer.PublishData", 0, .fixedDenom),
  ("x/da/keeper/msg_server_submit_invalidity.go", "msgServer.SubmitInvalidity", 0, .fixedDenom),
  ("x/fee/ante/fee.go", "DeductFees", 0, .feePayment),
  ("x/fee/keeper/keeper_burn.go", "Keeper.Burn", 0, .moduleFlow),
  ("x/liquiditypool/keeper/keeper_fee.go", "Keeper.collectFees", 0, .moduleFlow),
  ("x/liquiditypool/keeper/keeper_incentives.go", "Keeper.AllocateIncentive", 0, .moduleFlow),
  ("x/liquiditypool/keeper/keeper_position.go", "Keeper.DecreaseLiquidity", 0, .guardedUserDenom),
  ("x/liquiditypool/keeper/keeper_swap.go", "Keeper.updatePoolForSwap", 0, .guardedUserDenom),
  ("x/liquiditypool/keeper/keeper_swap.go", "Keeper.updatePoolForSwap", 1, .guardedDerived),
  ("x/liquiditypool/keeper/keeper_swap.go", "Keeper.updatePoolForSwap", 2, .guardedUserDenom),
  ("x/liquiditypool/keeper/msg_server_create_position.go", "msgServer.CreatePosition", 0, .guardedUserDenom),
  ("x/selfdelegation/keeper/msg_server_self_delegate.go", "msgServer.SelfDelegate", 0, .fixedDenom),
  ("x/selfdelegation/keeper/msg_server_withdraw_self_delegation_unbonded.go", "msgServer.WithdrawSelfDelegationUnbonded", 0, .fixedDenom),
  ("x/shareclass/keeper/keeper_claim.go", "Keeper.ClaimRewards", 0, .moduleFlow),
  ("x/shareclass/keeper/keeper_delegate.go", "Keeper.ConvertAndDelegate", 0, .fixedDenom),
  ("x/shareclass/keeper/keeper_rewards.go", "Keeper.HandleModuleAccountRewardsByValidator", 0, .moduleFlow),
  ("x/shareclass/keeper/keeper_withdraw.go", "Keeper.WithdrawUnbonded", 0, .fixedDenom),
  ("x/shareclass/keeper/msg_server_non_voting_delegate.go", "msgServer.NonVotingDelegate", 0, .fixedDenom),
  ("x/shareclass/keeper/msg_server_non_voting_undelegate.go", "msgServer.NonVotingUndelegate", 0, .fixedDenom),
  ("x/swap/keeper/ibc.go", "Keeper.SwapIncomingFund", 0, .routed),
  ("x/swap/keeper/keeper_swap_exact_amount_in.go", "Keeper.SwapExactAmountIn", 0, .routed),
  ("x/swap/keeper/keeper_swap_exact_amount_out.go", "Keeper.SwapExactAmountOut", 0, .routed),
  ("x/tokenconverter/keeper/keeper_convert.go", "Keeper.Convert", 0, .fixedDenom),
  ("x/tokenconverter/keeper/keeper_convert.go", "Keeper.Convert", 1, .fixedDenom),
  ("x/tokenconverter/keeper/keeper_convert.go", "Keeper.ConvertReverse", 0, .fixedDenom),
  ("x/tokenconverter/keeper/keeper_convert.go", "Keeper.ConvertReverse", 1, .fixedDenom)
]

def classify (s : SendSite) : Option SiteClass :=
  (classification.find? fun (f, fn, n, _) => f == s.file && fn == s.fn && n == s.nth).map fun (_, _, _, c) => c

def siteOk (s : SendSite) : Bool :=
  match classify s with
  | none => false
  | some .guardedUserDenom => s.guardedSame
  | some .guardedDerived => s.guardedAny
  | some _ => true

/-- THE BAN TABLE IS DECIDED: every regenerated call site is classified and carries the guard its class requires -/
theorem ban_table_decided : ∀ s ∈ sendSites, siteOk s = true := by decide

/-- no stale classification: every classified key is a call site of the current tree -/
theorem ban_classification_current :
    ∀ k ∈ classification, (sendSites.any fun s => s.file == k.1 && s.fn == k.2.1 && s.nth == k.2.2.1) = true := by decide

/-- the guarded class is not empty (non-vacuity): pool deposit, withdrawal, swap in, swap out -/
example : (sendSites.filter fun s => classify s == some .guardedUserDenom).length = 4 := by decide

end Sunrise.C13
