import SunriseVerif.Props.C04Store
import SunriseVerif.Props.C04Interval
import SunriseVerif.Props.C05Store

/-!
C04 (grid form) — the swap boundary `C04Store.SwapBoundary` = (H1') ∧ (T) DERIVED from the price-grid assumption that C05
(`C05Store.GridOK`) uses, so that C04 (bookkeeping), C04Interval and C05 rest on one documented grid fact.

The grid assumption `Grid tp s pool cur lo hi` (ASSUMED, a statement about `tickToSqrtPrice` only):
  * `GridMono tp lo hi`: `sp t < sp u` for all ticks `t < u` with `lo ≤ u` and `t ≤ hi` (both prices defined), i.e. strictly
    increasing on every pair of ticks that is not entirely below or entirely above the window `[lo, hi]`;
  * the window contains the cursor (`lo ≤ cur < hi`) and, strictly inside, the stored ticks of the pool;
  * the bounds of `C05Store.GridOK` (cursor / stored tick prices within [MinSqrtPrice, MaxSqrtPrice]).
  `Grid.toGridOK : Grid … → C05Store.GridOK …`.  A GLOBAL strict monotonicity (`C04Interval.Mono`, `hm` of
  `C05Store.GridOK.of_global`) is FALSE for realistic parameters: `deep_ticks_collide`, `global_mono_fails` (FINDING).
The consistency of `sqrtPriceToTick` with `tickToSqrtPrice` is NOT assumed: it is the theorem
`C04Interval.sqrtPriceToTick_inTick` (`sp t ≤ P` and `P = sp t ∨ P < sp (t+1)`).

What else the derivation of (H1') needs, and why it is not a grid fact: `TraceDir` — no recorded bucket step moved the
price AGAINST the trade.  (If a quote-for-base step lowered the price below the cursor tick's price, `sqrtPriceToTick`
would put the cursor below an initialised tick and the bookkeeping would break.)  `TraceDir` is a property of the bucket
arithmetic; it is derived here (`traceDir_of_c05`, re-running the step part of `C05Loop.swapLoop_master`) from exactly the
hypotheses of `C05Store.computeSwap_price_direction_store`; at the default limit of the swap messages it is unconditional
for quote-for-base exact-in and base-for-quote exact-out, needs `hbig` (liquidity floor) for quote-for-base exact-out and
stays a HYPOTHESIS for base-for-quote exact-in (`C05Loop.bfq_outGivenIn_against_trade`: false below price 1.0).

Results
  1. `guardedMoves_of_grid_dir` (H1') from `Inv`, `Within`, `Grid`, `TraceDir`;  `guardedMoves_of_grid` with `TraceDir`
     replaced by the C05 hypotheses.  Core: `move_guard` (arithmetic), `swapLoop_moves` (induction on fuel).
  2. `tickPricesNonZero_of_grid` (T) from the grid bounds.
  3. `swapExactIn_preserves_grid_partial`, `swapExactOut_preserves_grid_partial`, `bookOK_reachable_grid_partial`
     (`Within` is a per-step hypothesis on the pre-state of each swap: C04Interval does not prove it preserved by all
     position messages, so it is not threaded through the history).
  4. findings and non-vacuity on the executed history `C04Store.h3` / `h3u`.
-/
namespace Sunrise.C04Grid
open Sunrise Sunrise.CL Sunrise.TickMath Sunrise.Gen.KernelsCL Sunrise.C04Refine Sunrise.C04StoreL Sunrise.C04RefineLoop
open Sunrise.C05Loop (bind_ok res_ok_inj swapLoop_succ_eq swapLoop_zero settleK ss2Of bucket wrapTickK_ok amtInOf amtOutOf
  onSide ss2Of_facts ss0Of)
open Sunrise.C04Interval (InTick Within sqrtPriceToTick_inTick)

/-! ### 0. the grid assumption -/

/-- **THE grid fact** (a statement about the pool's tick parameters only): the tick → sqrt-price map is strictly
    increasing wherever it is defined.  (= hypothesis `hm` of `C05Store.GridOK.of_global`.) -/
def GridMono (tp : TickParams) (lo hi : Int) : Prop :=
  ∀ t u a b, t < u → lo ≤ u → t ≤ hi → tickToSqrtPrice t tp = .ok a → tickToSqrtPrice u tp = .ok b → a.raw < b.raw

/-- the global form (hypothesis `hm` of `C05Store.GridOK.of_global`) implies every windowed form; it is FALSE for
    realistic parameters, see `global_mono_fails` -/
theorem GridMono.of_global {tp : TickParams}
    (hm : ∀ t u a b, t < u → tickToSqrtPrice t tp = .ok a → tickToSqrtPrice u tp = .ok b → a.raw < b.raw)
    (lo hi : Int) : GridMono tp lo hi := fun t u a b h _ _ => hm t u a b h

theorem GridMono.le {tp : TickParams} {lo hi : Int} (hm : GridMono tp lo hi) {t u : Int} {a b : Dec} (h : t ≤ u)
    (hlo : lo ≤ u) (hhi : t ≤ hi)
    (ha : tickToSqrtPrice t tp = .ok a) (hb : tickToSqrtPrice u tp = .ok b) : a.raw ≤ b.raw := by
  by_cases e : t = u
  · subst e
    have := res_ok_inj (ha.symm.trans hb); subst this; exact Int.le_refl _
  · exact Int.le_of_lt (hm t u a b (by omega) hlo hhi ha hb)

/-- the grid assumption of this file: `GridMono` + the price bounds of `C05Store.GridOK` (cursor tick and stored ticks
    within [MinSqrtPrice, MaxSqrtPrice]) -/
structure Grid (tp : TickParams) (s : St) (pool : Nat) (cur : Int) (lo hi : Int) : Prop where
  mono : GridMono tp lo hi
  winCur : lo ≤ cur ∧ cur < hi
  winStored : ∀ t, C05Store.Stored s pool t → lo < t ∧ t < hi
  bounds : ∀ t a, (t = cur ∨ C05Store.Stored s pool t) → tickToSqrtPrice t tp = .ok a →
    MinSqrtPrice.raw ≤ a.raw ∧ a.raw ≤ MaxSqrtPrice.raw

/-- it implies the C05 grid assumption … -/
theorem Grid.toGridOK {tp : TickParams} {s : St} {pool : Nat} {cur lo hi : Int} (h : Grid tp s pool cur lo hi) :
    C05Store.GridOK tp s pool cur := by
  have hc := h.winCur
  refine ⟨fun t u a b ht hu hlt => h.mono t u a b hlt ?_ ?_, h.bounds⟩
  · rcases hu with e | e | e
    · omega
    · omega
    · have := h.winStored u e; omega
  · rcases ht with e | e | e
    · omega
    · omega
    · have := h.winStored t e; omega

/-- direction-specific half of `Within` kept by the loop: going down, some tick `u ≤ cursor + 1` has a price at or above
    the current price; going up, some tick `u ≥ cursor` has a price at or below the current price -/
def HalfW (bfq : Bool) (tp : TickParams) (lo hi : Int) (P : Dec) (c : Int) : Prop :=
  if bfq then ∃ u b, (lo ≤ u ∧ u ≤ hi) ∧ u ≤ c + 1 ∧ tickToSqrtPrice u tp = .ok b ∧ P.raw ≤ b.raw
  else ∃ u a, (lo ≤ u ∧ u ≤ hi) ∧ c ≤ u ∧ tickToSqrtPrice u tp = .ok a ∧ a.raw ≤ P.raw

theorem halfW_of_within {bfq : Bool} {tp : TickParams} {lo hi : Int} {P : Dec} {c : Int} (hwin : lo ≤ c ∧ c < hi)
    (h : Within tp P c) : HalfW bfq tp lo hi P c := by
  obtain ⟨a, ha, hle, hor⟩ := h
  cases bfq
  · simp only [HalfW, Bool.false_eq_true, if_false]
    exact ⟨c, a, by omega, Int.le_refl _, ha, hle⟩
  · simp only [HalfW, if_true]
    rcases hor with e | ⟨b, hb, hPb⟩
    · exact ⟨c, a, by omega, by omega, ha, by omega⟩
    · exact ⟨c + 1, b, by omega, Int.le_refl _, hb, hPb⟩

/-- **the steps of the trace never move the price against the trade**: each `.step next _ _` event's price is on the trade
    side of the previous price (start: the pool price).  NOT a grid fact: a fact about the bucket arithmetic, proved in
    `C05Loop` per step (`bucket_facts`) under its side conditions, derived below (`traceDir_of_c05`). -/
def TraceDir (bfq : Bool) : Int → List SwapEv → Prop
  | _, [] => True
  | P, .step n _ _ :: r => (if bfq then n ≤ P else P ≤ n) ∧ TraceDir bfq n r
  | P, .fee _ :: r => TraceDir bfq P r
  | P, .cross _ _ :: r => TraceDir bfq P r
  | P, .move _ :: r => TraceDir bfq P r

theorem traceDir_pre (bfq exactIn upd : Bool) (P : Int) (r : Dec × Dec × Dec × Dec) (l : List SwapEv) :
    TraceDir bfq P (preEvs exactIn upd r ++ l) ↔ (if bfq then r.1.raw ≤ P else P ≤ r.1.raw) ∧ TraceDir bfq r.1.raw l := by
  cases upd <;> exact Iff.rfl

/-! ### 1. one iteration, all facts -/

theorem settleK_grid {β : Type} {bfq upd : Bool} {lim fee : Dec} {tp : TickParams} {accVal : DecCoins} {denomIn : Denom}
    {s : St} {start tickPrice next : Dec} {ss2 : SwapState} {ti : TickInfo} {rest : List TickInfo}
    {K : St × SwapState × List TickInfo → Res β} {x : β}
    (h : settleK bfq upd lim fee tp accVal denomIn s start tickPrice next ss2 ti rest K = .ok x) :
    ∃ s3 ss3 iter3 tail, K (s3, ss3, iter3) = .ok x ∧ ss3.sqrtP = ss2.sqrtP ∧ ss3.trace = ss2.trace ++ tail ∧
      ((tickPrice = next ∧ iter3 = rest ∧ tail = [SwapEv.cross (!bfq) ti.tick] ∧
          ss3.tick = (if bfq then ti.tick - 1 else ti.tick) ∧ ss3.liq = Dec.add ss2.liq (C05Loop.netOf bfq ti)) ∨
       (tickPrice ≠ next ∧ (if bfq then ¬ tickPrice.raw > next.raw else ¬ tickPrice.raw < next.raw) ∧ iter3 = ti :: rest ∧
          ss3.liq = ss2.liq ∧
          ((start ≠ next ∧ ∃ t, sqrtPriceToTick next tp = .ok t ∧ ss3.tick = t ∧ tail = [SwapEv.move t]) ∨
           (start = next ∧ ss3.tick = ss2.tick ∧ tail = [])))) := by
  unfold settleK at h
  by_cases heq : (tickPrice == next) = true
  · rw [if_pos heq] at h
    have heq' : tickPrice = next := by simpa using heq
    obtain ⟨p, hp, hK⟩ := bind_ok h
    have hp' : crossTick s ss2 bfq lim fee ti accVal denomIn upd = .ok (p.1, p.2) := hp
    obtain ⟨_, ht, hsq, _, _⟩ := crossTick_effect hp'
    obtain ⟨_, hss⟩ := crossTick_shape hp'
    have htr3 : p.2.trace = ss2.trace ++ [SwapEv.cross (!bfq) ti.tick] := by rw [hss]
    exact ⟨p.1, p.2, rest, _, hK, hsq, htr3, Or.inl ⟨heq', rfl, rfl, ht, (C05Loop.crossTick_ok hp).2.1⟩⟩
  · rw [if_neg heq] at h
    have hne' : tickPrice ≠ next := by simpa using heq
    by_cases hord : (if bfq = true then tickPrice.raw > next.raw else tickPrice.raw < next.raw)
    · rw [if_pos hord] at h; cases h
    · rw [if_neg hord] at h
      have hord' : (if bfq = true then ¬ tickPrice.raw > next.raw else ¬ tickPrice.raw < next.raw) := by
        cases bfq <;> simpa using hord
      by_cases hmv : (!(start == next)) = true
      · rw [if_pos hmv] at h
        have hsn : start ≠ next := by simpa using hmv
        obtain ⟨t, ht, hK⟩ := bind_ok h
        exact ⟨_, _, _, [SwapEv.move t], hK, rfl, rfl, Or.inr ⟨hne', hord', rfl, rfl, Or.inl ⟨hsn, t, ht, rfl, rfl⟩⟩⟩
      · rw [if_neg hmv] at h
        have hse : start = next := by simpa using hmv
        exact ⟨_, _, _, [], h, rfl, (List.append_nil _).symm, Or.inr ⟨hne', hord', rfl, rfl, Or.inr ⟨hse, rfl, rfl⟩⟩⟩

/-- **one unrolling of the loop with price, cursor, liquidity, iterator and ghost trace** -/
theorem loop_step_full {exactIn bfq upd : Bool} {lim fee : Dec} {tp : TickParams} {accVal : DecCoins} {denomIn : Denom}
    {fuel noProg : Nat} {s : St} {ss : SwapState} {iter : List TickInfo} {s' : St} {ss' : SwapState}
    (h : swapLoop exactIn bfq upd lim fee tp accVal denomIn (fuel+1) noProg s ss iter = .ok (s', ss')) :
    ss' = ss ∨
    (0 < ss.remaining.raw ∧ ∃ ti rest tickPrice r s3 ss3 iter3 noProg' tail,
      iter = ti :: rest ∧ tickToSqrtPrice ti.tick tp = .ok tickPrice ∧
      bucket exactIn bfq lim fee ss.sqrtP (targetPrice bfq lim fee tickPrice) ss.liq ss.remaining = .ok r ∧
      ss3.sqrtP = r.1 ∧ ss3.trace = ss.trace ++ (preEvs exactIn upd r ++ tail) ∧
      ((tickPrice = r.1 ∧ iter3 = rest ∧ tail = [SwapEv.cross (!bfq) ti.tick] ∧
          ss3.tick = (if bfq then ti.tick - 1 else ti.tick) ∧ ss3.liq = Dec.add ss.liq (C05Loop.netOf bfq ti)) ∨
       (tickPrice ≠ r.1 ∧ (if bfq then ¬ tickPrice.raw > r.1.raw else ¬ tickPrice.raw < r.1.raw) ∧ iter3 = ti :: rest ∧
          ss3.liq = ss.liq ∧
          ((ss.sqrtP ≠ r.1 ∧ ∃ t, sqrtPriceToTick r.1 tp = .ok t ∧ ss3.tick = t ∧ tail = [SwapEv.move t]) ∨
           (ss.sqrtP = r.1 ∧ ss3.tick = ss.tick ∧ tail = [])))) ∧
      swapLoop exactIn bfq upd lim fee tp accVal denomIn fuel noProg' s3 ss3 iter3 = .ok (s', ss')) := by
  rw [swapLoop_succ_eq] at h
  split at h
  · left; cases h; rfl
  · rename_i hcond
    right
    have hc : ss.remaining.isPositive = true ∧ (ss.sqrtP == lim) = false := by simpa using hcond
    have hpos : 0 < ss.remaining.raw := by simpa [Dec.isPositive] using hc.1
    refine ⟨hpos, ?_⟩
    cases iter with
    | nil => cases h
    | cons ti rest =>
      simp only [] at h
      obtain ⟨tickPrice, hT, h⟩ := wrapTickK_ok h
      obtain ⟨r, hB, h⟩ := bind_ok h
      split at h
      · cases h
      · obtain ⟨h1, h2, h3⟩ := ss2Of_book exactIn upd ss r
        have hsq := (ss2Of_facts exactIn upd ss r).1
        obtain ⟨s3, ss3, iter3, tail, hK, hP, htr, hcase⟩ := settleK_grid h
        rw [hsq] at hP
        rw [h1, List.append_assoc] at htr
        rw [h2, h3] at hcase
        simp only [] at hK
        by_cases hz : (if exactIn = true then amtInOf exactIn r else amtOutOf exactIn r).isZero = true
        · rw [if_pos hz] at hK
          by_cases hn : noProg ≥ 100
          · rw [if_pos hn] at hK; cases hK
          · rw [if_neg hn] at hK
            exact ⟨ti, rest, tickPrice, r, s3, ss3, iter3, _, tail, rfl, hT, hB, hP, htr, hcase, hK⟩
        · rw [if_neg hz] at hK
          exact ⟨ti, rest, tickPrice, r, s3, ss3, iter3, _, tail, rfl, hT, hB, hP, htr, hcase, hK⟩

/-! ### 2. a cursor move inside a bucket passes no initialised tick -/

theorem dec_raw_ne {a b : Dec} (h : a ≠ b) : a.raw ≠ b.raw :=
  fun hh => h (by cases a; cases b; simp at hh; simp [hh])

/-- **the arithmetic core.**  Cursor `c`, price `start` with `HalfW`; the head `ti` of the iterator has price `tickPrice`;
    the step ended at `next`, strictly inside the bucket (`next ≠ tickPrice`, not beyond it), moved the price
    (`start ≠ next`) and not against the trade; `t = sqrtPriceToTick next`.  Then, on a strictly increasing grid, `t` lies
    between the cursor and the head of the iterator, so `moveWithin t` is admissible, and `HalfW` holds for (next, t). -/
theorem move_guard {bfq : Bool} {tp : TickParams} {lo hi : Int} (hm : GridMono tp lo hi) {b : CLBook.St} {c : Int}
    {start next tickPrice : Dec} {ti : Int} {rest : List Int} {t : Int}
    (hbt : b.tick = c) (hwc : lo ≤ c ∧ c < hi) (hwt : lo < ti ∧ ti < hi)
    (hJ : IterOK bfq b (ti :: rest)) (hW : HalfW bfq tp lo hi start c)
    (hT : tickToSqrtPrice ti tp = .ok tickPrice) (hne : tickPrice ≠ next)
    (hord : if bfq then ¬ tickPrice.raw > next.raw else ¬ tickPrice.raw < next.raw)
    (hsn : start ≠ next) (hdir : if bfq then next.raw ≤ start.raw else start.raw ≤ next.raw)
    (ht : sqrtPriceToTick next tp = .ok t) :
    (CLBook.Op.moveWithin t).guard b ∧ HalfW bfq tp lo hi next t ∧ (lo ≤ t ∧ t < hi) := by
  obtain ⟨a, ha, hle, hor⟩ := sqrtPriceToTick_inTick ht
  have hne' := dec_raw_ne hne
  have hsn' := dec_raw_ne hsn
  obtain ⟨hs, hb, hc⟩ := hJ
  have hs' := List.pairwise_cons.mp hs
  cases bfq
  · simp only [HalfW, Bool.false_eq_true, if_false] at hW hord hdir ⊢
    simp only [C04StoreL.beyond, dirLt, Bool.false_eq_true, if_false] at hb hc hs'
    obtain ⟨u, A, huw, hcu, hA, hAP⟩ := hW
    have h1 : b.tick ≤ t := by
      by_contra hlt
      rcases hor with e | ⟨b', hb', hlt'⟩
      · have := hm t u a A (by omega) (by omega) (by omega) ha hA; omega
      · have := hm.le (t := t + 1) (u := u) (by omega) (by omega) (by omega) hb' hA; omega
    have h2 : t < ti := by
      by_contra hge
      have := hm.le (t := ti) (u := t) (by omega) (by omega) (by omega) hT ha; omega
    refine ⟨Or.inl ⟨h1, fun u' hu1 hu2 => ?_⟩, ⟨t, a, by omega, Int.le_refl _, ha, hle⟩, by omega⟩
    by_contra hg
    rcases List.mem_cons.mp (hc u' hg hu1) with e | hmem
    · omega
    · have := hs'.1 u' hmem; omega
  · simp only [HalfW, if_true] at hW hord hdir ⊢
    simp only [C04StoreL.beyond, dirLt, if_true] at hb hc hs'
    obtain ⟨u, B, huw, huc, hB, hPB⟩ := hW
    have h1 : t ≤ b.tick := by
      by_contra hlt
      have := hm.le (t := u) (u := t) (by omega) (by omega) (by omega) hB ha; omega
    have h2 : ti ≤ t := by
      by_contra hlt
      rcases hor with e | ⟨b', hb', hlt'⟩
      · have := hm t ti a tickPrice (by omega) (by omega) (by omega) ha hT; omega
      · have := hm.le (t := t + 1) (u := ti) (by omega) (by omega) (by omega) hb' hT; omega
    refine ⟨Or.inr ⟨h1, fun u' hu1 hu2 => ?_⟩, ?_, by omega⟩
    · by_contra hg
      rcases List.mem_cons.mp (hc u' hg hu2) with e | hmem
      · omega
      · have := hs'.1 u' hmem; omega
    · rcases hor with e | ⟨b', hb', hlt'⟩
      · exact ⟨t, a, by omega, by omega, ha, by omega⟩
      · exact ⟨t + 1, b', by omega, Int.le_refl _, hb', by omega⟩

/-- **the loop**: on a strictly increasing grid, if the steps recorded in the appended trace never move the price against
    the trade, every `moveWithin` derived from the appended trace is admissible in the abstraction it is applied to -/
theorem swapLoop_moves {exactIn bfq upd : Bool} {lim fee : Dec} {tp : TickParams} {accVal : DecCoins} {denomIn : Denom}
    {lo hi : Int} (hm : GridMono tp lo hi) :
    ∀ (fuel noProg : Nat) (s : St) (ss : SwapState) (iter : List TickInfo) (s' : St) (ss' : SwapState),
      swapLoop exactIn bfq upd lim fee tp accVal denomIn fuel noProg s ss iter = .ok (s', ss') →
      ∃ evs, ss'.trace = ss.trace ++ evs ∧
        (TraceDir bfq ss.sqrtP.raw evs → ∀ b : CLBook.St, b.tick = ss.tick → IterOK bfq b (iter.map (·.tick)) →
          HalfW bfq tp lo hi ss.sqrtP ss.tick → (lo ≤ ss.tick ∧ ss.tick < hi) →
          (∀ x ∈ iter, lo < x.tick ∧ x.tick < hi) → GuardedMoves (bookOps evs) b) := by
  intro fuel
  induction fuel with
  | zero => intro noProg s ss iter s' ss' h; rw [swapLoop_zero] at h; cases h
  | succ fuel ih =>
    intro noProg s ss iter s' ss' h
    rcases loop_step_full h with he | ⟨_, ti, rest, tickPrice, r, s3, ss3, iter3, noProg', tail, hit, hT, _, hP, htr, hcase, hrec⟩
    · subst he
      exact ⟨[], (List.append_nil _).symm, fun _ _ _ _ _ _ _ => trivial⟩
    · subst hit
      obtain ⟨evs', htr', hG'⟩ := ih noProg' s3 ss3 iter3 s' ss' hrec
      refine ⟨preEvs exactIn upd r ++ (tail ++ evs'), ?_, ?_⟩
      · rw [htr', htr, List.append_assoc, List.append_assoc]
      · intro hdir b hbt hJ hW hwc hwi
        have hwt := hwi ti List.mem_cons_self
        obtain ⟨hd1, hd2⟩ := (traceDir_pre bfq exactIn upd _ r _).mp hdir
        rw [bookOps_append, (preEvs_book exactIn upd r).1, List.nil_append, bookOps_append]
        rw [hP] at hG'
        rw [List.map_cons] at hJ
        rcases hcase with ⟨he, hi, htl, htk, _⟩ | ⟨hne, hord, hi, _, hmv | hst⟩
        · -- crossing
          subst hi; subst htl
          have hd3 : TraceDir bfq r.1.raw evs' := hd2
          obtain ⟨_, hJ'⟩ := iterOK_cross hJ
          have eop : bookOps [SwapEv.cross (!bfq) ti.tick] = [crossOp bfq ti.tick] := by cases bfq <;> rfl
          rw [eop]
          refine ⟨by cases bfq <;> trivial, ?_⟩
          refine hG' hd3 _ ?_ hJ' ?_ ?_ (fun x hx => hwi x (List.mem_cons_of_mem _ hx))
          · rw [htk]; cases bfq <;> rfl
          · rw [htk, ← he]
            cases bfq
            · simp only [HalfW, Bool.false_eq_true, if_false]
              exact ⟨ti.tick, tickPrice, by omega, Int.le_refl _, hT, Int.le_refl _⟩
            · simp only [HalfW, if_true]
              exact ⟨ti.tick, tickPrice, by omega, by omega, hT, Int.le_refl _⟩
          · rw [htk]; cases bfq <;> simp <;> omega
        · -- cursor move inside the bucket
          obtain ⟨hsn, t, ht, htk, htl⟩ := hmv
          subst hi; subst htl
          have hd3 : TraceDir bfq r.1.raw evs' := hd2
          obtain ⟨hg, hW', hwt'⟩ := move_guard hm hbt hwc hwt hJ hW hT hne hord hsn hd1 ht
          have eop : bookOps [SwapEv.move t] = [CLBook.Op.moveWithin t] := rfl
          rw [eop]
          refine ⟨hg, ?_⟩
          refine hG' hd3 _ ?_ ?_ ?_ ?_ hwi
          · rw [htk]; rfl
          · rw [List.map_cons]; exact iterOK_move hJ hg
          · rw [htk]; exact hW'
          · rw [htk]; exact hwt'
        · -- nothing moved
          obtain ⟨hse, htk, htl⟩ := hst
          subst hi; subst htl
          have hd3 : TraceDir bfq r.1.raw evs' := hd2
          have e0 : bookOps ([] : List SwapEv) = [] := rfl
          rw [e0, List.nil_append]
          refine hG' hd3 b (by rw [htk]; exact hbt) (by rw [List.map_cons]; exact hJ) ?_ (by rw [htk]; exact hwc) hwi
          rw [htk, ← hse]; exact hW

/-! ### 3. `computeSwap` -/

open Sunrise.C04Interval (ite_err_ok) in
/-- inversion of a successful `computeSwap` (accumulators updated): pool, validated limit, loop run, ghost trace -/
theorem computeSwap_inv_grid {exactIn : Bool} {s : St} {pool : Nat} {denomIn denomOut : Denom} {amount : Int} {fee mLimit : Dec}
    {s2 : St} {o : SwapOut} (h : computeSwap exactIn s pool denomIn denomOut amount fee mLimit true = .ok (s2, o)) :
    ∃ (p : Pool) (acc : Accum) (lim : Dec) (s1 : St) (ss : SwapState), getPool s pool = some p ∧
      sqrtPriceLimit mLimit (decide (denomIn = p.base)) = .ok lim ∧
      (if denomIn = p.base then bfq_ValidateSqrtPrice_err lim fee lim p.sqrtP
        else qfb_ValidateSqrtPrice_err lim fee lim p.sqrtP) = false ∧
      swapLoop exactIn (decide (denomIn = p.base)) true lim fee p.tp acc.value denomIn LOOP_FUEL 0 s (ss0Of p amount)
          (tickIter s pool p.tick (decide (denomIn = p.base))) = .ok (s1, ss) ∧
      s2.lastTrace = ss.trace := by
  rw [C05Loop.computeSwap_eq] at h
  cases hp : getPool s pool with
  | none => rw [hp] at h; cases h
  | some p =>
    rw [hp] at h
    simp only [] at h
    obtain ⟨_, h⟩ := ite_err_ok h
    obtain ⟨_, h⟩ := ite_err_ok h
    obtain ⟨_, h⟩ := ite_err_ok h
    obtain ⟨_, h⟩ := ite_err_ok h
    cases ha : getAccum s pool with
    | none => rw [ha] at h; cases h
    | some acc =>
      rw [ha] at h
      simp only [] at h
      obtain ⟨lim, hlim, h⟩ := bind_ok h
      obtain ⟨hv, h⟩ := ite_err_ok h
      obtain ⟨x, hx, h⟩ := bind_ok h
      obtain ⟨_, h⟩ := ite_err_ok h
      have h' := res_ok_inj h
      have e1 : s2 = (C05Loop.finishSwap exactIn true acc denomIn amount x.1 x.2).1 := (congrArg Prod.fst h').symm
      refine ⟨p, acc, lim, x.1, x.2, rfl, hlim, by simpa using hv, hx, ?_⟩
      rw [e1]; cases exactIn <;> rfl

/-- **1. (H1') from the grid.**  Store satisfying the invariant, pool price within the interval of the cursor tick
    (`Within`), grid strictly increasing on a window around the cursor and the stored ticks (`Grid`); a successful `computeSwap` whose recorded steps never moved the price against
    the trade (`TraceDir`, see `traceDir_of_c05`): every cursor move inside a bucket is admissible. -/
theorem guardedMoves_of_grid_dir {exactIn : Bool} {s s1 : St} {pool : Nat} {denomIn denomOut : Denom} {amount : Int}
    {fee mLimit : Dec} {o : SwapOut} {p : Pool} (hI : Inv s) (hp : getPool s pool = some p)
    {lo hi : Int} (hw : Within p.tp p.sqrtP p.tick) (hg : Grid p.tp s pool p.tick lo hi)
    (hc : computeSwap exactIn s pool denomIn denomOut amount fee mLimit true = .ok (s1, o))
    (hdir : TraceDir (decide (denomIn = p.base)) p.sqrtP.raw s1.lastTrace) :
    GuardedMoves (bookOps s1.lastTrace) (absBook s pool p) := by
  obtain ⟨p', acc, lim, s0, ss, hp', _, _, hloop, hlast⟩ := computeSwap_inv_grid hc
  have e : p' = p := by rw [hp] at hp'; exact (Option.some.inj hp').symm
  subst e
  obtain ⟨evs, htr, hG⟩ := swapLoop_moves hg.mono _ _ _ _ _ _ _ hloop
  have hevs : ss.trace = evs := by rw [htr]; simp [ss0Of]
  rw [hlast, hevs] at hdir ⊢
  refine hG hdir (absBook s pool p') rfl (iterOK_init hI pool p' _) (halfW_of_within hg.winCur hw) hg.winCur ?_
  intro x hx
  obtain ⟨h1, h2, _⟩ := (mem_tickIter_iff s pool p'.tick _ x).mp hx
  exact hg.winStored x.tick ⟨x, h1, h2, rfl⟩

/-- **2. (T) from the grid bounds**: stored ticks have prices ≥ MinSqrtPrice > 0 -/
theorem tickPricesNonZero_of_grid {s : St} {pool : Nat}
    (hg : ∀ p, getPool s pool = some p → ∀ t a, C05Store.Stored s pool t → tickToSqrtPrice t p.tp = .ok a →
      MinSqrtPrice.raw ≤ a.raw) : TickPricesNonZero s pool := by
  intro p hp ti hti hpl v hv
  have := hg p hp ti.tick v ⟨ti, hti, hpl, rfl⟩ hv
  have h1 := C05Loop.MinSqrtPrice_raw
  exact C05Loop.isZero_false_of_ne (by omega)

/-! ### 4. `TraceDir` from the C05 hypotheses (per-step price direction, `C05Loop.bucket_facts`) -/

/-- the invariant of `C05Loop.swapLoop_master` (price part) -/
abbrev MInv (exactIn bfq : Bool) (lim : Dec) (tp : TickParams) (Lmin P0 : Int) (x : SwapState) (it : List TickInfo) : Prop :=
  0 < x.sqrtP.raw ∧ onSide bfq x.sqrtP lim ∧ (bfq = false → P0 ≤ x.sqrtP.raw) ∧
  C05Loop.IterOK bfq tp Lmin x.sqrtP x.liq it ∧ ((exactIn = false ∧ bfq = true) ∨ C05Loop.TicksWithin bfq lim tp it)

/-- one iteration keeps `MInv` and does not move the price against the trade (the step part of `swapLoop_master`,
    re-proved here because that theorem only exports the end-to-end direction) -/
theorem minv_step {exactIn bfq : Bool} {lim fee : Dec} {tp : TickParams} {Lmin P0 : Int}
    (hf0 : 0 ≤ fee.raw) (hf1 : fee.raw < PREC) (hlim0 : bfq = true → 0 < lim.raw) (hLmin : 0 < Lmin)
    (hge1 : exactIn = true → bfq = true → PREC ≤ lim.raw)
    (hbig : exactIn = false → bfq = false → PREC + lim.raw < 2 * (P0 * Lmin))
    {x x3 : SwapState} {ti : TickInfo} {rest iter3 : List TickInfo} {tickPrice : Dec} {r : Dec × Dec × Dec × Dec}
    (hinv : MInv exactIn bfq lim tp Lmin P0 x (ti :: rest)) (hrem : 0 < x.remaining.raw)
    (hT : tickToSqrtPrice ti.tick tp = .ok tickPrice)
    (hB : bucket exactIn bfq lim fee x.sqrtP (targetPrice bfq lim fee tickPrice) x.liq x.remaining = .ok r)
    (hprice : x3.sqrtP = r.1)
    (hcur : (tickPrice = r.1 ∧ iter3 = rest ∧ x3.liq = Dec.add x.liq (C05Loop.netOf bfq ti)) ∨
            (tickPrice ≠ r.1 ∧ (if bfq then ¬ tickPrice.raw > r.1.raw else ¬ tickPrice.raw < r.1.raw) ∧
               iter3 = ti :: rest ∧ x3.liq = x.liq)) :
    MInv exactIn bfq lim tp Lmin P0 x3 iter3 ∧ onSide bfq x.sqrtP r.1 := by
  obtain ⟨hxp, hxlim, hxP0, hxiter, hxt⟩ := hinv
  have hliq := hxiter.1
  obtain ⟨htside, hrestOK⟩ := hxiter.2 tickPrice hT
  have hl : 0 ≤ x.liq.raw := by omega
  obtain ⟨htg1, htg2, htg3⟩ := C05Loop.target_facts bfq lim fee x.sqrtP tickPrice hxlim htside
  have htpos : 0 < (targetPrice bfq lim fee tickPrice).raw := by
    cases bfq
    · simp only [onSide, Bool.false_eq_true, if_false] at htg1; omega
    · have := hlim0 rfl; simp only [onSide, if_true] at htg2; omega
  obtain ⟨hb1, hb2, hb3, hb4⟩ := C05Loop.bucket_facts hxp htpos htg1 hl (Int.le_of_lt hrem) hf0 hf1 hB
  have hdir : onSide bfq x.sqrtP r.1 := by
    apply hb2
    refine ⟨fun e b => ?_, fun e b hlp => ?_⟩
    · have := hge1 e b; subst b; simp only [onSide, if_true] at hxlim; omega
    · have hbig' := hbig e b
      have h1 := hxP0 b
      subst b
      simp only [onSide, Bool.false_eq_true, if_false] at htg2
      have h2 : Lmin ≤ x.liq.raw := by omega
      have h3 : P0 * Lmin ≤ x.sqrtP.raw * x.liq.raw :=
        Int.mul_le_mul h1 h2 (Int.le_of_lt hLmin) (Int.le_of_lt hxp)
      omega
  have hdirq : bfq = false → x.sqrtP.raw ≤ r.1.raw := by
    intro b; subst b; simpa [onSide] using hdir
  have hnpos : 0 < r.1.raw := by
    cases hbq : bfq
    · have := hdirq hbq; omega
    · exact hb1 hbq
  have hnlim : onSide bfq r.1 lim := by
    rcases hxt with ⟨e, b⟩ | htw
    · have := hb3 e b
      subst b; simp only [onSide, if_true] at htg2 ⊢; omega
    · have htp : onSide bfq tickPrice lim := htw ti (List.mem_cons_self) tickPrice hT
      rcases hcur with ⟨he, _, _⟩ | ⟨_, hord, _, _⟩
      · rw [← he]; exact htp
      · clear hge1 hbig hlim0 hb1 hb2 hb3 hb4 hdirq
        cases bfq <;> simp only [onSide, if_true, Bool.false_eq_true, if_false] at * <;> omega
  refine ⟨⟨?_, ?_, ?_, ?_, ?_⟩, hdir⟩
  · rw [hprice]; exact hnpos
  · rw [hprice]; exact hnlim
  · intro b; rw [hprice]; have := hdirq b; have := hxP0 b; omega
  · rcases hcur with ⟨he, hi, hlq⟩ | ⟨_, hord, hi, hlq⟩
    · subst hi; rw [hprice, ← he, hlq]; exact hrestOK
    · subst hi; rw [hprice, hlq]
      refine ⟨hliq, fun v hv => ?_⟩
      have : v = tickPrice := res_ok_inj (hv.symm.trans hT)
      subst this
      refine ⟨?_, hrestOK⟩
      clear hge1 hbig hlim0 hb1 hb2 hb3 hb4 hdirq hxt
      cases bfq <;> simp only [onSide, if_true, Bool.false_eq_true, if_false] at * <;> omega
  · rcases hxt with hm | htw
    · exact Or.inl hm
    · right
      rcases hcur with ⟨_, hi, _⟩ | ⟨_, _, hi, _⟩
      · subst hi; exact fun t ht => htw t (List.mem_cons_of_mem _ ht)
      · subst hi; exact htw

/-- **the steps recorded by the loop never move the price against the trade**, under the hypotheses of
    `C05Loop.swapLoop_master` (`hge1` only for bfq exact-in, `hbig` only for qfb exact-out) -/
theorem swapLoop_traceDir {exactIn bfq upd : Bool} {lim fee : Dec} {tp : TickParams} {accVal : DecCoins} {denomIn : Denom}
    {Lmin P0 : Int}
    (hf0 : 0 ≤ fee.raw) (hf1 : fee.raw < PREC) (hlim0 : bfq = true → 0 < lim.raw) (hLmin : 0 < Lmin)
    (hge1 : exactIn = true → bfq = true → PREC ≤ lim.raw)
    (hbig : exactIn = false → bfq = false → PREC + lim.raw < 2 * (P0 * Lmin)) :
    ∀ (fuel noProg : Nat) (s : St) (ss : SwapState) (iter : List TickInfo) (s' : St) (ss' : SwapState),
      MInv exactIn bfq lim tp Lmin P0 ss iter →
      swapLoop exactIn bfq upd lim fee tp accVal denomIn fuel noProg s ss iter = .ok (s', ss') →
      ∃ evs, ss'.trace = ss.trace ++ evs ∧ TraceDir bfq ss.sqrtP.raw evs := by
  intro fuel
  induction fuel with
  | zero => intro noProg s ss iter s' ss' _ h; rw [swapLoop_zero] at h; cases h
  | succ fuel ih =>
    intro noProg s ss iter s' ss' hinv h
    rcases loop_step_full h with he | ⟨hrem, ti, rest, tickPrice, r, s3, ss3, iter3, noProg', tail, hit, hT, hB, hP, htr, hcase, hrec⟩
    · subst he
      exact ⟨[], (List.append_nil _).symm, trivial⟩
    · subst hit
      have hcur : (tickPrice = r.1 ∧ iter3 = rest ∧ ss3.liq = Dec.add ss.liq (C05Loop.netOf bfq ti)) ∨
            (tickPrice ≠ r.1 ∧ (if bfq then ¬ tickPrice.raw > r.1.raw else ¬ tickPrice.raw < r.1.raw) ∧
               iter3 = ti :: rest ∧ ss3.liq = ss.liq) := by
        rcases hcase with ⟨he, hi, _, _, hl⟩ | ⟨hne, hord, hi, hl, _⟩
        · exact Or.inl ⟨he, hi, hl⟩
        · exact Or.inr ⟨hne, hord, hi, hl⟩
      obtain ⟨hinv3, hd⟩ := minv_step hf0 hf1 hlim0 hLmin hge1 hbig hinv hrem hT hB hP hcur
      obtain ⟨evs', htr', hD'⟩ := ih noProg' s3 ss3 iter3 s' ss' hinv3 hrec
      refine ⟨preEvs exactIn upd r ++ (tail ++ evs'), by rw [htr', htr, List.append_assoc, List.append_assoc], ?_⟩
      refine (traceDir_pre bfq exactIn upd _ r _).mpr ⟨hd, ?_⟩
      rw [hP] at hD'
      rcases hcase with ⟨_, _, htl, _, _⟩ | ⟨_, _, _, _, ⟨_, t, _, _, htl⟩ | ⟨_, _, htl⟩⟩ <;> subst htl <;> exact hD'

/-- **`TraceDir` for `computeSwap` on a store state**, hypotheses exactly those of
    `C05Store.computeSwap_price_direction_store` -/
theorem traceDir_of_c05 {exactIn : Bool} {s s1 : St} {pool : Nat} {denomIn denomOut : Denom} {amount : Int}
    {fee mLimit : Dec} {o : SwapOut} {p : Pool} {Lmin : Int}
    (hI : Inv s) (hp : getPool s pool = some p)
    (hw : Within p.tp p.sqrtP p.tick) (hg : C05Store.GridOK p.tp s pool p.tick)
    (hc : C05Store.Covered s pool Lmin p.tick (decide (denomIn = p.base))) (hLmin : 0 < Lmin)
    (hf0 : 0 ≤ fee.raw) (hf1 : fee.raw < PREC)
    (hlim : ∀ lim, sqrtPriceLimit mLimit (decide (denomIn = p.base)) = .ok lim →
      (exactIn = false ∧ denomIn = p.base) ∨ C05Store.LimitOutside p.tp s pool p.tick (decide (denomIn = p.base)) lim)
    (hge1 : ∀ lim, sqrtPriceLimit mLimit (decide (denomIn = p.base)) = .ok lim →
      exactIn = true → denomIn = p.base → PREC ≤ lim.raw)
    (hbig : ∀ lim, sqrtPriceLimit mLimit (decide (denomIn = p.base)) = .ok lim →
      exactIn = false → denomIn ≠ p.base → PREC + lim.raw < 2 * (p.sqrtP.raw * Lmin))
    (h : computeSwap exactIn s pool denomIn denomOut amount fee mLimit true = .ok (s1, o)) :
    TraceDir (decide (denomIn = p.base)) p.sqrtP.raw s1.lastTrace := by
  obtain ⟨p', acc, lim, s0, ss, hp', hl, hval, hloop, hlast⟩ := computeSwap_inv_grid h
  have e : p' = p := by rw [hp] at hp'; exact (Option.some.inj hp').symm
  subst e
  have hpos := C05Store.price_pos hg hw
  have hside : onSide (decide (denomIn = p'.base)) p'.sqrtP lim ∧ (decide (denomIn = p'.base) = true → 0 < lim.raw) := by
    by_cases hb : denomIn = p'.base
    · rw [if_pos hb] at hval
      have hv := C05.validate_bfq lim fee lim p'.sqrtP hval
      have h1 := C05Loop.MinSqrtPrice_raw
      have hd : decide (denomIn = p'.base) = true := by simp [hb]
      rw [hd]; exact ⟨by simpa [onSide] using hv.2, fun _ => by omega⟩
    · rw [if_neg hb] at hval
      have hv := C05.validate_qfb lim fee lim p'.sqrtP hval
      have hd : decide (denomIn = p'.base) = false := by simp [hb]
      rw [hd]; exact ⟨by simpa [onSide] using hv.1, fun e => by cases e⟩
  have hminv : MInv exactIn (decide (denomIn = p'.base)) lim p'.tp Lmin p'.sqrtP.raw (ss0Of p' amount)
      (tickIter s pool p'.tick (decide (denomIn = p'.base))) := by
    refine ⟨hpos, hside.1, fun _ => Int.le_refl _, C05Store.iterOK_store hI hp hw hg hc, ?_⟩
    rcases hlim lim hl with ⟨e, hb⟩ | lo
    · exact Or.inl ⟨e, decide_eq_true hb⟩
    · exact Or.inr (C05Store.ticksWithin_of_limitOutside lo)
  obtain ⟨evs, htr, hD⟩ := swapLoop_traceDir hf0 hf1 hside.2 hLmin
    (fun e b => hge1 lim hl e (of_decide_eq_true b)) (fun e b => hbig lim hl e (of_decide_eq_false b))
    _ _ _ _ _ _ _ hminv hloop
  have hevs : ss.trace = evs := by rw [htr]; simp [ss0Of]
  rw [hlast, hevs]
  exact hD

/-- **1. (H1') from the grid and the C05 side conditions** (no hypothesis about the trace): `Inv`, `Within`, the grid
    (`Grid` = `GridMono` + the bounds of `C05Store.GridOK`), and the hypotheses of
    `C05Store.computeSwap_price_direction_store` -/
theorem guardedMoves_of_grid {exactIn : Bool} {s s1 : St} {pool : Nat} {denomIn denomOut : Denom} {amount : Int}
    {fee mLimit : Dec} {o : SwapOut} {p : Pool} {Lmin : Int}
    (hI : Inv s) (hp : getPool s pool = some p)
    {lo hi : Int} (hw : Within p.tp p.sqrtP p.tick) (hg : Grid p.tp s pool p.tick lo hi)
    (hc : C05Store.Covered s pool Lmin p.tick (decide (denomIn = p.base))) (hLmin : 0 < Lmin)
    (hf0 : 0 ≤ fee.raw) (hf1 : fee.raw < PREC)
    (hlim : ∀ lim, sqrtPriceLimit mLimit (decide (denomIn = p.base)) = .ok lim →
      (exactIn = false ∧ denomIn = p.base) ∨ C05Store.LimitOutside p.tp s pool p.tick (decide (denomIn = p.base)) lim)
    (hge1 : ∀ lim, sqrtPriceLimit mLimit (decide (denomIn = p.base)) = .ok lim →
      exactIn = true → denomIn = p.base → PREC ≤ lim.raw)
    (hbig : ∀ lim, sqrtPriceLimit mLimit (decide (denomIn = p.base)) = .ok lim →
      exactIn = false → denomIn ≠ p.base → PREC + lim.raw < 2 * (p.sqrtP.raw * Lmin))
    (h : computeSwap exactIn s pool denomIn denomOut amount fee mLimit true = .ok (s1, o)) :
    GuardedMoves (bookOps s1.lastTrace) (absBook s pool p) :=
  guardedMoves_of_grid_dir hI hp hw hg h
    (traceDir_of_c05 hI hp hw hg.toGridOK hc hLmin hf0 hf1 hlim hge1 hbig h)

/-! ### 5. the two swap messages (default price limit) -/

/-- `TraceDir` at the default limit of the swap messages.  quote-for-base exact-in and base-for-quote exact-out need
    NOTHING beyond the grid and the fee range; the two other modes keep the C05 boundary:
    * base-for-quote exact-in: the per-step direction is NOT provable at the default limit (`C05Loop.DirCond` asks for
      prices ≥ 1.0, counterexample `C05Loop.bfq_outGivenIn_against_trade`) — `TraceDir` stays a hypothesis (`hmode`);
    * quote-for-base exact-out: the non-degeneracy condition `hbig` of C05Loop with a liquidity floor `Lmin` (`hq`). -/
theorem traceDir_default {exactIn : Bool} {s s1 : St} {pool : Nat} {denomIn denomOut : Denom} {amount : Int}
    {fee : Dec} {o : SwapOut} {p : Pool}
    {lo hi : Int}
    (hI : Inv s) (hp : getPool s pool = some p) (hw : Within p.tp p.sqrtP p.tick) (hg : Grid p.tp s pool p.tick lo hi)
    (hf0 : 0 ≤ fee.raw) (hf1 : fee.raw < PREC)
    (hmode : exactIn = true → denomIn = p.base → TraceDir true p.sqrtP.raw s1.lastTrace)
    (hq : exactIn = false → denomIn ≠ p.base → ∃ Lmin, 0 < Lmin ∧
      C05Store.Covered s pool Lmin p.tick (decide (denomIn = p.base)) ∧ PREC + MaxSqrtPrice.raw < 2 * (p.sqrtP.raw * Lmin))
    (h : computeSwap exactIn s pool denomIn denomOut amount fee (multipliedPriceLimit (decide (denomIn = p.base))) true
      = .ok (s1, o)) :
    TraceDir (decide (denomIn = p.base)) p.sqrtP.raw s1.lastTrace := by
  have hl := C05Store.sqrtPriceLimit_default
    (mLimit := multipliedPriceLimit (decide (denomIn = p.base))) (bfq := decide (denomIn = p.base)) (Or.inr rfl)
  have hlimO : ∀ lim, sqrtPriceLimit (multipliedPriceLimit (decide (denomIn = p.base))) (decide (denomIn = p.base)) = .ok lim →
      lim = C05Store.boundOf (decide (denomIn = p.base)) := fun lim h' => res_ok_inj (h'.symm.trans hl)
  by_cases hb : denomIn = p.base
  · cases exactIn
    · exact traceDir_of_c05 hI hp hw hg.toGridOK (C05Store.covered_one hI pool p.tick _) (by decide) hf0 hf1
        (fun _ _ => Or.inl ⟨rfl, hb⟩) (fun _ _ e => by cases e) (fun _ _ _ hn => absurd hb hn) h
    · have := hmode rfl hb
      have hd : decide (denomIn = p.base) = true := by simp [hb]
      rw [hd]; exact this
  · cases exactIn
    · obtain ⟨Lmin, hL, hcov, hbig⟩ := hq rfl hb
      exact traceDir_of_c05 hI hp hw hg.toGridOK hcov hL hf0 hf1
        (fun lim h' => Or.inr (by rw [hlimO lim h']; exact C05Store.limitOutside_bound hg.toGridOK _))
        (fun _ _ e => by cases e)
        (fun lim h' _ _ => by rw [hlimO lim h']; simpa [C05Store.boundOf, hb] using hbig) h
    · exact traceDir_of_c05 hI hp hw hg.toGridOK (C05Store.covered_one hI pool p.tick _) (by decide) hf0 hf1
        (fun lim h' => Or.inr (by rw [hlimO lim h']; exact C05Store.limitOutside_bound hg.toGridOK _))
        (fun _ _ _ hb' => absurd hb' hb) (fun _ _ e => by cases e) h

open Sunrise.C04Interval (err_bind ok_bind) in
theorem swapExactIn_inv' {s s' : St} {sender : Addr} {pool : Nat} {denomIn denomOut : Denom} {amount : Int} {feeEnabled : Bool}
    {out : Int} (h : swapExactIn s sender pool denomIn amount denomOut feeEnabled = .ok (s', out)) :
    ∃ p s1 o b, getPool s pool = some p ∧
      computeSwap true s pool denomIn denomOut amount (if feeEnabled then p.feeRate else Dec.zero)
        (multipliedPriceLimit (decide (denomIn = p.base))) true = .ok (s1, o) ∧
      s' = setPool { s1 with bank := b } { p with liq := o.liq, tick := o.tick, sqrtP := o.sqrtP } := by
  unfold swapExactIn at h
  cases hp : getPool s pool with
  | none => rw [hp] at h; cases h
  | some p =>
    rw [hp] at h
    simp only [bind, pure, err_bind, ok_bind] at h
    split at h
    · cases h
    obtain ⟨x, hx, h⟩ := bind_ok h
    split at h
    · cases h
    split at h
    · cases h
    obtain ⟨s2', hu, h⟩ := bind_ok h
    have e := congrArg Prod.fst (res_ok_inj h)
    dsimp only at e; subst e
    obtain ⟨b, hb⟩ := C04Interval.updatePoolForSwap_ok hu
    exact ⟨p, x.1, x.2, b, rfl, hx, hb⟩

open Sunrise.C04Interval (err_bind ok_bind) in
theorem swapExactOut_inv' {s s' : St} {sender : Addr} {pool : Nat} {denomIn denomOut : Denom} {amount : Int} {feeEnabled : Bool}
    {out : Int} (h : swapExactOut s sender pool denomOut amount denomIn feeEnabled = .ok (s', out)) :
    ∃ p s1 o b, getPool s pool = some p ∧
      computeSwap false s pool denomIn denomOut amount (if feeEnabled then p.feeRate else Dec.zero)
        (multipliedPriceLimit (decide (denomIn = p.base))) true = .ok (s1, o) ∧
      s' = setPool { s1 with bank := b } { p with liq := o.liq, tick := o.tick, sqrtP := o.sqrtP } := by
  unfold swapExactOut at h
  cases hp : getPool s pool with
  | none => rw [hp] at h; cases h
  | some p =>
    rw [hp] at h
    simp only [bind, pure, err_bind, ok_bind] at h
    split at h
    · cases h
    obtain ⟨x, hx, h⟩ := bind_ok h
    split at h
    · cases h
    split at h
    · cases h
    obtain ⟨s2', hu, h⟩ := bind_ok h
    have e := congrArg Prod.fst (res_ok_inj h)
    dsimp only at e; subst e
    obtain ⟨b, hb⟩ := C04Interval.updatePoolForSwap_ok hu
    exact ⟨p, x.1, x.2, b, rfl, hx, hb⟩

theorem fee_range {feeEnabled : Bool} {p : Pool} (h : 0 ≤ p.feeRate.raw ∧ p.feeRate.raw < PREC) :
    0 ≤ (if feeEnabled then p.feeRate else Dec.zero).raw ∧ (if feeEnabled then p.feeRate else Dec.zero).raw < PREC := by
  cases feeEnabled
  · show (0:Int) ≤ Dec.zero.raw ∧ Dec.zero.raw < PREC
    exact ⟨by decide, by decide⟩
  · simpa using h

/-- what is assumed of the pool before a swap: price inside the cursor tick's interval, the grid, fee rate in [0,1) -/
structure PoolOK (s : St) (pool : Nat) (p : Pool) : Prop where
  within : Within p.tp p.sqrtP p.tick
  grid : ∃ lo hi, Grid p.tp s pool p.tick lo hi
  fee : 0 ≤ p.feeRate.raw ∧ p.feeRate.raw < PREC

/-- shared core of the two messages -/
theorem swapBoundary_of_grid {exactIn : Bool} {s s1 s' : St} {pool : Nat} {denomIn denomOut : Denom} {amount : Int}
    {feeEnabled : Bool} {o : SwapOut} {p : Pool} {b : Bank} (hI : Inv s) (hp : getPool s pool = some p)
    (hok : PoolOK s pool p)
    (hc : computeSwap exactIn s pool denomIn denomOut amount (if feeEnabled then p.feeRate else Dec.zero)
        (multipliedPriceLimit (decide (denomIn = p.base))) true = .ok (s1, o))
    (hs' : s' = setPool { s1 with bank := b } { p with liq := o.liq, tick := o.tick, sqrtP := o.sqrtP })
    (hmode : exactIn = true → denomIn = p.base → TraceDir true p.sqrtP.raw s'.lastTrace)
    (hq : exactIn = false → denomIn ≠ p.base → ∃ Lmin, 0 < Lmin ∧
      C05Store.Covered s pool Lmin p.tick (decide (denomIn = p.base)) ∧ PREC + MaxSqrtPrice.raw < 2 * (p.sqrtP.raw * Lmin)) :
    C04Store.SwapBoundary s s' pool := by
  have hlt : s'.lastTrace = s1.lastTrace := by rw [hs']; rfl
  have hf := fee_range (feeEnabled := feeEnabled) hok.fee
  obtain ⟨lo, hi, hgrid⟩ := hok.grid
  have hd := traceDir_default hI hp hok.within hgrid hf.1 hf.2 (fun e hb => by rw [← hlt]; exact hmode e hb) hq hc
  refine ⟨fun p' hp' => ?_, tickPricesNonZero_of_grid (fun q hq' t a ht ha => ?_)⟩
  · have e : p' = p := by rw [hp] at hp'; exact (Option.some.inj hp').symm
    subst e
    rw [hlt]; exact guardedMoves_of_grid_dir hI hp hok.within hgrid hc hd
  · have e : q = p := by rw [hp] at hq'; exact (Option.some.inj hq').symm
    subst e
    exact (hgrid.bounds t a (Or.inr ht) ha).1

/-- **3a. `swapExactIn` keeps the bookkeeping invariant**, from `Inv`, `Within`, the grid and the fee range.
    `_partial`: (i) for base-for-quote (`denomIn = p.base`) the per-step price direction `TraceDir` is a hypothesis (not
    provable at the default limit, see `traceDir_default`); nothing of the kind for quote-for-base; (ii) `Within` and the
    grid are hypotheses on the pre-state. -/
theorem swapExactIn_preserves_grid_partial {s s' : St} (hI : Inv s) {sender : Addr} {pool : Nat} {denomIn denomOut : Denom}
    {amount : Int} {feeEnabled : Bool} {out : Int}
    (h : swapExactIn s sender pool denomIn amount denomOut feeEnabled = .ok (s', out))
    (hok : ∀ p, getPool s pool = some p → PoolOK s pool p)
    (hbq : ∀ p, getPool s pool = some p → denomIn = p.base → TraceDir true p.sqrtP.raw s'.lastTrace) :
    Inv s' ∧ ∀ pl, C04Store.BookOK s' pl := by
  obtain ⟨p, s1, o, b, hp, hc, hs'⟩ := swapExactIn_inv' h
  exact C04Store.swapExactIn_preserves_boundary_partial hI h
    (swapBoundary_of_grid hI hp (hok p hp) hc hs' (fun _ hb => hbq p hp hb) (fun e => by cases e))

/-- **3b. `swapExactOut` keeps the bookkeeping invariant**, from `Inv`, `Within`, the grid and the fee range.
    `_partial`: (i) for quote-for-base (`denomIn ≠ p.base`) the C05 non-degeneracy condition with a liquidity floor is a
    hypothesis; nothing of the kind for base-for-quote; (ii) `Within` and the grid are hypotheses on the pre-state. -/
theorem swapExactOut_preserves_grid_partial {s s' : St} (hI : Inv s) {sender : Addr} {pool : Nat} {denomIn denomOut : Denom}
    {amount : Int} {feeEnabled : Bool} {out : Int}
    (h : swapExactOut s sender pool denomOut amount denomIn feeEnabled = .ok (s', out))
    (hok : ∀ p, getPool s pool = some p → PoolOK s pool p)
    (hq : ∀ p, getPool s pool = some p → denomIn ≠ p.base → ∃ Lmin, 0 < Lmin ∧
      C05Store.Covered s pool Lmin p.tick (decide (denomIn = p.base)) ∧ PREC + MaxSqrtPrice.raw < 2 * (p.sqrtP.raw * Lmin)) :
    Inv s' ∧ ∀ pl, C04Store.BookOK s' pl := by
  obtain ⟨p, s1, o, b, hp, hc, hs'⟩ := swapExactOut_inv' h
  exact C04Store.swapExactOut_preserves_boundary_partial hI h
    (swapBoundary_of_grid hI hp (hok p hp) hc hs' (fun e => by cases e) (fun _ hb => hq p hp hb))

/-! ### 6. whole histories -/

/-- side condition of an operation: for a swap that succeeds, `PoolOK` of the pool in the PRE-state (`Within` is NOT
    threaded through the history: C04Interval proves it preserved by the swaps and established by the first position of a
    pool, but not by the other position messages, so it stays a per-step hypothesis) and the residual C05 condition of
    the mode -/
def SideG (s : St) : C04Store.Op → Prop
  | .swapExactIn sd pl dI a dO fe => ∀ s' out, swapExactIn s sd pl dI a dO fe = .ok (s', out) →
      ∀ p, getPool s pl = some p → PoolOK s pl p ∧ (dI = p.base → TraceDir true p.sqrtP.raw s'.lastTrace)
  | .swapExactOut sd pl dO a dI fe => ∀ s' out, swapExactOut s sd pl dO a dI fe = .ok (s', out) →
      ∀ p, getPool s pl = some p → PoolOK s pl p ∧ (dI ≠ p.base → ∃ Lmin, 0 < Lmin ∧
        C05Store.Covered s pl Lmin p.tick (decide (dI = p.base)) ∧ PREC + MaxSqrtPrice.raw < 2 * (p.sqrtP.raw * Lmin))
  | _ => True

inductive ReachableG : St → Prop where
  | init (b : Bank) : ReachableG { bank := b }
  | step {s : St} (op : C04Store.Op) : ReachableG s → SideG s op → ReachableG (C04Store.run s op)

theorem sideOKB_of_sideG {s : St} (hI : Inv s) (op : C04Store.Op) (h : SideG s op) : C04Store.SideOKB s op := by
  cases op with
  | swapExactIn sd pl dI a dO fe =>
    intro s' out hs
    obtain ⟨p, s1, o, b, hp, hc, hs'⟩ := swapExactIn_inv' hs
    exact swapBoundary_of_grid hI hp (h s' out hs p hp).1 hc hs' (fun _ hb => (h s' out hs p hp).2 hb) (fun e => by cases e)
  | swapExactOut sd pl dO a dI fe =>
    intro s' out hs
    obtain ⟨p, s1, o, b, hp, hc, hs'⟩ := swapExactOut_inv' hs
    exact swapBoundary_of_grid hI hp (h s' out hs p hp).1 hc hs' (fun e => by cases e) (fun _ hb => (h s' out hs p hp).2 hb)
  | _ => trivial

theorem reachableB_of_reachableG {s : St} (h : ReachableG s) : C04Store.ReachableB s := by
  induction h with
  | init b => exact C04Store.ReachableB.init b
  | step op _ hside ih =>
    exact C04Store.ReachableB.step op ih
      (sideOKB_of_sideG (C04Store.inv_reachable_partial (C04Store.reachableP_of_reachableB ih)) op hside)

/-- FULL statement (not proved): `C04Store.Reachable s → ∀ pool, BookOK s pool`.
    Proved: for every store reachable by ANY list of operations with arbitrary arguments in which the pre-state of every
    successful swap satisfies `PoolOK` (price within the cursor tick's interval, strictly increasing bounded grid, fee
    rate in [0,1)) and the residual C05 condition of its mode, the bookkeeping statement holds for every pool. -/
theorem bookOK_reachable_grid_partial {s : St} (h : ReachableG s) : ∀ pool, C04Store.BookOK s pool :=
  C04Store.bookOK_reachable_boundary_partial (reachableB_of_reachableG h)

/-! ### 7. findings and non-vacuity -/

/-- realistic tick parameters: price ratio 1.0001 per tick, offset 0 (accepted by `createPoolValid`) -/
def tpReal : TickParams := ⟨⟨1000100000000000000⟩, ⟨0⟩⟩

/-- **FINDING (checked).**  With ratio 1.0001 the ticks −700001 and −700000 BOTH have sqrt price 632·10⁻¹⁸ (18-decimal
    resolution is exhausted far below 1.0), although the parameters pass `createPoolValid`. -/
theorem deep_ticks_collide :
    C05Loop.rawOr (tickToSqrtPrice (-700001) tpReal) = 632 ∧ C05Loop.rawOr (tickToSqrtPrice (-700000) tpReal) = 632
    ∧ createPoolValid "base" "quote" ⟨3000000000000000⟩ tpReal.ratio tpReal.offset = true := by
  decide +kernel

/-- hence the GLOBAL grid assumptions used so far — `C04Interval.Mono` (C02 / C04Interval) and the hypothesis `hm` of
    `C05Store.GridOK.of_global` — are FALSE for these parameters; only a windowed form (`GridMono tp lo hi`, `Grid`) can
    be a legitimate assumption. -/
theorem global_mono_fails : ¬ C04Interval.Mono tpReal := by
  intro hm
  have h1 := C05Loop.res_of_rawOr (by decide) deep_ticks_collide.1
  have h2 := C05Loop.res_of_rawOr (by decide) deep_ticks_collide.2.1
  have e : (-700001 : Int) + 1 = -700000 := by decide
  have := hm (-700001) _ _ h1 (by rw [e]; exact h2)
  exact absurd this (by decide)

/-- the finite part of the grid assumption on the executed ×10 pool: the prices of the ticks in use are strictly
    increasing (the full `GridMono tp10 (-3) 3` also compares with ALL ticks outside the window and is not decidable by
    evaluation; it needs monotonicity of `TickMath.pow` / `Dec.approxSqrt`, which this project does not prove) -/
example :
    C05Loop.rawOr (tickToSqrtPrice (-3) C05Loop.tp10) < C05Loop.rawOr (tickToSqrtPrice (-2) C05Loop.tp10) ∧
    C05Loop.rawOr (tickToSqrtPrice (-2) C05Loop.tp10) < C05Loop.rawOr (tickToSqrtPrice (-1) C05Loop.tp10) ∧
    C05Loop.rawOr (tickToSqrtPrice (-1) C05Loop.tp10) < C05Loop.rawOr (tickToSqrtPrice 0 C05Loop.tp10) ∧
    C05Loop.rawOr (tickToSqrtPrice 0 C05Loop.tp10) < C05Loop.rawOr (tickToSqrtPrice 1 C05Loop.tp10) ∧
    C05Loop.rawOr (tickToSqrtPrice 1 C05Loop.tp10) < C05Loop.rawOr (tickToSqrtPrice 2 C05Loop.tp10) ∧
    C05Loop.rawOr (tickToSqrtPrice 2 C05Loop.tp10) < C05Loop.rawOr (tickToSqrtPrice 3 C05Loop.tp10) ∧
    0 < C05Loop.rawOr (tickToSqrtPrice (-3) C05Loop.tp10) := by
  decide +kernel

/-- `PoolOK` on the executed state `C04Store.h3` (two positions, cursor 0, stored ticks −1, 0, 1, 2), window [−3, 3]:
    everything except the infinite part of `GridMono` is established -/
theorem poolOK_h3 (hm : GridMono C05Loop.tp10 (-3) 3) : ∀ p, getPool C04Store.h3 0 = some p → PoolOK C04Store.h3 0 p := by
  intro p hp
  have e : p = C05Store.poolH3 := by rw [C05Store.pool_h3] at hp; exact (Option.some.inj hp).symm
  subst e
  refine ⟨C05Store.within_h3, ⟨-3, 3, ⟨hm, by decide, fun t ht => ?_, C05Store.grid_h3.bounds⟩⟩, by decide⟩
  rcases C05Store.stored_h3 ht with e | e | e | e <;> omega

/-- **non-vacuity**: `swapExactIn_preserves_grid_partial` applies to the executed quote-for-base swap `C04Store.h3u`
    (5 000 000 quote in; crosses tick 1 and then moves the cursor inside the next bucket: `crossUp 1 ; moveWithin 1`) -/
example (hm : GridMono C05Loop.tp10 (-3) 3) : ∀ pool, C04Store.BookOK C04Store.h3u pool := by
  have hok := C04Store.h3u_ok.1
  cases hr : swapExactIn C04Store.h3 "a0" 0 "quote" 5000000 "base" true with
  | ok v =>
    have e : C04Store.h3u = v.1 := by
      show C04Store.commit C04Store.h3 (swapExactIn C04Store.h3 "a0" 0 "quote" 5000000 "base" true) = v.1
      rw [hr]; rfl
    rw [e]
    refine (swapExactIn_preserves_grid_partial C05Store.inv_h3 (s' := v.1) (out := v.2) hr (poolOK_h3 hm) ?_).2
    intro p hp hb
    have e : p = C05Store.poolH3 := by rw [C05Store.pool_h3] at hp; exact (Option.some.inj hp).symm
    subst e
    exact absurd hb (by decide)
  | err c => rw [hr] at hok; simp [C04Store.okState] at hok
  | panic k => rw [hr] at hok; simp [C04Store.okState] at hok

/-- **non-vacuity of the history-level theorem**: a history with a swap -/
example (hm : GridMono C05Loop.tp10 (-3) 3) : ReachableG C04Store.h3u := by
  have hb : ReachableG C04Store.h3 := .step _ (.step _ (.step _ (.init C04Store.bank0) trivial) trivial) trivial
  refine ReachableG.step _ hb ?_
  intro s' out hs p hp
  refine ⟨poolOK_h3 hm p hp, fun hbq => ?_⟩
  have e : p = C05Store.poolH3 := by rw [C05Store.pool_h3] at hp; exact (Option.some.inj hp).symm
  subst e
  exact absurd hbq (by decide)

#print axioms guardedMoves_of_grid
#print axioms guardedMoves_of_grid_dir
#print axioms traceDir_of_c05
#print axioms tickPricesNonZero_of_grid
#print axioms swapExactIn_preserves_grid_partial
#print axioms swapExactOut_preserves_grid_partial
#print axioms bookOK_reachable_grid_partial
#print axioms Grid.toGridOK
#print axioms deep_ticks_collide
#print axioms global_mono_fails

end Sunrise.C04Grid
