import SunriseVerif.Lemmas.Route
/-!
C03 — swaps honour the amounts and limits the user stated, on every route shape.
Theorems about Model/Route.lean (tied to x/swap by the `route` correspondence suite and, for the interface-fee
expressions, by regeneration from source), by structural induction over the route tree: no bound on depth or width.
Pools are arbitrary deterministic machines (`PoolSpec`); what a theorem needs of them is a hypothesis.
-/
set_option linter.unusedSimpArgs false
set_option linter.unusedVariables false
namespace Sunrise.C03
open Sunrise Sunrise.Route Sunrise.Dec

/-! ## T1 — the parallel split -/

/-- The branch inputs of a parallel route add up to exactly the stated amount, there is one per weight, and none is
    negative (positive weights, fewer than 10^18 branches: the bound is what the half-ulp rounding of `Quo` costs). -/
theorem parallel_split_sum (ws : List Dec) (a : Int) (xs : List Int)
    (hp : ∀ w ∈ ws, 0 < w.raw) (ha : 0 ≤ a) (hlen : (ws.length : Int) ≤ PREC)
    (h : split ws a = .ok xs) :
    xs.sum = a ∧ xs.length = ws.length ∧ ∀ x ∈ xs, 0 ≤ x := by
  unfold split at h
  by_cases h0 : ws.length = 0
  · simp [h0] at h
  · have hne : ws ≠ [] := fun e => h0 (by simp [e])
    have hW : 0 < (weightSum ws).raw := weightSum_pos ws hp hne
    have hz : ¬ (ws.length ≥ 2 ∧ (weightSum ws).raw = 0) := by omega
    simp only [h0, hz, if_false] at h
    simp only [Res.ok.injEq] at h
    subst h
    have hl := shares_length (weightSum ws) a ws hne
    have hs := shares_sum_le ws a hp hne ha hlen
    obtain ⟨hnn, _⟩ := shares_bound (weightSum ws) a hW ha ws hp
    refine ⟨by simp, by simp; omega, ?_⟩
    intro x hx
    simp only [List.mem_append, List.mem_singleton] at hx
    rcases hx with hx | rfl
    · exact hnn x hx
    · omega

/-- non-vacuity: weights 1 : 1, amount 100 → 50 + 50 (the unfixed code gave 50 + 100) -/
example : (match split [Dec.one, Dec.one] 100 with | .ok xs => xs | _ => []) = [50, 50] := by decide

/-! ## T2 — exact-in: what the sender pays and receives -/

section exactIn
variable {PS : Type} (M : PoolSpec PS) (sender : Addr)

mutual
/-- every valid route, executed exact-in, takes exactly the amount it was given in its input denom from the sender
    and gives exactly its result in its output denom; no other balance of the sender changes -/
theorem inspectIn_moved (hs : ∀ id, sender ≠ poolAddr id) : (r : Route) → ∀ (a : Int) (w : World PS) (res : Int) (rr : RResult) (w' : World PS),
    validateRec r = true → inspect (swapPoolIn M sender) genIn false r a w = .ok (res, rr, w') →
    Moved w.bank w'.bank sender r.din a r.dout res
  | .pool din dout id => by
    intro a w res rr w' _ h
    simp only [inspect] at h
    obtain ⟨⟨out, w1⟩, h1, h⟩ := bind_ok h
    simp only [genIn, Res.ok.injEq, Prod.mk.injEq] at h
    obtain ⟨e1, _, e3⟩ := h
    subst e1 e3
    exact (swapPoolIn_ok M h1 (hs id)).2.2.2.1
  | .series din dout rs => by
    intro a w res rr w' hv h
    simp only [inspect, Bool.false_eq_true, if_false] at h
    obtain ⟨⟨x, rrs, w1⟩, h1, h⟩ := bind_ok h
    simp only [genIn, Res.ok.injEq, Prod.mk.injEq] at h
    obtain ⟨e1, _, e3⟩ := h
    subst e1 e3
    simp only [validateRec, Bool.and_eq_true] at hv
    exact seriesIn_moved hs rs din dout a w x rrs w1 hv.2 h1
  | .parallel din dout rs ws => by
    intro a w res rr w' hv h
    simp only [inspect] at h
    cases hw : parseWeights ws with
    | none => simp [hw] at h
    | some ds =>
      simp only [hw] at h
      by_cases hl : ds.length = rs.length
      swap
      · simp only [ne_eq, hl, not_false_eq_true, if_true] at h
        split at h <;> try split at h
        all_goals simp at h
      · simp only [ne_eq, hl, not_true_eq_false, if_false] at h
        obtain ⟨amounts, h0, h⟩ := bind_ok h
        obtain ⟨⟨x, rrs, w1⟩, h1, h⟩ := bind_ok h
        simp only [genIn, Res.ok.injEq, Prod.mk.injEq] at h
        obtain ⟨e1, _, e3⟩ := h
        subst e1 e3
        simp only [validateRec, Bool.and_eq_true] at hv
        obtain ⟨hsum, hlen⟩ := split_sum_length h0
        have := parIn_moved hs rs ws din dout amounts w x rrs w1 hv.2 h1
        rw [List.take_of_length_le (by omega), hsum] at this
        exact this
  | .nil _ _ => by
    intro a w res rr w' hv _
    simp [validateRec] at hv
theorem seriesIn_moved (hs : ∀ id, sender ≠ poolAddr id) : (rs : List Route) → ∀ (cur dout : Denom) (a : Int) (w : World PS) (res : Int) (rrs : List RResult) (w' : World PS),
    validateSeries cur dout rs = true → inspectSeriesF (swapPoolIn M sender) genIn false rs a w = .ok (res, rrs, w') →
    Moved w.bank w'.bank sender cur a dout res
  | [] => by
    intro cur dout a w res rrs w' hv h
    simp only [inspectSeriesF, Res.ok.injEq, Prod.mk.injEq] at h
    obtain ⟨e1, _, e3⟩ := h
    subst e1 e3
    simp only [validateSeries, beq_iff_eq] at hv
    exact Moved.same _ _ _ _ _ hv
  | r :: rs => by
    intro cur dout a w res rrs w' hv h
    simp only [inspectSeriesF] at h
    obtain ⟨⟨x, rr, w1⟩, h1, h⟩ := bind_ok h
    obtain ⟨⟨y, rrs', w2⟩, h2, h⟩ := bind_ok h
    simp only [Res.ok.injEq, Prod.mk.injEq] at h
    obtain ⟨e1, _, e3⟩ := h
    subst e1 e3
    simp only [validateSeries, Bool.and_eq_true, beq_iff_eq] at hv
    obtain ⟨⟨hv1, hd⟩, hv2⟩ := hv
    have m1 := inspectIn_moved hs r a w x rr w1 hv1 h1
    have m2 := seriesIn_moved hs rs r.dout dout x w1 y rrs' w2 hv2 h2
    rw [hd] at m1
    exact m1.trans m2
theorem parIn_moved (hs : ∀ id, sender ≠ poolAddr id) : (rs : List Route) → ∀ (ws : List String) (din dout : Denom) (amounts : List Int) (w : World PS) (res : Int) (rrs : List RResult) (w' : World PS),
    validatePar din dout rs ws = true → inspectPar (swapPoolIn M sender) genIn false rs amounts w = .ok (res, rrs, w') →
    Moved w.bank w'.bank sender din (amounts.take rs.length).sum dout res
  | [] => by
    intro ws din dout amounts w res rrs w' _ h
    simp only [inspectPar, Res.ok.injEq, Prod.mk.injEq] at h
    obtain ⟨e1, _, e3⟩ := h
    subst e1 e3
    simpa using Moved.zero _ _ _ _
  | r :: rs => by
    intro ws din dout amounts w res rrs w' hv h
    cases amounts with
    | nil => simp [inspectPar] at h
    | cons a as =>
      cases ws with
      | nil => simp [validatePar] at hv
      | cons wt ws =>
        simp only [inspectPar] at h
        obtain ⟨⟨x, rr, w1⟩, h1, h⟩ := bind_ok h
        obtain ⟨⟨y, rrs', w2⟩, h2, h⟩ := bind_ok h
        simp only [Res.ok.injEq, Prod.mk.injEq] at h
        obtain ⟨e1, _, e3⟩ := h
        subst e1 e3
        simp only [validatePar, Bool.and_eq_true, beq_iff_eq] at hv
        obtain ⟨⟨⟨⟨hv1, hdi⟩, hdo⟩, _⟩, hv2⟩ := hv
        have m1 := inspectIn_moved hs r a w x rr w1 hv1 h1
        have m2 := parIn_moved hs rs ws din dout as w1 y rrs' w2 hv2 h2
        rw [hdi, hdo] at m1
        simpa using m1.par m2
end

end exactIn

end Sunrise.C03
