import SunriseVerif.Lemmas.Route
/-!
C03 — swaps honour the amounts and limits the user stated, on every route shape.
Theorems about Model/Route.lean (tied to x/swap by the `route` correspondence suite and, for the interface-fee
expressions, by regeneration from source), by structural induction over the route tree: no bound on depth or width.
Pools are arbitrary deterministic machines (`PoolSpec`); what a theorem needs of them is a hypothesis.
-/
set_option linter.unusedSimpArgs false
set_option linter.unusedVariables false
namespace Sunrise.C03
open Sunrise Sunrise.Route Sunrise.Dec

/-! ## T1 — the parallel split -/

/-- The branch inputs of a parallel route add up to exactly the stated amount, there is one per weight, and none is
    negative (positive weights, fewer than 10^18 branches: the bound is what the half-ulp rounding of `Quo` costs). -/
theorem parallel_split_sum (ws : List Dec) (a : Int) (xs : List Int)
    (hp : ∀ w ∈ ws, 0 < w.raw) (ha : 0 ≤ a) (hlen : (ws.length : Int) ≤ PREC)
    (h : split ws a = .ok xs) :
    xs.sum = a ∧ xs.length = ws.length ∧ ∀ x ∈ xs, 0 ≤ x := by
  unfold split at h
  by_cases h0 : ws.length = 0
  · simp [h0] at h
  · have hne : ws ≠ [] := fun e => h0 (by simp [e])
    have hW : 0 < (weightSum ws).raw := weightSum_pos ws hp hne
    have hz : ¬ (ws.length ≥ 2 ∧ Sunrise.Gen.KernelsSwap.split_share_ok Dec.zero a (weightSum ws) = false) := by
      rintro ⟨_, hz⟩
      simp [Sunrise.Gen.KernelsSwap.split_share_ok, Dec.isZero] at hz
      omega
    simp only [h0, hz, if_false] at h
    simp only [Res.ok.injEq] at h
    subst h
    have hl := shares_length (weightSum ws) a ws hne
    have hs := shares_sum_le ws a hp hne ha hlen
    obtain ⟨hnn, _⟩ := shares_bound (weightSum ws) a hW ha ws hp
    refine ⟨by simp, by simp; omega, ?_⟩
    intro x hx
    simp only [List.mem_append, List.mem_singleton] at hx
    rcases hx with hx | rfl
    · exact hnn x hx
    · omega

/-- non-vacuity: weights 1 : 1, amount 100 → 50 + 50 (the unfixed code gave 50 + 100) -/
example : (match split [Dec.one, Dec.one] 100 with | .ok xs => xs | _ => []) = [50, 50] := by decide

/-! ## T2 — exact-in: what the sender pays and receives -/

section exactIn
variable {PS : Type} (M : PoolSpec PS) (sender : Addr)

mutual
/-- every valid route, executed exact-in, takes exactly the amount it was given in its input denom from the sender
    and gives exactly its result in its output denom; no other balance of the sender changes -/
theorem inspectIn_moved (hs : ∀ id, sender ≠ poolAddr id) : (r : Route) → ∀ (a : Int) (w : World PS) (res : Int) (rr : RResult) (w' : World PS),
    validateRec r = true → inspect (swapPoolIn M sender) genIn false r a w = .ok (res, rr, w') →
    Moved w.bank w'.bank sender r.din a r.dout res
  | .pool din dout id => by
    intro a w res rr w' _ h
    simp only [inspect] at h
    obtain ⟨⟨out, w1⟩, h1, h⟩ := bind_ok h
    simp only [genIn, Res.ok.injEq, Prod.mk.injEq] at h
    obtain ⟨e1, _, e3⟩ := h
    subst e1 e3
    exact (swapPoolIn_ok M h1 (hs id)).2.2.2.1
  | .series din dout rs => by
    intro a w res rr w' hv h
    simp only [inspect, Bool.false_eq_true, if_false] at h
    obtain ⟨⟨x, rrs, w1⟩, h1, h⟩ := bind_ok h
    simp only [genIn, Res.ok.injEq, Prod.mk.injEq] at h
    obtain ⟨e1, _, e3⟩ := h
    subst e1 e3
    simp only [validateRec, Bool.and_eq_true] at hv
    exact seriesIn_moved hs rs din dout a w x rrs w1 hv.2 h1
  | .parallel din dout rs ws => by
    intro a w res rr w' hv h
    simp only [inspect] at h
    cases hw : parseWeights ws with
    | none => simp [hw] at h
    | some ds =>
      simp only [hw] at h
      by_cases hl : ds.length = rs.length
      swap
      · simp only [ne_eq, hl, not_false_eq_true, if_true] at h
        split at h <;> try split at h
        all_goals simp at h
      · simp only [ne_eq, hl, not_true_eq_false, if_false] at h
        obtain ⟨amounts, h0, h⟩ := bind_ok h
        obtain ⟨⟨x, rrs, w1⟩, h1, h⟩ := bind_ok h
        simp only [genIn, Res.ok.injEq, Prod.mk.injEq] at h
        obtain ⟨e1, _, e3⟩ := h
        subst e1 e3
        simp only [validateRec, Bool.and_eq_true] at hv
        obtain ⟨hsum, hlen⟩ := split_sum_length h0
        have := parIn_moved hs rs ws din dout amounts w x rrs w1 hv.2 h1
        rw [List.take_of_length_le (by omega), hsum] at this
        exact this
  | .nil _ _ => by
    intro a w res rr w' hv _
    simp [validateRec] at hv
theorem seriesIn_moved (hs : ∀ id, sender ≠ poolAddr id) : (rs : List Route) → ∀ (cur dout : Denom) (a : Int) (w : World PS) (res : Int) (rrs : List RResult) (w' : World PS),
    validateSeries cur dout rs = true → inspectSeriesF (swapPoolIn M sender) genIn false rs a w = .ok (res, rrs, w') →
    Moved w.bank w'.bank sender cur a dout res
  | [] => by
    intro cur dout a w res rrs w' hv h
    simp only [inspectSeriesF, Res.ok.injEq, Prod.mk.injEq] at h
    obtain ⟨e1, _, e3⟩ := h
    subst e1 e3
    simp only [validateSeries, beq_iff_eq] at hv
    exact Moved.same _ _ _ _ _ hv
  | r :: rs => by
    intro cur dout a w res rrs w' hv h
    simp only [inspectSeriesF] at h
    obtain ⟨⟨x, rr, w1⟩, h1, h⟩ := bind_ok h
    obtain ⟨⟨y, rrs', w2⟩, h2, h⟩ := bind_ok h
    simp only [Res.ok.injEq, Prod.mk.injEq] at h
    obtain ⟨e1, _, e3⟩ := h
    subst e1 e3
    simp only [validateSeries, Bool.and_eq_true, beq_iff_eq] at hv
    obtain ⟨⟨hv1, hd⟩, hv2⟩ := hv
    have m1 := inspectIn_moved hs r a w x rr w1 hv1 h1
    have m2 := seriesIn_moved hs rs r.dout dout x w1 y rrs' w2 hv2 h2
    rw [hd] at m1
    exact m1.trans m2
theorem parIn_moved (hs : ∀ id, sender ≠ poolAddr id) : (rs : List Route) → ∀ (ws : List String) (din dout : Denom) (amounts : List Int) (w : World PS) (res : Int) (rrs : List RResult) (w' : World PS),
    validatePar din dout rs ws = true → inspectPar (swapPoolIn M sender) genIn false rs amounts w = .ok (res, rrs, w') →
    Moved w.bank w'.bank sender din (amounts.take rs.length).sum dout res
  | [] => by
    intro ws din dout amounts w res rrs w' _ h
    simp only [inspectPar, Res.ok.injEq, Prod.mk.injEq] at h
    obtain ⟨e1, _, e3⟩ := h
    subst e1 e3
    simpa using Moved.zero _ _ _ _
  | r :: rs => by
    intro ws din dout amounts w res rrs w' hv h
    cases amounts with
    | nil => simp [inspectPar] at h
    | cons a as =>
      cases ws with
      | nil => simp [validatePar] at hv
      | cons wt ws =>
        simp only [inspectPar] at h
        obtain ⟨⟨x, rr, w1⟩, h1, h⟩ := bind_ok h
        obtain ⟨⟨y, rrs', w2⟩, h2, h⟩ := bind_ok h
        simp only [Res.ok.injEq, Prod.mk.injEq] at h
        obtain ⟨e1, _, e3⟩ := h
        subst e1 e3
        simp only [validatePar, Bool.and_eq_true, beq_iff_eq] at hv
        obtain ⟨⟨⟨⟨hv1, hdi⟩, hdo⟩, _⟩, hv2⟩ := hv
        have m1 := inspectIn_moved hs r a w x rr w1 hv1 h1
        have m2 := parIn_moved hs rs ws din dout as w1 y rrs' w2 hv2 h2
        rw [hdi, hdo] at m1
        simpa using m1.par m2
end

end exactIn

/-! ## T3 — exact-out: executing the quoted result tree -/

section exactOut
variable {PS : Type} (M : PoolSpec PS) (sender : Addr)

mutual
/-- the result tree quoted (on any world `w0`) for a valid route, executed on any world: if the execution succeeds
    the sender received exactly the amount asked in the output denom and paid exactly the quoted input -/
theorem inspectOut_moved (hs : ∀ id, sender ≠ poolAddr id) (w0 : World PS) : (r : Route) → ∀ (a res : Int) (rr : RResult) (u : Unit) (w w' : World PS),
    validateRec r = true → inspect (calcPoolOut M w0) genOut true r a () = .ok (res, rr, u) →
    execOut M sender rr w = .ok w' → Moved w.bank w'.bank sender r.din res r.dout a
  | .pool din dout id => by
    intro a res rr u w w' _ h hx
    simp only [inspect] at h
    obtain ⟨⟨ain, u1⟩, h1, h⟩ := bind_ok h
    simp only [genOut, Res.ok.injEq, Prod.mk.injEq] at h
    obtain ⟨e1, e2, _⟩ := h
    subst e1 e2
    simp only [execOut] at hx
    obtain ⟨⟨ain', w1⟩, h2, hx⟩ := bind_ok hx
    by_cases he : ain' ≠ ain
    · simp [he] at hx
    · simp only [he, if_false, Res.ok.injEq] at hx
      subst hx
      have he' : ain' = ain := by omega
      subst he'
      exact (swapPoolOut_ok M h2 (hs id)).2.2.2.1
  | .series din dout rs => by
    intro a res rr u w w' hv h hx
    simp only [inspect, if_true] at h
    obtain ⟨⟨x, rrs, u1⟩, h1, h⟩ := bind_ok h
    simp only [genOut, Res.ok.injEq, Prod.mk.injEq] at h
    obtain ⟨e1, e2, _⟩ := h
    subst e1 e2
    simp only [execOut] at hx
    simp only [validateRec, Bool.and_eq_true] at hv
    exact seriesOut_moved hs w0 rs din dout a x rrs u1 w w' hv.2 h1 hx
  | .parallel din dout rs ws => by
    intro a res rr u w w' hv h hx
    simp only [inspect] at h
    cases hw : parseWeights ws with
    | none => simp [hw] at h
    | some ds =>
      simp only [hw] at h
      by_cases hl : ds.length = rs.length
      swap
      · simp only [ne_eq, hl, not_false_eq_true, if_true] at h
        split at h <;> try split at h
        all_goals simp at h
      · simp only [ne_eq, hl, not_true_eq_false, if_false] at h
        obtain ⟨amounts, h0, h⟩ := bind_ok h
        obtain ⟨⟨x, rrs, u1⟩, h1, h⟩ := bind_ok h
        simp only [genOut, Res.ok.injEq, Prod.mk.injEq] at h
        obtain ⟨e1, e2, _⟩ := h
        subst e1 e2
        simp only [execOut] at hx
        simp only [validateRec, Bool.and_eq_true] at hv
        obtain ⟨hsum, hlen⟩ := split_sum_length h0
        have := parOut_moved hs w0 rs ws din dout amounts x rrs u1 w w' hv.2 h1 hx
        rw [List.take_of_length_le (by omega), hsum] at this
        exact this
  | .nil _ _ => by
    intro a res rr u w w' hv _ _
    simp [validateRec] at hv
theorem seriesOut_moved (hs : ∀ id, sender ≠ poolAddr id) (w0 : World PS) : (rs : List Route) → ∀ (cur dout : Denom) (a res : Int) (rrs : List RResult) (u : Unit) (w w' : World PS),
    validateSeries cur dout rs = true → inspectSeriesB (calcPoolOut M w0) genOut true rs a () = .ok (res, rrs, u) →
    execOutL M sender rrs w = .ok w' → Moved w.bank w'.bank sender cur res dout a
  | [] => by
    intro cur dout a res rrs u w w' hv h hx
    simp only [inspectSeriesB, Res.ok.injEq, Prod.mk.injEq] at h
    obtain ⟨e1, e2, _⟩ := h
    subst e1 e2
    simp only [execOutL, Res.ok.injEq] at hx
    subst hx
    simp only [validateSeries, beq_iff_eq] at hv
    exact Moved.same _ _ _ _ _ hv
  | r :: rs => by
    intro cur dout a res rrs u w w' hv h hx
    simp only [inspectSeriesB] at h
    obtain ⟨⟨x, rrs', u1⟩, h1, h⟩ := bind_ok h
    obtain ⟨⟨y, rr, u2⟩, h2, h⟩ := bind_ok h
    simp only [Res.ok.injEq, Prod.mk.injEq] at h
    obtain ⟨e1, e2, _⟩ := h
    subst e1 e2
    simp only [execOutL] at hx
    obtain ⟨w1, hx1, hx2⟩ := bind_ok hx
    simp only [validateSeries, Bool.and_eq_true, beq_iff_eq] at hv
    obtain ⟨⟨hv1, hd⟩, hv2⟩ := hv
    have m1 := inspectOut_moved hs w0 r x y rr u2 w w1 hv1 h2 hx1
    have m2 := seriesOut_moved hs w0 rs r.dout dout a x rrs' u1 w1 w' hv2 h1 hx2
    rw [hd] at m1
    exact m1.trans m2
theorem parOut_moved (hs : ∀ id, sender ≠ poolAddr id) (w0 : World PS) : (rs : List Route) → ∀ (ws : List String) (din dout : Denom) (amounts : List Int) (res : Int) (rrs : List RResult) (u : Unit) (w w' : World PS),
    validatePar din dout rs ws = true → inspectPar (calcPoolOut M w0) genOut true rs amounts () = .ok (res, rrs, u) →
    execOutL M sender rrs w = .ok w' → Moved w.bank w'.bank sender din res dout (amounts.take rs.length).sum
  | [] => by
    intro ws din dout amounts res rrs u w w' _ h hx
    simp only [inspectPar, Res.ok.injEq, Prod.mk.injEq] at h
    obtain ⟨e1, e2, _⟩ := h
    subst e1 e2
    simp only [execOutL, Res.ok.injEq] at hx
    subst hx
    simpa using Moved.zero _ _ _ _
  | r :: rs => by
    intro ws din dout amounts res rrs u w w' hv h hx
    cases amounts with
    | nil => simp [inspectPar] at h
    | cons a as =>
      cases ws with
      | nil => simp [validatePar] at hv
      | cons wt ws =>
        simp only [inspectPar] at h
        obtain ⟨⟨x, rr, u1⟩, h1, h⟩ := bind_ok h
        obtain ⟨⟨y, rrs', u2⟩, h2, h⟩ := bind_ok h
        simp only [Res.ok.injEq, Prod.mk.injEq] at h
        obtain ⟨e1, e2, _⟩ := h
        subst e1 e2
        simp only [execOutL] at hx
        obtain ⟨w1, hx1, hx2⟩ := bind_ok hx
        simp only [validatePar, Bool.and_eq_true, beq_iff_eq] at hv
        obtain ⟨⟨⟨⟨hv1, hdi⟩, hdo⟩, _⟩, hv2⟩ := hv
        have m1 := inspectOut_moved hs w0 r a x rr u1 w w1 hv1 h1 hx1
        have m2 := parOut_moved hs w0 rs ws din dout as y rrs' u2 w1 w' hv2 h2 hx2
        rw [hdi, hdo] at m1
        simpa using m1.par m2
end

end exactOut

/-! ## T4 — the two messages: stated amounts, limits, interface fee, response, atomicity -/

section messages
variable {PS : Type} (M : PoolSpec PS)
open Sunrise.Gen.KernelsSwap

/-- Msg/SwapExactAmountIn that succeeds: the route was valid with no pool reused, the sender was debited exactly
    `amount_in` of the input denom and credited exactly `response.amount_out ≥ min_amount_out` of the output denom (net
    of the interface fee), no other balance of the sender changed, the provider received exactly `response.fee` in the
    final step, and the response's result carries (denom_in, amount_in) and (denom_out, amount_out + fee). -/
theorem msgSwapIn_honours (rate : Dec) (sender : Addr) (prov : Option Addr) (r : Route) (a minOut : Int)
    (w w' : World PS) (resp : Resp)
    (hs : ∀ id, sender ≠ poolAddr id) (hp : ∀ p, prov = some p → sender ≠ p)
    (h : msgSwapIn M rate sender prov r a minOut w = (.ok resp, w')) :
    validate r = true ∧ 0 < a ∧ 0 < minOut ∧ minOut ≤ resp.amountOut ∧ 0 ≤ resp.fee ∧
    Moved w.bank w'.bank sender r.din a r.dout resp.amountOut ∧
    resp.result.tin = ⟨r.din, a⟩ ∧ resp.result.tout = ⟨r.dout, resp.amountOut + resp.fee⟩ ∧
    (prov = none → resp.fee = 0) ∧
    (∃ w1 : World PS, Moved w.bank w1.bank sender r.din a r.dout (resp.amountOut + resp.fee) ∧
      ∀ p, prov = some p → ∀ d, w'.bank.bal p d = w1.bank.bal p d + δ r.dout resp.fee d) := by
  unfold msgSwapIn at h
  by_cases hv : validate r = true
  swap
  · simp [hv] at h
  by_cases ha : a ≤ 0
  · simp [hv, ha] at h
  by_cases hm : minOut ≤ 0
  · simp [hv, ha, hm] at h
  simp only [hv, ha, hm, Bool.not_true, Bool.false_eq_true, if_false] at h
  cases hk : keeperSwapIn M rate sender prov r a minOut w with
  | err c => simp [hk] at h
  | panic k => simp [hk] at h
  | ok x =>
    obtain ⟨rr, fee, wf⟩ := x
    simp only [hk, Prod.mk.injEq, Res.ok.injEq] at h
    obtain ⟨e1, e2⟩ := h
    subst e1 e2
    unfold keeperSwapIn at hk
    obtain ⟨⟨rr1, w1⟩, h1, hk⟩ := bind_ok hk
    unfold swapRouteIn at h1
    obtain ⟨⟨res, rr2, w2⟩, h2, h1⟩ := bind_ok h1
    simp only [Res.ok.injEq, Prod.mk.injEq] at h1
    obtain ⟨e1, e2⟩ := h1
    subst e1 e2
    have hvr : validateRec r = true := by unfold validate at hv; simp only [Bool.and_eq_true] at hv; exact hv.1
    have mv := inspectIn_moved M sender hs r a w res rr2 w2 hvr h2
    obtain ⟨hti, hto⟩ := inspect_result_in _ _ r a w res rr2 w2 h2
    simp only at hk
    by_cases hlim : (feeIn prov.isSome rate rr2.tout.amount).1 < minOut
    · simp [hlim] at hk
    · simp only [hlim, if_false] at hk
      obtain ⟨b2, h3, hk⟩ := bind_ok hk
      simp only [Res.ok.injEq, Prod.mk.injEq] at hk
      obtain ⟨e1, e2, e3⟩ := hk
      subst e1 e2 e3
      have hgross : rr2.tout.amount = res := by rw [hto]
      -- the fee pair: net = gross − fee in both cases
      have hnet : (feeIn prov.isSome rate res).1 = res - (feeIn prov.isSome rate res).2 ∧ (prov = none → (feeIn prov.isSome rate res).2 = 0) := by
        unfold feeIn
        cases prov with
        | none => simp
        | some p => simp [feeIn_interfaceFee]
      rw [hgross] at h3 hlim
      rw [hto] at h3
      simp only at h3
      obtain ⟨f0, ms, mp⟩ := payFee_ok h3 hp hnet.2
      refine ⟨hv, by omega, by omega, ?_, ?_, ?_, hti, ?_, ?_, ⟨w2, ?_, ?_⟩⟩
      · simp only [hgross]; omega
      · simp only [hgross]; exact f0
      · intro d
        simp only [hgross]
        have := mv d; have := ms d
        have e : δ r.dout (res - (feeIn prov.isSome rate res).2) d = δ r.dout res d - δ r.dout (feeIn prov.isSome rate res).2 d := by
          unfold δ; split <;> omega
        rw [e]; omega
      · rw [hto]; simp only [hgross]; congr 1; omega
      · simp only [hgross]; exact hnet.2
      · simp only [hgross]
        have : res - (feeIn prov.isSome rate res).2 + (feeIn prov.isSome rate res).2 = res := by omega
        rw [this]; exact mv
      · simp only [hgross]; exact mp

/-- Msg/SwapExactAmountOut that succeeds: the sender was credited exactly `amount_out` of the output denom (after
    paying the interface fee out of the gross output), debited exactly the quoted input `≤ max_amount_in` of the input
    denom, no other balance of the sender changed; the response is the quote computed on the pre-state. -/
theorem msgSwapOut_honours (rate : Dec) (sender : Addr) (prov : Option Addr) (r : Route) (maxIn a : Int)
    (w w' : World PS) (resp : Resp)
    (hs : ∀ id, sender ≠ poolAddr id) (hp : ∀ p, prov = some p → sender ≠ p)
    (h : msgSwapOut M rate sender prov r maxIn a w = (.ok resp, w')) :
    validate r = true ∧ 0 < a ∧ resp.amountOut = a ∧ resp.result.tin.amount ≤ maxIn ∧ 0 ≤ resp.fee ∧
    Moved w.bank w'.bank sender r.din resp.result.tin.amount r.dout a ∧
    resp.result.tin.denom = r.din ∧ resp.result.tout = ⟨r.dout, a + resp.fee⟩ ∧
    (prov = none → resp.fee = 0) ∧
    queryOut M rate prov.isSome r a w = .ok (resp.result, resp.fee, resp.result.tin.amount) := by
  unfold msgSwapOut at h
  by_cases hv : validate r = true
  swap
  · simp [hv] at h
  by_cases hm : maxIn ≤ 0
  · simp [hv, hm] at h
  by_cases ha : a ≤ 0
  · simp [hv, ha, hm] at h
  simp only [hv, ha, hm, Bool.not_true, Bool.false_eq_true, if_false] at h
  cases hk : keeperSwapOut M rate sender prov r maxIn a w with
  | err c => simp [hk] at h
  | panic k => simp [hk] at h
  | ok x =>
    obtain ⟨rr, fee, wf⟩ := x
    simp only [hk, Prod.mk.injEq, Res.ok.injEq] at h
    obtain ⟨e1, e2⟩ := h
    subst e1 e2
    unfold keeperSwapOut at hk
    obtain ⟨⟨rr1, fee1⟩, h1, hk⟩ := bind_ok hk
    obtain ⟨w1, hx, hk⟩ := bind_ok hk
    by_cases hlim : rr1.tin.amount > maxIn
    · simp [hlim] at hk
    · simp only [hlim, if_false] at hk
      obtain ⟨b2, h3, hk⟩ := bind_ok hk
      simp only [Res.ok.injEq, Prod.mk.injEq] at hk
      obtain ⟨e1, e2, e3⟩ := hk
      subst e1 e2 e3
      have hq : queryOut M rate prov.isSome r a w = .ok (rr1, fee1, rr1.tin.amount) := by
        unfold queryOut; simp only [hv, Bool.not_true, Bool.false_eq_true, if_false, ha]; rw [h1]; rfl
      unfold keeperCalcOut at h1
      obtain ⟨⟨gross, fee2⟩, hf, h1⟩ := bind_ok h1
      obtain ⟨rr2, hc, h1⟩ := bind_ok h1
      simp only [Res.ok.injEq, Prod.mk.injEq] at h1
      obtain ⟨e1, e2⟩ := h1
      subst e1 e2
      unfold calcRouteOut at hc
      obtain ⟨⟨res, rr3, u⟩, hi, hc⟩ := bind_ok hc
      simp only [Res.ok.injEq] at hc
      subst hc
      have hvr : validateRec r = true := by unfold validate at hv; simp only [Bool.and_eq_true] at hv; exact hv.1
      have mv := inspectOut_moved M sender hs w r gross res rr3 u w w1 hvr hi hx
      obtain ⟨hti, hto⟩ := inspect_result_out _ _ r gross () res rr3 u hi
      have hfee : gross - fee2 = a ∧ (prov = none → fee2 = 0) := by
        unfold feeOut at hf
        cases prov with
        | none => simp at hf; obtain ⟨e1, e2⟩ := hf; subst e1 e2; simp
        | some p =>
          simp only [Option.isSome_some, Bool.not_true, Bool.false_eq_true, if_false] at hf
          split at hf
          · simp at hf
          · simp only [Res.ok.injEq, Prod.mk.injEq, feeOut_interfaceFee] at hf
            obtain ⟨e1, e2⟩ := hf; subst e1 e2; simp
      rw [hto] at h3
      simp only at h3
      obtain ⟨f0, ms, _⟩ := payFee_ok h3 hp hfee.2
      have hres : rr3.tin.amount = res := by rw [hti]
      refine ⟨hv, by omega, ?_, ?_, f0, ?_, by rw [hti], ?_, hfee.2, hq⟩
      · show rr3.tout.amount - fee2 = a
        rw [hto]; simp only; omega
      · show rr3.tin.amount ≤ maxIn
        omega
      · intro d
        show b2.bal sender d = w.bank.bal sender d - δ r.din rr3.tin.amount d + δ r.dout a d
        have := mv d; have := ms d
        have e : δ r.dout a d = δ r.dout gross d - δ r.dout fee2 d := by
          unfold δ; split <;> omega
        rw [hres, e]; omega
      · show rr3.tout = ⟨r.dout, a + fee2⟩
        rw [hto]; congr 1; omega

/-- a message that does not succeed changes nothing (the keeper's partial effects are dropped with the transaction) -/
theorem msg_atomic (rate : Dec) (sender : Addr) (prov : Option Addr) (r : Route) (x y : Int) (w : World PS) :
    (¬ (msgSwapIn M rate sender prov r x y w).1.isOk → (msgSwapIn M rate sender prov r x y w).2 = w) ∧
    (¬ (msgSwapOut M rate sender prov r x y w).1.isOk → (msgSwapOut M rate sender prov r x y w).2 = w) := by
  constructor
  · unfold msgSwapIn
    split; · simp
    split; · simp
    split; · simp
    split <;> simp [Res.isOk]
  · unfold msgSwapOut
    split; · simp
    split; · simp
    split; · simp
    split <;> simp [Res.isOk]

/-- limits: a result below `min_amount_out` (exact-in) or above `max_amount_in` (exact-out) is an error -/
theorem limits (rate : Dec) (sender : Addr) (prov : Option Addr) (r : Route) (w : World PS) :
    (∀ a minOut rr w1, swapRouteIn M sender r a w = .ok (rr, w1) →
      (feeIn prov.isSome rate rr.tout.amount).1 < minOut → keeperSwapIn M rate sender prov r a minOut w = .err "lower-than-min-out") ∧
    (∀ a maxIn rr fee w1, keeperCalcOut M rate prov.isSome r a w = .ok (rr, fee) → execOut M sender rr w = .ok w1 →
      rr.tin.amount > maxIn → keeperSwapOut M rate sender prov r maxIn a w = .err "higher-than-max-in") := by
  constructor
  · intro a minOut rr w1 h hl
    unfold keeperSwapIn
    rw [h]
    simp [Res.bind, hl]
  · intro a maxIn rr fee w1 h hx hl
    unfold keeperSwapOut
    rw [h]
    simp [Res.bind, hx, hl]

end messages

/-! ## T5 — validation: a validated route uses every pool at most once (and rejecting is an error, not a panic) -/

mutual
theorem reuseCheck_sound : (r : Route) → ∀ (seen seen' : List Nat), reuseCheck r seen = some seen' →
    r.poolIds.Nodup ∧ (∀ id ∈ r.poolIds, id ∉ seen) ∧ (∀ id, id ∈ seen' ↔ id ∈ r.poolIds ∨ id ∈ seen)
  | .pool _ _ id => by
    intro seen seen' h
    simp only [reuseCheck] at h
    by_cases hm : id ∈ seen
    · simp [hm] at h
    · simp only [hm, if_false, Option.some.injEq] at h
      subst h
      simp [Route.poolIds, hm]
  | .series _ _ rs => by
    intro seen seen' h
    simp only [reuseCheck] at h
    simpa [Route.poolIds] using reuseCheckL_sound rs seen seen' h
  | .parallel _ _ rs _ => by
    intro seen seen' h
    simp only [reuseCheck] at h
    simpa [Route.poolIds] using reuseCheckL_sound rs seen seen' h
  | .nil _ _ => by
    intro seen seen' h
    simp only [reuseCheck, Option.some.injEq] at h
    subst h
    simp [Route.poolIds]
theorem reuseCheckL_sound : (rs : List Route) → ∀ (seen seen' : List Nat), reuseCheckL rs seen = some seen' →
    (poolIdsL rs).Nodup ∧ (∀ id ∈ poolIdsL rs, id ∉ seen) ∧ (∀ id, id ∈ seen' ↔ id ∈ poolIdsL rs ∨ id ∈ seen)
  | [] => by
    intro seen seen' h
    simp only [reuseCheckL, Option.some.injEq] at h
    subst h
    simp [poolIdsL]
  | r :: rs => by
    intro seen seen' h
    simp only [reuseCheckL] at h
    cases h1 : reuseCheck r seen with
    | none => simp [h1] at h
    | some s1 =>
      simp only [h1] at h
      obtain ⟨n1, d1, m1⟩ := reuseCheck_sound r seen s1 h1
      obtain ⟨n2, d2, m2⟩ := reuseCheckL_sound rs s1 seen' h
      refine ⟨?_, ?_, ?_⟩
      · simp only [poolIdsL]
        rw [List.nodup_append]
        refine ⟨n1, n2, ?_⟩
        intro a ha b hb hab
        subst hab
        exact d2 a hb ((m1 a).2 (Or.inl ha))
      · intro id hid
        simp only [poolIdsL, List.mem_append] at hid
        rcases hid with hid | hid
        · exact d1 id hid
        · intro hs
          exact d2 id hid ((m1 id).2 (Or.inr hs))
      · intro id
        simp only [poolIdsL, List.mem_append]
        rw [m2 id, m1 id]
        constructor
        · rintro (h | h | h)
          · exact Or.inl (Or.inr h)
          · exact Or.inl (Or.inl h)
          · exact Or.inr h
        · rintro ((h | h) | h)
          · exact Or.inr (Or.inl h)
          · exact Or.inl h
          · exact Or.inr (Or.inr h)
end

/-- `Route.Validate` accepts only structurally valid routes in which no pool occurs twice; it is a total Boolean
    function (the model of the fixed code has no panic path: reuse is an ordinary error) -/
theorem validate_noReuse (r : Route) (h : validate r = true) : validateRec r = true ∧ r.poolIds.Nodup := by
  unfold validate at h
  simp only [Bool.and_eq_true] at h
  obtain ⟨h1, h2⟩ := h
  cases hc : reuseCheck r [] with
  | none => simp [hc] at h2
  | some s => exact ⟨h1, (reuseCheck_sound r [] s hc).1⟩

/-- non-vacuity: a nested route with two distinct pools validates, the same with one pool used twice does not -/
example : validate (.series "a" "c" [.pool "a" "b" 0, .series "b" "c" [.pool "b" "c" 1]]) = true := by decide
example : validate (.series "a" "a" [.pool "a" "b" 0, .pool "b" "a" 0]) = false := by decide

/-! ## T6 — quote = execute when no pool is reused -/

section quote
variable {PS : Type} (M : PoolSpec PS) (sender : Addr)

/-- what the theorem needs of a pool: a swap that succeeds returns what the read-only quote returns on the same pool
    state (checked on every recorded pool call of the correspondence run: oracle `pool_swap_eq_quote`) -/
def SwapMatchesQuoteIn : Prop :=
  ∀ ps din dout a out ps', M.swapIn ps din dout a = .ok (out, ps') → M.calcIn ps din dout a = .ok out

mutual
theorem inspectIn_quote (hs : ∀ id, sender ≠ poolAddr id) (hc : SwapMatchesQuoteIn M) : (r : Route) → ∀ (a : Int) (w : World PS) (res : Int) (rr : RResult) (w' : World PS),
    inspect (swapPoolIn M sender) genIn false r a w = .ok (res, rr, w') → r.poolIds.Nodup →
    (∀ i, i ∉ r.poolIds → w'.pools i = w.pools i) ∧
    (∀ w0 : World PS, (∀ i ∈ r.poolIds, w0.pools i = w.pools i) → inspect (calcPoolIn M w0) genIn false r a () = .ok (res, rr, ()))
  | .pool din dout id => by
    intro a w res rr w' h _
    simp only [inspect] at h
    obtain ⟨⟨out, w1⟩, h1, h⟩ := bind_ok h
    simp only [genIn, Res.ok.injEq, Prod.mk.injEq] at h
    obtain ⟨e1, e2, e3⟩ := h
    subst e1 e2 e3
    obtain ⟨a0, _, _, _, _, fr, ps, ps', hp, hsw, _⟩ := swapPoolIn_ok M h1 (hs id)
    refine ⟨fun i hi => fr i (by simpa [Route.poolIds] using hi), ?_⟩
    intro w0 hw0
    have : w0.pools id = some ps := by rw [hw0 id (by simp [Route.poolIds]), hp]
    have hna : ¬ a < 0 := by omega
    simp [inspect, calcPoolIn, this, hna, hc ps din dout a out ps' hsw, Res.bind, genIn]
  | .series din dout rs => by
    intro a w res rr w' h hn
    simp only [inspect, Bool.false_eq_true, if_false] at h
    obtain ⟨⟨x, rrs, w1⟩, h1, h⟩ := bind_ok h
    simp only [genIn, Res.ok.injEq, Prod.mk.injEq] at h
    obtain ⟨e1, e2, e3⟩ := h
    subst e1 e2 e3
    obtain ⟨fr, q⟩ := seriesIn_quote hs hc rs a w x rrs w1 h1 (by simpa [Route.poolIds] using hn)
    refine ⟨fun i hi => fr i (by simpa [Route.poolIds] using hi), ?_⟩
    intro w0 hw0
    have := q w0 (by simpa [Route.poolIds] using hw0)
    simp [inspect, this, Res.bind, genIn]
  | .parallel din dout rs ws => by
    intro a w res rr w' h hn
    simp only [inspect] at h
    cases hw : parseWeights ws with
    | none => simp [hw] at h
    | some ds =>
      simp only [hw] at h
      by_cases hl : ds.length = rs.length
      swap
      · simp only [ne_eq, hl, not_false_eq_true, if_true] at h
        split at h <;> try split at h
        all_goals simp at h
      · simp only [ne_eq, hl, not_true_eq_false, if_false] at h
        obtain ⟨amounts, h0, h⟩ := bind_ok h
        obtain ⟨⟨x, rrs, w1⟩, h1, h⟩ := bind_ok h
        simp only [genIn, Res.ok.injEq, Prod.mk.injEq] at h
        obtain ⟨e1, e2, e3⟩ := h
        subst e1 e2 e3
        obtain ⟨fr, q⟩ := parIn_quote hs hc rs amounts w x rrs w1 h1 (by simpa [Route.poolIds] using hn)
        refine ⟨fun i hi => fr i (by simpa [Route.poolIds] using hi), ?_⟩
        intro w0 hw0
        have := q w0 (by simpa [Route.poolIds] using hw0)
        simp [inspect, hw, hl, h0, this, Res.bind, genIn]
  | .nil _ _ => by
    intro a w res rr w' h _
    simp [inspect] at h
theorem seriesIn_quote (hs : ∀ id, sender ≠ poolAddr id) (hc : SwapMatchesQuoteIn M) : (rs : List Route) → ∀ (a : Int) (w : World PS) (res : Int) (rrs : List RResult) (w' : World PS),
    inspectSeriesF (swapPoolIn M sender) genIn false rs a w = .ok (res, rrs, w') → (poolIdsL rs).Nodup →
    (∀ i, i ∉ poolIdsL rs → w'.pools i = w.pools i) ∧
    (∀ w0 : World PS, (∀ i ∈ poolIdsL rs, w0.pools i = w.pools i) → inspectSeriesF (calcPoolIn M w0) genIn false rs a () = .ok (res, rrs, ()))
  | [] => by
    intro a w res rrs w' h _
    simp only [inspectSeriesF, Res.ok.injEq, Prod.mk.injEq] at h
    obtain ⟨e1, e2, e3⟩ := h
    subst e1 e2 e3
    exact ⟨fun _ _ => rfl, fun _ _ => by simp [inspectSeriesF]⟩
  | r :: rs => by
    intro a w res rrs w' h hn
    simp only [inspectSeriesF] at h
    obtain ⟨⟨x, rr, w1⟩, h1, h⟩ := bind_ok h
    obtain ⟨⟨y, rrs', w2⟩, h2, h⟩ := bind_ok h
    simp only [Res.ok.injEq, Prod.mk.injEq] at h
    obtain ⟨e1, e2, e3⟩ := h
    subst e1 e2 e3
    simp only [poolIdsL] at hn
    rw [List.nodup_append] at hn
    obtain ⟨n1, n2, dj⟩ := hn
    obtain ⟨fr1, q1⟩ := inspectIn_quote hs hc r a w x rr w1 h1 n1
    obtain ⟨fr2, q2⟩ := seriesIn_quote hs hc rs x w1 y rrs' w2 h2 n2
    refine ⟨?_, ?_⟩
    · intro i hi
      simp only [poolIdsL, List.mem_append, not_or] at hi
      rw [fr2 i hi.2, fr1 i hi.1]
    · intro w0 hw0
      have a1 := q1 w0 (fun i hi => hw0 i (by simp [poolIdsL, hi]))
      have a2 := q2 w0 (fun i hi => by
        rw [hw0 i (by simp [poolIdsL, hi])]
        exact (fr1 i (fun hi' => dj i hi' i hi rfl)).symm)
      simp [inspectSeriesF, a1, a2, Res.bind]
theorem parIn_quote (hs : ∀ id, sender ≠ poolAddr id) (hc : SwapMatchesQuoteIn M) : (rs : List Route) → ∀ (amounts : List Int) (w : World PS) (res : Int) (rrs : List RResult) (w' : World PS),
    inspectPar (swapPoolIn M sender) genIn false rs amounts w = .ok (res, rrs, w') → (poolIdsL rs).Nodup →
    (∀ i, i ∉ poolIdsL rs → w'.pools i = w.pools i) ∧
    (∀ w0 : World PS, (∀ i ∈ poolIdsL rs, w0.pools i = w.pools i) → inspectPar (calcPoolIn M w0) genIn false rs amounts () = .ok (res, rrs, ()))
  | [] => by
    intro amounts w res rrs w' h _
    simp only [inspectPar, Res.ok.injEq, Prod.mk.injEq] at h
    obtain ⟨e1, e2, e3⟩ := h
    subst e1 e2 e3
    exact ⟨fun _ _ => rfl, fun _ _ => by simp [inspectPar]⟩
  | r :: rs => by
    intro amounts w res rrs w' h hn
    cases amounts with
    | nil => simp [inspectPar] at h
    | cons a as =>
      simp only [inspectPar] at h
      obtain ⟨⟨x, rr, w1⟩, h1, h⟩ := bind_ok h
      obtain ⟨⟨y, rrs', w2⟩, h2, h⟩ := bind_ok h
      simp only [Res.ok.injEq, Prod.mk.injEq] at h
      obtain ⟨e1, e2, e3⟩ := h
      subst e1 e2 e3
      simp only [poolIdsL] at hn
      rw [List.nodup_append] at hn
      obtain ⟨n1, n2, dj⟩ := hn
      obtain ⟨fr1, q1⟩ := inspectIn_quote hs hc r a w x rr w1 h1 n1
      obtain ⟨fr2, q2⟩ := parIn_quote hs hc rs as w1 y rrs' w2 h2 n2
      refine ⟨?_, ?_⟩
      · intro i hi
        simp only [poolIdsL, List.mem_append, not_or] at hi
        rw [fr2 i hi.2, fr1 i hi.1]
      · intro w0 hw0
        have a1 := q1 w0 (fun i hi => hw0 i (by simp [poolIdsL, hi]))
        have a2 := q2 w0 (fun i hi => by
          rw [hw0 i (by simp [poolIdsL, hi])]
          exact (fr1 i (fun hi' => dj i hi' i hi rfl)).symm)
        simp [inspectPar, a1, a2, Res.bind]
end

/-- Quote = execute (exact-in). Full statement wanted: the query on the pre-state and the message agree in outcome
    and result. Proved with the extra hypothesis spelled out: THE EXECUTION SUCCEEDED (the converse is false: a leg whose
    amount rounds to zero is quoted but refused by the pool keeper — Witness/C03.lean, known finding C03-K1).
    For a validated route (no pool twice) and pools whose successful swap returns their quote, the response of
    Msg/SwapExactAmountIn is exactly what Query/CalculationSwapExactAmountIn answers on the pre-state. -/
theorem quote_eq_execute_partial (rate : Dec) (prov : Option Addr) (r : Route) (a minOut : Int) (w w' : World PS) (resp : Resp)
    (hs : ∀ id, sender ≠ poolAddr id) (hc : SwapMatchesQuoteIn M)
    (h : msgSwapIn M rate sender prov r a minOut w = (.ok resp, w')) :
    ∃ q, queryIn M rate prov.isSome r a w = .ok q ∧ q.result = resp.result ∧ q.fee = resp.fee ∧ q.amountOut = resp.amountOut := by
  unfold msgSwapIn at h
  by_cases hv : validate r = true
  swap
  · simp [hv] at h
  by_cases ha : a ≤ 0
  · simp [hv, ha] at h
  by_cases hm : minOut ≤ 0
  · simp [hv, ha, hm] at h
  simp only [hv, ha, hm, Bool.not_true, Bool.false_eq_true, if_false] at h
  cases hk : keeperSwapIn M rate sender prov r a minOut w with
  | err c => simp [hk] at h
  | panic k => simp [hk] at h
  | ok x =>
    obtain ⟨rr, fee, wf⟩ := x
    simp only [hk, Prod.mk.injEq, Res.ok.injEq] at h
    obtain ⟨e1, e2⟩ := h
    subst e1 e2
    unfold keeperSwapIn at hk
    obtain ⟨⟨rr1, w1⟩, h1, hk⟩ := bind_ok hk
    unfold swapRouteIn at h1
    obtain ⟨⟨res, rr2, w2⟩, h2, h1⟩ := bind_ok h1
    simp only [Res.ok.injEq, Prod.mk.injEq] at h1
    obtain ⟨e1, e2⟩ := h1
    subst e1 e2
    simp only at hk
    by_cases hlim : (feeIn prov.isSome rate rr2.tout.amount).1 < minOut
    · simp [hlim] at hk
    · simp only [hlim, if_false] at hk
      obtain ⟨b2, h3, hk⟩ := bind_ok hk
      simp only [Res.ok.injEq, Prod.mk.injEq] at hk
      obtain ⟨e1, e2, e3⟩ := hk
      subst e1 e2 e3
      obtain ⟨_, hnd⟩ := validate_noReuse r hv
      obtain ⟨_, q⟩ := inspectIn_quote M sender hs hc r a w res rr2 w2 h2 hnd
      have hq := q w (fun _ _ => rfl)
      refine ⟨⟨rr2, (feeIn prov.isSome rate rr2.tout.amount).2, rr2.tout.amount - (feeIn prov.isSome rate rr2.tout.amount).2⟩, ?_, rfl, rfl, rfl⟩
      simp [queryIn, calcRouteIn, hq, Res.bind, hv, ha]

end quote

/-! ## T7 — series threading -/

/-- consecutive hops: the first takes `a`, each hop takes exactly what the previous one gave, the last gives `b` -/
def Chained : Int → List RResult → Int → Prop
  | a, [], b => a = b
  | a, r :: rs, b => r.tin.amount = a ∧ Chained r.tout.amount rs b

/-- In a series the output of hop i is the exact input of hop i+1 — forward for exact-in (the stated amount enters the
    first hop, the result leaves the last), backward for exact-out (the stated amount leaves the last hop, the result
    enters the first) — and the results are listed in route order in both directions. -/
theorem series_threading {σ : Type} (f : Denom → Denom → Nat → Int → σ → Res (Int × σ)) (rev : Bool) (rs : List Route) :
    (∀ a s res rrs s', inspectSeriesF f genIn rev rs a s = .ok (res, rrs, s') →
      Chained a rrs res ∧ rrs.map (fun x => (x.tin.denom, x.tout.denom)) = rs.map (fun x => (x.din, x.dout))) ∧
    (∀ a s res rrs s', inspectSeriesB f genOut rev rs a s = .ok (res, rrs, s') →
      Chained res rrs a ∧ rrs.map (fun x => (x.tin.denom, x.tout.denom)) = rs.map (fun x => (x.din, x.dout))) := by
  induction rs with
  | nil =>
    constructor
    · intro a s res rrs s' h
      simp only [inspectSeriesF, Res.ok.injEq, Prod.mk.injEq] at h
      obtain ⟨e1, e2, _⟩ := h; subst e1 e2
      exact ⟨rfl, rfl⟩
    · intro a s res rrs s' h
      simp only [inspectSeriesB, Res.ok.injEq, Prod.mk.injEq] at h
      obtain ⟨e1, e2, _⟩ := h; subst e1 e2
      exact ⟨rfl, rfl⟩
  | cons r rs ih =>
    constructor
    · intro a s res rrs s' h
      simp only [inspectSeriesF] at h
      obtain ⟨⟨x, rr, s1⟩, h1, h⟩ := bind_ok h
      obtain ⟨⟨y, rrs', s2⟩, h2, h⟩ := bind_ok h
      simp only [Res.ok.injEq, Prod.mk.injEq] at h
      obtain ⟨e1, e2, _⟩ := h; subst e1 e2
      obtain ⟨hti, hto⟩ := inspect_result_in f rev r a s x rr s1 h1
      obtain ⟨c, m⟩ := ih.1 x s1 y rrs' s2 h2
      refine ⟨⟨by rw [hti], by rw [hto]; exact c⟩, ?_⟩
      simp only [List.map_cons, m, hti, hto]
    · intro a s res rrs s' h
      simp only [inspectSeriesB] at h
      obtain ⟨⟨x, rrs', s1⟩, h1, h⟩ := bind_ok h
      obtain ⟨⟨y, rr, s2⟩, h2, h⟩ := bind_ok h
      simp only [Res.ok.injEq, Prod.mk.injEq] at h
      obtain ⟨e1, e2, _⟩ := h; subst e1 e2
      obtain ⟨hti, hto⟩ := inspect_result_out f rev r x s1 y rr s2 h2
      obtain ⟨c, m⟩ := ih.2 a s x rrs' s1 h1
      refine ⟨⟨by rw [hti], by rw [hto]; exact c⟩, ?_⟩
      simp only [List.map_cons, m, hti, hto]

/-! ## T8 — exact-out series: the sender needs only the input denom (liveness; false for last-hop-first execution) -/

section live
variable {PS : Type} (M : PoolSpec PS) (sender : Addr)

/-- all balances of the sender are non-negative (bank invariant) -/
def NonnegBal (w : World PS) : Prop := ∀ d, 0 ≤ w.bank.bal sender d

/-- a hop can be served on its own: what it is quoted (on `w0`) for a non-negative amount is non-negative, and a
    sender with non-negative balances who holds the quoted input of the hop's input denom gets the quoted tree executed -/
def HopLive (w0 : World PS) (r : Route) : Prop :=
  (∀ a res rr u, inspect (calcPoolOut M w0) genOut true r a () = .ok (res, rr, u) → 0 ≤ a → 0 ≤ res) ∧
  (∀ a res rr u (w : World PS), inspect (calcPoolOut M w0) genOut true r a () = .ok (res, rr, u) → 0 ≤ a →
    NonnegBal sender w → res ≤ w.bank.bal sender r.din → ∃ w', execOut M sender rr w = .ok w')

theorem seriesOut_quote_nonneg (w0 : World PS) : (rs : List Route) → ∀ (a res : Int) (rrs : List RResult) (u : Unit),
    (∀ r ∈ rs, HopLive M sender w0 r) → inspectSeriesB (calcPoolOut M w0) genOut true rs a () = .ok (res, rrs, u) →
    0 ≤ a → 0 ≤ res
  | [] => by
    intro a res rrs u _ h ha
    simp only [inspectSeriesB, Res.ok.injEq, Prod.mk.injEq] at h
    obtain ⟨e1, _, _⟩ := h; omega
  | r :: rs => by
    intro a res rrs u hl h ha
    simp only [inspectSeriesB] at h
    obtain ⟨⟨x, rrs', u1⟩, h1, h⟩ := bind_ok h
    obtain ⟨⟨y, rr, u2⟩, h2, h⟩ := bind_ok h
    simp only [Res.ok.injEq, Prod.mk.injEq] at h
    obtain ⟨e1, _, _⟩ := h; subst e1
    have hx := seriesOut_quote_nonneg w0 rs a x rrs' u1 (fun r' hr' => hl r' (by simp [hr'])) h1 ha
    exact (hl r (by simp)).1 x y rr u2 h2 hx

/-- Exact-out series of any length: if every hop can be served on its own, the whole series can, by a sender who holds
    just the quoted input amount of the series' input denom (every other balance may be zero): the quoted results are
    executed first hop first and each hop is paid from the output of the previous one. (With results in inspection
    order — the unfixed code — the first executed hop is the LAST one and this fails: S2.) -/
theorem seriesOut_needs_only_input (hs : ∀ id, sender ≠ poolAddr id) (w0 : World PS) : (rs : List Route) →
    ∀ (cur dout : Denom) (a res : Int) (rrs : List RResult) (u : Unit) (w : World PS),
    (∀ r ∈ rs, HopLive M sender w0 r) → validateSeries cur dout rs = true →
    inspectSeriesB (calcPoolOut M w0) genOut true rs a () = .ok (res, rrs, u) → 0 ≤ a →
    NonnegBal sender w → res ≤ w.bank.bal sender cur → ∃ w', execOutL M sender rrs w = .ok w'
  | [] => by
    intro cur dout a res rrs u w _ _ h _ _ _
    simp only [inspectSeriesB, Res.ok.injEq, Prod.mk.injEq] at h
    obtain ⟨_, e2, _⟩ := h; subst e2
    exact ⟨w, by simp [execOutL]⟩
  | r :: rs => by
    intro cur dout a res rrs u w hl hv h ha hnn hb
    simp only [inspectSeriesB] at h
    obtain ⟨⟨x, rrs', u1⟩, h1, h⟩ := bind_ok h
    obtain ⟨⟨y, rr, u2⟩, h2, h⟩ := bind_ok h
    simp only [Res.ok.injEq, Prod.mk.injEq] at h
    obtain ⟨e1, e2, _⟩ := h; subst e1 e2
    simp only [validateSeries, Bool.and_eq_true, beq_iff_eq] at hv
    obtain ⟨⟨hv1, hd⟩, hv2⟩ := hv
    subst hd
    have hlt : ∀ r' ∈ rs, HopLive M sender w0 r' := fun r' hr' => hl r' (by simp [hr'])
    have hx0 : 0 ≤ x := seriesOut_quote_nonneg M sender w0 rs a x rrs' u1 hlt h1 ha
    obtain ⟨w1, hx1⟩ := (hl r (by simp)).2 x y rr u2 w h2 hx0 hnn hb
    have mv := inspectOut_moved M sender hs w0 r x y rr u2 w w1 hv1 h2 hx1
    have hnn1 : NonnegBal sender w1 := by
      intro d
      have := mv d; have := hnn d
      have hdx := δ_nonneg r.dout d x hx0
      by_cases hdd : d = r.din
      · subst hdd; rw [δ_self] at *; omega
      · rw [δ_ne _ _ _ hdd] at *; omega
    have hb1 : x ≤ w1.bank.bal sender r.dout := by
      have e := mv r.dout
      rw [δ_self] at e
      have h0 := hnn r.dout
      by_cases hdd : r.dout = r.din
      · have e2 : δ r.din y r.dout = y := by rw [hdd]; exact δ_self _ _
        have hb' : y ≤ w.bank.bal sender r.dout := by rw [hdd]; exact hb
        omega
      · have e2 := δ_ne r.din r.dout y hdd
        omega
    obtain ⟨w2, hx2⟩ := seriesOut_needs_only_input hs w0 rs r.dout dout a x rrs' u1 w1 hlt hv2 h1 ha hnn1 hb1
    exact ⟨w2, by simp [execOutL, hx1, hx2, Res.bind]⟩

/-- a single pool hop can be served if the pool serves: the quote is non-negative and the swap of a sender who can
    pay the quoted input succeeds with exactly that input (pool deterministic and solvent; nothing asked of the sender
    but the input denom) -/
theorem pool_hopLive (w0 : World PS) (din dout : Denom) (id : Nat)
    (hp : ∀ a ain, calcPoolOut M w0 din dout id a () = .ok (ain, ()) → 0 ≤ a →
      0 ≤ ain ∧ ∀ w : World PS, NonnegBal sender w → ain ≤ w.bank.bal sender din → ∃ w', swapPoolOut M sender din dout id a w = .ok (ain, w')) :
    HopLive M sender w0 (.pool din dout id) := by
  constructor
  · intro a res rr u h ha
    simp only [inspect] at h
    obtain ⟨⟨ain, u1⟩, h1, h⟩ := bind_ok h
    simp only [genOut, Res.ok.injEq, Prod.mk.injEq] at h
    obtain ⟨e1, _, _⟩ := h; subst e1
    exact (hp a ain h1 ha).1
  · intro a res rr u w h ha hnn hb
    simp only [inspect] at h
    obtain ⟨⟨ain, u1⟩, h1, h⟩ := bind_ok h
    simp only [genOut, Res.ok.injEq, Prod.mk.injEq] at h
    obtain ⟨e1, e2, _⟩ := h; subst e1 e2
    obtain ⟨w', hw'⟩ := (hp a ain h1 ha).2 w hnn hb
    exact ⟨w', by simp [execOut, hw', Res.bind]⟩

end live

/-! ## non-vacuity: concrete successful swaps over a two-hop series (sender holds only the input denom) -/

/-- a 1:1 pool that refuses non-positive amounts -/
def exPool : PoolSpec Unit where
  calcIn _ _ _ a := .ok a
  swapIn _ _ _ a := if a ≤ 0 then .err "unexpected-calc-amount" else .ok (a, ())
  calcOut _ _ _ a := .ok a
  swapOut _ _ _ a := if a ≤ 0 then .err "unexpected-calc-amount" else .ok (a, ())

def exWorld : World Unit :=
  ⟨((Bank.empty.credit "s" "a" 5).credit (poolAddr 0) "b" 9).credit (poolAddr 1) "c" 9, fun _ => some ()⟩

def exRoute : Route := .series "a" "c" [.pool "a" "b" 0, .pool "b" "c" 1]

example : (msgSwapIn exPool Dec.zero "s" none exRoute 5 1 exWorld).1.isOk = true := by decide
/-- exact-out over a series by a sender who holds nothing but the input denom (fails with last-hop-first execution) -/
example : (msgSwapOut exPool Dec.zero "s" none exRoute 5 5 exWorld).1.isOk = true := by decide
example : (msgSwapOut exPool Dec.zero "s" none exRoute 4 5 exWorld).1.isOk = false := by decide

end Sunrise.C03
