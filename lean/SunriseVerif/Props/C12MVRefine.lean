import SunriseVerif.Props.C12MV
/-!
C12 — `mv_refines_single`: with the ONE validator `v0` the multi-validator model (`Model/LockupMV.lean`) IS the one-validator model
(`Model/Lockup.lean`): `toSingle` commutes with every step and the outcome classes agree, so the theorems of `Props/C12.lean` /
`Props/C12Full.lean` are the one-validator special case of `Props/C12MV.lean`.

One documented difference: `Model/Lockup.lean` still describes the share-class end-blocker BEFORE fix bfa5eeb (a queued unbonding
whose completion second has been reached but whose instant has not makes the end-blocker fail: `halt`); `Model/LockupMV.lean`
follows the current code (the entry stays queued).  `NoStaleHalt` excludes exactly those block times (the `lockup` suite never
generates them: `safeTime`; the `lockupmv` suite does, and the application agrees with the new model).
-/
set_option linter.unusedSimpArgs false
set_option linter.unusedVariables false
namespace Sunrise.C12MV
open Sunrise Sunrise.LockupMV
open Sunrise.Lockup (Variant Entry Unb Ext fee bond lock shareD)

def toSingle (m : St) : Lockup.St :=
  { variant := m.variant, created := m.created, hasOL := m.hasOL, bank := m.bank, owner := m.owner, startT := m.startT,
    endT := m.endT, OL := m.OL, DV := m.DV, DF := m.DF, entries := getEntries m.entries v0, stake := m.stake, ubds := m.ubds,
    scUnb := m.scUnb, hasProxy := m.hasProxy, now := m.now, height := m.height, ut := m.ut, halted := m.halted }

def opToSingle : Op → Lockup.Op
  | .init v f o funds sz st ez en => .init v f o funds sz st ez en
  | .deposit src dst d x => .deposit src dst d x
  | .block t => .block t
  | .send c sd dst d x => .send c sd dst d x
  | .nvDelegate c sd v d x e => .nvDelegate c sd (v == v0) d x e
  | .nvUndelegate c sd v d x e => .nvUndelegate c sd (v == v0) d x e
  | .nvWithdrawReward c sd e => .nvWithdrawReward c sd e
  | .sdSelfDelegate c sd x e => .sdSelfDelegate c sd x e
  | .sdWithdraw c sd x => .sdWithdraw c sd x
  | .pxUndelegate d c sd x e => .pxUndelegate d c sd x e
  | .pxWithdrawReward d c sd e => .pxWithdrawReward d c sd e
  | .pxSend d c sd dst dn x => .pxSend d c sd dst dn x
  | .modSelfDelegate d x e => .modSelfDelegate d x e
  | .modWithdraw d x => .modWithdraw d x

/-- the chain has the one validator `v0`, and the account's entry map has at most that key -/
def SingleWF (m : St) : Prop := m.vals = [v0] ∧ (m.entries = [] ∨ ∃ l, m.entries = [(v0, l)])

/-- block times at which the OLD model's (pre-fix) end-blocker would fail -/
def NoStaleHalt (m : St) : Op → Prop
  | .block t => ∀ u ∈ m.scUnb, Time.unix u.completion ≤ Time.unix t → u.completion ≤ t
  | _ => True

def mapRes {α β} (f : α → β) : Res α → Res β
  | .ok a => .ok (f a)
  | .err c => .err c
  | .panic k => .panic k

@[simp] theorem mapRes_ok {α β} (f : α → β) (a : α) : mapRes f (.ok a) = .ok (f a) := rfl
@[simp] theorem mapRes_err {α β} (f : α → β) (c : String) : mapRes f (Res.err c : Res α) = .err c := rfl
@[simp] theorem mapRes_panic {α β} (f : α → β) (k : PanicKind) : mapRes f (Res.panic k : Res α) = .panic k := rfl
theorem mapRes_bind {α β γ} (f : β → γ) (r : Res α) (g : α → Res β) :
    mapRes f (r.bind g) = r.bind (fun a => mapRes f (g a)) := by
  cases r <;> rfl
theorem ok_bind {α β} (a : α) (g : α → Res β) : (Res.ok a).bind g = g a := rfl
theorem mapRes_ite {α β} (f : α → β) (c : Prop) [Decidable c] (a b : Res α) :
    mapRes f (if c then a else b) = if c then mapRes f a else mapRes f b := by
  split <;> rfl

theorem msgSend_single (b : Bank) (src dst : Addr) (d : Denom) (x : Int) :
    msgSend [v0] b src dst d x = Lockup.msgSend b src dst d x := by
  unfold msgSend Lockup.msgSend sendDisabled Lockup.sendDisabled
  simp [shareOf]

theorem blocked_single {m : St} (hw : SingleWF m) : blocked m = Lockup.blocked (toSingle m) := by
  obtain ⟨_, he | ⟨l, he⟩⟩ := hw
  · unfold blocked blockedEntries Lockup.blocked toSingle
    simp [he, getEntries]
  · unfold blocked blockedEntries Lockup.blocked toSingle
    simp only [he, getEntries, if_true, List.any_cons, List.any_nil, Bool.or_false]
    cases l <;> rfl

theorem contains_single (v : Addr) : ([v0] : List Addr).contains v = (v == v0) := by
  simp only [List.contains, List.elem]
  cases (v == v0) <;> rfl

/-- the two end-block payouts agree when no queued unbonding completes later within the block's second -/
theorem payScUnb_single (t : Int) (l : List Unb) (b : Bank)
    (h : ∀ u ∈ l, Time.unix u.completion ≤ Time.unix t → u.completion ≤ t) :
    Lockup.payScUnb b t l = some (payScUnb b t l) := by
  induction l generalizing b with
  | nil => rfl
  | cons u r ih =>
    have hr : ∀ v ∈ r, Time.unix v.completion ≤ Time.unix t → v.completion ≤ t := fun v hv => h v (by simp [hv])
    simp only [Lockup.payScUnb, payScUnb]
    by_cases hc : u.completion ≤ t
    · have hu : Time.unix u.completion ≤ Time.unix t := Time.unix_mono hc
      simp only [hu, hc, if_true]
      exact ih _ hr
    · have hu : ¬ Time.unix u.completion ≤ Time.unix t := fun c => hc (h u (by simp) c)
      simp only [hu, hc, if_false]
      rw [ih b hr]
      rfl

theorem wf_bank {m : St} (hw : SingleWF m) (b : Bank) : SingleWF { m with bank := b } := hw

theorem getEntries_set_single {es : Entries} (h : es = [] ∨ ∃ l, es = [(v0, l)]) (l' : List Entry) :
    setEntries es v0 l' = [(v0, l')] := by
  rcases h with h | ⟨l, h⟩ <;> subst h <;> simp [setEntries, hasKey, insertEntries, replaceEntries]

/-- every handler of the multi-validator model, seen through `toSingle`, is the handler of the one-validator model -/
theorem apply_refines (m : St) (op : Op) (hw : SingleWF m) (hn : NoStaleHalt m op) :
    Lockup.apply (toSingle m) (opToSingle op) = mapRes toSingle (LockupMV.apply m op) := by
  have hb := blocked_single hw
  have hv := hw.1
  cases op with
  | init v f o funds sz st ez en =>
    simp only [Lockup.apply, LockupMV.apply, opToSingle]
    unfold Lockup.doInit doInit
    simp only [mapRes_ite, mapRes_bind, mapRes_ok, mapRes_err, mapRes_panic]
    rfl
  | deposit src dst d x =>
    simp only [Lockup.apply, LockupMV.apply, opToSingle, mapRes_bind, mapRes_ok, hv, msgSend_single]
    rfl
  | block t =>
    simp only [Lockup.apply, LockupMV.apply, opToSingle]
    unfold Lockup.doBlock doBlock
    simp only [NoStaleHalt] at hn
    have hp := payScUnb_single t m.scUnb (Lockup.releaseUbds m.bank t m.ubds).1 hn
    simp only [mapRes_ite, mapRes_ok, mapRes_err]
    show (if t < m.now then Res.err "time" else
        match Lockup.payScUnb (Lockup.releaseUbds m.bank t m.ubds).1 t m.scUnb with
        | none => Res.err "halt"
        | some (b2, sc) => Res.ok _) = _
    rw [hp]
    rfl
  | send c sd dst d x =>
    simp only [Lockup.apply, LockupMV.apply, opToSingle]
    unfold Lockup.doSend doSend Lockup.lockedNow lockedNow
    simp only [mapRes_ite, mapRes_bind, mapRes_ok, mapRes_err, mapRes_panic, hb, hv, msgSend_single]
    rfl
  | nvDelegate c sd v d x e =>
    simp only [Lockup.apply, LockupMV.apply, opToSingle]
    unfold Lockup.doNvDelegate doNvDelegate Lockup.lockedNow lockedNow
    simp only [toSingle, mapRes_ite, mapRes_bind, hb, hv, contains_single, mapRes_err, mapRes_panic]
    cases hl : Lockup.lockedAt m.variant m.OL m.startT m.endT m.now with
    | err c => rfl
    | panic k => rfl
    | ok locked =>
      simp only [ok_bind]
      cases htd : Lockup.trackDelegation m.variant (m.bank.bal lock fee) locked m.DV m.DF x with
      | none => simp only [mapRes_err]; rfl
      | some p =>
        obtain ⟨dv, df⟩ := p
        by_cases hvv : v = v0
        · subst hvv
          simp only [mapRes_ite, mapRes_bind, mapRes_err, mapRes_ok, toSingle]
          rfl
        · have : (v == v0) = false := by simpa using hvv
          simp only [this, mapRes_ite, mapRes_err]
          rfl
  | nvUndelegate c sd v d x e =>
    simp only [Lockup.apply, LockupMV.apply, opToSingle]
    unfold Lockup.doNvUndelegate doNvUndelegate
    simp only [toSingle, mapRes_ite, mapRes_bind, hv, contains_single, mapRes_err, mapRes_panic, mapRes_ok]
    by_cases hvv : v = v0
    · subst hvv
      rw [getEntries_set_single hw.2]
      rfl
    · have : (v == v0) = false := by simpa using hvv
      simp only [this]
      rfl
  | nvWithdrawReward c sd e =>
    simp only [Lockup.apply, LockupMV.apply, opToSingle]
    unfold Lockup.doNvWithdrawReward doNvWithdrawReward
    simp only [mapRes_ite, mapRes_ok, mapRes_err]
    rfl
  | sdSelfDelegate c sd x e =>
    simp only [Lockup.apply, LockupMV.apply, opToSingle]
    unfold Lockup.doSdSelfDelegate doSdSelfDelegate Lockup.lockedNow lockedNow
    simp only [toSingle, mapRes_ite, mapRes_bind, hb, mapRes_err, mapRes_panic]
    cases hl : Lockup.lockedAt m.variant m.OL m.startT m.endT m.now with
    | err c => rfl
    | panic k => rfl
    | ok locked =>
      simp only [Res.bind]
      cases htd : Lockup.trackDelegation m.variant (m.bank.bal lock fee) locked m.DV m.DF x with
      | none => simp only [mapRes_err]; rfl
      | some p =>
        obtain ⟨dv, df⟩ := p
        unfold Lockup.modSelfDelegate modSelfDelegate
        simp only [mapRes_ite, mapRes_bind, mapRes_err, mapRes_ok, toSingle]
        rfl
  | sdWithdraw c sd x =>
    simp only [Lockup.apply, LockupMV.apply, opToSingle]
    unfold Lockup.doSdWithdraw doSdWithdraw
    simp only [toSingle, mapRes_ite, hb, mapRes_err, mapRes_panic]
    cases htd : Lockup.trackUndelegation m.variant m.DV m.DF x with
    | none => simp only [mapRes_err]; rfl
    | some p =>
      obtain ⟨dv, df⟩ := p
      unfold Lockup.modWithdraw modWithdraw
      simp only [mapRes_ite, mapRes_bind, mapRes_err, mapRes_ok, toSingle]
      rfl
  | pxUndelegate d c sd x e =>
    simp only [Lockup.apply, LockupMV.apply, opToSingle]
    unfold Lockup.doPxUndelegate doPxUndelegate
    simp only [mapRes_ite, mapRes_ok, mapRes_err, mapRes_panic]
    rfl
  | pxWithdrawReward d c sd e =>
    simp only [Lockup.apply, LockupMV.apply, opToSingle]
    unfold Lockup.doPxWithdrawReward doPxWithdrawReward
    simp only [mapRes_ite, mapRes_ok, mapRes_err]
    rfl
  | pxSend d c sd dst dn x =>
    simp only [Lockup.apply, LockupMV.apply, opToSingle]
    unfold Lockup.doPxSend doPxSend
    simp only [mapRes_ite, mapRes_bind, mapRes_ok, mapRes_err, hv, msgSend_single]
    rfl
  | modSelfDelegate d x e =>
    simp only [Lockup.apply, LockupMV.apply, opToSingle]
    unfold Lockup.modSelfDelegate modSelfDelegate
    simp only [mapRes_ite, mapRes_bind, mapRes_ok, mapRes_err]
    rfl
  | modWithdraw d x =>
    simp only [Lockup.apply, LockupMV.apply, opToSingle]
    unfold Lockup.modWithdraw modWithdraw
    simp only [mapRes_ite, mapRes_bind, mapRes_ok, mapRes_err]
    rfl

theorem wf_apply {m m' : St} {op : Op} (hw : SingleWF m) (h : LockupMV.apply m op = .ok m') : SingleWF m' := by
  by_cases hu : ∃ c sd v d x e, op = .nvUndelegate c sd v d x e
  · obtain ⟨c, sd, v, d, x, e, rfl⟩ := hu
    simp only [LockupMV.apply, doNvUndelegate] at h
    split at h; · simp at h
    split at h; · simp at h
    split at h; · simp at h
    split at h; · simp at h
    split at h; · simp at h
    rename_i hval
    split at h; · simp at h
    obtain ⟨b1, hb1, h⟩ := Bank.bind_ok h
    obtain ⟨b2, hb2, h⟩ := Bank.bind_ok h
    simp only [Res.ok.injEq] at h
    subst h
    have hv0 : v = v0 := by
      rw [hw.1, contains_single] at hval
      simpa using hval
    subst hv0
    exact ⟨hw.1, Or.inr ⟨_, getEntries_set_single hw.2 _⟩⟩
  · have key : m'.vals = m.vals ∧ (m'.entries = m.entries ∨ m'.entries = []) := by
      cases op <;>
        simp only [LockupMV.apply, doInit, doSend, doNvDelegate, doNvWithdrawReward, doSdSelfDelegate, doSdWithdraw,
          doPxUndelegate, doPxWithdrawReward, doPxSend, doBlock, modSelfDelegate, modWithdraw, lockedNow, Res.bind] at h
      case nvUndelegate c sd v d x e => exact absurd ⟨c, sd, v, d, x, e, rfl⟩ hu
      all_goals (repeat' (split at h))
      all_goals (first | (cases h; done) | (simp only [Res.ok.injEq] at h; subst h; simp))
    obtain ⟨k1, k2⟩ := key
    refine ⟨k1.trans hw.1, ?_⟩
    rcases k2 with k | k
    · rw [k]; exact hw.2
    · left; exact k

/-- **mv_refines_single** — with the one validator `v0` every step of the multi-validator model is the step of the
    one-validator model (`Model/Lockup.lean`) on the projected state, with the same outcome class (block times at which the old
    model's pre-fix end-blocker would halt excluded: `NoStaleHalt`) -/
theorem mv_refines_single (m : St) (op : Op) (hw : SingleWF m) (hn : NoStaleHalt m op) :
    SingleWF (step m op).1
    ∧ toSingle (step m op).1 = (Lockup.step (toSingle m) (opToSingle op)).1
    ∧ (step m op).2 = (Lockup.step (toSingle m) (opToSingle op)).2 := by
  have ha := apply_refines m op hw hn
  unfold step Lockup.step
  have hh : (toSingle m).halted = m.halted := rfl
  rw [hh]
  by_cases hhalt : m.halted
  · simp [hhalt, hw]
  · simp only [hhalt, Bool.false_eq_true, if_false]
    rw [ha]
    cases hap : LockupMV.apply m op with
    | ok m' => exact ⟨wf_apply hw hap, rfl, rfl⟩
    | panic k => exact ⟨hw, rfl, rfl⟩
    | err c =>
      simp only [mapRes_err]
      cases op <;> first | exact ⟨hw, rfl, rfl⟩ | exact ⟨hw, rfl, rfl⟩

/-- the side condition along a whole history -/
def NoStaleHaltRun : St → List Op → Prop
  | _, [] => True
  | m, op :: r => NoStaleHalt m op ∧ NoStaleHaltRun (step m op).1 r

/-- whole histories: the one-validator model's run is the projection of the multi-validator model's run, so `C12.inv_run_all`,
    `C12.outflow_bound_all`, `C12.tracked_le_actual_all` speak about the one-validator instances of the new model -/
theorem mv_refines_single_run (ops : List Op) : ∀ (m : St), SingleWF m → NoStaleHaltRun m ops →
    toSingle (run m ops) = Lockup.run (toSingle m) (ops.map opToSingle) ∧ SingleWF (run m ops) := by
  induction ops with
  | nil => intro m hw _; exact ⟨rfl, hw⟩
  | cons op r ih =>
    intro m hw hn
    obtain ⟨h1, h2, _⟩ := mv_refines_single m op hw hn.1
    have := ih (step m op).1 h1 hn.2
    simp only [run, Lockup.run, List.map_cons, List.foldl_cons] at this ⊢
    rw [← h2]
    exact this

/-- non-vacuity: the one-validator example history of `Props/C12.lean`, run in the multi-validator model -/
example : SingleWF ({ vals := [v0] } : St) := ⟨rfl, Or.inl rfl⟩

end Sunrise.C12MV
