import SunriseVerif.Props.ParamGuards
import SunriseVerif.Gen.KernelsParamsSwap
/-! Parameter guards of one module: see `Props/ParamGuards.lean`. -/
namespace Sunrise.ParamGuards
open Sunrise Sunrise.Gen.KernelsParamsSwap

/-- the interface fee rate must stay BELOW one: `1 − rate` is a divisor in the exact-amount-out fee -/
theorem swap_rate (x : Dec) : swap_rateRejected x = false ↔ 0 ≤ x.raw ∧ x.raw < PREC := by
  unfold swap_rateRejected Dec.isNegative Dec.gte Dec.one
  simp only [Bool.or_eq_false_iff, decide_eq_false_iff_not]
  constructor <;> intro h <;> constructor <;> omega

example : swap_rateRejected ⟨PREC⟩ = true ∧ swap_rateRejected ⟨PREC - 1⟩ = false ∧ swap_rateRejected ⟨-1⟩ = true := by decide

end Sunrise.ParamGuards
