import SunriseVerif.Model.Gauge
import SunriseVerif.Lemmas.Dec
import Mathlib.Tactic.Linarith
import Mathlib.Tactic.Ring
/-!
C17 — Gauge voting counts each bonded token once; emissions follow gauge weights; epochs are contiguous.
Theorems about `Model/Gauge.lean` (tied to the Go code by the `gauge` correspondence suite).
-/
set_option linter.unusedSimpArgs false
set_option linter.unusedVariables false
namespace Sunrise.C17
open Sunrise Sunrise.Gauge Sunrise.Dec

/-! ## emission_le_available -/

theorem HALF_pos : (0:Int) < HALF := by decide
theorem two_HALF : 2 * HALF = PREC := by decide

/-- weight = count.Quo(total): within half an ulp above the exact ratio -/
theorem gaugeWeight_bound (c T : Int) (hc : 0 ≤ c) (hT : 0 < T) :
    0 ≤ (gaugeWeight c T).raw ∧ PREC * (gaugeWeight c T).raw * T ≤ c * PREC * PREC + HALF * T := by
  have hP := PREC_pos
  have hn : 0 ≤ c * PREC * PREC * PREC := by positivity
  have hd : 0 < T * PREC := by positivity
  unfold gaugeWeight Dec.quo Dec.ofInt
  simp only []
  rw [tquo_nonneg_eq hn (le_of_lt hd)]
  have hq0 : 0 ≤ c * PREC * PREC * PREC / (T * PREC) := Int.ediv_nonneg hn (le_of_lt hd)
  have hq : c * PREC * PREC * PREC / (T * PREC) * (T * PREC) ≤ c * PREC * PREC * PREC :=
    Int.ediv_mul_le _ (ne_of_gt hd)
  obtain ⟨h1, _, h3⟩ := chopRound_nonneg_bounds _ hq0
  generalize c * PREC * PREC * PREC / (T * PREC) = q at *
  generalize chopRound q = w at *
  refine ⟨h3, ?_⟩
  have hqT : q * T ≤ c * PREC * PREC := by
    have : (q * T) * PREC ≤ (c * PREC * PREC) * PREC := by nlinarith
    exact le_of_mul_le_mul_right this hP
  nlinarith

/-- one allocation is at most balance·count/total plus half an ulp of the weight -/
theorem allocation_bound (b0 c T : Int) (hb : 0 ≤ b0) (hc : 0 ≤ c) (hT : 0 < T) :
    0 ≤ allocation b0 c T ∧
    PREC * PREC * T * allocation b0 c T ≤ b0 * c * PREC * PREC + b0 * HALF * T := by
  have hP := PREC_pos
  have hH := HALF_pos
  obtain ⟨hw0, hw⟩ := gaugeWeight_bound c T hc hT
  unfold allocation
  simp only []
  by_cases hz : (gaugeWeight c T).isZero = true
  · simp only [hz, if_true]
    refine ⟨le_refl _, ?_⟩
    have : 0 ≤ b0 * c * PREC * PREC := by positivity
    have : 0 ≤ b0 * HALF * T := by positivity
    linarith
  · have hz' : (gaugeWeight c T).isZero = false := by simpa using hz
    simp only [hz', Bool.false_eq_true, if_false]
    have hprod : 0 ≤ (Dec.ofInt b0).raw * (gaugeWeight c T).raw := by
      unfold Dec.ofInt; simp only []; positivity
    obtain ⟨m1, _, m3⟩ := mulTruncate_nonneg_bounds (Dec.ofInt b0) (gaugeWeight c T) hprod
    obtain ⟨t1, _, t3⟩ := truncateInt_nonneg_bounds _ m3
    have hb0 : (Dec.ofInt b0).raw = b0 * PREC := rfl
    rw [hb0] at m1
    generalize (gaugeWeight c T).raw = w at *
    generalize ((Dec.ofInt b0).mulTruncate (gaugeWeight c T)).raw = m at *
    generalize (Dec.mulTruncate (Dec.ofInt b0) (gaugeWeight c T)).truncateInt = a at *
    refine ⟨t3, ?_⟩
    -- PREC*a ≤ m, PREC*m ≤ b0*PREC*w  ⇒  PREC*a ≤ b0*w
    have h1 : PREC * a ≤ b0 * w := by
      have : PREC * (PREC * a) ≤ PREC * (b0 * w) := by nlinarith
      exact le_of_mul_le_mul_left this hP
    have h2 : PREC * PREC * T * a = (PREC * T) * (PREC * a) := by ring
    have h3 : (PREC * T) * (PREC * a) ≤ (PREC * T) * (b0 * w) := by
      apply mul_le_mul_of_nonneg_left h1; positivity
    have h4 : (PREC * T) * (b0 * w) = b0 * (PREC * w * T) := by ring
    have h5 : b0 * (PREC * w * T) ≤ b0 * (c * PREC * PREC + HALF * T) := mul_le_mul_of_nonneg_left hw hb
    nlinarith

/-- Σ of the allocations BeginBlocker computes for a gauge list (all from the same balance) -/
def allocSum (b0 T : Int) : List GaugeRec → Int
  | [] => 0
  | g :: t => allocation b0 g.count T + allocSum b0 T t

theorem allocSum_bound (b0 T : Int) (hb : 0 ≤ b0) (hT : 0 < T) (gs : List GaugeRec)
    (hc : ∀ g ∈ gs, 0 ≤ g.count) :
    0 ≤ allocSum b0 T gs ∧
    PREC * PREC * T * allocSum b0 T gs ≤ b0 * PREC * PREC * totalCount gs + (gs.length : Int) * (b0 * HALF * T) := by
  induction gs with
  | nil => simp [allocSum, totalCount]
  | cons g t ih =>
    obtain ⟨i0, i1⟩ := ih (fun x hx => hc x (List.mem_cons_of_mem _ hx))
    obtain ⟨a0, a1⟩ := allocation_bound b0 g.count T hb (hc g (List.mem_cons_self)) hT
    simp only [allocSum, totalCount, List.length_cons]
    refine ⟨by linarith, ?_⟩
    push_cast
    nlinarith

/-- emission_le_available (computed amounts): the allocations BeginBlocker computes from the fee collector's balance
    `b0` for the gauges of the last epoch never sum to more than `b0`, provided `b0 · #gauges < 2·10^18`
    (the balance is below the 10^15 supply cap, so this holds for up to 2000 gauges; the hypothesis absorbs the
    half-ulp by which banker's rounding can raise each weight — see `emission_bound_needed`). -/
theorem emission_le_available (b0 : Int) (gs : List GaugeRec) (hb : 0 ≤ b0)
    (hc : ∀ g ∈ gs, 0 ≤ g.count) (hT : 0 < totalCount gs)
    (hsmall : b0 * (gs.length : Int) < 2 * PREC) :
    allocSum b0 (totalCount gs) gs ≤ b0 := by
  have hP := PREC_pos
  obtain ⟨s0, s1⟩ := allocSum_bound b0 (totalCount gs) hb hT gs hc
  generalize allocSum b0 (totalCount gs) gs = S at *
  generalize totalCount gs = T at *
  generalize (gs.length : Int) = n at *
  -- divide by T
  have h2 : (PREC * PREC * S) * T ≤ (b0 * PREC * PREC + n * (b0 * HALF)) * T := by nlinarith
  have h3 : PREC * PREC * S ≤ b0 * PREC * PREC + n * (b0 * HALF) := le_of_mul_le_mul_right h2 hT
  have h4 : n * (b0 * HALF) * 2 < PREC * PREC * 2 := by
    have := two_HALF
    nlinarith
  by_contra hgt
  rw [not_le] at hgt
  have h5 : b0 + 1 ≤ S := hgt
  have h6 : PREC * PREC * (b0 + 1) ≤ PREC * PREC * S := by
    apply mul_le_mul_of_nonneg_left h5; positivity
  nlinarith

/-- non-vacuity, uneven split: 1000 over counts 50 and 35 gives 588 + 411 = 999 ≤ 1000 -/
example : allocSum 1000 (totalCount [⟨0,0,50⟩, ⟨0,1,35⟩]) [⟨0,0,50⟩, ⟨0,1,35⟩] = 999 := by decide

/-- the size hypothesis is needed: six equal gauges have weight 0.166666666666666667 each (rounded up), and with
    a balance of 6·10^18 (far above the supply cap) the computed allocations sum to balance + 12 -/
theorem emission_bound_needed :
    let gs : List GaugeRec := [⟨0,0,1⟩, ⟨0,1,1⟩, ⟨0,2,1⟩, ⟨0,3,1⟩, ⟨0,4,1⟩, ⟨0,5,1⟩]
    allocSum (6 * PREC) (totalCount gs) gs = 6 * PREC + 12 := by decide

/-! ## weights_valid -/

def sumRaw : List (Nat × Dec) → Int
  | [] => 0
  | x :: t => x.2.raw + sumRaw t

/-- what the property says about one stored vote: every weight parses, is ≥ 0, and they sum to at most 1 -/
def ValidWeights (ws : List PoolWeight) : Prop :=
  ∃ pws, parseWeights ws = some pws ∧ (∀ x ∈ pws, 0 ≤ x.2.raw) ∧ sumRaw pws ≤ PREC

theorem sumWeights_ok (ws : List PoolWeight) : ∀ (t0 tot : Dec), sumWeights ws t0 = .ok tot →
    ∃ pws, parseWeights ws = some pws ∧ (∀ x ∈ pws, 0 ≤ x.2.raw) ∧ tot.raw = t0.raw + sumRaw pws := by
  induction ws with
  | nil =>
    intro t0 tot h
    simp only [sumWeights, Res.ok.injEq] at h
    exact ⟨[], rfl, by simp, by simp [sumRaw, h]⟩
  | cons pw t ih =>
    intro t0 tot h
    unfold sumWeights at h
    cases hp : Dec.ofString? pw.weight with
    | none => simp [hp] at h
    | some w =>
      simp only [hp] at h
      by_cases hn : w.isNegative = true
      · simp [hn] at h
      · simp only [hn] at h
        obtain ⟨pws, h1, h2, h3⟩ := ih _ _ h
        refine ⟨(pw.pool, w) :: pws, by simp [parseWeights, hp, h1], ?_, ?_⟩
        · intro x hx
          rcases List.mem_cons.mp hx with rfl | hx
          · simp only [Dec.isNegative, decide_eq_true_eq] at hn; simp only []; omega
          · exact h2 x hx
        · simp only [sumRaw, h3, Dec.add]; omega

theorem voteGauge_ok {pools : List Nat} {votes vs : List Vote} {okS : Bool} {a : Addr} {ws : List PoolWeight}
    (h : voteGauge pools votes okS a ws = .ok vs) : ValidWeights ws ∧ vs = setVote votes ⟨a, ws⟩ := by
  unfold voteGauge at h
  by_cases h0 : okS = true
  · simp only [h0, Bool.not_true, Bool.false_eq_true, if_false] at h
    cases hs : sumWeights ws Dec.zero with
    | err e => simp [hs] at h
    | panic k => simp [hs] at h
    | ok tot =>
      simp only [hs] at h
      by_cases hg : tot.gt Dec.one = true
      · simp [hg] at h
      · simp only [hg, Bool.false_eq_true, if_false] at h
        by_cases hp : allPoolsExist pools ws = true
        · simp only [hp, Bool.not_true, Bool.false_eq_true, if_false, Res.ok.injEq] at h
          obtain ⟨pws, h1, h2, h3⟩ := sumWeights_ok ws _ _ hs
          refine ⟨⟨pws, h1, h2, ?_⟩, h.symm⟩
          have hg' : ¬ (tot.raw > PREC) := by simpa [Dec.gt, Dec.one] using hg
          have hz : Dec.zero.raw = 0 := rfl
          rw [hz] at h3
          omega
        · simp [hp] at h
  · simp [h0] at h

theorem setVote_mem (vs : List Vote) (v x : Vote) (h : x ∈ setVote vs v) : x = v ∨ x ∈ vs := by
  induction vs with
  | nil => simp [setVote] at h; exact Or.inl h
  | cons y t ih =>
    unfold setVote at h
    by_cases hy : y.sender = v.sender
    · simp only [hy, if_true] at h
      rcases List.mem_cons.mp h with h | h
      · exact Or.inl h
      · exact Or.inr (List.mem_cons_of_mem _ h)
    · simp only [hy, if_false] at h
      rcases List.mem_cons.mp h with h | h
      · exact Or.inr (by rw [h]; exact List.mem_cons_self)
      · rcases ih h with h | h
        · exact Or.inl h
        · exact Or.inr (List.mem_cons_of_mem _ h)

theorem getVote_setVote_self (vs : List Vote) (v : Vote) : getVote (setVote vs v) v.sender = some v := by
  induction vs with
  | nil => simp [setVote, getVote, List.find?]
  | cons y t ih =>
    unfold setVote
    by_cases hy : y.sender = v.sender
    · simp [hy, getVote, List.find?]
    · simp only [hy, if_false, getVote, List.find?, decide_false] at ih ⊢
      exact ih

theorem getVote_setVote_ne (vs : List Vote) (v : Vote) (a : Addr) (hne : v.sender ≠ a) :
    getVote (setVote vs v) a = getVote vs a := by
  induction vs with
  | nil => simp [setVote, getVote, List.find?, hne]
  | cons y t ih =>
    unfold setVote
    by_cases hy : y.sender = v.sender
    · have : y.sender ≠ a := by rw [hy]; exact hne
      simp [hy, getVote, List.find?, hne]
    · simp only [hy, if_false, getVote, List.find?] at ih ⊢
      by_cases hya : y.sender = a
      · simp [hya]
      · simp only [hya, decide_false]; exact ih

/-! frame lemmas: which parts of the state a block touches -/

theorem createEpoch_cases {s s' : St} {h : Int} {stk : Staking} {p n : Nat} (hc : createEpoch s h stk p n = .ok s') :
    s' = s ∨ ∃ results : List (Nat × Int),
      s' = { s with gauges := (results.map fun r => (⟨p, r.1, r.2⟩ : GaugeRec)).foldl setGauge s.gauges,
                    epochs := setEpoch s.epochs ⟨n, h, h + s.epochBlocks, results.map fun r => (⟨p, r.1, r.2⟩ : GaugeRec)⟩ } := by
  unfold createEpoch at hc
  cases ht : tally stk s.votes with
  | err e => simp [ht, Res.bind] at hc
  | panic k => simp [ht, Res.bind] at hc
  | ok results =>
    simp only [ht, Res.bind] at hc
    by_cases he : results.isEmpty = true
    · simp only [he, if_true, Res.ok.injEq] at hc; exact Or.inl hc.symm
    · simp only [he, Bool.false_eq_true, if_false, Res.ok.injEq] at hc
      exact Or.inr ⟨results, hc.symm⟩

theorem prune_votes (s : St) : (prune s).votes = s.votes ∧ (prune s).epochBlocks = s.epochBlocks := by
  unfold prune
  by_cases h : s.epochs.length > 2
  · simp only [h, if_true]
    cases s.epochs <;> simp
  · simp [h]

theorem endBlocker_votes {s s' : St} {h : Int} {stk : Staking} (he : endBlocker s h stk = .ok s') :
    s'.votes = s.votes := by
  unfold endBlocker at he
  cases hl : lastEpoch s.epochs with
  | none =>
    simp only [hl] at he
    cases hc : createEpoch s h stk 0 1 with
    | ok s1 =>
      simp only [hc, Res.ok.injEq] at he
      subst he
      rcases createEpoch_cases hc with h1 | ⟨r, h1⟩ <;> rw [h1]
    | err e => simp only [hc, Res.ok.injEq] at he; rw [← he]
    | panic k => simp [hc] at he
  | some e =>
    simp only [hl] at he
    by_cases hh : h ≥ e.endBlock
    · simp only [hh, if_true] at he
      cases hc : createEpoch s h stk e.id (e.id + 1) with
      | ok s1 =>
        simp only [hc, Res.ok.injEq] at he
        subst he
        rw [(prune_votes s1).1]
        rcases createEpoch_cases hc with h1 | ⟨r, h1⟩ <;> rw [h1]
      | err e => simp only [hc, Res.ok.injEq] at he; rw [← he]
      | panic k => simp [hc] at he
    · simp only [hh, if_false, Res.ok.injEq] at he; rw [← he]

theorem beginBlocker_frame (s : St) (oks : List Bool) :
    (beginBlocker s oks).1.votes = s.votes ∧ (beginBlocker s oks).1.epochs = s.epochs ∧
    (beginBlocker s oks).1.gauges = s.gauges ∧ (beginBlocker s oks).1.halted = s.halted := by
  unfold beginBlocker
  cases lastEpoch s.epochs with
  | none => (refine ⟨?_, ?_, ?_, ?_⟩ <;> first | rfl | trivial)
  | some e =>
    simp only []
    by_cases ht : totalCount e.gauges = 0
    · simp only [ht, if_true]; (refine ⟨?_, ?_, ?_, ?_⟩ <;> first | rfl | trivial)
    · simp only [ht, if_false]
      cases allocLoop (s.bank.bal feeCollector bond) (totalCount e.gauges) e.gauges oks s.bank [] with
      | mk b o => (refine ⟨?_, ?_, ?_, ?_⟩ <;> first | rfl | trivial)

/-- shape of a block step: the state after BeginBlocker differs from `s` only in the bank; then EndBlocker -/
theorem step_block_cases (s : St) (h fc : Int) (oks : List Bool) (stk : Staking) :
    (step s (.block h fc oks stk)).1 = s ∨
    ∃ s1 : St, (s1.votes = s.votes ∧ s1.epochs = s.epochs ∧ s1.gauges = s.gauges) ∧
      ((∃ s2, endBlocker s1 h stk = .ok s2 ∧ (step s (.block h fc oks stk)).1 = s2) ∨
       (step s (.block h fc oks stk)).1 = s1 ∨ (step s (.block h fc oks stk)).1 = { s1 with halted := true }) := by
  have hb := beginBlocker_frame { s with bank := setFc s.bank fc } oks
  simp only [step]
  generalize beginBlocker { s with bank := setFc s.bank fc } oks = bb at hb ⊢
  by_cases hh : s.halted = true
  · simp [hh]
  · simp only [hh, Bool.false_eq_true, if_false]
    right
    refine ⟨bb.1, ⟨hb.1, hb.2.1, hb.2.2.1⟩, ?_⟩
    cases he : endBlocker bb.1 h stk with
    | ok s2 => exact Or.inl ⟨s2, rfl, rfl⟩
    | err e => exact Or.inr (Or.inl rfl)
    | panic k => exact Or.inr (Or.inr rfl)

theorem step_block_votes (s : St) (h fc : Int) (oks : List Bool) (stk : Staking) :
    (step s (.block h fc oks stk)).1.votes = s.votes := by
  rcases step_block_cases s h fc oks stk with h0 | ⟨s1, ⟨hv, _, _⟩, h1 | h1 | h1⟩
  · rw [h0]
  · obtain ⟨s2, he, h2⟩ := h1
    rw [h2, endBlocker_votes he, hv]
  · rw [h1, hv]
  · rw [h1]; exact hv

/-- the invariant of `weights_valid` -/
def VotesValid (s : St) : Prop := ∀ v ∈ s.votes, ValidWeights v.weights

/-- states reachable from an empty module state (any epoch length) by any operation sequence -/
inductive Reachable : St → Prop
  | init (eb : Int) : Reachable { epochBlocks := eb }
  | step {s : St} (op : Op) : Reachable s → Reachable (step s op).1

theorem step_votesValid (s : St) (op : Op) (hs : VotesValid s) : VotesValid (step s op).1 := by
  cases op with
  | addPool id => exact hs
  | vote a okS ws =>
    simp only [step]
    cases hv : voteGauge s.pools s.votes okS a ws with
    | ok vs =>
      simp only []
      obtain ⟨hw, rfl⟩ := voteGauge_ok hv
      intro v hvm
      rcases setVote_mem _ _ _ hvm with rfl | hm
      · exact hw
      · exact hs v hm
    | err e => exact hs
    | panic k => exact hs
  | block h fc oks stk =>
    intro v hv
    rw [step_block_votes] at hv
    exact hs v hv

/-- weights_valid: in every reachable state every stored vote has weights that parse, are non-negative and sum
    to at most one -/
theorem weights_valid {s : St} (hr : Reachable s) : VotesValid s := by
  induction hr with
  | init eb => intro v hv; simp at hv
  | step op _ ih => exact step_votesValid _ op ih

/-- votes persist until replaced: no operation other than an ACCEPTED `VoteGauge` of the same sender changes the
    sender's stored vote (blocks, pool creation, other senders' votes, rejected votes) -/
theorem votes_persist (s : St) (op : Op) (a : Addr)
    (hop : ∀ okS ws, op = .vote a okS ws → (step s op).2 ≠ .vote "ok") :
    getVote (step s op).1.votes a = getVote s.votes a := by
  cases op with
  | addPool id => rfl
  | block h fc oks stk => rw [step_block_votes]
  | vote b okS ws =>
    have hop' := hop okS ws
    simp only [step] at hop' ⊢
    cases hv : voteGauge s.pools s.votes okS b ws with
    | ok vs =>
      simp only [hv] at hop' ⊢
      obtain ⟨_, rfl⟩ := voteGauge_ok hv
      by_cases hba : b = a
      · subst hba; exact absurd rfl (hop' rfl)
      · exact getVote_setVote_ne _ _ _ hba
    | err e => rfl
    | panic k => rfl

/-- an accepted vote replaces the sender's previous vote -/
theorem vote_replaces (s : St) (a : Addr) (okS : Bool) (ws : List PoolWeight)
    (h : (step s (.vote a okS ws)).2 = .vote "ok") :
    getVote (step s (.vote a okS ws)).1.votes a = some ⟨a, ws⟩ ∧ ValidWeights ws := by
  simp only [step] at h ⊢
  cases hv : voteGauge s.pools s.votes okS a ws with
  | ok vs =>
    simp only []
    obtain ⟨hw, rfl⟩ := voteGauge_ok hv
    exact ⟨getVote_setVote_self _ _, hw⟩
  | err e => simp [hv] at h
  | panic k => simp [hv] at h

/-- non-vacuity (String parsing does not reduce in the kernel, so the parse of "0.5" is a hypothesis here; the
    driver executes it for real on every run): a two-pool vote 0.5/0.5 is valid, is accepted into the store of a
    reachable state, and a vote summing to 1.000000000000000001 is rejected -/
example (h5 : Dec.ofString? "0.5" = some ⟨HALF⟩) : ValidWeights [⟨0, "0.5"⟩, ⟨1, "0.5"⟩] :=
  ⟨[(0, ⟨HALF⟩), (1, ⟨HALF⟩)], by simp [parseWeights, h5], by decide, by decide⟩
example (h5 : Dec.ofString? "0.5" = some ⟨HALF⟩) :
    voteGauge [0, 1] [] true "a1" [⟨0, "0.5"⟩, ⟨1, "0.5"⟩] = .ok [⟨"a1", [⟨0, "0.5"⟩, ⟨1, "0.5"⟩]⟩] := by
  have a : ¬ HALF < 0 := by decide
  have b : HALF + HALF = PREC := by decide
  simp [voteGauge, sumWeights, h5, allPoolsExist, setVote, Dec.isNegative, Dec.gt, Dec.add, Dec.zero, Dec.one, a, b]
example (h5 : Dec.ofString? "0.5" = some ⟨HALF⟩) (h6 : Dec.ofString? "0.500000000000000001" = some ⟨HALF + 1⟩) :
    (voteGauge [0, 1] [] true "a1" [⟨0, "0.5"⟩, ⟨1, "0.500000000000000001"⟩]).isOk = false := by
  have a : ¬ HALF < 0 := by decide
  have a' : ¬ HALF + 1 < 0 := by decide
  have b : PREC < HALF + (HALF + 1) := by decide
  simp [voteGauge, sumWeights, h5, h6, Dec.isNegative, Dec.gt, Dec.add, Dec.zero, Dec.one, Res.isOk, a, a', b]
example : Reachable (run { epochBlocks := 3 } [.addPool 0, .addPool 1]) :=
  Reachable.step _ (Reachable.step _ (Reachable.init 3))

/-! ## epochs_contiguous -/

def Shape (es : List Epoch) : Prop :=
  es = [] ∨ (∃ e, es = [e]) ∨ (∃ e1 e2, es = [e1, e2] ∧ e2.id = e1.id + 1)

/-- stored epochs: none, one, or two with consecutive ids; every epoch's gauges carry `prev = id − 1`; every gauge in
    the gauge store belongs (by key) to a STORED epoch — i.e. nothing is kept for a pruned epoch -/
structure EpochsOK (s : St) : Prop where
  shape : Shape s.epochs
  own : ∀ e ∈ s.epochs, ∀ g ∈ e.gauges, g.prev + 1 = e.id
  stored : ∀ g ∈ s.gauges, ∃ e ∈ s.epochs, ∃ g' ∈ e.gauges, g'.prev = g.prev ∧ g'.pool = g.pool

theorem setGauge_mem (gs : List GaugeRec) (g x : GaugeRec) (h : x ∈ setGauge gs g) : x = g ∨ x ∈ gs := by
  induction gs with
  | nil => simp [setGauge] at h; exact Or.inl h
  | cons y t ih =>
    unfold setGauge at h
    by_cases h1 : g.prev < y.prev ∨ (g.prev = y.prev ∧ g.pool < y.pool)
    · simp only [h1, if_true] at h
      rcases List.mem_cons.mp h with h | h
      · exact Or.inl h
      · exact Or.inr h
    · simp only [h1, if_false] at h
      by_cases h2 : g.prev = y.prev ∧ g.pool = y.pool
      · simp only [h2, and_self, if_true] at h
        rcases List.mem_cons.mp h with h | h
        · exact Or.inl h
        · exact Or.inr (List.mem_cons_of_mem _ h)
      · simp only [h2, if_false] at h
        rcases List.mem_cons.mp h with h | h
        · exact Or.inr (by rw [h]; exact List.mem_cons_self)
        · rcases ih h with h | h
          · exact Or.inl h
          · exact Or.inr (List.mem_cons_of_mem _ h)

theorem foldl_setGauge_mem (new : List GaugeRec) : ∀ (gs : List GaugeRec) (x : GaugeRec),
    x ∈ new.foldl setGauge gs → x ∈ gs ∨ x ∈ new := by
  induction new with
  | nil => intro gs x h; exact Or.inl h
  | cons g t ih =>
    intro gs x h
    simp only [List.foldl_cons] at h
    rcases ih _ _ h with h | h
    · rcases setGauge_mem _ _ _ h with h | h
      · exact Or.inr (by rw [h]; exact List.mem_cons_self)
      · exact Or.inl h
    · exact Or.inr (List.mem_cons_of_mem _ h)

theorem foldl_removeGauge_mem (rm : List GaugeRec) : ∀ (gs : List GaugeRec) (x : GaugeRec),
    x ∈ rm.foldl (fun gs g => removeGauge gs g.prev g.pool) gs →
    x ∈ gs ∧ ∀ g ∈ rm, ¬ (x.prev = g.prev ∧ x.pool = g.pool) := by
  induction rm with
  | nil => intro gs x h; exact ⟨h, by simp⟩
  | cons g t ih =>
    intro gs x h
    simp only [List.foldl_cons] at h
    obtain ⟨h1, h2⟩ := ih _ _ h
    unfold removeGauge at h1
    rw [List.mem_filter] at h1
    refine ⟨h1.1, ?_⟩
    intro g' hg'
    rcases List.mem_cons.mp hg' with rfl | hg'
    · intro hc; have h12 := h1.2; simp [hc.1, hc.2] at h12
    · exact h2 g' hg'

theorem prune_small (s : St) (h : s.epochs.length ≤ 2) : prune s = s := by
  unfold prune
  have : ¬ s.epochs.length > 2 := by omega
  simp [this]

/-- CreateEpoch appends the epoch `last.id + 1` (or the first epoch) — or changes nothing -/
theorem endBlocker_epochsOK {s s' : St} {h : Int} {stk : Staking} (hs : EpochsOK s)
    (he : endBlocker s h stk = .ok s') : EpochsOK s' := by
  obtain ⟨hshape, hown, hstored⟩ := hs
  unfold endBlocker at he
  rcases hshape with h0 | ⟨e0, h1⟩ | ⟨e1, e2, h2, hid⟩
  · -- no epoch yet
    simp only [h0, lastEpoch, List.getLast?_nil] at he
    cases hc : createEpoch s h stk 0 1 with
    | err e => simp only [hc, Res.ok.injEq] at he; subst he; exact ⟨Or.inl h0, hown, hstored⟩
    | panic k => simp [hc] at he
    | ok s1 =>
      simp only [hc, Res.ok.injEq] at he
      subst he
      rcases createEpoch_cases hc with hsame | ⟨r, hnew⟩
      · rw [hsame]; exact ⟨Or.inl h0, hown, hstored⟩
      · rw [hnew]
        refine ⟨Or.inr (Or.inl ?_), ?_, ?_⟩
        · simp only [h0, setEpoch]; exact ⟨_, rfl⟩
        · intro e hem g hg
          simp only [h0, setEpoch, List.mem_singleton] at hem
          subst hem
          simp only [List.mem_map] at hg
          obtain ⟨r0, _, rfl⟩ := hg
          rfl
        · intro g hg
          simp only [h0, setEpoch] at hg ⊢
          rcases foldl_setGauge_mem _ _ _ hg with hg | hg
          · obtain ⟨e, hem, _⟩ := hstored g hg
            rw [h0] at hem; simp at hem
          · exact ⟨_, List.mem_singleton.mpr rfl, g, hg, rfl, rfl⟩
  · -- one epoch stored
    simp only [h1, lastEpoch, List.getLast?_singleton] at he
    by_cases hh : h ≥ e0.endBlock
    · simp only [hh, if_true] at he
      cases hc : createEpoch s h stk e0.id (e0.id + 1) with
      | err e => simp only [hc, Res.ok.injEq] at he; subst he; exact ⟨Or.inr (Or.inl ⟨e0, h1⟩), hown, hstored⟩
      | panic k => simp [hc] at he
      | ok s1 =>
        simp only [hc, Res.ok.injEq] at he
        subst he
        rcases createEpoch_cases hc with hsame | ⟨r, hnew⟩
        · rw [hsame, prune_small s (by simp [h1])]; exact ⟨Or.inr (Or.inl ⟨e0, h1⟩), hown, hstored⟩
        · have hse : setEpoch s.epochs ⟨e0.id + 1, h, h + s.epochBlocks, r.map fun r => (⟨e0.id, r.1, r.2⟩ : GaugeRec)⟩
              = [e0, ⟨e0.id + 1, h, h + s.epochBlocks, r.map fun r => (⟨e0.id, r.1, r.2⟩ : GaugeRec)⟩] := by
            simp [h1, setEpoch]
          rw [hnew, prune_small _ (by simp only [hse]; simp)]
          simp only [hse]
          refine ⟨Or.inr (Or.inr ⟨_, _, rfl, rfl⟩), ?_, ?_⟩
          · intro e hem g hg
            rcases List.mem_cons.mp hem with rfl | hem
            · exact hown e (by rw [h1]; exact List.mem_singleton.mpr rfl) g hg
            · rw [List.mem_singleton] at hem
              subst hem
              simp only [List.mem_map] at hg
              obtain ⟨r0, _, rfl⟩ := hg
              rfl
          · intro g hg
            rcases foldl_setGauge_mem _ _ _ hg with hg | hg
            · obtain ⟨e, hem, g', hg', hk⟩ := hstored g hg
              rw [h1, List.mem_singleton] at hem
              subst hem
              exact ⟨e, List.mem_cons_self, g', hg', hk⟩
            · exact ⟨_, List.mem_cons_of_mem _ (List.mem_singleton.mpr rfl), g, hg, rfl, rfl⟩
    · simp only [hh, if_false, Res.ok.injEq] at he; subst he; exact ⟨Or.inr (Or.inl ⟨e0, h1⟩), hown, hstored⟩
  · -- two epochs stored: the new one is appended and the oldest pruned together with its gauges
    simp only [h2, lastEpoch, List.getLast?_cons_cons, List.getLast?_singleton] at he
    by_cases hh : h ≥ e2.endBlock
    · simp only [hh, if_true] at he
      cases hc : createEpoch s h stk e2.id (e2.id + 1) with
      | err e => simp only [hc, Res.ok.injEq] at he; subst he; exact ⟨Or.inr (Or.inr ⟨e1, e2, h2, hid⟩), hown, hstored⟩
      | panic k => simp [hc] at he
      | ok s1 =>
        simp only [hc, Res.ok.injEq] at he
        subst he
        rcases createEpoch_cases hc with hsame | ⟨r, hnew⟩
        · rw [hsame, prune_small s (by simp [h2])]; exact ⟨Or.inr (Or.inr ⟨e1, e2, h2, hid⟩), hown, hstored⟩
        · have hlt1 : ¬ (e2.id + 1 < e1.id) := by omega
          have hne1 : ¬ (e2.id + 1 = e1.id) := by omega
          have hlt2 : ¬ (e2.id + 1 < e2.id) := by omega
          have hne2 : ¬ (e2.id + 1 = e2.id) := by omega
          have hse : setEpoch s.epochs ⟨e2.id + 1, h, h + s.epochBlocks, r.map fun r => (⟨e2.id, r.1, r.2⟩ : GaugeRec)⟩
              = [e1, e2, ⟨e2.id + 1, h, h + s.epochBlocks, r.map fun r => (⟨e2.id, r.1, r.2⟩ : GaugeRec)⟩] := by
            simp [h2, setEpoch, hlt1, hne1, hlt2, hne2]
          rw [hnew]
          unfold prune
          simp only [hse, List.length_cons, List.length_nil]
          have hk1 : ¬ (e2.id = e1.id) := by omega
          have hk2 : ¬ (e2.id + 1 = e1.id) := by omega
          simp only [show (0 + 1 + 1 + 1 > 2) from by decide, if_true, removeEpoch, List.filter, hk1, hk2,
            decide_true, decide_false, Bool.not_true, Bool.not_false]
          refine ⟨Or.inr (Or.inr ⟨_, _, rfl, rfl⟩), ?_, ?_⟩
          · intro e hem g hg
            rcases List.mem_cons.mp hem with rfl | hem
            · exact hown e (by rw [h2]; simp) g hg
            · rw [List.mem_singleton] at hem
              subst hem
              simp only [List.mem_map] at hg
              obtain ⟨r0, _, rfl⟩ := hg
              rfl
          · intro g hg
            obtain ⟨hg1, hg2⟩ := foldl_removeGauge_mem _ _ _ hg
            rcases foldl_setGauge_mem _ _ _ hg1 with hg1 | hg1
            · obtain ⟨e, hem, g', hg', hk⟩ := hstored g hg1
              rw [h2] at hem
              rcases List.mem_cons.mp hem with rfl | hem
              · exact absurd ⟨hk.1.symm, hk.2.symm⟩ (hg2 g' hg')
              · rw [List.mem_singleton] at hem
                subst hem
                exact ⟨e, List.mem_cons_self, g', hg', hk⟩
            · exact ⟨_, List.mem_cons_of_mem _ (List.mem_singleton.mpr rfl), g, hg1, rfl, rfl⟩
    · simp only [hh, if_false, Res.ok.injEq] at he; subst he; exact ⟨Or.inr (Or.inr ⟨e1, e2, h2, hid⟩), hown, hstored⟩

theorem step_epochsOK (s : St) (op : Op) (hs : EpochsOK s) : EpochsOK (step s op).1 := by
  cases op with
  | addPool id => exact ⟨hs.shape, hs.own, hs.stored⟩
  | vote a okS ws =>
    simp only [step]
    cases voteGauge s.pools s.votes okS a ws with
    | ok vs => exact ⟨hs.shape, hs.own, hs.stored⟩
    | err e => exact hs
    | panic k => exact hs
  | block h fc oks stk =>
    rcases step_block_cases s h fc oks stk with h0 | ⟨s1, ⟨_, he, hg⟩, h1 | h1 | h1⟩
    · rw [h0]; exact hs
    · obtain ⟨s2, hend, h2⟩ := h1
      rw [h2]
      exact endBlocker_epochsOK (s := s1) ⟨by rw [he]; exact hs.shape, by rw [he]; exact hs.own, by rw [he, hg]; exact hs.stored⟩ hend
    · rw [h1]; exact ⟨by rw [he]; exact hs.shape, by rw [he]; exact hs.own, by rw [he, hg]; exact hs.stored⟩
    · rw [h1]; exact ⟨by rw [he]; exact hs.shape, by rw [he]; exact hs.own, by rw [he, hg]; exact hs.stored⟩

/-- epochs_contiguous: in every reachable state at most two epochs are stored, their ids are consecutive, and the gauge
    store holds gauges of stored epochs only (the gauges of a pruned epoch are gone) -/
theorem epochs_contiguous {s : St} (hr : Reachable s) : EpochsOK s := by
  induction hr with
  | init eb => exact ⟨Or.inl rfl, by intro e he; simp at he, by intro g hg; simp at hg⟩
  | step op _ ih => exact step_epochsOK _ op ih

/-- corollaries in plain terms -/
theorem epochs_at_most_two {s : St} (hr : Reachable s) : s.epochs.length ≤ 2 := by
  rcases (epochs_contiguous hr).shape with h | ⟨e, h⟩ | ⟨e1, e2, h, _⟩ <;> simp [h]

theorem gauges_only_for_stored_epochs {s : St} (hr : Reachable s) :
    ∀ g ∈ s.gauges, ∃ e ∈ s.epochs, g.prev + 1 = e.id := by
  intro g hg
  obtain ⟨e, he, g', hg', hk⟩ := (epochs_contiguous hr).stored g hg
  exact ⟨e, he, by rw [← hk.1]; exact (epochs_contiguous hr).own e he g' hg'⟩

/-- a block creates at most one epoch and its id is the previous last id + 1 (first epoch: 1); otherwise the last
    epoch is unchanged -/
theorem epoch_ids_increase (s s' : St) (h : Int) (stk : Staking) (hs : EpochsOK s)
    (he : endBlocker s h stk = .ok s') :
    lastEpoch s'.epochs = lastEpoch s.epochs ∨
    ∃ e', lastEpoch s'.epochs = some e' ∧ e'.startBlock = h ∧ e'.endBlock = h + s.epochBlocks ∧
      e'.id = (match lastEpoch s.epochs with | none => 1 | some e => e.id + 1) ∧
      (∀ e, lastEpoch s.epochs = some e → h ≥ e.endBlock) := by
  obtain ⟨hshape, hown, hstored⟩ := hs
  unfold endBlocker at he
  rcases hshape with h0 | ⟨e0, h1⟩ | ⟨e1, e2, h2, hid⟩
  · simp only [h0, lastEpoch, List.getLast?_nil] at he ⊢
    cases hc : createEpoch s h stk 0 1 with
    | err e => simp only [hc, Res.ok.injEq] at he; subst he; exact Or.inl (by rw [h0]; rfl)
    | panic k => simp [hc] at he
    | ok s1 =>
      simp only [hc, Res.ok.injEq] at he
      subst he
      rcases createEpoch_cases hc with hsame | ⟨r, hnew⟩
      · rw [hsame]; exact Or.inl (by rw [h0]; rfl)
      · rw [hnew]; simp only [h0, setEpoch, List.getLast?_singleton]
        exact Or.inr ⟨_, rfl, rfl, rfl, rfl, by intro e he; cases he⟩
  · simp only [h1, lastEpoch, List.getLast?_singleton] at he ⊢
    by_cases hh : h ≥ e0.endBlock
    · simp only [hh, if_true] at he
      cases hc : createEpoch s h stk e0.id (e0.id + 1) with
      | err e => simp only [hc, Res.ok.injEq] at he; subst he; exact Or.inl (by rw [h1]; rfl)
      | panic k => simp [hc] at he
      | ok s1 =>
        simp only [hc, Res.ok.injEq] at he
        subst he
        rcases createEpoch_cases hc with hsame | ⟨r, hnew⟩
        · rw [hsame, prune_small s (by simp [h1])]; exact Or.inl (by rw [h1]; rfl)
        · have hse : setEpoch s.epochs ⟨e0.id + 1, h, h + s.epochBlocks, r.map fun r => (⟨e0.id, r.1, r.2⟩ : GaugeRec)⟩
              = [e0, ⟨e0.id + 1, h, h + s.epochBlocks, r.map fun r => (⟨e0.id, r.1, r.2⟩ : GaugeRec)⟩] := by
            simp [h1, setEpoch]
          rw [hnew, prune_small _ (by simp only [hse]; simp)]
          simp only [hse, List.getLast?_cons_cons, List.getLast?_singleton]
          exact Or.inr ⟨_, rfl, rfl, rfl, rfl, by intro e he; cases he; exact hh⟩
    · simp only [hh, if_false, Res.ok.injEq] at he; subst he; exact Or.inl (by rw [h1]; rfl)
  · simp only [h2, lastEpoch, List.getLast?_cons_cons, List.getLast?_singleton] at he ⊢
    by_cases hh : h ≥ e2.endBlock
    · simp only [hh, if_true] at he
      cases hc : createEpoch s h stk e2.id (e2.id + 1) with
      | err e => simp only [hc, Res.ok.injEq] at he; subst he; exact Or.inl (by rw [h2]; rfl)
      | panic k => simp [hc] at he
      | ok s1 =>
        simp only [hc, Res.ok.injEq] at he
        subst he
        rcases createEpoch_cases hc with hsame | ⟨r, hnew⟩
        · rw [hsame, prune_small s (by simp [h2])]; exact Or.inl (by rw [h2]; rfl)
        · have hlt1 : ¬ (e2.id + 1 < e1.id) := by omega
          have hne1 : ¬ (e2.id + 1 = e1.id) := by omega
          have hlt2 : ¬ (e2.id + 1 < e2.id) := by omega
          have hne2 : ¬ (e2.id + 1 = e2.id) := by omega
          have hse : setEpoch s.epochs ⟨e2.id + 1, h, h + s.epochBlocks, r.map fun r => (⟨e2.id, r.1, r.2⟩ : GaugeRec)⟩
              = [e1, e2, ⟨e2.id + 1, h, h + s.epochBlocks, r.map fun r => (⟨e2.id, r.1, r.2⟩ : GaugeRec)⟩] := by
            simp [h2, setEpoch, hlt1, hne1, hlt2, hne2]
          rw [hnew]
          unfold prune
          simp only [hse, List.length_cons, List.length_nil]
          have hk1 : ¬ (e2.id = e1.id) := by omega
          have hk2 : ¬ (e2.id + 1 = e1.id) := by omega
          simp only [show (0 + 1 + 1 + 1 > 2) from by decide, if_true, removeEpoch, List.filter, hk1, hk2,
            decide_true, decide_false, Bool.not_true, Bool.not_false, List.getLast?_cons_cons, List.getLast?_singleton]
          exact Or.inr ⟨_, rfl, rfl, rfl, rfl, by intro e he; cases he; exact hh⟩
    · simp only [hh, if_false, Res.ok.injEq] at he; subst he; exact Or.inl (by rw [h2]; rfl)

/-- non-vacuity: a non-trivial state (two epochs 1,2 with their gauges) satisfies the invariant, and a state that
    keeps a gauge of the pruned epoch 0→1 does not -/
example : EpochsOK { epochs := [⟨2, 4, 6, [⟨1, 0, 50⟩]⟩, ⟨3, 6, 8, [⟨2, 0, 70⟩, ⟨2, 1, 5⟩]⟩],
                     gauges := [⟨1, 0, 50⟩, ⟨2, 0, 70⟩, ⟨2, 1, 5⟩] } :=
  ⟨Or.inr (Or.inr ⟨_, _, rfl, rfl⟩), by decide, by decide⟩
example : ¬ EpochsOK { epochs := [⟨2, 4, 6, [⟨1, 0, 50⟩]⟩, ⟨3, 6, 8, [⟨2, 0, 70⟩]⟩],
                       gauges := [⟨0, 0, 9⟩, ⟨1, 0, 50⟩, ⟨2, 0, 70⟩] } := fun h => by
  have := h.stored; revert this; decide

/-! ## each_token_once -/

def sumRes : Results → Int
  | [] => 0
  | x :: t => x.2.raw + sumRes t

def NonnegRes : Results → Prop
  | [] => True
  | x :: t => 0 ≤ x.2.raw ∧ NonnegRes t

def sumCounts : List (Nat × Int) → Int
  | [] => 0
  | x :: t => x.2 + sumCounts t

theorem addTo_sum (r : Results) (k : Nat) (v : Dec) : sumRes (addTo r k v) = sumRes r + v.raw := by
  induction r with
  | nil => simp [addTo, sumRes]
  | cons x t ih =>
    obtain ⟨k', v'⟩ := x
    unfold addTo
    by_cases h1 : k < k'
    · simp only [h1, if_true, sumRes]; omega
    · by_cases h2 : k = k'
      · subst h2; simp only [Nat.lt_irrefl, if_false, if_true, sumRes, Dec.add]; omega
      · simp only [h1, h2, if_false, sumRes, ih]; omega

theorem addTo_nonneg (r : Results) (k : Nat) (v : Dec) (hr : NonnegRes r) (hv : 0 ≤ v.raw) :
    NonnegRes (addTo r k v) := by
  induction r with
  | nil => simp [addTo, NonnegRes, hv]
  | cons x t ih =>
    obtain ⟨k', v'⟩ := x
    obtain ⟨h0, ht⟩ := hr
    unfold addTo
    by_cases h1 : k < k'
    · simp only [h1, if_true, NonnegRes]; exact ⟨hv, h0, ht⟩
    · by_cases h2 : k = k'
      · subst h2
        simp only [Nat.lt_irrefl, if_false, if_true, NonnegRes, Dec.add]
        simp only [] at h0
        exact ⟨by omega, ht⟩
      · simp only [h1, h2, if_false, NonnegRes]; exact ⟨h0, ih ht⟩

/-- one voter's (or validator's) power spread over its weights: the results grow by at most power·Σweights plus half
    an ulp per multiplication -/
theorem addWeighted_bound (p : Dec) (hp : 0 ≤ p.raw) (pws : List (Nat × Dec)) (hw : ∀ x ∈ pws, 0 ≤ x.2.raw) :
    ∀ r : Results, NonnegRes r →
      NonnegRes (addWeighted p pws r) ∧
      2 * PREC * sumRes (addWeighted p pws r) ≤ 2 * PREC * sumRes r + 2 * (p.raw * sumRaw pws) + PREC * (pws.length : Int) := by
  induction pws with
  | nil => intro r hr; simp [addWeighted, sumRaw, hr]
  | cons x t ih =>
    intro r hr
    obtain ⟨k, w⟩ := x
    have hw0 : 0 ≤ w.raw := hw (k, w) List.mem_cons_self
    have hprod : 0 ≤ p.raw * w.raw := Int.mul_nonneg hp hw0
    obtain ⟨m1, _, m3⟩ := mul_nonneg_bounds p w hprod
    obtain ⟨i1, i2⟩ := ih (fun y hy => hw y (List.mem_cons_of_mem _ hy)) (addTo r k (p.mul w)) (addTo_nonneg r k _ hr m3)
    simp only [addWeighted, sumRaw, List.length_cons]
    refine ⟨i1, ?_⟩
    rw [addTo_sum] at i2
    have := two_HALF
    have e1 : p.raw * (w.raw + sumRaw t) = p.raw * w.raw + p.raw * sumRaw t := by ring
    push_cast
    rw [e1]
    nlinarith

theorem toCounts_le (r : Results) (hr : NonnegRes r) : PREC * sumCounts (toCounts r) ≤ sumRes r := by
  induction r with
  | nil => simp [toCounts, sumCounts, sumRes]
  | cons x t ih =>
    obtain ⟨h0, ht⟩ := hr
    obtain ⟨t1, _, _⟩ := truncateInt_nonneg_bounds x.2 h0
    have := ih ht
    simp only [toCounts, List.map_cons, sumCounts, sumRes] at this ⊢
    rw [Int.mul_add]
    omega

/-- accumulator invariant of both tally loops -/
structure AccOK (a : Acc) : Prop where
  res_nn : NonnegRes a.res
  tot_nn : 0 ≤ a.total.raw
  bound : 2 * PREC * sumRes a.res ≤ 2 * PREC * a.total.raw + PREC * (a.muls : Int)

/-- what the tally assumes of the staking view: tokens ≥ 0, shares > 0 (a bonded validator has delegations) -/
def ValsOK (vals : List ValInfo) : Prop :=
  ∀ v ∈ vals, 0 ≤ v.bonded ∧ 0 < v.shares.raw ∧ ValidWeights v.weights

theorem validWeights_nil : ValidWeights [] := ⟨[], rfl, by simp, by simp [sumRaw]; exact le_of_lt PREC_pos⟩

theorem findVal_mem (vals : List ValInfo) (a : Addr) (v : ValInfo) (h : findVal vals a = some v) : v ∈ vals := by
  induction vals with
  | nil => simp [findVal] at h
  | cons x t ih =>
    unfold findVal at h
    by_cases hx : x.addr = a
    · simp only [hx, if_true, Option.some.injEq] at h; rw [← h]; exact List.mem_cons_self
    · simp only [hx, if_false] at h; exact List.mem_cons_of_mem _ (ih h)

theorem updVal_mem (vals : List ValInfo) (a : Addr) (f : ValInfo → ValInfo) (x : ValInfo)
    (h : x ∈ updVal vals a f) : x ∈ vals ∨ ∃ v ∈ vals, x = f v := by
  induction vals with
  | nil => simp [updVal] at h
  | cons y t ih =>
    unfold updVal at h
    by_cases hy : y.addr = a
    · simp only [hy, if_true] at h
      rcases List.mem_cons.mp h with h | h
      · exact Or.inr ⟨y, List.mem_cons_self, h⟩
      · exact Or.inl (List.mem_cons_of_mem _ h)
    · simp only [hy, if_false] at h
      rcases List.mem_cons.mp h with h | h
      · exact Or.inl (by rw [h]; exact List.mem_cons_self)
      · rcases ih h with h | ⟨v, hv, h⟩
        · exact Or.inl (List.mem_cons_of_mem _ h)
        · exact Or.inr ⟨v, List.mem_cons_of_mem _ hv, h⟩

theorem valsOK_upd (vals : List ValInfo) (a : Addr) (f : ValInfo → ValInfo) (hv : ValsOK vals)
    (hf : ∀ v, 0 ≤ v.bonded ∧ 0 < v.shares.raw ∧ ValidWeights v.weights →
               0 ≤ (f v).bonded ∧ 0 < (f v).shares.raw ∧ ValidWeights (f v).weights) :
    ValsOK (updVal vals a f) := by
  intro x hx
  rcases updVal_mem _ _ _ _ hx with h | ⟨v, hvm, rfl⟩
  · exact hv x h
  · exact hf v (hv v hvm)

theorem power_nonneg (sh : Dec) (b : Int) (vs : Dec) (h1 : 0 ≤ sh.raw) (h2 : 0 ≤ b) (h3 : 0 < vs.raw) :
    0 ≤ (Gauge.power sh b vs).raw := by
  unfold Gauge.power Dec.quo Dec.mulInt
  simp only []
  have hn : 0 ≤ sh.raw * b * PREC * PREC := by have := PREC_pos; positivity
  rw [tquo_nonneg_eq hn (le_of_lt h3)]
  exact (chopRound_nonneg_bounds _ (Int.ediv_nonneg hn (le_of_lt h3))).2.2

/-- applying one power to valid weights keeps the invariant -/
theorem accOK_add (a : Acc) (p : Dec) (pws : List (Nat × Dec)) (ha : AccOK a) (hp : 0 ≤ p.raw)
    (hw : ∀ x ∈ pws, 0 ≤ x.2.raw) (hs : sumRaw pws ≤ PREC) (vals : List ValInfo) :
    AccOK { vals := vals, res := addWeighted p pws a.res, total := a.total.add p, muls := a.muls + pws.length } := by
  obtain ⟨b1, b2⟩ := addWeighted_bound p hp pws hw a.res ha.res_nn
  refine ⟨b1, by simp only [Dec.add]; have := ha.tot_nn; omega, ?_⟩
  have h3 := ha.bound
  have hP := PREC_pos
  have : p.raw * sumRaw pws ≤ p.raw * PREC := Int.mul_le_mul_of_nonneg_left hs hp
  simp only [Dec.add]
  push_cast
  nlinarith

theorem delegStep_ok {ws : List PoolWeight} {acc acc' : Acc} {d : Addr × Dec} (ha : AccOK acc) (hv : ValsOK acc.vals)
    (hw : ValidWeights ws) (hd : 0 ≤ d.2.raw) (h : delegStep ws acc d = .ok acc') : AccOK acc' ∧ ValsOK acc'.vals := by
  unfold delegStep at h
  cases hf : findVal acc.vals d.1 with
  | none => simp only [hf, Res.ok.injEq] at h; subst h; exact ⟨ha, hv⟩
  | some val =>
    simp only [hf] at h
    obtain ⟨hb, hsh, _⟩ := hv val (findVal_mem _ _ _ hf)
    have hne : ¬ val.shares.raw = 0 := by omega
    simp only [hne, if_false] at h
    obtain ⟨pws, hp, hnn, hsum⟩ := hw
    simp only [hp, Res.ok.injEq] at h
    subst h
    refine ⟨accOK_add acc _ pws ha (power_nonneg _ _ _ hd hb hsh) hnn hsum _, ?_⟩
    exact valsOK_upd _ _ _ hv (fun v hv => hv)

theorem delegLoop_ok {ws : List PoolWeight} (hw : ValidWeights ws) : ∀ (ds : List (Addr × Dec)) (acc acc' : Acc),
    AccOK acc → ValsOK acc.vals → (∀ d ∈ ds, 0 ≤ d.2.raw) → delegLoop ws ds acc = .ok acc' →
    AccOK acc' ∧ ValsOK acc'.vals := by
  intro ds
  induction ds with
  | nil => intro acc acc' ha hv _ h; simp only [delegLoop, Res.ok.injEq] at h; subst h; exact ⟨ha, hv⟩
  | cons d t ih =>
    intro acc acc' ha hv hd h
    simp only [delegLoop] at h
    obtain ⟨a1, h1, h2⟩ := Bank.bind_ok h
    obtain ⟨ha1, hv1⟩ := delegStep_ok ha hv hw (hd d List.mem_cons_self) h1
    exact ih a1 acc' ha1 hv1 (fun x hx => hd x (List.mem_cons_of_mem _ hx)) h2

theorem voteStep_ok {dels : List (Addr × Addr × Dec)} {acc acc' : Acc} {v : Vote} (ha : AccOK acc) (hv : ValsOK acc.vals)
    (hw : ValidWeights v.weights) (hd : ∀ d ∈ dels, 0 ≤ d.2.2.raw) (h : voteStep dels acc v = .ok acc') :
    AccOK acc' ∧ ValsOK acc'.vals := by
  have hdels : ∀ d ∈ delsOf dels v.sender, 0 ≤ d.2.raw := by
    intro d hdm
    simp only [delsOf, List.mem_map, List.mem_filter] at hdm
    obtain ⟨x, ⟨hx, _⟩, rfl⟩ := hdm
    exact hd x hx
  have key : ∀ vals1, ValsOK vals1 →
      delegLoop v.weights (delsOf dels v.sender) { acc with vals := vals1 } = .ok acc' → AccOK acc' ∧ ValsOK acc'.vals :=
    fun vals1 hv1 h1 => delegLoop_ok hw _ { acc with vals := vals1 } _ ⟨ha.res_nn, ha.tot_nn, ha.bound⟩ hv1 hdels h1
  unfold voteStep at h
  refine key _ ?_ h
  cases findVal acc.vals v.sender with
  | none => exact hv
  | some _ => exact valsOK_upd _ _ _ hv (fun x hx => ⟨hx.1, hx.2.1, hw⟩)

theorem voteLoop_ok {dels : List (Addr × Addr × Dec)} (hd : ∀ d ∈ dels, 0 ≤ d.2.2.raw) :
    ∀ (vs : List Vote) (acc acc' : Acc), AccOK acc → ValsOK acc.vals → (∀ v ∈ vs, ValidWeights v.weights) →
    voteLoop dels vs acc = .ok acc' → AccOK acc' ∧ ValsOK acc'.vals := by
  intro vs
  induction vs with
  | nil => intro acc acc' ha hv _ h; simp only [voteLoop, Res.ok.injEq] at h; subst h; exact ⟨ha, hv⟩
  | cons v t ih =>
    intro acc acc' ha hv hw h
    simp only [voteLoop] at h
    obtain ⟨a1, h1, h2⟩ := Bank.bind_ok h
    obtain ⟨ha1, hv1⟩ := voteStep_ok ha hv (hw v List.mem_cons_self) hd h1
    exact ih a1 acc' ha1 hv1 (fun x hx => hw x (List.mem_cons_of_mem _ hx)) h2

theorem valStep_ok {acc acc' : Acc} {val : ValInfo} (ha : AccOK acc)
    (hval : 0 ≤ val.bonded ∧ 0 < val.shares.raw ∧ ValidWeights val.weights)
    (hded : val.deductions.raw ≤ val.shares.raw) (h : valStep acc val = .ok acc') : AccOK acc' := by
  unfold valStep at h
  by_cases he : val.weights.isEmpty = true
  · simp only [he, if_true, Res.ok.injEq] at h; subst h; exact ha
  · simp only [he, Bool.false_eq_true, if_false] at h
    have hne : ¬ val.shares.raw = 0 := by omega
    simp only [hne, if_false] at h
    obtain ⟨pws, hp, hnn, hsum⟩ := hval.2.2
    simp only [hp, Res.ok.injEq] at h
    subst h
    have hsub : 0 ≤ (val.shares.sub val.deductions).raw := by simp only [Dec.sub]; omega
    exact accOK_add acc _ pws ha (power_nonneg _ _ _ hsub hval.1 hval.2.1) hnn hsum _

theorem valLoop_ok : ∀ (vs : List ValInfo) (acc acc' : Acc), AccOK acc →
    (∀ v ∈ vs, (0 ≤ v.bonded ∧ 0 < v.shares.raw ∧ ValidWeights v.weights) ∧ v.deductions.raw ≤ v.shares.raw) →
    valLoop vs acc = .ok acc' → AccOK acc' := by
  intro vs
  induction vs with
  | nil => intro acc acc' ha _ h; simp only [valLoop, Res.ok.injEq] at h; subst h; exact ha
  | cons v t ih =>
    intro acc acc' ha hv h
    simp only [valLoop] at h
    obtain ⟨a1, h1, h2⟩ := Bank.bind_ok h
    have := hv v List.mem_cons_self
    exact ih a1 acc' (valStep_ok ha this.1 this.2 h1) (fun x hx => hv x (List.mem_cons_of_mem _ hx)) h2

/-- hypotheses about the staking view (boundary parameters) -/
structure StakingOK (stk : Staking) : Prop where
  vals_ok : ∀ v ∈ stk.vals, 0 ≤ v.2.1 ∧ 0 < v.2.2.raw
  dels_nn : ∀ d ∈ stk.dels, 0 ≤ d.2.2.raw

theorem initVals_ok (stk : Staking) (h : StakingOK stk) : ValsOK (initVals stk.vals) := by
  intro v hv
  simp only [initVals, List.mem_map] at hv
  obtain ⟨x, hx, rfl⟩ := hv
  exact ⟨(h.vals_ok x hx).1, (h.vals_ok x hx).2, validWeights_nil⟩

/-- the staking invariant the second loop relies on: after the first loop no validator has more deductions than
    shares (the delegations of distinct delegators to a validator sum to at most its DelegatorShares) -/
def DeductionsLeShares (stk : Staking) (votes : List Vote) : Prop :=
  ∀ a1, voteLoop stk.dels votes { vals := initVals stk.vals, res := [], total := Dec.zero, muls := 0 } = .ok a1 →
    ∀ v ∈ a1.vals, v.deductions.raw ≤ v.shares.raw

theorem tallyAcc_ok {stk : Staking} {votes : List Vote} {a : Acc} (hs : StakingOK stk)
    (hv : ∀ v ∈ votes, ValidWeights v.weights) (hd : DeductionsLeShares stk votes)
    (h : tallyAcc stk votes = .ok a) : AccOK a := by
  unfold tallyAcc at h
  obtain ⟨a1, h1, h2⟩ := Bank.bind_ok h
  have h0 : AccOK { vals := initVals stk.vals, res := [], total := Dec.zero, muls := 0 } :=
    ⟨trivial, le_refl _, by simp [sumRes, Dec.zero]⟩
  obtain ⟨ha1, hv1⟩ := voteLoop_ok hs.dels_nn votes _ a1 h0 (initVals_ok stk hs) hv h1
  exact valLoop_ok a1.vals a1 a ha1 (fun v hvm => ⟨hv1 v hvm, hd a1 h1 v hvm⟩) h2

/-- each_token_once, part 1 (no assumption on the exchange rate): the gauge counts of a tally sum to at most the total
    voting power the tally itself accumulated, plus half an ulp per weight multiplication:
    2·10^18·Σ counts ≤ 2·totalVotingPower.raw + #multiplications. -/
theorem counts_le_voting_power {stk : Staking} {votes : List Vote} {a : Acc} (hs : StakingOK stk)
    (hv : ∀ v ∈ votes, ValidWeights v.weights) (hd : DeductionsLeShares stk votes)
    (h : tallyAcc stk votes = .ok a) :
    2 * PREC * sumCounts (toCounts a.res) ≤ 2 * a.total.raw + (a.muls : Int) := by
  have ha := tallyAcc_ok hs hv hd h
  have h1 := toCounts_le a.res ha.res_nn
  have h2 := ha.bound
  have hP := PREC_pos
  have : PREC * (2 * PREC * sumCounts (toCounts a.res)) ≤ PREC * (2 * a.total.raw + (a.muls : Int)) := by nlinarith
  exact le_of_mul_le_mul_left this hP

/-- each_token_once (explicit rounding hypothesis form): if the voting power the tally accumulated does not exceed the
    bonded tokens (`total ≤ totalBonded`, proved below from shares = tokens) and fewer than 2·10^18 weight
    multiplications were performed, then Σ_pools count ≤ totalBonded — every bonded token is counted at most once. -/
theorem each_token_once_of_power {stk : Staking} {votes : List Vote} {counts : List (Nat × Int)} (hs : StakingOK stk)
    (hv : ∀ v ∈ votes, ValidWeights v.weights) (hd : DeductionsLeShares stk votes)
    (hpow : ∀ a, tallyAcc stk votes = .ok a → a.total.raw ≤ PREC * stk.totalBonded ∧ (a.muls : Int) < 2 * PREC)
    (hb : 0 ≤ stk.totalBonded)
    (h : tally stk votes = .ok counts) : sumCounts counts ≤ stk.totalBonded := by
  unfold tally at h
  obtain ⟨a, h1, h2⟩ := Bank.bind_ok h
  by_cases hz : stk.totalBonded = 0
  · simp only [hz, if_true, Res.ok.injEq] at h2; subst h2; simp [sumCounts, hz]
  · simp only [hz, if_false, Res.ok.injEq] at h2
    subst h2
    have hc := counts_le_voting_power hs hv hd h1
    obtain ⟨hp1, hp2⟩ := hpow a h1
    have hP := PREC_pos
    by_contra hgt
    rw [not_le] at hgt
    have h5 : stk.totalBonded + 1 ≤ sumCounts (toCounts a.res) := hgt
    have : 2 * PREC * (stk.totalBonded + 1) ≤ 2 * PREC * sumCounts (toCounts a.res) := by
      apply mul_le_mul_of_nonneg_left h5; positivity
    nlinarith

/-! ## permutation invariance of the two Go maps (`results`, `currValidators`) -/

theorem dec_add_comm (a b : Dec) : a.add b = b.add a := by simp [Dec.add, Int.add_comm]
theorem dec_add_right_comm (a b c : Dec) : (a.add b).add c = (a.add c).add b := by
  simp only [Dec.add, Dec.mk.injEq]; omega

/-- inserting/adding two contributions into the results map commutes -/
theorem addTo_comm (r : Results) (k1 k2 : Nat) (v1 v2 : Dec) :
    addTo (addTo r k1 v1) k2 v2 = addTo (addTo r k2 v2) k1 v1 := by
  induction r with
  | nil =>
    rcases Nat.lt_trichotomy k1 k2 with c | c | c
    · simp (disch := omega) only [addTo, if_pos, if_neg]
    · subst c; simp (disch := omega) only [addTo, if_pos, if_neg, if_true, ↓reduceIte, Nat.lt_irrefl, dec_add_comm v1 v2]
    · simp (disch := omega) only [addTo, if_pos, if_neg]
  | cons x t ih =>
    obtain ⟨k', v'⟩ := x
    rcases Nat.lt_trichotomy k1 k' with a | a | a <;> rcases Nat.lt_trichotomy k2 k' with b | b | b <;>
      rcases Nat.lt_trichotomy k1 k2 with c | c | c
    all_goals first
      | (exfalso; omega)
      | (subst_vars; simp (disch := omega) only [addTo, if_pos, if_neg, if_true, if_false, ↓reduceIte, Nat.lt_irrefl, ih, dec_add_comm v1 v2, dec_add_right_comm v' v1 v2])

/-- the results map as a fold over the list of all (pool, subPower) contributions -/
def applyContribs (cs : List (Nat × Dec)) (r : Results) : Results := cs.foldl (fun r c => addTo r c.1 c.2) r

/-- permutation invariance of the `results` map fold: the order in which Go iterates voters, delegations and the
    `currValidators` map does not change the tally -/
theorem results_perm {l1 l2 : List (Nat × Dec)} (h : l1.Perm l2) : ∀ r, applyContribs l1 r = applyContribs l2 r := by
  induction h with
  | nil => intro r; rfl
  | cons x _ ih => intro r; simp only [applyContribs, List.foldl_cons]; exact ih _
  | swap x y l => intro r; simp only [applyContribs, List.foldl_cons]; rw [addTo_comm]
  | trans _ _ ih1 ih2 => intro r; rw [ih1, ih2]

theorem addWeighted_eq (p : Dec) (pws : List (Nat × Dec)) : ∀ r,
    addWeighted p pws r = applyContribs (pws.map fun x => (x.1, p.mul x.2)) r := by
  induction pws with
  | nil => intro r; rfl
  | cons x t ih => intro r; obtain ⟨k, w⟩ := x; simp only [addWeighted, List.map_cons, applyContribs, List.foldl_cons]; exact ih _

theorem addWeighted_comm (p1 p2 : Dec) (w1 w2 : List (Nat × Dec)) (r : Results) :
    addWeighted p1 w1 (addWeighted p2 w2 r) = addWeighted p2 w2 (addWeighted p1 w1 r) := by
  simp only [addWeighted_eq, applyContribs, ← List.foldl_append]
  exact results_perm List.perm_append_comm r

/-- effect of one validator in the second loop, independent of the accumulator -/
def valDelta (val : ValInfo) : Res (Option (Dec × List (Nat × Dec))) :=
  if val.weights.isEmpty then .ok none else
  if val.shares.raw = 0 then .panic .divZero else
  match parseWeights val.weights with
  | none => .err "invalid-weight"
  | some pws => .ok (some (Gauge.power (val.shares.sub val.deductions) val.bonded val.shares, pws))

def applyDelta (acc : Acc) : Option (Dec × List (Nat × Dec)) → Acc
  | none => acc
  | some (p, pws) => { acc with res := addWeighted p pws acc.res, total := acc.total.add p, muls := acc.muls + pws.length }

theorem valStep_eq (acc : Acc) (val : ValInfo) : valStep acc val = (valDelta val).bind fun d => .ok (applyDelta acc d) := by
  unfold valStep valDelta
  by_cases h1 : val.weights.isEmpty = true
  · simp [h1, Res.bind, applyDelta]
  · by_cases h2 : val.shares.raw = 0
    · simp [h1, h2, Res.bind]
    · cases h3 : parseWeights val.weights <;> simp [h1, h2, h3, Res.bind, applyDelta]

theorem applyDelta_comm (acc : Acc) (d1 d2 : Option (Dec × List (Nat × Dec))) :
    applyDelta (applyDelta acc d1) d2 = applyDelta (applyDelta acc d2) d1 := by
  cases d1 with
  | none => rfl
  | some x =>
    cases d2 with
    | none => rfl
    | some y =>
      obtain ⟨p1, w1⟩ := x
      obtain ⟨p2, w2⟩ := y
      simp only [applyDelta, Acc.mk.injEq, true_and]
      exact ⟨addWeighted_comm _ _ _ _ _, dec_add_right_comm _ _ _, by omega⟩

/-- permutation invariance of the `currValidators` map iteration (second loop of `Tally`): any order in which Go's
    randomised map iteration visits the validators yields the same accumulator -/
theorem valLoop_perm {vs1 vs2 : List ValInfo} (h : vs1.Perm vs2) :
    ∀ acc a, valLoop vs1 acc = .ok a → valLoop vs2 acc = .ok a := by
  induction h with
  | nil => intro acc a h; exact h
  | cons x _ ih =>
    intro acc a h
    simp only [valLoop] at h ⊢
    obtain ⟨b, h1, h2⟩ := Bank.bind_ok h
    rw [h1]; exact ih b a h2
  | swap x y l =>
    intro acc a h
    simp only [valLoop] at h ⊢
    obtain ⟨b1, h1, h⟩ := Bank.bind_ok h
    obtain ⟨b2, h2, h3⟩ := Bank.bind_ok h
    rw [valStep_eq] at h1 h2
    obtain ⟨dy, e1, e2⟩ := Bank.bind_ok h1
    obtain ⟨dx, e3, e4⟩ := Bank.bind_ok h2
    simp only [Res.ok.injEq] at e2 e4
    subst e2 e4
    rw [valStep_eq acc x, e3]
    simp only [Res.bind]
    rw [valStep_eq _ y, e1]
    simp only [Res.bind]
    rw [applyDelta_comm]
    exact h3
  | trans _ _ ih1 ih2 => intro acc a h; exact ih2 _ _ (ih1 _ _ h)

/-- non-vacuity: two contributions to different pools and one to the same pool, in two orders -/
example : applyContribs [(1, ⟨5⟩), (0, ⟨7⟩), (1, ⟨2⟩)] [] = [(0, ⟨7⟩), (1, ⟨7⟩)] ∧
          applyContribs [(0, ⟨7⟩), (1, ⟨2⟩), (1, ⟨5⟩)] [] = [(0, ⟨7⟩), (1, ⟨7⟩)] := by decide

/-! ### each_token_once, part 2: with shares = tokens the accumulated voting power is at most the bonded tokens -/

def sumDed : List ValInfo → Int
  | [] => 0
  | v :: t => v.deductions.raw + sumDed t
def sumShares : List ValInfo → Int
  | [] => 0
  | v :: t => v.shares.raw + sumShares t
def sumBonded : List ValInfo → Int
  | [] => 0
  | v :: t => v.bonded + sumBonded t

/-- exchange rate one (no slashing so far): DelegatorShares = Tokens for every bonded validator -/
def RateOne (vals : List ValInfo) : Prop := ∀ v ∈ vals, v.shares.raw = v.bonded * PREC ∧ 0 < v.bonded

/-- at rate one `shares.MulInt(bonded).Quo(delegatorShares)` is exactly `shares` (no rounding) -/
theorem power_rate_one (x : Dec) (b : Int) (sv : Dec) (hx : 0 ≤ x.raw) (hb : 0 < b) (hs : sv.raw = b * PREC) :
    (Gauge.power x b sv).raw = x.raw := by
  have hP := PREC_pos
  have hd : 0 < b * PREC := by positivity
  have hn : 0 ≤ x.raw * b * PREC * PREC := by positivity
  unfold Gauge.power Dec.quo Dec.mulInt
  simp only [hs]
  rw [tquo_nonneg_eq hn (le_of_lt hd)]
  have e : x.raw * b * PREC * PREC = (x.raw * PREC) * (b * PREC) := by ring
  rw [e, Int.mul_ediv_cancel _ (ne_of_gt hd)]
  have hxp : 0 ≤ x.raw * PREC := by positivity
  unfold chopRound chopRoundNN
  have h1 : ¬ (x.raw * PREC < 0) := by omega
  simp only [h1, if_false, Int.mul_emod_left, if_true]
  exact Int.mul_ediv_cancel _ (ne_of_gt hP)

theorem sumDed_upd_ded (d : Dec) : ∀ (vals : List ValInfo) (a : Addr) (v : ValInfo), findVal vals a = some v →
    sumDed (updVal vals a (fun v => { v with deductions := v.deductions.add d })) = sumDed vals + d.raw := by
  intro vals
  induction vals with
  | nil => intro a v h; simp [findVal] at h
  | cons x t ih =>
    intro a v h
    unfold findVal at h
    unfold updVal
    by_cases hx : x.addr = a
    · simp only [hx, if_true, sumDed, Dec.add]; omega
    · simp only [hx, if_false] at h ⊢
      simp only [sumDed, ih a v h]; omega

theorem sums_upd (vals : List ValInfo) (a : Addr) (f : ValInfo → ValInfo)
    (hf : ∀ v, (f v).bonded = v.bonded ∧ (f v).shares = v.shares) :
    sumBonded (updVal vals a f) = sumBonded vals ∧ (RateOne vals → RateOne (updVal vals a f)) := by
  refine ⟨?_, ?_⟩
  · induction vals with
    | nil => rfl
    | cons x t ih =>
      unfold updVal
      by_cases hx : x.addr = a
      · simp only [hx, if_true, sumBonded, (hf x).1]
      · simp only [hx, if_false, sumBonded, ih]
  · intro hr x hx
    rcases updVal_mem _ _ _ _ hx with h | ⟨v, hv, rfl⟩
    · exact hr x h
    · rw [(hf v).1, (hf v).2]; exact hr v hv

theorem sumDed_upd_weights (w : List PoolWeight) (vals : List ValInfo) (a : Addr) :
    sumDed (updVal vals a (fun x => { x with weights := w })) = sumDed vals := by
  induction vals with
  | nil => rfl
  | cons x t ih =>
    unfold updVal
    by_cases hx : x.addr = a
    · simp only [hx, if_true, sumDed]
    · simp only [hx, if_false, sumDed, ih]

/-- invariant of the first loop at rate one: accumulated power = Σ deductions -/
structure KOK (B : Int) (a : Acc) : Prop where
  rate : RateOne a.vals
  tot : a.total.raw = sumDed a.vals
  bonded : sumBonded a.vals = B

theorem delegStep_K {B : Int} {ws : List PoolWeight} {acc acc' : Acc} {d : Addr × Dec} (hk : KOK B acc)
    (hd : 0 ≤ d.2.raw) (h : delegStep ws acc d = .ok acc') : KOK B acc' := by
  unfold delegStep at h
  cases hf : findVal acc.vals d.1 with
  | none => simp only [hf, Res.ok.injEq] at h; subst h; exact hk
  | some val =>
    simp only [hf] at h
    obtain ⟨hsh, hb⟩ := hk.rate val (findVal_mem _ _ _ hf)
    have hne : ¬ val.shares.raw = 0 := by have := PREC_pos; rw [hsh]; positivity
    simp only [hne, if_false] at h
    cases hp : parseWeights ws with
    | none => simp [hp] at h
    | some pws =>
      simp only [hp, Res.ok.injEq] at h
      subst h
      have hs := sums_upd acc.vals d.1 (fun v => { v with deductions := v.deductions.add d.2 }) (fun v => ⟨rfl, rfl⟩)
      have e1 := sumDed_upd_ded d.2 acc.vals d.1 val hf
      have e2 := power_rate_one d.2 val.bonded val.shares hd hb hsh
      refine ⟨hs.2 hk.rate, ?_, by rw [hs.1]; exact hk.bonded⟩
      show (acc.total.add (Gauge.power d.2 val.bonded val.shares)).raw
        = sumDed (updVal acc.vals d.1 (fun v => { v with deductions := v.deductions.add d.2 }))
      rw [e1]
      have e3 : (acc.total.add (Gauge.power d.2 val.bonded val.shares)).raw = acc.total.raw + (Gauge.power d.2 val.bonded val.shares).raw := rfl
      rw [e3, e2]
      have := hk.tot; omega

theorem delegLoop_K {B : Int} {ws : List PoolWeight} : ∀ (ds : List (Addr × Dec)) (acc acc' : Acc),
    KOK B acc → (∀ d ∈ ds, 0 ≤ d.2.raw) → delegLoop ws ds acc = .ok acc' → KOK B acc' := by
  intro ds
  induction ds with
  | nil => intro acc acc' hk _ h; simp only [delegLoop, Res.ok.injEq] at h; subst h; exact hk
  | cons d t ih =>
    intro acc acc' hk hd h
    simp only [delegLoop] at h
    obtain ⟨a1, h1, h2⟩ := Bank.bind_ok h
    exact ih a1 acc' (delegStep_K hk (hd d List.mem_cons_self) h1) (fun x hx => hd x (List.mem_cons_of_mem _ hx)) h2

theorem voteStep_K {B : Int} {dels : List (Addr × Addr × Dec)} {acc acc' : Acc} {v : Vote} (hk : KOK B acc)
    (hd : ∀ d ∈ dels, 0 ≤ d.2.2.raw) (h : voteStep dels acc v = .ok acc') : KOK B acc' := by
  have hdels : ∀ d ∈ delsOf dels v.sender, 0 ≤ d.2.raw := by
    intro d hdm
    simp only [delsOf, List.mem_map, List.mem_filter] at hdm
    obtain ⟨x, ⟨hx, _⟩, rfl⟩ := hdm
    exact hd x hx
  have key : ∀ vals1, KOK B { acc with vals := vals1 } →
      delegLoop v.weights (delsOf dels v.sender) { acc with vals := vals1 } = .ok acc' → KOK B acc' :=
    fun vals1 hk1 h1 => delegLoop_K _ { acc with vals := vals1 } _ hk1 hdels h1
  unfold voteStep at h
  refine key _ ?_ h
  cases findVal acc.vals v.sender with
  | none => exact hk
  | some _ =>
    have hs := sums_upd acc.vals v.sender (fun x => { x with weights := v.weights }) (fun v => ⟨rfl, rfl⟩)
    exact ⟨hs.2 hk.rate, by simp only [sumDed_upd_weights]; exact hk.tot, by simp only [hs.1]; exact hk.bonded⟩

theorem voteLoop_K {B : Int} {dels : List (Addr × Addr × Dec)} (hd : ∀ d ∈ dels, 0 ≤ d.2.2.raw) :
    ∀ (vs : List Vote) (acc acc' : Acc), KOK B acc → voteLoop dels vs acc = .ok acc' → KOK B acc' := by
  intro vs
  induction vs with
  | nil => intro acc acc' hk h; simp only [voteLoop, Res.ok.injEq] at h; subst h; exact hk
  | cons v t ih =>
    intro acc acc' hk h
    simp only [voteLoop] at h
    obtain ⟨a1, h1, h2⟩ := Bank.bind_ok h
    exact ih a1 acc' (voteStep_K hk hd h1) h2

/-- second loop at rate one: each validator adds at most shares − deductions -/
theorem valLoop_total : ∀ (vs : List ValInfo) (acc a : Acc),
    (∀ v ∈ vs, (v.shares.raw = v.bonded * PREC ∧ 0 < v.bonded) ∧ v.deductions.raw ≤ v.shares.raw) →
    valLoop vs acc = .ok a → a.total.raw ≤ acc.total.raw + (sumShares vs - sumDed vs) := by
  intro vs
  induction vs with
  | nil => intro acc a _ h; simp only [valLoop, Res.ok.injEq] at h; subst h; simp [sumShares, sumDed]
  | cons v t ih =>
    intro acc a hv h
    simp only [valLoop] at h
    obtain ⟨b, h1, h2⟩ := Bank.bind_ok h
    have hi := ih b a (fun x hx => hv x (List.mem_cons_of_mem _ hx)) h2
    obtain ⟨⟨hsh, hb⟩, hded⟩ := hv v List.mem_cons_self
    rw [valStep_eq] at h1
    obtain ⟨d, e1, e2⟩ := Bank.bind_ok h1
    simp only [Res.ok.injEq] at e2
    subst e2
    simp only [sumShares, sumDed]
    cases d with
    | none => simp only [applyDelta] at hi; omega
    | some pd =>
      obtain ⟨p, pws⟩ := pd
      unfold valDelta at e1
      by_cases he : v.weights.isEmpty = true
      · simp [he] at e1
      · have hne : ¬ v.shares.raw = 0 := by have := PREC_pos; rw [hsh]; positivity
        simp only [he, Bool.false_eq_true, if_false, hne] at e1
        cases hp : parseWeights v.weights with
        | none => simp [hp] at e1
        | some pws' =>
          simp only [hp, Res.ok.injEq, Option.some.injEq, Prod.mk.injEq] at e1
          obtain ⟨rfl, rfl⟩ := e1
          have hsub : 0 ≤ (v.shares.sub v.deductions).raw := by simp only [Dec.sub]; omega
          have := power_rate_one (v.shares.sub v.deductions) v.bonded v.shares hsub hb hsh
          have e : (v.shares.sub v.deductions).raw = v.shares.raw - v.deductions.raw := rfl
          simp only [applyDelta, Dec.add, this] at hi
          omega

theorem sumShares_rate (vals : List ValInfo) (h : RateOne vals) : sumShares vals = PREC * sumBonded vals := by
  induction vals with
  | nil => simp [sumShares, sumBonded]
  | cons v t ih =>
    simp only [sumShares, sumBonded, ih (fun x hx => h x (List.mem_cons_of_mem _ hx)), (h v List.mem_cons_self).1]
    ring

theorem sumDed_init (vs : List (Addr × Int × Dec)) : sumDed (initVals vs) = 0 := by
  induction vs with
  | nil => rfl
  | cons x t ih => simp only [initVals, List.map_cons, sumDed] at ih ⊢; rw [ih]; rfl

/-- at rate one the voting power accumulated by the whole tally is at most Σ bonded tokens (every token once):
    a voting delegator's shares are added once with the delegator's weights and deducted from the validator, whose
    remaining shares are added at most once -/
theorem total_power_le_bonded {stk : Staking} {votes : List Vote} {a : Acc} (hs : StakingOK stk)
    (hrate : RateOne (initVals stk.vals)) (hd : DeductionsLeShares stk votes)
    (h : tallyAcc stk votes = .ok a) : a.total.raw ≤ PREC * sumBonded (initVals stk.vals) := by
  unfold tallyAcc at h
  obtain ⟨a1, h1, h2⟩ := Bank.bind_ok h
  have h0 : KOK (sumBonded (initVals stk.vals)) { vals := initVals stk.vals, res := [], total := Dec.zero, muls := 0 } :=
    ⟨hrate, by simp only [sumDed_init]; rfl, rfl⟩
  have hk := voteLoop_K hs.dels_nn votes _ a1 h0 h1
  have ht := valLoop_total a1.vals a1 a (fun v hv => ⟨hk.rate v hv, hd a1 h1 v hv⟩) h2
  rw [sumShares_rate _ hk.rate, hk.bonded] at ht
  have := hk.tot
  omega

/-- each_token_once: at exchange rate one (shares = tokens·10^18 for every bonded validator), with the staking
    invariants as hypotheses (TotalBondedTokens = Σ tokens of the bonded validators; voters' delegations to a validator
    sum to at most its shares) and fewer than 2·10^18 weight multiplications, the gauge counts of a tally sum to at
    most the total bonded tokens. -/
theorem each_token_once {stk : Staking} {votes : List Vote} {counts : List (Nat × Int)} (hs : StakingOK stk)
    (hv : ∀ v ∈ votes, ValidWeights v.weights) (hd : DeductionsLeShares stk votes)
    (hrate : RateOne (initVals stk.vals)) (htb : stk.totalBonded = sumBonded (initVals stk.vals))
    (hm : ∀ a, tallyAcc stk votes = .ok a → (a.muls : Int) < 2 * PREC)
    (hb : 0 ≤ stk.totalBonded)
    (h : tally stk votes = .ok counts) : sumCounts counts ≤ stk.totalBonded :=
  each_token_once_of_power hs hv hd
    (fun a ha => ⟨by rw [htb]; exact total_power_le_bonded hs hrate hd ha, hm a ha⟩) hb h

/-- a delegator's own vote replaces their validator's for their stake (rate one): processing the delegation moves
    exactly the delegator's shares from the validator's remaining power to the delegator's own weights -/
theorem delegator_overrides_validator {ws : List PoolWeight} {acc acc' : Acc} {d : Addr × Dec} {val : ValInfo}
    (hf : findVal acc.vals d.1 = some val) (hd : 0 ≤ d.2.raw) (hb : 0 < val.bonded)
    (hsh : val.shares.raw = val.bonded * PREC) (hle : val.deductions.raw + d.2.raw ≤ val.shares.raw)
    (h : delegStep ws acc d = .ok acc') :
    ∃ pws, parseWeights ws = some pws ∧
      acc'.res = addWeighted (Gauge.power d.2 val.bonded val.shares) pws acc.res ∧
      acc'.vals = updVal acc.vals d.1 (fun v => { v with deductions := v.deductions.add d.2 }) ∧
      (Gauge.power d.2 val.bonded val.shares).raw = d.2.raw ∧
      (Gauge.power (val.shares.sub (val.deductions.add d.2)) val.bonded val.shares).raw
        = (Gauge.power (val.shares.sub val.deductions) val.bonded val.shares).raw - d.2.raw := by
  unfold delegStep at h
  simp only [hf] at h
  have hne : ¬ val.shares.raw = 0 := by have := PREC_pos; rw [hsh]; positivity
  simp only [hne, if_false] at h
  cases hp : parseWeights ws with
  | none => simp [hp] at h
  | some pws =>
    simp only [hp, Res.ok.injEq] at h
    subst h
    refine ⟨pws, rfl, rfl, rfl, power_rate_one _ _ _ hd hb hsh, ?_⟩
    have h1 : 0 ≤ (val.shares.sub (val.deductions.add d.2)).raw := by simp only [Dec.sub, Dec.add]; omega
    have h2 : 0 ≤ (val.shares.sub val.deductions).raw := by simp only [Dec.sub]; omega
    rw [power_rate_one _ _ _ h1 hb hsh, power_rate_one _ _ _ h2 hb hsh]
    simp only [Dec.sub, Dec.add]; omega

/-- non-vacuity at the arithmetic level (parsed weights): validator of 100 tokens, a delegator holding 30 of its
    shares votes 0.5/0.5 on pools 0,1 while the validator votes 1.0 on pool 0: counts 85 + 15 = 100 = bonded -/
example :
    let sv : Dec := Dec.ofInt 100
    let pd := Gauge.power (Dec.ofInt 30) 100 sv
    let pv := Gauge.power (sv.sub (Dec.ofInt 30)) 100 sv
    toCounts (addWeighted pv [(0, Dec.one)] (addWeighted pd [(0, ⟨HALF⟩), (1, ⟨HALF⟩)] [])) = [(0, 85), (1, 15)] := by
  decide

end Sunrise.C17
