import SunriseVerif.Model.Gauge
import SunriseVerif.Lemmas.Dec
import Mathlib.Tactic.Linarith
import Mathlib.Tactic.Ring
/-!
C17 — Gauge voting counts each bonded token once; emissions follow gauge weights; epochs are contiguous.
Theorems about `Model/Gauge.lean` (tied to the Go code by the `gauge` correspondence suite).
-/
set_option linter.unusedSimpArgs false
set_option linter.unusedVariables false
namespace Sunrise.C17
open Sunrise Sunrise.Gauge Sunrise.Dec

/-! ## emission_le_available -/

theorem HALF_pos : (0:Int) < HALF := by decide
theorem two_HALF : 2 * HALF = PREC := by decide

/-- weight = count.Quo(total): within half an ulp above the exact ratio -/
theorem gaugeWeight_bound (c T : Int) (hc : 0 ≤ c) (hT : 0 < T) :
    0 ≤ (gaugeWeight c T).raw ∧ PREC * (gaugeWeight c T).raw * T ≤ c * PREC * PREC + HALF * T := by
  have hP := PREC_pos
  have hn : 0 ≤ c * PREC * PREC * PREC := by positivity
  have hd : 0 < T * PREC := by positivity
  unfold gaugeWeight Dec.quo Dec.ofInt
  simp only []
  rw [tquo_nonneg_eq hn (le_of_lt hd)]
  have hq0 : 0 ≤ c * PREC * PREC * PREC / (T * PREC) := Int.ediv_nonneg hn (le_of_lt hd)
  have hq : c * PREC * PREC * PREC / (T * PREC) * (T * PREC) ≤ c * PREC * PREC * PREC :=
    Int.ediv_mul_le _ (ne_of_gt hd)
  obtain ⟨h1, _, h3⟩ := chopRound_nonneg_bounds _ hq0
  generalize c * PREC * PREC * PREC / (T * PREC) = q at *
  generalize chopRound q = w at *
  refine ⟨h3, ?_⟩
  have hqT : q * T ≤ c * PREC * PREC := by
    have : (q * T) * PREC ≤ (c * PREC * PREC) * PREC := by nlinarith
    exact le_of_mul_le_mul_right this hP
  nlinarith

/-- one allocation is at most balance·count/total plus half an ulp of the weight -/
theorem allocation_bound (b0 c T : Int) (hb : 0 ≤ b0) (hc : 0 ≤ c) (hT : 0 < T) :
    0 ≤ allocation b0 c T ∧
    PREC * PREC * T * allocation b0 c T ≤ b0 * c * PREC * PREC + b0 * HALF * T := by
  have hP := PREC_pos
  have hH := HALF_pos
  obtain ⟨hw0, hw⟩ := gaugeWeight_bound c T hc hT
  unfold allocation
  simp only []
  by_cases hz : (gaugeWeight c T).isZero = true
  · simp only [hz, if_true]
    refine ⟨le_refl _, ?_⟩
    have : 0 ≤ b0 * c * PREC * PREC := by positivity
    have : 0 ≤ b0 * HALF * T := by positivity
    linarith
  · have hz' : (gaugeWeight c T).isZero = false := by simpa using hz
    simp only [hz', Bool.false_eq_true, if_false]
    have hprod : 0 ≤ (Dec.ofInt b0).raw * (gaugeWeight c T).raw := by
      unfold Dec.ofInt; simp only []; positivity
    obtain ⟨m1, _, m3⟩ := mulTruncate_nonneg_bounds (Dec.ofInt b0) (gaugeWeight c T) hprod
    obtain ⟨t1, _, t3⟩ := truncateInt_nonneg_bounds _ m3
    have hb0 : (Dec.ofInt b0).raw = b0 * PREC := rfl
    rw [hb0] at m1
    generalize (gaugeWeight c T).raw = w at *
    generalize ((Dec.ofInt b0).mulTruncate (gaugeWeight c T)).raw = m at *
    generalize (Dec.mulTruncate (Dec.ofInt b0) (gaugeWeight c T)).truncateInt = a at *
    refine ⟨t3, ?_⟩
    -- PREC*a ≤ m, PREC*m ≤ b0*PREC*w  ⇒  PREC*a ≤ b0*w
    have h1 : PREC * a ≤ b0 * w := by
      have : PREC * (PREC * a) ≤ PREC * (b0 * w) := by nlinarith
      exact le_of_mul_le_mul_left this hP
    have h2 : PREC * PREC * T * a = (PREC * T) * (PREC * a) := by ring
    have h3 : (PREC * T) * (PREC * a) ≤ (PREC * T) * (b0 * w) := by
      apply mul_le_mul_of_nonneg_left h1; positivity
    have h4 : (PREC * T) * (b0 * w) = b0 * (PREC * w * T) := by ring
    have h5 : b0 * (PREC * w * T) ≤ b0 * (c * PREC * PREC + HALF * T) := mul_le_mul_of_nonneg_left hw hb
    nlinarith

/-- Σ of the allocations BeginBlocker computes for a gauge list (all from the same balance) -/
def allocSum (b0 T : Int) : List GaugeRec → Int
  | [] => 0
  | g :: t => allocation b0 g.count T + allocSum b0 T t

theorem allocSum_bound (b0 T : Int) (hb : 0 ≤ b0) (hT : 0 < T) (gs : List GaugeRec)
    (hc : ∀ g ∈ gs, 0 ≤ g.count) :
    0 ≤ allocSum b0 T gs ∧
    PREC * PREC * T * allocSum b0 T gs ≤ b0 * PREC * PREC * totalCount gs + (gs.length : Int) * (b0 * HALF * T) := by
  induction gs with
  | nil => simp [allocSum, totalCount]
  | cons g t ih =>
    obtain ⟨i0, i1⟩ := ih (fun x hx => hc x (List.mem_cons_of_mem _ hx))
    obtain ⟨a0, a1⟩ := allocation_bound b0 g.count T hb (hc g (List.mem_cons_self)) hT
    simp only [allocSum, totalCount, List.length_cons]
    refine ⟨by linarith, ?_⟩
    push_cast
    nlinarith

/-- emission_le_available (computed amounts): the allocations BeginBlocker computes from the fee collector's balance
    `b0` for the gauges of the last epoch never sum to more than `b0`, provided `b0 · #gauges < 2·10^18`
    (the balance is below the 10^15 supply cap, so this holds for up to 2000 gauges; the hypothesis absorbs the
    half-ulp by which banker's rounding can raise each weight — see `emission_bound_needed`). -/
theorem emission_le_available (b0 : Int) (gs : List GaugeRec) (hb : 0 ≤ b0)
    (hc : ∀ g ∈ gs, 0 ≤ g.count) (hT : 0 < totalCount gs)
    (hsmall : b0 * (gs.length : Int) < 2 * PREC) :
    allocSum b0 (totalCount gs) gs ≤ b0 := by
  have hP := PREC_pos
  obtain ⟨s0, s1⟩ := allocSum_bound b0 (totalCount gs) hb hT gs hc
  generalize allocSum b0 (totalCount gs) gs = S at *
  generalize totalCount gs = T at *
  generalize (gs.length : Int) = n at *
  -- divide by T
  have h2 : (PREC * PREC * S) * T ≤ (b0 * PREC * PREC + n * (b0 * HALF)) * T := by nlinarith
  have h3 : PREC * PREC * S ≤ b0 * PREC * PREC + n * (b0 * HALF) := le_of_mul_le_mul_right h2 hT
  have h4 : n * (b0 * HALF) * 2 < PREC * PREC * 2 := by
    have := two_HALF
    nlinarith
  by_contra hgt
  rw [not_le] at hgt
  have h5 : b0 + 1 ≤ S := hgt
  have h6 : PREC * PREC * (b0 + 1) ≤ PREC * PREC * S := by
    apply mul_le_mul_of_nonneg_left h5; positivity
  nlinarith

/-- non-vacuity, uneven split: 1000 over counts 50 and 35 gives 588 + 411 = 999 ≤ 1000 -/
example : allocSum 1000 (totalCount [⟨0,0,50⟩, ⟨0,1,35⟩]) [⟨0,0,50⟩, ⟨0,1,35⟩] = 999 := by decide

/-- the size hypothesis is needed: six equal gauges have weight 0.166666666666666667 each (rounded up), and with
    a balance of 6·10^18 (far above the supply cap) the computed allocations sum to balance + 12 -/
theorem emission_bound_needed :
    let gs : List GaugeRec := [⟨0,0,1⟩, ⟨0,1,1⟩, ⟨0,2,1⟩, ⟨0,3,1⟩, ⟨0,4,1⟩, ⟨0,5,1⟩]
    allocSum (6 * PREC) (totalCount gs) gs = 6 * PREC + 12 := by decide

end Sunrise.C17
