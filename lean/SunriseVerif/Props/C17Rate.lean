import SunriseVerif.Props.C17
import Mathlib.Tactic.Linarith
import Mathlib.Tactic.Ring
import Mathlib.Tactic.Positivity
import Mathlib.Tactic.FieldSimp
import Mathlib.Algebra.Order.Field.Basic
import Mathlib.Algebra.Order.Field.Rat
import Mathlib.Data.Rat.Cast.Order

/-!
C17, any exchange rate — generalises `total_power_le_bonded` / `each_token_once` (which assume `RateOne`:
DelegatorShares = Tokens·10^18) to ANY positive validator exchange rate (slashed validators included).

Proof idea (exact rationals in the proof only, the statements are over `Int`): the potential
`psi vals = Σ_v deductions_v · tokens_v · 10^18 / shares_v` is the exact voting power already handed out on behalf of
each validator.  Every `power` computation (`shares.MulInt(bonded).Quo(delegatorShares)`: truncating inner quotient,
then banker's rounding) exceeds its exact value by at most half a raw unit (`power_le_rat`), so the first loop keeps
`2·total ≤ 2·psi + k` (`ROK`, `k` = number of `power` computations so far).  The second loop adds at most
`rest vals = Σ_v (shares_v − deductions_v)·tokens_v·10^18/shares_v` plus half a unit per validator, and
`psi + rest = 10^18 · Σ tokens` (`psi_add_rest`).  No hypothesis on validator addresses being distinct is needed:
`findVal` and `updVal` both act on the first entry with the address.

Constant in front of `nPow`: 1 in `2·total.raw ≤ 2·10^18·Σtokens + nPow`, i.e. half a raw unit per `power`.
-/
set_option linter.unusedSimpArgs false
set_option linter.unusedVariables false
namespace Sunrise.C17
open Sunrise Sunrise.Gauge Sunrise.Dec

/-- one `power` computation, cross-multiplied -/
theorem power_le_int (x : Dec) (b : Int) (sv : Dec) (hx : 0 ≤ x.raw) (hb : 0 ≤ b) (hs : 0 < sv.raw) :
    2 * (Gauge.power x b sv).raw * sv.raw ≤ 2 * (x.raw * b * PREC) + sv.raw := by
  have hP := PREC_pos
  have hn : 0 ≤ x.raw * b * PREC * PREC := by positivity
  unfold Gauge.power Dec.quo Dec.mulInt
  simp only []
  rw [tquo_nonneg_eq hn (le_of_lt hs)]
  have hq0 : 0 ≤ x.raw * b * PREC * PREC / sv.raw := Int.ediv_nonneg hn (le_of_lt hs)
  have hq : x.raw * b * PREC * PREC / sv.raw * sv.raw ≤ x.raw * b * PREC * PREC :=
    Int.ediv_mul_le _ (ne_of_gt hs)
  obtain ⟨h1, _, h3⟩ := chopRound_nonneg_bounds _ hq0
  generalize x.raw * b * PREC * PREC / sv.raw = q at *
  generalize chopRound q = p at *
  have h2 := two_HALF
  have h4 : PREC * (2 * p * sv.raw) ≤ PREC * (2 * (x.raw * b * PREC) + sv.raw) := by
    have : PREC * p * sv.raw ≤ (q + HALF) * sv.raw := Int.mul_le_mul_of_nonneg_right h1 (le_of_lt hs)
    nlinarith
  exact le_of_mul_le_mul_left h4 hP

theorem power_le_rat (x : Dec) (b : Int) (sv : Dec) (hx : 0 ≤ x.raw) (hb : 0 ≤ b) (hs : 0 < sv.raw) :
    2 * ((Gauge.power x b sv).raw : ℚ) ≤ 2 * (((x.raw : ℚ) * b * PREC) / sv.raw) + 1 := by
  have h := power_le_int x b sv hx hb hs
  have hs' : (0:ℚ) < sv.raw := by exact_mod_cast hs
  have h' : 2 * ((Gauge.power x b sv).raw : ℚ) * sv.raw ≤ 2 * ((x.raw : ℚ) * b * PREC) + sv.raw := by
    exact_mod_cast h
  rw [← sub_nonneg] at h' ⊢
  have : 2 * ((x.raw : ℚ) * b * PREC / sv.raw) + 1 - 2 * ((Gauge.power x b sv).raw : ℚ)
      = (2 * ((x.raw : ℚ) * b * PREC) + sv.raw - 2 * ((Gauge.power x b sv).raw : ℚ) * sv.raw) / sv.raw := by
    field_simp
  rw [this]
  exact div_nonneg h' (le_of_lt hs')

/-! ## the potential: exact (rational) voting power already handed out per validator -/

/-- Σ_v deductions_v · tokens_v / shares_v (raw units, exact) -/
def psi : List ValInfo → ℚ
  | [] => 0
  | v :: t => ((v.deductions.raw : ℚ) * v.bonded * PREC) / v.shares.raw + psi t

/-- Σ_v (shares_v − deductions_v) · tokens_v / shares_v (raw units, exact) -/
def rest : List ValInfo → ℚ
  | [] => 0
  | v :: t => (((v.shares.raw : ℚ) - v.deductions.raw) * v.bonded * PREC) / v.shares.raw + rest t

theorem psi_add_rest (vals : List ValInfo) (h : ∀ v ∈ vals, 0 < v.shares.raw) :
    psi vals + rest vals = (PREC : ℚ) * sumBonded vals := by
  induction vals with
  | nil => simp [psi, rest, sumBonded]
  | cons v t ih =>
    have hs : (v.shares.raw : ℚ) ≠ 0 := by
      have := h v List.mem_cons_self
      exact_mod_cast (ne_of_gt this)
    have := ih (fun x hx => h x (List.mem_cons_of_mem _ hx))
    simp only [psi, rest, sumBonded]
    push_cast
    have e : ((v.deductions.raw : ℚ) * v.bonded * PREC) / v.shares.raw
        + (((v.shares.raw : ℚ) - v.deductions.raw) * v.bonded * PREC) / v.shares.raw = (PREC : ℚ) * v.bonded := by
      field_simp
      ring
    linarith

theorem rest_nonneg (vals : List ValInfo)
    (h : ∀ v ∈ vals, (0 ≤ v.bonded ∧ 0 < v.shares.raw) ∧ v.deductions.raw ≤ v.shares.raw) : 0 ≤ rest vals := by
  induction vals with
  | nil => simp [rest]
  | cons v t ih =>
    obtain ⟨⟨hb, hs⟩, hd⟩ := h v List.mem_cons_self
    have := ih (fun x hx => h x (List.mem_cons_of_mem _ hx))
    have hb' : (0:ℚ) ≤ v.bonded := by exact_mod_cast hb
    have hs' : (0:ℚ) < v.shares.raw := by exact_mod_cast hs
    have hd' : (0:ℚ) ≤ (v.shares.raw : ℚ) - v.deductions.raw := by
      have : (v.deductions.raw : ℚ) ≤ v.shares.raw := by exact_mod_cast hd
      linarith
    have hP : (0:ℚ) < (PREC : ℚ) := by exact_mod_cast PREC_pos
    simp only [rest]
    have : 0 ≤ (((v.shares.raw : ℚ) - v.deductions.raw) * v.bonded * PREC) / v.shares.raw := by positivity
    linarith

theorem psi_init (vs : List (Addr × Int × Dec)) : psi (initVals vs) = 0 := by
  induction vs with
  | nil => rfl
  | cons x t ih =>
    simp only [initVals, List.map_cons, psi] at ih ⊢
    rw [ih]; simp [Dec.zero]

theorem psi_upd_ded (d : Dec) : ∀ (vals : List ValInfo) (a : Addr) (v : ValInfo), findVal vals a = some v →
    psi (updVal vals a (fun v => { v with deductions := v.deductions.add d }))
      = psi vals + ((d.raw : ℚ) * v.bonded * PREC) / v.shares.raw := by
  intro vals
  induction vals with
  | nil => intro a v h; simp [findVal] at h
  | cons x t ih =>
    intro a v h
    unfold findVal at h
    unfold updVal
    by_cases hx : x.addr = a
    · simp only [hx, if_true, Option.some.injEq] at h
      subst h
      simp only [hx, if_true, psi, Dec.add]
      push_cast
      ring
    · simp only [hx, if_false] at h ⊢
      simp only [psi, ih a v h]; ring

theorem psi_upd_weights (w : List PoolWeight) (vals : List ValInfo) (a : Addr) :
    psi (updVal vals a (fun x => { x with weights := w })) = psi vals := by
  induction vals with
  | nil => rfl
  | cons x t ih =>
    unfold updVal
    by_cases hx : x.addr = a
    · simp only [hx, if_true, psi]
    · simp only [hx, if_false, psi, ih]

theorem updVal_length (vals : List ValInfo) (a : Addr) (f : ValInfo → ValInfo) :
    (updVal vals a f).length = vals.length := by
  induction vals with
  | nil => rfl
  | cons x t ih =>
    unfold updVal
    by_cases hx : x.addr = a
    · simp only [hx, if_true, List.length_cons]
    · simp only [hx, if_false, List.length_cons, ih]

theorem sumBonded_upd (vals : List ValInfo) (a : Addr) (f : ValInfo → ValInfo)
    (hf : ∀ v, (f v).bonded = v.bonded ∧ (f v).shares = v.shares) :
    sumBonded (updVal vals a f) = sumBonded vals := (sums_upd vals a f hf).1

/-- tokens ≥ 0 and shares > 0 for every entry (what `StakingOK` gives for the initial map) -/
def PosVals (vals : List ValInfo) : Prop := ∀ v ∈ vals, 0 ≤ v.bonded ∧ 0 < v.shares.raw

theorem posVals_upd (vals : List ValInfo) (a : Addr) (f : ValInfo → ValInfo) (hv : PosVals vals)
    (hf : ∀ v, (f v).bonded = v.bonded ∧ (f v).shares = v.shares) : PosVals (updVal vals a f) := by
  intro x hx
  rcases updVal_mem _ _ _ _ hx with h | ⟨v, hvm, rfl⟩
  · exact hv x h
  · rw [(hf v).1, (hf v).2]; exact hv v hvm

/-- invariant of the first loop at any rate: the accumulated power is at most the exact power handed out plus half a
    raw unit per `power` computation (`k` of them so far); Σ tokens (`B`) and the number of validators (`n`) are
    unchanged -/
structure ROK (B : Int) (n k : Nat) (a : Acc) : Prop where
  pos : PosVals a.vals
  tot : 2 * (a.total.raw : ℚ) ≤ 2 * psi a.vals + (k : ℚ)
  bonded : sumBonded a.vals = B
  len : a.vals.length = n

theorem ROK.mono {B : Int} {n k k' : Nat} {a : Acc} (h : ROK B n k a) (hk : k ≤ k') : ROK B n k' a :=
  ⟨h.pos, by have := h.tot; have : (k : ℚ) ≤ k' := by exact_mod_cast hk
             linarith, h.bonded, h.len⟩

theorem delegStep_R {B : Int} {n k : Nat} {ws : List PoolWeight} {acc acc' : Acc} {d : Addr × Dec}
    (hk : ROK B n k acc) (hd : 0 ≤ d.2.raw) (h : delegStep ws acc d = .ok acc') : ROK B n (k + 1) acc' := by
  unfold delegStep at h
  cases hf : findVal acc.vals d.1 with
  | none => simp only [hf, Res.ok.injEq] at h; subst h; exact hk.mono (Nat.le_succ _)
  | some val =>
    simp only [hf] at h
    obtain ⟨hb, hsh⟩ := hk.pos val (findVal_mem _ _ _ hf)
    have hne : ¬ val.shares.raw = 0 := by omega
    simp only [hne, if_false] at h
    cases hp : parseWeights ws with
    | none => simp [hp] at h
    | some pws =>
      simp only [hp, Res.ok.injEq] at h
      subst h
      have e1 := psi_upd_ded d.2 acc.vals d.1 val hf
      have e2 := power_le_rat d.2 val.bonded val.shares hd hb hsh
      refine ⟨posVals_upd _ _ _ hk.pos (fun v => ⟨rfl, rfl⟩), ?_,
        by rw [← hk.bonded]; exact sumBonded_upd _ _ _ (fun v => ⟨rfl, rfl⟩),
        by rw [← hk.len]; exact updVal_length _ _ _⟩
      show 2 * ((acc.total.add (Gauge.power d.2 val.bonded val.shares)).raw : ℚ)
        ≤ 2 * psi (updVal acc.vals d.1 (fun v => { v with deductions := v.deductions.add d.2 })) + ((k + 1 : Nat) : ℚ)
      rw [e1]
      have e3 : (acc.total.add (Gauge.power d.2 val.bonded val.shares)).raw
          = acc.total.raw + (Gauge.power d.2 val.bonded val.shares).raw := rfl
      rw [e3]
      push_cast
      have := hk.tot
      linarith

theorem delegLoop_R {B : Int} {n : Nat} {ws : List PoolWeight} : ∀ (ds : List (Addr × Dec)) (k : Nat) (acc acc' : Acc),
    ROK B n k acc → (∀ d ∈ ds, 0 ≤ d.2.raw) → delegLoop ws ds acc = .ok acc' → ROK B n (k + ds.length) acc' := by
  intro ds
  induction ds with
  | nil => intro k acc acc' hk _ h; simp only [delegLoop, Res.ok.injEq] at h; subst h; exact hk
  | cons d t ih =>
    intro k acc acc' hk hd h
    simp only [delegLoop] at h
    obtain ⟨a1, h1, h2⟩ := Bank.bind_ok h
    have := ih (k + 1) a1 acc' (delegStep_R hk (hd d List.mem_cons_self) h1)
      (fun x hx => hd x (List.mem_cons_of_mem _ hx)) h2
    rw [List.length_cons]
    rw [show k + (t.length + 1) = k + 1 + t.length by omega]
    exact this

theorem voteStep_R {B : Int} {n k : Nat} {dels : List (Addr × Addr × Dec)} {acc acc' : Acc} {v : Vote}
    (hk : ROK B n k acc) (hd : ∀ d ∈ dels, 0 ≤ d.2.2.raw) (h : voteStep dels acc v = .ok acc') :
    ROK B n (k + (delsOf dels v.sender).length) acc' := by
  have hdels : ∀ d ∈ delsOf dels v.sender, 0 ≤ d.2.raw := by
    intro d hdm
    simp only [delsOf, List.mem_map, List.mem_filter] at hdm
    obtain ⟨x, ⟨hx, _⟩, rfl⟩ := hdm
    exact hd x hx
  have key : ∀ vals1, ROK B n k { acc with vals := vals1 } →
      delegLoop v.weights (delsOf dels v.sender) { acc with vals := vals1 } = .ok acc' →
      ROK B n (k + (delsOf dels v.sender).length) acc' :=
    fun vals1 hk1 h1 => delegLoop_R _ k { acc with vals := vals1 } _ hk1 hdels h1
  unfold voteStep at h
  refine key _ ?_ h
  cases findVal acc.vals v.sender with
  | none => exact hk
  | some _ =>
    exact ⟨posVals_upd _ _ _ hk.pos (fun v => ⟨rfl, rfl⟩),
      by simp only [psi_upd_weights]; exact hk.tot,
      (sumBonded_upd acc.vals v.sender (fun x => { x with weights := v.weights }) (fun _ => ⟨rfl, rfl⟩)).trans hk.bonded,
      by simp only [updVal_length]; exact hk.len⟩

/-- number of delegations walked by the first loop -/
def nDels (dels : List (Addr × Addr × Dec)) (votes : List Vote) : Nat :=
  (votes.map (fun v => (delsOf dels v.sender).length)).sum

theorem voteLoop_R {B : Int} {n : Nat} {dels : List (Addr × Addr × Dec)} (hd : ∀ d ∈ dels, 0 ≤ d.2.2.raw) :
    ∀ (vs : List Vote) (k : Nat) (acc acc' : Acc), ROK B n k acc → voteLoop dels vs acc = .ok acc' →
      ROK B n (k + nDels dels vs) acc' := by
  intro vs
  induction vs with
  | nil => intro k acc acc' hk h; simp only [voteLoop, Res.ok.injEq] at h; subst h; exact hk
  | cons v t ih =>
    intro k acc acc' hk h
    simp only [voteLoop] at h
    obtain ⟨a1, h1, h2⟩ := Bank.bind_ok h
    have := ih _ a1 acc' (voteStep_R hk hd h1) h2
    simp only [nDels, List.map_cons, List.sum_cons] at this ⊢
    rw [← Nat.add_assoc]
    exact this

/-- second loop at any rate: each validator adds at most its exact remaining power plus half a raw unit -/
theorem valLoop_total_rate : ∀ (vs : List ValInfo) (acc a : Acc),
    (∀ v ∈ vs, (0 ≤ v.bonded ∧ 0 < v.shares.raw) ∧ v.deductions.raw ≤ v.shares.raw) →
    valLoop vs acc = .ok a → 2 * (a.total.raw : ℚ) ≤ 2 * acc.total.raw + 2 * rest vs + (vs.length : ℚ) := by
  intro vs
  induction vs with
  | nil => intro acc a _ h; simp only [valLoop, Res.ok.injEq] at h; subst h; simp [rest]
  | cons v t ih =>
    intro acc a hv h
    simp only [valLoop] at h
    obtain ⟨b, h1, h2⟩ := Bank.bind_ok h
    have hi := ih b a (fun x hx => hv x (List.mem_cons_of_mem _ hx)) h2
    obtain ⟨⟨hb, hsh⟩, hded⟩ := hv v List.mem_cons_self
    have hterm : 0 ≤ (((v.shares.raw : ℚ) - v.deductions.raw) * v.bonded * PREC) / v.shares.raw := by
      have := rest_nonneg [v] (by intro x hx; rw [List.mem_singleton] at hx; subst hx; exact ⟨⟨hb, hsh⟩, hded⟩)
      simpa [rest] using this
    rw [valStep_eq] at h1
    obtain ⟨d, e1, e2⟩ := Bank.bind_ok h1
    simp only [Res.ok.injEq] at e2
    subst e2
    simp only [rest, List.length_cons]
    push_cast
    cases d with
    | none => simp only [applyDelta] at hi; linarith
    | some pd =>
      obtain ⟨p, pws⟩ := pd
      unfold valDelta at e1
      by_cases he : v.weights.isEmpty = true
      · simp [he] at e1
      · have hne : ¬ v.shares.raw = 0 := by omega
        simp only [he, Bool.false_eq_true, if_false, hne] at e1
        cases hp : parseWeights v.weights with
        | none => simp [hp] at e1
        | some pws' =>
          simp only [hp, Res.ok.injEq, Option.some.injEq, Prod.mk.injEq] at e1
          obtain ⟨rfl, rfl⟩ := e1
          have hsub : 0 ≤ (v.shares.sub v.deductions).raw := by simp only [Dec.sub]; omega
          have hpw := power_le_rat (v.shares.sub v.deductions) v.bonded v.shares hsub hb hsh
          have e : ((v.shares.sub v.deductions).raw : ℚ) = (v.shares.raw : ℚ) - v.deductions.raw := by
            simp only [Dec.sub]; push_cast; ring
          rw [e] at hpw
          simp only [applyDelta, Dec.add] at hi
          push_cast at hi
          linarith

/-- explicit bound on the number of `power` computations of a tally: one per delegation of every voter, and at most
    one per bonded validator -/
def nPow (stk : Staking) (votes : List Vote) : Nat :=
  (votes.map (fun v => (delsOf stk.dels v.sender).length)).sum + stk.vals.length

theorem initVals_pos (stk : Staking) (h : StakingOK stk) : PosVals (initVals stk.vals) := by
  intro v hv
  simp only [initVals, List.mem_map] at hv
  obtain ⟨x, hx, rfl⟩ := hv
  exact h.vals_ok x hx

/-- ANY exchange rate: the voting power accumulated by the whole tally is at most Σ bonded tokens plus half a raw
    unit (10^-18) per `power` computation.  No hypothesis on shares vs tokens beyond `StakingOK`. -/
theorem total_power_le_bonded_any_rate {stk : Staking} {votes : List Vote} {a : Acc} (hs : StakingOK stk)
    (hd : DeductionsLeShares stk votes) (h : tallyAcc stk votes = .ok a) :
    2 * a.total.raw ≤ 2 * PREC * sumBonded (initVals stk.vals) + (nPow stk votes : Int) := by
  unfold tallyAcc at h
  obtain ⟨a1, h1, h2⟩ := Bank.bind_ok h
  have h0 : ROK (sumBonded (initVals stk.vals)) stk.vals.length 0
      { vals := initVals stk.vals, res := [], total := Dec.zero, muls := 0 } :=
    ⟨initVals_pos stk hs, by simp [psi_init, Dec.zero], rfl, by simp [initVals]⟩
  have hk := voteLoop_R hs.dels_nn votes 0 _ a1 h0 h1
  have ht := valLoop_total_rate a1.vals a1 a (fun v hv => ⟨hk.pos v hv, hd a1 h1 v hv⟩) h2
  have hsum := psi_add_rest a1.vals (fun v hv => (hk.pos v hv).2)
  rw [hk.bonded] at hsum
  have htot := hk.tot
  rw [hk.len] at ht
  have hq : 2 * (a.total.raw : ℚ) ≤ 2 * (PREC : ℚ) * (sumBonded (initVals stk.vals) : ℚ)
      + (((0 + nDels stk.dels votes : Nat) : ℚ) + (stk.vals.length : ℚ)) := by linarith
  have hn : nPow stk votes = 0 + nDels stk.dels votes + stk.vals.length := by simp [nPow, nDels]
  rw [hn]
  exact_mod_cast hq

/-- each_token_once at ANY exchange rate (slashed validators included): with the staking invariants as hypotheses
    (TotalBondedTokens = Σ tokens of the bonded validators; voters' delegations to a validator sum to at most its
    shares) and a rounding budget `#weight multiplications + #power computations < 2·10^18`, the gauge counts of a
    tally sum to at most the total bonded tokens.  No relation between shares and tokens is assumed. -/
theorem each_token_once_any_rate {stk : Staking} {votes : List Vote} {counts : List (Nat × Int)} (hs : StakingOK stk)
    (hv : ∀ v ∈ votes, ValidWeights v.weights) (hd : DeductionsLeShares stk votes)
    (htb : stk.totalBonded = sumBonded (initVals stk.vals))
    (hm : ∀ a, tallyAcc stk votes = .ok a → (a.muls : Int) + (nPow stk votes : Int) < 2 * PREC)
    (hb : 0 ≤ stk.totalBonded)
    (h : tally stk votes = .ok counts) : sumCounts counts ≤ stk.totalBonded := by
  unfold tally at h
  obtain ⟨a, h1, h2⟩ := Bank.bind_ok h
  by_cases hz : stk.totalBonded = 0
  · simp only [hz, if_true, Res.ok.injEq] at h2; subst h2; simp [sumCounts, hz]
  · simp only [hz, if_false, Res.ok.injEq] at h2
    subst h2
    have hc := counts_le_voting_power hs hv hd h1
    have hp := total_power_le_bonded_any_rate hs hd h1
    rw [← htb] at hp
    have hm' := hm a h1
    have hP := PREC_pos
    by_contra hgt
    rw [not_le] at hgt
    have h5 : stk.totalBonded + 1 ≤ sumCounts (toCounts a.res) := hgt
    have : 2 * PREC * (stk.totalBonded + 1) ≤ 2 * PREC * sumCounts (toCounts a.res) := by
      apply mul_le_mul_of_nonneg_left h5; positivity
    nlinarith

/-! ### non-vacuity: a slashed validator (91 tokens for 100 shares — shares ≠ tokens·10^18)

String parsing does not reduce in the kernel, so (as in `C17.lean`) the parse of the weight "1" is a hypothesis; the
driver executes it for real on every run.  The delegator "d1" holds 33 of the 100 shares and votes pool 1, the
validator "v1" votes pool 0: powers 60.97 and 30.03, counts 60 + 30 = 90 ≤ 91. -/

def exStk : Staking :=
  { vals := [("v1", 91, ⟨100 * PREC⟩)], dels := [("d1", "v1", ⟨33 * PREC⟩)], totalBonded := 91 }
def exVotes : List Vote := [⟨"d1", [⟨1, "1"⟩]⟩, ⟨"v1", [⟨0, "1"⟩]⟩]

/-- the instance is not at rate one -/
example : ¬ RateOne (initVals exStk.vals) := by
  intro h
  have := (h _ List.mem_cons_self).1
  revert this
  decide

example : StakingOK exStk := ⟨by decide, by decide⟩
example : exStk.totalBonded = sumBonded (initVals exStk.vals) := by decide

/-- state after the first loop for the instance -/
def exAcc1 : Acc :=
  { vals := [{ addr := "v1", bonded := 91, shares := ⟨100 * PREC⟩, deductions := ⟨33 * PREC⟩, weights := [⟨0, "1"⟩] }],
    res := [(1, ⟨30030000000000000000⟩)], total := ⟨30030000000000000000⟩, muls := 1 }

/-- final accumulator for the instance: total power 91.000000000000000000 -/
def exAcc : Acc :=
  { exAcc1 with res := [(0, ⟨60970000000000000000⟩), (1, ⟨30030000000000000000⟩)], total := ⟨91 * PREC⟩, muls := 2 }

theorem exVoteLoop (h1 : Dec.ofString? "1" = some ⟨PREC⟩) :
    voteLoop exStk.dels exVotes { vals := initVals exStk.vals, res := [], total := Dec.zero, muls := 0 } = .ok exAcc1 := by
  have p1 : parseWeights [⟨1, "1"⟩] = some [(1, ⟨PREC⟩)] := by simp [parseWeights, h1]
  have hP : PREC ≠ 0 := by decide
  have w1 : Gauge.power ⟨33 * PREC⟩ 91 ⟨100 * PREC⟩ = ⟨30030000000000000000⟩ := by decide
  have r1 : addWeighted ⟨30030000000000000000⟩ [(1, ⟨PREC⟩)] [] = [(1, ⟨30030000000000000000⟩)] := by decide
  have t2 : Dec.zero.add ⟨33 * PREC⟩ = ⟨33 * PREC⟩ := by decide
  simp [exStk, exVotes, exAcc1, voteLoop, voteStep, delsOf, delegLoop, delegStep, initVals, findVal, updVal,
    Res.bind, p1, hP, w1, r1, t2]
  decide

theorem exTallyAcc (h1 : Dec.ofString? "1" = some ⟨PREC⟩) : tallyAcc exStk exVotes = .ok exAcc := by
  have p0 : parseWeights [⟨0, "1"⟩] = some [(0, ⟨PREC⟩)] := by simp [parseWeights, h1]
  have hP : PREC ≠ 0 := by decide
  unfold tallyAcc
  rw [exVoteLoop h1]
  simp [Res.bind, exAcc1, exAcc, valLoop, valStep, p0, hP]
  decide

theorem exTally (h1 : Dec.ofString? "1" = some ⟨PREC⟩) : tally exStk exVotes = .ok [(0, 60), (1, 30)] := by
  unfold tally
  rw [exTallyAcc h1]
  rfl

/-- the instance satisfies every hypothesis of `each_token_once_any_rate`, so the theorem applies to it … -/
example (h1 : Dec.ofString? "1" = some ⟨PREC⟩) : sumCounts [(0, 60), (1, 30)] ≤ exStk.totalBonded := by
  have p0 : parseWeights [⟨0, "1"⟩] = some [(0, ⟨PREC⟩)] := by simp [parseWeights, h1]
  have p1 : parseWeights [⟨1, "1"⟩] = some [(1, ⟨PREC⟩)] := by simp [parseWeights, h1]
  refine each_token_once_any_rate (stk := exStk) (votes := exVotes) ⟨by decide, by decide⟩ ?_ ?_ (by decide) ?_
    (by decide) (exTally h1)
  · intro v hv
    simp only [exVotes, List.mem_cons, List.not_mem_nil, or_false] at hv
    rcases hv with rfl | rfl
    · exact ⟨_, p1, by decide, by decide⟩
    · exact ⟨_, p0, by decide, by decide⟩
  · intro a1 ha1
    rw [exVoteLoop h1, Res.ok.injEq] at ha1
    subst ha1
    decide
  · intro a ha
    rw [exTallyAcc h1, Res.ok.injEq] at ha
    subst ha
    decide

/-- … and its conclusion is what direct evaluation gives: counts 60 + 30 = 90 ≤ 91 bonded tokens -/
example (h1 : Dec.ofString? "1" = some ⟨PREC⟩) :
    ∃ counts, tally exStk exVotes = .ok counts ∧ sumCounts counts = 90 ∧ sumCounts counts ≤ exStk.totalBonded :=
  ⟨_, exTally h1, by decide, by decide⟩

/-- the rounding term of `total_power_le_bonded_any_rate` is needed: a validator with 20 tokens for 3 shares held by
    three voters (1 share each) hands out 3 × 6.666666666666666667 = 20.000000000000000001 > 20 -/
example : 3 * (Gauge.power ⟨PREC⟩ 20 ⟨3 * PREC⟩).raw = 20 * PREC + 1 := by decide

end Sunrise.C17

#print axioms Sunrise.C17.total_power_le_bonded_any_rate
#print axioms Sunrise.C17.each_token_once_any_rate
