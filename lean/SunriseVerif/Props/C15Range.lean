import SunriseVerif.Lemmas.Dec
import SunriseVerif.Gen.KernelsCL
import SunriseVerif.Gen.KernelsSwap
import Mathlib.Tactic.Linarith
import Mathlib.Tactic.NormNum
/-!
C15 / C01 — range assertions of cosmossdk.io/math (`LegacyDec`: |raw| < 2^256·10^18, "Int overflow"; `math.Int`: |i| < 2^256).

The translator emits next to every kernel `f` a guard `f_rng` = conjunction, along the path taken, of the library's range
assertion on every intermediate result (`Dec.inRng`, `Int256.inRange`, …; `Model/Dec.lean`).  The kernel differential ties
`f_rng` to the Go functions (Go panics with a range assertion ⇔ `f_ok ∧ ¬ f_rng` on operands on both sides of each bound).

Here: for the kernels of x/liquiditypool and x/swap that user messages and block hooks reach, `f_rng` holds for ALL arguments
inside an explicit input box — no range panic inside the box — by bounding magnitudes (no sampling); and, where a kernel CAN
overflow inside a natural box, a concrete witness (`decide`).  These witnesses are the inputs behind known finding C15-K3
(`dec_overflow`).

Boxes (raw = value·10^18):
* `PriceBox p`   : `MinSqrtPrice ≤ p ≤ MaxSqrtPrice` (the REGENERATED constants: 10^-18 … 10^19)
* `PriceBoxLo p` : `MinSqrtPrice ≤ p ≤ 10^9` (spot price ≤ 10^18)
* `LiqBox l`     : `0 ≤ l.raw ≤ 2^250` (liquidity ≤ 2^250/10^18 ≈ 1.8·10^57)
* `AmtDec x`     : `0 ≤ x.raw ≤ 2^128·10^18` (a token amount < 2^128 carried as a decimal)
* `AmtInt n`     : `0 ≤ n ≤ 2^128`
* `FeeBox f`     : `0 ≤ f < 1`
-/
namespace Sunrise.C15Range
open Sunrise Sunrise.Dec Sunrise.Gen.KernelsCL Sunrise.Gen.KernelsSwap

/-! ### magnitude lemmas -/

theorem RANGE_pos : (0:Int) < RANGE := by decide

theorem inRng_of_nonneg (d : Dec) (h0 : 0 ≤ d.raw) (h : d.raw < RANGE) : d.inRng = true := by
  have := RANGE_pos
  unfold Dec.inRng
  exact decide_eq_true ⟨by omega, h⟩

theorem inRng_of_abs (d : Dec) (B : Int) (hlo : -B ≤ d.raw) (hhi : d.raw ≤ B) (hB : B < RANGE) : d.inRng = true := by
  unfold Dec.inRng
  exact decide_eq_true ⟨by omega, by omega⟩

theorem int256_of_nonneg (i : Int) (h0 : 0 ≤ i) (h : i < Int256.LIMIT) : Int256.inRange i = true := by
  have : (0:Int) < Int256.LIMIT := by decide
  unfold Int256.inRange
  exact decide_eq_true ⟨by omega, h⟩

/-- from `m·10^18 ≤ C` to a bound on `m` -/
theorem le_of_mulP {m C : Int} (h : m * PREC ≤ C) : m ≤ C / PREC :=
  (Int.le_ediv_iff_mul_le PREC_pos).mpr h

theorem mul_bd (a b : Dec) (A B : Int) (ha : 0 ≤ a.raw) (hb : 0 ≤ b.raw) (hA : a.raw ≤ A) (hB : b.raw ≤ B) :
    0 ≤ (Dec.mul a b).raw ∧ (Dec.mul a b).raw ≤ (A * B + HALF) / PREC := by
  have hab : a.raw * b.raw ≤ A * B := Int.mul_le_mul hA hB hb (Int.le_trans ha hA)
  have h := mul_nonneg_bounds a b (Int.mul_nonneg ha hb)
  refine ⟨h.2.2, le_of_mulP ?_⟩
  have := h.1
  rw [Int.mul_comm] at this
  omega

theorem mulRoundUp_bd (a b : Dec) (A B : Int) (ha : 0 ≤ a.raw) (hb : 0 ≤ b.raw) (hA : a.raw ≤ A) (hB : b.raw ≤ B) :
    0 ≤ (Dec.mulRoundUp a b).raw ∧ (Dec.mulRoundUp a b).raw ≤ (A * B + PREC) / PREC := by
  have hab : a.raw * b.raw ≤ A * B := Int.mul_le_mul hA hB hb (Int.le_trans ha hA)
  have h := mulRoundUp_nonneg_bounds a b (Int.mul_nonneg ha hb)
  refine ⟨h.2.2, le_of_mulP ?_⟩
  have := h.2.1
  rw [Int.mul_comm] at this
  omega

theorem mulTruncate_bd (a b : Dec) (A B : Int) (ha : 0 ≤ a.raw) (hb : 0 ≤ b.raw) (hA : a.raw ≤ A) (hB : b.raw ≤ B) :
    0 ≤ (Dec.mulTruncate a b).raw ∧ (Dec.mulTruncate a b).raw ≤ (A * B) / PREC := by
  have hab : a.raw * b.raw ≤ A * B := Int.mul_le_mul hA hB hb (Int.le_trans ha hA)
  have h := mulTruncate_nonneg_bounds a b (Int.mul_nonneg ha hb)
  refine ⟨h.2.2, le_of_mulP ?_⟩
  have := h.1
  rw [Int.mul_comm] at this
  omega

/-- integer form of the `Quo` bound (`Quo` = half-even rounding of the quotient truncated at 36 decimals); same statement as
    `C02Kernel.quo_int_bounds`, repeated here so that this module depends on the regenerated kernels only -/
theorem quo_int_bounds (x d : Dec) (hx : 0 ≤ x.raw) (hd : 0 < d.raw) :
    PREC * (Dec.quo x d).raw * d.raw ≤ x.raw * PREC * PREC + HALF * d.raw
    ∧ x.raw * PREC * PREC < PREC * (Dec.quo x d).raw * d.raw + HALF * d.raw + d.raw
    ∧ 0 ≤ (Dec.quo x d).raw := by
  have hn : 0 ≤ x.raw * PREC * PREC := Int.mul_nonneg (Int.mul_nonneg hx (by decide)) (by decide)
  unfold Dec.quo
  simp only [tquo_nonneg_eq hn (Int.le_of_lt hd)]
  generalize hN : x.raw * PREC * PREC = N at hn ⊢
  have hT0 : 0 ≤ N / d.raw := Int.ediv_nonneg hn (Int.le_of_lt hd)
  have hm := Int.emod_nonneg N (Int.ne_of_gt hd)
  have hm2 := Int.emod_lt_of_pos N hd
  have hdm := Int.mul_ediv_add_emod N d.raw
  have hR := chopRound_nonneg_bounds (N / d.raw) hT0
  generalize N / d.raw = T at *
  generalize chopRound T = R at *
  have e1 : PREC * R * d.raw ≤ (T + HALF) * d.raw := Int.mul_le_mul_of_nonneg_right hR.1 (Int.le_of_lt hd)
  have e2 : T * d.raw ≤ (PREC * R + HALF) * d.raw := Int.mul_le_mul_of_nonneg_right hR.2.1 (Int.le_of_lt hd)
  refine ⟨?_, ?_, hR.2.2⟩ <;> nlinarith

/-- relational bound of `Quo`: if `x·10^18 ≤ d·M` then `x/d ≤ M` (non-negative `x`, positive `d`) -/
theorem quo_rel (x d : Dec) (M : Int) (hx : 0 ≤ x.raw) (hd : 0 < d.raw) (hM : x.raw * PREC ≤ d.raw * M) :
    0 ≤ (Dec.quo x d).raw ∧ (Dec.quo x d).raw ≤ M := by
  have h := quo_int_bounds x d hx hd
  refine ⟨h.2.2, ?_⟩
  by_contra hc
  have hc' : M + 1 ≤ (Dec.quo x d).raw := by omega
  have h1 : (M + 1) * d.raw ≤ (Dec.quo x d).raw * d.raw := Int.mul_le_mul_of_nonneg_right hc' (Int.le_of_lt hd)
  have hP : (0:Int) < PREC := PREC_pos
  have hH : HALF * 2 = PREC := by decide
  nlinarith [h.1, Int.mul_le_mul_of_nonneg_right h1 (Int.le_of_lt hP), Int.mul_le_mul_of_nonneg_right hM (Int.le_of_lt hP)]

/-- crude bound of `Quo` by a positive divisor (≥ one raw unit) -/
theorem quo_crude (x d : Dec) (A : Int) (hx : 0 ≤ x.raw) (hA : x.raw ≤ A) (hd : 0 < d.raw) :
    0 ≤ (Dec.quo x d).raw ∧ (Dec.quo x d).raw ≤ A * PREC := by
  apply quo_rel x d (A * PREC) hx hd
  have h1 : x.raw * PREC ≤ A * PREC := Int.mul_le_mul_of_nonneg_right hA (Int.le_of_lt PREC_pos)
  have h2 : 0 ≤ A * PREC := Int.mul_nonneg (Int.le_trans hx hA) (Int.le_of_lt PREC_pos)
  have h3 : 1 * (A * PREC) ≤ d.raw * (A * PREC) := Int.mul_le_mul_of_nonneg_right (by omega) h2
  omega

theorem quoRoundUp_rel (x d : Dec) (M : Int) (hx : 0 ≤ x.raw) (hd : 0 < d.raw) (hM : x.raw * PREC ≤ d.raw * M) :
    0 ≤ (Dec.quoRoundUp x d).raw ∧ (Dec.quoRoundUp x d).raw ≤ M := by
  have h := quoRoundUp_pos_bounds x d hx hd
  refine ⟨h.2.2, ?_⟩
  by_contra hc
  have hc' : M + 1 ≤ (Dec.quoRoundUp x d).raw := by omega
  have h1 : (M + 1) * d.raw ≤ (Dec.quoRoundUp x d).raw * d.raw := Int.mul_le_mul_of_nonneg_right hc' (Int.le_of_lt hd)
  nlinarith [h.2.1]

theorem quoRoundUp_crude (x d : Dec) (A : Int) (hx : 0 ≤ x.raw) (hA : x.raw ≤ A) (hd : 0 < d.raw) :
    0 ≤ (Dec.quoRoundUp x d).raw ∧ (Dec.quoRoundUp x d).raw ≤ A * PREC := by
  apply quoRoundUp_rel x d (A * PREC) hx hd
  have h1 : x.raw * PREC ≤ A * PREC := Int.mul_le_mul_of_nonneg_right hA (Int.le_of_lt PREC_pos)
  have h2 : 0 ≤ A * PREC := Int.mul_nonneg (Int.le_trans hx hA) (Int.le_of_lt PREC_pos)
  have h3 : 1 * (A * PREC) ≤ d.raw * (A * PREC) := Int.mul_le_mul_of_nonneg_right (by omega) h2
  omega

theorem quoTruncate_crude (x d : Dec) (A : Int) (hx : 0 ≤ x.raw) (hA : x.raw ≤ A) (hd : 0 < d.raw) :
    0 ≤ (Dec.quoTruncate x d).raw ∧ (Dec.quoTruncate x d).raw ≤ A * PREC := by
  have h := quoTruncate_pos_bounds x d hx hd
  refine ⟨h.2.2, ?_⟩
  have h1 : x.raw * PREC ≤ A * PREC := Int.mul_le_mul_of_nonneg_right hA (Int.le_of_lt PREC_pos)
  have h2 : (Dec.quoTruncate x d).raw * 1 ≤ (Dec.quoTruncate x d).raw * d.raw :=
    Int.mul_le_mul_of_nonneg_left (by omega) h.2.2
  omega

theorem ceil_bd (a : Dec) (A : Int) (ha : 0 ≤ a.raw) (hA : a.raw ≤ A) :
    0 ≤ (Dec.ceil a).raw ∧ (Dec.ceil a).raw ≤ A + PREC := by
  have h := ceil_nonneg_bounds a ha
  constructor <;> omega

theorem truncateInt_bd (a : Dec) (ha : 0 ≤ a.raw) :
    0 ≤ Dec.truncateInt a ∧ Dec.truncateInt a * PREC ≤ a.raw := by
  have h := truncateInt_nonneg_bounds a ha
  refine ⟨h.2.2, ?_⟩
  have := h.1
  rw [Int.mul_comm] at this
  exact this


/-! ### boxes -/

local notation "P37" => (10000000000000000000000000000000000000 : Int)
local notation "P27" => (1000000000000000000000000000 : Int)
local notation "L250" => (1809251394333065553493296640760748560207343510400633813116524750123642650624 : Int)
local notation "AD" => (340282366920938463463374607431768211456000000000000000000 : Int)
local notation "A128" => (340282366920938463463374607431768211456 : Int)
local notation "N196" => (100433627766186892221372630771322662657637687111424552206336 : Int)
local notation "I256M" => (115792089237316195423570985008687907853269984665640564039457584007913129639935000000000000000000 : Int)

/-- sqrt price within the pool's own bounds (the regenerated constants, see `priceBox_consts`) -/
abbrev PriceBox (p : Dec) : Prop := 1 ≤ p.raw ∧ p.raw ≤ P37
/-- sqrt price ≤ 10^9 (spot price ≤ 10^18) -/
abbrev PriceBoxLo (p : Dec) : Prop := 1 ≤ p.raw ∧ p.raw ≤ P27
/-- liquidity: `0 ≤ raw ≤ 2^250` -/
abbrev LiqBox (l : Dec) : Prop := 0 ≤ l.raw ∧ l.raw ≤ L250
/-- a token amount `≤ 2^128` carried as a decimal -/
abbrev AmtDec (x : Dec) : Prop := 0 ≤ x.raw ∧ x.raw ≤ AD
/-- a token amount `< 2^128` -/
abbrev AmtInt (n : Int) : Prop := 0 ≤ n ∧ n < A128
/-- a fee rate in `[0, 1)` -/
abbrev FeeBox (f : Dec) : Prop := 0 ≤ f.raw ∧ f.raw < PREC

/-- the price box IS `[MinSqrtPrice, MaxSqrtPrice]` of x/liquiditypool/types/constants.go (regenerated) -/
theorem priceBox_consts (p : Dec) : PriceBox p ↔ (MinSqrtPrice.raw ≤ p.raw ∧ p.raw ≤ MaxSqrtPrice.raw) := Iff.rfl

theorem PriceBoxLo.toBox {p : Dec} (h : PriceBoxLo p) : PriceBox p := ⟨h.1, by have := h.2; omega⟩

/-- the package-level constants pass their own range assertions (a failure would panic at init) -/
theorem consts_in_range : Multiplier_rng = true ∧ MaxMultipliedSpotPrice_rng = true ∧ MinMultipliedSpotPrice_rng = true := by decide

/-! ### x/liquiditypool/types/math.go -/

theorem sub_box (a b : Dec) (ha : PriceBox a) (hb : PriceBox b) :
    (Dec.sub b a).inRng = true ∧ -P37 ≤ (Dec.sub b a).raw ∧ (Dec.sub b a).raw ≤ P37 := by
  obtain ⟨a1, a2⟩ := ha; obtain ⟨b1, b2⟩ := hb
  have h1 : -P37 ≤ (Dec.sub b a).raw := by simp only [Dec.sub]; omega
  have h2 : (Dec.sub b a).raw ≤ P37 := by simp only [Dec.sub]; omega
  exact ⟨inRng_of_abs _ P37 h1 h2 (by decide), h1, h2⟩

/-- `CalcAmountQuoteDelta` (both rounding modes): no range assertion fires for any prices in the pool's price box and
    any liquidity up to 2^250 raw. -/
theorem quoteDelta_in_range (liq a b : Dec) (ru : Bool) (ha : PriceBox a) (hb : PriceBox b) (hl : LiqBox liq) :
    CalcAmountQuoteDelta_rng liq a b ru = true := by
  obtain ⟨hs, hs1, hs2⟩ := sub_box a b ha hb
  have hd0 := abs_raw_nonneg (Dec.sub b a)
  have hdB : (Dec.abs (Dec.sub b a)).raw ≤ P37 := by
    rcases abs_raw_cases (Dec.sub b a) with h | h <;> rw [h] <;> omega
  have hm := mul_bd _ liq P37 L250 hd0 hl.1 hdB hl.2
  have hmr : (Dec.mul (Dec.abs (Dec.sub b a)) liq).inRng = true :=
    inRng_of_nonneg _ hm.1 (Int.lt_of_le_of_lt hm.2 (by decide))
  have hc := ceil_bd _ _ hm.1 hm.2
  have hcr : (Dec.ceil (Dec.mul (Dec.abs (Dec.sub b a)) liq)).inRng = true :=
    inRng_of_nonneg _ hc.1 (Int.lt_of_le_of_lt hc.2 (by decide))
  unfold CalcAmountQuoteDelta_rng
  cases ru <;> simp [hs, hmr, hcr]

/-- the ordered core of `CalcAmountBaseDelta`: `diff·liq / pb / pa` with `pa ≤ pb`; the first quotient is bounded by the
    liquidity itself because `diff ≤ pb` -/
theorem baseDelta_core (liq pa pb : Dec) (hpa : PriceBox pa) (hpb : PriceBox pb) (hle : pa.raw ≤ pb.raw) (hl : LiqBox liq) :
    (Dec.sub pb pa).inRng = true ∧ (Dec.mul (Dec.sub pb pa) liq).inRng = true
    ∧ (Dec.quo (Dec.mul (Dec.sub pb pa) liq) pb).inRng = true
    ∧ (Dec.quo (Dec.quo (Dec.mul (Dec.sub pb pa) liq) pb) pa).inRng = true
    ∧ (Dec.ceil (Dec.quo (Dec.quo (Dec.mul (Dec.sub pb pa) liq) pb) pa)).inRng = true := by
  obtain ⟨hs, _, hs2⟩ := sub_box pa pb hpa hpb
  obtain ⟨a1, a2⟩ := hpa; obtain ⟨b1, b2⟩ := hpb; obtain ⟨l0, l1⟩ := hl
  have hd0 : 0 ≤ (Dec.sub pb pa).raw := by simp only [Dec.sub]; omega
  have hdp : (Dec.sub pb pa).raw ≤ pb.raw := by simp only [Dec.sub]; omega
  have hm := mul_bd _ liq P37 L250 hd0 l0 hs2 l1
  have hmr : (Dec.mul (Dec.sub pb pa) liq).inRng = true := inRng_of_nonneg _ hm.1 (Int.lt_of_le_of_lt hm.2 (by decide))
  -- first quotient: m·10^18 ≤ diff·liq + HALF ≤ pb·(L + HALF)
  have hmb := mul_nonneg_bounds (Dec.sub pb pa) liq (Int.mul_nonneg hd0 l0)
  have hprod : (Dec.sub pb pa).raw * liq.raw ≤ pb.raw * L250 := Int.mul_le_mul hdp l1 l0 (by omega)
  have hH : (0:Int) ≤ HALF := by decide
  have hhalf : 1 * HALF ≤ pb.raw * HALF := Int.mul_le_mul_of_nonneg_right b1 hH
  have hrel : (Dec.mul (Dec.sub pb pa) liq).raw * PREC ≤ pb.raw * (L250 + HALF) := by
    have := hmb.1
    rw [Int.mul_comm] at this
    rw [Int.mul_add]; omega
  have hq1 := quo_rel (Dec.mul (Dec.sub pb pa) liq) pb (L250 + HALF) hm.1 (by omega) hrel
  have hq1r := inRng_of_nonneg _ hq1.1 (Int.lt_of_le_of_lt hq1.2 (by decide))
  have hq2 := quo_crude _ pa (L250 + HALF) hq1.1 hq1.2 (by omega)
  have hq2r := inRng_of_nonneg _ hq2.1 (Int.lt_of_le_of_lt hq2.2 (by decide))
  have hc := ceil_bd _ _ hq2.1 hq2.2
  have hcr := inRng_of_nonneg _ hc.1 (Int.lt_of_le_of_lt hc.2 (by decide))
  exact ⟨hs, hmr, hq1r, hq2r, hcr⟩

/-- `CalcAmountBaseDelta` (both rounding modes, either argument order): no range assertion fires for any prices in the pool's
    price box `[10^-18, 10^19]` and any liquidity up to 2^250 raw (≈ 1.8·10^57). -/
theorem baseDelta_in_range (liq a b : Dec) (ru : Bool) (ha : PriceBox a) (hb : PriceBox b) (hl : LiqBox liq) :
    CalcAmountBaseDelta_rng liq a b ru = true := by
  unfold CalcAmountBaseDelta_rng
  by_cases h : a.raw > b.raw
  · obtain ⟨h1, h2, h3, h4, h5⟩ := baseDelta_core liq b a hb ha (by omega) hl
    cases ru <;> simp [Dec.gt, h, h1, h2, h3, h4, h5]
  · obtain ⟨h1, h2, h3, h4, h5⟩ := baseDelta_core liq a b ha hb (by omega) hl
    cases ru <;> simp [Dec.gt, h, h1, h2, h3, h4, h5]

theorem ofInt_amt (n : Int) (h : AmtInt n) : 0 ≤ (Dec.ofInt n).raw ∧ (Dec.ofInt n).raw ≤ AD := by
  obtain ⟨h0, h1⟩ := h
  simp only [Dec.ofInt, PREC_eq]
  constructor <;> omega

theorem liquidityQuote_core (amount : Int) (pa pb : Dec) (hpa : PriceBox pa) (hpb : PriceBox pb) (hle : pa.raw ≤ pb.raw)
    (hn : AmtInt amount) :
    (Dec.sub pb pa).inRng = true ∧ ((Dec.sub pb pa).isZero = false → (Dec.quo (Dec.ofInt amount) (Dec.sub pb pa)).inRng = true) := by
  obtain ⟨hs, _, _⟩ := sub_box pa pb hpa hpb
  refine ⟨hs, fun hz => ?_⟩
  have hd : 0 < (Dec.sub pb pa).raw := by
    have : (Dec.sub pb pa).raw ≠ 0 := by simpa [Dec.isZero] using hz
    have : 0 ≤ (Dec.sub pb pa).raw := by simp only [Dec.sub]; omega
    omega
  obtain ⟨o0, o1⟩ := ofInt_amt amount hn
  have hq := quo_crude (Dec.ofInt amount) _ AD o0 o1 hd
  exact inRng_of_nonneg _ hq.1 (Int.lt_of_le_of_lt hq.2 (by decide))

/-- `LiquidityQuote`: amounts `< 2^128`, any prices of the pool's price box, either order -/
theorem liquidityQuote_in_range (amount : Int) (a b : Dec) (ha : PriceBox a) (hb : PriceBox b) (hn : AmtInt amount) :
    LiquidityQuote_rng amount a b = true := by
  unfold LiquidityQuote_rng
  by_cases h : a.raw > b.raw
  · obtain ⟨h1, h2⟩ := liquidityQuote_core amount b a hb ha (by omega) hn
    by_cases hz : (Dec.sub a b).isZero = true
    · simp [Dec.gt, h, h1, hz]
    · simp [Dec.gt, h, h1, hz, h2 (by simpa using hz)]
  · obtain ⟨h1, h2⟩ := liquidityQuote_core amount a b ha hb (by omega) hn
    by_cases hz : (Dec.sub b a).isZero = true
    · simp [Dec.gt, h, h1, hz]
    · simp [Dec.gt, h, h1, hz, h2 (by simpa using hz)]

theorem liquidityBase_core (amount : Int) (pa pb : Dec) (hpa : PriceBoxLo pa) (hpb : PriceBoxLo pb) (hle : pa.raw ≤ pb.raw)
    (hn : AmtInt amount) :
    (Dec.mul pa pb).inRng = true ∧ (Dec.sub pb pa).inRng = true ∧
    ((Dec.sub pb pa).isZero = false →
      (Dec.mul (Dec.ofInt amount) (Dec.mul pa pb)).inRng = true ∧
      (Dec.quo (Dec.mul (Dec.ofInt amount) (Dec.mul pa pb)) (Dec.sub pb pa)).inRng = true) := by
  obtain ⟨hs, _, _⟩ := sub_box pa pb hpa.toBox hpb.toBox
  obtain ⟨a1, a2⟩ := hpa; obtain ⟨b1, b2⟩ := hpb
  have hp := mul_bd pa pb P27 P27 (by omega) (by omega) a2 b2
  have hpr := inRng_of_nonneg _ hp.1 (Int.lt_of_le_of_lt hp.2 (by decide))
  refine ⟨hpr, hs, fun hz => ?_⟩
  have hd : 0 < (Dec.sub pb pa).raw := by
    have : (Dec.sub pb pa).raw ≠ 0 := by simpa [Dec.isZero] using hz
    have : 0 ≤ (Dec.sub pb pa).raw := by simp only [Dec.sub]; omega
    omega
  obtain ⟨o0, o1⟩ := ofInt_amt amount hn
  have hm := mul_bd (Dec.ofInt amount) (Dec.mul pa pb) AD ((P27 * P27 + HALF) / PREC) o0 hp.1 o1 hp.2
  have hmr := inRng_of_nonneg _ hm.1 (Int.lt_of_le_of_lt hm.2 (by decide))
  have hq := quo_crude _ (Dec.sub pb pa) _ hm.1 hm.2 hd
  exact ⟨hmr, inRng_of_nonneg _ hq.1 (Int.lt_of_le_of_lt hq.2 (by decide))⟩

/-- `LiquidityBase`: amounts `< 2^128`, sqrt prices in `[10^-18, 10^9]`, either order, ANY gap between the prices.
    With the pool's full price box it overflows: `liquidityBase_overflows_in_price_box`. -/
theorem liquidityBase_in_range (amount : Int) (a b : Dec) (ha : PriceBoxLo a) (hb : PriceBoxLo b) (hn : AmtInt amount) :
    LiquidityBase_rng amount a b = true := by
  unfold LiquidityBase_rng
  by_cases h : a.raw > b.raw
  · obtain ⟨h0, h1, h2⟩ := liquidityBase_core amount b a hb ha (by omega) hn
    by_cases hz : (Dec.sub a b).isZero = true
    · simp [Dec.gt, h, h0, h1, hz]
    · obtain ⟨h3, h4⟩ := h2 (by simpa using hz)
      simp [Dec.gt, h, h0, h1, hz, h3, h4]
  · obtain ⟨h0, h1, h2⟩ := liquidityBase_core amount a b ha hb (by omega) hn
    by_cases hz : (Dec.sub b a).isZero = true
    · simp [Dec.gt, h, h0, h1, hz]
    · obtain ⟨h3, h4⟩ := h2 (by simpa using hz)
      simp [Dec.gt, h, h0, h1, hz, h3, h4]

/-- `GetLiquidityFromAmounts` (MsgCreatePosition / MsgIncreaseLiquidity): every path, amounts `< 2^128`, prices in `[10^-18, 10^9]` -/
theorem getLiquidityFromAmounts_in_range (p a b : Dec) (x y : Int) (hp : PriceBoxLo p) (ha : PriceBoxLo a) (hb : PriceBoxLo b)
    (hx : AmtInt x) (hy : AmtInt y) : GetLiquidityFromAmounts_rng p a b x y = true := by
  unfold GetLiquidityFromAmounts_rng
  have B := fun (u v : Dec) (hu : PriceBoxLo u) (hv : PriceBoxLo v) => liquidityBase_in_range x u v hu hv hx
  have Q := fun (u v : Dec) (hu : PriceBoxLo u) (hv : PriceBoxLo v) => liquidityQuote_in_range y u v hu.toBox hv.toBox hy
  simp [B b a hb ha, B p a hp ha, Q p b hp hb, Q a b ha hb, B a b ha hb, B p b hp hb, Q p a hp ha, Q b a hb ha]

theorem square_in_range (p : Dec) (hp : PriceBox p) : SquareRoundUp_rng p = true ∧ SquareTruncate_rng p = true := by
  obtain ⟨p1, p2⟩ := hp
  have h1 := mulRoundUp_bd p p P37 P37 (by omega) (by omega) p2 p2
  have h2 := mulTruncate_bd p p P37 P37 (by omega) (by omega) p2 p2
  unfold SquareRoundUp_rng SquareTruncate_rng
  simp [inRng_of_nonneg _ h1.1 (Int.lt_of_le_of_lt h1.2 (by decide)), inRng_of_nonneg _ h2.1 (Int.lt_of_le_of_lt h2.2 (by decide))]

/-! ### next-price formulas of the swap step -/

/-- base in: the quotient is bounded by the current price (`denominator ≥ liquidity`), so nothing overflows for amounts
    `≤ 2^128`, positive liquidity `≤ 2^250`, any price of the box -/
theorem nextBaseIn_in_range (cur liq amt : Dec) (hc : PriceBox cur) (hl : LiqBox liq) (hl0 : 0 < liq.raw) (ha : AmtDec amt) :
    GetNextSqrtPriceFromAmountBaseInRoundingUp_rng cur liq amt = true := by
  obtain ⟨c1, c2⟩ := hc; obtain ⟨l0, l1⟩ := hl; obtain ⟨a0, a1⟩ := ha
  have hp := mulTruncate_bd amt cur AD P37 a0 (by omega) a1 c2
  have hpr := inRng_of_nonneg _ hp.1 (Int.lt_of_le_of_lt hp.2 (by decide))
  have hden0 : 0 < (Dec.add (Dec.mulTruncate amt cur) liq).raw := by simp only [Dec.add]; omega
  have hdenl : liq.raw ≤ (Dec.add (Dec.mulTruncate amt cur) liq).raw := by simp only [Dec.add]; omega
  have hdenB : (Dec.add (Dec.mulTruncate amt cur) liq).raw ≤ (AD * P37) / PREC + L250 := by simp only [Dec.add]; omega
  have hdr := inRng_of_nonneg _ (Int.le_of_lt hden0) (Int.lt_of_le_of_lt hdenB (by decide))
  have hn := mulRoundUp_bd liq cur L250 P37 l0 (by omega) l1 c2
  have hnr := inRng_of_nonneg _ hn.1 (Int.lt_of_le_of_lt hn.2 (by decide))
  have hnb := mulRoundUp_nonneg_bounds liq cur (Int.mul_nonneg l0 (by omega))
  -- num·10^18 < liq·cur + 10^18 ≤ den·cur + den·10^18
  have h1 : liq.raw * cur.raw ≤ (Dec.add (Dec.mulTruncate amt cur) liq).raw * cur.raw :=
    Int.mul_le_mul_of_nonneg_right hdenl (by omega)
  have h2 : 1 * PREC ≤ (Dec.add (Dec.mulTruncate amt cur) liq).raw * PREC :=
    Int.mul_le_mul_of_nonneg_right (by omega) (Int.le_of_lt PREC_pos)
  have h3 : (Dec.add (Dec.mulTruncate amt cur) liq).raw * cur.raw ≤ (Dec.add (Dec.mulTruncate amt cur) liq).raw * P37 :=
    Int.mul_le_mul_of_nonneg_left c2 (Int.le_of_lt hden0)
  have hrel : (Dec.mulRoundUp liq cur).raw * PREC ≤ (Dec.add (Dec.mulTruncate amt cur) liq).raw * (P37 + PREC) := by
    have := hnb.2.1
    rw [Int.mul_comm] at this
    rw [Int.mul_add]; omega
  have hq := quoRoundUp_rel (Dec.mulRoundUp liq cur) _ (P37 + PREC) hn.1 hden0 hrel
  have hqr := inRng_of_nonneg _ hq.1 (Int.lt_of_le_of_lt hq.2 (by decide))
  unfold GetNextSqrtPriceFromAmountBaseInRoundingUp_rng
  by_cases hz : amt.isZero = true <;> simp [hz, hpr, hdr, hnr, hqr]

theorem nextQuoteIn_in_range (cur liq amt : Dec) (hc : PriceBox cur) (hl0 : 0 < liq.raw) (ha : AmtDec amt) :
    GetNextSqrtPriceFromAmountQuoteInRoundingDown_rng cur liq amt = true := by
  obtain ⟨c1, c2⟩ := hc; obtain ⟨a0, a1⟩ := ha
  have hq := quoTruncate_crude amt liq AD a0 a1 hl0
  have hqr := inRng_of_nonneg _ hq.1 (Int.lt_of_le_of_lt hq.2 (by decide))
  have hs0 : 0 ≤ (Dec.add (Dec.quoTruncate amt liq) cur).raw := by simp only [Dec.add]; omega
  have hsB : (Dec.add (Dec.quoTruncate amt liq) cur).raw ≤ AD * PREC + P37 := by simp only [Dec.add]; omega
  have hsr := inRng_of_nonneg _ hs0 (Int.lt_of_le_of_lt hsB (by decide))
  unfold GetNextSqrtPriceFromAmountQuoteInRoundingDown_rng
  simp [hqr, hsr]

theorem nextQuoteOut_in_range (cur liq amt : Dec) (hc : PriceBox cur) (hl0 : 0 < liq.raw) (ha : AmtDec amt) :
    GetNextSqrtPriceFromAmountQuoteOutRoundingDown_rng cur liq amt = true := by
  obtain ⟨c1, c2⟩ := hc; obtain ⟨a0, a1⟩ := ha
  have hq := quoRoundUp_crude amt liq AD a0 a1 hl0
  have hqr := inRng_of_nonneg _ hq.1 (Int.lt_of_le_of_lt hq.2 (by decide))
  have hP : P37 ≤ AD * PREC := by decide
  have hsr : (Dec.sub cur (Dec.quoRoundUp amt liq)).inRng = true :=
    inRng_of_abs _ (AD * PREC) (by simp only [Dec.sub]; omega) (by simp only [Dec.sub]; omega) (by decide)
  unfold GetNextSqrtPriceFromAmountQuoteOutRoundingDown_rng
  simp [hqr, hsr]

/-- base out CAN overflow inside the box: amount 10^38 (< 2^128) at sqrt price 10^19 leaves ONE raw unit of the bucket's
    liquidity (10^57 + 10^-18) in the denominator; `liquidity·price / 10^-18` is 10^94 — the range assertion of `QuoRoundUp`
    fires while the divisor is not zero. -/
theorem nextBaseOut_overflows_in_box :
    PriceBox ⟨P37⟩ ∧ LiqBox ⟨1000000000000000000000000000000000000000000000000000000000000000000000000001⟩ ∧ AmtDec ⟨100000000000000000000000000000000000000000000000000000000⟩ ∧
    GetNextSqrtPriceFromAmountBaseOutRoundingUp_ok ⟨P37⟩ ⟨1000000000000000000000000000000000000000000000000000000000000000000000000001⟩ ⟨100000000000000000000000000000000000000000000000000000000⟩ = true ∧
    GetNextSqrtPriceFromAmountBaseOutRoundingUp_rng ⟨P37⟩ ⟨1000000000000000000000000000000000000000000000000000000000000000000000000001⟩ ⟨100000000000000000000000000000000000000000000000000000000⟩ = false := by
  refine ⟨by decide, by decide, by decide, by decide, by decide⟩

/-- `LiquidityBase` CAN overflow inside the pool's full price box: amount 2^80 between the two highest adjacent sqrt prices -/
theorem liquidityBase_overflows_in_price_box :
    PriceBox ⟨P37 - 1⟩ ∧ PriceBox ⟨P37⟩ ∧ AmtInt 1208925819614629174706176 ∧
    LiquidityBase_ok 1208925819614629174706176 ⟨P37 - 1⟩ ⟨P37⟩ = true ∧ LiquidityBase_rng 1208925819614629174706176 ⟨P37 - 1⟩ ⟨P37⟩ = false := by
  refine ⟨by decide, by decide, by decide, by decide, by decide⟩

/-! ### fee computations of the swap step (keeper_swap_helper.go) -/

theorem feeRatio_bd (fee : Dec) (hf : FeeBox fee) :
    getFeeRateOverOneMinusFeeRate_rng fee = true ∧ 0 ≤ (getFeeRateOverOneMinusFeeRate fee).raw
    ∧ (getFeeRateOverOneMinusFeeRate fee).raw ≤ PREC * PREC := by
  obtain ⟨f0, f1⟩ := hf
  have hs0 : 0 < (Dec.sub Dec.one fee).raw := by simp only [Dec.sub, Dec.one]; omega
  have hsB : (Dec.sub Dec.one fee).raw ≤ PREC := by simp only [Dec.sub, Dec.one]; omega
  have hsr := inRng_of_nonneg _ (Int.le_of_lt hs0) (Int.lt_of_le_of_lt hsB (by decide))
  have hq := quoRoundUp_crude fee (Dec.sub Dec.one fee) PREC f0 (Int.le_of_lt f1) hs0
  have hqr := inRng_of_nonneg _ hq.1 (Int.lt_of_le_of_lt hq.2 (by decide))
  unfold getFeeRateOverOneMinusFeeRate_rng getFeeRateOverOneMinusFeeRate
  exact ⟨by simp [hsr, hqr], hq.1, hq.2⟩

/-- `getFeeRateOverOneMinusFeeRate` for every fee rate in `[0,1)` -/
theorem feeRatio_in_range (fee : Dec) (hf : FeeBox fee) : getFeeRateOverOneMinusFeeRate_rng fee = true := (feeRatio_bd fee hf).1

theorem feeCharge_in_range (amountIn f : Dec) (ha : AmtDec amountIn) (hf0 : 0 ≤ f.raw) (hf : f.raw ≤ PREC * PREC) :
    computeFeeChargeFromInAmount_rng amountIn f = true := by
  obtain ⟨a0, a1⟩ := ha
  have h := mulRoundUp_bd amountIn f AD (PREC * PREC) a0 hf0 a1 hf
  unfold computeFeeChargeFromInAmount_rng
  simp [inRng_of_nonneg _ h.1 (Int.lt_of_le_of_lt h.2 (by decide))]

/-- the fee charge of a swap step: amounts `≤ 2^128`, any fee rate in `[0,1)` (and the non-positive rates the function
    answers without arithmetic) -/
theorem feeChargePerStep_in_range (reached : Bool) (amountIn remaining fee : Dec) (ha : AmtDec amountIn) (hr : AmtDec remaining)
    (hf : FeeBox fee) : computeFeeChargePerSwapStepOutGivenIn_rng reached amountIn remaining fee = true := by
  obtain ⟨hr1, hr2, hr3⟩ := feeRatio_bd fee hf
  have hc := feeCharge_in_range amountIn _ ha hr2 hr3
  have hs : (Dec.sub remaining amountIn).inRng = true :=
    inRng_of_abs _ AD (by have := ha.2; have := hr.1; simp only [Dec.sub]; omega)
      (by have := ha.1; have := hr.2; simp only [Dec.sub]; omega) (by decide)
  unfold computeFeeChargePerSwapStepOutGivenIn_rng
  cases reached <;> simp [hr1, hc, hs]

/-! ### x/swap: interface fee and parallel split -/

theorem ofInt_256 (n : Int) (h0 : 0 ≤ n) (h : n < Int256.LIMIT) : 0 ≤ (Dec.ofInt n).raw ∧ (Dec.ofInt n).raw ≤ I256M := by
  simp only [Dec.ofInt, PREC_eq, Int256.LIMIT] at *
  constructor <;> omega

theorem truncateInt_256 (d : Dec) (h0 : 0 ≤ d.raw) (h : d.raw < RANGE) : Int256.inRange (Dec.truncateInt d) = true := by
  have ht := truncateInt_bd d h0
  apply int256_of_nonneg _ ht.1
  by_contra hc
  have hc' : Int256.LIMIT ≤ Dec.truncateInt d := by omega
  have : Int256.LIMIT * PREC ≤ Dec.truncateInt d * PREC := Int.mul_le_mul_of_nonneg_right hc' (Int.le_of_lt PREC_pos)
  have hR : Int256.LIMIT * PREC = RANGE := by decide
  omega

/-- exact-amount-in interface fee: EVERY valid non-negative `math.Int` amount and every rate in `[0,1)` -/
theorem feeIn_net_in_range (gross : Int) (rate : Dec) (h0 : 0 ≤ gross) (h : gross < Int256.LIMIT) (hf : FeeBox rate) :
    feeIn_amountOutNet_rng gross rate = true := by
  obtain ⟨f0, f1⟩ := hf
  have hs0 : 0 ≤ (Dec.sub Dec.one rate).raw := by simp only [Dec.sub, Dec.one]; omega
  have hsB : (Dec.sub Dec.one rate).raw ≤ PREC := by simp only [Dec.sub, Dec.one]; omega
  have hsr := inRng_of_nonneg _ hs0 (Int.lt_of_le_of_lt hsB (by decide))
  obtain ⟨o0, o1⟩ := ofInt_256 gross h0 h
  have hm := mul_bd (Dec.ofInt gross) (Dec.sub Dec.one rate) I256M PREC o0 hs0 o1 hsB
  have hlt : (Dec.mul (Dec.ofInt gross) (Dec.sub Dec.one rate)).raw < RANGE := Int.lt_of_le_of_lt hm.2 (by decide)
  have hmr := inRng_of_nonneg _ hm.1 hlt
  have ht := truncateInt_256 _ hm.1 hlt
  unfold feeIn_amountOutNet_rng
  simp [hsr, hmr, ht]

theorem fee_sub_in_range (gross net : Int) (h0 : 0 ≤ net) (h1 : 0 ≤ gross) (hg : gross < Int256.LIMIT) (hn : net < Int256.LIMIT) :
    feeIn_interfaceFee_rng gross net = true ∧ feeOut_interfaceFee_rng gross net = true := by
  unfold feeIn_interfaceFee_rng feeOut_interfaceFee_rng Int256.inRange
  simp only [decide_eq_true_eq]
  constructor <;> constructor <;> omega

/-- exact-amount-out interface fee: amounts `≤ 2^196`, every rate in `[0,1)` (the divisor `1 − rate` is at least 10^-18).
    Beyond that it overflows: `feeOut_gross_overflows` — the input class of known finding C15-K3 (`dec_overflow`). -/
theorem feeOut_gross_in_range (net : Int) (rate : Dec) (h0 : 0 ≤ net) (h : net ≤ N196) (hf : FeeBox rate) :
    feeOut_amountOutGross_rng net rate = true := by
  obtain ⟨f0, f1⟩ := hf
  have hs0 : 0 < (Dec.sub Dec.one rate).raw := by simp only [Dec.sub, Dec.one]; omega
  have hsB : (Dec.sub Dec.one rate).raw ≤ PREC := by simp only [Dec.sub, Dec.one]; omega
  have hsr := inRng_of_nonneg _ (Int.le_of_lt hs0) (Int.lt_of_le_of_lt hsB (by decide))
  have o0 : 0 ≤ (Dec.ofInt net).raw := by simp only [Dec.ofInt, PREC_eq]; omega
  have o1 : (Dec.ofInt net).raw ≤ N196 * PREC := by simp only [Dec.ofInt, PREC_eq]; omega
  have hq := quo_crude (Dec.ofInt net) _ (N196 * PREC) o0 o1 hs0
  have hlt : (Dec.quo (Dec.ofInt net) (Dec.sub Dec.one rate)).raw < RANGE := Int.lt_of_le_of_lt hq.2 (by decide)
  have hqr := inRng_of_nonneg _ hq.1 hlt
  have ht := truncateInt_256 _ hq.1 hlt
  unfold feeOut_amountOutGross_rng
  simp [hsr, hqr, ht]

/-- C15-K3: `MsgSwapExactAmountOut` with `amount_out = 2^256 − 1` (a valid `math.Int`) and an interface fee of 1 %:
    `LegacyNewDecFromInt(amountOut).Quo(1 − rate)` leaves the decimal range — the handler panics instead of returning an error;
    the same with 2^200 and the largest admissible rate -/
theorem feeOut_gross_overflows :
    (feeOut_amountOutGross_ok 115792089237316195423570985008687907853269984665640564039457584007913129639935 ⟨10000000000000000⟩ = true ∧ feeOut_amountOutGross_rng 115792089237316195423570985008687907853269984665640564039457584007913129639935 ⟨10000000000000000⟩ = false)
    ∧ (feeOut_amountOutGross_ok 1606938044258990275541962092341162602522202993782792835301376 ⟨PREC - 1⟩ = true ∧ feeOut_amountOutGross_rng 1606938044258990275541962092341162602522202993782792835301376 ⟨PREC - 1⟩ = false) := by
  refine ⟨⟨by decide, by decide⟩, ⟨by decide, by decide⟩⟩

/-- parallel split share `weight·amount / weightSum`: amounts `< 2^128`, weights `≤ 2^128` with `weight ≤ weightSum` -/
theorem split_share_in_range (w ws : Dec) (amount : Int) (hw0 : 0 ≤ w.raw) (hw : w.raw ≤ AD) (hle : w.raw ≤ ws.raw) (hws : 0 < ws.raw)
    (hn : AmtInt amount) : split_share_rng w amount ws = true := by
  obtain ⟨n0, n1⟩ := hn
  have hm0 : 0 ≤ (Dec.mulInt w amount).raw := by simp only [Dec.mulInt]; exact Int.mul_nonneg hw0 n0
  have hmB : (Dec.mulInt w amount).raw ≤ AD * (A128 - 1) := by
    simp only [Dec.mulInt]; exact Int.mul_le_mul hw (by omega) n0 (by omega)
  have hmr := inRng_of_nonneg _ hm0 (Int.lt_of_le_of_lt hmB (by decide))
  have hrel : (Dec.mulInt w amount).raw * PREC ≤ ws.raw * (A128 * PREC) := by
    simp only [Dec.mulInt]
    have h1 : w.raw * amount ≤ ws.raw * A128 := Int.mul_le_mul hle (by omega) n0 (by omega)
    have := Int.mul_le_mul_of_nonneg_right h1 (Int.le_of_lt PREC_pos)
    rw [Int.mul_assoc ws.raw] at this
    exact this
  have hq := quo_rel (Dec.mulInt w amount) ws (A128 * PREC) hm0 hws hrel
  have hlt : (Dec.quo (Dec.mulInt w amount) ws).raw < RANGE := Int.lt_of_le_of_lt hq.2 (by decide)
  have hqr := inRng_of_nonneg _ hq.1 hlt
  have ht := truncateInt_256 _ hq.1 hlt
  unfold split_share_rng
  simp [hmr, hqr, ht]

/-! ### non-vacuity -/
example : CalcAmountBaseDelta_rng ⟨1000000000000000000000⟩ ⟨1000000000000000000⟩ ⟨2000000000000000000⟩ true = true := by decide
example : PriceBox ⟨1000000000000000000⟩ ∧ LiqBox ⟨1000000000000000000000⟩ ∧ AmtDec ⟨5⟩ ∧ AmtInt 7 ∧ FeeBox ⟨3000000000000000⟩ := by
  refine ⟨by decide, by decide, by decide, by decide, by decide⟩
/-- `f_rng` is not vacuous: it is false just outside the box -/
example : CalcAmountQuoteDelta_rng ⟨115792089237316195423570985008687907853269984665640564039457584007913129639936⟩ ⟨1⟩ ⟨P37⟩ false = false := by decide

end Sunrise.C15Range
