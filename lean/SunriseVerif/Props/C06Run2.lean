import SunriseVerif.Props.C06Run
import SunriseVerif.Props.C02Refine
import SunriseVerif.Props.C03Pool
import Std.Data.String.ToNat

/-!
C06 (assembly over histories, continued) — removes the exclusions of `Props/C06Run.lean` (one pool, no first / last
position).  A theorem about the store-level model `Model/CL.lean` ALONE.

PROVED
1.  FRAME.  `Fr A s s'` := the pool record, the accumulator record, every tick of pool `A`, the positions of pool `A`, their
    accumulator positions and the balance of `feesAddr A` are the same in `s` and `s'`; `absOf_frame`:
    `Fr A s s' → CLAccrual.absOf s' A d k = CLAccrual.absOf s A d k`; `accrualOK_frame`.
    `Fr A s s'` for EVERY message addressed to another pool `B ≠ A`: `collectFees_fr`, `allocateIncentive_fr`,
    `decreaseLiquidity_fr` (partial / full / pool reset), `createPosition_fr` (live pool or first position of `B`),
    `increaseLiquidity_fr`, `swapExactIn_fr`, `swapExactOut_fr` (`swapLoop_other`: induction over the loop), and
    `createPool_fr`; cores: `updatePosition_fr`, `upsertTick_other`, `updatePoolForSwap_inv_bank`.
    `feesAddr` is injective (`feesAddr_inj`, from `Nat.repr_injective`) — not a hypothesis.
    `claimRewards_any_ok`: ids of positions of ANY pools mixed (removes the exclusion of `C06Msg` item 4 at this level).
2.  FIRST POSITION: `createPosition_first_ok` (`createPosition_first_eq`: first `createPosition` = price initialisation
    `setPool`, then `createPosition` on the now live pool; `first_setPool_ok`: the abstraction has no position, only the
    cursor changes).
3.  LAST POSITION: `decreaseLiquidity_last_ok` (full withdrawal of the only position, pool reset): the abstraction after
    has no position; `backed` from the invariant after the inner `collectFees` (`Σ owed ≥ 0`) and the bank frame.
    Hence `createPosition_any_ok`, `decreaseLiquidity_any_ok`, `increaseLiquidity_any_ok` (also on a pool's only position),
    `allocateIncentive_any_ok`: NO exclusion.
4.  Histories: `StepM` / `ReachM` / `accrualOK_reach_multi_partial` (`C06Run.Step` on `A` + everything on other pools);
    `StepA` / `ReachA` / `accrualOK_reachA_partial` / `store_fees_backed_all_partial`: EVERY successful message on ANY pool,
    no exclusion.
`_partial` ONLY because of the boundaries inherited from `C06Run` / C04: `C04Store.SwapBoundary s s' B` for swaps (for a
swap on another pool it is used only for `WF6` of the store after), `FeesNonneg` for `swapExactOut` on `A`, and
`sender ≠ feesAddr A` (`≠ poolAddr A` for swaps): a user account is not a module-derived account.
Non-vacuity: two-pool history from `C06Msg.exF` (createPool, first position of pool 1); history that withdraws both
positions of pool 0 (pool reset) and re-opens a first position (`exW_ok`).
-/

set_option linter.unusedVariables false
set_option linter.unusedSimpArgs false
namespace Sunrise.C06Run2
open Sunrise Sunrise.CL Sunrise.C04Refine Sunrise.C06Refine Sunrise.C06Msg Sunrise.C06Msg2 Sunrise.C06Run Sunrise.C04StoreL
open Sunrise.C05Loop (bind_ok res_ok_inj)
open Sunrise.C04Interval (err_bind ok_bind panic_bind ite_err_ok ite_ok)

/-! ## 1. frame -/

/-- what the abstraction of pool `A` reads is the same in `s` and `s'` -/
structure Fr (A : Nat) (s s' : St) : Prop where
  pool : getPool s' A = getPool s A
  accum : getAccum s' A = getAccum s A
  tick : ∀ t, findTick s' A t = findTick s A t
  poss : s'.positions.filter (·.pool == A) = s.positions.filter (·.pool == A)
  accPos : ∀ q ∈ s.positions, q.pool = A → getAccPos s' q.id = getAccPos s q.id
  bal : ∀ d, s'.bank.bal (feesAddr A) d = s.bank.bal (feesAddr A) d

theorem Fr.refl (A : Nat) (s : St) : Fr A s s := ⟨rfl, rfl, fun _ => rfl, rfl, fun _ _ _ => rfl, fun _ => rfl⟩

theorem Fr.trans {A : Nat} {a b c : St} (h1 : Fr A a b) (h2 : Fr A b c) : Fr A a c := by
  refine ⟨h2.pool.trans h1.pool, h2.accum.trans h1.accum, fun t => (h2.tick t).trans (h1.tick t),
    h2.poss.trans h1.poss, ?_, fun d => (h2.bal d).trans (h1.bal d)⟩
  intro q hq hA
  have hm : q ∈ b.positions := by
    have : q ∈ a.positions.filter (·.pool == A) := List.mem_filter.mpr ⟨hq, by simp [hA]⟩
    rw [← h1.poss] at this
    exact (List.mem_filter.mp this).1
  exact (h2.accPos q hm hA).trans (h1.accPos q hq hA)

/-- **the abstraction of pool `A` reads only what `Fr A` fixes** -/
theorem absOf_frame {A : Nat} {s s' : St} (h : Fr A s s') (d : String) (k : Int) :
    CLAccrual.absOf s' A d k = CLAccrual.absOf s A d k := by
  unfold CLAccrual.absOf
  rw [h.pool, h.accum]
  cases getPool s A with
  | none => rfl
  | some p =>
    cases getAccum s A with
    | none => rfl
    | some a =>
      simp only [h.tick, h.poss, h.bal]
      have e : ∀ q ∈ s.positions.filter (·.pool == A), getAccPos s' q.id = getAccPos s q.id := by
        intro q hq
        obtain ⟨hm, hp⟩ := List.mem_filter.mp hq
        exact h.accPos q hm (by simpa using hp)
      congr 2
      apply List.map_congr_left
      intro q hq
      rw [e q hq]

theorem accrualOK_frame {A : Nat} {s s' : St} (h : AccrualOK s A) (f : Fr A s s') (hw : WF6 s') : AccrualOK s' A := by
  obtain ⟨p, acc, hp, ha⟩ := h.ex
  obtain ⟨k, hk⟩ := h.inv
  exact ⟨hw, ⟨p, acc, by rw [f.pool]; exact hp, by rw [f.accum]; exact ha⟩,
    ⟨k, fun d b hb => hk d b (by rw [← absOf_frame f]; exact hb)⟩⟩

theorem Fr.of_core {A : Nat} {s s' : St} (c : Core s s') (ha : getAccum s' A = getAccum s A)
    (hp : ∀ q ∈ s.positions, q.pool = A → getAccPos s' q.id = getAccPos s q.id)
    (hb : ∀ d, s'.bank.bal (feesAddr A) d = s.bank.bal (feesAddr A) d) : Fr A s s' := by
  refine ⟨?_, ha, ?_, ?_, hp, hb⟩
  · unfold getPool; rw [c.1]
  · intro t; unfold findTick; rw [c.2.2.1]
  · rw [c.2.1]

/-! ### messages that leave pools / positions / ticks alone -/

theorem prepare_acc {A : Nat} {s s' : St} {posId : Nat} {c : List (String × Int)} {pos : Position} (hw : WF6 s)
    (h : prepareClaimableFees s posId = .ok (s', c)) (hpos : getPosition s posId = some pos) (hne : pos.pool ≠ A) :
    getAccum s' A = getAccum s A ∧ ∀ id, id ≠ posId → getAccPos s' id = getAccPos s id := by
  obtain ⟨pos', acc, ap, o, tot, hpos', hacc, hap, _, _, _, hcase⟩ := prepare_ok h
  rw [hpos] at hpos'
  have e := Option.some.inj hpos'; subst e
  have hm : pos ∈ s.positions := List.mem_of_find?_eq_some hpos
  have hid : pos.id = posId := getPosition_id hpos
  obtain ⟨ap', h1, _, h3⟩ := hw.shares hm
  rw [hid, hap] at h1
  have e := Option.some.inj h1; subst e
  have hz : ap.shares.isZero = false := by
    unfold Dec.isZero; simp only [beq_eq_false_iff_ne, ne_eq]; omega
  have hapId : ap.posId = posId := getAccPos_id hap
  have hpl : acc.pool = pos.pool := getAccum_pool hacc
  have hfr := claimWrite_frame s ap acc o
  have hA0 : getAccum (claimWrite s ap acc o) A = getAccum s A := getAccum_congr hfr.2.2.2.2 A
  have hP0 : ∀ id, id ≠ posId → getAccPos (claimWrite s ap acc o) id = getAccPos s id := by
    intro id hi
    rw [getAccPos_claimWrite, hapId, if_neg hi]
  rcases hcase hz with ⟨e, _⟩ | ⟨per, _, _, _, e⟩
  · subst e; exact ⟨hA0, hP0⟩
  · subst e
    refine ⟨?_, fun id hi => hP0 id hi⟩
    rw [getAccum_setAccum, if_neg (by show ¬ acc.pool = A; rw [hpl]; exact hne)]
    exact hA0

/-- FRAME: `collectFees` of a position of another pool -/
theorem collectFees_fr {A : Nat} {s s' : St} {sender : Addr} {posId : Nat} {c : List (String × Int)} {pos : Position}
    (hw : WF6 s) (hc : collectFees s sender posId = .ok (s', c)) (hpos : getPosition s posId = some pos)
    (hne : pos.pool ≠ A) (hf : feesAddr A ≠ feesAddr pos.pool) (hs : sender ≠ feesAddr A) : Fr A s s' := by
  have hbank := Sunrise.C02Refine.collectFees_bank hpos hc
  have hcore := collectFees_core hc
  have hacc : getAccum s' A = getAccum s A ∧ ∀ id, id ≠ posId → getAccPos s' id = getAccPos s id := by
    unfold collectFees at hc
    simp only [bind, pure, err_bind, ok_bind] at hc
    rw [hpos] at hc
    simp only [] at hc
    obtain ⟨_, hc⟩ := ite_err_ok hc
    obtain ⟨x, hx, hc⟩ := bind_ok hc
    have hb := prepare_acc (A := A) (s' := x.1) (c := x.2) hw hx hpos hne
    rcases ite_ok hc with ⟨_, hc⟩ | ⟨_, hc⟩
    · have e := congrArg Prod.fst (res_ok_inj hc)
      dsimp only at e; subst e; exact hb
    · obtain ⟨_, hc⟩ := ite_err_ok hc
      obtain ⟨b, hsend, hc⟩ := bind_ok hc
      have e := congrArg Prod.fst (res_ok_inj hc)
      dsimp only at e; subst e
      exact hb
  refine Fr.of_core hcore hacc.1 ?_ (fun d => hbank _ d hf (fun e => hs e.symm))
  intro q hq hA
  apply hacc.2
  intro e
  have hm : pos ∈ s.positions := List.mem_of_find?_eq_some hpos
  have := getPosition_of_mem hw.ids_nodup hq
  rw [e, hpos] at this
  have e2 := Option.some.inj this
  rw [e2] at hne
  exact hne hA

/-- FRAME: `allocateIncentive` on another pool -/
theorem allocateIncentive_fr {A B : Nat} {s s' : St} {sender : Addr} {coins : List (String × Int)}
    (hc : allocateIncentive s B sender coins = .ok s') (hne : B ≠ A) (hf : feesAddr A ≠ feesAddr B)
    (hs : sender ≠ feesAddr A) : Fr A s s' := by
  have hcore := allocateIncentive_core hc
  unfold allocateIncentive at hc
  simp only [bind, pure, err_bind, ok_bind] at hc
  split at hc
  · obtain ⟨_, hc⟩ := ite_err_ok hc
    split at hc
    · rename_i a ha
      obtain ⟨_, hc⟩ := ite_err_ok hc
      obtain ⟨_, hc⟩ := ite_err_ok hc
      obtain ⟨b, hb, hc⟩ := bind_ok hc
      obtain ⟨g, _, hc⟩ := bind_ok hc
      have e := res_ok_inj hc
      subst e
      have hpl : a.pool = B := getAccum_pool ha
      refine Fr.of_core hcore ?_ (fun _ _ _ => rfl) ?_
      · rw [getAccum_setAccum, if_neg (by show ¬ a.pool = A; rw [hpl]; exact hne)]; rfl
      · intro d
        exact Sunrise.C02Refine.sendCoins_other _ hb _ d (fun e => hs e.symm) hf
    · cases hc
  · cases hc

/-- the fee-account address of pool `A` is not the fee-account address of another pool; PROVED below (`feesInj`) -/
def FeesInj (A : Nat) : Prop := ∀ B, B ≠ A → feesAddr A ≠ feesAddr B

/-- `feesAddr` is injective (`"poolfees:" ++ Nat.repr n`, `Nat.repr_injective`) -/
theorem feesAddr_inj {a b : Nat} (h : feesAddr a = feesAddr b) : a = b := by
  unfold feesAddr at h
  simp only [toString] at h
  exact Nat.repr_injective (by simpa using h)

theorem feesInj (A : Nat) : FeesInj A := fun B hne e => hne (feesAddr_inj e).symm

/-- `collectFees` of ANY position (of the pool or of another pool) keeps `AccrualOK` of pool `A` -/
theorem collectFees_any_ok {A : Nat} {s s' : St} {sender : Addr} {posId : Nat} {c : List (String × Int)}
    (h : AccrualOK s A) (hc : collectFees s sender posId = .ok (s', c)) (hinj : FeesInj A)
    (hs : sender ≠ feesAddr A) : AccrualOK s' A := by
  cases hpos : getPosition s posId with
  | none =>
    unfold collectFees at hc
    simp only [bind, pure, err_bind, ok_bind] at hc
    rw [hpos] at hc
    cases hc
  | some pos =>
    have hm : pos ∈ s.positions := List.mem_of_find?_eq_some hpos
    have hid : pos.id = posId := getPosition_id hpos
    by_cases hA : pos.pool = A
    · have hmp : pos ∈ poolPositions s A := mem_poolPositions.mpr ⟨hm, hA⟩
      obtain ⟨i, hi⟩ := List.getElem?_of_mem hmp
      exact collectFees_ok h hc ⟨pos, hi, hid⟩ hs
    · exact accrualOK_frame h (collectFees_fr h.wf hc hpos hA (hinj _ hA) hs) (collectFees_wf6 h.wf hc)

/-- `claimRewards` over ANY list of position ids (positions of the pool and of other pools mixed) -/
theorem claimRewards_any_ok {A : Nat} {s s' : St} {sender : Addr} {ids : List Nat} {c : List (String × Int)}
    (h : AccrualOK s A) (hc : claimRewards s sender ids = .ok (s', c)) (hinj : FeesInj A)
    (hs : sender ≠ feesAddr A) : AccrualOK s' A :=
  claimRewards_fold (P := fun st => AccrualOK st A) (fun s s' id c hP hcf => collectFees_any_ok hP hcf hinj hs) h hc

theorem allocateIncentive_other_ok {A B : Nat} {s s' : St} {sender : Addr} {coins : List (String × Int)}
    (h : AccrualOK s A) (hc : allocateIncentive s B sender coins = .ok s') (hne : B ≠ A) (hinj : FeesInj A)
    (hs : sender ≠ feesAddr A) : AccrualOK s' A :=
  accrualOK_frame h (allocateIncentive_fr hc hne (hinj _ hne) hs) (allocateIncentive_wf6 h.wf hc)

/-- FRAME: `createPool` (the new record is appended behind the existing ones) -/
theorem createPool_fr {A : Nat} {s : St} (base quote : Denom) (fee ratio offset : Dec)
    (hp : (getPool s A).isSome = true) (ha : (getAccum s A).isSome = true) :
    Fr A s (createPool s base quote fee ratio offset).1 := by
  refine ⟨?_, ?_, fun _ => rfl, rfl, fun _ _ _ => rfl, fun _ => rfl⟩
  · obtain ⟨p, hp⟩ := Option.isSome_iff_exists.mp hp
    unfold getPool at hp ⊢
    show List.find? _ (s.pools ++ _) = _
    rw [List.find?_append, hp]; rfl
  · obtain ⟨a, ha⟩ := Option.isSome_iff_exists.mp ha
    unfold getAccum at ha ⊢
    show List.find? _ (s.accums ++ _) = _
    rw [List.find?_append, ha]; rfl

theorem createPool_ok {A : Nat} {s : St} (h : AccrualOK s A) (base quote : Denom) (fee ratio offset : Dec) :
    AccrualOK (createPool s base quote fee ratio offset).1 A := by
  obtain ⟨p, acc, hp, ha⟩ := h.ex
  exact accrualOK_frame h (createPool_fr base quote fee ratio offset (by rw [hp]; rfl) (by rw [ha]; rfl))
    (createPool_wf6 h.wf base quote fee ratio offset)

/-! ### `UpdatePosition` on another pool -/

/-- the parts of the store that no tick write touches -/
def NoTick (s s' : St) : Prop :=
  s'.pools = s.pools ∧ s'.positions = s.positions ∧ s'.bank = s.bank ∧ s'.accums = s.accums ∧ s'.accPos = s.accPos

theorem upsertTick_other {A pool : Nat} {s s' : St} {t : Int} {delta : Dec} {upper e : Bool} (hne : pool ≠ A)
    (h : upsertTick s pool t delta upper = .ok (s', e)) : (∀ u, findTick s' A u = findTick s A u) ∧ NoTick s s' := by
  obtain ⟨ti, hti, hs, _⟩ := upsertTick_shape h
  obtain ⟨hp, _, _, _⟩ := getTickInfo_ok hti
  subst hs
  refine ⟨?_, rfl, rfl, rfl, rfl, rfl⟩
  intro u
  rw [findTick_setTick]
  have : key A u (updTick ti delta upper) = false := by
    cases hk : key A u (updTick ti delta upper) with
    | false => rfl
    | true =>
      have := (key_iff.mp hk).1
      have e2 : (updTick ti delta upper).pool = ti.pool := rfl
      rw [e2, hp] at this
      exact absurd this hne
  rw [this]; rfl

theorem setAccumFee_shape {s s' : St} {pool : Nat} {lo hi : Int} {posId : Nat} {delta : Dec}
    (h : setAccumPositionFee s pool lo hi posId delta = .ok s') :
    ∃ (a : Accum) (x : AccPos) (a' : Accum), getAccum s pool = some a ∧ s' = setAccum (setAccPos s x) a' ∧ x.posId = posId ∧
      a'.pool = a.pool := by
  unfold setAccumPositionFee at h
  simp only [bind, pure] at h
  cases ha : getAccum s pool with
  | none => rw [ha] at h; cases h
  | some a =>
    rw [ha] at h; simp only [ok_bind] at h
    obtain ⟨o, ho, h⟩ := bind_ok h
    cases hap : getAccPos s posId with
    | none =>
      rw [hap] at h; simp only at h
      obtain ⟨_, h⟩ := ite_err_ok h
      have e := res_ok_inj h
      exact ⟨a, ⟨posId, pool, delta, (DecCoins.safeSub a.value o).1, []⟩,
        { a with totalShares := Dec.add a.totalShares delta }, rfl, e.symm, rfl, rfl⟩
    | some ap =>
      rw [hap] at h; simp only at h
      have hid := getAccPos_id hap
      obtain ⟨_, h⟩ := ite_err_ok h
      rcases ite_ok h with ⟨_, h⟩ | ⟨_, h⟩
      · obtain ⟨_, h⟩ := ite_err_ok h
        obtain ⟨u, hu, h⟩ := bind_ok h
        have e := res_ok_inj h
        exact ⟨a, _, _, rfl, e.symm, hid, rfl⟩
      · obtain ⟨u, hu, h⟩ := bind_ok h
        have e := res_ok_inj h
        exact ⟨a, _, _, rfl, e.symm, hid, rfl⟩

theorem filter_pool_remove (A X : Nat) (l : List Position) (h : ∀ q ∈ l, q.pool = A → q.id ≠ X) :
    (l.filter (·.id != X)).filter (·.pool == A) = l.filter (·.pool == A) := by
  rw [List.filter_filter]
  apply List.filter_congr
  intro q hq
  by_cases c : q.pool = A
  · have := h q hq c
    simp [c, this]
  · simp [c]

theorem filter_pool_replace (A X : Nat) (p' : Position) (l : List Position) (h : ∀ q ∈ l, q.pool = A → q.id ≠ X)
    (hp' : p'.pool ≠ A) :
    (l.map fun q => if q.id == X then p' else q).filter (·.pool == A) = l.filter (·.pool == A) := by
  induction l with
  | nil => rfl
  | cons x xs ih =>
    have ih' := ih (fun q hq => h q (List.mem_cons_of_mem _ hq))
    have hx := h x List.mem_cons_self
    simp only [List.map_cons, List.filter_cons, ih']
    by_cases c : x.pool = A
    · have := hx c
      simp [c, this]
    · by_cases d : x.id = X <;> simp [c, d, hp']

/-- FRAME: `UpdatePosition` on pool `pool ≠ A` for a position id that no position of pool `A` carries -/
theorem updatePosition_fr {A : Nat} {s s' : St} {pool : Nat} {lo hi : Int} {delta : Dec} {posId : Nat} {ab aq : Int}
    {loE hiE : Bool} (h : updatePosition s pool lo hi delta posId = .ok (s', ab, aq, loE, hiE)) (hne : pool ≠ A)
    (hid : ∀ q ∈ s.positions, q.pool = A → q.id ≠ posId) : Fr A s s' ∧ s'.bank = s.bank := by
  obtain ⟨s1, s2, p, pos, h1, h2, hp, hq, _, h5⟩ := updatePosition_ok h
  obtain ⟨t1, n1⟩ := upsertTick_other (A := A) hne h1
  obtain ⟨t2, n2⟩ := upsertTick_other (A := A) hne h2
  obtain ⟨a, x, a', ha, hs', hx, ha'⟩ := setAccumFee_shape h5
  have hpid : p.id = pool := getPool_id hp
  have hposs2 : s2.positions = s.positions := n2.2.1.trans n1.2.1
  have hposm : pos ∈ s.positions := by rw [← hposs2]; exact List.mem_of_find?_eq_some hq
  have hposid : pos.id = posId := getPosition_id hq
  have hpospool : pos.pool ≠ A := fun e => hid pos hposm e hposid
  obtain ⟨g1, g2, g3⟩ := s3Of_frame s2 posId pos delta
  have gacc : (s3Of s2 posId pos delta).accums = s2.accums ∧ (s3Of s2 posId pos delta).accPos = s2.accPos := by
    unfold s3Of setPosition removePosition; split
    · exact ⟨rfl, rfl⟩
    · split <;> exact ⟨rfl, rfl⟩
  have gpos : (s3Of s2 posId pos delta).positions.filter (·.pool == A) = s.positions.filter (·.pool == A) := by
    have hid2 : ∀ q ∈ s2.positions, q.pool = A → q.id ≠ posId := by rw [hposs2]; exact hid
    unfold s3Of; split
    · show (s2.positions.filter (·.id != posId)).filter (·.pool == A) = _
      rw [filter_pool_remove A posId _ hid2, hposs2]
    · unfold setPosition; split
      · have := filter_pool_replace A pos.id { pos with liq := Dec.add pos.liq delta } s2.positions
          (by rw [hposid]; exact hid2) hpospool
        exact this.trans (by rw [hposs2])
      · show List.filter (fun q : Position => q.pool == A) (s2.positions ++ [_]) = _
        rw [List.filter_append, hposs2]
        have : (pos.pool == A) = false := by simpa using hpospool
        simp [List.filter_cons, this]
  have hAcc : a.pool = pool := getAccum_pool ha
  subst hs'
  refine ⟨⟨?_, ?_, ?_, ?_, ?_, ?_⟩, ?_⟩
  · show getPool (setAccum (setAccPos (setPool _ _) x) a') A = _
    have e1 : ∀ (st : St) (x : AccPos) (a' : Accum), getPool (setAccum (setAccPos st x) a') A = getPool st A := by
      intro st x a'; unfold getPool setAccum setAccPos; split <;> rfl
    rw [e1, getPool_setPool_other _ _ _ (by
      show A ≠ (poolOf _ pool p lo hi delta).id
      have : (poolOf (s3Of s2 posId pos delta) pool p lo hi delta).id = p.id := by unfold poolOf; split <;> [rfl; (split <;> rfl)]
      rw [this, hpid]; exact fun e => hne e.symm)]
    unfold getPool; rw [g1, n2.1, n1.1]
  · rw [getAccum_setAccum, if_neg (by rw [ha', hAcc]; exact hne)]
    have e1 : ∀ (st : St) (x : AccPos), getAccum (setAccPos st x) A = getAccum st A := by
      intro st x; unfold getAccum setAccPos; split <;> rfl
    rw [e1]
    show getAccum (s3Of s2 posId pos delta) A = _
    unfold getAccum; rw [gacc.1, n2.2.2.2.1, n1.2.2.2.1]
  · intro t
    have e1 : ∀ (st : St) (x : AccPos) (a' : Accum) (q : Pool), findTick (setAccum (setAccPos (setPool st q) x) a') A t = findTick st A t := by
      intro st x a' q; unfold findTick setAccum setAccPos setPool; split <;> rfl
    rw [e1]
    unfold findTick; rw [g2]
    exact (t2 t).trans (t1 t)
  · have e1 : ∀ (st : St) (x : AccPos) (a' : Accum) (q : Pool), (setAccum (setAccPos (setPool st q) x) a').positions = st.positions := by
      intro st x a' q; unfold setAccum setAccPos setPool; split <;> rfl
    rw [e1]; exact gpos
  · intro q hq hA
    rw [getAccPos_setAccum, getAccPos_setAccPos, if_neg (by rw [hx]; exact hid q hq hA)]
    show getAccPos (s3Of s2 posId pos delta) q.id = _
    unfold getAccPos; rw [gacc.2, n2.2.2.2.2, n1.2.2.2.2]
  · intro d
    have e1 : ∀ (st : St) (x : AccPos) (a' : Accum) (q : Pool), (setAccum (setAccPos (setPool st q) x) a').bank = st.bank := by
      intro st x a' q; unfold setAccum setAccPos setPool; split <;> rfl
    rw [e1, g3, n2.2.2.1, n1.2.2.1]
  · have e1 : ∀ (st : St) (x : AccPos) (a' : Accum) (q : Pool), (setAccum (setAccPos (setPool st q) x) a').bank = st.bank := by
      intro st x a' q; unfold setAccum setAccPos setPool; split <;> rfl
    rw [e1, g3, n2.2.2.1, n1.2.2.1]

theorem fr_bank {A : Nat} (s : St) (b : Bank) (h : ∀ d, b.bal (feesAddr A) d = s.bank.bal (feesAddr A) d) :
    Fr A s { s with bank := b } := ⟨rfl, rfl, fun _ => rfl, rfl, fun _ _ _ => rfl, h⟩

theorem fr_removeTick {A : Nat} (s : St) (pool : Nat) (t : Int) (hne : pool ≠ A) : Fr A s (removeTick s pool t) := by
  refine ⟨rfl, rfl, ?_, rfl, fun _ _ _ => rfl, fun _ => rfl⟩
  intro u
  rw [removeTick_find, if_neg (fun e => hne (congrArg Prod.fst e).symm)]

theorem fr_condRemove {A : Nat} (e : Bool) (s : St) (pool : Nat) (t : Int) (hne : pool ≠ A) :
    Fr A s (if e then removeTick s pool t else s) := by
  cases e
  · exact Fr.refl _ _
  · exact fr_removeTick s pool t hne

theorem other_ids {A : Nat} {s : St} (hw : WF6 s) {posId : Nat} {pos : Position} (hpos : getPosition s posId = some pos)
    (hne : pos.pool ≠ A) : ∀ q ∈ s.positions, q.pool = A → q.id ≠ posId := by
  intro q hq hA e
  have := getPosition_of_mem hw.ids_nodup hq
  rw [e, hpos] at this
  have e2 := Option.some.inj this
  rw [e2] at hne
  exact hne hA

/-- FRAME: `decreaseLiquidity` (partial or full, pool reset included) of a position of another pool -/
theorem decreaseLiquidity_fr {A : Nat} {s s' : St} {sender : Addr} {posId : Nat} {liq : Dec} {ab aq : Int} {pos : Position}
    (hw : WF6 s) (hc : decreaseLiquidity s sender posId liq = .ok (s', ab, aq)) (hpos : getPosition s posId = some pos)
    (hne : pos.pool ≠ A) (hf : feesAddr A ≠ feesAddr pos.pool) (hs : sender ≠ feesAddr A) : Fr A s s' := by
  obtain ⟨pos', p, s1, c, s2, ab0, aq0, loE, hiE, b1, b2, hpos', _, _, hp, hcf, hup, hb1, hb2, _, _, hs'⟩ :=
    decreaseLiquidity_inv_bank hc
  rw [hpos] at hpos'
  have e := Option.some.inj hpos'; subst e
  have f1 := collectFees_fr hw hcf hpos hne hf hs
  have hcore := collectFees_core hcf
  have hid1 : ∀ q ∈ s1.positions, q.pool = A → q.id ≠ posId := by rw [hcore.2.1]; exact other_ids hw hpos hne
  obtain ⟨f2, hbank2⟩ := updatePosition_fr (A := A) hup hne hid1
  have hpa : feesAddr A ≠ poolAddr p.id := fun e => poolAddr_ne_feesAddr _ _ e.symm
  have hsa : feesAddr A ≠ sender := fun e => hs e.symm
  have f3 : Fr A s2 { s2 with bank := b2 } := by
    apply fr_bank
    intro d
    rw [send_frame hb2 hpa hsa, send_frame hb1 hpa hsa]
  have f4 := fr_condRemove loE { s2 with bank := b2 } pos.pool pos.lower hne
  have f5 := fr_condRemove hiE (if loE then removeTick { s2 with bank := b2 } pos.pool pos.lower else { s2 with bank := b2 })
    pos.pool pos.upper hne
  rw [hs']
  exact (((f1.trans f2).trans f3).trans f4).trans f5

theorem decreaseLiquidity_other_ok {A : Nat} {s s' : St} {sender : Addr} {posId : Nat} {liq : Dec} {ab aq : Int}
    {pos : Position} (h : AccrualOK s A) (hc : decreaseLiquidity s sender posId liq = .ok (s', ab, aq))
    (hpos : getPosition s posId = some pos) (hne : pos.pool ≠ A) (hinj : FeesInj A) (hs : sender ≠ feesAddr A) :
    AccrualOK s' A :=
  accrualOK_frame h (decreaseLiquidity_fr h.wf hc hpos hne (hinj _ hne) hs) (decreaseLiquidity_wf6 h.wf hc)

/-- `createPosition` inverted (live pool or first position), with the two transfers into the pool account exposed -/
theorem createPosition_inv_bank {s : St} {sender : Addr} {pool : Nat} {lo hi : Int} {dBase dQuote : Denom}
    {aBase aQuote minBase minQuote : Int} {s' : St} {out : CreatePosOut}
    (h : createPosition s sender pool lo hi dBase aBase dQuote aQuote minBase minQuote = .ok (s', out)) :
    ∃ p0 s1 delta s3 ab aq loE hiE b1 b2,
      getPool s pool = some p0 ∧
      (s1 = s ∨ ∃ sp t, s1 = setPool s { p0 with sqrtP := sp, tick := t }) ∧
      updatePosition (withFresh s1 sender pool lo hi) pool lo hi delta s1.nextPos = .ok (s3, ab, aq, loE, hiE) ∧
      s3.bank.send sender (poolAddr pool) dBase ab = .ok b1 ∧ b1.send sender (poolAddr pool) dQuote aq = .ok b2 ∧
      s' = { s3 with bank := b2 } := by
  unfold createPosition at h
  cases hp : getPool s pool with
  | none => rw [hp] at h; cases h
  | some p0 =>
    rw [hp] at h
    cases hlive : poolLive p0 with
    | true =>
      simp only [bind, pure, err_bind, ok_bind, hlive] at h
      obtain ⟨hct, h⟩ := ite_err_ok h
      obtain ⟨_, h⟩ := ite_err_ok h
      obtain ⟨_, h⟩ := ite_err_ok h
      obtain ⟨_, h⟩ := ite_err_ok h
      obtain ⟨_, h⟩ := ite_err_ok h
      obtain ⟨x, _, h⟩ := bind_ok h
      rcases ite_ok h with ⟨hc, _⟩ | ⟨_, h⟩
      · simp at hc
      rcases ite_ok h with ⟨_, h⟩ | ⟨_, h⟩
      · cases h
      obtain ⟨hnz, h⟩ := ite_err_ok h
      obtain ⟨y, hy, h⟩ := bind_ok h
      obtain ⟨_, h⟩ := ite_err_ok h
      obtain ⟨_, h⟩ := ite_err_ok h
      obtain ⟨_, h⟩ := ite_err_ok h
      obtain ⟨_, h⟩ := ite_err_ok h
      obtain ⟨b1, hb1, h⟩ := bind_ok h
      obtain ⟨b2, hb2, h⟩ := bind_ok h
      have hr := res_ok_inj h
      refine ⟨p0, s, _, y.1, y.2.1, y.2.2.1, y.2.2.2.1, y.2.2.2.2, b1, b2, rfl, Or.inl rfl, hy, hb1, hb2, ?_⟩
      exact (congrArg Prod.fst hr).symm
    | false =>
      simp only [bind, pure, err_bind, ok_bind, hlive] at h
      obtain ⟨hct, h⟩ := ite_err_ok h
      obtain ⟨_, h⟩ := ite_err_ok h
      obtain ⟨_, h⟩ := ite_err_ok h
      obtain ⟨_, h⟩ := ite_err_ok h
      obtain ⟨_, h⟩ := ite_err_ok h
      obtain ⟨x, _, h⟩ := bind_ok h
      rcases ite_ok h with ⟨_, h⟩ | ⟨hc, _⟩
      swap
      · exact absurd rfl hc
      obtain ⟨_, h⟩ := ite_err_ok h
      obtain ⟨sp, _, h⟩ := bind_ok h
      obtain ⟨t, ht, h⟩ := bind_ok h
      rcases ite_ok h with ⟨_, h⟩ | ⟨_, h⟩
      · cases h
      obtain ⟨hnz, h⟩ := ite_err_ok h
      obtain ⟨y, hy, h⟩ := bind_ok h
      obtain ⟨_, h⟩ := ite_err_ok h
      obtain ⟨_, h⟩ := ite_err_ok h
      obtain ⟨_, h⟩ := ite_err_ok h
      obtain ⟨_, h⟩ := ite_err_ok h
      obtain ⟨b1, hb1, h⟩ := bind_ok h
      obtain ⟨b2, hb2, h⟩ := bind_ok h
      have hr := res_ok_inj h
      refine ⟨p0, setPool s { p0 with sqrtP := sp, tick := t }, _, y.1, y.2.1, y.2.2.1, y.2.2.2.1, y.2.2.2.2, b1, b2, rfl,
        Or.inr ⟨sp, t, rfl⟩, hy, hb1, hb2, ?_⟩
      exact (congrArg Prod.fst hr).symm

theorem fr_setPool {A : Nat} (s : St) (q : Pool) (hne : q.id ≠ A) : Fr A s (setPool s q) :=
  ⟨getPool_setPool_other s q A (fun e => hne e.symm), rfl, fun _ => rfl, rfl, fun _ _ _ => rfl, fun _ => rfl⟩

theorem fr_withFresh {A : Nat} (s1 : St) (sender : Addr) (pool : Nat) (lo hi : Int) (hne : pool ≠ A)
    (hlt : ∀ x ∈ s1.positions, x.id < s1.nextPos) : Fr A s1 (withFresh s1 sender pool lo hi) := by
  obtain ⟨f1, f2, _, _⟩ := withFresh_frame s1 sender pool lo hi
  obtain ⟨a1, a2⟩ := withFresh_acc s1 sender pool lo hi
  refine ⟨by unfold getPool; rw [f1], by unfold getAccum; rw [a1], fun t => by unfold findTick; rw [f2], ?_,
    fun _ _ _ => by unfold getAccPos; rw [a2], fun d => by rw [withFresh_bank]⟩
  rw [withFresh_positions s1 sender pool lo hi hlt, List.filter_append]
  have : (pool == A) = false := by simpa using hne
  simp [List.filter_cons, this]

/-- FRAME: `createPosition` on another pool (live pool or FIRST position of that pool) -/
theorem createPosition_fr {A B : Nat} {s s' : St} {sender : Addr} {lo hi : Int} {dBase dQuote : Denom}
    {aBase aQuote minBase minQuote : Int} {out : CreatePosOut} (hw : WF6 s)
    (hc : createPosition s sender B lo hi dBase aBase dQuote aQuote minBase minQuote = .ok (s', out))
    (hne : B ≠ A) (hs : sender ≠ feesAddr A) : Fr A s s' := by
  obtain ⟨p0, s1, delta, s3, ab, aq, loE, hiE, b1, b2, hp, hs1, hup, hb1, hb2, hs'⟩ := createPosition_inv_bank hc
  have hpid : p0.id = B := getPool_id hp
  have f1 : Fr A s s1 ∧ s1.positions = s.positions ∧ s1.nextPos = s.nextPos := by
    rcases hs1 with e | ⟨sp, t, e⟩
    · subst e; exact ⟨Fr.refl _ _, rfl, rfl⟩
    · subst e; exact ⟨fr_setPool s _ (by show p0.id ≠ A; rw [hpid]; exact hne), rfl, rfl⟩
  have hlt : ∀ x ∈ s1.positions, x.id < s1.nextPos := by rw [f1.2.1, f1.2.2]; exact hw.inv.w.idsLt
  have f2 := fr_withFresh s1 sender B lo hi hne hlt
  have hid : ∀ q ∈ (withFresh s1 sender B lo hi).positions, q.pool = A → q.id ≠ s1.nextPos := by
    rw [withFresh_positions s1 sender B lo hi hlt]
    intro q hq hA
    rcases List.mem_append.mp hq with hq | hq
    · have := hlt q hq; omega
    · simp only [List.mem_singleton] at hq
      subst hq
      exact absurd hA hne
  obtain ⟨f3, _⟩ := updatePosition_fr (A := A) hup hne hid
  have hpa : feesAddr A ≠ poolAddr B := fun e => poolAddr_ne_feesAddr _ _ e.symm
  have hsa : feesAddr A ≠ sender := fun e => hs e.symm
  have f4 : Fr A s3 { s3 with bank := b2 } := by
    apply fr_bank
    intro d
    rw [send_frame hb2 hsa hpa, send_frame hb1 hsa hpa]
  rw [hs']
  exact ((f1.1.trans f2).trans f3).trans f4

theorem createPosition_other_ok {A B : Nat} {s s' : St} {sender : Addr} {lo hi : Int} {dBase dQuote : Denom}
    {aBase aQuote minBase minQuote : Int} {out : CreatePosOut} (h : AccrualOK s A)
    (hc : createPosition s sender B lo hi dBase aBase dQuote aQuote minBase minQuote = .ok (s', out))
    (hne : B ≠ A) (hs : sender ≠ feesAddr A) : AccrualOK s' A :=
  accrualOK_frame h (createPosition_fr h.wf hc hne hs) (createPosition_wf6 h.wf hc)

/-- FRAME: `increaseLiquidity` of a position of another pool (withdraw all, then re-create; pool reset included) -/
theorem increaseLiquidity_fr {A : Nat} {s s' : St} {sender : Addr} {posId : Nat} {aBase aQuote minBase minQuote : Int}
    {out : CreatePosOut} {pos : Position} (hw : WF6 s)
    (hc : increaseLiquidity s sender posId aBase aQuote minBase minQuote = .ok (s', out))
    (hpos : getPosition s posId = some pos) (hne : pos.pool ≠ A) (hf : feesAddr A ≠ feesAddr pos.pool)
    (hs : sender ≠ feesAddr A) : Fr A s s' := by
  obtain ⟨pos', s1, wb, wq, p, hpos', hd, _, hcp⟩ := increaseLiquidity_parts hc
  rw [hpos] at hpos'
  have e := Option.some.inj hpos'; subst e
  have f1 := decreaseLiquidity_fr hw hd hpos hne hf hs
  have f2 := createPosition_fr (decreaseLiquidity_wf6 hw hd) hcp hne hs
  exact f1.trans f2

theorem increaseLiquidity_other_ok {A : Nat} {s s' : St} {sender : Addr} {posId : Nat} {aBase aQuote minBase minQuote : Int}
    {out : CreatePosOut} {pos : Position} (h : AccrualOK s A)
    (hc : increaseLiquidity s sender posId aBase aQuote minBase minQuote = .ok (s', out))
    (hpos : getPosition s posId = some pos) (hne : pos.pool ≠ A) (hinj : FeesInj A) (hs : sender ≠ feesAddr A) :
    AccrualOK s' A :=
  accrualOK_frame h (increaseLiquidity_fr h.wf hc hpos hne (hinj _ hne) hs) (increaseLiquidity_wf6 h.wf hc)

/-! ### swaps on another pool -/

theorem updatePoolForSwap_inv_bank {s : St} {p : Pool} {sender : Addr} {dI dO : Denom} {aI aO : Int} {o : SwapOut} {s2 : St}
    (h : updatePoolForSwap s p sender dI aI dO aO o = .ok s2) :
    ∃ b, s2 = setPool { s with bank := b } { p with liq := o.liq, tick := o.tick, sqrtP := o.sqrtP } ∧
      ∀ a d, a ≠ sender → a ≠ poolAddr p.id → a ≠ feesAddr p.id → b.bal a d = s.bank.bal a d := by
  unfold updatePoolForSwap at h
  simp only [bind, pure, err_bind] at h
  split at h
  · cases h
  split at h
  · cases h
  obtain ⟨b1, hb1, h⟩ := bind_ok h
  split at h
  · obtain ⟨b2, hb2, h⟩ := bind_ok h
    split at h
    · cases h
    obtain ⟨b3, hb3, h⟩ := bind_ok h
    split at h
    · cases h
    split at h
    · cases h
    refine ⟨b3, (res_ok_inj h).symm, ?_⟩
    intro a d h1 h2 h3
    rw [send_frame hb3 h2 h1, send_frame hb2 h1 h3, send_frame hb1 h1 h2]
  · obtain ⟨b2, hb2, h⟩ := bind_ok h
    split at h
    · cases h
    obtain ⟨b3, hb3, h⟩ := bind_ok h
    split at h
    · cases h
    split at h
    · cases h
    refine ⟨b3, (res_ok_inj h).symm, ?_⟩
    intro a d h1 h2 h3
    have e : b1 = b2 := res_ok_inj hb2
    rw [send_frame hb3 h2 h1, ← e, send_frame hb1 h1 h2]

/-- what the swap loop keeps of pool `A` when it iterates over ticks of another pool -/
def LFr (A : Nat) (s s' : St) : Prop := (∀ u, findTick s' A u = findTick s A u) ∧ NoTick s s'

theorem swapLoop_other {A : Nat} {exactIn bfq upd : Bool} {lim fee : Dec} {tp : TickMath.TickParams} {accVal : DecCoins}
    {denomIn : Denom} :
    ∀ (fuel noProg : Nat) (s : St) (ss : SwapState) (iter : List TickInfo) (s' : St) (ss' : SwapState),
      (∀ ti ∈ iter, ti.pool ≠ A) →
      swapLoop exactIn bfq upd lim fee tp accVal denomIn fuel noProg s ss iter = .ok (s', ss') → LFr A s s' := by
  intro fuel
  induction fuel with
  | zero => intro noProg s ss iter s' ss' _ h; rw [C05Loop.swapLoop_zero] at h; cases h
  | succ fuel ih =>
    intro noProg s ss iter s' ss' hmem h
    rcases Sunrise.C04RefineLoop.loop_step h with ⟨e1, e2⟩ | ⟨ti, rest, s3, ss3, iter3, noProg', evs1, hit, ⟨_, hcase⟩, hrec⟩
    · subst e1; exact ⟨fun _ => rfl, rfl, rfl, rfl, rfl, rfl⟩
    · subst hit
      rcases hcase with ⟨hi, hsh, _⟩ | ⟨hi, hs3, _⟩
      · rw [hi] at hrec
        have h3 : LFr A s s3 := by
          rcases hsh with e | ⟨g, e⟩
          · rw [e]; exact ⟨fun _ => rfl, rfl, rfl, rfl, rfl, rfl⟩
          · rw [e]
            refine ⟨?_, rfl, rfl, rfl, rfl, rfl⟩
            intro u
            rw [findTick_setTick]
            have : key A u { ti with feeGrowth := g } = false := by
              cases hk : key A u { ti with feeGrowth := g } with
              | false => rfl
              | true => exact absurd (key_iff.mp hk).1 (hmem ti List.mem_cons_self)
            rw [this]; rfl
        have r := ih noProg' s3 ss3 rest s' ss' (fun tj hj => hmem tj (List.mem_cons_of_mem _ hj)) hrec
        exact ⟨fun u => (r.1 u).trans (h3.1 u), r.2.1.trans h3.2.1, r.2.2.1.trans h3.2.2.1, r.2.2.2.1.trans h3.2.2.2.1,
          r.2.2.2.2.1.trans h3.2.2.2.2.1, r.2.2.2.2.2.trans h3.2.2.2.2.2⟩
      · subst hi; subst hs3
        exact ih noProg' s3 ss3 (ti :: rest) s' ss' hmem hrec

theorem LFr.fr {A : Nat} {s s' : St} (h : LFr A s s') : Fr A s s' := by
  obtain ⟨ht, h1, h2, h3, h4, h5⟩ := h
  exact ⟨by unfold getPool; rw [h1], by unfold getAccum; rw [h4], ht, by rw [h2],
    fun _ _ _ => by unfold getAccPos; rw [h5], fun d => by rw [h3]⟩

/-- FRAME: a swap (`computeSwap` with accumulator updates, then `updatePoolForSwap`) on another pool -/
theorem swap_fr {A B : Nat} {exactIn : Bool} {s s1 s' : St} {sender : Addr} {din dout : Denom} {amount ain aout : Int}
    {fee mLimit : Dec} {o : SwapOut} {p : Pool}
    (hc : computeSwap exactIn s B din dout amount fee mLimit true = .ok (s1, o))
    (hu : updatePoolForSwap s1 p sender din ain dout aout o = .ok s') (hpid : p.id = B)
    (hne : B ≠ A) (hf : feesAddr A ≠ feesAddr B) (hs : sender ≠ feesAddr A) : Fr A s s' := by
  obtain ⟨p', acc, lim, s0, ss, hp', hacc, hloop, hs1, _, _, _⟩ := Sunrise.C06Refine2.computeSwap_upd_inv hc
  have f1 : Fr A s s0 := (swapLoop_other (A := A) LOOP_FUEL 0 s _ _ s0 ss
    (fun ti hti => by rw [((mem_tickIter_iff s B _ _ ti).mp hti).2.1]; exact hne) hloop).fr
  have hpl : acc.pool = B := getAccum_pool hacc
  have f2 : Fr A s0 s1 := by
    rw [hs1]
    refine ⟨rfl, ?_, fun _ => rfl, rfl, fun _ _ _ => rfl, fun _ => rfl⟩
    show getAccum (setAccum s0 _) A = _
    rw [getAccum_setAccum, if_neg (by show ¬ acc.pool = A; rw [hpl]; exact hne)]
  obtain ⟨b, hb, hbal⟩ := updatePoolForSwap_inv_bank hu
  have f3 : Fr A s1 s' := by
    rw [hb]
    refine (fr_bank s1 b (fun d => hbal _ d (fun e => hs e.symm) ?_ ?_)).trans
      (fr_setPool _ _ (by show p.id ≠ A; rw [hpid]; exact hne))
    · exact fun e => poolAddr_ne_feesAddr _ _ e.symm
    · rw [hpid]; exact hf
  exact (f1.trans f2).trans f3

theorem swapExactIn_fr {A B : Nat} {s s' : St} {sender : Addr} {din dout : Denom} {amount out : Int} {fe : Bool}
    (hc : swapExactIn s sender B din amount dout fe = .ok (s', out))
    (hne : B ≠ A) (hf : feesAddr A ≠ feesAddr B) (hs : sender ≠ feesAddr A) : Fr A s s' := by
  obtain ⟨p, s1, o, _, hpid, hcs, _, _, _, hu⟩ := Sunrise.C03Pool.swapExactIn_inv hc
  exact swap_fr hcs hu hpid hne hf hs

theorem swapExactOut_fr {A B : Nat} {s s' : St} {sender : Addr} {din dout : Denom} {amount ain : Int} {fe : Bool}
    (hc : swapExactOut s sender B dout amount din fe = .ok (s', ain))
    (hne : B ≠ A) (hf : feesAddr A ≠ feesAddr B) (hs : sender ≠ feesAddr A) : Fr A s s' := by
  obtain ⟨p, s1, o, _, hpid, hcs, _, _, _, hu⟩ := Sunrise.C03Pool.swapExactOut_inv hc
  exact swap_fr hcs hu hpid hne hf hs

theorem swapExactIn_other_ok {A B : Nat} {s s' : St} {sender : Addr} {din dout : Denom} {amount out : Int} {fe : Bool}
    (h : AccrualOK s A) (hc : swapExactIn s sender B din amount dout fe = .ok (s', out))
    (hb : C04Store.SwapBoundary s s' B) (hne : B ≠ A) (hinj : FeesInj A) (hs : sender ≠ feesAddr A) : AccrualOK s' A :=
  accrualOK_frame h (swapExactIn_fr hc hne (hinj _ hne) hs) (swapExactIn_wf6_partial h.wf hc hb)

theorem swapExactOut_other_ok {A B : Nat} {s s' : St} {sender : Addr} {din dout : Denom} {amount ain : Int} {fe : Bool}
    (h : AccrualOK s A) (hc : swapExactOut s sender B dout amount din fe = .ok (s', ain))
    (hb : C04Store.SwapBoundary s s' B) (hne : B ≠ A) (hinj : FeesInj A) (hs : sender ≠ feesAddr A) : AccrualOK s' A :=
  accrualOK_frame h (swapExactOut_fr hc hne (hinj _ hne) hs) (swapExactOut_wf6_partial h.wf hc hb)


/-! ## 3. the withdrawal of the LAST position of the pool (pool reset) -/

theorem owed_nonneg_of_inv {a : ASt} (hI : CLAccrual.Inv a) : 0 ≤ CLAccrual.sumBy (CLAccrual.owed a) a.pos := by
  apply Sunrise.C06A.sumBy_nonneg
  intro p hp
  obtain ⟨w1, _, w3, w4⟩ := hI.wf p hp
  unfold CLAccrual.owed
  have hP : (0:Int) ≤ PREC := by decide
  have h1 : 0 ≤ p.u * PREC := Int.mul_nonneg w3 hP
  by_cases h0 : 0 < p.s
  · have := w4 h0
    have h2 : 0 ≤ p.s * (CLAccrual.inside a p.lo p.hi - p.c) := Int.mul_nonneg w1 (by omega)
    omega
  · have hs : p.s = 0 := by omega
    rw [hs, Int.zero_mul]; omega

theorem removeTicks_same (y : St) (pool : Nat) (lo hi : Int) (loE hiE : Bool) :
    let x := (if hiE then removeTick (if loE then removeTick y pool lo else y) pool hi
              else (if loE then removeTick y pool lo else y))
    x.pools = y.pools ∧ x.accums = y.accums ∧ x.positions = y.positions ∧ x.bank = y.bank := by
  cases loE <;> cases hiE <;> exact ⟨rfl, rfl, rfl, rfl⟩

/-- **full withdrawal of the ONLY position of the pool** (`UpdatePosition` resets the pool: price, cursor and active
    liquidity cleared): the abstraction after has no position, `Σ owed = 0`, and the fee account still holds what backed
    the dust of the claim that preceded the withdrawal -/
theorem decreaseLiquidity_last_ok {s s' : St} {sender : Addr} {posId i : Nat} {liq : Dec} {ab aq : Int} {A : Nat}
    (h : AccrualOK s A) (hc : decreaseLiquidity s sender posId liq = .ok (s', ab, aq))
    (hidx : AtIndex s A posId i) (hsender : sender ≠ feesAddr A)
    (hall : ∀ pos ∈ s.positions, pos.id = posId → liq.raw = pos.liq.raw)
    (honly : ∀ q ∈ s.positions, q.pool = A → q.id = posId) : AccrualOK s' A := by
  have hw' := decreaseLiquidity_wf6 h.wf hc
  obtain ⟨pos, hi, hid⟩ := hidx
  obtain ⟨hmem, hpA⟩ := mem_poolPositions.mp (List.mem_of_getElem? hi)
  have hpos : getPosition s posId = some pos := by
    have := getPosition_of_mem h.wf.ids_nodup hmem
    rw [hid] at this; exact this
  obtain ⟨pos', p, s1, c, s2, ab0, aq0, loE, hiE, b1, b2, hpos', _, _, hp, hcf, hup, hb1, hb2, _, _, hs'⟩ :=
    decreaseLiquidity_inv_bank hc
  rw [hpos] at hpos'
  have e := Option.some.inj hpos'; subst e
  have hA1 : AccrualOK s1 A := collectFees_ok h hcf ⟨pos, hi, hid⟩ hsender
  have hcore := collectFees_core hcf
  rw [hpA] at hup
  -- the store after `UpdatePosition`
  obtain ⟨s1a, s2a, p2, pos2, h1, h2, hp2, hq2, _, h5⟩ := updatePosition_ok hup
  obtain ⟨_, _, _, ⟨a1, a2, a3⟩, _⟩ := upsertTick_effect h1
  obtain ⟨_, _, _, ⟨c1, c2, c3⟩, _⟩ := upsertTick_effect h2
  obtain ⟨acc, x, a', ha, hs2, hx, ha'⟩ := setAccumFee_shape h5
  obtain ⟨g1, g2, g3⟩ := s3Of_frame s2a posId pos2 (Dec.neg liq)
  have hposs : s2a.positions = s.positions := (c2.trans a2).trans hcore.2.1
  have hpos2 : pos2 = pos := by
    have hm2 : pos2 ∈ s.positions := by rw [← hposs]; exact List.mem_of_find?_eq_some hq2
    have hid2 : pos2.id = posId := getPosition_id hq2
    have := getPosition_of_mem h.wf.ids_nodup hm2
    rw [hid2, hpos] at this
    exact (Option.some.inj this).symm
  have hzero : (Dec.add pos2.liq (Dec.neg liq)).isZero = true := by
    have := hall pos hmem hid
    rw [hpos2]
    simp only [Dec.add, Dec.neg, Dec.isZero, beq_iff_eq]; omega
  have hs3 : s3Of s2a posId pos2 (Dec.neg liq) = removePosition s2a posId := by unfold s3Of; rw [if_pos hzero]
  have hbank2 : s2.bank = s1.bank := by
    obtain ⟨_, _, _, _, _, _, _, _, _, _, _, _, _, hb, _, _⟩ := updatePosition_frames hup
    exact hb
  have e1 : ∀ (st : St) (x : AccPos) (a' : Accum), getPool (setAccum (setAccPos st x) a') A = getPool st A := by
    intro st x a'; unfold getPool setAccum setAccPos; split <;> rfl
  have e2 : ∀ (st : St) (x : AccPos) (a' : Accum), (setAccum (setAccPos st x) a').positions = st.positions := by
    intro st x a'; unfold setAccum setAccPos; split <;> rfl
  have hpool2 : ∃ q, getPool s2 A = some q := by
    rw [hs2, e1]
    exact ⟨_, Sunrise.C04Interval.getPool_setPool hp2 g1 (by unfold poolOf; split <;> [rfl; (split <;> rfl)])⟩
  have hacc2 : getAccum s2 A = some a' := by
    rw [hs2]
    have e3 : ∀ (st : St) (x : AccPos), getAccum (setAccPos st x) A = getAccum st A := by
      intro st x; unfold getAccum setAccPos; split <;> rfl
    exact getAccum_setAccum_self (by rw [e3]; exact ha) (by rw [ha']; exact getAccum_pool ha)
  have hposs2 : s2.positions.filter (·.pool == A) = [] := by
    rw [hs2, e2]
    show (s3Of s2a posId pos2 (Dec.neg liq)).positions.filter (·.pool == A) = []
    rw [hs3]
    show (s2a.positions.filter (·.id != posId)).filter (·.pool == A) = []
    rw [hposs, List.filter_filter, List.filter_eq_nil_iff]
    intro q hq
    by_cases cA : q.pool = A
    · simp [cA, honly q hq cA]
    · simp [cA]
  -- the store after the payout and the tick removals
  obtain ⟨r1, r2, r3, r4⟩ := removeTicks_same { s2 with bank := b2 } pos.pool pos.lower pos.upper loE hiE
  simp only [] at r1 r2 r3 r4
  rw [← hs'] at r1 r2 r3 r4
  have hpa : feesAddr A ≠ poolAddr p.id := fun e => poolAddr_ne_feesAddr _ _ e.symm
  have hsa : feesAddr A ≠ sender := fun e => hsender e.symm
  have hbal : ∀ d, s'.bank.bal (feesAddr A) d = s1.bank.bal (feesAddr A) d := by
    intro d
    rw [r4]
    show b2.bal _ _ = _
    rw [send_frame hb2 hpa hsa, send_frame hb1 hpa hsa, hbank2]
  obtain ⟨q, hq⟩ := hpool2
  have hpool' : getPool s' A = some q := by unfold getPool at hq ⊢; rw [r1]; exact hq
  have hacc' : getAccum s' A = some a' := by unfold getAccum at hacc2 ⊢; rw [r2]; exact hacc2
  have hposs' : s'.positions.filter (·.pool == A) = [] := by rw [r3]; exact hposs2
  obtain ⟨k1, hInv1⟩ := hA1.inv
  refine ⟨hw', ⟨q, a', hpool', hacc'⟩, ⟨k1, ?_⟩⟩
  intro d b' hb'
  obtain ⟨_, t2, t3, t4⟩ := abs_struct_of_wf6 hw' hb'
  obtain ⟨b1', hb1'⟩ := hA1.abs d k1
  have hI1 := hInv1 d b1' hb1'
  obtain ⟨_, _, _, _, eb'⟩ := absOf_some hb'
  obtain ⟨_, _, _, _, eb1⟩ := absOf_some hb1'
  have hp' : b'.pos = [] := by
    rw [eb']
    show (s'.positions.filter (·.pool == A)).map _ = []
    rw [hposs']; rfl
  have hrecv : b'.recv = b1'.recv := by
    rw [eb', eb1]
    show s'.bank.bal (feesAddr A) d * PREC = s1.bank.bal (feesAddr A) d * PREC
    rw [hbal]
  have hpaid : b'.paid = 0 := by rw [eb']; rfl
  have hpaid1 : b1'.paid = 0 := by rw [eb1]; rfl
  have hk : b'.k = b1'.k := by rw [eb', eb1]; rfl
  have hb := hI1.backed
  have hn := owed_nonneg_of_inv hI1
  refine ⟨?_, t2, t3, t4, ?_, ?_⟩
  · intro x hx; rw [hp'] at hx; cases hx
  · rw [hp', hpaid, hrecv, hk]
    rw [hpaid1] at hb
    simp only [CLAccrual.sumBy]
    omega
  · rw [hk]; exact hI1.k_nonneg


/-! ## 2. the FIRST position of the pool (price initialisation) -/

/-- initialising the price of a pool that has no position keeps `AccrualOK` (the abstraction has no position: only the
    cursor changes) -/
theorem first_setPool_ok {A : Nat} {s : St} {p0 : Pool} (h : AccrualOK s A) (hp : getPool s A = some p0)
    (hl : poolLive p0 = false) (sp : Dec) (t : Int) : AccrualOK (setPool s { p0 with sqrtP := sp, tick := t }) A := by
  have hno := h.wf.inv.liveOK A p0 hp hl
  have hw1 : WF6 (setPool s { p0 with sqrtP := sp, tick := t }) :=
    ⟨setPool_first_inv h.wf.inv hp hl sp t, (setPool_wf h.wf.sorted h.wf.sh _).1, (setPool_wf h.wf.sorted h.wf.sh _).2⟩
  have hfil : s.positions.filter (·.pool == A) = [] := by
    rw [List.filter_eq_nil_iff]
    intro q hq
    have := poolHasPosition_false s A hno q hq
    simpa using this
  obtain ⟨p, acc, _, hacc⟩ := h.ex
  have hp1 : getPool (setPool s { p0 with sqrtP := sp, tick := t }) A = some { p0 with sqrtP := sp, tick := t } :=
    Sunrise.C04Interval.getPool_setPool hp rfl rfl
  obtain ⟨k, hInv⟩ := h.inv
  refine ⟨hw1, ⟨_, acc, hp1, hacc⟩, ⟨k, ?_⟩⟩
  intro d b' hb'
  obtain ⟨_, t2, t3, t4⟩ := abs_struct_of_wf6 hw1 hb'
  obtain ⟨b, hb⟩ := h.abs d k
  have hI := hInv d b hb
  obtain ⟨_, _, _, _, eb'⟩ := absOf_some hb'
  obtain ⟨_, _, _, _, eb⟩ := absOf_some hb
  have hp' : b'.pos = [] := by
    rw [eb']
    show (s.positions.filter (·.pool == A)).map _ = []
    rw [hfil]; rfl
  have hpb : b.pos = [] := by
    rw [eb]
    show (s.positions.filter (·.pool == A)).map _ = []
    rw [hfil]; rfl
  have hrecv : b'.recv = b.recv := by rw [eb', eb]; rfl
  have hpaid : b'.paid = b.paid := by rw [eb', eb]; rfl
  have hk : b'.k = b.k := by rw [eb', eb]; rfl
  have hbk := hI.backed
  refine ⟨?_, t2, t3, t4, ?_, ?_⟩
  · intro x hx; rw [hp'] at hx; cases hx
  · rw [hp', hpaid, hrecv, hk]; rw [hpb] at hbk; exact hbk
  · rw [hk]; exact hI.k_nonneg

/-- the first `createPosition` of a pool = price initialisation, then `createPosition` on the (now live) pool -/
theorem createPosition_first_eq {s s' : St} {sender : Addr} {A : Nat} {lo hi : Int} {dBase dQuote : Denom}
    {aBase aQuote minBase minQuote : Int} {out : CreatePosOut} {p0 : Pool}
    (hc : createPosition s sender A lo hi dBase aBase dQuote aQuote minBase minQuote = .ok (s', out))
    (hp : getPool s A = some p0) (hl : poolLive p0 = false) :
    ∃ sp t, poolLive { p0 with sqrtP := sp, tick := t } = true ∧
      createPosition (setPool s { p0 with sqrtP := sp, tick := t }) sender A lo hi dBase aBase dQuote aQuote minBase minQuote
        = .ok (s', out) := by
  unfold createPosition at hc
  rw [hp] at hc
  simp only [bind, pure, err_bind, ok_bind, hl] at hc
  obtain ⟨c1, h⟩ := ite_err_ok hc
  obtain ⟨c2, h⟩ := ite_err_ok h
  obtain ⟨c3, h⟩ := ite_err_ok h
  obtain ⟨c4, h⟩ := ite_err_ok h
  obtain ⟨c5, h⟩ := ite_err_ok h
  obtain ⟨x, hx, h⟩ := bind_ok h
  rcases ite_ok h with ⟨_, h⟩ | ⟨hcc, _⟩
  swap
  · exact absurd rfl hcc
  obtain ⟨_, h⟩ := ite_err_ok h
  obtain ⟨sp, _, h⟩ := bind_ok h
  obtain ⟨t, ht, h⟩ := bind_ok h
  have hl1 : poolLive { p0 with sqrtP := sp, tick := t } = true := by
    unfold poolLive; simp [sqrtPriceToTick_ne_zero ht]
  refine ⟨sp, t, hl1, ?_⟩
  have hp1 : getPool (setPool s { p0 with sqrtP := sp, tick := t }) A = some { p0 with sqrtP := sp, tick := t } :=
    Sunrise.C04Interval.getPool_setPool hp rfl rfl
  unfold createPosition
  rw [hp1]
  simp only [bind, pure, err_bind, ok_bind, hl1]
  rw [if_neg c1, if_neg c2, if_neg c3, if_neg c4, if_neg c5]
  simp only [hx, ok_bind]
  exact h

/-- **`createPosition` of the FIRST position of the pool** -/
theorem createPosition_first_ok {s s' : St} {sender : Addr} {A : Nat} {lo hi : Int} {dBase dQuote : Denom}
    {aBase aQuote minBase minQuote : Int} {out : CreatePosOut} {p0 : Pool}
    (h : AccrualOK s A)
    (hc : createPosition s sender A lo hi dBase aBase dQuote aQuote minBase minQuote = .ok (s', out))
    (hp : getPool s A = some p0) (hl : poolLive p0 = false) (hsender : sender ≠ feesAddr A) : AccrualOK s' A := by
  obtain ⟨sp, t, hl1, hc1⟩ := createPosition_first_eq hc hp hl
  exact createPosition_ok (first_setPool_ok h hp hl sp t) hc1
    (Sunrise.C04Interval.getPool_setPool hp rfl rfl) hl1 hsender

/-! ## multi-pool histories -/

/-- one successful message of `Model/CL.lean` seen from pool `A`: a message on `A` (`C06Run.Step`, with its exclusions), or
    ANY message on another pool / `createPool` / a claim over positions of any pools.
    BOUNDARY: `sender ≠ feesAddr A` (a user account is not a module-derived account); for swaps on pool `B` the boundary
    `C04Store.SwapBoundary s s' B` (needed only for `WF6` of the store after, as in `C06Msg.swapExactIn_wf6_partial`). -/
inductive StepM (A : Nat) : St → St → Prop where
  | own {s s' : St} : Step A s s' → StepM A s s'
  | createPool {s : St} (base quote : Denom) (fee ratio offset : Dec) :
      StepM A s (createPool s base quote fee ratio offset).1
  | collectFees {s s' : St} {sender : Addr} {posId : Nat} {c : List (String × Int)} :
      collectFees s sender posId = .ok (s', c) → sender ≠ feesAddr A → StepM A s s'
  | claimRewards {s s' : St} {sender : Addr} {ids : List Nat} {c : List (String × Int)} :
      claimRewards s sender ids = .ok (s', c) → sender ≠ feesAddr A → StepM A s s'
  | allocateIncentive {s s' : St} {B : Nat} {sender : Addr} {coins : List (String × Int)} :
      allocateIncentive s B sender coins = .ok s' → B ≠ A → sender ≠ feesAddr A → StepM A s s'
  | decreaseLiquidity {s s' : St} {sender : Addr} {posId : Nat} {liq : Dec} {ab aq : Int} {pos : Position} :
      decreaseLiquidity s sender posId liq = .ok (s', ab, aq) → getPosition s posId = some pos → pos.pool ≠ A →
      sender ≠ feesAddr A → StepM A s s'
  | createPosition {s s' : St} {B : Nat} {sender : Addr} {lo hi : Int} {dBase dQuote : Denom}
      {aBase aQuote minBase minQuote : Int} {out : CreatePosOut} :
      createPosition s sender B lo hi dBase aBase dQuote aQuote minBase minQuote = .ok (s', out) → B ≠ A →
      sender ≠ feesAddr A → StepM A s s'
  | increaseLiquidity {s s' : St} {sender : Addr} {posId : Nat} {aBase aQuote minBase minQuote : Int}
      {out : CreatePosOut} {pos : Position} :
      increaseLiquidity s sender posId aBase aQuote minBase minQuote = .ok (s', out) → getPosition s posId = some pos →
      pos.pool ≠ A → sender ≠ feesAddr A → StepM A s s'
  | swapExactIn {s s' : St} {B : Nat} {sender : Addr} {din dout : Denom} {amount out : Int} {fe : Bool} :
      swapExactIn s sender B din amount dout fe = .ok (s', out) → C04Store.SwapBoundary s s' B → B ≠ A →
      sender ≠ feesAddr A → StepM A s s'
  | swapExactOut {s s' : St} {B : Nat} {sender : Addr} {din dout : Denom} {amount ain : Int} {fe : Bool} :
      swapExactOut s sender B dout amount din fe = .ok (s', ain) → C04Store.SwapBoundary s s' B → B ≠ A →
      sender ≠ feesAddr A → StepM A s s'

inductive ReachM (A : Nat) (s0 : St) : St → Prop where
  | base : ReachM A s0 s0
  | step {s s' : St} : ReachM A s0 s → StepM A s s' → ReachM A s0 s'

theorem stepM_ok {A : Nat} {s s' : St} (h : AccrualOK s A) (st : StepM A s s') : AccrualOK s' A := by
  have hinj := feesInj A
  cases st with
  | own st => exact step_ok h st
  | createPool b q f r o => exact createPool_ok h b q f r o
  | collectFees hc hs => exact collectFees_any_ok h hc hinj hs
  | claimRewards hc hs => exact claimRewards_any_ok h hc hinj hs
  | allocateIncentive hc hne hs => exact allocateIncentive_other_ok h hc hne hinj hs
  | decreaseLiquidity hc hp hne hs => exact decreaseLiquidity_other_ok h hc hp hne hinj hs
  | createPosition hc hne hs => exact createPosition_other_ok h hc hne hs
  | increaseLiquidity hc hp hne hs => exact increaseLiquidity_other_ok h hc hp hne hinj hs
  | swapExactIn hc hb hne hs => exact swapExactIn_other_ok h hc hb hne hinj hs
  | swapExactOut hc hb hne hs => exact swapExactOut_other_ok h hc hb hne hinj hs

/-- **`AccrualOK` of pool `A` along every multi-pool history** (partial: the exclusions of `C06Run.Step` for messages ON
    pool `A` remain, see the header) -/
theorem accrualOK_reach_multi_partial {A : Nat} {s0 s : St} (h0 : AccrualOK s0 A)
    (h : ReachM A s0 s) : AccrualOK s A := by
  induction h with
  | base => exact h0
  | step _ st ih => exact stepM_ok ih st

/-- **C06 on the store-level model, multi-pool histories**: the statement of `C06Run.store_fees_backed_partial` for pool `A`
    in every store reached by messages on ANY pools (`ReachM`) -/
theorem store_fees_backed_multi_partial {A : Nat} {s0 s : St} (h0 : AccrualOK s0 A) (h : ReachM A s0 s) :
    WF6 s ∧ ∃ k : Int, 0 ≤ k ∧ ∀ d, ∃ a, CLAccrual.absOf s A d k = some a ∧ CLAccrual.Inv a ∧
      2 * CLAccrual.sumBy (CLAccrual.owed a) a.pos
        ≤ 2 * (s.bank.bal (feesAddr A) d * PREC * PREC) + k * PREC ∧
      2 * (CLAccrual.sumBy (payOf a) a.pos * PREC * PREC)
        ≤ 2 * (s.bank.bal (feesAddr A) d * PREC * PREC) + (k + a.pos.length) * PREC :=
  store_fees_backed_partial (accrualOK_reach_multi_partial h0 h) Reach.base


/-! ## messages on ANY pool, no exclusion -/

theorem createPosition_any_ok {A B : Nat} {s s' : St} {sender : Addr} {lo hi : Int} {dBase dQuote : Denom}
    {aBase aQuote minBase minQuote : Int} {out : CreatePosOut} (h : AccrualOK s A)
    (hc : createPosition s sender B lo hi dBase aBase dQuote aQuote minBase minQuote = .ok (s', out))
    (hs : sender ≠ feesAddr A) : AccrualOK s' A := by
  by_cases hne : B = A
  · subst hne
    obtain ⟨p0, _, _, _, _, _, _, _, _, _, hp, _⟩ := createPosition_inv_bank hc
    cases hl : poolLive p0 with
    | true => exact createPosition_ok h hc hp hl hs
    | false => exact createPosition_first_ok h hc hp hl hs
  · exact createPosition_other_ok h hc hne hs

theorem decreaseLiquidity_any_ok {A : Nat} {s s' : St} {sender : Addr} {posId : Nat} {liq : Dec} {ab aq : Int}
    (h : AccrualOK s A) (hc : decreaseLiquidity s sender posId liq = .ok (s', ab, aq)) (hs : sender ≠ feesAddr A) :
    AccrualOK s' A := by
  obtain ⟨pos, _, _, _, _, _, _, _, _, _, _, hpos, _⟩ := decreaseLiquidity_inv_bank hc
  have hm : pos ∈ s.positions := List.mem_of_find?_eq_some hpos
  have hid : pos.id = posId := getPosition_id hpos
  by_cases hA : pos.pool = A
  · have hmp : pos ∈ poolPositions s A := mem_poolPositions.mpr ⟨hm, hA⟩
    obtain ⟨i, hi⟩ := List.getElem?_of_mem hmp
    have huniq : ∀ q ∈ s.positions, q.id = posId → q = pos := by
      intro q hq e
      have := getPosition_of_mem h.wf.ids_nodup hq
      rw [e, hpos] at this
      exact (Option.some.inj this).symm
    by_cases hr : ∃ q ∈ s.positions, q.pool = A ∧ q.id ≠ posId
    · exact decreaseLiquidity_ok h hc ⟨pos, hi, hid⟩ hs (Or.inr hr)
    · by_cases he : liq.raw = pos.liq.raw
      · refine decreaseLiquidity_last_ok h hc ⟨pos, hi, hid⟩ hs ?_ ?_
        · intro q hq e; rw [huniq q hq e]; exact he
        · intro q hq hqA
          by_cases e : q.id = posId
          · exact e
          · exact absurd ⟨q, hq, hqA, e⟩ hr
      · refine decreaseLiquidity_ok h hc ⟨pos, hi, hid⟩ hs (Or.inl ?_)
        intro q hq e; rw [huniq q hq e]; exact he
  · exact decreaseLiquidity_other_ok h hc hpos hA (feesInj A) hs

theorem increaseLiquidity_any_ok {A : Nat} {s s' : St} {sender : Addr} {posId : Nat} {aBase aQuote minBase minQuote : Int}
    {out : CreatePosOut} (h : AccrualOK s A)
    (hc : increaseLiquidity s sender posId aBase aQuote minBase minQuote = .ok (s', out)) (hs : sender ≠ feesAddr A) :
    AccrualOK s' A := by
  obtain ⟨pos, s1, wb, wq, p, _, hd, _, hcp⟩ := increaseLiquidity_parts hc
  exact createPosition_any_ok (decreaseLiquidity_any_ok h hd hs) hcp hs

theorem allocateIncentive_any_ok {A B : Nat} {s s' : St} {sender : Addr} {coins : List (String × Int)}
    (h : AccrualOK s A) (hc : allocateIncentive s B sender coins = .ok s') (hs : sender ≠ feesAddr A) : AccrualOK s' A := by
  by_cases hne : B = A
  · subst hne; exact allocateIncentive_ok h hc hs
  · exact allocateIncentive_other_ok h hc hne (feesInj A) hs

/-- one successful message of `Model/CL.lean` (EVERY message, on ANY pool), seen from pool `A`.  No exclusion; the only
    side conditions are the documented BOUNDARIES: `sender ≠ feesAddr A` (and `≠ poolAddr A` for swaps on `A`): a user
    account is not a module-derived account; for a swap on pool `B`, `C04Store.SwapBoundary s s' B` (price grid, C04);
    for `swapExactOut` on `A` itself, `FeesNonneg` of its trace (as in `C06Run`). -/
inductive StepA (A : Nat) : St → St → Prop where
  | createPool {s : St} (base quote : Denom) (fee ratio offset : Dec) :
      StepA A s (createPool s base quote fee ratio offset).1
  | collectFees {s s' : St} {sender : Addr} {posId : Nat} {c : List (String × Int)} :
      collectFees s sender posId = .ok (s', c) → sender ≠ feesAddr A → StepA A s s'
  | claimRewards {s s' : St} {sender : Addr} {ids : List Nat} {c : List (String × Int)} :
      claimRewards s sender ids = .ok (s', c) → sender ≠ feesAddr A → StepA A s s'
  | allocateIncentive {s s' : St} {B : Nat} {sender : Addr} {coins : List (String × Int)} :
      allocateIncentive s B sender coins = .ok s' → sender ≠ feesAddr A → StepA A s s'
  | decreaseLiquidity {s s' : St} {sender : Addr} {posId : Nat} {liq : Dec} {ab aq : Int} :
      decreaseLiquidity s sender posId liq = .ok (s', ab, aq) → sender ≠ feesAddr A → StepA A s s'
  | createPosition {s s' : St} {B : Nat} {sender : Addr} {lo hi : Int} {dBase dQuote : Denom}
      {aBase aQuote minBase minQuote : Int} {out : CreatePosOut} :
      createPosition s sender B lo hi dBase aBase dQuote aQuote minBase minQuote = .ok (s', out) →
      sender ≠ feesAddr A → StepA A s s'
  | increaseLiquidity {s s' : St} {sender : Addr} {posId : Nat} {aBase aQuote minBase minQuote : Int}
      {out : CreatePosOut} :
      increaseLiquidity s sender posId aBase aQuote minBase minQuote = .ok (s', out) → sender ≠ feesAddr A → StepA A s s'
  | swapExactIn {s s' : St} (B : Nat) {sender : Addr} {din dout : Denom} {amount out : Int} {fe : Bool} :
      swapExactIn s sender B din amount dout fe = .ok (s', out) → C04Store.SwapBoundary s s' B →
      sender ≠ poolAddr A → sender ≠ feesAddr A → StepA A s s'
  | swapExactOut {s s' : St} (B : Nat) {sender : Addr} {din dout : Denom} {amount ain : Int} {fe : Bool} :
      swapExactOut s sender B dout amount din fe = .ok (s', ain) → C04Store.SwapBoundary s s' B →
      (B = A → Sunrise.C06RunFees.FeesNonneg s'.lastTrace) → sender ≠ poolAddr A → sender ≠ feesAddr A → StepA A s s'

inductive ReachA (A : Nat) (s0 : St) : St → Prop where
  | base : ReachA A s0 s0
  | step {s s' : St} : ReachA A s0 s → StepA A s s' → ReachA A s0 s'

theorem stepA_ok {A : Nat} {s s' : St} (h : AccrualOK s A) (st : StepA A s s') : AccrualOK s' A := by
  have hinj := feesInj A
  cases st with
  | createPool b q f r o => exact createPool_ok h b q f r o
  | collectFees hc hs => exact collectFees_any_ok h hc hinj hs
  | claimRewards hc hs => exact claimRewards_any_ok h hc hinj hs
  | allocateIncentive hc hs => exact allocateIncentive_any_ok h hc hs
  | decreaseLiquidity hc hs => exact decreaseLiquidity_any_ok h hc hs
  | createPosition hc hs => exact createPosition_any_ok h hc hs
  | increaseLiquidity hc hs => exact increaseLiquidity_any_ok h hc hs
  | swapExactIn B hc hb h1 h2 =>
    by_cases hne : B = A
    · subst hne; exact swapExactIn_ok_partial h hc hb h1 h2
    · exact swapExactIn_other_ok h hc hb hne hinj h2
  | swapExactOut B hc hb hf h1 h2 =>
    by_cases hne : B = A
    · subst hne; exact swapExactOut_ok_partial h hc hb (hf rfl) h1 h2
    · exact swapExactOut_other_ok h hc hb hne hinj h2

/-- **`AccrualOK` of pool `A` along EVERY history of successful messages** (all pools, first / last positions and pool
    resets included); `_partial` only because of the swap boundaries inherited from C04 / `C06Run`
    (`SwapBoundary`; `FeesNonneg` for exact-out swaps on `A`) -/
theorem accrualOK_reachA_partial {A : Nat} {s0 s : St} (h0 : AccrualOK s0 A) (h : ReachA A s0 s) : AccrualOK s A := by
  induction h with
  | base => exact h0
  | step _ st ih => exact stepA_ok ih st

/-- **C06 on the store-level model, all histories**: `C06Run.store_fees_backed_partial` for every store reached by `ReachA` -/
theorem store_fees_backed_all_partial {A : Nat} {s0 s : St} (h0 : AccrualOK s0 A) (h : ReachA A s0 s) :
    WF6 s ∧ ∃ k : Int, 0 ≤ k ∧ ∀ d, ∃ a, CLAccrual.absOf s A d k = some a ∧ CLAccrual.Inv a ∧
      2 * CLAccrual.sumBy (CLAccrual.owed a) a.pos
        ≤ 2 * (s.bank.bal (feesAddr A) d * PREC * PREC) + k * PREC ∧
      2 * (CLAccrual.sumBy (payOf a) a.pos * PREC * PREC)
        ≤ 2 * (s.bank.bal (feesAddr A) d * PREC * PREC) + (k + a.pos.length) * PREC :=
  store_fees_backed_partial (accrualOK_reachA_partial h0 h) Reach.base

/-! ## non-vacuity: a two-pool history from `C06Msg.exF` -/

/-- `exF` plus a second pool (id 1) -/
def exM : St := (createPool exF "base" "quote" ⟨3000000000000000⟩ ⟨10 * PREC⟩ ⟨0⟩).1

theorem exM_cp_ok : okC (createPosition exM "a0" 1 (-1) 1 "base" 1000000 "quote" 1000000 0 0) = true := by decide +kernel

/-- pool 0 observed along: `createPool` (pool 1), then the FIRST position of pool 1 -/
example : ∃ r, createPosition exM "a0" 1 (-1) 1 "base" 1000000 "quote" 1000000 0 0 = .ok r ∧ ReachM 0 exF r.1 ∧
    AccrualOK r.1 0 := by
  have h1 := exM_cp_ok
  cases hr : createPosition exM "a0" 1 (-1) 1 "base" 1000000 "quote" 1000000 0 0 with
  | err e => rw [hr] at h1; simp [okC] at h1
  | panic e => rw [hr] at h1; simp [okC] at h1
  | ok r =>
    obtain ⟨s', out⟩ := r
    have hreach : ReachM 0 exF s' :=
      .step (.step .base (.createPool "base" "quote" ⟨3000000000000000⟩ ⟨10 * PREC⟩ ⟨0⟩))
        (.createPosition hr (by decide) (by decide))
    exact ⟨_, rfl, hreach, accrualOK_reach_multi_partial exF_ok hreach⟩

/-! ### non-vacuity of the first / last position cases: withdraw BOTH positions of pool 0 of `exF` (the second withdrawal
    empties and resets the pool), then open a position again (FIRST position, price re-initialised) -/

def exW1 : St := C04Store.run exF (.decreaseLiquidity "a1" 1 ⟨555555555555555555555556⟩)
def exW2 : St := C04Store.run exW1 (.decreaseLiquidity "a0" 0 ⟨1462475295574264369794569⟩)
def exW3 : St := C04Store.run exW2 (.createPosition "a0" 0 (-1) 1 "base" 1000000 "quote" 1000000 0 0)

theorem exW_ok : okD (decreaseLiquidity exF "a1" 1 ⟨555555555555555555555556⟩) = true ∧
    okD (decreaseLiquidity exW1 "a0" 0 ⟨1462475295574264369794569⟩) = true ∧
    exW2.positions.length = 0 ∧ (exW2.pools.all fun p => !poolLive p) = true ∧
    okC (createPosition exW2 "a0" 0 (-1) 1 "base" 1000000 "quote" 1000000 0 0) = true ∧
    exW3.positions.length = 1 := by decide +kernel

example : ReachA 0 exF exW3 ∧ AccrualOK exW3 0 := by
  obtain ⟨h1, h2, _, _, h3, _⟩ := exW_ok
  have r1 : ReachA 0 exF exW1 := by
    cases hr : decreaseLiquidity exF "a1" 1 ⟨555555555555555555555556⟩ with
    | err e => rw [hr] at h1; simp [okD] at h1
    | panic e => rw [hr] at h1; simp [okD] at h1
    | ok r =>
      obtain ⟨s', ab, aq⟩ := r
      have e : exW1 = s' := by
        show C04Store.commit exF (decreaseLiquidity exF "a1" 1 ⟨555555555555555555555556⟩) = s'
        rw [hr]; rfl
      rw [e]; exact .step .base (.decreaseLiquidity hr (by decide))
  have r2 : ReachA 0 exF exW2 := by
    cases hr : decreaseLiquidity exW1 "a0" 0 ⟨1462475295574264369794569⟩ with
    | err e => rw [hr] at h2; simp [okD] at h2
    | panic e => rw [hr] at h2; simp [okD] at h2
    | ok r =>
      obtain ⟨s', ab, aq⟩ := r
      have e : exW2 = s' := by
        show C04Store.commit exW1 (decreaseLiquidity exW1 "a0" 0 ⟨1462475295574264369794569⟩) = s'
        rw [hr]; rfl
      rw [e]; exact .step r1 (.decreaseLiquidity hr (by decide))
  have r3 : ReachA 0 exF exW3 := by
    cases hr : createPosition exW2 "a0" 0 (-1) 1 "base" 1000000 "quote" 1000000 0 0 with
    | err e => rw [hr] at h3; simp [okC] at h3
    | panic e => rw [hr] at h3; simp [okC] at h3
    | ok r =>
      obtain ⟨s', out⟩ := r
      have e : exW3 = s' := by
        show C04Store.commit exW2 (createPosition exW2 "a0" 0 (-1) 1 "base" 1000000 "quote" 1000000 0 0) = s'
        rw [hr]; rfl
      rw [e]; exact .step r2 (.createPosition hr (by decide))
  exact ⟨r3, accrualOK_reachA_partial exF_ok r3⟩

end Sunrise.C06Run2

#print axioms Sunrise.C06Run2.absOf_frame
#print axioms Sunrise.C06Run2.accrualOK_reach_multi_partial
#print axioms Sunrise.C06Run2.store_fees_backed_multi_partial
#print axioms Sunrise.C06Run2.stepM_ok
#print axioms Sunrise.C06Run2.accrualOK_reachA_partial
#print axioms Sunrise.C06Run2.store_fees_backed_all_partial
#print axioms Sunrise.C06Run2.createPosition_first_ok
#print axioms Sunrise.C06Run2.decreaseLiquidity_last_ok
#print axioms Sunrise.C06Run2.feesAddr_inj
