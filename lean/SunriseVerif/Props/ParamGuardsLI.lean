import SunriseVerif.Props.ParamGuards
import SunriseVerif.Gen.KernelsParamsLI
import SunriseVerif.Model.Mint
/-! Parameter guards of one module: see `Props/ParamGuards.lean`. -/
namespace Sunrise.ParamGuards
open Sunrise Sunrise.Gen.KernelsParamsLI

theorem li_ratio (x : Dec) : li_ratioRejected x = false ↔ 0 ≤ x.raw ∧ x.raw ≤ PREC := unit_interval x
theorem li_epochBlocks (n : Int) : li_epochBlocksRejected n = false ↔ 0 < n := period n

/-- THE MINT MODEL'S `ratioValid` IS WHAT x/liquidityincentive's `Params.Validate` ACCEPTS -/
theorem mint_ratioValid_iff (x : Dec) : Mint.ratioValid x = !li_ratioRejected x := by
  have h := li_ratio x
  unfold Mint.ratioValid
  cases hr : li_ratioRejected x
  · have := h.1 hr; simp [this.1, this.2]
  · have : ¬ (0 ≤ x.raw ∧ x.raw ≤ PREC) := fun c => by have := h.2 c; simp_all
    simp only [Bool.not_true, Bool.and_eq_false_imp, decide_eq_true_eq, decide_eq_false_iff_not]
    intro h0 h1; exact this ⟨h0, h1⟩

example : li_ratioRejected ⟨1500000000000000000⟩ = true ∧ li_ratioRejected ⟨-500000000000000000⟩ = true ∧ li_ratioRejected ⟨PREC⟩ = false := by decide

end Sunrise.ParamGuards
