import SunriseVerif.Props.C06Msg2
import SunriseVerif.Lemmas.C06RunFees

/-!
C06 (assembly over histories) — a theorem about the store-level model `Model/CL.lean` ALONE.

`AccrualOK s pool` := `WF6 s` ∧ the pool and its accumulator record exist ∧ for SOME rounding counter `k` the abstraction
`CLAccrualAbs.absOf s pool d k` satisfies `CLAccrual.Inv` at EVERY denom `d`.  (`k` is existential: the message theorems
move it — a claim by 1, a withdrawal by 2 — and the store does not record it; `Inv.k_nonneg` gives `0 ≤ k`.)
ONE pool: the per-message refinement theorems are per pool and no frame lemma "a message on pool A leaves `absOf` of pool B
alone" exists yet, so the history theorem is about histories of messages that address the pool under observation.

PROVED
2.  per message, `AccrualOK s pool → <message> = .ok … → AccrualOK s' pool`:
    `collectFees_ok`, `claimRewards_ok` (ids of positions of the pool), `allocateIncentive_ok` (`inv_fold_guardAll`),
    `decreaseLiquidity_ok` (partial, or full with another position remaining), `createPosition_ok` (live pool),
    `increaseLiquidity_ok` (another position remaining), `swapExactIn_ok_partial`, `swapExactOut_ok_partial`.
    Swaps: `inv_fold_trace` — `CLAccrual.Inv` along the fold of the trace-derived operations: the cross / move guards of
    `CLAccrual` are those of `CLBook` on the same cursor / gross (simulation), obtained from `C04Store.SwapBoundary`
    (moves) + the PROVED crossing guards (`C04Store.swapSide_of_swapSide'_*`: `iterOK_init/iterOK_cross/guarded_of_moves`);
    the fee guards `0 ≤ f` are PROVED for exact-in (`Lemmas/C06RunFees.lean: swapExactIn_feesNonneg`, loop induction from
    `C05Loop.stepFee_nonneg`, no side condition) and a HYPOTHESIS (`FeesNonneg s'.lastTrace`) for exact-out.
3.  `Step` / `Reach` (histories of such messages, any length), `accrualOK_reach_partial`, base case
    `accrualOK_of_feeFree`, and `store_fees_backed_partial`: in every reached store, for some `k ≥ 0`, at every denom,
    `2·Σ owed ≤ 2·(fee account balance)·10^36 + k·10^18` and
    `2·Σ pay·10^36 ≤ 2·balance·10^36 + (k + #positions)·10^18`, `pay` = what `prepareClaimableFees` would pay now.
Non-vacuity: `exF_ok` (base), histories with a withdrawal, an exact-in swap and an exact-out swap from `C06Msg.exF`.

NOT PROVED / EXCLUDED: first position of a pool, withdrawal of the last position of a pool (pool reset), messages on
other pools and `createPool` (frame), `FeesNonneg` for exact-out, `SwapBoundary` (price grid; documented boundary of C04).
-/

set_option linter.unusedVariables false
set_option linter.unusedSimpArgs false
namespace Sunrise.C06Run
open Sunrise Sunrise.CL Sunrise.C06Refine Sunrise.C06Msg Sunrise.C06Msg2
open Sunrise.C06RunFees (FeesNonneg swapExactIn_feesNonneg)

/-- the accrual invariant of the abstraction of pool `pool` at every denom, rounding counter `k` -/
def HInv (s : St) (pool : Nat) (k : Int) : Prop := ∀ d b, CLAccrual.absOf s pool d k = some b → CLAccrual.Inv b

/-- **the store-level accrual invariant of one pool** -/
structure AccrualOK (s : St) (pool : Nat) : Prop where
  wf : WF6 s
  ex : ∃ p acc, getPool s pool = some p ∧ getAccum s pool = some acc
  inv : ∃ k, HInv s pool k

theorem AccrualOK.abs {s : St} {pool : Nat} (h : AccrualOK s pool) (d : String) (k : Int) :
    ∃ a, CLAccrual.absOf s pool d k = some a := by
  obtain ⟨p, acc, hp, ha⟩ := h.ex
  exact ⟨_, absOf_eq hp ha⟩

theorem accrualOK_mk {s : St} {pool : Nat} {d : String} {k : Int} {a : ASt} (hw : WF6 s)
    (habs : CLAccrual.absOf s pool d k = some a) (hInv : HInv s pool k) : AccrualOK s pool := by
  obtain ⟨p, acc, hp, ha, _⟩ := absOf_some habs
  exact ⟨hw, ⟨p, acc, hp, ha⟩, ⟨k, hInv⟩⟩

/-- the accrual invariant along a fold of abstract steps whose guards hold in every state -/
theorem inv_fold_guardAll (ops : List CLAccrual.Op) : ∀ (a : ASt), CLAccrual.Inv a →
    (∀ op ∈ ops, ∀ x : ASt, op.guard x) → CLAccrual.Inv (ops.foldl CLAccrual.step a) := by
  induction ops with
  | nil => intro a h _; exact h
  | cons op ops ih =>
    intro a h hg
    simp only [List.foldl_cons]
    exact ih _ (Sunrise.C06A.inv_step _ _ h (hg op List.mem_cons_self a))
      (fun o ho x => hg o (List.mem_cons_of_mem _ ho) x)

/-! ## 2. per message -/

theorem collectFees_ok {s s' : St} {sender : Addr} {posId i : Nat} {c : List (String × Int)} {pool : Nat}
    (h : AccrualOK s pool) (hc : collectFees s sender posId = .ok (s', c))
    (hidx : AtIndex s pool posId i) (hsender : sender ≠ feesAddr pool) : AccrualOK s' pool := by
  obtain ⟨k, hInv⟩ := h.inv
  obtain ⟨a, habs⟩ := h.abs "" k
  obtain ⟨pos, hi, hid⟩ := hidx
  obtain ⟨⟨a', e1, _⟩, _, _, _, hw', hInv'⟩ := claim_refines_wf h.wf hc habs hi hid hInv hsender
  exact accrualOK_mk hw' e1 hInv'

theorem claimRewards_ok {s s' : St} {sender : Addr} {ids idxs : List Nat} {c : List (String × Int)} {pool : Nat}
    (h : AccrualOK s pool) (hc : claimRewards s sender ids = .ok (s', c))
    (hidx : List.Forall₂ (AtIndex s pool) ids idxs) (hsender : sender ≠ feesAddr pool) : AccrualOK s' pool := by
  obtain ⟨k, hInv⟩ := h.inv
  obtain ⟨a, habs⟩ := h.abs "" k
  obtain ⟨a', e1, _, hw', hInv', _⟩ := claimRewards_refines_partial h.wf hc habs hidx hInv hsender
  exact accrualOK_mk hw' e1 hInv'

theorem allocateIncentive_ok {s s' : St} {sender : Addr} {coins : List (String × Int)} {pool : Nat}
    (h : AccrualOK s pool) (hc : allocateIncentive s pool sender coins = .ok s')
    (hsender : sender ≠ feesAddr pool) : AccrualOK s' pool := by
  obtain ⟨k, hInv⟩ := h.inv
  obtain ⟨a, habs⟩ := h.abs "" k
  obtain ⟨e1, _⟩ := incentive_refines hc habs h.wf.sorted hsender
  refine accrualOK_mk (allocateIncentive_wf6 h.wf hc) e1 ?_
  intro d b' hb'
  obtain ⟨b, hb⟩ := h.abs d k
  obtain ⟨f1, g, _⟩ := incentive_refines hc hb h.wf.sorted hsender
  rw [f1] at hb'
  have e := Option.some.inj hb'; subst e
  exact inv_fold_guardAll _ _ (hInv d b hb) g

/-- `decreaseLiquidity` of a position of the pool: partial, or full with another position remaining in the pool -/
theorem decreaseLiquidity_ok {s s' : St} {sender : Addr} {posId i : Nat} {liq : Dec} {ab aq : Int} {pool : Nat}
    (h : AccrualOK s pool) (hc : decreaseLiquidity s sender posId liq = .ok (s', ab, aq))
    (hidx : AtIndex s pool posId i) (hsender : sender ≠ feesAddr pool)
    (hrest : (∀ pos ∈ s.positions, pos.id = posId → liq.raw ≠ pos.liq.raw) ∨
      ∃ q ∈ s.positions, q.pool = pool ∧ q.id ≠ posId) : AccrualOK s' pool := by
  obtain ⟨k, hInv⟩ := h.inv
  obtain ⟨a, habs⟩ := h.abs "" k
  obtain ⟨pos, hi, hid⟩ := hidx
  have hmem := (mem_poolPositions.mp (List.mem_of_getElem? hi)).1
  by_cases hall : liq.raw = pos.liq.raw
  · have hr : ∃ q ∈ s.positions, q.pool = pool ∧ q.id ≠ posId := by
      rcases hrest with hr | hr
      · exact absurd hall (hr pos hmem hid)
      · exact hr
    obtain ⟨⟨a', e1, _⟩, _, _, _, _, hw', hInv'⟩ :=
      decreaseLiquidity_full_refines h.wf hc habs hi hid hInv hsender hall hr
    exact accrualOK_mk hw' e1 hInv'
  · obtain ⟨⟨a', e1, _⟩, _, _, _, hw', hInv'⟩ := decreaseLiquidity_refines h.wf hc habs hi hid hInv hsender hall
    exact accrualOK_mk hw' e1 hInv'

/-- `createPosition` on a live pool (a pool that carries a price, i.e. not the first position of the pool) -/
theorem createPosition_ok {s s' : St} {sender : Addr} {pool : Nat} {lo hi : Int} {dBase dQuote : Denom}
    {aBase aQuote minBase minQuote : Int} {out : CreatePosOut} {p0 : Pool}
    (h : AccrualOK s pool)
    (hc : createPosition s sender pool lo hi dBase aBase dQuote aQuote minBase minQuote = .ok (s', out))
    (hp : getPool s pool = some p0) (hlive : poolLive p0 = true) (hsender : sender ≠ feesAddr pool) :
    AccrualOK s' pool := by
  obtain ⟨k, hInv⟩ := h.inv
  obtain ⟨a, habs⟩ := h.abs "" k
  obtain ⟨δ, e1, _⟩ := createPosition_refines h.wf hc hp hlive habs (hInv _ _ habs) hsender
  exact accrualOK_mk (createPosition_wf6 h.wf hc) e1 (createPosition_hInv h.wf hc hp hlive hInv hsender)

/-- `increaseLiquidity` on a position of the pool while the pool keeps another position -/
theorem increaseLiquidity_ok {s s' : St} {sender : Addr} {posId i : Nat} {aBase aQuote minBase minQuote : Int}
    {out : CreatePosOut} {pool : Nat}
    (h : AccrualOK s pool) (hc : increaseLiquidity s sender posId aBase aQuote minBase minQuote = .ok (s', out))
    (hidx : AtIndex s pool posId i) (hsender : sender ≠ feesAddr pool)
    (hrest : ∃ q ∈ s.positions, q.pool = pool ∧ q.id ≠ posId) : AccrualOK s' pool := by
  obtain ⟨k, hInv⟩ := h.inv
  obtain ⟨a, habs⟩ := h.abs "" k
  obtain ⟨pos, hi, hid⟩ := hidx
  obtain ⟨a', δ, e1, _, _, _, _, _, hw'⟩ := increaseLiquidity_refines' h.wf hc habs hi hid hInv hsender hrest
  exact accrualOK_mk hw' e1 (increaseLiquidity_hInv h.wf hc habs hi hid hInv hsender hrest)

/-! ## 2'. swaps -/

/- `FeesNonneg evs` (`Lemmas/C06RunFees.lean`) := `∀ f, SwapEv.fee f ∈ evs → 0 ≤ f`: every fee booked by the trace is
   non-negative (what the abstract `fee f` guard asks).  PROVED for every successful `swapExactIn`
   (`C06RunFees.swapExactIn_feesNonneg`, by induction over the loop from `C05Loop.stepFee_nonneg`); a hypothesis for
   `swapExactOut` (there the step fee is `⌈in·⌈f/(1−f)⌉⌉`, non-negative only for in ≥ 0 and a fee rate in [0,1)). -/

open Sunrise.C04RefineLoop (bookOps) in
open Sunrise.C04StoreL (Guarded absBook) in
open Sunrise.C06Refine2 (accOps) in
/-- **the accrual invariant along the fold of a swap trace**: the cross / move guards of `CLAccrual` are the `CLBook` ones
    (same cursor, same gross), so `Guarded (bookOps evs)` of the bookkeeping abstraction supplies them; the fee guards are
    `FeesNonneg` -/
theorem inv_fold_trace (isIn : Bool) : ∀ (evs : List SwapEv) (b : CLBook.St) (a : ASt),
    a.cur = b.tick → a.gross = b.gross → Guarded (bookOps evs) b → FeesNonneg evs →
    CLAccrual.Inv a → CLAccrual.Inv ((accOps isIn evs).foldl CLAccrual.step a) := by
  intro evs
  induction evs with
  | nil => intro b a _ _ _ _ h; exact h
  | cons e es ih =>
    intro b a hc hg hG hf hI
    have hf' : FeesNonneg es := fun f hm => hf f (List.mem_cons_of_mem _ hm)
    have eacc : accOps isIn (e :: es) = CLAccrual.evOps isIn e ++ accOps isIn es := by
      unfold accOps; exact List.flatMap_cons ..
    rw [eacc, List.foldl_append]
    cases e with
    | fee f =>
      have hG' : Guarded (bookOps es) b := hG
      cases isIn
      · exact ih b a hc hg hG' hf' hI
      · exact ih b (CLAccrual.step a (.fee f)) hc hg hG' hf'
          (Sunrise.C06A.inv_step _ (.fee f) hI (hf f List.mem_cons_self))
    | step n x y =>
      have hG' : Guarded (bookOps es) b := hG
      exact ih b a hc hg hG' hf' hI
    | move t =>
      have e : bookOps (SwapEv.move t :: es) = CLBook.Op.moveWithin t :: bookOps es := rfl
      rw [e] at hG
      obtain ⟨g, hG'⟩ := hG
      have g' : (CLAccrual.Op.moveWithin t).guard a := by
        show (a.cur ≤ t ∧ ∀ u, a.cur < u → u ≤ t → a.gross u = 0) ∨ (t ≤ a.cur ∧ ∀ u, t < u → u ≤ a.cur → a.gross u = 0)
        rw [hc, hg]; exact g
      exact ih (CLBook.step b (.moveWithin t)) (CLAccrual.step a (.moveWithin t)) rfl hg hG' hf'
        (Sunrise.C06A.inv_step _ _ hI g')
    | cross up t =>
      have e : bookOps (SwapEv.cross up t :: es) = (if up then CLBook.Op.crossUp t else CLBook.Op.crossDown t) :: bookOps es := rfl
      rw [e] at hG
      cases up
      · obtain ⟨g, hG'⟩ := hG
        have g' : (CLAccrual.Op.crossDown t).guard a := by
          show t ≤ a.cur ∧ ∀ u, t < u → u ≤ a.cur → a.gross u = 0
          rw [hc, hg]; exact g
        exact ih (CLBook.step b (.crossDown t)) (CLAccrual.step a (.crossDown t)) rfl hg hG' hf'
          (Sunrise.C06A.inv_step _ _ hI g')
      · obtain ⟨g, hG'⟩ := hG
        have g' : (CLAccrual.Op.crossUp t).guard a := by
          show a.cur < t ∧ ∀ u, a.cur < u → u < t → a.gross u = 0
          rw [hc, hg]; exact g
        exact ih (CLBook.step b (.crossUp t)) (CLAccrual.step a (.crossUp t)) rfl hg hG' hf'
          (Sunrise.C06A.inv_step _ _ hI g')

/-- `swapExactIn` on the pool.  PARTIAL: under the documented boundary `C04Store.SwapBoundary` (cursor moves inside a
    bucket admissible, tick prices non-zero: the price grid).  The cross guards are PROVED
    (`C04Store.swapSide_of_swapSide'_*`), and so are the fee guards (`C06RunFees.swapExactIn_feesNonneg`). -/
theorem swapExactIn_ok_partial {s s' : St} {sender : Addr} {pool : Nat} {din dout : Denom} {amount out : Int} {fe : Bool}
    (h : AccrualOK s pool) (hc : swapExactIn s sender pool din amount dout fe = .ok (s', out))
    (hb : C04Store.SwapBoundary s s' pool)
    (h1 : sender ≠ poolAddr pool) (h2 : sender ≠ feesAddr pool) : AccrualOK s' pool := by
  have hfee : FeesNonneg s'.lastTrace := swapExactIn_feesNonneg hc
  obtain ⟨k, hInv⟩ := h.inv
  obtain ⟨p, acc, hp, hacc⟩ := h.ex
  have side := C04Store.swapSide_of_swapSide'_exactIn h.wf.inv hc (C04Store.swapSide'_of_boundary_exactIn h.wf.inv hc hb)
  have G := side.1 p hp
  have key : ∀ d, ∃ a', CLAccrual.absOf s' pool d k = some a' ∧ CLAccrual.Inv a' := by
    intro d
    have hb0 := absOf_eq (denom := d) (k := k) hp hacc
    obtain ⟨a', e1, sr, _⟩ := Sunrise.C06Refine2.swap_refines_in hc hb0 h.wf.sorted h.wf.tick_keys_nodup h1 h2
    exact ⟨a', e1, sr.inv (inv_fold_trace _ _ (Sunrise.C04StoreL.absBook s pool p) _ rfl rfl G hfee (hInv d _ hb0))⟩
  obtain ⟨a0, e0, _⟩ := key ""
  refine accrualOK_mk (swapExactIn_wf6_partial h.wf hc hb) e0 ?_
  intro d b' hb'
  obtain ⟨a', e1, i1⟩ := key d
  rw [e1] at hb'
  have e := Option.some.inj hb'; subst e
  exact i1

/-- `swapExactOut` on the pool; PARTIAL: `C04Store.SwapBoundary` as for `swapExactIn_ok_partial`, and additionally
    `FeesNonneg` of the swap's trace (each step's fee charge is non-negative; NOT derived from the loop for exact-out) -/
theorem swapExactOut_ok_partial {s s' : St} {sender : Addr} {pool : Nat} {din dout : Denom} {amount ain : Int} {fe : Bool}
    (h : AccrualOK s pool) (hc : swapExactOut s sender pool dout amount din fe = .ok (s', ain))
    (hb : C04Store.SwapBoundary s s' pool) (hfee : FeesNonneg s'.lastTrace)
    (h1 : sender ≠ poolAddr pool) (h2 : sender ≠ feesAddr pool) : AccrualOK s' pool := by
  obtain ⟨k, hInv⟩ := h.inv
  obtain ⟨p, acc, hp, hacc⟩ := h.ex
  have side := C04Store.swapSide_of_swapSide'_exactOut h.wf.inv hc (C04Store.swapSide'_of_boundary_exactOut h.wf.inv hc hb)
  have G := side.1 p hp
  have key : ∀ d, ∃ a', CLAccrual.absOf s' pool d k = some a' ∧ CLAccrual.Inv a' := by
    intro d
    have hb0 := absOf_eq (denom := d) (k := k) hp hacc
    obtain ⟨a', e1, sr, _⟩ := Sunrise.C06Refine2.swap_refines_out hc hb0 h.wf.sorted h.wf.tick_keys_nodup h1 h2
    exact ⟨a', e1, sr.inv (inv_fold_trace _ _ (Sunrise.C04StoreL.absBook s pool p) _ rfl rfl G hfee (hInv d _ hb0))⟩
  obtain ⟨a0, e0, _⟩ := key ""
  refine accrualOK_mk (swapExactOut_wf6_partial h.wf hc hb) e0 ?_
  intro d b' hb'
  obtain ⟨a', e1, i1⟩ := key d
  rw [e1] at hb'
  have e := Option.some.inj hb'; subst e
  exact i1

/-! ## 3. histories -/

/-- one successful message addressing pool `pool`, with the side condition the per-message theorem needs.
    EXCLUDED (not proved): `createPosition` of the FIRST position of a pool (pool record not live), the withdrawal of the
    LAST position of a pool (`decreaseLiquidity` of the whole liquidity / `increaseLiquidity` with no other position),
    messages addressing ANOTHER pool and `createPool` (no frame lemma for `absOf` yet).
    BOUNDARY: `sender ≠ feesAddr pool` / `poolAddr pool` (a user account is not a module-derived account); for swaps
    `C04Store.SwapBoundary` (price grid); for `swapExactOut` also `FeesNonneg` of the trace. -/
inductive Step (pool : Nat) : St → St → Prop where
  | collectFees {s s' : St} {sender : Addr} {posId i : Nat} {c : List (String × Int)} :
      collectFees s sender posId = .ok (s', c) → AtIndex s pool posId i → sender ≠ feesAddr pool → Step pool s s'
  | claimRewards {s s' : St} {sender : Addr} {ids idxs : List Nat} {c : List (String × Int)} :
      claimRewards s sender ids = .ok (s', c) → List.Forall₂ (AtIndex s pool) ids idxs → sender ≠ feesAddr pool →
      Step pool s s'
  | allocateIncentive {s s' : St} {sender : Addr} {coins : List (String × Int)} :
      allocateIncentive s pool sender coins = .ok s' → sender ≠ feesAddr pool → Step pool s s'
  | decreaseLiquidity {s s' : St} {sender : Addr} {posId i : Nat} {liq : Dec} {ab aq : Int} :
      decreaseLiquidity s sender posId liq = .ok (s', ab, aq) → AtIndex s pool posId i → sender ≠ feesAddr pool →
      ((∀ pos ∈ s.positions, pos.id = posId → liq.raw ≠ pos.liq.raw) ∨ ∃ q ∈ s.positions, q.pool = pool ∧ q.id ≠ posId) →
      Step pool s s'
  | createPosition {s s' : St} {sender : Addr} {lo hi : Int} {dBase dQuote : Denom}
      {aBase aQuote minBase minQuote : Int} {out : CreatePosOut} {p0 : Pool} :
      createPosition s sender pool lo hi dBase aBase dQuote aQuote minBase minQuote = .ok (s', out) →
      getPool s pool = some p0 → poolLive p0 = true → sender ≠ feesAddr pool → Step pool s s'
  | increaseLiquidity {s s' : St} {sender : Addr} {posId i : Nat} {aBase aQuote minBase minQuote : Int}
      {out : CreatePosOut} :
      increaseLiquidity s sender posId aBase aQuote minBase minQuote = .ok (s', out) → AtIndex s pool posId i →
      sender ≠ feesAddr pool → (∃ q ∈ s.positions, q.pool = pool ∧ q.id ≠ posId) → Step pool s s'
  | swapExactIn {s s' : St} {sender : Addr} {din dout : Denom} {amount out : Int} {fe : Bool} :
      swapExactIn s sender pool din amount dout fe = .ok (s', out) → C04Store.SwapBoundary s s' pool →
      sender ≠ poolAddr pool → sender ≠ feesAddr pool → Step pool s s'
  | swapExactOut {s s' : St} {sender : Addr} {din dout : Denom} {amount ain : Int} {fe : Bool} :
      swapExactOut s sender pool dout amount din fe = .ok (s', ain) → C04Store.SwapBoundary s s' pool →
      FeesNonneg s'.lastTrace → sender ≠ poolAddr pool → sender ≠ feesAddr pool → Step pool s s'

/-- histories of `Step`s from `s0` (any length) -/
inductive Reach (pool : Nat) (s0 : St) : St → Prop where
  | base : Reach pool s0 s0
  | step {s s' : St} : Reach pool s0 s → Step pool s s' → Reach pool s0 s'

theorem step_ok {pool : Nat} {s s' : St} (h : AccrualOK s pool) (st : Step pool s s') : AccrualOK s' pool := by
  cases st with
  | collectFees hc hi hs => exact collectFees_ok h hc hi hs
  | claimRewards hc hi hs => exact claimRewards_ok h hc hi hs
  | allocateIncentive hc hs => exact allocateIncentive_ok h hc hs
  | decreaseLiquidity hc hi hs hr => exact decreaseLiquidity_ok h hc hi hs hr
  | createPosition hc hp hl hs => exact createPosition_ok h hc hp hl hs
  | increaseLiquidity hc hi hs hr => exact increaseLiquidity_ok h hc hi hs hr
  | swapExactIn hc hb h1 h2 => exact swapExactIn_ok_partial h hc hb h1 h2
  | swapExactOut hc hb hf h1 h2 => exact swapExactOut_ok_partial h hc hb hf h1 h2

/-- **`AccrualOK` along every history** -/
theorem accrualOK_reach_partial {pool : Nat} {s0 s : St} (h0 : AccrualOK s0 pool) (h : Reach pool s0 s) :
    AccrualOK s pool := by
  induction h with
  | base => exact h0
  | step _ st ih => exact step_ok ih st

/-- base case: a `WF6` store on which no fee has been booked (every stored `DecCoins` empty), pool present, fee account
    not overdrawn -/
theorem accrualOK_of_feeFree {s : St} {pool : Nat} (hw : WF6 s) (hf : feeFree s = true)
    (hex : ∃ p acc, getPool s pool = some p ∧ getAccum s pool = some acc)
    (hbal : ∀ d, 0 ≤ s.bank.bal (feesAddr pool) d) : AccrualOK s pool :=
  ⟨hw, hex, ⟨0, inv_of_feeFree hw hf (Int.le_refl 0) hbal⟩⟩

/-- what `prepareClaimableFees` (`collectFees`) would pay the position with abstract record `p` now, in coins
    (`claim_refines_wf`: `coinAmt claimed denom = CLAccrual.claimPay a i` = this for `p = a.pos[i]`) -/
def payOf (a : ASt) (p : APos) : Int := Dec.tquo (CLAccrual.rewards a p) PREC

theorem pay_le_owed {a : ASt} (hI : CLAccrual.Inv a) {p : APos} (hp : p ∈ a.pos) :
    2 * (payOf a p * PREC * PREC) ≤ 2 * CLAccrual.owed a p + PREC := by
  obtain ⟨w1, w2, w3, w4⟩ := hI.wf p hp
  have hP : (0:Int) < PREC := (by decide)
  unfold payOf
  by_cases h0 : 0 < p.s
  · obtain ⟨r1, r2, _⟩ := Sunrise.C06A.rewards_bounds a p h0 (w4 h0) w3
    obtain ⟨_, q2, _⟩ := Sunrise.C06A.pay_bounds _ r2
    have : Dec.tquo (CLAccrual.rewards a p) PREC * PREC * PREC ≤ CLAccrual.rewards a p * PREC :=
      Int.mul_le_mul_of_nonneg_right (by omega) (Int.le_of_lt hP)
    omega
  · have hs : p.s = 0 := by omega
    have hr : CLAccrual.rewards a p = 0 := by simp [CLAccrual.rewards, hs]
    rw [hr]
    obtain ⟨q1, q2, _⟩ := Sunrise.C06A.pay_bounds 0 (Int.le_refl 0)
    have hz : Dec.tquo 0 PREC * PREC ≤ 0 := by omega
    have hz2 : Dec.tquo 0 PREC * PREC * PREC ≤ 0 * PREC := Int.mul_le_mul_of_nonneg_right hz (Int.le_of_lt hP)
    have ho : 0 ≤ CLAccrual.owed a p := by
      simp only [CLAccrual.owed, hs, Int.zero_mul, Int.add_zero]
      exact Int.mul_nonneg w3 (Int.le_of_lt hP)
    omega

theorem pay_sum_le (a : ASt) : ∀ l : List APos, (∀ p ∈ l, 2 * (payOf a p * PREC * PREC) ≤ 2 * CLAccrual.owed a p + PREC) →
    2 * (CLAccrual.sumBy (payOf a) l * PREC * PREC) ≤ 2 * CLAccrual.sumBy (CLAccrual.owed a) l + l.length * PREC := by
  intro l
  induction l with
  | nil => intro _; simp [CLAccrual.sumBy]
  | cons x xs ih =>
    intro h
    have h1 := h x List.mem_cons_self
    have h2 := ih (fun p hp => h p (List.mem_cons_of_mem _ hp))
    simp only [CLAccrual.sumBy, List.length_cons, Int.natCast_add, Int.natCast_one, Int.add_mul, Int.one_mul]
    omega

/-- **C06 on the store-level model (partial: one pool, the histories of `Reach`)**.  In every store reached from a store
    satisfying `AccrualOK` (e.g. `accrualOK_of_feeFree`) by messages on the pool, for SOME rounding counter `k ≥ 0`, at
    every denom `d`, with `a` the abstraction of the reached store:
    (1) `CLAccrual.Inv.backed` with the store-level meaning of `recv − paid` = the fee account's balance:
        `2·Σ owed ≤ 2·balance·10^36 + k·10^18` (owed in raw·10^18 units, balance in coins);
    (2) Σ over the pool's positions of what `prepareClaimableFees` would pay now (coins) satisfies
        `2·Σ pay·10^36 ≤ 2·balance·10^36 + (k + #positions)·10^18`, i.e. Σ pay ≤ balance + (k + #positions)/2 ulp. -/
theorem store_fees_backed_partial {pool : Nat} {s0 s : St} (h0 : AccrualOK s0 pool) (h : Reach pool s0 s) :
    WF6 s ∧ ∃ k : Int, 0 ≤ k ∧ ∀ d, ∃ a, CLAccrual.absOf s pool d k = some a ∧ CLAccrual.Inv a ∧
      2 * CLAccrual.sumBy (CLAccrual.owed a) a.pos
        ≤ 2 * (s.bank.bal (feesAddr pool) d * PREC * PREC) + k * PREC ∧
      2 * (CLAccrual.sumBy (payOf a) a.pos * PREC * PREC)
        ≤ 2 * (s.bank.bal (feesAddr pool) d * PREC * PREC) + (k + a.pos.length) * PREC := by
  have ok := accrualOK_reach_partial h0 h
  obtain ⟨k, hInv⟩ := ok.inv
  obtain ⟨a0, ha0⟩ := ok.abs "" k
  have hk : 0 ≤ k := by
    have := (hInv _ _ ha0).k_nonneg
    obtain ⟨p, acc, _, _, e⟩ := absOf_some ha0
    rw [e] at this; exact this
  refine ⟨ok.wf, k, hk, fun d => ?_⟩
  obtain ⟨a, ha⟩ := ok.abs d k
  have hI := hInv d a ha
  obtain ⟨p, acc, _, _, e⟩ := absOf_some ha
  have hrecv : a.recv = s.bank.bal (feesAddr pool) d * PREC := by rw [e]; rfl
  have hpaid : a.paid = 0 := by rw [e]; rfl
  have hkk : a.k = k := by rw [e]; rfl
  have hb := hI.backed
  rw [hrecv, hpaid, hkk] at hb
  have hb' : 2 * CLAccrual.sumBy (CLAccrual.owed a) a.pos
      ≤ 2 * (s.bank.bal (feesAddr pool) d * PREC * PREC) + k * PREC := by omega
  refine ⟨a, ha, hI, hb', ?_⟩
  have hs := pay_sum_le a a.pos (fun p hp => pay_le_owed hI hp)
  rw [Int.add_mul]
  omega

/-! ## non-vacuity -/

/-- the base case: `C06Msg.exF` (the reachable two-position store `C04Store.h3`, constant bank) -/
theorem exF_ok : AccrualOK exF 0 := by
  have : (CLAccrual.absOf exF 0 "quote" 0).isSome = true := by decide +kernel
  obtain ⟨a, ha⟩ := Option.isSome_iff_exists.mp this
  exact accrualOK_mk exF_wf6 ha exF_hInv

theorem exF_at0 : AtIndex exF 0 0 0 := by
  have h3 : ((poolPositions exF 0)[0]?.any fun p => p.id == 0) = true := by decide +kernel
  cases hp : (poolPositions exF 0)[0]? with
  | none => rw [hp] at h3; simp at h3
  | some pos =>
    rw [hp] at h3
    simp only [Option.any_some, beq_iff_eq] at h3
    exact ⟨pos, hp, h3⟩

theorem exF_rest : ∃ q ∈ exF.positions, q.pool = 0 ∧ q.id ≠ 0 := by
  have h4 : (exF.positions.any fun q => q.pool == 0 && q.id != 0) = true := by decide +kernel
  obtain ⟨q, hq, hq'⟩ := List.any_eq_true.mp h4
  simp only [Bool.and_eq_true, beq_iff_eq, bne_iff_ne, ne_eq] at hq'
  exact ⟨q, hq, hq'.1, hq'.2⟩

/-- a history with a (partial) withdrawal from `exF`: `Reach`, hence `store_fees_backed_partial`, applies -/
example : ∃ r, decreaseLiquidity exF "a0" 0 exL = .ok r ∧ Reach 0 exF r.1 ∧ AccrualOK r.1 0 := by
  have h1 := exF_dec_ok
  cases hr : decreaseLiquidity exF "a0" 0 exL with
  | err e => rw [hr] at h1; simp [okD] at h1
  | panic e => rw [hr] at h1; simp [okD] at h1
  | ok r =>
    obtain ⟨s', ab, aq⟩ := r
    have hreach : Reach 0 exF s' :=
      .step .base (.decreaseLiquidity hr exF_at0 (by decide) (Or.inr exF_rest))
    exact ⟨_, rfl, hreach, accrualOK_reach_partial exF_ok hreach⟩

/-- executable form of `FeesNonneg` -/
def feesNonnegB (evs : List SwapEv) : Bool := evs.all fun e => match e with | .fee f => decide (0 ≤ f) | _ => true

theorem feesNonnegB_sound {evs : List SwapEv} (h : feesNonnegB evs = true) : FeesNonneg evs := by
  intro f hf
  have := List.all_eq_true.mp h _ hf
  simpa using this

/-- a history with a SWAP from `exF` (1000 quote in): every side condition of the `swapExactIn` step holds (checked by
    evaluation), so the swap part of `Step` is not vacuous -/
def exFs : St := C04Store.run exF (.swapExactIn "a0" 0 "quote" 1000 "base" true)

theorem exFs_ok : C04Store.okState (swapExactIn exF "a0" 0 "quote" 1000 "base" true) = true ∧
    C04Store.swapSideB exF exFs 0 = true ∧ Sunrise.C04StoreL.tickPricesNonZeroB exF 0 = true ∧
    feesNonnegB exFs.lastTrace = true := by decide +kernel

example : Reach 0 exF exFs ∧ AccrualOK exFs 0 := by
  obtain ⟨h1, h2, h3, h4⟩ := exFs_ok
  cases hr : swapExactIn exF "a0" 0 "quote" 1000 "base" true with
  | err e => rw [hr] at h1; simp [C04Store.okState] at h1
  | panic e => rw [hr] at h1; simp [C04Store.okState] at h1
  | ok r =>
    obtain ⟨s', out⟩ := r
    have e : exFs = s' := by
      show C04Store.commit exF (swapExactIn exF "a0" 0 "quote" 1000 "base" true) = s'
      rw [hr]; rfl
    rw [e] at h2 h4 ⊢
    have hb : C04Store.SwapBoundary exF s' 0 :=
      ⟨(C04Store.swapSide'_of_swapSide (C04Store.swapSideB_sound h2)).1, Sunrise.C04StoreL.tickPricesNonZeroB_sound h3⟩
    have hreach : Reach 0 exF s' :=
      .step .base (.swapExactIn hr hb (by decide) (by decide))
    exact ⟨hreach, accrualOK_reach_partial exF_ok hreach⟩

/-- a history with an EXACT-OUT swap from `exF` (500 base out, paid in quote): `SwapBoundary` and `FeesNonneg` hold
    (checked by evaluation), so the `swapExactOut` part of `Step` is not vacuous either -/
def exFo : St := C04Store.run exF (.swapExactOut "a0" 0 "base" 500 "quote" true)

theorem exFo_ok : C04Store.okState (swapExactOut exF "a0" 0 "base" 500 "quote" true) = true ∧
    C04Store.swapSideB exF exFo 0 = true ∧ feesNonnegB exFo.lastTrace = true ∧ exFo.lastTrace.length ≠ 0 := by
  decide +kernel

example : Reach 0 exF exFo ∧ AccrualOK exFo 0 := by
  obtain ⟨h1, h2, h4, _⟩ := exFo_ok
  have h3 := exFs_ok.2.2.1
  cases hr : swapExactOut exF "a0" 0 "base" 500 "quote" true with
  | err e => rw [hr] at h1; simp [C04Store.okState] at h1
  | panic e => rw [hr] at h1; simp [C04Store.okState] at h1
  | ok r =>
    obtain ⟨s', ain⟩ := r
    have e : exFo = s' := by
      show C04Store.commit exF (swapExactOut exF "a0" 0 "base" 500 "quote" true) = s'
      rw [hr]; rfl
    rw [e] at h2 h4 ⊢
    have hb : C04Store.SwapBoundary exF s' 0 :=
      ⟨(C04Store.swapSide'_of_swapSide (C04Store.swapSideB_sound h2)).1, Sunrise.C04StoreL.tickPricesNonZeroB_sound h3⟩
    have hreach : Reach 0 exF s' :=
      .step .base (.swapExactOut hr hb (feesNonnegB_sound h4) (by decide) (by decide))
    exact ⟨hreach, accrualOK_reach_partial exF_ok hreach⟩

end Sunrise.C06Run

#print axioms Sunrise.C06Run.store_fees_backed_partial
#print axioms Sunrise.C06Run.accrualOK_reach_partial
#print axioms Sunrise.C06Run.step_ok
#print axioms Sunrise.C06Run.inv_fold_trace
#print axioms Sunrise.C06Run.swapExactIn_ok_partial
#print axioms Sunrise.C06Run.swapExactOut_ok_partial
#print axioms Sunrise.C06Run.accrualOK_of_feeFree
#print axioms Sunrise.C06RunFees.swapExactIn_feesNonneg
