import SunriseVerif.Model.Proposal
/-!
C01 for `app/abci_proposal.go` (model: `Model/Proposal.lean`, tied to the Go code by the `proposal` correspondence suite).

* liveness of the honest path: a node never refuses what an honest proposer built on the same state
  (`process_accepts_prepared`, `honest_accepted_noop`) — with the exact side conditions: the default handler accepts the
  prepared list, and no selected transaction equals the splitter (`splitter_user_tx_breaks_it` shows the second is necessary);
* the custom code can never halt a node: `process_total` (every byte list gives a verdict), `preBlock_never_errors`
  (every state, height and byte list), `unmarshal` is total by its type;
* `preBlock_frame` / `preBlock_changed_listed`: PreBlocker changes nothing but `VerifiedHeight`, and only of listed items;
* `finalize_independent_of_proposals`: the state after a sequence of ABCI calls does not depend on the PrepareProposal /
  ProcessProposal calls in it (C14 flavour);
* two properties that FAIL, stated as theorems about the code as it is (both reproduced on the real application, see
  design/FINDING-proposal-*.md): `honest_rejected_under_verifying_default` and `prepare_exceeds_budget`.
-/
namespace Sunrise.C01Proposal
open Sunrise Sunrise.Proposal

/-! ### the wrapper codec -/

theorem toNat_ofNat_lt (x : Nat) (h : x < 256) : (UInt8.ofNat x).toNat = x := by
  simp [UInt8.toNat_ofNat', Nat.mod_eq_of_lt h]

/-- reading back an encoded varint, with `n + 1` bytes allowed and the value below 128^(n+1) -/
theorem readVarint_enc : ∀ (n v : Nat) (rest : Bytes), v < 128 ^ (n + 1) →
    readVarint (n + 1) (encVarintF n v ++ rest) = some (v, rest) := by
  intro n
  induction n with
  | zero =>
    intro v rest hv
    have hv' : v < 128 := by simpa using hv
    simp [encVarintF, hv', readVarint, toNat_ofNat_lt v (by omega)]
  | succ n ih =>
    intro v rest hv
    by_cases h : v < 128
    · simp [encVarintF, h, readVarint, toNat_ofNat_lt v (by omega)]
    · have hb : (UInt8.ofNat (v % 128 + 128)).toNat = v % 128 + 128 := toNat_ofNat_lt _ (by omega)
      have hq : v / 128 < 128 ^ (n + 1) := by
        rw [Nat.div_lt_iff_lt_mul (by decide)]
        calc v < 128 ^ (n + 1 + 1) := hv
          _ = 128 ^ (n + 1) * 128 := by rw [Nat.pow_succ]
      have hih := ih (v / 128) rest hq
      have hnot : ¬ (v % 128 + 128 < 128) := by omega
      have hval : v % 128 + 128 - 128 + 128 * (v / 128) = v := by omega
      simp only [encVarintF, h, if_false, List.cons_append]
      rw [readVarint]
      simp only [hb, hnot, if_false, hih, hval]

theorem uvarint_enc (v : Nat) (rest : Bytes) (hv : v < TWO64) : uvarint (encVarint v ++ rest) = some (v, rest) := by
  have h : v < 128 ^ (9 + 1) := by
    have : TWO64 ≤ 128 ^ (9 + 1) := by decide
    omega
  simp [uvarint, encVarint, readVarint_enc 9 v rest h, Nat.mod_eq_of_lt hv]

theorem unmarshal_empty : unmarshal [] = some [] := by
  simp [unmarshal, unmarshalLoop]

theorem uvarint_tag (r : Bytes) : uvarint ((0x0A : UInt8) :: r) = some (10, r) := by
  simp [uvarint, readVarint, TWO64]

/-- the loop on `0x0A ‖ varint(len u) ‖ u` -/
theorem unmarshalLoop_field1 (f : Nat) (u : Bytes) (hu : u.length < TWO63) :
    unmarshalLoop (f + 2) [] ((0x0A : UInt8) :: (encVarint u.length ++ u)) = some u := by
  have h64 : u.length < TWO64 := by
    have : TWO63 < TWO64 := by decide
    omega
  rw [unmarshalLoop]
  have h5 : ¬ (TWO63 ≤ u.length) := by omega
  simp [uvarint_tag, uvarint_enc u.length u h64, h5, TWO31, TWO32, unmarshalLoop]

/-- `Unmarshal(Marshal(w)) = w` for every uri a Go string can hold -/
theorem unmarshal_marshal (u : Bytes) (hu : u.length < TWO63) : unmarshal (marshal u) = some u := by
  cases u with
  | nil => simp [marshal, unmarshal_empty]
  | cons a as =>
    simp only [marshal, List.isEmpty_cons, Bool.false_eq_true, if_false, unmarshal]
    have hl : ((0x0A : UInt8) :: (encVarint (a :: as).length ++ a :: as)).length + 1
        = ((encVarint (a :: as).length).length + as.length + 1) + 2 := by
      simp only [List.length_cons, List.length_append]; omega
    rw [hl]
    exact unmarshalLoop_field1 _ (a :: as) hu

/-- a wrapper never equals the splitter (it is empty or starts with 0x0A): the handler's own entries cannot move the splitter -/
theorem marshal_ne_SPL (u : Bytes) : marshal u ≠ SPL := by
  cases u with
  | nil => simp [marshal, SPL]
  | cons a as => simp [marshal, SPL]

/-! ### the splitter -/

theorem afterSplitter_append (sel w : List Bytes) (h : SPL ∉ sel) : afterSplitter (sel ++ SPL :: w) = some w := by
  induction sel with
  | nil => simp [afterSplitter]
  | cons t ts ih =>
    have ht : t ≠ SPL := fun e => h (by simp [e])
    have hts : SPL ∉ ts := fun m => h (by simp [m])
    simp [afterSplitter, ht, ih hts]

theorem afterSplitter_none (txs : List Bytes) (h : SPL ∉ txs) : afterSplitter txs = none := by
  induction txs with
  | nil => rfl
  | cons t ts ih =>
    have ht : t ≠ SPL := fun e => h (by simp [e])
    have hts : SPL ∉ ts := fun m => h (by simp [m])
    simp [afterSplitter, ht, ih hts]

/-! ### the VERIFIED index -/

theorem mem_insertIdx (x y : PItem) (l : List PItem) : y ∈ insertIdx x l ↔ y = x ∨ y ∈ l := by
  induction l with
  | nil => simp [insertIdx]
  | cons z zs ih =>
    simp only [insertIdx]
    split
    · simp
    · simp [ih, or_left_comm]

theorem mem_sortIdx (y : PItem) (l : List PItem) : y ∈ sortIdx l ↔ y ∈ l := by
  induction l with
  | nil => simp [sortIdx]
  | cons z zs ih => simp [sortIdx, mem_insertIdx, ih]

/-- `GetSpecificStatusData(VERIFIED)` returns exactly the VERIFIED records -/
theorem mem_verified (s : St) (it : PItem) : it ∈ verified s ↔ it ∈ s.items ∧ it.status = DA.Status.ver := by
  simp [verified, mem_sortIdx]

/-- the map-semantics hypothesis `St.wf` holds whenever the keys are distinct (what a key-value store guarantees) -/
theorem wf_of_nodup (s : St) (h : (s.items.map (·.uri)).Nodup) : s.wf := by
  intro it hit
  unfold find
  cases s with
  | mk items =>
    simp only at h hit ⊢
    induction items with
    | nil => simp at hit
    | cons x xs ih =>
      rw [List.map_cons, List.nodup_cons] at h
      rcases List.mem_cons.1 hit with rfl | hm
      · simp [List.find?]
      · have hne : x.uri ≠ it.uri := by
          intro e
          exact h.1 (by rw [e]; exact List.mem_map.2 ⟨it, hm, rfl⟩)
        have hb : (x.uri == it.uri) = false := by simpa using hne
        simp [List.find?, hb, ih h.2 hm]

/-! ### (a) honest proposer liveness -/

/-- every entry the honest proposer appends passes ProcessProposal's test on the same state -/
theorem entryOk_of_verified (s : St) (hwf : s.wf) (hlen : ∀ it ∈ s.items, it.uri.length < TWO63)
    (it : PItem) (hit : it ∈ verified s) : entryOk s (marshal it.uri) = true := by
  have ⟨hmem, hst⟩ := (mem_verified s it).1 hit
  unfold entryOk
  rw [unmarshal_marshal it.uri (hlen it hmem)]
  by_cases he : it.uri.isEmpty
  · simp [he]
  · simp [he, hwf it hmem, hst]

/-- **A node never rejects what an honest proposer built on the same state**: on `prepare s sel`, ProcessProposal's own
    test passes and the verdict is the default handler's — provided no selected transaction equals the splitter. -/
theorem process_accepts_prepared (d : List Bytes → Verdict) (s : St) (sel : List Bytes)
    (hwf : s.wf) (hlen : ∀ it ∈ s.items, it.uri.length < TWO63) (hs : SPL ∉ sel) :
    process d s (prepare s sel) = .ok (d (prepare s sel)) := by
  unfold prepare
  by_cases hv : (verified s).isEmpty
  · simp [hv, process, afterSplitter_none sel hs]
  · simp only [hv, Bool.false_eq_true, if_false, process, afterSplitter_append sel _ hs]
    have : ((verified s).map fun it => marshal it.uri).all (entryOk s) = true := by
      rw [List.all_eq_true]
      intro e he
      obtain ⟨it, hit, rfl⟩ := List.mem_map.1 he
      exact entryOk_of_verified s hwf hlen it hit
    simp [this]

/-- with the default handler of a node without application-side mempool (`NoOpProcessProposal`): ACCEPT -/
theorem honest_accepted_noop (s : St) (sel : List Bytes)
    (hwf : s.wf) (hlen : ∀ it ∈ s.items, it.uri.length < TWO63) (hs : SPL ∉ sel) :
    process (fun _ => .accept) s (prepare s sel) = .ok .accept :=
  process_accepts_prepared _ s sel hwf hlen hs

/-- the side condition is necessary: a "transaction" equal to the splitter moves the section start, and a following
    transaction that parses as the wrapper of a non-verified item makes honest nodes refuse the honest proposal
    (such bytes do not decode as a transaction, so CheckTx keeps them out of honest mempools — checked by the suite) -/
theorem splitter_user_tx_breaks_it :
    let s : St := { items := [{ uri := [0x61], status := .cp, ts := 0, vh := 0, rest := "" }] }
    process (fun _ => .accept) s (prepare s [SPL, marshal [0x61]]) = .ok .reject := by
  decide

/-- FAILS on nodes whose default handler verifies the entries (application-side mempool enabled, `mempool.max-txs >= 0`):
    the splitter does not decode as a transaction, so every honest proposal that carries the section is refused -/
theorem honest_rejected_under_verifying_default (d : List Bytes → Verdict) (s : St) (sel : List Bytes)
    (hd : ∀ txs, SPL ∈ txs → d txs = .reject) (hv : verified s ≠ []) :
    process d s (prepare s sel) = .ok .reject := by
  have hmem : SPL ∈ prepare s sel := by
    unfold prepare
    have : (verified s).isEmpty = false := by
      cases h : verified s with
      | nil => exact absurd h hv
      | cons _ _ => rfl
    simp [this]
  unfold process
  cases afterSplitter (prepare s sel) with
  | none => simp [hd _ hmem]
  | some es =>
    by_cases h : es.all (entryOk s) = true
    · simp [h, hd _ hmem]
    · simp [h]

/-! ### (e) no byte list can make the custom code fail -/

/-- ProcessProposal's custom code always ends in a verdict (ACCEPT or REJECT), for every state and every byte list -/
theorem process_total (d : List Bytes → Verdict) (s : St) (txs : List Bytes) : ∃ v, process d s txs = .ok v := by
  unfold process
  cases afterSplitter txs with
  | none => exact ⟨_, rfl⟩
  | some es =>
    by_cases h : es.all (entryOk s) = true
    · exact ⟨d txs, by simp [h]⟩
    · exact ⟨.reject, by simp [h]⟩

/-- without a splitter the handler adds nothing to the default behaviour -/
theorem no_splitter_noop (d : List Bytes → Verdict) (s : St) (h : Int) (txs : List Bytes) (hs : SPL ∉ txs) :
    process d s txs = .ok (d txs) ∧ preBlock true s h txs = .ok s := by
  simp [process, preBlock, afterSplitter_none txs hs]

/-- with an accepting default handler: REJECT iff some entry after the first splitter is the wrapper of a known item that
    is not VERIFIED -/
theorem process_reject_iff (s : St) (txs : List Bytes) :
    process (fun _ => .accept) s txs = .ok .reject ↔
      ∃ es, afterSplitter txs = some es ∧ ∃ e ∈ es, ∃ u it, unmarshal e = some u ∧ u.isEmpty = false ∧
        find s u = some it ∧ it.status ≠ DA.Status.ver := by
  unfold process
  cases hsp : afterSplitter txs with
  | none => simp
  | some es =>
    by_cases h : es.all (entryOk s) = true
    · simp only [h, if_true]
      constructor
      · intro hc; cases hc
      · rintro ⟨es', hes, e, he, u, it, hu, hne, hf, hst⟩
        cases hes
        have := (List.all_eq_true.1 h) e he
        simp [entryOk, hu, hne, hf, hst] at this
    · simp only [h, Bool.false_eq_true, if_false, true_iff]
      refine ⟨es, rfl, ?_⟩
      have hf' : es.all (entryOk s) = false := by simpa using h
      obtain ⟨e, he, hne⟩ := List.all_eq_false.1 hf'
      refine ⟨e, he, ?_⟩
      unfold entryOk at hne
      cases hu : unmarshal e with
      | none => simp [hu] at hne
      | some u =>
        by_cases hem : u.isEmpty
        · simp [hu, hem] at hne
        · cases hf : find s u with
          | none => simp [hu, hem, hf] at hne
          | some it =>
            refine ⟨u, it, rfl, by simpa using hem, hf, ?_⟩
            intro hst
            simp [hu, hem, hf, hst] at hne

/-! ### (b), (d) PreBlocker -/

/-- **PreBlocker's own part never errors**, for every state, height and byte list (the module pre-blockers are the boundary) -/
theorem preBlock_never_errors (s : St) (h : Int) (txs : List Bytes) : ∃ s', preBlock true s h txs = .ok s' := by
  unfold preBlock
  cases afterSplitter txs with
  | none => exact ⟨s, rfl⟩
  | some es => exact ⟨es.foldl (applyEntry h) s, rfl⟩

def eraseVH (it : PItem) : PItem := { it with vh := 0 }

theorem setVH_frame (h : Int) (u : Bytes) (l : List PItem) : (setVH h u l).map eraseVH = l.map eraseVH := by
  induction l with
  | nil => rfl
  | cons x xs ih =>
    simp only [setVH]
    split
    · simp [eraseVH]
    · simp [ih]

theorem applyEntry_frame (h : Int) (s : St) (e : Bytes) : (applyEntry h s e).items.map eraseVH = s.items.map eraseVH := by
  unfold applyEntry
  cases unmarshal e with
  | none => rfl
  | some u =>
    by_cases hem : u.isEmpty
    · simp [hem]
    · cases hf : find s u with
      | none => simp [hem, hf]
      | some it => simp [hem, hf, setVH_frame]

theorem foldl_frame (h : Int) (es : List Bytes) : ∀ s : St, (es.foldl (applyEntry h) s).items.map eraseVH = s.items.map eraseVH := by
  induction es with
  | nil => intro s; rfl
  | cons e es ih => intro s; simp [List.foldl, ih, applyEntry_frame]

/-- **PreBlocker changes nothing but `VerifiedHeight`**: same records in the same order, every other field as before -/
theorem preBlock_frame (s s' : St) (h : Int) (txs : List Bytes) (hp : preBlock true s h txs = .ok s') :
    s'.items.map eraseVH = s.items.map eraseVH := by
  unfold preBlock at hp
  cases hsp : afterSplitter txs with
  | none => simp [hsp] at hp; cases hp; rfl
  | some es => simp [hsp] at hp; cases hp; exact foldl_frame h es s

theorem mem_setVH (h : Int) (u : Bytes) (l : List PItem) (x : PItem) (hx : x ∈ setVH h u l) :
    x ∈ l ∨ (x.vh = h ∧ x.uri = u) := by
  induction l with
  | nil => simp [setVH] at hx
  | cons y ys ih =>
    simp only [setVH] at hx
    split at hx
    · rename_i hy
      rcases List.mem_cons.1 hx with rfl | hm
      · right; exact ⟨rfl, by simpa using hy⟩
      · left; simp [hm]
    · rcases List.mem_cons.1 hx with rfl | hm
      · left; simp
      · rcases ih hm with h1 | h2
        · left; simp [h1]
        · right; exact h2

theorem mem_applyEntry (h : Int) (s : St) (e : Bytes) (x : PItem) (hx : x ∈ (applyEntry h s e).items) :
    x ∈ s.items ∨ (x.vh = h ∧ unmarshal e = some x.uri ∧ x.uri.isEmpty = false) := by
  unfold applyEntry at hx
  cases hu : unmarshal e with
  | none => simp [hu] at hx; exact Or.inl hx
  | some u =>
    by_cases hem : u.isEmpty
    · simp [hu, hem] at hx; exact Or.inl hx
    · cases hf : find s u with
      | none => simp [hu, hem, hf] at hx; exact Or.inl hx
      | some it =>
        simp [hu, hem, hf] at hx
        rcases mem_setVH h u s.items x hx with h1 | ⟨h2, h3⟩
        · exact Or.inl h1
        · right; subst h3; exact ⟨h2, rfl, by simpa using hem⟩

theorem mem_foldl (h : Int) (es : List Bytes) : ∀ (s : St) (x : PItem), x ∈ (es.foldl (applyEntry h) s).items →
    x ∈ s.items ∨ (x.vh = h ∧ ∃ e ∈ es, unmarshal e = some x.uri ∧ x.uri.isEmpty = false) := by
  induction es with
  | nil => intro s x hx; exact Or.inl hx
  | cons e es ih =>
    intro s x hx
    rcases ih (applyEntry h s e) x hx with h1 | ⟨h2, e', he', h3⟩
    · rcases mem_applyEntry h s e x h1 with h4 | ⟨h5, h6⟩
      · exact Or.inl h4
      · exact Or.inr ⟨h5, e, by simp, h6⟩
    · exact Or.inr ⟨h2, e', by simp [he'], h3⟩

/-- **only listed items are touched**: a record of the new state is a record of the old state, or carries the block height
    and its (non-empty) uri is named by an entry after the first splitter -/
theorem preBlock_changed_listed (s s' : St) (h : Int) (txs : List Bytes) (hp : preBlock true s h txs = .ok s')
    (x : PItem) (hx : x ∈ s'.items) :
    x ∈ s.items ∨ (x.vh = h ∧ ∃ es, afterSplitter txs = some es ∧ ∃ e ∈ es, unmarshal e = some x.uri ∧ x.uri.isEmpty = false) := by
  unfold preBlock at hp
  cases hsp : afterSplitter txs with
  | none => simp [hsp] at hp; cases hp; exact Or.inl hx
  | some es =>
    simp [hsp] at hp; cases hp
    rcases mem_foldl h es s x hx with h1 | ⟨h2, h3⟩
    · exact Or.inl h1
    · exact Or.inr ⟨h2, es, rfl, h3⟩

/-! ### (c) the proposal phases write nothing -/

/-- **What a node's state is after any sequence of ABCI calls does not depend on the PrepareProposal / ProcessProposal calls
    in it** (other rounds' proposals, repeated calls, none at all after a restart): only decided blocks count -/
theorem finalize_independent_of_proposals (s : St) (ops : List Op) : run s ops = run s (ops.filter Op.isFinalize) := by
  unfold run
  induction ops generalizing s with
  | nil => rfl
  | cons o os ih =>
    cases o with
    | prepare sel => simpa [List.filter, Op.isFinalize, step] using ih s
    | process txs => simpa [List.filter, Op.isFinalize, step] using ih s
    | finalize h txs => simp [List.filter, Op.isFinalize, List.foldl, ih]

/-! ### the block-size budget -/

theorem protoSize_append (a b : List Bytes) : protoSize (a ++ b) = protoSize a + protoSize b := by
  induction a with
  | nil => simp [protoSize]
  | cons t ts ih => simp [protoSize, ih]; omega

theorem prepare_without_verified (s : St) (sel : List Bytes) (hv : verified s = []) : prepare s sel = sel := by
  simp [prepare, hv]

/-- FAILS to respect `MaxTxBytes`: the section is appended to whatever the default handler selected within the budget, so
    with at least one VERIFIED item the response is strictly larger than the selection (≥ 10 bytes for the splitter alone);
    a selection that fills the budget gives a response beyond it, which CometBFT refuses to propose -/
theorem prepare_exceeds_budget (s : St) (sel : List Bytes) (hv : verified s ≠ []) :
    protoSize sel + 10 ≤ protoSize (prepare s sel) := by
  have : (verified s).isEmpty = false := by
    cases h : verified s with
    | nil => exact absurd h hv
    | cons _ _ => rfl
  have h8 : (encVarint 8).length = 1 := by decide
  simp only [prepare, this, Bool.false_eq_true, if_false, protoSize_append, protoSize, SPL, List.length_cons, List.length_nil, h8]
  omega

/-! ### non-vacuity -/
section examples
def ex : St := { items := [
  { uri := [0x61], status := .ver, ts := 7, vh := 0, rest := "" },
  { uri := [0x62], status := .cp, ts := 3, vh := 0, rest := "" },
  { uri := [0x63], status := .ver, ts := 5, vh := 0, rest := "" },
  { uri := [], status := .ver, ts := 9, vh := 0, rest := "" }] }

-- index order (time, then uri); the empty uri's wrapper is the empty byte string
example : prepare ex [[1, 2]] = [[1, 2], SPL, [0x0A, 1, 0x63], [0x0A, 1, 0x61], []] := by decide
example : process (fun _ => .accept) ex (prepare ex [[1, 2]]) = .ok .accept := by decide
-- a byzantine proposer listing a non-verified item is refused; unknown / garbage / empty entries are skipped
example : process (fun _ => .accept) ex [SPL, [0x0A, 1, 0x62]] = .ok .reject := by decide
example : process (fun _ => .accept) ex [SPL, [0x0A, 1, 0x7A], [0xFF], [], [0x0A, 5, 0x61]] = .ok .accept := by decide
-- only the first splitter counts; PreBlocker writes the height whatever the status
example : (match preBlock true ex 42 [SPL, [0x0A, 1, 0x62], SPL, [0x0A, 1, 0x61]] with
    | .ok s' => s'.items.map (·.vh) | _ => []) = [42, 42, 0, 0] := by decide
-- repeated field 1: last wins; unknown fields skipped; truncated input is an error; tag number 1 mod 2^32 is field 1
example : unmarshal [0x0A, 1, 0x61, 0x0A, 1, 0x62] = some [0x62] := by decide
example : unmarshal [0x10, 5, 0x0A, 1, 0x61, 0x1A, 0] = some [0x61] := by decide
example : unmarshal [0x0A, 2, 0x61] = none := by decide
example : unmarshal [0x8A, 0x80, 0x80, 0x80, 0x80, 0x01, 1, 0x61] = some [0x61] := by decide
example : protoSize [[1, 2]] < protoSize (prepare ex [[1, 2]]) := by decide
end examples

end Sunrise.C01Proposal
