import SunriseVerif.Model.Dec
/-!
# Parameter guards (shared by C01, C07–C09, C13, C15, C18)

Many theorems carry a hypothesis about the STORED module parameters (the DA `NoHalt` invariant needs valid parameters,
the emission split needs a ratio in [0,1], the exact-amount-out interface fee needs a rate below one, the burn needs a
ratio in [0,1]).  What the code checks before it stores parameters is `Params.Validate`; the rejecting conditions of the
four `Validate` functions are regenerated from the source on every run (`Gen/KernelsParamsDA|LI|Swap|Fee.lean`, target kind `rejects`:
the disjunction of every unconditional `if … { return err }` of the function that mentions the parameter).  The theorems
below prove that "no regenerated guard rejects" is EXACTLY the hand-written validity predicate of the models — so a change
to a `Validate` function that lets a bad value through (a dropped test, a test on the wrong variable, `&&` for `||`,
`>` for `>=`) breaks a proof here, for every value at once.
-/
namespace Sunrise.ParamGuards
open Sunrise

/-- a [0,1] parameter: rejected iff negative or above one -/
theorem unit_interval (x : Dec) :
    ((Dec.isNegative x) || (Dec.gt x Dec.one)) = false ↔ 0 ≤ x.raw ∧ x.raw ≤ PREC := by
  unfold Dec.isNegative Dec.gt Dec.one
  simp only [Bool.or_eq_false_iff, decide_eq_false_iff_not]
  constructor <;> intro h <;> constructor <;> omega

theorem period (n : Int) : decide (n ≤ (0 : Int)) = false ↔ 0 < n := by
  simp only [decide_eq_false_iff_not]; constructor <;> intro h <;> omega

end Sunrise.ParamGuards
