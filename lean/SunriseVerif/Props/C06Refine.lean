import SunriseVerif.Model.CL
import SunriseVerif.Model.CLAccrual
import SunriseVerif.Model.CLAccrualAbs
import SunriseVerif.Props.C04Refine
import SunriseVerif.Props.C04RefineLoop
import SunriseVerif.Lemmas.DecCoinsAlg

/-!
C06 (refinement) — the store-level model of x/liquiditypool (`Model/CL.lean`) performs, on the fee-accrual components,
the steps of the abstraction `Model/CLAccrual.lean`, through the abstraction function `CLAccrualAbs.absOf` (one pool, one
denom), operation by operation, for ALL states and arguments.  (The driver only CHECKS this link at run time: `lockstep`.)
`absOf s pool denom k` is unfolded here as `absWith` (global growth = accumulator value at `denom`, growth outside /
gross / net per tick with 0 for an absent tick, cursor, active liquidity, one record ⟨lo, hi, shares, checkpoint,
unclaimed⟩ per stored position of the pool in store order, `recv` = fee-account balance · 10^18, `paid` = 0).
DecCoins algebra (sorted merge `add`, `safeSub`, `mulDec`, `quoDecTruncate`, `truncateDecimal` read at one denom):
`Lemmas/DecCoinsAlg.lean`.

1. `claim_refines`      a successful `collectFees` (= one iteration of `claimRewards`) of the position with index i is the
                        abstract `claim i` (`prepare_refines`: the `prepareClaimableFees` core): abstraction after =
                        `step a (.claim i)` up to the split of the fee-account balance into `recv − paid` (`ObsEq`);
                        the amount of `denom` paid = `claimPay a i`, leaves the pool's fee account, reaches the sender;
                        every other position record is unchanged (frame); positions / ticks / pools untouched.
2. `fee_step_refines`   `updateFeeGrowth` (one fee step of the swap loop, abstraction of the loop state: `absLoop`) =
                        `step · (.fee f)` for the input denom (`fee_step_other_denom`: invisible for the other denoms);
   `incentive_refines`  `allocateIncentive` = fold of `fee (amount·10^18)` over the coins of the denom (exact equality of
                        abstract states, guards included).
3. `cross_refines`      `crossTick` with accumulator updates = `crossUp t` / `crossDown t` on `absLoop` (growth outside
                        flipped to global − outside, cursor t / t − 1, active ± net).
4. `change_refines`     `updatePosition` with delta ≠ 0 on an existing position that keeps liquidity (addShares /
                        removeShares) = `change i delta` (exact equality of abstract states), including the
                        claim-to-unclaimed step of `setAccumPositionFee`; accumulator total shares += delta.
   building blocks for the open case: `getTickInfo_fee` (getInitialFeeGrowth convention), `upsertTick_fo`,
   `updatePosition_s4`, `setAccumFee_open`.

Hypotheses (all are invariants of reachable stores / of the abstraction; their preservation by the store-level operations
is NOT proved here, except `SortedWF` through the two `upsertTick`s of `updatePosition` (`updatePosition_s4`)):
`(s.positions.map id).Nodup`; `SortedWF s` (every stored DecCoins is denom-sorted: what sdk.DecCoins guarantees);
the two ticks of the position are stored; the guard of the abstract operation; `hck` = clause 4 of `CLAccrual.Inv.wf`
(checkpoint ≤ growth inside) for the claimed position AT EVERY DENOM (GetTotalRewards returns ∅ for ALL denoms as soon as
one denom's checkpoint exceeds the accumulator — a one-denom abstraction cannot see the other denoms);
accumulator `totalShares` = Σ shares of the abstraction (`hT`); sender ≠ fee account (boundary).
NOT proved here: `open_refines` (fresh position: the placeholder record of `createPosition`, `initFo`), the withdrawal of
a position's whole liquidity (store deletes the record, abstraction keeps a dead one), the pool reset on the last
withdrawal, the swap loop as a fold (5.), preservation of the well-formedness predicates by every operation, the
message-level compositions (`createPosition`, `decreaseLiquidity`, `increaseLiquidity`, `claimRewards` fold, `swapExact*`).
-/

set_option linter.unusedVariables false
set_option linter.unusedSimpArgs false
namespace Sunrise.C06Refine
open Sunrise Sunrise.CL Sunrise.C04Refine Sunrise.DecCoinsAlg
open Sunrise.C05Loop (bind_ok res_ok_inj)
open Sunrise.C04Interval (err_bind ok_bind panic_bind getPool_setPool getPosition_setPosition setPosition_pools)

abbrev ASt := CLAccrual.St
abbrev APos := CLAccrual.Pos

/-! ### generic store lemmas (`find?` over keyed lists; no distinctness needed) -/

theorem find_map_replace {α : Type} (key : α → Nat) (l : List α) (v : α) (id : Nat) :
    (l.map fun q => if key q == key v then v else q).find? (fun q => key q == id) =
      if key v = id then (if l.any (fun q => key q == key v) then some v else none) else l.find? (fun q => key q == id) := by
  induction l with
  | nil => simp
  | cons x xs ih =>
    simp only [List.map_cons, List.find?_cons, List.any_cons]
    by_cases hx : key x = key v
    · by_cases hv : key v = id
      · simp [hx, hv]
      · have : (key v == id) = false := by simpa using hv
        simp only [hx, beq_self_eq_true, if_true, this, ih, hv, if_false]
    · have hx' : (key x == key v) = false := by simpa using hx
      simp only [hx', Bool.false_eq_true, if_false, Bool.false_or, ih]
      by_cases hv : key v = id
      · have : (key x == id) = false := by rw [← hv]; exact hx'
        simp [hv, this]
      · simp [hv]

theorem find_filter_ne {α : Type} (key : α → Nat) (l : List α) (k id : Nat) :
    (l.filter fun q => key q != k).find? (fun q => key q == id) = if id = k then none else l.find? (fun q => key q == id) := by
  induction l with
  | nil => simp
  | cons x xs ih =>
    simp only [List.filter_cons]
    by_cases hx : key x = k
    · have h1 : (key x != k) = false := by simp [hx]
      simp only [h1, Bool.false_eq_true, if_false, ih, List.find?_cons]
      by_cases hid : id = k
      · simp [hid]
      · have : (key x == id) = false := by rw [hx]; simpa using (fun e => hid e.symm)
        simp [hid, this]
    · have h1 : (key x != k) = true := by simp [hx]
      simp only [h1, if_true, List.find?_cons, ih]
      by_cases hid : id = k
      · subst hid
        have : (key x == id) = false := by simpa using hx
        simp [this]
      · simp [hid]

theorem getAccPos_setAccPos (s : St) (ap : AccPos) (id : Nat) :
    getAccPos (setAccPos s ap) id = if id = ap.posId then some ap else getAccPos s id := by
  unfold getAccPos setAccPos
  by_cases hany : s.accPos.any (fun q => q.posId == ap.posId) = true
  · rw [if_pos hany]
    simp only []
    rw [find_map_replace (fun q : AccPos => q.posId)]
    by_cases hid : id = ap.posId
    · simp [hid, hany]
    · have : ¬ ap.posId = id := fun e => hid e.symm
      simp [hid, this]
  · rw [if_neg hany]
    simp only [List.find?_append, List.find?_cons, List.find?_nil]
    by_cases hid : id = ap.posId
    · subst hid
      have : s.accPos.find? (fun q => q.posId == ap.posId) = none := by
        rw [List.find?_eq_none]; intro x hx
        have := hany
        simp only [List.any_eq_true, not_exists, not_and] at this
        exact this x hx
      simp [this]
    · have : (ap.posId == id) = false := by simpa using (fun e => hid e.symm)
      simp [hid, this]

theorem getAccPos_delAccPos (s : St) (k id : Nat) :
    getAccPos (delAccPos s k) id = if id = k then none else getAccPos s id := by
  unfold getAccPos delAccPos
  exact find_filter_ne (fun q : AccPos => q.posId) s.accPos k id

theorem getAccum_setAccum (s : St) (a : Accum) (pool : Nat) :
    getAccum (setAccum s a) pool =
      if a.pool = pool then (if s.accums.any (fun q => q.pool == a.pool) then some a else none) else getAccum s pool := by
  unfold getAccum setAccum
  exact find_map_replace (fun q : Accum => q.pool) s.accums a pool

theorem getAccum_pool {s : St} {pool : Nat} {a : Accum} (h : getAccum s pool = some a) : a.pool = pool := by
  have := List.find?_some h; simpa using this

theorem getAccPos_id {s : St} {id : Nat} {a : AccPos} (h : getAccPos s id = some a) : a.posId = id := by
  have := List.find?_some h; simpa using this

theorem getPosition_id {s : St} {id : Nat} {a : Position} (h : getPosition s id = some a) : a.id = id := by
  have := List.find?_some h; simpa using this

theorem getPool_id {s : St} {id : Nat} {a : Pool} (h : getPool s id = some a) : a.id = id := by
  have := List.find?_some h; simpa using this

theorem getAccum_setAccum_self {s : St} {pool : Nat} {a a' : Accum} (h : getAccum s pool = some a) (hp : a'.pool = pool) :
    getAccum (setAccum s a') pool = some a' := by
  rw [getAccum_setAccum, if_pos hp]
  have hm := List.mem_of_find?_eq_some h
  have : s.accums.any (fun q => q.pool == a'.pool) = true := by
    rw [List.any_eq_true]; exact ⟨a, hm, by rw [getAccum_pool h, hp]; simp⟩
  rw [if_pos this]

theorem getAccum_setAccPos (s : St) (ap : AccPos) (pool : Nat) : getAccum (setAccPos s ap) pool = getAccum s pool := by
  unfold getAccum setAccPos; split <;> rfl

theorem getAccPos_setAccum (s : St) (a : Accum) (id : Nat) : getAccPos (setAccum s a) id = getAccPos s id := rfl

/-! ### the abstraction function of `CLAccrualAbs.absOf`, unfolded -/

theorem rawOf_eq (l : DecCoins) (d : String) : CLAccrual.rawOf l d = raw l d := rfl

/-- growth outside of tick t as the abstraction reads it (absent tick = 0) -/
def foOf (s : St) (pool : Nat) (denom : String) (t : Int) : Int :=
  match findTick s pool t with | some ti => raw ti.feeGrowth denom | none => 0

/-- the abstract record of a stored position -/
def posOf (s : St) (denom : String) (q : Position) : APos :=
  match getAccPos s q.id with
  | some ap => ⟨q.lower, q.upper, ap.shares.raw, raw ap.perShare denom, raw ap.unclaimed denom⟩
  | none => ⟨q.lower, q.upper, q.liq.raw, 0, 0⟩

/-- the stored positions of a pool, in store order (index i here = index i of the abstraction's position list) -/
def poolPositions (s : St) (pool : Nat) : List Position := s.positions.filter (·.pool == pool)

def absWith (s : St) (pool : Nat) (denom : String) (k : Int) (p : Pool) (a : Accum) : ASt :=
  { G := raw a.value denom
    fo := foOf s pool denom
    cur := p.tick
    gross := grossOf s pool
    net := netOf s pool
    active := p.liq.raw
    pos := (poolPositions s pool).map (posOf s denom)
    recv := s.bank.bal (feesAddr pool) denom * PREC
    paid := 0
    k := k }

theorem absOf_eq {s : St} {pool : Nat} {denom : String} {k : Int} {p : Pool} {a : Accum}
    (hp : getPool s pool = some p) (ha : getAccum s pool = some a) :
    CLAccrual.absOf s pool denom k = some (absWith s pool denom k p a) := by
  unfold CLAccrual.absOf; rw [hp, ha]; rfl

theorem absOf_some {s : St} {pool : Nat} {denom : String} {k : Int} {x : ASt} (h : CLAccrual.absOf s pool denom k = some x) :
    ∃ p a, getPool s pool = some p ∧ getAccum s pool = some a ∧ x = absWith s pool denom k p a := by
  cases hp : getPool s pool with
  | none => unfold CLAccrual.absOf at h; rw [hp] at h; cases h
  | some p =>
    cases ha : getAccum s pool with
    | none => unfold CLAccrual.absOf at h; rw [hp, ha] at h; cases h
    | some a =>
      rw [absOf_eq hp ha] at h
      exact ⟨p, a, rfl, rfl, (Option.some.inj h).symm⟩

/-- equality of abstract states up to the split of the fee account's balance into `recv − paid`
    (`absOf` represents the balance as `recv` with `paid = 0`; the abstract `claim` books the payment in `paid`) -/
def ObsEq (x y : ASt) : Prop :=
  x.G = y.G ∧ x.fo = y.fo ∧ x.cur = y.cur ∧ x.gross = y.gross ∧ x.net = y.net ∧ x.active = y.active ∧ x.pos = y.pos ∧
    x.recv - x.paid = y.recv - y.paid ∧ x.k = y.k

theorem ObsEq.refl (x : ASt) : ObsEq x x := ⟨rfl, rfl, rfl, rfl, rfl, rfl, rfl, rfl, rfl⟩

/-! ### growth outside / inside, read through the abstraction -/

theorem calcFeeGrowth_upper {target cur : Int} {tg glob r : DecCoins} (hs1 : Sorted tg) (hs2 : Sorted glob)
    (h : calculateFeeGrowth target tg cur glob true = .ok r) :
    Sorted r ∧ ∀ d, raw r d = if cur ≥ target then raw glob d - raw tg d else raw tg d := by
  unfold calculateFeeGrowth at h
  by_cases c : cur ≥ target
  · simp only [c, decide_true, Bool.and_self, Bool.true_or, if_true] at h
    obtain ⟨e, _⟩ := sub_ok h
    subst e
    exact ⟨safeSub_sorted hs2 hs1, fun d => by rw [if_pos c]; exact raw_safeSub hs2 hs1⟩
  · simp only [c, decide_false, Bool.and_false, Bool.not_true, Bool.false_and, Bool.or_self, Bool.false_eq_true, if_false] at h
    have e := res_ok_inj h; subst e
    exact ⟨hs1, fun d => by rw [if_neg c]⟩

theorem calcFeeGrowth_lower {target cur : Int} {tg glob r : DecCoins} (hs1 : Sorted tg) (hs2 : Sorted glob)
    (h : calculateFeeGrowth target tg cur glob false = .ok r) :
    Sorted r ∧ ∀ d, raw r d = if cur < target then raw glob d - raw tg d else raw tg d := by
  unfold calculateFeeGrowth at h
  by_cases c : cur < target
  · simp only [c, decide_true, Bool.not_false, Bool.and_self, Bool.false_and, Bool.false_or, if_true] at h
    obtain ⟨e, _⟩ := sub_ok h
    subst e
    exact ⟨safeSub_sorted hs2 hs1, fun d => by rw [if_pos c]; exact raw_safeSub hs2 hs1⟩
  · simp only [c, decide_false, Bool.and_false, Bool.false_and, Bool.or_self, Bool.false_eq_true, if_false] at h
    have e := res_ok_inj h; subst e
    exact ⟨hs1, fun d => by rw [if_neg c]⟩

theorem getTickInfo_present {s : St} {pool : Nat} {t : Int} {ti : TickInfo} (h : findTick s pool t = some ti) :
    getTickInfo s pool t = .ok ti := by
  unfold getTickInfo; rw [h]

/-- the fee-growth state (`CLFee.St`) of pool `pool`, denom `d` -/
def feeStOf (s : St) (pool : Nat) (d : String) (p : Pool) (acc : Accum) : CLFee.St :=
  ⟨raw acc.value d, foOf s pool d, p.tick⟩

theorem feeSt_absWith (s : St) (pool : Nat) (d : String) (k : Int) (p : Pool) (acc : Accum) :
    CLAccrual.feeSt (absWith s pool d k p acc) = feeStOf s pool d p acc := rfl

/-- `getFeeGrowthOutside` on stored ticks = `below + above` of the abstraction, denom by denom -/
theorem outside_spec {s : St} {pool : Nat} {lo hi : Int} {o : DecCoins} {p : Pool} {acc : Accum} {lt ut : TickInfo}
    (hp : getPool s pool = some p) (ha : getAccum s pool = some acc)
    (hlt : findTick s pool lo = some lt) (hut : findTick s pool hi = some ut)
    (hsa : Sorted acc.value) (hsl : Sorted lt.feeGrowth) (hsu : Sorted ut.feeGrowth)
    (h : getFeeGrowthOutside s pool lo hi = .ok o) :
    Sorted o ∧ ∀ d, raw o d = CLFee.below (feeStOf s pool d p acc) lo + CLFee.above (feeStOf s pool d p acc) hi := by
  unfold getFeeGrowthOutside at h
  simp only [bind, pure, hp, ha, getTickInfo_present hlt, getTickInfo_present hut, ok_bind] at h
  obtain ⟨ab, hab, h⟩ := bind_ok h
  obtain ⟨be, hbe, h⟩ := bind_ok h
  have e := res_ok_inj h; subst e
  obtain ⟨s1, r1⟩ := calcFeeGrowth_upper hsu hsa hab
  obtain ⟨s2, r2⟩ := calcFeeGrowth_lower hsl hsa hbe
  refine ⟨add_sorted s1 s2, fun d => ?_⟩
  rw [raw_add s1 s2, r1 d, r2 d]
  unfold CLFee.below CLFee.above feeStOf foOf
  simp only [hlt, hut]
  omega

/-- growth inside as computed by the keeper (`SafeSub`, no truncation) = `CLAccrual.inside` -/
theorem inside_spec {s : St} {pool : Nat} {lo hi : Int} {o : DecCoins} {p : Pool} {acc : Accum} {lt ut : TickInfo}
    (hp : getPool s pool = some p) (ha : getAccum s pool = some acc)
    (hlt : findTick s pool lo = some lt) (hut : findTick s pool hi = some ut)
    (hsa : Sorted acc.value) (hsl : Sorted lt.feeGrowth) (hsu : Sorted ut.feeGrowth)
    (h : getFeeGrowthOutside s pool lo hi = .ok o) (k : Int) :
    Sorted (DecCoins.safeSub acc.value o).1 ∧
    ∀ d, raw (DecCoins.safeSub acc.value o).1 d = CLAccrual.inside (absWith s pool d k p acc) lo hi := by
  obtain ⟨so, ro⟩ := outside_spec hp ha hlt hut hsa hsl hsu h
  refine ⟨safeSub_sorted hsa so, fun d => ?_⟩
  rw [raw_safeSub hsa so, ro d]
  unfold CLAccrual.inside CLFee.inside
  rw [feeSt_absWith]
  show _ = raw acc.value d - _ - _
  omega

/-! ### GetTotalRewards -/

theorem totalRewards_spec {acc : Accum} {ap : AccPos} {tot : DecCoins}
    (hpos : 0 < ap.shares.raw) (hsa : Sorted acc.value) (hsp : Sorted ap.perShare) (hsu : Sorted ap.unclaimed)
    (hnu : ∀ d, raw ap.perShare d ≤ raw acc.value d)
    (h : totalRewards acc ap = .ok tot) :
    Sorted tot ∧ ∀ d, raw tot d = raw ap.unclaimed d + Dec.chopRound ((raw acc.value d - raw ap.perShare d) * ap.shares.raw) := by
  unfold totalRewards at h
  have h1 : ap.shares.isPositive = true := by simp [Dec.isPositive, hpos]
  have h2 := any_lt_false (g := acc.value) hsp hnu
  simp only [h1, Bool.not_true, Bool.false_eq_true, if_false] at h
  rw [h2] at h
  simp only [Bool.false_eq_true, if_false] at h
  obtain ⟨dd, hd, h⟩ := bind_ok h
  have e := res_ok_inj h; subst e
  obtain ⟨e, _⟩ := sub_ok hd
  subst e
  have s1 := safeSub_sorted hsa hsp
  refine ⟨add_sorted hsu (mulDec_sorted), fun d => ?_⟩
  rw [raw_add hsu (mulDec_sorted), raw_mulDec s1, raw_safeSub hsa hsp]

/-! ### prepareClaimableFees, decomposed -/

/-- the accumulator-position writes of a claim on a position that keeps shares: checkpoint := growth inside, unclaimed := ∅ -/
def claimWrite (s : St) (ap : AccPos) (acc : Accum) (o : DecCoins) : St :=
  setAccPos (setAccPos s { ap with perShare := acc.value, unclaimed := [] })
    { ap with perShare := (DecCoins.safeSub acc.value o).1, unclaimed := [] }

theorem prepare_ok {s s' : St} {posId : Nat} {claimed : List (String × Int)}
    (h : prepareClaimableFees s posId = .ok (s', claimed)) :
    ∃ pos acc ap o tot, getPosition s posId = some pos ∧ getAccum s pos.pool = some acc ∧ getAccPos s posId = some ap ∧
      getFeeGrowthOutside s pos.pool pos.lower pos.upper = .ok o ∧
      totalRewards acc { ap with perShare := DecCoins.add ap.perShare o } = .ok tot ∧
      claimed = (DecCoins.truncateDecimal tot).1 ∧
      (ap.shares.isZero = false →
        (s' = claimWrite s ap acc o ∧
          ((DecCoins.truncateDecimal tot).2.isZero = true ∨ acc.totalShares.isZero = true)) ∨
        (∃ per, (DecCoins.truncateDecimal tot).2.isZero = false ∧ acc.totalShares.isZero = false ∧
          DecCoins.quoDecTruncate (DecCoins.truncateDecimal tot).2 acc.totalShares = .ok per ∧
          s' = setAccum (claimWrite s ap acc o) { acc with value := DecCoins.add acc.value per })) := by
  unfold prepareClaimableFees at h
  simp only [bind, pure] at h
  cases hpos : getPosition s posId with
  | none => rw [hpos] at h; cases h
  | some pos =>
    rw [hpos] at h; simp only [ok_bind] at h
    cases hacc : getAccum s pos.pool with
    | none => rw [hacc] at h; cases h
    | some acc =>
      rw [hacc] at h; simp only [ok_bind] at h
      cases hap : getAccPos s posId with
      | none => rw [hap] at h; cases h
      | some ap =>
        rw [hap] at h; simp only [ok_bind] at h
        obtain ⟨o, ho, h⟩ := bind_ok h
        obtain ⟨tot, htot, h⟩ := bind_ok h
        refine ⟨pos, acc, ap, o, tot, rfl, hacc, rfl, ho, htot, ?_⟩
        have hid := getAccPos_id hap
        refine ⟨?_, ?_⟩
        · split at h
          · split at h
            · split at h
              · obtain ⟨per, _, h⟩ := bind_ok h; exact (congrArg Prod.snd (res_ok_inj h)).symm
              · exact (congrArg Prod.snd (res_ok_inj h)).symm
            · cases h
          · exact (congrArg Prod.snd (res_ok_inj h)).symm
        · intro hz
          have hg1 : getAccPos (setAccPos s { ap with perShare := acc.value, unclaimed := [] }) posId
              = some { ap with perShare := acc.value, unclaimed := [] } := by
            rw [getAccPos_setAccPos]; simp [hid]
          simp only [hz, Bool.false_eq_true, if_false, hg1] at h
          have hg2 : getAccum (claimWrite s ap acc o) pos.pool = some acc := by
            rw [← hacc]; exact getAccum_setAccPos _ _ _ |>.trans (getAccum_setAccPos _ _ _)
          change (if _ then (match getAccum (claimWrite s ap acc o) pos.pool with | some a2 => _ | none => _) else _) = _ at h
          rw [hg2] at h
          simp only [] at h
          cases hdz : (DecCoins.truncateDecimal tot).2.isZero with
          | true =>
            simp only [hdz, Bool.not_true, Bool.false_eq_true, if_false] at h
            exact Or.inl ⟨(congrArg Prod.fst (res_ok_inj h)).symm, Or.inl rfl⟩
          | false =>
            simp only [hdz, Bool.not_false, if_true] at h
            cases htz : acc.totalShares.isZero with
            | true =>
              simp only [htz, Bool.not_true, Bool.false_eq_true, if_false] at h
              exact Or.inl ⟨(congrArg Prod.fst (res_ok_inj h)).symm, Or.inr rfl⟩
            | false =>
              simp only [htz, Bool.not_false, if_true] at h
              obtain ⟨per, hper, h⟩ := bind_ok h
              exact Or.inr ⟨per, rfl, rfl, hper, (congrArg Prod.fst (res_ok_inj h)).symm⟩

/-! ### the position list of the abstraction -/

theorem map_set_nodup (f g : Position → APos) : ∀ (l : List Position) (i : Nat) (q : Position),
    (l.map (·.id)).Nodup → l[i]? = some q → (∀ q' ∈ l, q'.id ≠ q.id → g q' = f q') →
    l.map g = (l.map f).set i (g q) := by
  intro l
  induction l with
  | nil => intro i q _ h; simp at h
  | cons x xs ih =>
    intro i q hnd hi hfg
    have hnd' : x.id ∉ xs.map (·.id) ∧ (xs.map (·.id)).Nodup := by simpa [List.nodup_cons] using hnd
    cases i with
    | zero =>
      simp only [List.getElem?_cons_zero, Option.some.injEq] at hi
      subst hi
      simp only [List.map_cons, List.set_cons_zero, List.cons.injEq, true_and]
      apply List.map_congr_left
      intro q' hq'
      apply hfg q' (List.mem_cons_of_mem _ hq')
      intro e
      exact hnd'.1 (List.mem_map.mpr ⟨q', hq', e⟩)
    | succ j =>
      simp only [List.getElem?_cons_succ] at hi
      have hq : q ∈ xs := List.mem_of_getElem? hi
      simp only [List.map_cons, List.set_cons_succ, List.cons.injEq]
      refine ⟨?_, ih j q hnd'.2 hi (fun q' hq' => hfg q' (List.mem_cons_of_mem _ hq'))⟩
      apply hfg x List.mem_cons_self
      intro e
      exact hnd'.1 (List.mem_map.mpr ⟨q, hq, e.symm⟩)

theorem poolPositions_nodup {s : St} (pool : Nat) (h : (s.positions.map (·.id)).Nodup) :
    ((poolPositions s pool).map (·.id)).Nodup := by
  unfold poolPositions
  exact h.sublist (List.Sublist.map _ List.filter_sublist)

theorem mem_poolPositions {s : St} {pool : Nat} {q : Position} :
    q ∈ poolPositions s pool ↔ q ∈ s.positions ∧ q.pool = pool := by
  unfold poolPositions; simp [List.mem_filter]

/-- with distinct ids, `getPosition` returns the stored record of that id -/
theorem getPosition_of_mem {s : St} {q : Position} (hnd : (s.positions.map (·.id)).Nodup) (hm : q ∈ s.positions) :
    getPosition s q.id = some q := by
  unfold getPosition
  generalize s.positions = l at hnd hm
  induction l with
  | nil => cases hm
  | cons x xs ih =>
    have hnd' : x.id ∉ xs.map (·.id) ∧ (xs.map (·.id)).Nodup := by simpa [List.nodup_cons] using hnd
    rw [List.find?_cons]
    rcases List.mem_cons.mp hm with e | hm'
    · subst e; simp
    · have : (x.id == q.id) = false := by
        simp only [beq_eq_false_iff_ne, ne_eq]
        intro e; exact hnd'.1 (List.mem_map.mpr ⟨q, hm', e.symm⟩)
      rw [this]; exact ih hnd'.2 hm'

theorem setAccPos_frame (s : St) (x : AccPos) :
    (setAccPos s x).pools = s.pools ∧ (setAccPos s x).positions = s.positions ∧ (setAccPos s x).ticks = s.ticks ∧
      (setAccPos s x).bank = s.bank ∧ (setAccPos s x).accums = s.accums := by
  unfold setAccPos; split <;> exact ⟨rfl, rfl, rfl, rfl, rfl⟩

theorem claimWrite_frame (s : St) (ap : AccPos) (acc : Accum) (o : DecCoins) :
    (claimWrite s ap acc o).pools = s.pools ∧ (claimWrite s ap acc o).positions = s.positions ∧
      (claimWrite s ap acc o).ticks = s.ticks ∧ (claimWrite s ap acc o).bank = s.bank ∧
      (claimWrite s ap acc o).accums = s.accums := by
  unfold claimWrite
  obtain ⟨a1, a2, a3, a4, a5⟩ := setAccPos_frame s { ap with perShare := acc.value, unclaimed := [] }
  obtain ⟨b1, b2, b3, b4, b5⟩ := setAccPos_frame (setAccPos s { ap with perShare := acc.value, unclaimed := [] })
    { ap with perShare := (DecCoins.safeSub acc.value o).1, unclaimed := [] }
  exact ⟨b1.trans a1, b2.trans a2, b3.trans a3, b4.trans a4, b5.trans a5⟩

theorem getAccPos_claimWrite (s : St) (ap : AccPos) (acc : Accum) (o : DecCoins) (id : Nat) :
    getAccPos (claimWrite s ap acc o) id =
      if id = ap.posId then some { ap with perShare := (DecCoins.safeSub acc.value o).1, unclaimed := [] } else getAccPos s id := by
  unfold claimWrite
  rw [getAccPos_setAccPos, getAccPos_setAccPos]
  by_cases h : id = ap.posId <;> simp [h]

theorem foOf_congr {s s' : St} (h : s'.ticks = s.ticks) (pool : Nat) (d : String) : foOf s' pool d = foOf s pool d := by
  funext t; unfold foOf findTick; rw [h]

theorem grossOf_congr' {s s' : St} (h : s'.ticks = s.ticks) (pool : Nat) : grossOf s' pool = grossOf s pool := by
  funext t; exact grossOf_congr h pool t

theorem netOf_congr' {s s' : St} (h : s'.ticks = s.ticks) (pool : Nat) : netOf s' pool = netOf s pool := by
  funext t; exact netOf_congr h pool t

theorem poolPositions_congr {s s' : St} (h : s'.positions = s.positions) (pool : Nat) :
    poolPositions s' pool = poolPositions s pool := by
  unfold poolPositions; rw [h]

/-- all stored `DecCoins` values are denom-sorted (what `sdk.DecCoins` guarantees by construction) -/
structure SortedWF (s : St) : Prop where
  accum : ∀ a ∈ s.accums, Sorted a.value
  ticks : ∀ t ∈ s.ticks, Sorted t.feeGrowth
  accPos : ∀ ap ∈ s.accPos, Sorted ap.perShare ∧ Sorted ap.unclaimed

theorem SortedWF.of_getAccum {s : St} (w : SortedWF s) {pool : Nat} {a : Accum} (h : getAccum s pool = some a) : Sorted a.value :=
  w.accum a (List.mem_of_find?_eq_some h)
theorem SortedWF.of_findTick {s : St} (w : SortedWF s) {pool : Nat} {t : Int} {ti : TickInfo} (h : findTick s pool t = some ti) :
    Sorted ti.feeGrowth := w.ticks ti (List.mem_of_find?_eq_some h)
theorem SortedWF.of_getAccPos {s : St} (w : SortedWF s) {id : Nat} {ap : AccPos} (h : getAccPos s id = some ap) :
    Sorted ap.perShare ∧ Sorted ap.unclaimed := w.accPos ap (List.mem_of_find?_eq_some h)

/-! ### 1. claim -/

theorem ast_ext {x y : ASt} (h1 : x.G = y.G) (h2 : x.fo = y.fo) (h3 : x.cur = y.cur) (h4 : x.gross = y.gross)
    (h5 : x.net = y.net) (h6 : x.active = y.active) (h7 : x.pos = y.pos) (h8 : x.recv = y.recv) (h9 : x.paid = y.paid)
    (h10 : x.k = y.k) : x = y := by
  cases x; cases y
  simp only [CLAccrual.St.mk.injEq]
  exact ⟨h1, h2, h3, h4, h5, h6, h7, h8, h9, h10⟩

/-- abstract `rewards` in closed form under the guard and the no-underflow clause of `CLAccrual.Inv.wf` -/
theorem rewards_eq {a : ASt} {p : APos} (hs : 0 < p.s) (hc : p.c ≤ CLAccrual.inside a p.lo p.hi) :
    CLAccrual.rewards a p = p.u + Dec.chopRound ((CLAccrual.inside a p.lo p.hi - p.c) * p.s) := by
  unfold CLAccrual.rewards
  rw [if_neg (by omega), if_neg (by omega)]

theorem tquo_zero (b : Int) : Dec.tquo 0 b = 0 := by unfold Dec.tquo; exact Int.zero_tdiv b

theorem posOf_some {s : St} {d : String} {q : Position} {ap : AccPos} (h : getAccPos s q.id = some ap) :
    posOf s d q = ⟨q.lower, q.upper, ap.shares.raw, raw ap.perShare d, raw ap.unclaimed d⟩ := by
  unfold posOf; rw [h]

/-- **1 (core).** `prepareClaimableFees` of position `posId` (index `i` among the pool's positions) is the abstract
    `claim i`: the abstraction of the state after is `step a (.claim i)` (with the payment not yet taken out of the fee
    account: `paid` stays 0 and `recv` is unchanged, because the bank is untouched), the integer amount of `denom` in the
    returned coins is `claimPay a i`, and nothing but accumulator and accumulator positions is written. -/
theorem prepare_refines {s s' : St} {posId : Nat} {claimed : List (String × Int)} {pool : Nat} {denom : String} {k : Int}
    {a : ASt} {i : Nat} {pos : Position}
    (h : prepareClaimableFees s posId = .ok (s', claimed))
    (habs : CLAccrual.absOf s pool denom k = some a)
    (hi : (poolPositions s pool)[i]? = some pos) (hid : pos.id = posId)
    (hnd : (s.positions.map (·.id)).Nodup)
    (hsw : SortedWF s)
    (hticks : (findTick s pool pos.lower).isSome ∧ (findTick s pool pos.upper).isSome)
    (hguard : (CLAccrual.Op.claim i).guard a)
    (hck : ∀ d' b, CLAccrual.absOf s pool d' k = some b → ∀ p, b.pos[i]? = some p → 0 < p.s →
      p.c ≤ CLAccrual.inside b p.lo p.hi)
    (hT : ∀ acc, getAccum s pool = some acc → acc.totalShares.raw = CLAccrual.totalShares a) :
    CLAccrual.absOf s' pool denom (k + 1) = some { CLAccrual.step a (.claim i) with paid := 0 } ∧
      coinAmt claimed denom = CLAccrual.claimPay a i ∧
      s'.bank = s.bank ∧ s'.positions = s.positions ∧ s'.ticks = s.ticks ∧ s'.pools = s.pools := by
  obtain ⟨p, acc, hp, hacc, ea⟩ := absOf_some habs
  obtain ⟨pos', acc', ap, o, tot, hpos', hacc', hap, ho, htot, hcl, hcase⟩ := prepare_ok h
  have hmem := mem_poolPositions.mp (List.mem_of_getElem? hi)
  have hgetpos : getPosition s posId = some pos := by rw [← hid]; exact getPosition_of_mem hnd hmem.1
  have e1 : pos' = pos := by rw [hgetpos] at hpos'; exact (Option.some.inj hpos').symm
  subst e1
  rw [hmem.2] at hacc' ho
  have e2 : acc = acc' := by rw [hacc] at hacc'; exact Option.some.inj hacc'
  subst e2
  have hapid : getAccPos s pos'.id = some ap := by rw [hid]; exact hap
  have hapId := getAccPos_id hap
  -- ticks and sortedness
  obtain ⟨lt, hlt⟩ := Option.isSome_iff_exists.mp hticks.1
  obtain ⟨ut, hut⟩ := Option.isSome_iff_exists.mp hticks.2
  have hsa := hsw.of_getAccum hacc
  have hsl := hsw.of_findTick hlt
  have hsu := hsw.of_findTick hut
  obtain ⟨hsp, hsun⟩ := hsw.of_getAccPos hap
  obtain ⟨hso, hro⟩ := outside_spec hp hacc hlt hut hsa hsl hsu ho
  obtain ⟨hsi, hri⟩ := inside_spec hp hacc hlt hut hsa hsl hsu ho k
  -- the abstract position i, at every denom
  have hposAt : ∀ d' k', (absWith s pool d' k' p acc).pos[i]? = some (posOf s d' pos') := by
    intro d' k'
    show ((poolPositions s pool).map (posOf s d'))[i]? = _
    rw [List.getElem?_map, hi]; rfl
  have hai : a.pos[i]? = some (posOf s denom pos') := by rw [ea]; exact hposAt denom k
  obtain ⟨pg, hpg, hpgs⟩ := hguard
  have hshares : 0 < ap.shares.raw := by
    rw [hai] at hpg
    have := Option.some.inj hpg
    rw [← this, posOf_some hapid] at hpgs
    exact hpgs
  have hinsAt : ∀ d', CLAccrual.inside (absWith s pool d' k p acc) pos'.lower pos'.upper = raw acc.value d' - raw o d' := by
    intro d'
    rw [← hri d', raw_safeSub hsa hso]
  have hnu : ∀ d', raw (DecCoins.add ap.perShare o) d' ≤ raw acc.value d' := by
    intro d'
    have := hck d' _ (absOf_eq hp hacc) _ (hposAt d' k) (by rw [posOf_some hapid]; exact hshares)
    rw [posOf_some hapid] at this
    simp only [] at this
    rw [hinsAt d'] at this
    rw [raw_add hsp hso]
    omega
  obtain ⟨hst, hrt⟩ := totalRewards_spec (ap := { ap with perShare := DecCoins.add ap.perShare o }) hshares hsa
    (add_sorted hsp hso) hsun hnu htot
  simp only [] at hrt
  -- abstract rewards of position i
  have hrew : CLAccrual.rewards a (posOf s denom pos') = raw tot denom := by
    have hc := hck denom a habs _ hai (by rw [posOf_some hapid]; exact hshares)
    rw [rewards_eq (by rw [posOf_some hapid]; exact hshares) hc, hrt denom, posOf_some hapid]
    simp only []
    rw [ea, hinsAt denom, raw_add hsp hso]
    have : raw acc.value denom - raw o denom - raw ap.perShare denom = raw acc.value denom - (raw ap.perShare denom + raw o denom) := by
      omega
    rw [this]
  have hpay : coinAmt claimed denom = CLAccrual.claimPay a i := by
    unfold CLAccrual.claimPay
    rw [hai]
    simp only []
    rw [hrew, hcl, coinAmt_truncateDecimal hst]
  have hdust : raw (DecCoins.truncateDecimal tot).2 denom
      = CLAccrual.rewards a (posOf s denom pos') - Dec.tquo (CLAccrual.rewards a (posOf s denom pos')) PREC * PREC := by
    rw [hrew]; exact raw_truncateDecimal_dust hst
  -- the abstract step
  have hstep : CLAccrual.step a (.claim i) =
      { a with pos := a.pos.set i ⟨pos'.lower, pos'.upper, ap.shares.raw, CLAccrual.inside a pos'.lower pos'.upper, 0⟩,
               paid := a.paid + Dec.tquo (CLAccrual.rewards a (posOf s denom pos')) PREC * PREC, k := a.k + 1,
               G := a.G + CLAccrual.dustGrowth (raw (DecCoins.truncateDecimal tot).2 denom) (CLAccrual.totalShares a) } := by
    simp only [CLAccrual.step, hai]
    rw [hdust]
    simp only [posOf_some hapid]
  -- frames of the concrete step
  have hfr := claimWrite_frame s ap acc o
  have hposlist : ∀ s2 : St, s2.positions = s.positions → (∀ id, getAccPos s2 id = getAccPos (claimWrite s ap acc o) id) →
      (poolPositions s2 pool).map (posOf s2 denom)
        = a.pos.set i ⟨pos'.lower, pos'.upper, ap.shares.raw, CLAccrual.inside a pos'.lower pos'.upper, 0⟩ := by
    intro s2 h1 h2
    rw [poolPositions_congr h1, ea]
    show _ = ((poolPositions s pool).map (posOf s denom)).set i _
    have hnew : posOf s2 denom pos' = ⟨pos'.lower, pos'.upper, ap.shares.raw,
        CLAccrual.inside (absWith s pool denom k p acc) pos'.lower pos'.upper, 0⟩ := by
      unfold posOf
      rw [h2, getAccPos_claimWrite, hapId, if_pos hid]
      simp only [CLAccrual.Pos.mk.injEq, true_and]
      exact ⟨hri denom, raw_nil⟩
    rw [← hnew]
    apply map_set_nodup (posOf s denom) (posOf s2 denom) _ i pos' (poolPositions_nodup pool hnd) hi
    intro q' _ hne
    unfold posOf
    rw [h2, getAccPos_claimWrite, hapId, if_neg (by rw [← hid]; exact hne)]
  have hk : (absWith s pool denom k p acc).k = k := rfl
  have hTT := hT acc hacc
  rcases hcase (by simp [Dec.isZero]; omega) with ⟨hs', hz⟩ | ⟨per, hdz, htz, hper, hs'⟩
  · -- no dust re-added
    have hG0 : CLAccrual.dustGrowth (raw (DecCoins.truncateDecimal tot).2 denom) (CLAccrual.totalShares a) = 0 := by
      unfold CLAccrual.dustGrowth
      rcases hz with hz | hz
      · rw [isZero_raw hz]; simp
      · have : CLAccrual.totalShares a = 0 := by rw [← hTT]; simpa [Dec.isZero] using hz
        rw [this]; simp
    refine ⟨?_, hpay, by rw [hs']; exact hfr.2.2.2.1, by rw [hs']; exact hfr.2.1, by rw [hs']; exact hfr.2.2.1,
      by rw [hs']; exact hfr.1⟩
    have hp' : getPool s' pool = some p := by rw [hs', getPool_congr hfr.1]; exact hp
    have hacc'' : getAccum s' pool = some acc := by
      rw [hs']; unfold getAccum; rw [hfr.2.2.2.2]; exact hacc
    subst ea
    rw [absOf_eq hp' hacc'', hstep, hG0]
    congr 1
    apply ast_ext
    · show _ = raw acc.value denom + 0; show raw acc.value denom = _; omega
    · rw [hs']; exact foOf_congr hfr.2.2.1 pool denom
    · rfl
    · rw [hs']; exact grossOf_congr' hfr.2.2.1 pool
    · rw [hs']; exact netOf_congr' hfr.2.2.1 pool
    · rfl
    · exact hposlist s' (by rw [hs']; exact hfr.2.1) (fun id => by rw [hs'])
    · show s'.bank.bal _ _ * PREC = s.bank.bal _ _ * PREC
      rw [hs', hfr.2.2.2.1]
    · rfl
    · rfl
  · -- dust re-added to the accumulator
    have hGd : CLAccrual.dustGrowth (raw (DecCoins.truncateDecimal tot).2 denom) (CLAccrual.totalShares a) = raw per denom := by
      rw [quoDecTruncate_sorted_raw truncateDecimal_dust_sorted hper]
      unfold CLAccrual.dustGrowth
      have hTne : CLAccrual.totalShares a ≠ 0 := by
        rw [← hTT]; simpa [Dec.isZero] using htz
      rw [hTT]
      by_cases hd0 : raw (DecCoins.truncateDecimal tot).2 denom = 0
      · rw [hd0]; simp [tquo_zero]
      · rw [if_neg (by simp [hd0, hTne])]
    have hset : (setAccum (claimWrite s ap acc o) { acc with value := DecCoins.add acc.value per }).pools = s.pools ∧
        (setAccum (claimWrite s ap acc o) { acc with value := DecCoins.add acc.value per }).positions = s.positions ∧
        (setAccum (claimWrite s ap acc o) { acc with value := DecCoins.add acc.value per }).ticks = s.ticks ∧
        (setAccum (claimWrite s ap acc o) { acc with value := DecCoins.add acc.value per }).bank = s.bank :=
      ⟨hfr.1, hfr.2.1, hfr.2.2.1, hfr.2.2.2.1⟩
    refine ⟨?_, hpay, by rw [hs']; exact hset.2.2.2, by rw [hs']; exact hset.2.1, by rw [hs']; exact hset.2.2.1,
      by rw [hs']; exact hset.1⟩
    have hp' : getPool s' pool = some p := by rw [hs', getPool_congr hset.1]; exact hp
    have hacc0 : getAccum (claimWrite s ap acc o) pool = some acc := by
      unfold getAccum; rw [hfr.2.2.2.2]; exact hacc
    have hacc'' : getAccum s' pool = some { acc with value := DecCoins.add acc.value per } := by
      rw [hs']; exact getAccum_setAccum_self hacc0 (show acc.pool = pool from getAccum_pool hacc)
    have hsper : Sorted per := (quoDecTruncate_ok hper).2.1
    subst ea
    rw [absOf_eq hp' hacc'', hstep, hGd]
    congr 1
    apply ast_ext
    · show raw (DecCoins.add acc.value per) denom = raw acc.value denom + raw per denom
      exact raw_add hsa hsper
    · rw [hs']; exact foOf_congr hset.2.2.1 pool denom
    · rfl
    · rw [hs']; exact grossOf_congr' hset.2.2.1 pool
    · rw [hs']; exact netOf_congr' hset.2.2.1 pool
    · rfl
    · exact hposlist s' (by rw [hs']; exact hset.2.1) (fun id => by rw [hs', getAccPos_setAccum])
    · show s'.bank.bal _ _ * PREC = s.bank.bal _ _ * PREC
      rw [hs', hset.2.2.2]
    · rfl
    · rfl

/-! ### the bank side of a claim -/

theorem coinAmt_cons (c : String × Int) (t : List (String × Int)) (d : String) :
    coinAmt (c :: t) d = (if c.1 = d then c.2 else 0) + coinAmt t d := by
  rw [coinAmt_eq_sumBy, coinAmt_eq_sumBy, sumBy_cons]

theorem coinAmt_nil (d : String) : coinAmt [] d = 0 := rfl

theorem sendFold_bind (src dst : Addr) (cs : List (String × Int)) : ∀ r : Res Bank,
    cs.foldl (fun (r : Res Bank) c => r.bind fun b => b.send src dst c.1 c.2) r =
      r.bind fun b => cs.foldl (fun (r : Res Bank) c => r.bind fun b => b.send src dst c.1 c.2) (.ok b) := by
  induction cs with
  | nil => intro r; cases r <;> rfl
  | cons c cs ih =>
    intro r
    simp only [List.foldl_cons]
    cases r with
    | ok b => rfl
    | err e => rw [ih]; rfl
    | panic k => rw [ih]; rfl

theorem sendCoins_cons (b : Bank) (src dst : Addr) (c : String × Int) (cs : List (String × Int)) :
    sendCoins b src dst (c :: cs) = (b.send src dst c.1 c.2).bind fun b1 => sendCoins b1 src dst cs := by
  unfold sendCoins
  simp only [List.foldl_cons]
  rw [sendFold_bind]
  rfl

/-- `SendCoins` moves exactly `coinAmt cs d` of every denom `d` from `src` to `dst` and touches no other account -/
theorem sendCoins_bal {src dst : Addr} (hne : src ≠ dst) (cs : List (String × Int)) : ∀ {b b' : Bank},
    sendCoins b src dst cs = .ok b' →
    ∀ d, b'.bal src d = b.bal src d - coinAmt cs d ∧ b'.bal dst d = b.bal dst d + coinAmt cs d ∧
      ∀ x, x ≠ src → x ≠ dst → b'.bal x d = b.bal x d := by
  induction cs with
  | nil =>
    intro b b' h d
    have e : b = b' := res_ok_inj h
    subst e
    rw [coinAmt_nil]; exact ⟨by omega, by omega, fun _ _ _ => rfl⟩
  | cons c cs ih =>
    intro b b' h d
    rw [sendCoins_cons] at h
    obtain ⟨b1, h1, h2⟩ := bind_ok h
    obtain ⟨_, _, e1⟩ := Bank.send_ok h1
    obtain ⟨i1, i2, i3⟩ := ih h2 d
    rw [coinAmt_cons]
    have hne' : dst ≠ src := fun e => hne e.symm
    refine ⟨?_, ?_, ?_⟩
    · rw [i1, e1]
      by_cases hd : c.1 = d
      · subst hd; simp [hne]; omega
      · have hd' : ¬ d = c.1 := fun e => hd e.symm
        simp [hd, hd']
    · rw [i2, e1]
      by_cases hd : c.1 = d
      · subst hd; simp [hne']; omega
      · have hd' : ¬ d = c.1 := fun e => hd e.symm
        simp [hd, hd']
    · intro x hx1 hx2
      rw [i3 x hx1 hx2, e1]
      simp [hx1, hx2]

theorem absOf_bank (s : St) (b : Bank) (pool : Nat) (denom : String) (k : Int) :
    CLAccrual.absOf { s with bank := b } pool denom k =
      (CLAccrual.absOf s pool denom k).map fun x => { x with recv := b.bal (feesAddr pool) denom * PREC } := by
  cases hp : getPool s pool with
  | none =>
    have : getPool { s with bank := b } pool = none := hp
    unfold CLAccrual.absOf; rw [hp, this]; rfl
  | some p =>
    have hp2 : getPool { s with bank := b } pool = some p := hp
    cases ha : getAccum s pool with
    | none =>
      have : getAccum { s with bank := b } pool = none := ha
      unfold CLAccrual.absOf; rw [hp, hp2, ha, this]; rfl
    | some a =>
      have ha2 : getAccum { s with bank := b } pool = some a := ha
      rw [absOf_eq hp ha, absOf_eq hp2 ha2]
      rfl

/-- **1. `claim_refines`.** A successful `collectFees` (one iteration of `claimRewards`) of the position with index `i`
    among the pool's stored positions is the abstract `claim i`: the abstraction of the state after is `step a (.claim i)`
    — same global growth (dust re-added as `QuoDecTruncate(dust, totalShares)`), same checkpoint (growth inside), unclaimed
    0, every other position record unchanged (frame), the fee account's balance `recv − paid` lowered by the payment — and the
    amount of `denom` paid to the owner is `claimPay a i`, taken from the fee account of the pool. -/
theorem claim_refines {s s' : St} {sender : Addr} {posId : Nat} {claimed : List (String × Int)} {pool : Nat} {denom : String}
    {k : Int} {a : ASt} {i : Nat} {pos : Position}
    (h : collectFees s sender posId = .ok (s', claimed))
    (habs : CLAccrual.absOf s pool denom k = some a)
    (hi : (poolPositions s pool)[i]? = some pos) (hid : pos.id = posId)
    (hnd : (s.positions.map (·.id)).Nodup)
    (hsw : SortedWF s)
    (hticks : (findTick s pool pos.lower).isSome ∧ (findTick s pool pos.upper).isSome)
    (hguard : (CLAccrual.Op.claim i).guard a)
    (hck : ∀ d' b, CLAccrual.absOf s pool d' k = some b → ∀ p, b.pos[i]? = some p → 0 < p.s →
      p.c ≤ CLAccrual.inside b p.lo p.hi)
    (hT : ∀ acc, getAccum s pool = some acc → acc.totalShares.raw = CLAccrual.totalShares a)
    (hsender : sender ≠ feesAddr pool) :
    ∃ a', CLAccrual.absOf s' pool denom (k + 1) = some a' ∧ ObsEq a' (CLAccrual.step a (.claim i)) ∧
      coinAmt claimed denom = CLAccrual.claimPay a i ∧
      s'.bank.bal (feesAddr pool) denom = s.bank.bal (feesAddr pool) denom - CLAccrual.claimPay a i ∧
      s'.bank.bal sender denom = s.bank.bal sender denom + CLAccrual.claimPay a i ∧
      (∀ j, j ≠ i → a'.pos[j]? = a.pos[j]?) ∧
      s'.positions = s.positions ∧ s'.ticks = s.ticks ∧ s'.pools = s.pools := by
  have hmem := mem_poolPositions.mp (List.mem_of_getElem? hi)
  have hgetpos : getPosition s posId = some pos := by rw [← hid]; exact getPosition_of_mem hnd hmem.1
  unfold collectFees at h
  simp only [bind, pure, hgetpos, ok_bind] at h
  split at h
  · cases h
  · obtain ⟨r, hr, h⟩ := bind_ok h
    obtain ⟨hA, hpay, hb, hposs, htk, hpl⟩ := prepare_refines (s' := r.1) (claimed := r.2) hr habs hi hid hnd hsw hticks hguard hck hT
    have hpaid0 : a.paid = 0 := by
      obtain ⟨_, _, _, _, ea⟩ := absOf_some habs
      rw [ea]; rfl
    have hrecv : a.recv = s.bank.bal (feesAddr pool) denom * PREC := by
      obtain ⟨_, _, _, _, ea⟩ := absOf_some habs
      rw [ea]; rfl
    have hstepPaid : (CLAccrual.step a (.claim i)).paid = a.paid + CLAccrual.claimPay a i * PREC ∧
        (CLAccrual.step a (.claim i)).recv = a.recv := by
      obtain ⟨pg, hpg, _⟩ := hguard
      simp only [CLAccrual.step, CLAccrual.claimPay, hpg]
      exact ⟨trivial, trivial⟩
    have hframe : ∀ j, j ≠ i → (CLAccrual.step a (.claim i)).pos[j]? = a.pos[j]? := by
      intro j hj
      obtain ⟨pg, hpg, _⟩ := hguard
      simp only [CLAccrual.step, hpg]
      exact List.getElem?_set_ne (fun e => hj e.symm)
    rw [hmem.2] at h
    split at h
    · -- nothing to pay
      have e := res_ok_inj h
      have e1 : r.1 = s' := congrArg Prod.fst e
      have e2 : claimed = [] := (congrArg Prod.snd e).symm
      rename_i hempty
      have hr2 : r.2 = [] := by simpa using hempty
      rw [hr2, coinAmt_nil] at hpay
      subst e1
      refine ⟨{ CLAccrual.step a (.claim i) with paid := 0 }, hA, ?_, by rw [e2, coinAmt_nil]; exact hpay, by rw [hb, ← hpay]; omega, by rw [hb, ← hpay]; omega,
        hframe, hposs, htk, hpl⟩
      refine ⟨rfl, rfl, rfl, rfl, rfl, rfl, rfl, ?_, rfl⟩
      show (CLAccrual.step a (.claim i)).recv - 0 = (CLAccrual.step a (.claim i)).recv - (CLAccrual.step a (.claim i)).paid
      rw [hstepPaid.1, hpaid0, ← hpay]; omega
    · split at h
      · cases h
      · obtain ⟨b, hsend, h⟩ := bind_ok h
        have e := res_ok_inj h
        have e1 : { r.1 with bank := b } = s' := congrArg Prod.fst e
        have e2 : r.2 = claimed := congrArg Prod.snd e
        obtain ⟨bs, bd, _⟩ := sendCoins_bal (fun e => hsender e.symm) r.2 hsend denom
        rw [hb, hpay] at bs bd
        subst e1
        refine ⟨{ CLAccrual.step a (.claim i) with paid := 0, recv := b.bal (feesAddr pool) denom * PREC },
          by rw [absOf_bank, hA]; rfl, ?_, by rw [← e2]; exact hpay, bs, bd, hframe, hposs, htk, hpl⟩
        refine ⟨rfl, rfl, rfl, rfl, rfl, rfl, rfl, ?_, rfl⟩
        show b.bal (feesAddr pool) denom * PREC - 0
          = (CLAccrual.step a (.claim i)).recv - (CLAccrual.step a (.claim i)).paid
        rw [hstepPaid.1, hstepPaid.2, hpaid0, hrecv, bs]
        have : (s.bank.bal (feesAddr pool) denom - CLAccrual.claimPay a i) * PREC
            = s.bank.bal (feesAddr pool) denom * PREC - CLAccrual.claimPay a i * PREC := Int.sub_mul ..
        omega

/-! ### 2. fee steps: `updateFeeGrowth` (swap loop) and `allocateIncentive` -/

/-- the accrual abstraction seen from inside the swap loop (`computeSwap` reads the accumulator once, as `accVal`, and
    writes `accVal + [(denomIn, growthPerLiq)]` back at the end): global growth = `accVal` + the growth accrued so far for
    the input denom; cursor and active liquidity from the swap state; growth outside, gross, net and positions from the
    store; the fee account is credited only after the loop, so `recv` = balance + the fee total charged so far. -/
def absLoop (s : St) (pool : Nat) (denom : String) (k : Int) (accVal : DecCoins) (denomIn : Denom) (ss : SwapState) : ASt :=
  { G := raw accVal denom + (if denomIn = denom then ss.growthPerLiq.raw else 0)
    fo := foOf s pool denom
    cur := ss.tick
    gross := grossOf s pool
    net := netOf s pool
    active := ss.liq.raw
    pos := (poolPositions s pool).map (posOf s denom)
    recv := s.bank.bal (feesAddr pool) denom * PREC + (if denomIn = denom then ss.feeTotal.raw else 0)
    paid := 0
    k := k }

/-- **2a. `fee_step_refines` (swap loop).** `updateFeeGrowth` with the fee charge of one swap step is the abstract
    `fee f` step, `f` = the raw fee charge (the trace event `.fee f`), for the input denom:
    growth += QuoTruncate(f, active) (nothing when there is no active liquidity), `recv += f`. -/
theorem fee_step_refines (s : St) (pool : Nat) (denom : String) (k : Int) (accVal : DecCoins) (denomIn : Denom)
    (ss : SwapState) (fee : Dec) (hd : denomIn = denom) :
    absLoop s pool denom k accVal denomIn (updateFeeGrowth ss fee)
      = CLAccrual.step (absLoop s pool denom k accVal denomIn ss) (.fee fee.raw) := by
  unfold updateFeeGrowth absLoop
  simp only [CLAccrual.step, hd, if_true]
  by_cases hz : ss.liq.raw = 0
  · have : ss.liq.isZero = true := by simp [Dec.isZero, hz]
    simp only [this, if_true, hz, Dec.add]
    apply ast_ext <;> simp only [] <;> omega
  · have : ss.liq.isZero = false := by simp [Dec.isZero, hz]
    simp only [this, Bool.false_eq_true, if_false, hz, Dec.add, Dec.quoTruncate]
    apply ast_ext <;> simp only [] <;> omega

/-- for the other denoms of the pool a fee step of the swap loop is invisible -/
theorem fee_step_other_denom (s : St) (pool : Nat) (denom : String) (k : Int) (accVal : DecCoins) (denomIn : Denom)
    (ss : SwapState) (fee : Dec) (hd : denomIn ≠ denom) :
    absLoop s pool denom k accVal denomIn (updateFeeGrowth ss fee) = absLoop s pool denom k accVal denomIn ss := by
  unfold updateFeeGrowth absLoop
  simp only [hd, if_false]
  split <;> rfl

/-- the abstract operations of an incentive allocation for `denom`: one `fee` per coin of that denom -/
def incentiveOps (coins : List (String × Int)) (denom : String) : List CLAccrual.Op :=
  (coins.filter (·.1 == denom)).map fun c => .fee (c.2 * PREC)

theorem fee_fold (active : Int) (hact : active ≠ 0) (cs : List (String × Int)) : ∀ a : ASt, a.active = active →
    (cs.map fun c => CLAccrual.Op.fee (c.2 * PREC)).foldl CLAccrual.step a =
      { a with G := a.G + cs.foldl (fun acc c => acc + Dec.tquo (c.2 * PREC * PREC) active) 0,
               recv := a.recv + cs.foldl (fun acc c => acc + c.2 * PREC) 0 } := by
  induction cs with
  | nil => intro a _; apply ast_ext <;> simp
  | cons c cs ih =>
    intro a ha
    simp only [List.map_cons, List.foldl_cons]
    rw [ih (CLAccrual.step a (.fee (c.2 * PREC))) (by simp only [CLAccrual.step]; exact ha)]
    rw [foldl_add_shift (fun c : String × Int => Dec.tquo (c.2 * PREC * PREC) active) cs (0 + _),
      foldl_add_shift (fun c : String × Int => c.2 * PREC) cs (0 + _)]
    simp only [CLAccrual.step, ha, hact, if_false]
    apply ast_ext <;> simp only [] <;> omega

theorem sendCoins_nonneg {src dst : Addr} (cs : List (String × Int)) : ∀ {b b' : Bank},
    sendCoins b src dst cs = .ok b' → ∀ c ∈ cs, 0 ≤ c.2 := by
  induction cs with
  | nil => intro b b' _ c hc; cases hc
  | cons x xs ih =>
    intro b b' h c hc
    rw [sendCoins_cons] at h
    obtain ⟨b1, h1, h2⟩ := bind_ok h
    rcases List.mem_cons.mp hc with e | hm
    · subst e; exact (Bank.send_ok h1).1
    · exact ih h2 c hm

theorem coinAmt_eq_fold (cs : List (String × Int)) (d : String) :
    coinAmt cs d = (cs.filter (·.1 == d)).foldl (fun acc c => acc + c.2) 0 := rfl

theorem foldl_mul_PREC (l : List (String × Int)) :
    l.foldl (fun acc c => acc + c.2 * PREC) 0 = l.foldl (fun acc c => acc + c.2) 0 * PREC := by
  induction l with
  | nil => simp
  | cons c cs ih =>
    simp only [List.foldl_cons]
    rw [foldl_add_shift (fun c : String × Int => c.2 * PREC) cs, foldl_add_shift (fun c : String × Int => c.2) cs, ih,
      Int.add_mul]
    simp

/-- **2b. `fee_step_refines` (incentive).** A successful `allocateIncentive` is, for every denom, the fold of the abstract
    `fee (amount · 10^18)` steps of the coins of that denom (none for a denom that is not allocated): the abstraction of the
    state after IS that fold — global growth += QuoTruncate(amount, active) per coin, `recv` += amount, everything else
    unchanged — and every `fee` guard holds. -/
theorem incentive_refines {s s' : St} {pool : Nat} {sender : Addr} {coins : List (String × Int)} {denom : String} {k : Int}
    {a : ASt}
    (h : allocateIncentive s pool sender coins = .ok s')
    (habs : CLAccrual.absOf s pool denom k = some a)
    (hsw : SortedWF s) (hsender : sender ≠ feesAddr pool) :
    CLAccrual.absOf s' pool denom k = some ((incentiveOps coins denom).foldl CLAccrual.step a) ∧
      (∀ op ∈ incentiveOps coins denom, ∀ x : ASt, op.guard x) ∧
      s'.positions = s.positions ∧ s'.ticks = s.ticks ∧ s'.pools = s.pools ∧ s'.accPos = s.accPos := by
  obtain ⟨p, acc, hp, hacc, ea⟩ := absOf_some habs
  unfold allocateIncentive at h
  simp only [bind, pure, hp, hacc, ok_bind] at h
  split at h
  · cases h
  · split at h
    · cases h
    · rename_i hliq
      split at h
      · cases h
      · obtain ⟨b, hsend, h⟩ := bind_ok h
        obtain ⟨g, hg, h⟩ := bind_ok h
        have e := res_ok_inj h
        have hliq' : p.liq.raw ≠ 0 := by
          simp only [Dec.isPositive, Bool.not_eq_true', decide_eq_false_iff_not, not_not] at hliq
          omega
        obtain ⟨_, hsg, hrg⟩ := quoDecTruncate_ok hg
        have hsa := hsw.of_getAccum hacc
        have hp' : getPool s' pool = some p := by rw [← e]; exact hp
        have hacc0 : getAccum { s with bank := b } pool = some acc := hacc
        have hacc' : getAccum s' pool = some { acc with value := DecCoins.add acc.value g } := by
          rw [← e]; exact getAccum_setAccum_self hacc0 (show acc.pool = pool from getAccum_pool hacc)
        refine ⟨?_, ?_, by rw [← e]; rfl, by rw [← e]; rfl, by rw [← e]; rfl, by rw [← e]; rfl⟩
        · rw [absOf_eq hp' hacc']
          unfold incentiveOps
          rw [fee_fold p.liq.raw hliq' _ a (by rw [ea]; rfl)]
          congr 1
          subst ea
          have hbal := (sendCoins_bal (fun e => hsender e) coins hsend denom).2.1
          apply ast_ext
          · show raw (DecCoins.add acc.value g) denom = raw acc.value denom + _
            rw [raw_add hsa hsg, hrg denom, List.filter_map, List.foldl_map]
            congr 1
          · rw [← e]; rfl
          · rfl
          · rw [← e]; rfl
          · rw [← e]; rfl
          · rfl
          · rw [← e]; rfl
          · show s'.bank.bal (feesAddr pool) denom * PREC = s.bank.bal (feesAddr pool) denom * PREC + _
            rw [foldl_mul_PREC, ← coinAmt_eq_fold, ← e]
            show b.bal (feesAddr pool) denom * PREC = _
            rw [hbal, Int.add_mul]
          · rfl
          · rfl
        · intro op hop x
          unfold incentiveOps at hop
          obtain ⟨c, hc, rfl⟩ := List.mem_map.mp hop
          have := sendCoins_nonneg coins hsend c (List.mem_filter.mp hc).1
          show 0 ≤ c.2 * PREC
          exact Int.mul_nonneg this (by decide)

/-! ### 3. crossing a tick -/

theorem crossTick_upd_shape {s s' : St} {ss ss' : SwapState} {bfq : Bool} {lim fee : Dec} {ti : TickInfo} {accVal : DecCoins}
    {denomIn : Denom} (h : crossTick s ss bfq lim fee ti accVal denomIn true = .ok (s', ss')) :
    ∃ g, DecCoins.sub (DecCoins.add accVal [(denomIn, ss.growthPerLiq)]) ti.feeGrowth = .ok g ∧
      s' = setTick s { ti with feeGrowth := g } := by
  unfold crossTick at h
  simp -zeta only [if_true] at h
  cases hg : (DecCoins.sub (DecCoins.add accVal [(denomIn, ss.growthPerLiq)]) ti.feeGrowth) with
  | ok g =>
    rw [hg] at h
    have e := res_ok_inj h
    exact ⟨g, rfl, (congrArg Prod.fst e).symm⟩
  | err c => rw [hg] at h; cases h
  | panic k => rw [hg] at h; cases h

theorem setTick_frame (s : St) (x : TickInfo) :
    (setTick s x).pools = s.pools ∧ (setTick s x).positions = s.positions ∧ (setTick s x).bank = s.bank ∧
      (setTick s x).accums = s.accums ∧ (setTick s x).accPos = s.accPos := ⟨rfl, rfl, rfl, rfl, rfl⟩

theorem posOf_congr {s s' : St} (h : s'.accPos = s.accPos) (d : String) : posOf s' d = posOf s d := by
  funext q; unfold posOf getAccPos; rw [h]

theorem foOf_setTick (s : St) (x : TickInfo) (pool : Nat) (d : String) (t : Int) :
    foOf (setTick s x) pool d t = if key pool t x then raw x.feeGrowth d else foOf s pool d t := by
  unfold foOf; rw [findTick_setTick]; cases key pool t x <;> simp

/-- **3. `cross_refines`.** Crossing the stored tick `ti` in the swap loop (with accumulator updates) is the abstract
    `crossUp t` (quote-for-base) / `crossDown t` (base-for-quote): the growth outside of `t` is flipped to
    `global − outside`, the cursor becomes `t` / `t − 1`, the active liquidity gets `± net t`; nothing else changes. -/
theorem cross_refines {s s' : St} {ss ss' : SwapState} {bfq : Bool} {lim fee : Dec} {ti : TickInfo} {accVal : DecCoins}
    {denomIn : Denom} (pool : Nat) (denom : String) (k : Int)
    (h : crossTick s ss bfq lim fee ti accVal denomIn true = .ok (s', ss'))
    (hti : findTick s ti.pool ti.tick = some ti) (hpool : ti.pool = pool)
    (hsa : Sorted accVal) (hst : Sorted ti.feeGrowth) :
    absLoop s' pool denom k accVal denomIn ss'
      = CLAccrual.step (absLoop s pool denom k accVal denomIn ss) (if bfq then .crossDown ti.tick else .crossUp ti.tick) := by
  obtain ⟨g, hg, hs⟩ := crossTick_upd_shape h
  obtain ⟨_, hss⟩ := crossTick_shape h
  obtain ⟨hl, ht, _, _, hgn⟩ := crossTick_effect h
  have hgn' := hgn hti
  obtain ⟨eg, _⟩ := sub_ok hg
  have hsG : Sorted (DecCoins.add accVal [(denomIn, ss.growthPerLiq)]) := add_sorted hsa (sorted_single _)
  have hrawg : raw g denom = raw accVal denom + (if denomIn = denom then ss.growthPerLiq.raw else 0) - raw ti.feeGrowth denom := by
    rw [eg, raw_safeSub hsG hst, raw_add hsa (sorted_single _), raw_single]
  have hfo : foOf s pool denom ti.tick = raw ti.feeGrowth denom := by
    unfold foOf; rw [← hpool, hti]
  have hnet : netOf s pool ti.tick = ti.net.raw := by
    unfold netOf; rw [← hpool, hti]
  have hgpl : ss'.growthPerLiq = ss.growthPerLiq := by rw [hss]
  have hft : ss'.feeTotal = ss.feeTotal := by rw [hss]
  have hfr := setTick_frame s { ti with feeGrowth := g }
  have hfoEq : foOf s' pool denom = fun u => if u = ti.tick then
      raw accVal denom + (if denomIn = denom then ss.growthPerLiq.raw else 0) - foOf s pool denom ti.tick
      else foOf s pool denom u := by
    funext u
    rw [hs, foOf_setTick]
    by_cases hu : u = ti.tick
    · have : key pool u { ti with feeGrowth := g } = true := key_iff.mpr ⟨hpool, hu.symm⟩
      rw [this, if_pos rfl, if_pos hu, hfo]; exact hrawg
    · have : key pool u { ti with feeGrowth := g } = false := by
        cases hk : key pool u { ti with feeGrowth := g } with
        | false => rfl
        | true => exact absurd (key_iff.mp hk).2.symm hu
      rw [this, if_neg hu]; simp
  have hposs : (poolPositions s' pool).map (posOf s' denom) = (poolPositions s pool).map (posOf s denom) := by
    rw [hs, poolPositions_congr hfr.2.1, posOf_congr hfr.2.2.2.2]
  have hbank : s'.bank = s.bank := by rw [hs]; rfl
  cases bfq
  · simp only [Bool.false_eq_true, if_false] at hl ht ⊢
    simp only [CLAccrual.step]
    apply ast_ext
    · show raw accVal denom + (if denomIn = denom then ss'.growthPerLiq.raw else 0) = _
      rw [hgpl]; rfl
    · exact hfoEq
    · exact ht
    · funext t; exact (hgn' pool t).1
    · funext t; exact (hgn' pool t).2
    · show ss'.liq.raw = ss.liq.raw + netOf s pool ti.tick
      rw [hl, hnet]
    · exact hposs
    · show s'.bank.bal _ _ * PREC + (if denomIn = denom then ss'.feeTotal.raw else 0) = _
      rw [hbank, hft]; rfl
    · rfl
    · rfl
  · simp only [if_true] at hl ht ⊢
    simp only [CLAccrual.step]
    apply ast_ext
    · show raw accVal denom + (if denomIn = denom then ss'.growthPerLiq.raw else 0) = _
      rw [hgpl]; rfl
    · exact hfoEq
    · exact ht
    · funext t; exact (hgn' pool t).1
    · funext t; exact (hgn' pool t).2
    · show ss'.liq.raw = ss.liq.raw - netOf s pool ti.tick
      rw [hl, hnet]; omega
    · exact hposs
    · show s'.bank.bal _ _ * PREC + (if denomIn = denom then ss'.feeTotal.raw else 0) = _
      rw [hbank, hft]; rfl
    · rfl
    · rfl

/-! ### 4. UpdatePosition: ticks (getInitialFeeGrowth), accumulator position -/

/-- the growth outside carried by the record `GetTickInfo` returns: the stored one, or — for an absent tick —
    `getInitialFeeGrowth`: the whole accumulator if the cursor is at or above the tick, else nothing -/
theorem getTickInfo_fee {s : St} {pool : Nat} {t : Int} {ti : TickInfo} {p : Pool} {acc : Accum}
    (h : getTickInfo s pool t = .ok ti) (hp : getPool s pool = some p) (ha : getAccum s pool = some acc) (d : String) :
    raw ti.feeGrowth d = (match findTick s pool t with
      | some x => raw x.feeGrowth d
      | none => if p.tick ≥ t then raw acc.value d else 0) ∧
    (SortedWF s → Sorted ti.feeGrowth) := by
  unfold getTickInfo at h
  cases hf : findTick s pool t with
  | some x =>
    rw [hf] at h
    have e := res_ok_inj h; subst e
    exact ⟨rfl, fun w => w.of_findTick hf⟩
  | none =>
    rw [hf] at h
    simp only [hp, ha] at h
    by_cases c : p.tick ≥ t
    · rw [if_pos c] at h
      have e := res_ok_inj h; subst e
      exact ⟨by simp [c], fun w => w.of_getAccum ha⟩
    · rw [if_neg c] at h
      have e := res_ok_inj h; subst e
      exact ⟨by simp [c, raw_nil], fun _ => sorted_nil⟩

theorem upsertTick_fo {s s' : St} {pool : Nat} {t : Int} {delta : Dec} {upper e : Bool}
    (h : upsertTick s pool t delta upper = .ok (s', e)) :
    ∃ ti, getTickInfo s pool t = .ok ti ∧ findTick s' pool t = some (updTick ti delta upper) ∧
      (∀ d t', foOf s' pool d t' = if t' = t then raw ti.feeGrowth d else foOf s pool d t') ∧
      (∀ t', t' ≠ t → findTick s' pool t' = findTick s pool t') ∧
      s'.accums = s.accums ∧ s'.accPos = s.accPos ∧ (SortedWF s → Sorted ti.feeGrowth → SortedWF s') := by
  obtain ⟨ti, hti, hs, _⟩ := upsertTick_shape h
  obtain ⟨hp, ht, _, _⟩ := getTickInfo_ok hti
  have hk : ∀ t', key pool t' (updTick ti delta upper) = decide (t' = t) := by
    intro t'
    unfold key updTick
    simp only [hp, ht]
    by_cases c : t' = t
    · simp [c]
    · have : ¬ t = t' := fun e => c e.symm
      simp [c, this]
  refine ⟨ti, hti, ?_, ?_, ?_, by rw [hs]; rfl, by rw [hs]; rfl, ?_⟩
  · rw [hs, findTick_setTick, hk]; simp
  · intro d t'
    rw [hs, foOf_setTick, hk]
    by_cases c : t' = t <;> simp [c, updTick]
  · intro t' hne
    rw [hs, findTick_setTick, hk]; simp [hne]
  · intro w hsti
    rw [hs]
    refine ⟨w.accum, ?_, w.accPos⟩
    intro x hx
    have : x = updTick ti delta upper ∨ x ∈ s.ticks := by
      have hx' : x ∈ insertTick s.ticks (updTick ti delta upper) := hx
      generalize s.ticks = l at hx'
      induction l with
      | nil => simp only [insertTick, List.mem_singleton] at hx'; exact Or.inl hx'
      | cons y ys ih =>
        unfold insertTick at hx'
        split at hx'
        · rcases List.mem_cons.mp hx' with e | hm
          · exact Or.inl e
          · exact Or.inr (List.mem_cons_of_mem _ hm)
        · split at hx'
          · rcases List.mem_cons.mp hx' with e | hm
            · exact Or.inl e
            · exact Or.inr hm
          · rcases List.mem_cons.mp hx' with e | hm
            · exact Or.inr (by rw [e]; exact List.mem_cons_self)
            · rcases ih hm with e | hm'
              · exact Or.inl e
              · exact Or.inr (List.mem_cons_of_mem _ hm')
    rcases this with e | hm
    · rw [e]; exact hsti
    · exact w.ticks x hm

theorem setAccum_frame (s : St) (a : Accum) :
    (setAccum s a).pools = s.pools ∧ (setAccum s a).positions = s.positions ∧ (setAccum s a).ticks = s.ticks ∧
      (setAccum s a).bank = s.bank ∧ (setAccum s a).accPos = s.accPos := ⟨rfl, rfl, rfl, rfl, rfl⟩

/-- `SetAccumulatorPositionFeeAccumulator` on a FRESH position id (NewPositionIntervalAccumulation) -/
theorem setAccumFee_open {s s' : St} {pool : Nat} {lo hi : Int} {posId : Nat} {delta : Dec} {acc : Accum}
    (h : setAccumPositionFee s pool lo hi posId delta = .ok s')
    (hacc : getAccum s pool = some acc) (hap : getAccPos s posId = none) :
    ∃ o, getFeeGrowthOutside s pool lo hi = .ok o ∧ 0 < delta.raw ∧
      (∀ id, getAccPos s' id = if id = posId then some ⟨posId, pool, delta, (DecCoins.safeSub acc.value o).1, []⟩
        else getAccPos s id) ∧
      getAccum s' pool = some { acc with totalShares := Dec.add acc.totalShares delta } := by
  unfold setAccumPositionFee at h
  simp only [bind, pure, hacc, ok_bind] at h
  obtain ⟨o, ho, h⟩ := bind_ok h
  simp only [hap] at h
  split at h
  · cases h
  · rename_i hpos
    have e := res_ok_inj h
    refine ⟨o, ho, by simpa [Dec.isPositive] using hpos, ?_, ?_⟩
    · intro id
      rw [← e, getAccPos_setAccum, getAccPos_setAccPos]
    · rw [← e]
      have : getAccum (setAccPos s ⟨posId, pool, delta, (DecCoins.safeSub acc.value o).1, []⟩) pool = some acc := by
        rw [getAccum_setAccPos]; exact hacc
      exact getAccum_setAccum_self this (show acc.pool = pool from getAccum_pool hacc)

/-- `SetAccumulatorPositionFeeAccumulator` on an EXISTING accumulator position: the pending rewards are moved to
    `unclaimed` (GetTotalRewards), the checkpoint becomes the growth inside, the shares change by `delta` -/
theorem setAccumFee_change {s s' : St} {pool : Nat} {lo hi : Int} {posId : Nat} {delta : Dec} {acc : Accum} {ap : AccPos}
    (h : setAccumPositionFee s pool lo hi posId delta = .ok s')
    (hacc : getAccum s pool = some acc) (hap : getAccPos s posId = some ap) :
    ∃ o u, getFeeGrowthOutside s pool lo hi = .ok o ∧
      totalRewards acc { ap with perShare := DecCoins.add ap.perShare o } = .ok u ∧
      delta.raw ≠ 0 ∧ (delta.raw < 0 → 0 ≤ ap.shares.raw + delta.raw) ∧
      (∀ id, getAccPos s' id = if id = posId then
          some ⟨ap.posId, ap.pool, ⟨ap.shares.raw + delta.raw⟩, (DecCoins.safeSub acc.value o).1, u⟩
        else getAccPos s id) ∧
      getAccum s' pool = some { acc with totalShares := ⟨acc.totalShares.raw + delta.raw⟩ } := by
  have hid := getAccPos_id hap
  unfold setAccumPositionFee at h
  simp only [bind, pure, hacc, ok_bind] at h
  obtain ⟨o, ho, h⟩ := bind_ok h
  simp only [hap] at h
  split at h
  · cases h
  · rename_i hz
    have hz' : delta.raw ≠ 0 := by simpa [Dec.isZero] using hz
    have hfin : ∀ (u : DecCoins) (sh : Dec) (tsh : Dec), sh.raw = ap.shares.raw + delta.raw →
        tsh.raw = acc.totalShares.raw + delta.raw →
        s' = setAccum (setAccPos s ⟨ap.posId, ap.pool, sh, (DecCoins.safeSub acc.value o).1, u⟩)
          { acc with totalShares := tsh } →
        (∀ id, getAccPos s' id = if id = posId then
            some ⟨ap.posId, ap.pool, ⟨ap.shares.raw + delta.raw⟩, (DecCoins.safeSub acc.value o).1, u⟩
          else getAccPos s id) ∧
        getAccum s' pool = some { acc with totalShares := ⟨acc.totalShares.raw + delta.raw⟩ } := by
      intro u sh tsh h1 h2 e
      have e1 : sh = ⟨ap.shares.raw + delta.raw⟩ := by cases sh; simp only [Dec.mk.injEq]; exact h1
      have e2 : tsh = ⟨acc.totalShares.raw + delta.raw⟩ := by cases tsh; simp only [Dec.mk.injEq]; exact h2
      subst e1; subst e2
      refine ⟨?_, ?_⟩
      · intro id
        rw [e, getAccPos_setAccum, getAccPos_setAccPos]
        simp only [hid]
      · rw [e]
        have : getAccum (setAccPos s ⟨ap.posId, ap.pool, ⟨ap.shares.raw + delta.raw⟩, (DecCoins.safeSub acc.value o).1, u⟩) pool
            = some acc := by rw [getAccum_setAccPos]; exact hacc
        exact getAccum_setAccum_self this (show acc.pool = pool from getAccum_pool hacc)
    split at h
    · rename_i hneg
      split at h
      · cases h
      · rename_i hrm
        obtain ⟨u, hu, h⟩ := bind_ok h
        have e := res_ok_inj h
        have hnn : 0 ≤ ap.shares.raw + delta.raw := by
          simp only [Dec.neg, not_lt] at hrm
          omega
        obtain ⟨g1, g2⟩ := hfin u _ _ (by simp [Dec.sub, Dec.neg]) (by simp [Dec.sub, Dec.neg]) e.symm
        exact ⟨o, u, ho, hu, hz', fun _ => hnn, g1, g2⟩
    · rename_i hneg
      obtain ⟨u, hu, h⟩ := bind_ok h
      have e := res_ok_inj h
      obtain ⟨g1, g2⟩ := hfin u _ _ (by simp [Dec.add]) (by simp [Dec.add]) e.symm
      refine ⟨o, u, ho, hu, hz', ?_, g1, g2⟩
      intro hlt
      simp only [Dec.isNegative, decide_eq_true_eq] at hneg
      exact absurd hlt hneg

theorem s3Of_acc (s2 : St) (posId : Nat) (pos : Position) (delta : Dec) :
    (s3Of s2 posId pos delta).accums = s2.accums ∧ (s3Of s2 posId pos delta).accPos = s2.accPos := by
  unfold s3Of; split
  · exact ⟨rfl, rfl⟩
  · unfold setPosition; split <;> exact ⟨rfl, rfl⟩

/-- the state on which `UpdatePosition` runs `SetAccumulatorPositionFeeAccumulator`, described: both ticks are stored with
    the growth outside `GetTickInfo` gave them (stored value, or `getInitialFeeGrowth` for a fresh tick), accumulators
    untouched, position record updated, pool record updated -/
theorem updatePosition_s4 {s s' : St} {pool : Nat} {lo hi : Int} {delta : Dec} {posId : Nat} {ab aq : Int} {loE hiE : Bool}
    (h : updatePosition s pool lo hi delta posId = .ok (s', ab, aq, loE, hiE)) (hlh : lo ≠ hi) :
    ∃ s2 s4 p pos tlo thi lt ut p4,
      setAccumPositionFee s4 pool lo hi posId delta = .ok s' ∧
      getPool s pool = some p ∧ getPosition s posId = some pos ∧
      s2.positions = s.positions ∧ s4.positions = (s3Of s2 posId pos delta).positions ∧
      s4.accums = s.accums ∧ s4.accPos = s.accPos ∧
      getPool s4 pool = some p4 ∧ (poolHasPosition s4 pool = true → p4.tick = p.tick) ∧
      getTickInfo s pool lo = .ok tlo ∧ getTickInfo s pool hi = .ok thi ∧
      findTick s4 pool lo = some lt ∧ lt.feeGrowth = tlo.feeGrowth ∧
      findTick s4 pool hi = some ut ∧ ut.feeGrowth = thi.feeGrowth ∧
      (∀ d t', foOf s4 pool d t' = if t' = hi then raw thi.feeGrowth d else if t' = lo then raw tlo.feeGrowth d
        else foOf s pool d t') ∧
      (SortedWF s → SortedWF s4) := by
  obtain ⟨s1, s2, p2, pos, h1, h2, hp2, hq2, hneg, h5⟩ := updatePosition_ok h
  obtain ⟨hpools1, hposs1, _⟩ := (upsertTick_effect h1).2.2.2.1
  obtain ⟨hpools2', hposs2', _⟩ := (upsertTick_effect h2).2.2.2.1
  have hpools2 : s2.pools = s.pools := hpools2'.trans hpools1
  have hposs2 : s2.positions = s.positions := hposs2'.trans hposs1
  have hp : getPool s pool = some p2 := by rw [← getPool_congr hpools2 pool]; exact hp2
  have hq : getPosition s posId = some pos := by rw [← getPosition_congr hposs2 posId]; exact hq2
  obtain ⟨tlo, htlo, hf1, hfo1, hoth1, hac1, hap1, hsw1⟩ := upsertTick_fo h1
  obtain ⟨thi, hthi1, hf2, hfo2, hoth2, hac2, hap2, hsw2⟩ := upsertTick_fo h2
  -- GetTickInfo of `hi` in s1 = in s (lo ≠ hi; pools and accumulators untouched)
  have hthi : getTickInfo s pool hi = .ok thi := by
    have e : getTickInfo s1 pool hi = getTickInfo s pool hi := by
      unfold getTickInfo
      rw [hoth1 hi (fun e => hlh e.symm), getPool_congr hpools1]
      unfold getAccum; rw [hac1]
    rw [← e]; exact hthi1
  let s3 := s3Of s2 posId pos delta
  let s4 := setPool s3 (poolOf s3 pool p2 lo hi delta)
  have hfr3 := s3Of_frame s2 posId pos delta
  have hac3 := s3Of_acc s2 posId pos delta
  have hticks4 : s4.ticks = s2.ticks := hfr3.2.1
  have hfind4 : ∀ t, findTick s4 pool t = findTick s2 pool t := by
    intro t; unfold findTick; rw [hticks4]
  have hid := poolOf_id s3 pool p2 lo hi delta
  have hp4 : getPool s4 pool = some (poolOf s3 pool p2 lo hi delta) :=
    getPool_setPool hp2 hfr3.1 hid.1
  refine ⟨s2, s4, p2, pos, tlo, thi, updTick tlo delta false, updTick thi delta true, _, h5, hp, hq, hposs2, rfl,
    ?_, ?_, hp4, ?_, htlo, hthi, ?_, rfl, ?_, rfl, ?_, ?_⟩
  · show s3.accums = s.accums
    rw [hac3.1, hac2, hac1]
  · show s3.accPos = s.accPos
    rw [hac3.2, hap2, hap1]
  · intro hh
    have : poolHasPosition s3 pool = true := hh
    unfold poolOf
    simp only [this, Bool.not_true, Bool.false_eq_true, if_false]
    split <;> rfl
  · rw [hfind4, hoth2 lo hlh]; exact hf1
  · rw [hfind4]; exact hf2
  · intro d t'
    have : foOf s4 pool d t' = foOf s2 pool d t' := by unfold foOf; rw [hfind4]
    rw [this, hfo2 d t']
    by_cases c : t' = hi
    · rw [if_pos c, if_pos c]
    · rw [if_neg c, if_neg c, hfo1 d t']
  · intro w
    have hac4 : s4.accums = s.accums := by show s3.accums = s.accums; rw [hac3.1, hac2, hac1]
    obtain ⟨acc, hacc4⟩ : ∃ acc, getAccum s4 pool = some acc := by
      cases ha : getAccum s4 pool with
      | some acc => exact ⟨acc, rfl⟩
      | none =>
        have h5' := h5
        unfold setAccumPositionFee at h5'
        simp only [bind, pure] at h5'
        rw [show getAccum (setPool (s3Of s2 posId pos delta) (poolOf (s3Of s2 posId pos delta) pool p2 lo hi delta)) pool = none from ha] at h5'
        cases h5'
    have hacc : getAccum s pool = some acc := by unfold getAccum at hacc4 ⊢; rw [← hac4]; exact hacc4
    have w1 := hsw1 w ((getTickInfo_fee htlo hp hacc "").2 w)
    have w2 := hsw2 w1 ((getTickInfo_fee hthi hp hacc "").2 w)
    refine ⟨?_, ?_, ?_⟩
    · rw [hac4]; exact w.accum
    · rw [hticks4]; exact w2.ticks
    · show ∀ ap ∈ s3.accPos, _
      rw [hac3.2, hap2, hap1]; exact w.accPos

theorem inside_congr {x y : ASt} {lo hi : Int} (h1 : x.G = y.G) (h2 : x.cur = y.cur) (h3 : x.fo lo = y.fo lo)
    (h4 : x.fo hi = y.fo hi) : CLAccrual.inside x lo hi = CLAccrual.inside y lo hi := by
  unfold CLAccrual.inside CLFee.inside CLFee.below CLFee.above CLAccrual.feeSt
  simp only [h1, h2, h3, h4]

theorem filter_replace (pool : Nat) (pos' : Position) : ∀ l : List Position,
    (∀ q ∈ l, q.id = pos'.id → q.pool = pos'.pool) →
    (l.map (fun q => if q.id == pos'.id then pos' else q)).filter (·.pool == pool)
      = (l.filter (·.pool == pool)).map (fun q => if q.id == pos'.id then pos' else q) := by
  intro l
  induction l with
  | nil => intro _; rfl
  | cons x xs ih =>
    intro hq
    have ih' := ih (fun q hm => hq q (List.mem_cons_of_mem _ hm))
    simp only [List.map_cons, List.filter_cons]
    by_cases c : x.id = pos'.id
    · have hx := hq x List.mem_cons_self c
      simp only [c, beq_self_eq_true, if_true, hx]
      by_cases cp : (pos'.pool == pool) = true
      · rw [if_pos cp, if_pos cp, List.map_cons, ih']
        simp only [c, beq_self_eq_true, if_true]
      · rw [if_neg cp, if_neg cp, ih']
    · have c' : (x.id == pos'.id) = false := by simpa using c
      simp only [c', Bool.false_eq_true, if_false]
      by_cases cp : (x.pool == pool) = true
      · rw [if_pos cp, if_pos cp, List.map_cons, ih']
        simp only [c', Bool.false_eq_true, if_false]
      · rw [if_neg cp, if_neg cp, ih']

/-- **4a. `change_refines` (`addShares` / `removeShares`).** `UpdatePosition` with `delta ≠ 0` on an existing position that
    keeps liquidity is the abstract `change i delta`: gross/net/active as `applyDelta`, the pending rewards are moved to
    `unclaimed` (GetTotalRewards, banker's rounding), the checkpoint becomes the growth inside, the shares change by
    `delta`; growth outside of the (stored) ticks, global growth, cursor and every other position are unchanged. -/
theorem change_refines {s s' : St} {pool : Nat} {lo hi : Int} {delta : Dec} {posId : Nat} {ab aq : Int} {loE hiE : Bool}
    {denom : String} {k : Int} {a : ASt} {i : Nat} {pos : Position} {ap : AccPos}
    (h : updatePosition s pool lo hi delta posId = .ok (s', ab, aq, loE, hiE))
    (habs : CLAccrual.absOf s pool denom k = some a)
    (hidx : (poolPositions s pool)[i]? = some pos) (hid : pos.id = posId) (hlo : pos.lower = lo) (hhi : pos.upper = hi)
    (hlh : lo ≠ hi)
    (hnd : (s.positions.map (·.id)).Nodup)
    (hsw : SortedWF s)
    (hticks : (findTick s pool lo).isSome ∧ (findTick s pool hi).isSome)
    (hap : getAccPos s posId = some ap)
    (hguard : (CLAccrual.Op.change i delta.raw).guard a)
    (hkeep : pos.liq.raw + delta.raw ≠ 0)
    (hck : ∀ d' b, CLAccrual.absOf s pool d' k = some b → ∀ p, b.pos[i]? = some p → 0 < p.s →
      p.c ≤ CLAccrual.inside b p.lo p.hi) :
    CLAccrual.absOf s' pool denom (k + 1) = some (CLAccrual.step a (.change i delta.raw)) ∧
      (∀ acc, getAccum s pool = some acc →
        ∃ acc', getAccum s' pool = some acc' ∧ acc'.totalShares.raw = acc.totalShares.raw + delta.raw) ∧
      s'.bank = s.bank := by
  obtain ⟨p, acc, hp, hacc, ea⟩ := absOf_some habs
  obtain ⟨s2, s4, p', pos0, tlo, thi, lt4, ut4, p4, h5, hp', hq, hposs2, hposs4, hac4, hap4, hp4, htick4, htlo, hthi, hlt4,
    hltf, hut4, hutf, hfo4, hsw4⟩ := updatePosition_s4 h hlh
  have e1 : p = p' := by rw [hp] at hp'; exact Option.some.inj hp'
  subst e1
  have hmem := mem_poolPositions.mp (List.mem_of_getElem? hidx)
  have hgetpos : getPosition s posId = some pos := by rw [← hid]; exact getPosition_of_mem hnd hmem.1
  have e2 : pos0 = pos := by rw [hgetpos] at hq; exact (Option.some.inj hq).symm
  subst e2
  have hapid : getAccPos s pos0.id = some ap := by rw [hid]; exact hap
  -- stored ticks: GetTickInfo returns them, so nothing is re-initialised
  obtain ⟨lt0, hlt0⟩ := Option.isSome_iff_exists.mp hticks.1
  obtain ⟨ut0, hut0⟩ := Option.isSome_iff_exists.mp hticks.2
  have etlo : tlo = lt0 := by rw [getTickInfo_present hlt0] at htlo; exact (res_ok_inj htlo).symm
  have ethi : thi = ut0 := by rw [getTickInfo_present hut0] at hthi; exact (res_ok_inj hthi).symm
  have hfoEq : ∀ d, foOf s4 pool d = foOf s pool d := by
    intro d; funext t'
    rw [hfo4 d t']
    by_cases c1 : t' = hi
    · rw [if_pos c1, ethi, c1]; unfold foOf; rw [hut0]
    · rw [if_neg c1]
      by_cases c2 : t' = lo
      · rw [if_pos c2, etlo, c2]; unfold foOf; rw [hlt0]
      · rw [if_neg c2]
  have w4 := hsw4 hsw
  have hacc4 : getAccum s4 pool = some acc := by unfold getAccum at hacc ⊢; rw [hac4]; exact hacc
  have hapS4 : getAccPos s4 posId = some ap := by unfold getAccPos at hap ⊢; rw [hap4]; exact hap
  obtain ⟨o, u, ho, hu, hd0, hdneg, hgetAP, hgetAcc⟩ := setAccumFee_change h5 hacc4 hapS4
  -- the pool still has a position
  have hkeep' : ¬ (Dec.add pos0.liq delta).isZero = true := by simp [Dec.isZero, Dec.add, hkeep]
  have hpos4 : s4.positions = s.positions.map (fun q => if q.id == pos0.id then { pos0 with liq := Dec.add pos0.liq delta } else q) := by
    rw [hposs4]
    unfold s3Of; rw [if_neg hkeep']
    unfold setPosition
    have hany : s2.positions.any (fun q => q.id == pos0.id) = true := by
      rw [hposs2, List.any_eq_true]; exact ⟨pos0, hmem.1, by simp⟩
    rw [if_pos hany]
    simp only [hposs2]
  have hhas4 : poolHasPosition s4 pool = true := by
    unfold poolHasPosition
    rw [hpos4, List.any_eq_true]
    refine ⟨{ pos0 with liq := Dec.add pos0.liq delta }, ?_, by simp [hmem.2]⟩
    exact List.mem_map.mpr ⟨pos0, hmem.1, by simp⟩
  have ht4 := htick4 hhas4
  have hfr := setAccumPositionFee_frame h5
  -- growth outside / inside on s4 = on s, at every denom
  have hsa := hsw.of_getAccum hacc
  have hsl4 := w4.of_findTick hlt4
  have hsu4 := w4.of_findTick hut4
  obtain ⟨hso, hro⟩ := outside_spec hp4 hacc4 hlt4 hut4 hsa hsl4 hsu4 ho
  have hfst : ∀ d, feeStOf s4 pool d p4 acc = feeStOf s pool d p acc := by
    intro d; unfold feeStOf; rw [hfoEq d, ht4]
  have hinsAt : ∀ d', CLAccrual.inside (absWith s pool d' k p acc) lo hi = raw acc.value d' - raw o d' := by
    intro d'
    rw [hro d', hfst d']
    unfold CLAccrual.inside CLFee.inside
    rw [feeSt_absWith]
    show raw acc.value d' - _ - _ = _
    omega
  obtain ⟨hsp, hsun⟩ := hsw.of_getAccPos hap
  have hposAt : ∀ d' k', (absWith s pool d' k' p acc).pos[i]? = some (posOf s d' pos0) := by
    intro d' k'
    show ((poolPositions s pool).map (posOf s d'))[i]? = _
    rw [List.getElem?_map, hidx]; rfl
  have hai : a.pos[i]? = some (posOf s denom pos0) := by rw [ea]; exact hposAt denom k
  obtain ⟨pg, hpg, hpgs, hpgn⟩ := hguard
  have hpgE : pg = posOf s denom pos0 := by rw [hai] at hpg; exact (Option.some.inj hpg).symm
  have hshares : 0 < ap.shares.raw := by
    rw [hpgE, posOf_some hapid] at hpgs; exact hpgs
  have hnu : ∀ d', raw (DecCoins.add ap.perShare o) d' ≤ raw acc.value d' := by
    intro d'
    have := hck d' _ (absOf_eq hp hacc) _ (hposAt d' k) (by rw [posOf_some hapid]; exact hshares)
    rw [posOf_some hapid] at this
    simp only [hlo, hhi] at this
    rw [hinsAt d'] at this
    rw [raw_add hsp hso]
    omega
  obtain ⟨hsu, hru⟩ := totalRewards_spec (ap := { ap with perShare := DecCoins.add ap.perShare o }) hshares hsa
    (add_sorted hsp hso) hsun hnu hu
  simp only [] at hru
  have hrew : CLAccrual.rewards a (posOf s denom pos0) = raw u denom := by
    have hc := hck denom a habs _ hai (by rw [posOf_some hapid]; exact hshares)
    rw [rewards_eq (by rw [posOf_some hapid]; exact hshares) hc, hru denom, posOf_some hapid]
    simp only [hlo, hhi]
    rw [ea, hinsAt denom, raw_add hsp hso]
    have : raw acc.value denom - raw o denom - raw ap.perShare denom = raw acc.value denom - (raw ap.perShare denom + raw o denom) := by
      omega
    rw [this]
  -- the abstract step
  have hstep : CLAccrual.step a (.change i delta.raw) =
      { CLAccrual.applyDelta a lo hi delta.raw
          (a.pos.set i ⟨lo, hi, ap.shares.raw + delta.raw, CLAccrual.inside a lo hi, raw u denom⟩) with k := a.k + 1 } := by
    simp only [CLAccrual.step, hai]
    rw [hrew]
    simp only [posOf_some hapid, hlo, hhi]
  -- the concrete state after
  obtain ⟨pf, hpf, _, hlive, _⟩ := updatePosition_pool h hp
  have hhas' : poolHasPosition s' pool = true := by rw [poolHasPosition_congr hfr.2.1]; exact hhas4
  obtain ⟨hpft, _, hpfl⟩ := hlive hhas'
  have hacc' := hgetAcc
  have hticks' := (updatePosition_ticks h).1
  have hbank : s'.bank = s.bank := by
    obtain ⟨_, _, _, _, _, _, _, _, _, _, _, _, _, hb, _⟩ := updatePosition_frames h
    exact hb
  have hfo' : foOf s' pool denom = foOf s pool denom := by
    rw [foOf_congr hfr.2.2.1 pool denom]; exact hfoEq denom
  have hposlist : (poolPositions s' pool).map (posOf s' denom)
      = a.pos.set i ⟨lo, hi, ap.shares.raw + delta.raw, CLAccrual.inside a lo hi, raw u denom⟩ := by
    have hp1 : poolPositions s' pool = (poolPositions s pool).map
        (fun q => if q.id == pos0.id then { pos0 with liq := Dec.add pos0.liq delta } else q) := by
      unfold poolPositions
      rw [hfr.2.1, hpos4]
      exact filter_replace pool { pos0 with liq := Dec.add pos0.liq delta } s.positions (by
        intro q hq hqid
        have : getPosition s q.id = some q := getPosition_of_mem hnd hq
        have e : q = pos0 := by
          simp only [] at hqid
          rw [hqid, hid, hgetpos] at this; exact (Option.some.inj this).symm
        rw [e])
    rw [hp1, List.map_map, ea]
    show _ = ((poolPositions s pool).map (posOf s denom)).set i _
    have hnew : (posOf s' denom ∘ fun q => if q.id == pos0.id then { pos0 with liq := Dec.add pos0.liq delta } else q) pos0
        = ⟨lo, hi, ap.shares.raw + delta.raw, CLAccrual.inside (absWith s pool denom k p acc) lo hi, raw u denom⟩ := by
      simp only [Function.comp, beq_self_eq_true, if_true]
      unfold posOf
      simp only []
      rw [hgetAP, if_pos hid]
      simp only [hlo, hhi, CLAccrual.Pos.mk.injEq, true_and]
      rw [hinsAt denom, raw_safeSub hsa hso]
      exact ⟨rfl, trivial⟩
    rw [← hnew]
    apply map_set_nodup (posOf s denom) _ _ i pos0 (poolPositions_nodup pool hnd) hidx
    intro q' _ hne
    have hne' : (q'.id == pos0.id) = false := by simpa using hne
    simp only [Function.comp, hne', Bool.false_eq_true, if_false]
    unfold posOf
    rw [hgetAP, if_neg (by rw [← hid]; exact hne)]
    have : getAccPos s4 q'.id = getAccPos s q'.id := by unfold getAccPos; rw [hap4]
    rw [this]
  refine ⟨?_, ?_, hbank⟩
  · rw [absOf_eq hpf hacc', hstep]
    congr 1
    subst ea
    apply ast_ext
    · rfl
    · exact hfo'
    · exact hpft
    · funext t; exact (hticks' t).1
    · funext t; exact (hticks' t).2
    · exact hpfl
    · exact hposlist
    · show s'.bank.bal _ _ * PREC = s.bank.bal _ _ * PREC
      rw [hbank]
    · rfl
    · rfl
  · intro acc0 hacc0
    have : acc0 = acc := by rw [hacc] at hacc0; exact (Option.some.inj hacc0).symm
    subst this
    exact ⟨_, hgetAcc, rfl⟩

/-! ### non-vacuity: a concrete pool with one position, fees accrued, claim of 5 coins with 0.5 coin of dust re-added -/

def exBank : Bank := ⟨fun a d => if a = "poolfees:0" ∧ d = "uaaa" then 10 else 0, fun _ => 0⟩

/-- pool 0 (uaaa/ubbb), cursor 0, one position [-10, 10) of 1000 units of liquidity owned by a0, both ticks stored,
    global growth of uaaa 0.0055 per unit of liquidity (5.5 coins owed), fee account holding 10 uaaa -/
def exS : St :=
  { pools := [⟨0, "uaaa", "ubbb", ⟨0⟩, ⟨⟨1000100000000000000⟩, ⟨0⟩⟩, 0, ⟨PREC⟩, ⟨1000 * PREC⟩⟩]
    positions := [⟨0, 0, "a0", -10, 10, ⟨1000 * PREC⟩⟩]
    ticks := [⟨0, -10, ⟨1000 * PREC⟩, ⟨1000 * PREC⟩, []⟩, ⟨0, 10, ⟨1000 * PREC⟩, ⟨-(1000 * PREC)⟩, []⟩]
    accums := [⟨0, [("uaaa", ⟨5500000000000000⟩)], ⟨1000 * PREC⟩⟩]
    accPos := [⟨0, 0, ⟨1000 * PREC⟩, [], []⟩]
    nextPool := 1, nextPos := 1, bank := exBank }

def exPool : Pool := ⟨0, "uaaa", "ubbb", ⟨0⟩, ⟨⟨1000100000000000000⟩, ⟨0⟩⟩, 0, ⟨PREC⟩, ⟨1000 * PREC⟩⟩
def exAcc : Accum := ⟨0, [("uaaa", ⟨5500000000000000⟩)], ⟨1000 * PREC⟩⟩

theorem exS_sorted : SortedWF exS := by
  refine ⟨?_, ?_, ?_⟩
  · intro a ha
    simp only [exS, List.mem_singleton] at ha
    subst ha; exact sorted_single _
  · intro t ht
    simp only [exS, List.mem_cons, List.mem_singleton, List.not_mem_nil, or_false] at ht
    rcases ht with e | e <;> subst e <;> exact sorted_nil
  · intro ap hap
    simp only [exS, List.mem_singleton] at hap
    subst hap; exact ⟨sorted_nil, sorted_nil⟩

theorem exS_abs (d : String) (k : Int) : CLAccrual.absOf exS 0 d k = some (absWith exS 0 d k exPool exAcc) :=
  absOf_eq (by rfl) (by rfl)

unseal DecCoins.add in
/-- all hypotheses of `claim_refines` hold on `exS` for the claim of position 0 by its owner, the claim succeeds, pays
    5 uaaa out of the fee account and the abstraction moves by `claim 0` -/
example : ∃ s' claimed a', collectFees exS "a0" 0 = .ok (s', claimed) ∧
    CLAccrual.absOf s' 0 "uaaa" 1 = some a' ∧
    ObsEq a' (CLAccrual.step (absWith exS 0 "uaaa" 0 exPool exAcc) (.claim 0)) ∧
    coinAmt claimed "uaaa" = 5 ∧ s'.bank.bal (feesAddr 0) "uaaa" = 5 ∧ a'.G = 5500000000000000 + 500000000000000 := by
  have hok : (collectFees exS "a0" 0).isOk = true := by decide
  cases hr : collectFees exS "a0" 0 with
  | err c => rw [hr] at hok; cases hok
  | panic c => rw [hr] at hok; cases hok
  | ok r =>
    obtain ⟨s', claimed⟩ := r
    have hpayv : CLAccrual.claimPay (absWith exS 0 "uaaa" 0 exPool exAcc) 0 = 5 := by decide
    have hG : (CLAccrual.step (absWith exS 0 "uaaa" 0 exPool exAcc) (.claim 0)).G = 5500000000000000 + 500000000000000 := by
      decide
    obtain ⟨a', h1, h2, h3, h4, _⟩ := claim_refines (pool := 0) (denom := "uaaa") (k := 0) (i := 0)
      (pos := ⟨0, 0, "a0", -10, 10, ⟨1000 * PREC⟩⟩) hr (exS_abs "uaaa" 0) (by rfl) rfl (by decide) exS_sorted
      (by decide) ⟨⟨-10, 10, 1000 * PREC, 0, 0⟩, by decide, by decide⟩
      (by
        intro d' b hb p hp _
        rw [exS_abs d' 0] at hb
        have eb := (Option.some.inj hb).symm
        subst eb
        have hp' : p = ⟨-10, 10, 1000 * PREC, raw [] d', raw [] d'⟩ := by
          have : (absWith exS 0 d' 0 exPool exAcc).pos[0]? = some ⟨-10, 10, 1000 * PREC, raw [] d', raw [] d'⟩ := by
            rfl
          rw [this] at hp; exact (Option.some.inj hp).symm
        subst hp'
        have hins : CLAccrual.inside (absWith exS 0 d' 0 exPool exAcc) (-10) 10 = raw exAcc.value d' := by
          have h1 : foOf exS 0 d' (-10) = 0 := by unfold foOf; rw [show findTick exS 0 (-10) = some ⟨0, -10, ⟨1000 * PREC⟩, ⟨1000 * PREC⟩, []⟩ from by rfl]; exact raw_nil
          have h2 : foOf exS 0 d' 10 = 0 := by unfold foOf; rw [show findTick exS 0 10 = some ⟨0, 10, ⟨1000 * PREC⟩, ⟨-(1000 * PREC)⟩, []⟩ from by rfl]; exact raw_nil
          unfold CLAccrual.inside CLFee.inside CLFee.below CLFee.above
          rw [feeSt_absWith]
          simp only [feeStOf, h1, h2]
          show raw exAcc.value d' - (if (0:Int) < -10 then _ else 0) - (if (0:Int) ≥ 10 then _ else 0) = _
          simp
        show raw [] d' ≤ _
        rw [hins, raw_nil]
        show 0 ≤ raw [("uaaa", (⟨5500000000000000⟩ : Dec))] d'
        rw [raw_single]
        split <;> decide)
      (by
        intro acc hacc
        have : acc = exAcc := by
          have h0 : getAccum exS 0 = some exAcc := by rfl
          rw [h0] at hacc; exact (Option.some.inj hacc).symm
        subst this; decide)
      (by decide)
    refine ⟨s', claimed, a', rfl, h1, h2, by rw [h3, hpayv], ?_, ?_⟩
    · rw [h4, hpayv]; decide
    · rw [h2.1, hG]

def exSS : SwapState := ⟨⟨PREC⟩, ⟨0⟩, ⟨PREC⟩, 0, ⟨1000 * PREC⟩, ⟨7⟩, ⟨7000⟩, []⟩
def exTi : TickInfo := ⟨0, 10, ⟨1000 * PREC⟩, ⟨-(1000 * PREC)⟩, []⟩

unseal DecCoins.add in
/-- `cross_refines` applies: crossing the stored tick 10 of `exS` upwards succeeds and is the abstract `crossUp 10` -/
example : ∃ s' ss', crossTick exS exSS false ⟨0⟩ ⟨0⟩ exTi exAcc.value "uaaa" true = .ok (s', ss') ∧
    absLoop s' 0 "uaaa" 0 exAcc.value "uaaa" ss'
      = CLAccrual.step (absLoop exS 0 "uaaa" 0 exAcc.value "uaaa" exSS) (.crossUp 10) ∧
    (absLoop s' 0 "uaaa" 0 exAcc.value "uaaa" ss').fo 10 = 5500000000000007 := by
  have hok : (crossTick exS exSS false ⟨0⟩ ⟨0⟩ exTi exAcc.value "uaaa" true).isOk = true := by decide
  cases hr : crossTick exS exSS false ⟨0⟩ ⟨0⟩ exTi exAcc.value "uaaa" true with
  | err c => rw [hr] at hok; cases hok
  | panic c => rw [hr] at hok; cases hok
  | ok r =>
    obtain ⟨s', ss'⟩ := r
    have h := cross_refines 0 "uaaa" 0 hr (by rfl) rfl (sorted_single _) sorted_nil
    refine ⟨s', ss', rfl, h, ?_⟩
    rw [h]
    decide

def exBank2 : Bank := ⟨fun a d => if a = "a1" ∧ d = "uaaa" then 100 else 0, fun _ => 0⟩

unseal DecCoins.add in
/-- `incentive_refines` applies: allocating 3 uaaa to pool 0 succeeds and is the abstract `fee (3·10^18)` -/
example : ∃ s', allocateIncentive { exS with bank := exBank2 } 0 "a1" [("uaaa", 3)] = .ok s' ∧
    CLAccrual.absOf s' 0 "uaaa" 0
      = some (CLAccrual.step (absWith { exS with bank := exBank2 } 0 "uaaa" 0 exPool exAcc) (.fee (3 * PREC))) := by
  have hok : (allocateIncentive { exS with bank := exBank2 } 0 "a1" [("uaaa", 3)]).isOk = true := by decide
  cases hr : allocateIncentive { exS with bank := exBank2 } 0 "a1" [("uaaa", 3)] with
  | err c => rw [hr] at hok; cases hok
  | panic c => rw [hr] at hok; cases hok
  | ok s' =>
    have hsw : SortedWF { exS with bank := exBank2 } := ⟨exS_sorted.accum, exS_sorted.ticks, exS_sorted.accPos⟩
    have h := (incentive_refines (denom := "uaaa") (k := 0) hr (absOf_eq (p := exPool) (a := exAcc) (by rfl) (by rfl)) hsw
      (by decide)).1
    exact ⟨s', rfl, h⟩

/-! ### axioms -/
#print axioms claim_refines
#print axioms prepare_refines
#print axioms fee_step_refines
#print axioms fee_step_other_denom
#print axioms incentive_refines
#print axioms cross_refines
#print axioms change_refines
#print axioms setAccumFee_open
#print axioms updatePosition_s4

end Sunrise.C06Refine
