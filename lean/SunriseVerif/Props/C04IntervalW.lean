import SunriseVerif.Props.C04Interval
import SunriseVerif.Props.C04Grid

/-!
C04 (price part, WINDOWED grid) — "the current price lies within the price interval of the current tick (bounds
included)" re-established under the windowed grid assumption `C04Grid.GridMono tp lo hi` instead of the global
`C04Interval.Mono tp`, which is FALSE for realistic tick parameters (`C04Grid.global_mono_fails`).

`GridMono tp lo hi`: `sp t < sp u` for all `t < u` with `lo ≤ u` and `t ≤ hi`.  For ONE pair of neighbours `t, t+1` it
is usable exactly when `lo ≤ t + 1 ∧ t ≤ hi` (`InWin lo hi t`).

1. windowed core lemmas (`Within.closed_w`, `InTick.halfOpen_w`, `InTick.closed_w`, `sqrtPriceToTick_closed_w`,
   `cross_down_within_w`, `cross_up_closed_w`, `cross_down_closed_w`, `cross_down_not_inTick_w`, `IterPrices.of_gridMono`,
   `cursor_closed_w`) with the side condition `InWin` on the tick at which monotonicity is used.
   Where the tick is COMPUTED from a price, the side condition is DERIVED: `Between tp lo hi P` (P lies between the prices
   of two window ticks) + `GridMono` + `Within tp P t` ⇒ `InWin lo hi t` (`Within.inWin`); with `InTick` even
   `lo ≤ t ∧ t ≤ hi` (`InTick.in_window`); `sqrtPriceToTick_closed_between`.
2. message level: `swapExactIn_within_w`, `swapExactOut_within_w` (from `Grid` + existence of the prices of the window
   ticks: NO direction hypothesis is needed for `Within`), `swapExactIn_closed_w`, `swapExactOut_closed_w` (additionally:
   the post-swap price lies between the prices of two window ticks, `Between`), `createPosition_first_w`.
   `swapLoop_window` / `computeSwap_window` / `swapExactIn_closed_dir_w` / `swapExactOut_closed_dir_w`: `Between` replaced
   by `C04Grid.TraceDir` (no recorded step moved the price against the trade): the final cursor is then PROVED to lie in
   the window.
   Also `computeSwap_within_w`, `computeSwap_closed_w`, `swapLoop_closed_w`; and with NO direction hypothesis at all
   `swapExactIn_closed_qfb_w` (quote-for-base exact-in) and `swapExactOut_closed_bfq_w` (base-for-quote exact-out), where
   `TraceDir` is the theorem `C04Grid.traceDir_default` (needs the store invariant `Inv` and the fee range).
   Remaining boundary: base-for-quote exact-in (`TraceDir` not provable at the default limit,
   `C05Loop.bfq_outGivenIn_against_trade`) and quote-for-base exact-out (needs the C05 liquidity floor `hbig`): use the
   `_dir_w` / `Between` forms there.  `WinPrices` (the window ticks have prices) replaces the existence hypothesis of
   `IterPrices.of_mono`; it is decidable for a concrete window (`winPrices_tp10`).
   C04Interval theorems WITHOUT `Mono` (`sqrtPriceToTick_inTick`, `cross_up_within`, `cross_down_within'`,
   `swapLoop_cursor/_within`, `computeSwap_cursor/_within`, `swap…_cursor/_within`, `createPosition_first`) are reused as is.
3. non-vacuity on the executed histories `C04Store.h3u` (quote-for-base, crosses tick 1) and `C04Store.h3d`
   (base-for-quote, crosses tick 0), window [−3, 3], `GridMono tp10 (-3) 3` as the only hypothesis.
-/
namespace Sunrise.C04IntervalW
open Sunrise Sunrise.TickMath Sunrise.CL Sunrise.Gen.KernelsCL Sunrise.C05Loop Sunrise.C04Interval
open Sunrise.C04Grid (GridMono Grid TraceDir HalfW)

/-- the pair of neighbouring ticks `t, t+1` can be compared with `GridMono tp lo hi` -/
def InWin (lo hi t : Int) : Prop := lo ≤ t + 1 ∧ t ≤ hi

/-- `P` lies between the prices of two ticks of the window `[lo, hi]` -/
def Between (tp : TickParams) (lo hi : Int) (P : Dec) : Prop :=
  ∃ u v A B, (lo ≤ u ∧ u ≤ hi) ∧ (lo ≤ v ∧ v ≤ hi) ∧ tickToSqrtPrice u tp = .ok A ∧ tickToSqrtPrice v tp = .ok B ∧
    A.raw ≤ P.raw ∧ P.raw ≤ B.raw

/-- every tick of the window has a price (`tickToSqrtPrice` does not fail) -/
def WinPrices (tp : TickParams) (lo hi : Int) : Prop :=
  ∀ t, lo ≤ t → t ≤ hi → ∃ c, tickToSqrtPrice t tp = .ok c

theorem GridMono.step {tp : TickParams} {lo hi t : Int} (hm : GridMono tp lo hi) (hw : InWin lo hi t) {a b : Dec}
    (ha : tickToSqrtPrice t tp = .ok a) (hb : tickToSqrtPrice (t + 1) tp = .ok b) : a.raw < b.raw :=
  hm t (t + 1) a b (by omega) hw.1 hw.2 ha hb

/-! ### 1. windowed core lemmas -/

theorem Within.closed_w {tp : TickParams} {lo hi : Int} {P : Dec} {t : Int} (hm : GridMono tp lo hi) (hw : InWin lo hi t)
    (h : Within tp P t) : Closed tp P t := by
  obtain ⟨a, ha, hle, h⟩ := h
  refine ⟨a, ha, hle, fun b hb => ?_⟩
  rcases h with h | ⟨b', hb', hlt⟩
  · have := GridMono.step hm hw ha hb; omega
  · have : b' = b := res_ok_inj (hb'.symm.trans hb)
    subst this; exact hlt

theorem InTick.halfOpen_w {tp : TickParams} {lo hi : Int} {P : Dec} {t : Int} (hm : GridMono tp lo hi) (hw : InWin lo hi t)
    (h : InTick tp P t) :
    ∃ a, tickToSqrtPrice t tp = .ok a ∧ a.raw ≤ P.raw ∧ ∀ b, tickToSqrtPrice (t + 1) tp = .ok b → P.raw < b.raw := by
  obtain ⟨a, ha, hle, h⟩ := h
  refine ⟨a, ha, hle, fun b hb => ?_⟩
  rcases h with h | ⟨b', hb', hlt⟩
  · have := GridMono.step hm hw ha hb; omega
  · have : b' = b := res_ok_inj (hb'.symm.trans hb)
    subst this; exact hlt

theorem InTick.closed_w {tp : TickParams} {lo hi : Int} {P : Dec} {t : Int} (hm : GridMono tp lo hi) (hw : InWin lo hi t)
    (h : InTick tp P t) : Closed tp P t :=
  Within.closed_w hm hw h.within

/-- **the computed tick lies in the window** (`Within` form: the weakest, `InWin`): if the price lies between the prices
    of two window ticks, a tick whose interval contains it can be compared with its successor -/
theorem Within.inWin {tp : TickParams} {lo hi : Int} {P : Dec} {t : Int} (hm : GridMono tp lo hi)
    (hb : Between tp lo hi P) (h : Within tp P t) : InWin lo hi t := by
  obtain ⟨a, ha, hle, hor⟩ := h
  obtain ⟨u, v, A, B, hu, hv, hA, hB, hAP, hPB⟩ := hb
  constructor
  · by_contra hlt
    rcases hor with e | ⟨b, hb', hPb⟩
    · have := hm t u a A (by omega) hu.1 (by omega) ha hA; omega
    · have := hm (t + 1) u b A (by omega) hu.1 (by omega) hb' hA; omega
  · by_contra hgt
    have := hm v t B a (by omega) (by omega) hv.2 hB ha; omega

/-- `InTick` form (what `sqrtPriceToTick` returns): the computed tick is a tick of the window, `lo ≤ t ≤ hi` -/
theorem InTick.in_window {tp : TickParams} {lo hi : Int} {P : Dec} {t : Int} (hm : GridMono tp lo hi)
    (hb : Between tp lo hi P) (h : InTick tp P t) : lo ≤ t ∧ t ≤ hi := by
  have hw := Within.inWin hm hb h.within
  refine ⟨?_, hw.2⟩
  obtain ⟨a, ha, hle, hor⟩ := h
  obtain ⟨u, v, A, B, hu, hv, hA, hB, hAP, hPB⟩ := hb
  by_contra hlt
  rcases hor with e | ⟨b, hb', hPb⟩
  · have := hm t u a A (by omega) hu.1 (by omega) ha hA; omega
  · have := C04Grid.GridMono.le hm (t := t + 1) (u := u) (by omega) hu.1 (by omega) hb' hA; omega

theorem sqrtPriceToTick_in_window {P : Dec} {tp : TickParams} {lo hi t : Int} (hm : GridMono tp lo hi)
    (hb : Between tp lo hi P) (h : sqrtPriceToTick P tp = .ok t) : lo ≤ t ∧ t ≤ hi :=
  InTick.in_window hm hb (sqrtPriceToTick_inTick h)

/-- **2.** closed interval for the tick returned by `sqrtPriceToTick` (side condition on the returned tick) -/
theorem sqrtPriceToTick_closed_w {P : Dec} {tp : TickParams} {lo hi t : Int} {b : Dec} (hm : GridMono tp lo hi)
    (hw : InWin lo hi t) (h : sqrtPriceToTick P tp = .ok t) (hb : tickToSqrtPrice (t + 1) tp = .ok b) :
    ∃ a, tickToSqrtPrice t tp = .ok a ∧ a.raw ≤ P.raw ∧ P.raw ≤ b.raw := by
  obtain ⟨a, ha, hle, hub⟩ := InTick.closed_w hm hw (sqrtPriceToTick_inTick h)
  exact ⟨a, ha, hle, hub b hb⟩

/-- … with the side condition derived from the position of the PRICE -/
theorem sqrtPriceToTick_closed_between {P : Dec} {tp : TickParams} {lo hi t : Int} {b : Dec} (hm : GridMono tp lo hi)
    (hP : Between tp lo hi P) (h : sqrtPriceToTick P tp = .ok t) (hb : tickToSqrtPrice (t + 1) tp = .ok b) :
    ∃ a, tickToSqrtPrice t tp = .ok a ∧ a.raw ≤ P.raw ∧ P.raw ≤ b.raw :=
  sqrtPriceToTick_closed_w hm (Within.inWin hm hP (sqrtPriceToTick_inTick h).within) h hb

/-! crossing (`cross_up_within`, `cross_down_within'` of C04Interval need no grid) -/

theorem cross_down_within_w {tp : TickParams} {lo hi : Int} {lim fee a c : Dec} {t : Int} (hm : GridMono tp lo hi)
    (hw : InWin lo hi (t - 1)) (ha : tickToSqrtPrice t tp = .ok a) (hc : tickToSqrtPrice (t - 1) tp = .ok c) :
    Within tp a (bfq_NextTickAfterCrossing lim fee t) := by
  have e : t - 1 + 1 = t := by omega
  have hlt := GridMono.step hm hw hc (by rw [e]; exact ha)
  exact cross_down_within' ha hc (by omega)

theorem cross_up_closed_w {tp : TickParams} {lo hi : Int} {lim fee a : Dec} {t : Int} (hm : GridMono tp lo hi)
    (hw : InWin lo hi t) (ha : tickToSqrtPrice t tp = .ok a) : Closed tp a (qfb_NextTickAfterCrossing lim fee t) := by
  have e := (Sunrise.C04.cross_conventions lim fee a t).2.1
  exact Within.closed_w hm (by rw [e]; exact hw) (cross_up_within ha)

theorem cross_down_closed_w {tp : TickParams} {lo hi : Int} {lim fee a c : Dec} {t : Int} (hm : GridMono tp lo hi)
    (hw : InWin lo hi (t - 1)) (ha : tickToSqrtPrice t tp = .ok a) (hc : tickToSqrtPrice (t - 1) tp = .ok c) :
    Closed tp a (bfq_NextTickAfterCrossing lim fee t) := by
  have e := (Sunrise.C04.cross_conventions lim fee a t).2.2.2
  exact Within.closed_w hm (by rw [e]; exact hw) (cross_down_within_w hm hw ha hc)

theorem cross_down_not_inTick_w {tp : TickParams} {lo hi : Int} {lim fee a : Dec} {t : Int} (hm : GridMono tp lo hi)
    (hw : InWin lo hi (t - 1)) (ha : tickToSqrtPrice t tp = .ok a) :
    ¬ InTick tp a (bfq_NextTickAfterCrossing lim fee t) := by
  rw [(Sunrise.C04.cross_conventions lim fee a t).2.2.2]
  have e : t - 1 + 1 = t := by omega
  rintro ⟨c, hc, hle, h⟩
  have hlt := GridMono.step hm hw hc (by rw [e]; exact ha)
  rcases h with h | ⟨b, hb, hlt'⟩
  · omega
  · rw [e] at hb
    have : b = a := res_ok_inj (hb.symm.trans ha)
    subst this; omega

/-- windowed `IterPrices.of_mono`: the initialised ticks on the path are comparable with their lower neighbour -/
theorem IterPrices.of_gridMono {bfq : Bool} {tp : TickParams} {lo hi : Int} {iter : List TickInfo} (hm : GridMono tp lo hi)
    (hwin : bfq = true → ∀ ti ∈ iter, InWin lo hi (ti.tick - 1))
    (h : bfq = true → ∀ ti ∈ iter, ∃ c, tickToSqrtPrice (ti.tick - 1) tp = .ok c) : IterPrices bfq tp iter := by
  intro hb ti hti a ha
  obtain ⟨c, hc⟩ := h hb ti hti
  have e : ti.tick - 1 + 1 = ti.tick := by omega
  have := GridMono.step hm (hwin hb ti hti) hc (by rw [e]; exact ha)
  exact ⟨c, hc, by omega⟩

/-- `IterPrices` for the pool's own tick iterator from `Grid` (stored ticks strictly inside the window) and the
    existence of the window ticks' prices -/
theorem iterPrices_of_grid {tp : TickParams} {s : St} {pool : Nat} {cur lo hi : Int} (bfq : Bool)
    (hg : Grid tp s pool cur lo hi) (hex : WinPrices tp lo hi) : IterPrices bfq tp (tickIter s pool cur bfq) := by
  have hst : ∀ ti ∈ tickIter s pool cur bfq, lo < ti.tick ∧ ti.tick < hi := by
    intro x hx
    obtain ⟨h1, h2, _⟩ := (C04StoreL.mem_tickIter_iff s pool cur bfq x).mp hx
    exact hg.winStored x.tick ⟨x, h1, h2, rfl⟩
  refine IterPrices.of_gridMono hg.mono (fun _ ti hti => ?_) (fun _ ti hti => ?_)
  · have := hst ti hti; exact ⟨by omega, by omega⟩
  · have := hst ti hti; exact hex _ (by omega) (by omega)

theorem cursor_closed_w {tp : TickParams} {lo hi : Int} {P P' : Dec} {t t' : Int} (hm : GridMono tp lo hi)
    (hw' : InWin lo hi t') (h0 : Closed tp P t) (h : (P' = P ∧ t' = t) ∨ Within tp P' t') : Closed tp P' t' := by
  rcases h with ⟨e1, e2⟩ | hw
  · rw [e1, e2]; exact h0
  · exact Within.closed_w hm hw' hw

/-! ### 2. message level -/

/-- **`SwapExactAmountIn` keeps `Within`** under the windowed grid: NO direction hypothesis -/
theorem swapExactIn_within_w {s : St} {sender : Addr} {pool : Nat} {denomIn denomOut : Denom} {amount : Int}
    {feeEnabled : Bool} {s2 : St} {out : Int} {p : Pool} {lo hi : Int} (hp : getPool s pool = some p)
    (hg : Grid p.tp s pool p.tick lo hi) (hex : WinPrices p.tp lo hi) (h0 : Within p.tp p.sqrtP p.tick)
    (h : swapExactIn s sender pool denomIn amount denomOut feeEnabled = .ok (s2, out)) :
    ∃ q, getPool s2 pool = some q ∧ q.tp = p.tp ∧ Within q.tp q.sqrtP q.tick :=
  swapExactIn_within hp (iterPrices_of_grid _ hg hex) h0 h

theorem swapExactOut_within_w {s : St} {sender : Addr} {pool : Nat} {denomIn denomOut : Denom} {amount : Int}
    {feeEnabled : Bool} {s2 : St} {out : Int} {p : Pool} {lo hi : Int} (hp : getPool s pool = some p)
    (hg : Grid p.tp s pool p.tick lo hi) (hex : WinPrices p.tp lo hi) (h0 : Within p.tp p.sqrtP p.tick)
    (h : swapExactOut s sender pool denomOut amount denomIn feeEnabled = .ok (s2, out)) :
    ∃ q, getPool s2 pool = some q ∧ q.tp = p.tp ∧ Within q.tp q.sqrtP q.tick :=
  swapExactOut_within hp (iterPrices_of_grid _ hg hex) h0 h

/-- **`SwapExactAmountIn` re-establishes the closed interval** (C04 as stated): pre-state `Within`, windowed grid; the
    stored post-swap price lies between the prices of two window ticks (`hbt`, see `swapExactIn_closed_dir_w` for the
    version where this is derived from the per-step price direction) -/
theorem swapExactIn_closed_w {s : St} {sender : Addr} {pool : Nat} {denomIn denomOut : Denom} {amount : Int}
    {feeEnabled : Bool} {s2 : St} {out : Int} {p : Pool} {lo hi : Int} (hp : getPool s pool = some p)
    (hg : Grid p.tp s pool p.tick lo hi) (hex : WinPrices p.tp lo hi) (h0 : Within p.tp p.sqrtP p.tick)
    (h : swapExactIn s sender pool denomIn amount denomOut feeEnabled = .ok (s2, out))
    (hbt : ∀ q, getPool s2 pool = some q → Between p.tp lo hi q.sqrtP) :
    ∃ q, getPool s2 pool = some q ∧ q.tp = p.tp ∧ Closed q.tp q.sqrtP q.tick := by
  obtain ⟨q, hq, htp, hw⟩ := swapExactIn_within_w hp hg hex h0 h
  rw [htp] at hw
  exact ⟨q, hq, htp, by rw [htp]; exact Within.closed_w hg.mono (Within.inWin hg.mono (hbt q hq) hw) hw⟩

theorem swapExactOut_closed_w {s : St} {sender : Addr} {pool : Nat} {denomIn denomOut : Denom} {amount : Int}
    {feeEnabled : Bool} {s2 : St} {out : Int} {p : Pool} {lo hi : Int} (hp : getPool s pool = some p)
    (hg : Grid p.tp s pool p.tick lo hi) (hex : WinPrices p.tp lo hi) (h0 : Within p.tp p.sqrtP p.tick)
    (h : swapExactOut s sender pool denomOut amount denomIn feeEnabled = .ok (s2, out))
    (hbt : ∀ q, getPool s2 pool = some q → Between p.tp lo hi q.sqrtP) :
    ∃ q, getPool s2 pool = some q ∧ q.tp = p.tp ∧ Closed q.tp q.sqrtP q.tick := by
  obtain ⟨q, hq, htp, hw⟩ := swapExactOut_within_w hp hg hex h0 h
  rw [htp] at hw
  exact ⟨q, hq, htp, by rw [htp]; exact Within.closed_w hg.mono (Within.inWin hg.mono (hbt q hq) hw) hw⟩

/-- **first position of a pool**: the stored cursor is the tick computed from the initial price; if that price lies
    between the prices of two window ticks, the cursor is a window tick and the closed (and half-open) interval holds -/
theorem createPosition_first_w {s : St} {sender : Addr} {pool : Nat} {lo hi : Int} {dBase dQuote : Denom}
    {aBase aQuote minBase minQuote : Int} {s' : St} {out : CreatePosOut} {p0 : Pool} {wlo whi : Int}
    (hm : GridMono p0.tp wlo whi) (hp : getPool s pool = some p0) (hlive : poolLive p0 = false)
    (h : createPosition s sender pool lo hi dBase aBase dQuote aQuote minBase minQuote = .ok (s', out))
    (hbt : ∀ q, getPool s' pool = some q → Between p0.tp wlo whi q.sqrtP) :
    ∃ q, getPool s' pool = some q ∧ q.tp = p0.tp ∧ (wlo ≤ q.tick ∧ q.tick ≤ whi) ∧ Closed q.tp q.sqrtP q.tick ∧
      ∀ b, tickToSqrtPrice (q.tick + 1) q.tp = .ok b → q.sqrtP.raw < b.raw := by
  obtain ⟨q, hq, htp, hin⟩ := createPosition_first hp hlive h
  rw [htp] at hin
  have hwin := InTick.in_window hm (hbt q hq) hin
  have hw : InWin wlo whi q.tick := ⟨by omega, hwin.2⟩
  refine ⟨q, hq, htp, hwin, by rw [htp]; exact InTick.closed_w hm hw hin, ?_⟩
  obtain ⟨a, _, _, hub⟩ := InTick.halfOpen_w hm hw hin
  rw [htp]; exact hub

/-! ### 2b. the final cursor lies in the window, from the per-step price direction (`C04Grid.TraceDir`) -/

open Sunrise.C04Grid (dec_raw_ne loop_step_full traceDir_pre halfW_of_within) in
/-- a cursor move inside a bucket stays between the old cursor and the head of the iterator, hence in the window
    (the window part of `C04Grid.move_guard`, without the bookkeeping abstraction) -/
theorem move_window {bfq : Bool} {tp : TickParams} {lo hi : Int} (hm : GridMono tp lo hi) {c : Int}
    {start next tickPrice : Dec} {ti t : Int}
    (hwc : lo ≤ c ∧ c < hi) (hwt : lo < ti ∧ ti < hi) (hW : HalfW bfq tp lo hi start c)
    (hT : tickToSqrtPrice ti tp = .ok tickPrice) (hne : tickPrice ≠ next)
    (hord : if bfq then ¬ tickPrice.raw > next.raw else ¬ tickPrice.raw < next.raw)
    (hsn : start ≠ next) (hdir : if bfq then next.raw ≤ start.raw else start.raw ≤ next.raw)
    (ht : sqrtPriceToTick next tp = .ok t) :
    HalfW bfq tp lo hi next t ∧ (lo ≤ t ∧ t < hi) := by
  obtain ⟨a, ha, hle, hor⟩ := sqrtPriceToTick_inTick ht
  have hne' := dec_raw_ne hne
  have hsn' := dec_raw_ne hsn
  cases bfq
  · simp only [HalfW, Bool.false_eq_true, if_false] at hW hord hdir ⊢
    obtain ⟨u, A, huw, hcu, hA, hAP⟩ := hW
    have h1 : c ≤ t := by
      by_contra hlt
      rcases hor with e | ⟨b', hb', hlt'⟩
      · have := hm t u a A (by omega) (by omega) (by omega) ha hA; omega
      · have := C04Grid.GridMono.le hm (t := t + 1) (u := u) (by omega) (by omega) (by omega) hb' hA; omega
    have h2 : t < ti := by
      by_contra hge
      have := C04Grid.GridMono.le hm (t := ti) (u := t) (by omega) (by omega) (by omega) hT ha; omega
    exact ⟨⟨t, a, by omega, Int.le_refl _, ha, hle⟩, by omega⟩
  · simp only [HalfW, if_true] at hW hord hdir ⊢
    obtain ⟨u, B, huw, huc, hB, hPB⟩ := hW
    have h1 : t ≤ c := by
      by_contra hlt
      have := C04Grid.GridMono.le hm (t := u) (u := t) (by omega) (by omega) (by omega) hB ha; omega
    have h2 : ti ≤ t := by
      by_contra hlt
      rcases hor with e | ⟨b', hb', hlt'⟩
      · have := hm t ti a tickPrice (by omega) (by omega) (by omega) ha hT; omega
      · have := C04Grid.GridMono.le hm (t := t + 1) (u := ti) (by omega) (by omega) (by omega) hb' hT; omega
    refine ⟨?_, by omega⟩
    rcases hor with e | ⟨b', hb', hlt'⟩
    · exact ⟨t, a, by omega, by omega, ha, by omega⟩
    · exact ⟨t + 1, b', by omega, Int.le_refl _, hb', by omega⟩

open Sunrise.C04Grid (loop_step_full traceDir_pre) in
open Sunrise.C04RefineLoop (preEvs) in
/-- **the loop keeps the cursor in the window**: windowed grid, the initialised ticks on the path strictly inside the
    window, start cursor in the window with `HalfW`, and no recorded step moved the price against the trade -/
theorem swapLoop_window {exactIn bfq upd : Bool} {lim fee : Dec} {tp : TickParams} {accVal : DecCoins} {denomIn : Denom}
    {lo hi : Int} (hm : GridMono tp lo hi) :
    ∀ (fuel noProg : Nat) (s : St) (ss : SwapState) (iter : List TickInfo) (s' : St) (ss' : SwapState),
      swapLoop exactIn bfq upd lim fee tp accVal denomIn fuel noProg s ss iter = .ok (s', ss') →
      ∃ evs, ss'.trace = ss.trace ++ evs ∧
        (TraceDir bfq ss.sqrtP.raw evs → HalfW bfq tp lo hi ss.sqrtP ss.tick → (lo ≤ ss.tick ∧ ss.tick < hi) →
          (∀ x ∈ iter, lo < x.tick ∧ x.tick < hi) →
          HalfW bfq tp lo hi ss'.sqrtP ss'.tick ∧ (lo ≤ ss'.tick ∧ ss'.tick < hi)) := by
  intro fuel
  induction fuel with
  | zero => intro noProg s ss iter s' ss' h; rw [swapLoop_zero] at h; cases h
  | succ fuel ih =>
    intro noProg s ss iter s' ss' h
    rcases loop_step_full h with he | ⟨_, ti, rest, tickPrice, r, s3, ss3, iter3, noProg', tail, hit, hT, _, hP, htr, hcase, hrec⟩
    · subst he
      exact ⟨[], (List.append_nil _).symm, fun _ hW hwc _ => ⟨hW, hwc⟩⟩
    · subst hit
      obtain ⟨evs', htr', hG'⟩ := ih noProg' s3 ss3 iter3 s' ss' hrec
      refine ⟨preEvs exactIn upd r ++ (tail ++ evs'), ?_, ?_⟩
      · rw [htr', htr, List.append_assoc, List.append_assoc]
      · intro hdir hW hwc hwi
        have hwt := hwi ti List.mem_cons_self
        obtain ⟨hd1, hd2⟩ := (traceDir_pre bfq exactIn upd _ r _).mp hdir
        rw [hP] at hG'
        rcases hcase with ⟨he, hi', htl, htk, _⟩ | ⟨hne, hord, hi', _, hmv | hst⟩
        · subst hi'; subst htl
          have hd3 : TraceDir bfq r.1.raw evs' := hd2
          refine hG' hd3 ?_ ?_ (fun x hx => hwi x (List.mem_cons_of_mem _ hx))
          · rw [htk, ← he]
            cases bfq
            · simp only [HalfW, Bool.false_eq_true, if_false]
              exact ⟨ti.tick, tickPrice, by omega, Int.le_refl _, hT, Int.le_refl _⟩
            · simp only [HalfW, if_true]
              exact ⟨ti.tick, tickPrice, by omega, by omega, hT, Int.le_refl _⟩
          · rw [htk]; cases bfq <;> simp <;> omega
        · obtain ⟨hsn, t, ht, htk, htl⟩ := hmv
          subst hi'; subst htl
          have hd3 : TraceDir bfq r.1.raw evs' := hd2
          obtain ⟨hW', hwt'⟩ := move_window hm hwc hwt hW hT hne hord hsn hd1 ht
          exact hG' hd3 (by rw [htk]; exact hW') (by rw [htk]; exact hwt') hwi
        · obtain ⟨hse, htk, htl⟩ := hst
          subst hi'; subst htl
          have hd3 : TraceDir bfq r.1.raw evs' := hd2
          exact hG' hd3 (by rw [htk, ← hse]; exact hW) (by rw [htk]; exact hwc) hwi

/-- inversion of a successful `computeSwap` (as `C04Grid.computeSwap_inv_grid`, plus the reported cursor) -/
theorem computeSwap_inv_w {exactIn : Bool} {s : St} {pool : Nat} {denomIn denomOut : Denom} {amount : Int} {fee mLimit : Dec}
    {s2 : St} {o : SwapOut} (h : computeSwap exactIn s pool denomIn denomOut amount fee mLimit true = .ok (s2, o)) :
    ∃ (p : Pool) (acc : Accum) (lim : Dec) (s1 : St) (ss : SwapState), getPool s pool = some p ∧
      swapLoop exactIn (decide (denomIn = p.base)) true lim fee p.tp acc.value denomIn LOOP_FUEL 0 s (ss0Of p amount)
          (tickIter s pool p.tick (decide (denomIn = p.base))) = .ok (s1, ss) ∧
      s2.lastTrace = ss.trace ∧ o.sqrtP = ss.sqrtP ∧ o.tick = ss.tick := by
  rw [computeSwap_eq] at h
  cases hp : getPool s pool with
  | none => rw [hp] at h; cases h
  | some p =>
    rw [hp] at h
    simp only [] at h
    obtain ⟨_, h⟩ := ite_err_ok h
    obtain ⟨_, h⟩ := ite_err_ok h
    obtain ⟨_, h⟩ := ite_err_ok h
    obtain ⟨_, h⟩ := ite_err_ok h
    cases ha : getAccum s pool with
    | none => rw [ha] at h; cases h
    | some acc =>
      rw [ha] at h
      simp only [] at h
      obtain ⟨lim, hlim, h⟩ := bind_ok h
      obtain ⟨hv, h⟩ := ite_err_ok h
      obtain ⟨x, hx, h⟩ := bind_ok h
      obtain ⟨_, h⟩ := ite_err_ok h
      have h' := res_ok_inj h
      have hf := finishSwap_cursor exactIn true acc denomIn amount x.1 x.2
      rw [h'] at hf
      have e1 : s2 = (finishSwap exactIn true acc denomIn amount x.1 x.2).1 := (congrArg Prod.fst h').symm
      refine ⟨p, acc, lim, x.1, x.2, rfl, hx, ?_, hf.1, hf.2.1⟩
      rw [e1]; cases exactIn <;> rfl

/-- **`computeSwap`: the reported cursor is a tick of the window** -/
theorem computeSwap_window {exactIn : Bool} {s s1 : St} {pool : Nat} {denomIn denomOut : Denom} {amount : Int}
    {fee mLimit : Dec} {o : SwapOut} {p : Pool} {lo hi : Int} (hp : getPool s pool = some p)
    (hw : Within p.tp p.sqrtP p.tick) (hg : Grid p.tp s pool p.tick lo hi)
    (hc : computeSwap exactIn s pool denomIn denomOut amount fee mLimit true = .ok (s1, o))
    (hdir : TraceDir (decide (denomIn = p.base)) p.sqrtP.raw s1.lastTrace) :
    lo ≤ o.tick ∧ o.tick < hi := by
  obtain ⟨p', acc, lim, s0, ss, hp', hloop, hlast, _, hot⟩ := computeSwap_inv_w hc
  have e : p' = p := by rw [hp] at hp'; exact (Option.some.inj hp').symm
  subst e
  obtain ⟨evs, htr, hG⟩ := swapLoop_window hg.mono _ _ _ _ _ _ _ hloop
  have hevs : ss.trace = evs := by rw [htr]; simp [ss0Of]
  rw [hlast, hevs] at hdir
  rw [hot]
  refine (hG hdir (C04Grid.halfW_of_within hg.winCur hw) hg.winCur ?_).2
  intro x hx
  obtain ⟨h1, h2, _⟩ := (C04StoreL.mem_tickIter_iff s pool p'.tick _ x).mp hx
  exact hg.winStored x.tick ⟨x, h1, h2, rfl⟩

/-- `computeSwap` (any `upd`): the reported (price, cursor) satisfies `Within` — no direction hypothesis -/
theorem computeSwap_within_w {exactIn : Bool} {s : St} {pool : Nat} {denomIn denomOut : Denom} {amount : Int}
    {fee mLimit : Dec} {upd : Bool} {s2 : St} {o : SwapOut} {p : Pool} {lo hi : Int} (hp : getPool s pool = some p)
    (hg : Grid p.tp s pool p.tick lo hi) (hex : WinPrices p.tp lo hi) (h0 : Within p.tp p.sqrtP p.tick)
    (h : computeSwap exactIn s pool denomIn denomOut amount fee mLimit upd = .ok (s2, o)) :
    Within p.tp o.sqrtP o.tick :=
  computeSwap_within hp (iterPrices_of_grid _ hg hex) h0 h

/-- `computeSwap` (accumulators updated, as called by the two messages): closed interval, from `TraceDir` -/
theorem computeSwap_closed_w {exactIn : Bool} {s s1 : St} {pool : Nat} {denomIn denomOut : Denom} {amount : Int}
    {fee mLimit : Dec} {o : SwapOut} {p : Pool} {lo hi : Int} (hp : getPool s pool = some p)
    (hg : Grid p.tp s pool p.tick lo hi) (hex : WinPrices p.tp lo hi) (h0 : Within p.tp p.sqrtP p.tick)
    (hc : computeSwap exactIn s pool denomIn denomOut amount fee mLimit true = .ok (s1, o))
    (hdir : TraceDir (decide (denomIn = p.base)) p.sqrtP.raw s1.lastTrace) :
    Closed p.tp o.sqrtP o.tick := by
  have hwin := computeSwap_window hp h0 hg hc hdir
  exact Within.closed_w hg.mono ⟨by omega, by omega⟩ (computeSwap_within_w hp hg hex h0 hc)

/-- windowed `swapLoop_closed` (side condition on the FINAL cursor; `swapLoop_window` derives it) -/
theorem swapLoop_closed_w {exactIn bfq upd : Bool} {lim fee : Dec} {tp : TickParams} {accVal : DecCoins} {denomIn : Denom}
    {fuel noProg : Nat} {s : St} {ss : SwapState} {iter : List TickInfo} {s' : St} {ss' : SwapState} {lo hi : Int}
    (hm : GridMono tp lo hi) (hip : IterPrices bfq tp iter) (h0 : Closed tp ss.sqrtP ss.tick)
    (h : swapLoop exactIn bfq upd lim fee tp accVal denomIn fuel noProg s ss iter = .ok (s', ss'))
    (hw' : InWin lo hi ss'.tick) : Closed tp ss'.sqrtP ss'.tick :=
  cursor_closed_w hm hw' h0 (by
    rcases (swapLoop_cursor fuel noProg s ss iter s' ss' hip h).1 with ⟨e1, e2⟩ | hw
    · exact Or.inl ⟨e1, e2⟩
    · exact Or.inr hw)

/-- shared tail of the two messages -/
theorem swap_closed_dir_core {exactIn : Bool} {s s1 s2 : St} {pool : Nat} {denomIn denomOut : Denom} {amount : Int}
    {fee mLimit : Dec} {o : SwapOut} {p : Pool} {b : Bank} {lo hi : Int} (hp : getPool s pool = some p)
    (hg : Grid p.tp s pool p.tick lo hi) (hex : WinPrices p.tp lo hi) (h0 : Within p.tp p.sqrtP p.tick)
    (hc : computeSwap exactIn s pool denomIn denomOut amount fee mLimit true = .ok (s1, o))
    (hs2 : s2 = setPool { s1 with bank := b } { p with liq := o.liq, tick := o.tick, sqrtP := o.sqrtP })
    (hdir : TraceDir (decide (denomIn = p.base)) p.sqrtP.raw s2.lastTrace) :
    ∃ q, getPool s2 pool = some q ∧ q.tp = p.tp ∧ (lo ≤ q.tick ∧ q.tick < hi) ∧ Within q.tp q.sqrtP q.tick ∧
      Closed q.tp q.sqrtP q.tick := by
  have hlt : s2.lastTrace = s1.lastTrace := by rw [hs2]; rfl
  rw [hlt] at hdir
  obtain ⟨hcur, hpools⟩ := computeSwap_cursor hp (iterPrices_of_grid _ hg hex) hc
  have hwin := computeSwap_window hp h0 hg hc hdir
  have hw : Within p.tp o.sqrtP o.tick := cursor_within h0 hcur
  refine ⟨{ p with liq := o.liq, tick := o.tick, sqrtP := o.sqrtP }, ?_, rfl, hwin, hw, ?_⟩
  · rw [hs2]
    exact getPool_setPool (s := s) (s' := { s1 with bank := b }) hp hpools rfl
  · exact Within.closed_w hg.mono ⟨by have := hwin.1; show lo ≤ o.tick + 1; omega, by have := hwin.2; show o.tick ≤ hi; omega⟩ hw

/-- **`SwapExactAmountIn`: closed interval and cursor in the window**, from the pre-state `Within`, the windowed grid and
    `TraceDir` (discharged by `C04Grid.traceDir_default` / `traceDir_of_c05`; unconditional for quote-for-base, see
    `swapExactIn_closed_qfb_w`) -/
theorem swapExactIn_closed_dir_w {s : St} {sender : Addr} {pool : Nat} {denomIn denomOut : Denom} {amount : Int}
    {feeEnabled : Bool} {s2 : St} {out : Int} {p : Pool} {lo hi : Int} (hp : getPool s pool = some p)
    (hg : Grid p.tp s pool p.tick lo hi) (hex : WinPrices p.tp lo hi) (h0 : Within p.tp p.sqrtP p.tick)
    (h : swapExactIn s sender pool denomIn amount denomOut feeEnabled = .ok (s2, out))
    (hdir : TraceDir (decide (denomIn = p.base)) p.sqrtP.raw s2.lastTrace) :
    ∃ q, getPool s2 pool = some q ∧ q.tp = p.tp ∧ (lo ≤ q.tick ∧ q.tick < hi) ∧ Within q.tp q.sqrtP q.tick ∧
      Closed q.tp q.sqrtP q.tick := by
  obtain ⟨p', s1, o, b, hp', hc, hs2⟩ := C04Grid.swapExactIn_inv' h
  have e : p' = p := by rw [hp] at hp'; exact (Option.some.inj hp').symm
  subst e
  exact swap_closed_dir_core hp hg hex h0 hc hs2 hdir

theorem swapExactOut_closed_dir_w {s : St} {sender : Addr} {pool : Nat} {denomIn denomOut : Denom} {amount : Int}
    {feeEnabled : Bool} {s2 : St} {out : Int} {p : Pool} {lo hi : Int} (hp : getPool s pool = some p)
    (hg : Grid p.tp s pool p.tick lo hi) (hex : WinPrices p.tp lo hi) (h0 : Within p.tp p.sqrtP p.tick)
    (h : swapExactOut s sender pool denomOut amount denomIn feeEnabled = .ok (s2, out))
    (hdir : TraceDir (decide (denomIn = p.base)) p.sqrtP.raw s2.lastTrace) :
    ∃ q, getPool s2 pool = some q ∧ q.tp = p.tp ∧ (lo ≤ q.tick ∧ q.tick < hi) ∧ Within q.tp q.sqrtP q.tick ∧
      Closed q.tp q.sqrtP q.tick := by
  obtain ⟨p', s1, o, b, hp', hc, hs2⟩ := C04Grid.swapExactOut_inv' h
  have e : p' = p := by rw [hp] at hp'; exact (Option.some.inj hp').symm
  subst e
  exact swap_closed_dir_core hp hg hex h0 hc hs2 hdir

/-- **quote-for-base `SwapExactAmountIn`: NO direction hypothesis** (the per-step direction is a theorem of C05 in this
    mode): store invariant `Inv`, `Within`, windowed grid, prices of the window ticks, fee rate in [0, 1) -/
theorem swapExactIn_closed_qfb_w {s : St} {sender : Addr} {pool : Nat} {denomIn denomOut : Denom} {amount : Int}
    {feeEnabled : Bool} {s2 : St} {out : Int} {p : Pool} {lo hi : Int} (hI : C04StoreL.Inv s) (hp : getPool s pool = some p)
    (hg : Grid p.tp s pool p.tick lo hi) (hex : WinPrices p.tp lo hi) (h0 : Within p.tp p.sqrtP p.tick)
    (hfee : 0 ≤ p.feeRate.raw ∧ p.feeRate.raw < PREC) (hq : denomIn ≠ p.base)
    (h : swapExactIn s sender pool denomIn amount denomOut feeEnabled = .ok (s2, out)) :
    ∃ q, getPool s2 pool = some q ∧ q.tp = p.tp ∧ (lo ≤ q.tick ∧ q.tick < hi) ∧ Within q.tp q.sqrtP q.tick ∧
      Closed q.tp q.sqrtP q.tick := by
  obtain ⟨p', s1, o, b, hp', hc, hs2⟩ := C04Grid.swapExactIn_inv' h
  have e : p' = p := by rw [hp] at hp'; exact (Option.some.inj hp').symm
  subst e
  have hf := C04Grid.fee_range (feeEnabled := feeEnabled) hfee
  have hd := C04Grid.traceDir_default hI hp h0 hg hf.1 hf.2 (fun _ hb => absurd hb hq) (fun e => by cases e) hc
  have hlt : s2.lastTrace = s1.lastTrace := by rw [hs2]; rfl
  exact swap_closed_dir_core hp hg hex h0 hc hs2 (by rw [hlt]; exact hd)

/-- **base-for-quote `SwapExactAmountOut`: NO direction hypothesis** -/
theorem swapExactOut_closed_bfq_w {s : St} {sender : Addr} {pool : Nat} {denomIn denomOut : Denom} {amount : Int}
    {feeEnabled : Bool} {s2 : St} {out : Int} {p : Pool} {lo hi : Int} (hI : C04StoreL.Inv s) (hp : getPool s pool = some p)
    (hg : Grid p.tp s pool p.tick lo hi) (hex : WinPrices p.tp lo hi) (h0 : Within p.tp p.sqrtP p.tick)
    (hfee : 0 ≤ p.feeRate.raw ∧ p.feeRate.raw < PREC) (hq : denomIn = p.base)
    (h : swapExactOut s sender pool denomOut amount denomIn feeEnabled = .ok (s2, out)) :
    ∃ q, getPool s2 pool = some q ∧ q.tp = p.tp ∧ (lo ≤ q.tick ∧ q.tick < hi) ∧ Within q.tp q.sqrtP q.tick ∧
      Closed q.tp q.sqrtP q.tick := by
  obtain ⟨p', s1, o, b, hp', hc, hs2⟩ := C04Grid.swapExactOut_inv' h
  have e : p' = p := by rw [hp] at hp'; exact (Option.some.inj hp').symm
  subst e
  have hf := C04Grid.fee_range (feeEnabled := feeEnabled) hfee
  have hd := C04Grid.traceDir_default hI hp h0 hg hf.1 hf.2 (fun e => by cases e) (fun _ hb => absurd hq hb) hc
  have hlt : s2.lastTrace = s1.lastTrace := by rw [hs2]; rfl
  exact swap_closed_dir_core hp hg hex h0 hc hs2 (by rw [hlt]; exact hd)

/-! ### 3. non-vacuity on a REAL window: ×10 grid `tp10`, window [−3, 3], executed histories of `C04Store`
(`h3`: two positions, cursor 0, price 1.0, stored ticks −1, 0, 1, 2).  `GridMono tp10 (-3) 3` is the ONLY hypothesis: its
infinite part (comparison with all ticks outside the window) is not decidable by evaluation. -/

theorem sp_3 : tickToSqrtPrice 3 tp10 = .ok ⟨31622776601683793320⟩ := res_of_rawOr (by decide) (by decide +kernel)

theorem winPrices_tp10 : WinPrices tp10 (-3) 3 := by
  intro t h1 h2
  have : t = -3 ∨ t = -2 ∨ t = -1 ∨ t = 0 ∨ t = 1 ∨ t = 2 ∨ t = 3 := by omega
  rcases this with e | e | e | e | e | e | e <;> subst e
  · exact ⟨_, sp_m3⟩
  · exact ⟨_, sp_m2⟩
  · exact ⟨_, sp_m1⟩
  · exact ⟨_, sp_0⟩
  · exact ⟨_, sp_1⟩
  · exact ⟨_, sp_2⟩
  · exact ⟨_, sp_3⟩

theorem grid_h3w (hm : GridMono tp10 (-3) 3) : Grid C05Store.poolH3.tp C04Store.h3 0 C05Store.poolH3.tick (-3) 3 := by
  refine ⟨hm, by decide, fun t ht => ?_, C05Store.grid_h3.bounds⟩
  rcases C05Store.stored_h3 ht with e | e | e | e <;> omega

def pt (s : St) : Int × Int := match getPool s 0 with | some q => (q.sqrtP.raw, q.tick) | none => (-1, 0)

theorem pt_some {s : St} {q : Pool} (h : getPool s 0 = some q) : pt s = (q.sqrtP.raw, q.tick) := by
  unfold pt; rw [h]

theorem pt_h3u : pt C04Store.h3u = (4280898460168379325, 1) := by decide +kernel
theorem pt_h3d : pt C04Store.h3d = (999318743509518383, -1) := by decide +kernel

/-- **quote-for-base** swap `h3 → h3u` (5 000 000 quote in: crosses tick 1, then moves inside [sp 1, sp 2]): the stored
    pool has price 4.28…, cursor 1, cursor in the window, closed interval — NO direction hypothesis, NO `Between`
    hypothesis (`swapExactIn_closed_qfb_w`) -/
example (hm : GridMono tp10 (-3) 3) : ∃ q, getPool C04Store.h3u 0 = some q ∧ q.sqrtP.raw = 4280898460168379325 ∧
    q.tick = 1 ∧ Within q.tp q.sqrtP q.tick ∧ Closed q.tp q.sqrtP q.tick := by
  have hok := C04Store.h3u_ok.1
  cases hr : swapExactIn C04Store.h3 "a0" 0 "quote" 5000000 "base" true with
  | ok v =>
    have e : C04Store.h3u = v.1 := by
      show C04Store.commit C04Store.h3 (swapExactIn C04Store.h3 "a0" 0 "quote" 5000000 "base" true) = v.1
      rw [hr]; rfl
    obtain ⟨q, hq, _, _, hw, hcl⟩ := swapExactIn_closed_qfb_w (s2 := v.1) (out := v.2) C05Store.inv_h3 C05Store.pool_h3
      (grid_h3w hm) winPrices_tp10 C05Store.within_h3 (by decide) (by decide) hr
    rw [← e] at hq
    have h1 := (pt_some hq).symm.trans pt_h3u
    exact ⟨q, hq, congrArg Prod.fst h1, congrArg Prod.snd h1, hw, hcl⟩
  | err c => rw [hr] at hok; simp [C04Store.okState] at hok
  | panic k => rw [hr] at hok; simp [C04Store.okState] at hok

/-- **base-for-quote** swap `h3 → h3d` (1000 base in: crosses the cursor tick 0 DOWNWARD, cursor −1, then moves inside
    [sp (−1), sp 0]): `swapExactIn_closed_w`, the `Between` hypothesis discharged on the stored price
    (sp (−1) = 0.316… ≤ 0.99931… ≤ 1.0 = sp 0, two window ticks) -/
example (hm : GridMono tp10 (-3) 3) : ∃ q, getPool C04Store.h3d 0 = some q ∧ q.sqrtP.raw = 999318743509518383 ∧
    q.tick = -1 ∧ Closed q.tp q.sqrtP q.tick := by
  have hok := C04Store.h3d_ok.1
  cases hr : swapExactIn C04Store.h3 "a0" 0 "base" 1000 "quote" true with
  | ok v =>
    have e : C04Store.h3d = v.1 := by
      show C04Store.commit C04Store.h3 (swapExactIn C04Store.h3 "a0" 0 "base" 1000 "quote" true) = v.1
      rw [hr]; rfl
    obtain ⟨q, hq, _, hcl⟩ := swapExactIn_closed_w (s2 := v.1) (out := v.2) C05Store.pool_h3
      (grid_h3w hm) winPrices_tp10 C05Store.within_h3 hr (by
        intro q hq
        rw [← e] at hq
        have h1 := congrArg Prod.fst ((pt_some hq).symm.trans pt_h3d)
        have h1' : q.sqrtP.raw = 999318743509518383 := h1
        refine ⟨-1, 0, _, _, by decide, by decide, sp_m1, sp_0, ?_, ?_⟩
        · rw [h1']; decide
        · rw [h1']; decide)
    rw [← e] at hq
    have h1 := (pt_some hq).symm.trans pt_h3d
    exact ⟨q, hq, congrArg Prod.fst h1, congrArg Prod.snd h1, hcl⟩
  | err c => rw [hr] at hok; simp [C04Store.okState] at hok
  | panic k => rw [hr] at hok; simp [C04Store.okState] at hok

/-- **first position** `h1 → h2` (pool 0 empty in `h1`; initial price 1.0 = sp 0, a window tick): cursor 0 in the window,
    closed and half-open interval -/
theorem pool_h1 : getPool C04Store.h1 0 = some ⟨0, "base", "quote", ⟨3000000000000000⟩, tp10, 0, ⟨0⟩, ⟨0⟩⟩ := by
  decide +kernel
theorem pt_h2 : pt C04Store.h2 = (1000000000000000000, 0) := by decide +kernel
theorem h2_ok : C04Store.okState (createPosition C04Store.h1 "a0" 0 (-1) 1 "base" 1000000 "quote" 1000000 0 0) = true := by
  decide +kernel

example (hm : GridMono tp10 (-3) 3) : ∃ q, getPool C04Store.h2 0 = some q ∧ q.sqrtP.raw = PREC ∧ q.tick = 0 ∧
    ((-3 : Int) ≤ q.tick ∧ q.tick ≤ 3) ∧ Closed q.tp q.sqrtP q.tick := by
  have hok := h2_ok
  cases hr : createPosition C04Store.h1 "a0" 0 (-1) 1 "base" 1000000 "quote" 1000000 0 0 with
  | ok v =>
    have e : C04Store.h2 = v.1 := by
      show C04Store.commit C04Store.h1 (createPosition C04Store.h1 "a0" 0 (-1) 1 "base" 1000000 "quote" 1000000 0 0) = v.1
      rw [hr]; rfl
    obtain ⟨q, hq, _, hwin, hcl, _⟩ := createPosition_first_w (s' := v.1) (out := v.2) (wlo := -3) (whi := 3)
      (p0 := ⟨0, "base", "quote", ⟨3000000000000000⟩, tp10, 0, ⟨0⟩, ⟨0⟩⟩) hm pool_h1 (by decide) hr (by
        intro q hq
        rw [← e] at hq
        have h1' : q.sqrtP.raw = 1000000000000000000 := congrArg Prod.fst ((pt_some hq).symm.trans pt_h2)
        refine ⟨0, 0, _, _, by decide, by decide, sp_0, sp_0, ?_, ?_⟩
        · rw [h1']; decide
        · rw [h1']; decide)
    rw [← e] at hq
    have h1 := (pt_some hq).symm.trans pt_h2
    exact ⟨q, hq, congrArg Prod.fst h1, congrArg Prod.snd h1, hwin, hcl⟩
  | err c => rw [hr] at hok; simp [C04Store.okState] at hok
  | panic k => rw [hr] at hok; simp [C04Store.okState] at hok

/-! ### axioms -/
#print axioms Within.closed_w
#print axioms Within.inWin
#print axioms InTick.in_window
#print axioms swapExactIn_within_w
#print axioms swapExactOut_within_w
#print axioms swapExactIn_closed_w
#print axioms swapExactOut_closed_w
#print axioms createPosition_first_w
#print axioms InTick.halfOpen_w
#print axioms sqrtPriceToTick_closed_w
#print axioms sqrtPriceToTick_closed_between
#print axioms cross_down_within_w
#print axioms cross_up_closed_w
#print axioms cross_down_closed_w
#print axioms cross_down_not_inTick_w
#print axioms IterPrices.of_gridMono
#print axioms iterPrices_of_grid
#print axioms cursor_closed_w
#print axioms swapLoop_window
#print axioms computeSwap_window
#print axioms computeSwap_within_w
#print axioms computeSwap_closed_w
#print axioms swapLoop_closed_w
#print axioms swapExactIn_closed_dir_w
#print axioms swapExactOut_closed_dir_w
#print axioms swapExactIn_closed_qfb_w
#print axioms swapExactOut_closed_bfq_w
#print axioms pt_h3u
#print axioms pt_h3d

end Sunrise.C04IntervalW
