/-
C19 — genesis export/import preserves every custom module's state.

`roundtrip_iff`: for EVERY coverage table and every store, exporting and importing reproduces the store exactly when the
prefixes the table leaves uncovered are empty.  `uncovered_eq`: on the table REGENERATED from the Go source the uncovered set is
exactly the pinned list below (each element one entry of known_findings/C19.json); a prefix that becomes uncovered, or a new
collection without genesis support, changes the left-hand side and this file stops checking.
-/
import SunriseVerif.Model.Genesis
import SunriseVerif.Gen.Facts

namespace Sunrise.C19
open Sunrise.Genesis

theorem find_some {tbl : List Row} {n : String} {r : Row} (h : find tbl n = some r) : r ∈ tbl ∧ r.name = n := by
  unfold find at h
  exact ⟨List.mem_of_find?_eq_some h, by simpa using List.find?_some h⟩

theorem find_of_mem {tbl : List Row} (nd : (tbl.map (·.name)).Nodup) {r : Row} (hr : r ∈ tbl) : find tbl r.name = some r := by
  induction tbl with
  | nil => cases hr
  | cons x xs ih =>
    rw [List.map_cons, List.nodup_cons] at nd
    unfold find
    rw [List.find?_cons]
    rcases List.mem_cons.mp hr with rfl | hr'
    · simp
    · have hne : (x.name == r.name) = false := by
        apply beq_eq_false_iff_ne.mpr
        intro h
        exact nd.1 (h ▸ List.mem_map_of_mem hr')
      rw [hne]
      exact ih nd.2 hr'

/-- one prefix after export + import -/
theorem roundtrip_at (tbl : List Row) (ix : String → List Entry → List Entry) (st : Store) (n : String) :
    importG tbl ix (exportG tbl st) n =
      match find tbl n with
      | none => []
      | some r =>
        if r.isIndex then
          match find tbl r.parent with
          | some pr => if pr.initWrites then ix n (if !pr.isIndex && pr.exportReads then st r.parent else []) else []
          | none => []
        else if covered r then st n else [] := by
  unfold importG exportG covered
  cases h : find tbl n with
  | none => rfl
  | some r =>
    simp only
    by_cases hi : r.isIndex
    · simp only [hi, if_true]
      cases hp : find tbl r.parent with
      | none => rfl
      | some pr => simp
    · simp only [hi]
      cases r.initWrites <;> cases r.exportReads <;> simp

/-- MAIN: export followed by import is the identity on a store exactly when every uncovered prefix is empty. Holds for every
table, every index function (`ix n [] = []`: an index of an empty map is empty), every consistent store. -/
theorem roundtrip_iff (tbl : List Row) (wf : WellFormed tbl) (ix : String → List Entry → List Entry) (hix : ∀ n, ix n [] = [])
    (st : Store) (hc : Consistent tbl ix st) :
    importG tbl ix (exportG tbl st) = st ↔ ∀ p ∈ uncovered tbl, st p = [] := by
  constructor
  · intro h p hp
    unfold uncovered at hp
    obtain ⟨r, hr, rfl⟩ := List.mem_map.mp hp
    rw [List.mem_filter] at hr
    have hf := find_of_mem wf.1 hr.1
    have := congrFun h r.name
    rw [roundtrip_at, hf] at this
    have h2 := hr.2
    simp only [Bool.and_eq_true, Bool.not_eq_true'] at h2
    simp only [h2.1, h2.2] at this
    exact this.symm
  · intro h
    funext n
    rw [roundtrip_at]
    cases hf : find tbl n with
    | none => exact (hc.2 n hf).symm
    | some r =>
      obtain ⟨hr, rfl⟩ := find_some hf
      by_cases hi : r.isIndex = true
      · simp only [hi, if_true]
        have hcons := hc.1 r hr hi
        have hpar := wf.2 r hr hi
        cases hp : find tbl r.parent with
        | none => rw [hp] at hpar; simp at hpar
        | some pr =>
          rw [hp] at hpar
          simp only [Option.any_some, Bool.not_eq_true'] at hpar
          obtain ⟨hprm, hprn⟩ := find_some hp
          simp only [hpar]
          by_cases hcov : covered pr = true
          · unfold covered at hcov
            simp only [Bool.and_eq_true] at hcov
            simp [hcov.1, hcov.2, hcons]
          · have hu : r.parent ∈ uncovered tbl := by
              unfold uncovered
              refine List.mem_map.mpr ⟨pr, List.mem_filter.mpr ⟨hprm, ?_⟩, hprn⟩
              simp [hpar, hcov]
            have he := h _ hu
            rw [hcons, he, hix]
            cases pr.initWrites <;> cases pr.exportReads <;> simp [hix]
      · simp only [hi]
        by_cases hcov : covered r = true
        · simp [hcov]
        · have hu : r.name ∈ uncovered tbl := by
            unfold uncovered
            refine List.mem_map.mpr ⟨r, List.mem_filter.mpr ⟨hr, ?_⟩, rfl⟩
            simp [hi, hcov]
          simp [hcov, h _ hu]

/-- non-vacuity: a table with a covered map, its index and an uncovered map; hypotheses of `roundtrip_iff` are satisfiable and the
right-hand side is a real condition (`b` must be empty). -/
def tblEx : List Row := [⟨"a", false, "", true, true⟩, ⟨"a.ix", true, "a", true, true⟩, ⟨"b", false, "", false, false⟩]
example : WellFormed tblEx := by decide
example : uncovered tblEx = ["b"] := by decide
example : importG tblEx (fun _ es => es) (exportG tblEx (fun n => if n = "b" then [] else [("k", "v")])) "a.ix" = [("k", "v")] := by decide
example : importG tblEx (fun _ es => es) (exportG tblEx (fun _ => [("k", "v")])) "b" = [] := by decide

/-! ### the regenerated table -/

def rowOf (r : Gen.Facts.PrefixRow) : Row :=
  { name := r.module ++ "/" ++ r.name
    isIndex := r.kind == "index"
    parent := r.module ++ "/" ++ r.parent
    initWrites := r.initWrites
    exportReads := r.exportReads }

def genTable : List Row := Gen.Facts.prefixTable.map rowOf

theorem genTable_wellFormed : WellFormed genTable := by decide

/-- S19, pinned: exactly these prefixes of the custom module stores do not survive `export` + `InitGenesis` on the current tree. -/
theorem uncovered_eq : uncovered genTable = [
    "da/ChallengeCounts", "da/FaultCounts", "da/Invalidities", "da/ProofDeputies",
    "liquiditypool/TickInfoKey",
    "selfdelegation/LockupAccounts", "selfdelegation/SelfDelegationProxies",
    "shareclass/Unbondings", "shareclass/UnbondingId", "shareclass/RewardMultiplier",
    "shareclass/UsersLastRewardMultiplier", "shareclass/LastRewardHandlingTime"] := by decide

/-- the full claim of the property, false on the current tree (see `uncovered_eq`) -/
def AllCovered : Prop := uncovered genTable = []

/-- corollary on the real table: a store of the custom modules survives export + import iff those twelve prefixes are empty -/
theorem roundtrip_current (ix : String → List Entry → List Entry) (hix : ∀ n, ix n [] = []) (st : Store)
    (hc : Consistent genTable ix st) :
    importG genTable ix (exportG genTable st) = st ↔ ∀ p ∈ uncovered genTable, st p = [] :=
  roundtrip_iff genTable genTable_wellFormed ix hix st hc

/-- every custom module has a row for its params and every module of the list occurs (the extractor did not silently skip one) -/
theorem every_module_has_params :
    ∀ m ∈ Gen.Facts.customModules, (Gen.Facts.prefixTable.any (fun r => r.module == m && r.name == "Params" && r.initWrites && r.exportReads)) = true := by
  decide

/-- EXPORT READS, AND IMPORT WRITES, WHOLE COLLECTIONS: the model's `exportG` copies every entry of a prefix that
    ExportGenesis reads (`exportReads`) and `importG` writes every exported entry.  That is true of the code only if no walk on
    the ExportGenesis / InitGenesis call paths can end before the collection does; the regenerated list of such places (walk
    callbacks that may answer "stop" without an error, breaks out of loops) is empty on the current tree. -/
theorem genesis_paths_never_stop_early : Gen.Facts.genesisEarlyExits = [] := by decide

/-- custom modules are initialised after the modules whose state their InitGenesis may read (bank, staking, auth) -/
theorem custom_init_after_bank_staking :
    ∀ m ∈ Gen.Facts.customModules,
      (Gen.Facts.orderInitGenesis.idxOf "cosmossdk.io/x/bank/types.ModuleName" < Gen.Facts.orderInitGenesis.idxOf m
       ∧ Gen.Facts.orderInitGenesis.idxOf "cosmossdk.io/x/staking/types.ModuleName" < Gen.Facts.orderInitGenesis.idxOf m
       ∧ Gen.Facts.orderInitGenesis.idxOf m < Gen.Facts.orderInitGenesis.length) := by
  decide

end Sunrise.C19
