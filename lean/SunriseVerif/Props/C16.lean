import SunriseVerif.Model.GovTally
import SunriseVerif.Lemmas.Dec
import Mathlib.Tactic.Ring
/-!
C16 — Governance tally ignores non-voting stake without distorting turnout.
Theorems about `Model/GovTally.lean` (the FIXED custom tally of app/gov/gov.go, tied to the code by the `govtally`
correspondence suite).  All statements are for arbitrary validator lists, delegation graphs, vote lists, weights.
-/
set_option linter.unusedSimpArgs false
set_option linter.unusedVariables false
namespace Sunrise.C16
open Sunrise Sunrise.GovTally

/-- the value of an `ok` result (for decidable examples; `Res` has no `DecidableEq`) -/
def okVal {α : Type} : Res α → Option α | .ok a => some a | _ => none

/-! ## generic fold facts -/

theorem foldl_inv {σ α : Type} (P : σ → Prop) (f : σ → α → σ) (h : ∀ s a, P s → P (f s a)) :
    ∀ (l : List α) (s : σ), P s → P (l.foldl f s) := by
  intro l
  induction l with
  | nil => intro s hs; exact hs
  | cons a l ih => intro s hs; exact ih _ (h s a hs)

/-! ## 1. votes of the share-class account are discarded -/

/-- `shareclass_vote_discarded`: the tally is the tally of the votes with every vote of the share-class account
    removed — whatever options and weights those votes carry, wherever they sit in the store. -/
theorem shareclass_vote_discarded (sc : String) (vs : List Val) (ds : List Deleg) (votes : List Vote) (bonded : Int) :
    tally sc vs ds votes bonded = tally sc vs ds (votes.filter (fun v => v.voter ≠ sc)) bonded := by
  have h : ∀ (votes : List Vote) (s : Acc),
      pass2 sc vs ds votes s = pass2 sc vs ds (votes.filter (fun v => v.voter ≠ sc)) s := by
    intro votes
    induction votes with
    | nil => intro s; rfl
    | cons v l ih =>
      intro s
      by_cases hv : v.voter = sc
      · have : step2 sc vs ds s v = s := by simp [step2, hv]
        simp only [pass2, List.foldl_cons, this, List.filter_cons, hv, ne_eq, not_true_eq_false, decide_false]
        exact ih s
      · simp only [pass2, List.foldl_cons, List.filter_cons, hv, ne_eq, not_false_eq_true, decide_true, if_true]
        exact ih _
  unfold tally finalAcc
  rw [h]

/-- corollary in the form of the property text: inserting ANY vote of the share-class account anywhere changes nothing -/
theorem nonvoting_adds_nothing_vote (sc : String) (vs : List Val) (ds : List Deleg) (v₁ v₂ : List Vote)
    (opts : List WOpt) (bonded : Int) :
    tally sc vs ds (v₁ ++ ⟨sc, opts⟩ :: v₂) bonded = tally sc vs ds (v₁ ++ v₂) bonded := by
  rw [shareclass_vote_discarded sc vs ds (v₁ ++ ⟨sc, opts⟩ :: v₂), shareclass_vote_discarded sc vs ds (v₁ ++ v₂)]
  simp [List.filter_append, List.filter_cons]

/-- non-vacuity: a share-class "yes" vote on a graph where it holds half the stake is really dropped -/
example : tally "sc" [{ addr := "a0", bonded := 6, shares := Dec.ofInt 6 }]
      [⟨"sc", "a0", Dec.ofInt 3⟩, ⟨"a0", "a0", Dec.ofInt 3⟩] [⟨"a0", [⟨3, Dec.one⟩]⟩, ⟨"sc", [⟨1, Dec.one⟩]⟩] 6
    = tally "sc" [{ addr := "a0", bonded := 6, shares := Dec.ofInt 6 }]
      [⟨"sc", "a0", Dec.ofInt 3⟩, ⟨"a0", "a0", Dec.ofInt 3⟩] [⟨"a0", [⟨3, Dec.one⟩]⟩] 6 :=
  shareclass_vote_discarded _ _ _ _ _

/-! ## 2. totality: no division by zero -/

theorem look_mem {vs : List Val} {k : String} {v : Val} (h : look vs k = some v) : v ∈ vs :=
  List.mem_of_find?_eq_some h

theorem step1_ok (sc : String) (vs : List Val) (hz : ∀ v ∈ vs, v.shares.raw ≠ 0) (s : Acc) (d : Deleg)
    (hs : s.ok = true) : (step1 sc vs s d).ok = true := by
  unfold step1
  by_cases hd : d.delegator ≠ sc
  · rw [if_pos hd]; exact hs
  · rw [if_neg hd]
    cases hl : look vs d.validator with
    | none => exact hs
    | some v => simp [hs, hz v (look_mem hl)]

theorem stepDel_ok (vs : List Val) (hz : ∀ v ∈ vs, v.shares.raw ≠ 0) (voter : String) (opts : List WOpt)
    (s : Acc) (d : Deleg) (hs : s.ok = true) : (stepDel vs voter opts s d).ok = true := by
  unfold stepDel
  by_cases hd : d.delegator ≠ voter
  · rw [if_pos hd]; exact hs
  · rw [if_neg hd]
    cases hl : look vs d.validator with
    | none => exact hs
    | some v => simp [hs, hz v (look_mem hl)]

theorem step2_ok (sc : String) (vs : List Val) (ds : List Deleg) (hz : ∀ v ∈ vs, v.shares.raw ≠ 0)
    (s : Acc) (vt : Vote) (hs : s.ok = true) : (step2 sc vs ds s vt).ok = true := by
  unfold step2
  by_cases hv : vt.voter = sc
  · rw [if_pos hv]; exact hs
  · rw [if_neg hv]
    apply foldl_inv (fun s => s.ok = true) _ (fun s a h => stepDel_ok vs hz _ _ s a h)
    cases look vs vt.voter <;> exact hs

/-- `tally_no_div_zero` (= `tally_total`): if every tallied validator has non-zero delegator shares, the tally
    returns a value — for every delegation graph, vote set and bonded total, in particular when ALL bonded stake is
    non-voting (denominator zero) or the non-voting amount exceeds the bonded total (denominator negative). -/
theorem tally_no_div_zero (sc : String) (vs : List Val) (ds : List Deleg) (votes : List Vote) (bonded : Int)
    (hz : ∀ v ∈ vs, v.shares.raw ≠ 0) :
    ∃ r, tally sc vs ds votes bonded = .ok r := by
  have h1 : (pass1 sc vs ds (Acc.init vs)).ok = true :=
    foldl_inv (fun s => s.ok = true) _ (fun s a h => step1_ok sc vs hz s a h) ds _ rfl
  have h2 : (finalAcc sc vs ds votes).ok = true :=
    foldl_inv (fun s => s.ok = true) _ (fun s a h => step2_ok sc vs ds hz s a h) votes _ h1
  have h3 : ok3 (finalAcc sc vs ds votes) vs = true := by
    unfold ok3
    rw [List.all_eq_true]
    intro v hv
    simp [hz v hv]
  unfold tally
  simp only [h2, h3, Bool.and_self, if_true]
  exact ⟨_, rfl⟩

/-- the converse direction of the guard: a panic can only come from a validator with zero shares -/
theorem tally_panic_only_zero_shares (sc : String) (vs : List Val) (ds : List Deleg) (votes : List Vote) (bonded : Int)
    (k : PanicKind) (h : tally sc vs ds votes bonded = .panic k) : ∃ v ∈ vs, v.shares.raw = 0 := by
  apply Classical.byContradiction
  intro hn
  have hz : ∀ v ∈ vs, v.shares.raw ≠ 0 := fun v hv h0 => hn ⟨v, hv, h0⟩
  obtain ⟨r, hr⟩ := tally_no_div_zero sc vs ds votes bonded hz
  rw [hr] at h
  cases h

/-- non-vacuity: all bonded stake non-voting (the original code divided by zero here), everybody votes -/
example : ∃ r, tally "sc" [{ addr := "a0", bonded := 5, shares := Dec.ofInt 5 }]
    [⟨"sc", "a0", Dec.ofInt 5⟩] [⟨"a0", [⟨1, Dec.one⟩]⟩] 5 = .ok r :=
  tally_no_div_zero _ _ _ _ _ (by decide)

/-! ## 3. the turnout formula -/

theorem acc_fst : ∀ (bs : List Ballot) (a : Dec × Results),
    (bs.foldl addBallot a).1 = bs.foldl (fun t b => t.add b.power) a.1 := by
  intro bs
  induction bs with
  | nil => intro a; rfl
  | cons b l ih => intro a; simp only [List.foldl_cons]; rw [ih]; rfl

theorem pass1_scBonded (sc : String) (vs : List Val) : ∀ (ds : List Deleg) (s : Acc),
    (pass1 sc vs ds s).scBonded = ds.foldl (fun t d => if d.delegator ≠ sc then t else
      match look vs d.validator with
      | none => t
      | some v => t.add (power d.shares v)) s.scBonded := by
  intro ds
  induction ds with
  | nil => intro s; rfl
  | cons d l ih =>
    intro s
    simp only [pass1, List.foldl_cons] at ih ⊢
    rw [ih]
    congr 1
    unfold step1
    by_cases hd : d.delegator ≠ sc
    · rw [if_pos hd, if_pos hd]
    · rw [if_neg hd, if_neg hd]
      cases look vs d.validator <;> rfl

theorem stepDel_scBonded (vs : List Val) (voter : String) (opts : List WOpt) (s : Acc) (d : Deleg) :
    (stepDel vs voter opts s d).scBonded = s.scBonded := by
  unfold stepDel
  by_cases hd : d.delegator ≠ voter
  · rw [if_pos hd]
  · rw [if_neg hd]; cases look vs d.validator <;> rfl

theorem step2_scBonded (sc : String) (vs : List Val) (ds : List Deleg) (s : Acc) (vt : Vote) :
    (step2 sc vs ds s vt).scBonded = s.scBonded := by
  unfold step2
  by_cases hv : vt.voter = sc
  · rw [if_pos hv]
  · rw [if_neg hv]
    exact foldl_inv (fun x : GovTally.Acc => x.scBonded = s.scBonded) (stepDel vs vt.voter vt.options)
      (fun x a h => by rw [stepDel_scBonded]; exact h) ds _ (by cases look vs vt.voter <;> rfl)

theorem finalAcc_scBonded (sc : String) (vs : List Val) (ds : List Deleg) (votes : List Vote) :
    (finalAcc sc vs ds votes).scBonded = nonVotingBonded sc vs ds := by
  have h2 : (finalAcc sc vs ds votes).scBonded = (pass1 sc vs ds (Acc.init vs)).scBonded :=
    foldl_inv (fun x : GovTally.Acc => x.scBonded = (pass1 sc vs ds (Acc.init vs)).scBonded) (step2 sc vs ds)
      (fun x a h => by rw [step2_scBonded]; exact h) votes _ rfl
  rw [h2, pass1_scBonded]
  rfl

/-- `turnout_formula`: the returned total voting power is the voting power that voted, rescaled by
    bonded / (bonded − nonVotingBonded) in LegacyDec arithmetic — the non-voting stake is NOT subtracted from the
    numerator a second time — and is returned unchanged when the denominator is not positive. -/
theorem turnout_formula (sc : String) (vs : List Val) (ds : List Deleg) (votes : List Vote) (bonded : Int)
    (tv : Dec) (res : Results) (h : tally sc vs ds votes bonded = .ok (tv, res)) :
    tv = rescale (votedVP sc vs ds votes) bonded (nonVotingBonded sc vs ds) := by
  simp only [tally] at h
  split at h
  · simp only [Res.ok.injEq, Prod.mk.injEq] at h
    rw [← h.1, finalAcc_scBonded]
    unfold accumulate votedVP sumPower allBallots
    rw [acc_fst]
  · cases h

/-- the formula spelled out, denominator positive: `totalVP = votedVP · bonded / (bonded − nonVotingBonded)` -/
theorem turnout_formula_pos (sc : String) (vs : List Val) (ds : List Deleg) (votes : List Vote) (bonded : Int)
    (tv : Dec) (res : Results) (h : tally sc vs ds votes bonded = .ok (tv, res))
    (hpos : ((Dec.ofInt bonded).sub (nonVotingBonded sc vs ds)).raw > 0) :
    tv = ((votedVP sc vs ds votes).mulInt bonded).quo ((Dec.ofInt bonded).sub (nonVotingBonded sc vs ds)) := by
  rw [turnout_formula sc vs ds votes bonded tv res h]
  unfold rescale Dec.isPositive
  simp [hpos]

/-- all bonded stake non-voting (or more): nothing is rescaled, nothing is divided -/
theorem turnout_all_nonvoting (sc : String) (vs : List Val) (ds : List Deleg) (votes : List Vote) (bonded : Int)
    (tv : Dec) (res : Results) (h : tally sc vs ds votes bonded = .ok (tv, res))
    (hnp : ((Dec.ofInt bonded).sub (nonVotingBonded sc vs ds)).raw ≤ 0) :
    tv = votedVP sc vs ds votes := by
  rw [turnout_formula sc vs ds votes bonded tv res h]
  unfold rescale Dec.isPositive
  have : ¬ ((Dec.ofInt bonded).sub (nonVotingBonded sc vs ds)).raw > 0 := by omega
  simp [this]

/-- non-vacuity (the S15 witness on the fixed code): one validator, half of the stake non-voting, everybody votes:
    voted power 3, non-voting 3, bonded 6 → turnout 6 = 100 % (the original code returned 0) -/
example : okVal (tally "sc" [{ addr := "a0", bonded := 6, shares := Dec.ofInt 6 }]
      [⟨"sc", "a0", Dec.ofInt 3⟩, ⟨"a0", "a0", Dec.ofInt 3⟩] [⟨"a0", [⟨1, Dec.one⟩]⟩] 6)
    = some (Dec.ofInt 6, { yes := Dec.ofInt 3 }) := by decide

/-! ## 4. the order of the Go map `validators` does not matter -/

theorem look_perm {vs₁ vs₂ : List Val} (p : vs₁.Perm vs₂) (nd : (vs₁.map Val.addr).Nodup) (k : String) :
    look vs₁ k = look vs₂ k := by
  induction p with
  | nil => rfl
  | cons x _ ih =>
    simp only [List.map_cons, List.nodup_cons] at nd
    simp only [look, List.find?_cons] at ih ⊢
    rw [ih nd.2]
  | swap x y l =>
    simp only [List.map_cons, List.nodup_cons, List.mem_cons, not_or] at nd
    simp only [look, List.find?_cons]
    by_cases hx : (x.addr == k) = true <;> by_cases hy : (y.addr == k) = true
    · exfalso
      have e1 : x.addr = k := by simpa using hx
      have e2 : y.addr = k := by simpa using hy
      exact nd.1.1 (e2.trans e1.symm)
    · simp [hx, hy]
    · simp [hx, hy]
    · simp [hx, hy]
  | trans p₁ _ ih₁ ih₂ =>
    rw [ih₁ nd, ih₂ ((p₁.map Val.addr).nodup_iff.mp nd)]

theorem finalAcc_congr (sc : String) (vs₁ vs₂ : List Val) (ds : List Deleg) (votes : List Vote)
    (h : look vs₁ = look vs₂) : finalAcc sc vs₁ ds votes = finalAcc sc vs₂ ds votes := by
  have e1 : step1 sc vs₁ = step1 sc vs₂ := by funext s d; simp only [step1, h]
  have e2 : stepDel vs₁ = stepDel vs₂ := by funext a b c d; simp only [stepDel, h]
  have e3 : step2 sc vs₁ ds = step2 sc vs₂ ds := by funext s vt; simp only [step2, h, e2]
  have e4 : Acc.init vs₁ = Acc.init vs₂ := by simp only [Acc.init, h]
  simp only [finalAcc, pass1, pass2, e1, e3, e4]

theorem dec_ext {a b : Dec} (h : a.raw = b.raw) : a = b := by
  cases a; cases b; simp only at h; subst h; rfl

theorem addTo_comm (r : Results) (k j : Nat) (x y : Dec) :
    (r.addTo k x).addTo j y = (r.addTo j y).addTo k x := by
  have hc : ∀ a : Dec, (a.add x).add y = (a.add y).add x := by
    intro a; apply dec_ext; simp only [Dec.add]; omega
  unfold Results.addTo
  by_cases k1 : k = 1 <;> by_cases k2 : k = 2 <;> by_cases k3 : k = 3 <;> by_cases k4 : k = 4 <;> by_cases k5 : k = 5 <;>
  by_cases j1 : j = 1 <;> by_cases j2 : j = 2 <;> by_cases j3 : j = 3 <;> by_cases j4 : j = 4 <;> by_cases j5 : j = 5 <;>
  first
  | omega
  | simp [k1, k2, k3, k4, k5, j1, j2, j3, j4, j5, hc]

def addW (r : Results) (e : Nat × Dec) : Results := r.addTo e.1 e.2

theorem optsFold_eq (p : Dec) (opts : List WOpt) (r : Results) :
    opts.foldl (fun r o => r.addTo o.opt (p.mul o.weight)) r
      = (opts.map (fun o => (o.opt, p.mul o.weight))).foldl addW r := by
  rw [List.foldl_map]; rfl

theorem foldl_comm1 {α β : Type} (f : β → α → β) (hf : ∀ z a b, f (f z a) b = f (f z b) a) :
    ∀ (ys : List α) (z : β) (x : α), ys.foldl f (f z x) = f (ys.foldl f z) x := by
  intro ys
  induction ys with
  | nil => intro z x; rfl
  | cons y l ih => intro z x; simp only [List.foldl_cons]; rw [hf z x y]; exact ih (f z y) x

theorem foldl_swap {α β : Type} (f : β → α → β) (hf : ∀ z a b, f (f z a) b = f (f z b) a) :
    ∀ (xs ys : List α) (z : β), ys.foldl f (xs.foldl f z) = xs.foldl f (ys.foldl f z) := by
  intro xs
  induction xs with
  | nil => intro ys z; rfl
  | cons x l ih => intro ys z; simp only [List.foldl_cons]; rw [ih ys (f z x), foldl_comm1 f hf ys z x]

theorem addBallot_comm (z : Dec × Results) (x y : Ballot) :
    addBallot (addBallot z x) y = addBallot (addBallot z y) x := by
  unfold addBallot
  simp only [optsFold_eq]
  refine Prod.ext ?_ ?_
  · apply dec_ext; simp only [Dec.add]; omega
  · exact foldl_swap addW (fun r a b => addTo_comm r a.1 b.1 a.2 b.2) _ _ _

/-- the accumulators (`totalVP`, `results`) do not depend on the order in which ballots are added -/
theorem accumulate_perm {b₁ b₂ : List Ballot} (p : b₁.Perm b₂) : accumulate b₁ = accumulate b₂ :=
  List.Perm.foldl_eq' p (fun x _ y _ z => addBallot_comm z x y) _

/-- `tally_perm`: `validators` is a Go map — whatever order `for _, val := range validators` takes (and whatever
    order the map was filled in), the tally returns the same total and the same option totals, bit for bit.
    (`Nodup`: the keys of a map are distinct.) -/
theorem tally_perm (sc : String) (vs₁ vs₂ : List Val) (ds : List Deleg) (votes : List Vote) (bonded : Int)
    (p : vs₁.Perm vs₂) (nd : (vs₁.map Val.addr).Nodup) :
    tally sc vs₁ ds votes bonded = tally sc vs₂ ds votes bonded := by
  have hl : look vs₁ = look vs₂ := funext (look_perm p nd)
  have hf := finalAcc_congr sc vs₁ vs₂ ds votes hl
  simp only [tally]
  rw [← hf]
  have h3 : ok3 (finalAcc sc vs₁ ds votes) vs₁ = ok3 (finalAcc sc vs₁ ds votes) vs₂ := p.all_eq
  have ha : accumulate ((finalAcc sc vs₁ ds votes).ballots ++ pass3 (finalAcc sc vs₁ ds votes) vs₁)
      = accumulate ((finalAcc sc vs₁ ds votes).ballots ++ pass3 (finalAcc sc vs₁ ds votes) vs₂) :=
    accumulate_perm ((p.filterMap _).append_left _)
  rw [h3, ha]

/-- non-vacuity: two voting validators in both orders -/
example : tally "sc" [{ addr := "a0", bonded := 6, shares := Dec.ofInt 6 }, { addr := "a1", bonded := 9, shares := Dec.ofInt 7 }]
      [⟨"sc", "a0", Dec.ofInt 3⟩, ⟨"a0", "a0", Dec.ofInt 3⟩, ⟨"a1", "a1", Dec.ofInt 7⟩]
      [⟨"a0", [⟨1, Dec.one⟩]⟩, ⟨"a1", [⟨3, Dec.one⟩]⟩] 15
    = tally "sc" [{ addr := "a1", bonded := 9, shares := Dec.ofInt 7 }, { addr := "a0", bonded := 6, shares := Dec.ofInt 6 }]
      [⟨"sc", "a0", Dec.ofInt 3⟩, ⟨"a0", "a0", Dec.ofInt 3⟩, ⟨"a1", "a1", Dec.ofInt 7⟩]
      [⟨"a0", [⟨1, Dec.one⟩]⟩, ⟨"a1", [⟨3, Dec.one⟩]⟩] 15 :=
  tally_perm _ _ _ _ _ _ (List.Perm.swap _ _ _) (by decide)

/-! ## 5. exactness when shares = tokens (validators that were never slashed) -/

theorem chopRoundNN_mul (z : Int) : Dec.chopRoundNN (z * PREC) = z := by
  have h1 : z * PREC % PREC = 0 := Int.mul_emod_left z PREC
  have h2 : z * PREC / PREC = z := Int.mul_ediv_cancel z (by decide : PREC ≠ 0)
  simp [Dec.chopRoundNN, h1, h2]

theorem chopRound_mul (y : Int) : Dec.chopRound (y * PREC) = y := by
  unfold Dec.chopRound
  by_cases h : y * PREC < 0
  · rw [if_pos h]
    have e : -(y * PREC) = (-y) * PREC := by rw [Int.neg_mul]
    rw [e, chopRoundNN_mul]; omega
  · rw [if_neg h, chopRoundNN_mul]

/-- `x · b / b = x` exactly in LegacyDec arithmetic (no rounding loss) for a positive integer `b` -/
theorem quo_mulInt_ofInt (x : Dec) (b : Int) (hb : 0 < b) : (x.mulInt b).quo (Dec.ofInt b) = x := by
  apply dec_ext
  simp only [Dec.quo, Dec.mulInt, Dec.ofInt, Dec.tquo]
  have hP : (0 : Int) < PREC := by decide
  have hne : b * PREC ≠ 0 := Int.ne_of_gt (Int.mul_pos hb hP)
  have e : x.raw * b * PREC * PREC = (x.raw * PREC) * (b * PREC) := by ring
  rw [e, Int.mul_tdiv_cancel _ hne, chopRound_mul]

/-- for a validator whose shares equal its tokens, the voting power of a delegation is exactly its shares -/
theorem power_eq_shares_of_unslashed (x : Dec) (v : Val) (hb : 0 < v.bonded) (hs : v.shares = Dec.ofInt v.bonded) :
    power x v = x := by
  unfold power; rw [hs]; exact quo_mulInt_ofInt x v.bonded hb

/-- with no non-voting stake the turnout is not rescaled at all: the custom tally returns the voted power itself -/
theorem rescale_no_nonvoting (t : Dec) (bonded : Int) (hb : 0 < bonded) : rescale t bonded Dec.zero = t := by
  have hP : (0 : Int) < PREC := by decide
  have hpos : ((Dec.ofInt bonded).sub Dec.zero).raw > 0 := by
    simp only [Dec.sub, Dec.ofInt, Dec.zero]; have := Int.mul_pos hb hP; omega
  have e : (Dec.ofInt bonded).sub Dec.zero = Dec.ofInt bonded := by
    apply dec_ext; simp only [Dec.sub, Dec.zero]; omega
  unfold rescale Dec.isPositive
  simp only [hpos, decide_true, if_true]
  rw [e]; exact quo_mulInt_ofInt t bonded hb

example : power (Dec.ofInt 3) { addr := "a0", bonded := 6, shares := Dec.ofInt 6 } = Dec.ofInt 3 :=
  power_eq_shares_of_unslashed _ _ (by decide) rfl

/-! ## 6. non-voting delegations add nothing to what voters contribute -/

/-- relation between the run on the full graph and the run on the graph without the share-class delegations -/
def SameVotes (s s' : GovTally.Acc) : Prop := s.ballots = s'.ballots ∧ s.vote = s'.vote

theorem stepDel_same (vs : List Val) (voter : String) (opts : List WOpt) (s s' : GovTally.Acc) (d : Deleg)
    (h : SameVotes s s') : SameVotes (stepDel vs voter opts s d) (stepDel vs voter opts s' d) := by
  unfold stepDel
  by_cases hd : d.delegator ≠ voter
  · rw [if_pos hd, if_pos hd]; exact h
  · rw [if_neg hd, if_neg hd]
    cases look vs d.validator with
    | none => exact h
    | some v => exact ⟨by simp only [h.1], h.2⟩

theorem inner_without (sc : String) (vs : List Val) (voter : String) (opts : List WOpt) (hv : voter ≠ sc) :
    ∀ (ds : List Deleg) (s s' : GovTally.Acc), SameVotes s s' →
      SameVotes (ds.foldl (stepDel vs voter opts) s) ((withoutSC sc ds).foldl (stepDel vs voter opts) s') := by
  intro ds
  induction ds with
  | nil => intro s s' h; exact h
  | cons d l ih =>
    intro s s' h
    by_cases hd : d.delegator = sc
    · have hne : d.delegator ≠ voter := fun e => hv (e.symm.trans hd)
      have e1 : stepDel vs voter opts s d = s := by unfold stepDel; rw [if_pos hne]
      have e2 : withoutSC sc (d :: l) = withoutSC sc l := by simp [withoutSC, List.filter_cons, hd]
      rw [List.foldl_cons, e1, e2]
      exact ih s s' h
    · have e2 : withoutSC sc (d :: l) = d :: withoutSC sc l := by simp [withoutSC, List.filter_cons, hd]
      rw [List.foldl_cons, e2, List.foldl_cons]
      exact ih _ _ (stepDel_same vs voter opts s s' d h)

theorem step1_same (sc : String) (vs : List Val) (s : GovTally.Acc) (d : Deleg) : SameVotes (step1 sc vs s d) s := by
  unfold step1
  by_cases hd : d.delegator ≠ sc
  · rw [if_pos hd]; exact ⟨rfl, rfl⟩
  · rw [if_neg hd]; cases look vs d.validator <;> exact ⟨rfl, rfl⟩

theorem step2_same (sc : String) (vs : List Val) (ds : List Deleg) (s s' : GovTally.Acc) (vt : Vote)
    (h : SameVotes s s') : SameVotes (step2 sc vs ds s vt) (step2 sc vs (withoutSC sc ds) s' vt) := by
  unfold step2
  by_cases hv : vt.voter = sc
  · rw [if_pos hv, if_pos hv]; exact h
  · rw [if_neg hv, if_neg hv]
    apply inner_without sc vs vt.voter vt.options hv
    cases look vs vt.voter with
    | none => exact h
    | some v => exact ⟨h.1, by simp only [h.2]⟩

/-- `nonvoting_adds_nothing` (voters' part, no hypothesis on shares or slashing): on the same validator set, the
    ballots the voters contribute (power and options, in order) and the votes recorded for validators are IDENTICAL
    on the delegation graph with the share-class account's delegations removed.  Share-class stake therefore enters
    the option totals in exactly one place: as a deduction from the remaining shares of a voting validator
    (`ballot3`), where it removes precisely the power the validator would otherwise inherit from it. -/
theorem voter_ballots_indep_of_shareclass (sc : String) (vs : List Val) (ds : List Deleg) (votes : List Vote) :
    (finalAcc sc vs ds votes).ballots = (finalAcc sc vs (withoutSC sc ds) votes).ballots
    ∧ (finalAcc sc vs ds votes).vote = (finalAcc sc vs (withoutSC sc ds) votes).vote := by
  have p1 : ∀ (l : List Deleg) (s : GovTally.Acc), SameVotes (pass1 sc vs l s) s := by
    intro l
    induction l with
    | nil => intro s; exact ⟨rfl, rfl⟩
    | cons d l ih =>
      intro s
      have a := ih (step1 sc vs s d)
      have b := step1_same sc vs s d
      exact ⟨a.1.trans b.1, a.2.trans b.2⟩
  have h0 : SameVotes (pass1 sc vs ds (Acc.init vs)) (pass1 sc vs (withoutSC sc ds) (Acc.init vs)) := by
    have a := p1 ds (Acc.init vs)
    have b := p1 (withoutSC sc ds) (Acc.init vs)
    exact ⟨a.1.trans b.1.symm, a.2.trans b.2.symm⟩
  have p2 : ∀ (l : List Vote) (s s' : GovTally.Acc), SameVotes s s' →
      SameVotes (pass2 sc vs ds l s) (pass2 sc vs (withoutSC sc ds) l s') := by
    intro l
    induction l with
    | nil => intro s s' h; exact h
    | cons v l ih => intro s s' h; exact ih _ _ (step2_same sc vs ds s s' v h)
  exact p2 votes _ _ h0

/-- without share-class delegations nothing is non-voting: `nonVotingBonded = 0` (and by `rescale_no_nonvoting` the
    turnout is the voted power itself) -/
theorem nonVotingBonded_without (sc : String) (vs : List Val) (ds : List Deleg) :
    nonVotingBonded sc vs (withoutSC sc ds) = Dec.zero := by
  unfold nonVotingBonded
  have : ∀ (l : List Deleg) (t : Dec), (withoutSC sc l).foldl (fun t d => if d.delegator ≠ sc then t else
      match look vs d.validator with
      | none => t
      | some v => t.add (power d.shares v)) t = t := by
    intro l
    induction l with
    | nil => intro t; rfl
    | cons d l ih =>
      intro t
      by_cases hd : d.delegator = sc
      · have e2 : withoutSC sc (d :: l) = withoutSC sc l := by simp [withoutSC, List.filter_cons, hd]
        rw [e2]; exact ih t
      · have e2 : withoutSC sc (d :: l) = d :: withoutSC sc l := by simp [withoutSC, List.filter_cons, hd]
        rw [e2, List.foldl_cons, if_pos hd]; exact ih t
  exact this ds _

/-- non-vacuity: the graph really contains a share-class delegation that is removed -/
example : withoutSC "sc" [⟨"sc", "a0", Dec.ofInt 3⟩, ⟨"a0", "a0", Dec.ofInt 3⟩] = [⟨"a0", "a0", Dec.ofInt 3⟩] := by decide

end Sunrise.C16
