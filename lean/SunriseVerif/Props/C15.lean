import SunriseVerif.Model.Untrusted
import SunriseVerif.Gen.FactsEntry
/-!
C15 — untrusted inputs are rejected with errors, never with panics.
Every theorem quantifies over ALL inputs of the modelled entry point (all JSON trees of any depth, all routes of any
nesting, all field values); nothing is bounded.
-/
namespace Sunrise.C15
open Sunrise Sunrise.Untrusted

/-! ### DecodeSwapMetadata -/

/-- T1. Decoding any memo (including non-JSON bytes, `none`) never panics. -/
theorem decode_no_panic (memo : Option J) : (decodeSwapMetadata memo).isPanic = false := by
  unfold decodeSwapMetadata
  repeat (first | rfl | split | (dsimp only; split))
  all_goals (unfold finishDecode; repeat (first | rfl | split))

/-- the successful results of decoding carry a `Swap` -/
def okHasSwap : Res PacketMeta → Prop
  | .ok m => m.swap.isSome = true
  | .err _ => True
  | .panic _ => True

theorem finish_okHasSwap (r : Pb PacketMeta) : okHasSwap (finishDecode r) := by
  unfold finishDecode
  cases r with
  | error e => simp [okHasSwap]
  | ok m => cases hs : m.swap <;> simp [okHasSwap, hs]

theorem decode_okHasSwap (memo : Option J) : okHasSwap (decodeSwapMetadata memo) := by
  unfold decodeSwapMetadata
  split
  · simp [okHasSwap]
  · split
    · simp [okHasSwap]
    · split
      · simp [okHasSwap]
      · split
        · simp [okHasSwap]
        · dsimp only
          split <;> first
            | (simp [okHasSwap]; done)
            | exact finish_okHasSwap _
            | (split <;> first | (simp [okHasSwap]; done) | exact finish_okHasSwap _)

/-- T2. A successfully decoded memo has a non-nil `Swap`: the middleware's `*m.Swap` cannot dereference nil. -/
theorem decode_ok_swap_present (memo : Option J) (m : PacketMeta) (h : decodeSwapMetadata memo = .ok m) :
    m.swap.isSome = true := by
  have := decode_okHasSwap memo
  rw [h] at this
  exact this

example : (decodeSwapMetadata none).cls = "err" := by decide
example : (decodeSwapMetadata (some (.ocons "swap" (.num "1") .onil))).cls = "err" := by decide

/-! ### Route.Validate -/

mutual
theorem validateRec_no_panic : ∀ r, hasNilStrategy r = false → (validateRec r).isPanic = false
  | .unknown _ _, _ => by simp [validateRec, Res.isPanic]
  | .pool _ _ _, _ => by simp [validateRec, Res.isPanic]
  | .poolNil _ _, _ => by simp [validateRec, Res.isPanic]
  | .seriesNil _ _, h => by simp [hasNilStrategy] at h
  | .parallelNil _ _, h => by simp [hasNilStrategy] at h
  | .series din dout rs, h => by
    unfold validateRec
    split
    · rfl
    · exact seriesLoop_no_panic rs din dout (by simpa [hasNilStrategy] using h)
  | .parallel din dout rs ws, h => by
    unfold validateRec
    split
    · rfl
    · split
      · rfl
      · rename_i hl
        exact parallelLoop_no_panic rs ws din dout (by simpa [hasNilStrategy] using h) (by simpa using hl)
theorem seriesLoop_no_panic : ∀ rs cur dout, hasNilStrategyList rs = false → (seriesLoop cur dout rs).isPanic = false
  | [], _, _, _ => by unfold seriesLoop; split <;> rfl
  | r :: rest, cur, dout, h => by
    have h1 : hasNilStrategy r = false ∧ hasNilStrategyList rest = false := by simpa [hasNilStrategyList] using h
    have hr := validateRec_no_panic r h1.1
    unfold seriesLoop
    split
    · split
      · rfl
      · exact seriesLoop_no_panic rest _ _ h1.2
    · rfl
    · rename_i k hk; rw [hk] at hr; simp [Res.isPanic] at hr
theorem parallelLoop_no_panic : ∀ rs ws din dout, hasNilStrategyList rs = false → rs.length = ws.length →
    (parallelLoop din dout rs ws).isPanic = false
  | [], _, _, _, _, _ => by unfold parallelLoop; rfl
  | _ :: _, [], _, _, _, hl => by simp at hl
  | r :: rest, w :: ws, din, dout, h, hl => by
    have h1 : hasNilStrategy r = false ∧ hasNilStrategyList rest = false := by simpa [hasNilStrategyList] using h
    have hr := validateRec_no_panic r h1.1
    unfold parallelLoop
    split
    · split
      · rfl
      · split
        · rfl
        · split
          · rfl
          · split
            · rfl
            · exact parallelLoop_no_panic rest ws din dout h1.2 (by simpa using hl)
    · rfl
    · rename_i k hk; rw [hk] at hr; simp [Res.isPanic] at hr
end

mutual
theorem reuse_no_panic : ∀ r seen, hasNilStrategy r = false → (reuse seen r).isPanic = false
  | .unknown _ _, _, _ => by simp [reuse, Res.isPanic]
  | .pool _ _ _, _, _ => by unfold reuse; split <;> rfl
  | .poolNil _ _, _, h => by simp [hasNilStrategy] at h
  | .seriesNil _ _, _, h => by simp [hasNilStrategy] at h
  | .parallelNil _ _, _, h => by simp [hasNilStrategy] at h
  | .series _ _ rs, seen, h => by
    unfold reuse; exact reuseList_no_panic rs seen (by simpa [hasNilStrategy] using h)
  | .parallel _ _ rs _, seen, h => by
    unfold reuse; exact reuseList_no_panic rs seen (by simpa [hasNilStrategy] using h)
theorem reuseList_no_panic : ∀ rs seen, hasNilStrategyList rs = false → (reuseList seen rs).isPanic = false
  | [], _, _ => by simp [reuseList, Res.isPanic]
  | r :: rest, seen, h => by
    have h1 : hasNilStrategy r = false ∧ hasNilStrategyList rest = false := by simpa [hasNilStrategyList] using h
    have hr := reuse_no_panic r seen h1.1
    unfold reuseList
    split
    · exact reuseList_no_panic rest _ h1.2
    · rfl
    · rename_i k hk; rw [hk] at hr; simp [Res.isPanic] at hr
end

mutual
/-- (as fixed) a route accepted by `validateRecursive` has no strategy wrapper without payload -/
theorem validateRec_ok_noNil : ∀ r, validateRec r = .ok () → hasNilStrategy r = false
  | .unknown _ _, h => by simp [validateRec] at h
  | .pool _ _ _, _ => by simp [hasNilStrategy]
  | .poolNil _ _, h => by simp [validateRec] at h
  | .seriesNil _ _, h => by simp [validateRec] at h
  | .parallelNil _ _, h => by simp [validateRec] at h
  | .series din dout rs, h => by
    unfold validateRec at h
    split at h
    · simp at h
    · simpa [hasNilStrategy] using seriesLoop_ok_noNil rs din dout h
  | .parallel din dout rs ws, h => by
    unfold validateRec at h
    split at h
    · simp at h
    · split at h
      · simp at h
      · simpa [hasNilStrategy] using parallelLoop_ok_noNil rs ws din dout h
theorem seriesLoop_ok_noNil : ∀ rs cur dout, seriesLoop cur dout rs = .ok () → hasNilStrategyList rs = false
  | [], _, _, _ => by simp [hasNilStrategyList]
  | r :: rest, cur, dout, h => by
    unfold seriesLoop at h
    split at h
    · rename_i u hv
      split at h
      · simp at h
      · have h1 := validateRec_ok_noNil r (by rw [hv])
        have h2 := seriesLoop_ok_noNil rest _ _ h
        simp [hasNilStrategyList, h1, h2]
    · simp at h
    · simp at h
theorem parallelLoop_ok_noNil : ∀ rs ws din dout, parallelLoop din dout rs ws = .ok () → hasNilStrategyList rs = false
  | [], _, _, _, _ => by simp [hasNilStrategyList]
  | _ :: _, [], _, _, h => by simp [parallelLoop] at h
  | r :: rest, w :: ws, din, dout, h => by
    unfold parallelLoop at h
    split at h
    · rename_i u hv
      split at h
      · simp at h
      · split at h
        · simp at h
        · split at h
          · simp at h
          · split at h
            · simp at h
            · have h1 := validateRec_ok_noNil r (by rw [hv])
              have h2 := parallelLoop_ok_noNil rest ws din dout h
              simp [hasNilStrategyList, h1, h2]
    · simp at h
    · simp at h
end

mutual
/-- (as fixed) `validateRecursive` never panics, nil payloads included -/
theorem validateRec_total : ∀ r, (validateRec r).isPanic = false
  | .unknown _ _ => by simp [validateRec, Res.isPanic]
  | .pool _ _ _ => by simp [validateRec, Res.isPanic]
  | .poolNil _ _ => by simp [validateRec, Res.isPanic]
  | .seriesNil _ _ => by simp [validateRec, Res.isPanic]
  | .parallelNil _ _ => by simp [validateRec, Res.isPanic]
  | .series din dout rs => by
    unfold validateRec
    split
    · rfl
    · exact seriesLoop_total rs din dout
  | .parallel din dout rs ws => by
    unfold validateRec
    split
    · rfl
    · split
      · rfl
      · rename_i hl
        exact parallelLoop_total rs ws din dout (by simpa using hl)
theorem seriesLoop_total : ∀ rs cur dout, (seriesLoop cur dout rs).isPanic = false
  | [], _, _ => by unfold seriesLoop; split <;> rfl
  | r :: rest, cur, dout => by
    have hr := validateRec_total r
    unfold seriesLoop
    split
    · split
      · rfl
      · exact seriesLoop_total rest _ _
    · rfl
    · rename_i k hk; rw [hk] at hr; simp [Res.isPanic] at hr
theorem parallelLoop_total : ∀ rs ws din dout, rs.length = ws.length → (parallelLoop din dout rs ws).isPanic = false
  | [], _, _, _, _ => by unfold parallelLoop; rfl
  | _ :: _, [], _, _, hl => by simp at hl
  | r :: rest, w :: ws, din, dout, hl => by
    have hr := validateRec_total r
    unfold parallelLoop
    split
    · split
      · rfl
      · split
        · rfl
        · split
          · rfl
          · split
            · rfl
            · exact parallelLoop_total rest ws din dout (by simpa using hl)
    · rfl
    · rename_i k hk; rw [hk] at hr; simp [Res.isPanic] at hr
end

/-- T3, FULL STRENGTH (after the route.go fixes): `Route.Validate` never panics — nil receiver, nil strategy payloads,
    invalid denoms, reused pools, empty series/parallel, mismatched or malformed weights, any nesting depth. -/
theorem route_validate_no_panic (r : Option Route) : (Route.validate r).isPanic = false := by
  cases r with
  | none => simp [Route.validate, Res.isPanic]
  | some r =>
    simp only [Route.validate]
    split
    · rfl
    · have h1 := validateRec_total r
      cases hv : validateRec r with
      | ok u =>
        have hn := validateRec_ok_noNil r (by rw [hv])
        have h2 := reuse_no_panic r [] hn
        cases hu : reuse [] r with
        | ok s => simp [recoverBlock, Res.isPanic]
        | err e => simp [recoverBlock, Res.isPanic]
        | panic k => rw [hu] at h2; simp [Res.isPanic] at h2
      | err e => simp [Res.isPanic]
      | panic k => rw [hv] at h1; simp [Res.isPanic] at h1

/-- T3 (partial: the extra hypothesis is spelled out). `Route.Validate` never panics on a route without nil strategy
    payloads — every route decoded from protobuf wire bytes is such a route; reused pools, empty series/parallel,
    mismatched weights, malformed or non-positive weight strings, any nesting depth included. The full statement is false
    (Witness/C15.lean): a Go-constructed `&Route_Pool{Pool: nil}` and a nil receiver dereference nil. -/
theorem route_validate_no_panic_partial (r : Route) (_h : hasNilStrategy r = false) :
    (Route.validate (some r)).isPanic = false := route_validate_no_panic (some r)

example : (Route.validate (some (.pool "uaaa" "ubbb" 1))).cls = "ok" := by decide
example : (Route.validate (some (.parallel "uaaa" "ubbb" [.pool "uaaa" "ubbb" 1, .pool "uaaa" "ubbb" 1] ["1", "1"]))).cls = "err" := by decide
example : (Route.validate (some (.parallel "uaaa" "ubbb" [.pool "uaaa" "ubbb" 1] ["0"]))).cls = "err" := by decide
example : (Route.validate (some (.series "uaaa" "ubbb" []))).cls = "err" := by decide

/-! ### ForwardMetadata.Validate / SwapMetadata.Validate -/

/-- T4. -/
theorem forward_validate_no_panic (f : Forward) : (f.validate).isPanic = false := by
  unfold Forward.validate
  repeat (first | rfl | split)

theorem seqRes_no_panic (a b : Res Unit) (ha : a.isPanic = false) (hb : b.isPanic = false) :
    (seqRes a b).isPanic = false := by
  unfold seqRes; cases a <;> simp_all [Res.isPanic]

theorem validateStrategy_no_panic (s : AmountStrategy) : (validateStrategy s).isPanic = false := by
  unfold validateStrategy
  split
  all_goals first
    | rfl
    | (split <;> first | rfl | (split <;> first | rfl | exact forward_validate_no_panic _))

/-- T5. `SwapMetadata.Validate` never panics, whatever jsonpb left nil (route, strategy wrapper payloads, custom-type
    Ints, nested nil route payloads at any depth). -/
theorem swapmeta_validate_no_panic (m : SwapMeta) : (m.validate).isPanic = false := by
  unfold SwapMeta.validate
  split
  · rfl
  · rename_i r _
    split
    · rfl
    · rename_i hn
      apply seqRes_no_panic _ _ (route_validate_no_panic_partial r (by simpa using hn))
      apply seqRes_no_panic _ _ (validateStrategy_no_panic _)
      split
      · rfl
      · exact forward_validate_no_panic _

example : (SwapMeta.validate { route := none }).cls = "err" := by decide
example : (SwapMeta.validate { route := some (.poolNil "uaaa" "ubbb") }).cls = "err" := by decide
example : (SwapMeta.validate { route := some (.pool "uaaa" "ubbb" 1), strategy := .exactIn (some none) }).cls = "err" := by decide
example : (SwapMeta.validate { route := some (.pool "uaaa" "ubbb" 1), strategy := .exactIn (some (some 5)) }).cls = "ok" := by decide

/-- T6. The whole memo path of the middleware (decode, `*m.Swap`, `Validate`) yields `ok` or `err`, never `panic`. -/
theorem memo_path_no_panic (memo : Option J) :
    (memoClasses memo).1 ≠ "panic" ∧ (memoClasses memo).2 ≠ "panic" := by
  unfold memoClasses
  have hd := decode_no_panic memo
  cases h : decodeSwapMetadata memo with
  | ok m =>
    have hp := decode_ok_swap_present memo m h
    cases hs : m.swap with
    | none => rw [hs] at hp; simp at hp
    | some s =>
      have hv := swapmeta_validate_no_panic s
      constructor
      · simp [hs]
      · cases hr : s.validate with
        | ok _ => simp [hs, hr, Res.cls]
        | err _ => simp [hs, hr, Res.cls]
        | panic k => rw [hr] at hv; simp [Res.isPanic] at hv
  | err e => simp [Res.cls]
  | panic k => rw [h] at hd; simp [Res.isPanic] at hd

/-! ### static heads of Msg / Query handlers -/

theorem needPositive_no_panic (x : Option Int) : (needPositive x).isPanic = false := by
  unfold needPositive intIsPositive
  repeat (first | rfl | contradiction | (simp_all; done) | split)

theorem needPresent_no_panic (x : Option Int) : (needPresent x).isPanic = false := by
  unfold needPresent; split <;> rfl

/-- T7. Msg/SwapExactAmountIn head. The route of a wire-decoded message has no nil payload (hypothesis = wire fact). -/
theorem head_swap_in_no_panic (m : MsgSwapIn) (h : hasNilStrategy m.route = false) :
    (headSwapExactAmountIn m).isPanic = false := by
  unfold headSwapExactAmountIn
  split; rfl
  split; rfl
  exact seqRes_no_panic _ _ (route_validate_no_panic_partial _ h)
    (seqRes_no_panic _ _ (needPresent_no_panic _) (seqRes_no_panic _ _ (needPresent_no_panic _)
      (seqRes_no_panic _ _ (needPositive_no_panic _) (needPositive_no_panic _))))

/-- T8. Msg/SwapExactAmountOut head. -/
theorem head_swap_out_no_panic (m : MsgSwapOut) (h : hasNilStrategy m.route = false) :
    (headSwapExactAmountOut m).isPanic = false := by
  unfold headSwapExactAmountOut
  split; rfl
  split; rfl
  exact seqRes_no_panic _ _ (route_validate_no_panic_partial _ h)
    (seqRes_no_panic _ _ (needPresent_no_panic _) (seqRes_no_panic _ _ (needPresent_no_panic _)
      (seqRes_no_panic _ _ (needPositive_no_panic _) (needPositive_no_panic _))))

/-- T9. Every interface fee rate that `Params.Validate` (as fixed) accepts has a non-zero divisor `1 - rate`. -/
theorem fee_rate_no_div_zero (rate : Int) (h : (paramsValidateFeeRate rate).isOk = true) :
    (interfaceFeeDivisor rate).isPanic = false := by
  unfold paramsValidateFeeRate at h
  unfold interfaceFeeDivisor
  split at h
  · simp [Res.isOk] at h
  · split at h
    · simp [Res.isOk] at h
    · simp only; split
      · omega
      · rfl

/-- T10. swap calculation queries (nil request, nil route, any amount string). -/
theorem head_query_swap_calc_no_panic (q : QuerySwapCalc)
    (h : ∀ r, q.route = some r → hasNilStrategy r = false) : (headQuerySwapCalc q).isPanic = false := by
  unfold headQuerySwapCalc
  split; rfl
  split
  · rfl
  · rename_i r hr
    apply seqRes_no_panic _ _ (route_validate_no_panic_partial _ (h r hr))
    repeat (first | rfl | split)

/-- T11. liquiditypool CalculationCreatePosition: tick strings of any size never reach `Int64()` out of range. -/
theorem head_calc_create_position_no_panic (q : QueryCalcCreatePosition) :
    (headCalcCreatePosition q).isPanic = false := by
  unfold headCalcCreatePosition
  split; rfl
  split
  · rename_i lo hi _ _
    split
    · rfl
    · rename_i hb
      have hlo : int64? lo = .ok lo := by unfold int64?; simp at hb; simp [hb.1, hb.2.1]
      have hhi : int64? hi = .ok hi := by unfold int64?; simp at hb; simp [hb.2.2.1, hb.2.2.2]
      rw [hlo, hhi]
      simp only
      repeat (first | rfl | split)
  · rfl

/-- T12. DA shard queries: with the max_shard_count bound the shuffle length is never negative. -/
theorem head_shard_query_no_panic (reqNil addrOk : Bool) (n mx : Nat) :
    (headShardQuery reqNil addrOk n mx).isPanic = false := by
  unfold headShardQuery shuffleLen
  repeat (first | rfl | split | omega)

/-- T13. single-amount messages (Convert, SelfDelegate, WithdrawSelfDelegationUnbonded, NonVotingDelegate). -/
theorem head_amount_msg_no_panic (ok : Bool) (a : Option Int) : (headAmountMsg ok a).isPanic = false := by
  unfold headAmountMsg; split
  · rfl
  · exact needPositive_no_panic a

/-- T14. CreatePosition / IncreaseLiquidity amounts. -/
theorem head_four_amounts_no_panic (ok : Bool) (a b c d : Option Int) : (headFourAmounts ok a b c d).isPanic = false := by
  unfold headFourAmounts
  repeat (first | rfl | split)

theorem safeAdd_no_panic (a b : Int) : (safeAdd a b).isPanic = false := by
  unfold safeAdd; split <;> rfl

theorem head_publish_data_no_panic (ok : Bool) (p h : Nat) : (headPublishData ok p h).isPanic = false := by
  unfold headPublishData
  repeat (first | rfl | split)

/-- T15. SubmitValidityProof index check as fixed by the DA engineer: any int64 index, negative included. -/
theorem head_proof_index_no_panic (n : Nat) (j : Int) : (headProofIndex n j).isPanic = false := by
  unfold headProofIndex
  repeat (first | rfl | split)

/-- T16. VoteGauge weights: any list of any strings; the running total stays below the number of weights, so the
    range-asserting `Add` cannot fire for any message that fits in a block (fewer than 2^190 weights). -/
theorem head_vote_gauge_no_panic (ok : Bool) (ws : List String) (t : Int)
    (h0 : 0 ≤ t) (hb : t + (ws.length : Int) * 10 ^ 18 < 2 ^ 256 * 10 ^ 18) :
    (headVoteGauge ok ws t).isPanic = false := by
  induction ws generalizing t with
  | nil => unfold headVoteGauge; repeat (first | rfl | split)
  | cons w ws ih =>
    unfold headVoteGauge
    split; rfl
    split
    · rfl
    · rename_i v _
      split
      · rfl
      · split
        · rfl
        · rename_i hv0 hv1
          have hlen : ((w :: ws).length : Int) = (ws.length : Int) + 1 := by simp
          rw [hlen] at hb
          have hadd : decAdd t v = .ok (t + v) := by
            unfold decAdd
            have : (t + v).natAbs < 2 ^ 256 * 10 ^ 18 := by
              omega
            simp [this]
          rw [hadd]
          simp only
          apply ih
          · omega
          · omega

theorem head_create_pool_no_panic (a b c : Bool) (f r o : Option Int) : (headCreatePool a b c f r o).isPanic = false := by
  unfold headCreatePool
  repeat (first | rfl | split)

example : (headAmountMsg true none).cls = "err" := by decide
example : (headAmountMsg true (some 5)).cls = "ok" := by decide
example : (headShardQuery false true (2 ^ 63) 256).cls = "err" := by decide
example : (headShardQuery false true 10 256).cls = "ok" := by decide
example : (headCalcCreatePosition { reqNil := false, lowerTick := some (-10), upperTick := some (2 ^ 70), amount := some 1 }).cls = "err" := by decide
example : (headCalcCreatePosition { reqNil := false, lowerTick := some (-10), upperTick := some 10, amount := some 1 }).cls = "ok" := by decide

/-! ### every service method is classified (regenerated list) -/

/-- exercised by the fuzzer on every run, not modelled: their handlers only look up stores with the request fields
    (after an address / request-nil check) or are pure parameter reads -/
def dynamicOnly : List String := [
  "da.Msg.UpdateParams", "da.Msg.SubmitInvalidity", "da.Msg.RegisterProofDeputy", "da.Msg.UnregisterProofDeputy",
  "da.Query.Params", "da.Query.PublishedData", "da.Query.AllPublishedData", "da.Query.ProofDeputy", "da.Query.ValidityProof",
  "da.Query.AllValidityProofs", "da.Query.Invalidity", "da.Query.AllInvalidity",
  "fee.Msg.UpdateParams", "fee.Query.Params",
  "liquidityincentive.Msg.UpdateParams", "liquidityincentive.Msg.CollectVoteRewards",
  "liquidityincentive.Query.Params", "liquidityincentive.Query.Epochs", "liquidityincentive.Query.Epoch",
  "liquidityincentive.Query.Gauges", "liquidityincentive.Query.Gauge", "liquidityincentive.Query.Votes", "liquidityincentive.Query.Vote",
  "liquiditypool.Msg.UpdateParams", "liquiditypool.Msg.DecreaseLiquidity", "liquiditypool.Msg.ClaimRewards",
  "liquiditypool.Query.Params", "liquiditypool.Query.Pools", "liquiditypool.Query.Pool", "liquiditypool.Query.Positions",
  "liquiditypool.Query.Position", "liquiditypool.Query.PoolPositions", "liquiditypool.Query.AddressPositions",
  "liquiditypool.Query.PositionFees", "liquiditypool.Query.CalculationIncreaseLiquidity",
  "selfdelegation.Msg.UpdateParams", "selfdelegation.Msg.RegisterLockupAccount",
  "selfdelegation.Query.Params", "selfdelegation.Query.SelfDelegationProxyAccountByOwner", "selfdelegation.Query.LockupAccountsByOwner",
  "shareclass.Msg.UpdateParams", "shareclass.Msg.NonVotingUndelegate", "shareclass.Msg.ClaimRewards", "shareclass.Msg.CreateValidator",
  "shareclass.Query.Params", "shareclass.Query.CalculateBondingAmount", "shareclass.Query.CalculateShare",
  "shareclass.Query.AddressBonded", "shareclass.Query.AddressUnbonding", "shareclass.Query.ClaimableRewards",
  "swap.Query.Params", "swap.Query.IncomingInFlightPackets", "swap.Query.IncomingInFlightPacket",
  "swap.Query.OutgoingInFlightPackets", "swap.Query.OutgoingInFlightPacket",
  "tokenconverter.Msg.UpdateParams", "tokenconverter.Query.Params"]

/-- T17. Every Msg/Query service method that the `*.pb.go` service descriptors declare (regenerated on every run) is either
    modelled (with a no-panic theorem above) or on the explicit dynamic-only list: a NEW handler fails this `decide`. -/
theorem all_entrypoints_classified :
    Sunrise.Gen.entrypoints.all (fun e => modelledEntrypoints.contains e || dynamicOnly.contains e) = true := by
  decide

/-- and nothing on the two lists is stale -/
theorem classified_lists_are_current :
    (modelledEntrypoints ++ dynamicOnly).all (fun e => Sunrise.Gen.entrypoints.contains e) = true := by
  decide

end Sunrise.C15
