import SunriseVerif.Lemmas.DA09
/-!
C09 — x/da tally and slash epoch (model: `Model/DA.lean`, tied to the Go code by the `da` correspondence suite).

"A challenged item is rejected exactly when the number of shards proven by enough distinct validators, plus the
parity shard count, is smaller than the shard count; repeating an index or proving twice does not count twice.
A validator's fault counter rises by one for an item exactly when it was assigned a shard that was proven safe and
did not prove it, independently of which other items are tallied in the same block and in what order; at epoch end
exactly the bonded, unjailed validators whose faults exceed the threshold share of challenges are slashed and
jailed, and counters are reset."

Sections: A prover sets, B safe shards and verdict, C fault counters (pure, then state level), D slash epoch.
Association lists stand for Go maps with random iteration order; the `_perm` theorems show the results do not
depend on that order.
-/
set_option linter.unusedSimpArgs false
set_option linter.unusedVariables false
namespace Sunrise.C09
open Sunrise Sunrise.DA

/-- "validator `v` proved index `i`" according to the stored proofs `ps` -/
def Proved (ps : List Proof) (v : Addr) (i : Int) : Prop := ∃ p ∈ ps, p.sender = v ∧ i ∈ p.indices

/-- concrete data for the non-vacuity examples: `v1` repeats index 0 inside one proof and proves index 1 twice -/
def exPs : List Proof :=
  [⟨"u", "v1", [0, 0, 1]⟩, ⟨"u", "v2", [0]⟩, ⟨"u", "v1", [1]⟩]
def exItem : Item := ⟨"u", .ch, 0, "pub", 2, 0, [], []⟩
def exAssign : Addr → List Int := fun v => if v = "v3" then [0] else if v = "v2" then [1] else []
def exActive : List Addr := ["v1", "v2", "v3"]
/-- concrete state with two challenged items `u` (proofs `exPs`) and `w`, and a verified item `z` -/
def exSt : St :=
  { (default : St) with
    params := ⟨0, 3 * PREC, 1, PREC / 2, 0, 1, 1, 1, 1, [], []⟩,
    items := [⟨"u", .ch, 0, "pub", 2, 0, [], []⟩, ⟨"w", .ch, 0, "pub", 2, 0, [], []⟩,
      ⟨"z", .ver, 0, "pub", 2, 0, [], []⟩],
    proofs := exPs ++ [⟨"w", "v1", [0]⟩, ⟨"w", "v2", [0]⟩] }
def exEnv : Env := ⟨exActive, fun _ => some (true, false), fun _ => exAssign, ["v1", "v2", "v3"]⟩

/-! ## A. the per-index prover sets are exactly the distinct validators -/

/-- A1 -/
theorem mem_submitted_iff (ps : List Proof) (i : Int) (v : Addr) :
    v ∈ subLookup (buildSubmitted ps) i ↔ ∃ p ∈ ps, p.sender = v ∧ i ∈ p.indices :=
  mem_subLookup_build ps i v

example : subLookup (buildSubmitted exPs) 0 = ["v1", "v2"] ∧ subLookup (buildSubmitted exPs) 1 = ["v1"] := by decide

/-- A2: prover sets and keys are duplicate-free; a key exists iff some proof contains the index; every stored
    set is non-empty and is the one `subLookup` returns -/
theorem submitted_nodup (ps : List Proof) (i : Int) :
    (subLookup (buildSubmitted ps) i).Nodup
    ∧ ((buildSubmitted ps).map (·.1)).Nodup
    ∧ (i ∈ (buildSubmitted ps).map (·.1) ↔ ∃ p ∈ ps, i ∈ p.indices)
    ∧ (∀ e ∈ buildSubmitted ps, e.2 ≠ [] ∧ e.2 = subLookup (buildSubmitted ps) e.1) := by
  have inv := subInv_build ps
  refine ⟨inv.valNodup i, inv.keysNodup, mem_keys_build ps i, ?_⟩
  intro e he
  have hl := lookup_of_mem_nodup _ inv.keysNodup e he
  have he2 : e.2 = subLookup (buildSubmitted ps) e.1 := by simp [subLookup, hl]
  refine ⟨?_, he2⟩
  rw [he2]
  exact inv.nonempty e.1 (List.mem_map.mpr ⟨e, he, rfl⟩)

example : (buildSubmitted exPs).map (·.1) = [0, 1] := by decide

/-! ## B. safe shards and verdict -/

/-- B1 -/
theorem mem_safe_iff (ps : List Proof) (x : Int) (i : Int) :
    i ∈ safeIndices (buildSubmitted ps) x ↔
      (∃ p ∈ ps, i ∈ p.indices) ∧ x ≤ ((subLookup (buildSubmitted ps) i).length : Int) * PREC := by
  rw [mem_safeIndices _ (subInv_build ps).keysNodup, mem_keys_build]

theorem safe_nodup (ps : List Proof) (x : Int) : (safeIndices (buildSubmitted ps) x).Nodup :=
  nodup_safeIndices _ (subInv_build ps).keysNodup x

example : safeIndices (buildSubmitted exPs) (2 * PREC) = [0] ∧ safeIndices (buildSubmitted exPs) PREC = [0, 1] := by
  decide

/-- B2 (companion): the `.safe` list of the tally is duplicate-free and holds exactly the indices that occur in a
    proof and whose number of distinct provers reaches `safeThreshold` -/
theorem safe_spec (rf : Int) (it : Item) (ps : List Proof) (active : List Addr) (assign : Addr → List Int) (i : Int) :
    (i ∈ (tallyOutcome rf it ps active assign).safe ↔
      (∃ p ∈ ps, i ∈ p.indices)
      ∧ safeThreshold rf it.shards it.parity ≤ ((subLookup (buildSubmitted ps) i).length : Int) * PREC)
    ∧ (tallyOutcome rf it ps active assign).safe.Nodup :=
  ⟨mem_safe_iff ps _ i, safe_nodup ps _⟩

/-- B2: rejected exactly when safe shards + parity shards < shards -/
theorem verdict_eq_spec (rf : Int) (it : Item) (ps : List Proof) (active : List Addr) (assign : Addr → List Int) :
    (tallyOutcome rf it ps active assign).rejected = true ↔
      ((tallyOutcome rf it ps active assign).safe.length : Int) + (it.parity : Int) < (it.shards : Int) := by
  simp [tallyOutcome]

example : (tallyOutcome (3 * PREC) exItem exPs exActive exAssign).rejected = true
    ∧ (tallyOutcome (3 * PREC) exItem exPs exActive exAssign).safe = [0] := by decide
example : (tallyOutcome PREC exItem exPs exActive exAssign).rejected = false
    ∧ (tallyOutcome PREC exItem exPs exActive exAssign).safe = [0, 1] := by decide

/-- B3: the stored count is the number of distinct validators that proved the index -/
theorem count_is_distinct_validators (ps : List Proof) (i : Int) (l : List Addr) (hl : l.Nodup)
    (hm : ∀ v, v ∈ l ↔ ∃ p ∈ ps, p.sender = v ∧ i ∈ p.indices) :
    l.length = (subLookup (buildSubmitted ps) i).length :=
  length_eq_of_nodup_of_mem_iff hl ((subInv_build ps).valNodup i) (fun v => by rw [hm, mem_submitted_iff])

example : ∃ l : List Addr, l.Nodup ∧ (∀ v, v ∈ l ↔ (v = "v2" ∨ v = "v1")) ∧ l.length = 2 :=
  ⟨["v2", "v1"], by decide, by intro v; simp, rfl⟩

/-- B2/B3 as a self-contained specification: for ANY duplicate-free enumeration `provers i` of the validators that
    proved `i` and ANY duplicate-free enumeration `safe` of the indices proven by enough of them, the verdict is
    `|safe| + parity < shards` -/
theorem verdict_spec_distinct (rf : Int) (it : Item) (ps : List Proof) (active : List Addr) (assign : Addr → List Int)
    (provers : Int → List Addr) (safe : List Int)
    (hp1 : ∀ i, (provers i).Nodup) (hp2 : ∀ i v, v ∈ provers i ↔ Proved ps v i)
    (hs1 : safe.Nodup)
    (hs2 : ∀ i, i ∈ safe ↔ (∃ v, Proved ps v i)
        ∧ safeThreshold rf it.shards it.parity ≤ ((provers i).length : Int) * PREC) :
    (tallyOutcome rf it ps active assign).rejected = true ↔
      (safe.length : Int) + (it.parity : Int) < (it.shards : Int) := by
  rw [verdict_eq_spec]
  have hlen : safe.length = (tallyOutcome rf it ps active assign).safe.length := by
    apply length_eq_of_nodup_of_mem_iff hs1 (safe_spec rf it ps active assign 0).2
    intro i
    rw [hs2, (safe_spec rf it ps active assign i).1,
      count_is_distinct_validators ps i (provers i) (hp1 i) (hp2 i)]
    constructor
    · rintro ⟨⟨v, p, hp, _, hi⟩, h⟩; exact ⟨⟨p, hp, hi⟩, h⟩
    · rintro ⟨⟨p, hp, hi⟩, h⟩; exact ⟨⟨p.sender, p, hp, rfl, hi⟩, h⟩
  rw [hlen]

/-- B4: only the validator/index incidence matters — repeated indices inside a proof, a validator proving the same
    index twice, and the order of proofs make no difference -/
theorem repeat_does_not_count_twice (rf : Int) (it : Item) (ps ps' : List Proof) (active : List Addr)
    (assign : Addr → List Int) (h : ∀ v i, Proved ps v i ↔ Proved ps' v i) :
    (∀ i, (subLookup (buildSubmitted ps) i).length = (subLookup (buildSubmitted ps') i).length)
    ∧ (∀ i, i ∈ (tallyOutcome rf it ps active assign).safe ↔ i ∈ (tallyOutcome rf it ps' active assign).safe)
    ∧ (tallyOutcome rf it ps active assign).safe.length = (tallyOutcome rf it ps' active assign).safe.length
    ∧ (tallyOutcome rf it ps active assign).rejected = (tallyOutcome rf it ps' active assign).rejected
    ∧ (∀ v, v ∈ (tallyOutcome rf it ps active assign).faulty ↔ v ∈ (tallyOutcome rf it ps' active assign).faulty) := by
  have hcnt : ∀ i, (subLookup (buildSubmitted ps) i).length = (subLookup (buildSubmitted ps') i).length := by
    intro i
    apply count_is_distinct_validators ps' i _ ((subInv_build ps).valNodup i)
    intro v
    rw [mem_submitted_iff]
    exact h v i
  have hidx : ∀ i, (∃ p ∈ ps, i ∈ p.indices) ↔ (∃ p ∈ ps', i ∈ p.indices) := by
    intro i
    constructor
    · rintro ⟨p, hp, hi⟩
      obtain ⟨q, hq, _, hqi⟩ := (h p.sender i).mp ⟨p, hp, rfl, hi⟩
      exact ⟨q, hq, hqi⟩
    · rintro ⟨p, hp, hi⟩
      obtain ⟨q, hq, _, hqi⟩ := (h p.sender i).mpr ⟨p, hp, rfl, hi⟩
      exact ⟨q, hq, hqi⟩
  have hsafe : ∀ i, i ∈ (tallyOutcome rf it ps active assign).safe ↔ i ∈ (tallyOutcome rf it ps' active assign).safe := by
    intro i
    rw [(safe_spec rf it ps active assign i).1, (safe_spec rf it ps' active assign i).1, hcnt i, hidx i]
  have hlen : (tallyOutcome rf it ps active assign).safe.length = (tallyOutcome rf it ps' active assign).safe.length :=
    length_eq_of_nodup_of_mem_iff (safe_spec rf it ps active assign 0).2 (safe_spec rf it ps' active assign 0).2 hsafe
  refine ⟨hcnt, hsafe, hlen, ?_, ?_⟩
  · have e1 := verdict_eq_spec rf it ps active assign
    have e2 := verdict_eq_spec rf it ps' active assign
    rw [hlen] at e1
    rw [Bool.eq_iff_iff]
    exact e1.trans e2.symm
  · intro v
    have hs' : ∀ i, i ∈ safeIndices (buildSubmitted ps) (safeThreshold rf it.shards it.parity) ↔
        i ∈ safeIndices (buildSubmitted ps') (safeThreshold rf it.shards it.parity) := hsafe
    simp only [tallyOutcome, mem_faultSet, mem_submitted_iff]
    constructor
    · rintro ⟨i, h1, h2, h3, h4⟩
      exact ⟨i, (hs' i).mp h1, h2, h3, fun hh => h4 ((h v i).mpr hh)⟩
    · rintro ⟨i, h1, h2, h3, h4⟩
      exact ⟨i, (hs' i).mpr h1, h2, h3, fun hh => h4 ((h v i).mp hh)⟩

/-- the three stored proofs of `exPs` have the same incidence as two clean ones -/
example : ∀ i, (subLookup (buildSubmitted exPs) i).length
    = (subLookup (buildSubmitted [⟨"u", "v2", [0]⟩, ⟨"u", "v1", [1, 0]⟩]) i).length := by
  intro i
  refine (repeat_does_not_count_twice 0 exItem exPs _ [] (fun _ => []) ?_).1 i
  intro v i
  simp [Proved, exPs]
  constructor
  · rintro (⟨rfl, h | h⟩ | ⟨rfl, h⟩ | ⟨rfl, h⟩) <;> simp [h]
  · rintro (⟨rfl, h⟩ | ⟨rfl, h | h⟩) <;> simp [h]

/-! ## C. faults -/

/-- C1: `v` is charged a fault for the item iff it is an active validator assigned some safe shard it did not prove -/
theorem fault_iff (rf : Int) (it : Item) (ps : List Proof) (active : List Addr) (assign : Addr → List Int) (v : Addr) :
    v ∈ (tallyOutcome rf it ps active assign).faulty ↔
      v ∈ active ∧ ∃ i ∈ assign v, i ∈ (tallyOutcome rf it ps active assign).safe
        ∧ ¬ (∃ p ∈ ps, p.sender = v ∧ i ∈ p.indices) := by
  simp only [tallyOutcome, mem_faultSet, mem_submitted_iff]
  constructor
  · rintro ⟨i, h1, h2, h3, h4⟩; exact ⟨h2, i, h3, h1, h4⟩
  · rintro ⟨h2, i, h3, h1, h4⟩; exact ⟨i, h1, h2, h3, h4⟩

theorem faulty_nodup (rf : Int) (it : Item) (ps : List Proof) (active : List Addr) (assign : Addr → List Int) :
    (tallyOutcome rf it ps active assign).faulty.Nodup := nodup_faultSet _ _ _ _

/-- `v3` was assigned safe shard 0 and did not prove it; `v2` was assigned shard 1, which is not safe -/
example : (tallyOutcome (3 * PREC) exItem exPs exActive exAssign).faulty = ["v3"] := by decide

/-- C2: the counter fold adds the multiplicity -/
theorem incFault_fold (l : List Addr) (f : Addr → Option Nat) (a : Addr) :
    (l.foldl incFault f) a = if a ∈ l then some ((f a).getD 0 + l.count a) else f a :=
  incFault_foldl l f a

/-- C2 corollary: a fault set is duplicate-free, so a charged validator's counter rises by exactly one and every
    other counter is untouched -/
theorem fault_rises_by_one (l : List Addr) (hl : l.Nodup) (f : Addr → Option Nat) (a : Addr) :
    (a ∈ l → (l.foldl incFault f) a = some ((f a).getD 0 + 1))
    ∧ (a ∉ l → (l.foldl incFault f) a = f a) := by
  rw [incFault_fold, count_of_nodup hl a]
  constructor
  · intro h; simp [h]
  · intro h; simp [h]

example : (["v3"].foldl incFault (fun a => if a = "v3" then some 4 else none)) "v3" = some 5
    ∧ (["v3"].foldl incFault (fun a => if a = "v3" then some 4 else none)) "v1" = none := by decide

/-- C3: the order inside one fault set is irrelevant -/
theorem incFault_perm (l l' : List Addr) (h : l.Perm l') (f : Addr → Option Nat) :
    l.foldl incFault f = l'.foldl incFault f := incFault_foldl_perm h f

example : ["a", "b"].Perm ["b", "a"] := List.Perm.swap _ _ _

/-- the counter updates of several tallied items, one fault set each -/
def applyFaults (sets : List (List Addr)) (f : Addr → Option Nat) : Addr → Option Nat :=
  sets.foldl (fun f l => l.foldl incFault f) f

/-- C3: the order in which the items of a block are tallied is irrelevant for the counters -/
theorem applyFaults_perm (sets sets' : List (List Addr)) (h : sets.Perm sets') (f : Addr → Option Nat) :
    applyFaults sets f = applyFaults sets' f := applyFaults_raw_perm h f

theorem applyFaults_count (sets : List (List Addr)) (f : Addr → Option Nat) (a : Addr) :
    (applyFaults sets f) a
      = if ∃ l ∈ sets, a ∈ l then some ((f a).getD 0 + (sets.map (fun l => l.count a)).sum) else f a :=
  applyFaults_raw_count sets f a

/-- with duplicate-free fault sets the increment is the number of items whose fault set contains `a` -/
theorem applyFaults_count_nodup (sets : List (List Addr)) (hn : ∀ l ∈ sets, l.Nodup) (f : Addr → Option Nat) (a : Addr) :
    (applyFaults sets f) a
      = if ∃ l ∈ sets, a ∈ l then some ((f a).getD 0 + (sets.filter (fun l => decide (a ∈ l))).length) else f a := by
  rw [applyFaults_count, sum_count_of_nodup sets hn a]

example : applyFaults [["a", "b"], ["b"], ["c"]] (fun _ => none) "b" = some 2
    ∧ applyFaults [["c"], ["b"], ["a", "b"]] (fun _ => none) "b" = some 2
    ∧ applyFaults [["a", "b"], ["b"], ["c"]] (fun _ => none) "d" = none := by decide

/-! ### C4. state level -/

/-- a successful tally of a challenged item counts one challenge and charges exactly the item's fault set -/
theorem tallyOne_counters (env : Env) (s s' : St) (u : String) (it : Item)
    (hf : findItem s u = some it) (hs : it.status = .ch) (hok : tallyOne env s u = .ok s') :
    s'.chal = s.chal + 1
    ∧ s'.faults = (tallyOutcome s.params.rf it (proofsOf s u) env.active (env.assign u)).faulty.foldl incFault s.faults := by
  obtain ⟨h1, h2, _⟩ := tallyOne_ch env s s' u it hf hs hok
  exact ⟨h1, h2⟩

/-- C1+C2+C4 combined: when a challenged item is tallied, the counter of `v` rises by exactly one if `v` is an active
    validator that was assigned a safe shard and did not prove it, and is unchanged otherwise -/
theorem fault_counter_rises_iff (env : Env) (s s' : St) (u : String) (it : Item)
    (hf : findItem s u = some it) (hs : it.status = .ch) (hok : tallyOne env s u = .ok s') (v : Addr) :
    ((v ∈ env.active ∧ ∃ i ∈ env.assign u v,
          i ∈ (tallyOutcome s.params.rf it (proofsOf s u) env.active (env.assign u)).safe
          ∧ ¬ (∃ p ∈ proofsOf s u, p.sender = v ∧ i ∈ p.indices))
        → s'.faults v = some ((s.faults v).getD 0 + 1))
    ∧ (¬ (v ∈ env.active ∧ ∃ i ∈ env.assign u v,
          i ∈ (tallyOutcome s.params.rf it (proofsOf s u) env.active (env.assign u)).safe
          ∧ ¬ (∃ p ∈ proofsOf s u, p.sender = v ∧ i ∈ p.indices))
        → s'.faults v = s.faults v) := by
  obtain ⟨_, h2⟩ := tallyOne_counters env s s' u it hf hs hok
  have hr := fault_rises_by_one _ (faulty_nodup s.params.rf it (proofsOf s u) env.active (env.assign u)) s.faults v
  rw [← fault_iff, h2]
  exact hr

/-- the hypotheses hold for item `u` of `exSt`: found, challenged, tally succeeds, one more challenge counted -/
example : (findItem exSt "u").map (·.status) = some .ch ∧ (tallyOne exEnv exSt "u").isOk = true
    ∧ (match tallyOne exEnv exSt "u" with | .ok a => a.chal | _ => 0) = exSt.chal + 1 := by decide

/-- an absent item or one that is not in the challenging state is skipped -/
theorem tallyOne_skip (env : Env) (s : St) (u : String)
    (h : findItem s u = none ∨ ∃ it, findItem s u = some it ∧ it.status ≠ .ch) : tallyOne env s u = .ok s := by
  cases h with
  | inl h => exact tallyOne_none env s u h
  | inr h => obtain ⟨it, h1, h2⟩ := h; exact tallyOne_not_ch env s u it h1 h2

example : (findItem exSt "nope").isNone = true ∧ (findItem exSt "z").map (·.status) = some .ver := by decide

/-- the remaining effect on the DA stores: the item's verdict is recorded, its proofs and invalidities are deleted -/
theorem tallyOne_stores (env : Env) (s s' : St) (u : String) (it : Item)
    (hf : findItem s u = some it) (hs : it.status = .ch) (hok : tallyOne env s u = .ok s') :
    s'.proofs = s.proofs.filter (fun x => !(x.uri == u))
    ∧ s'.invs = s.invs.filter (fun x => !(x.uri == u))
    ∧ s'.params = s.params
    ∧ s'.items = setItem s.items { it with
        status := if (tallyOutcome s.params.rf it (proofsOf s u) env.active (env.assign u)).rejected then .rej else .ver,
        ts := s.now } := by
  obtain ⟨_, _, h3, h4, h5, _, _, _, h9⟩ := tallyOne_ch env s s' u it hf hs hok
  exact ⟨h3, h4, h5, h9⟩

example : (match tallyOne exEnv exSt "u" with
    | .ok a => (a.proofs.map (·.uri), a.items.map (fun x => (x.uri, x.status)))
    | _ => ([], [])) = (["w", "w"], [("u", .rej), ("w", .ch), ("z", .ver)]) := by decide

/-- the tally of one item neither reads nor changes what the tally of another item depends on -/
theorem tallyOne_other_proofs (env : Env) (s s' : St) (u u' : String) (hne : u' ≠ u)
    (hok : tallyOne env s u' = .ok s') :
    proofsOf s' u = proofsOf s u ∧ s'.params = s.params ∧ findItem s' u = findItem s u :=
  tallyOne_other env s s' u u' hne hok

example : (match tallyOne exEnv exSt "w" with | .ok a => (proofsOf a "u").length | _ => 0) = 3
    ∧ (proofsOf exSt "u").length = 3 := by decide

/-- the fault set / challenge an item contributes, as a function of the state it is tallied in -/
theorem itemFaults_eq (env : Env) (s : St) (u : String) :
    (∀ it, findItem s u = some it → it.status = .ch →
      itemFaults env s u = (tallyOutcome s.params.rf it (proofsOf s u) env.active (env.assign u)).faulty
      ∧ itemChal s u = 1)
    ∧ ((findItem s u = none ∨ ∃ it, findItem s u = some it ∧ it.status ≠ .ch) →
      itemFaults env s u = [] ∧ itemChal s u = 0) := by
  constructor
  · intro it hf hs; simp [itemFaults, itemChal, hf, hs]
  · rintro (hf | ⟨it, hf, hs⟩)
    · simp [itemFaults, itemChal, hf]
    · simp [itemFaults, itemChal, hf, hs]

example : itemFaults exEnv exSt "u" = ["v3"] ∧ itemChal exSt "u" = 1
    ∧ itemFaults exEnv exSt "z" = [] ∧ itemChal exSt "z" = 0 := by decide

/-- a block's tally over distinct uris: every item contributes the fault set (and the challenge) it has in the state
    at the START of the tally, whatever else is tallied before it -/
theorem tallyList_counters (env : Env) (us : List String) (s s' : St) (hn : us.Nodup)
    (hok : tallyList env us s = .ok s') :
    s'.faults = applyFaults (us.map (itemFaults env s)) s.faults
    ∧ s'.chal = s.chal + (us.map (itemChal s)).sum :=
  tallyList_spec env us s s' hn hok

theorem itemFaults_nodup (env : Env) (s : St) (u : String) : (itemFaults env s u).Nodup := by
  unfold itemFaults
  split
  · split
    · exact faulty_nodup _ _ _ _ _
    · simp
  · simp

/-- block level: after tallying distinct uris, a validator's counter has risen by the number of tallied items whose
    fault set (computed in the start state) contains it -/
theorem tallyList_fault_count (env : Env) (us : List String) (s s' : St) (hn : us.Nodup)
    (hok : tallyList env us s = .ok s') (a : Addr) :
    s'.faults a = if ∃ u ∈ us, a ∈ itemFaults env s u
      then some ((s.faults a).getD 0 + (us.filter (fun u => decide (a ∈ itemFaults env s u))).length)
      else s.faults a := by
  rw [(tallyList_counters env us s s' hn hok).1, applyFaults_count_nodup]
  · simp only [List.filter_map, List.length_map, Function.comp_def]
    have e : (∃ l, l ∈ List.map (itemFaults env s) us ∧ a ∈ l) ↔ ∃ u, u ∈ us ∧ a ∈ itemFaults env s u := by
      constructor
      · rintro ⟨l, hl, ha⟩
        obtain ⟨u, hu, rfl⟩ := List.mem_map.mp hl
        exact ⟨u, hu, ha⟩
      · rintro ⟨u, hu, ha⟩
        exact ⟨_, List.mem_map.mpr ⟨u, hu, rfl⟩, ha⟩
    by_cases h : ∃ u, u ∈ us ∧ a ∈ itemFaults env s u
    · rw [if_pos h, if_pos (e.mpr h)]
    · rw [if_neg h, if_neg (fun h' => h (e.mp h'))]
  · intro l hl
    obtain ⟨u, _, rfl⟩ := List.mem_map.mp hl
    exact itemFaults_nodup env s u

/-- order independence, two items -/
theorem fault_order_independent (env : Env) (s s1 s2 : St) (u u' : String) (hne : u ≠ u')
    (h1 : tallyList env [u, u'] s = .ok s1) (h2 : tallyList env [u', u] s = .ok s2) :
    s1.faults = s2.faults ∧ s1.chal = s2.chal := by
  have n1 : [u, u'].Nodup := by simp [hne]
  have n2 : [u', u].Nodup := by simp; exact fun e => hne e.symm
  obtain ⟨a1, a2⟩ := tallyList_counters env _ s s1 n1 h1
  obtain ⟨b1, b2⟩ := tallyList_counters env _ s s2 n2 h2
  refine ⟨?_, ?_⟩
  · rw [a1, b1]
    exact applyFaults_perm _ _ (List.Perm.swap _ _ _) _
  · rw [a2, b2]; simp only [List.map_cons, List.map_nil, List.sum_cons, List.sum_nil]; omega

/-- order independence, any permutation of a duplicate-free list of uris -/
theorem fault_order_independent_perm (env : Env) (s s1 s2 : St) (us us' : List String) (hn : us.Nodup)
    (hp : us.Perm us') (h1 : tallyList env us s = .ok s1) (h2 : tallyList env us' s = .ok s2) :
    s1.faults = s2.faults ∧ s1.chal = s2.chal := by
  obtain ⟨a1, a2⟩ := tallyList_counters env _ s s1 hn h1
  obtain ⟨b1, b2⟩ := tallyList_counters env _ s s2 (hp.nodup_iff.mp hn) h2
  refine ⟨?_, ?_⟩
  · rw [a1, b1]
    exact applyFaults_perm _ _ (hp.map _) _
  · rw [a2, b2, (hp.map (itemChal s)).sum_nat]


/-- observation of a tally result: (faults of v3, faults of v1, challenge count), `none` unless it succeeded -/
def obs : Res St → Option (Option Nat × Option Nat × Nat)
  | .ok a => some (a.faults "v3", a.faults "v1", a.chal)
  | _ => none

/-- both orders (and one with the skipped item `z` in between) succeed and charge `v3` twice -/
example : obs (tallyList exEnv ["u", "w"] exSt) = some (some 2, none, 2)
    ∧ obs (tallyList exEnv ["w", "u"] exSt) = some (some 2, none, 2)
    ∧ obs (tallyList exEnv ["w", "z", "u"] exSt) = some (some 2, none, 2) := by decide

/-! ## D. slash epoch -/

/-- D1: the threshold is the ceiling of `sft · chal` (as a raw 18-decimal number) -/
theorem slashThreshold_is_ceil (sft : Int) (c : Nat) :
    sft * (c : Int) ≤ slashThreshold sft c * PREC ∧ (slashThreshold sft c - 1) * PREC < sft * (c : Int) := by
  unfold slashThreshold
  exact slashThreshold_ceil (sft * (c : Int))

example : slashThreshold (PREC / 2) 4 = 2 ∧ slashThreshold (PREC / 2) 5 = 3 := by decide

/-- D2: exactly the owners that have a counter, are found bonded and unjailed, and whose faults exceed the threshold
    are slashed and jailed -/
theorem slash_iff (env : Env) (s : St) (v : Addr) :
    v ∈ (slashEpoch env s).2 ↔
      v ∈ env.owners ∧ ∃ cnt : Nat, s.faults v = some cnt ∧ env.valInfo v = some (true, false)
        ∧ slashThreshold s.params.sft s.chal < (cnt : Int) := by
  unfold slashEpoch
  dsimp only
  rw [(slashFold_spec env _ env.owners (s.faults, [])).2 v]
  simp

/-- nobody is slashed twice in one epoch -/
theorem slashed_nodup (env : Env) (s : St) : (slashEpoch env s).2.Nodup := by
  unfold slashEpoch
  exact slashFold_nodup env _ env.owners (s.faults, []) ⟨by simp, by simp⟩

/-- D2: the challenge counter is reset; the counter of every owner the staking module knows is deleted, all other
    counters are kept -/
theorem slash_resets (env : Env) (s : St) :
    (slashEpoch env s).1.chal = 0
    ∧ (∀ v, v ∈ env.owners → env.valInfo v ≠ none → (slashEpoch env s).1.faults v = none)
    ∧ (∀ v, (v ∉ env.owners ∨ env.valInfo v = none) → (slashEpoch env s).1.faults v = s.faults v) := by
  have h := (slashFold_spec env (slashThreshold s.params.sft s.chal) env.owners (s.faults, [])).1
  refine ⟨rfl, ?_, ?_⟩
  · intro v h1 h2
    show (env.owners.foldl (slashOne env _) (s.faults, [])).1 v = none
    rw [h v]; simp [h1, h2]
  · intro v hv
    show (env.owners.foldl (slashOne env _) (s.faults, [])).1 v = s.faults v
    rw [h v]
    cases hv with
    | inl hv => simp [hv]
    | inr hv => simp [hv]

/-- if every stored counter belongs to a listed owner known to staking, no counter survives the epoch -/
theorem slash_resets_all (env : Env) (s : St)
    (hown : ∀ v, s.faults v ≠ none → v ∈ env.owners ∧ env.valInfo v ≠ none) (v : Addr) :
    (slashEpoch env s).1.faults v = none := by
  obtain ⟨_, h2, h3⟩ := slash_resets env s
  by_cases hv : v ∈ env.owners ∧ env.valInfo v ≠ none
  · exact h2 v hv.1 hv.2
  · have hn : s.faults v = none := by
      cases hs : s.faults v with
      | none => rfl
      | some c => exact absurd (hown v (by simp [hs])) hv
    rw [h3 v, hn]
    by_cases h1 : v ∈ env.owners
    · right
      cases hi : env.valInfo v with
      | none => rfl
      | some x => exact absurd ⟨h1, by simp [hi]⟩ hv
    · exact Or.inl h1

/-- the slash epoch touches nothing but the two counters -/
theorem slash_frame (env : Env) (s : St) :
    (slashEpoch env s).1.bank = s.bank ∧ (slashEpoch env s).1.items = s.items ∧ (slashEpoch env s).1.invs = s.invs
    ∧ (slashEpoch env s).1.proofs = s.proofs ∧ (slashEpoch env s).1.params = s.params
    ∧ (slashEpoch env s).1.deps = s.deps ∧ (slashEpoch env s).1.now = s.now
    ∧ (slashEpoch env s).1.height = s.height ∧ (slashEpoch env s).1.dust = s.dust :=
  ⟨rfl, rfl, rfl, rfl, rfl, rfl, rfl, rfl, rfl⟩

/-- 4 challenges, threshold share 0.5 ⇒ more than 2 faults are slashed: `v1` (3 faults) is, `v2` (2 faults) and
    the jailed `v3` (9 faults) are not; all three counters are deleted -/
def exSlashSt : St :=
  { (default : St) with
    params := ⟨0, PREC, 1, PREC / 2, 0, 1, 1, 1, 1, [], []⟩, chal := 4,
    faults := fun a => if a = "v1" then some 3 else if a = "v2" then some 2 else if a = "v3" then some 9 else none }
def exSlashEnv : Env :=
  ⟨[], fun a => if a = "v3" then some (true, true) else some (true, false), fun _ _ => [], ["v1", "v2", "v3"]⟩

example : (slashEpoch exSlashEnv exSlashSt).2 = ["v1"]
    ∧ (slashEpoch exSlashEnv exSlashSt).1.chal = 0
    ∧ (slashEpoch exSlashEnv exSlashSt).1.faults "v1" = none
    ∧ (slashEpoch exSlashEnv exSlashSt).1.faults "v2" = none
    ∧ (slashEpoch exSlashEnv exSlashSt).1.faults "v3" = none := by decide

end Sunrise.C09
