import SunriseVerif.Props.C04Store
import SunriseVerif.Props.C04Interval
import SunriseVerif.Props.C05Loop

/-!
C05 at the STORE level: the hypotheses of `Props/C05Loop.lean` about the tick iterator (`IterOK`, `TicksWithin`) are
discharged from the proved store invariant `C04StoreL.Inv` plus explicit grid / coverage assumptions, so that the C05
conclusions hold for `computeSwap` on reachable store states with NO hypothesis about `tickIter` left.

DERIVED from the proved store invariant `C04StoreL.Inv s` (ticks strictly sorted by (pool, tick); net = Σ lower − Σ upper;
gross = Σ lower + Σ upper; active liquidity = Σ in-range; positions have liq > 0 and lower < upper):
  1. `tickIter_sorted`     the iterator is strictly monotone in the trade direction, sound and complete w.r.t. the stored
                           ticks of the pool beyond the cursor (bfq: tick ≤ cur, descending; qfb: tick > cur, ascending)
  2. `cross_liq`, `pathLiq` after crossing a tick the running liquidity `l ± net` equals Σ liquidity of the positions in
                           range at the new cursor (`actLiq`), hence ≥ 0; `bucket_liq`: it is 0 or ≥ Lmin when the bucket is
                           `BucketOK` (no position in range, or one of liquidity ≥ Lmin — a statement about positions only);
                           `covered_one`: with Lmin = 1 `Covered` FOLLOWS from `Inv` (every position has liq.raw ≥ 1)
ASSUMED (documented boundary assumptions)
  * `GridOK tp s pool cur`  the tick → sqrt-price map is strictly increasing on {cur, cur+1} ∪ stored ticks of the pool
                            (where it is defined), and the prices of `cur` and of the stored ticks are within
                            [MinSqrtPrice, MaxSqrtPrice]  (= `C04Interval.Mono` / `CLCustody.GridOK` style grid fact)
  * `C04Interval.Within p.tp p.sqrtP p.tick`   the price-in-interval invariant of the pool (established by
                            `createPosition_first`, preserved by `swapExactIn_within` / `swapExactOut_within`)
  * `Covered s pool Lmin cur bfq` for Lmin > 1 (only needed for quote-for-base exact-out, through `hbig`)
  * numeric side conditions of C05Loop that are NOT derivable: `hge1` (bfq exact-in: limit ≥ 1.0; a real counterexample
    exists below 1.0: `C05Loop.bfq_outGivenIn_against_trade`) and `hbig` (qfb exact-out: non-degenerate buckets).
  3. `iterOK_store`, `ticksWithin_store`   `IterOK` and `TicksWithin` (default limits) for `tickIter` itself
  4. `computeSwap_price_direction_store` (any limit; the limit must not lie inside the path: `LimitOutside`, cf. the
     counterexample `C05Loop.swapLoop_qfb_exactIn_beyond_limit`), `computeSwap_price_direction_store_default`
     (default / zero limit: `LimitOutside` derived from the grid bounds), the two hypothesis-free modes
     `computeSwap_direction_qfb_exactIn_store`, `computeSwap_direction_bfq_exactOut_store`,
     `computeSwap_price_within_bounds_store` (all modes, grid bounds only), `computeSwap_calculated_mono_store`, and the
     reachable-state corollary `computeSwap_price_direction_reachable`.  `actLiq_ne_zero_iff`: the in-range sum is
     non-zero iff some position covers the bucket.
  5. non-vacuity: all assumptions (`Inv`, `Within`, `GridOK`, `Covered`, `hbig`) are established on the executed history
     `C04Store.h3`, and the theorems are applied to runs that cross initialised ticks in both directions.
-/
namespace Sunrise.C05Store
open Sunrise Sunrise.CL Sunrise.TickMath Sunrise.Gen.KernelsCL Sunrise.C04StoreL Sunrise.C05Loop

/-! ### 0. vocabulary -/

/-- tick `u` is stored (initialised) for the pool -/
def Stored (s : St) (pool : Nat) (u : Int) : Prop := ∃ x ∈ s.ticks, x.pool = pool ∧ x.tick = u

/-- `u` is on the iterator's side of the cursor: base-for-quote walks the ticks `≤ cur` (the cursor tick INCLUDED),
    quote-for-base the ticks `> cur` -/
def beyond (bfq : Bool) (cur u : Int) : Prop := if bfq then u ≤ cur else cur < u
/-- `b` comes strictly after `a` in the direction of the trade -/
def stepLt (bfq : Bool) (a b : Int) : Prop := if bfq then b < a else a < b
/-- the cursor after crossing tick `t` (`*_NextTickAfterCrossing`): `t − 1` going down, `t` going up -/
def cursorAfter (bfq : Bool) (t : Int) : Int := if bfq then t - 1 else t

/-- Σ liquidity of the positions of the pool whose range contains tick `t` -/
def actLiq (s : St) (pool : Nat) (t : Int) : Int := sumLiq (inRangeOf pool t) s.positions

/-! ### 1. the iterator (pure store reasoning) -/

theorem sorted_pairwise {l : List TickInfo} (hs : TicksSorted l) : l.Pairwise (fun a b => keyLt (keyOf a) (keyOf b)) := by
  unfold TicksSorted at hs; exact List.pairwise_map.mp hs

theorem pairwise_key_unique {l : List TickInfo} (h : l.Pairwise (fun a b => keyLt (keyOf a) (keyOf b))) :
    ∀ a ∈ l, ∀ b ∈ l, keyOf a = keyOf b → a = b := by
  induction h with
  | nil => intro a ha; cases ha
  | cons hhead _ ih =>
    intro x hx y hy hk
    rcases List.mem_cons.mp hx with e1 | hx' <;> rcases List.mem_cons.mp hy with e2 | hy'
    · rw [e1, e2]
    · subst e1; have := hhead y hy'; rw [hk] at this; exact absurd this (keyLt_irrefl _)
    · subst e2; have := hhead x hx'; rw [hk] at this; exact absurd this (keyLt_irrefl _)
    · exact ih x hx' y hy' hk

theorem tickIter_mem {s : St} {pool : Nat} {cur : Int} {bfq : Bool} {ti : TickInfo} :
    ti ∈ tickIter s pool cur bfq ↔ ti ∈ s.ticks ∧ ti.pool = pool ∧ beyond bfq cur ti.tick := by
  unfold tickIter beyond
  cases bfq <;> simp [List.mem_reverse, List.mem_filter] <;> (intro _; exact and_comm)

theorem poolTicks_pairwise {s : St} (pool : Nat) (hs : TicksSorted s.ticks) :
    (s.ticks.filter (·.pool == pool)).Pairwise (fun a b => a.tick < b.tick) := by
  have h0 := (sorted_pairwise hs).filter (·.pool == pool)
  refine List.Pairwise.imp_of_mem ?_ h0
  intro a b ha hb hab
  have hpa : a.pool = pool := by simpa using (List.mem_filter.mp ha).2
  have hpb : b.pool = pool := by simpa using (List.mem_filter.mp hb).2
  unfold keyLt keyOf at hab
  simp only at hab
  omega

theorem tickIter_pairwise {s : St} (pool : Nat) (cur : Int) (bfq : Bool) (hs : TicksSorted s.ticks) :
    (tickIter s pool cur bfq).Pairwise (fun a b => stepLt bfq a.tick b.tick) := by
  have h1 := poolTicks_pairwise pool hs
  unfold tickIter
  cases bfq
  · simp only [Bool.false_eq_true, if_false]
    exact (h1.filter _).imp (by intro a b h; simpa [stepLt] using h)
  · simp only [if_true]
    rw [List.pairwise_reverse]
    exact (h1.filter _).imp (by intro a b h; simpa [stepLt] using h)

/-- **1. `tickIter` under the store invariant**: strictly monotone in the direction of the trade (descending ticks for
    base-for-quote, ascending for quote-for-base); every element is a stored tick of the pool beyond the cursor
    (bfq: `tick ≤ cur`, the cursor tick included; qfb: `tick > cur`); and every such stored tick occurs. -/
theorem tickIter_sorted {s : St} (hI : Inv s) (pool : Nat) (cur : Int) (bfq : Bool) :
    (tickIter s pool cur bfq).Pairwise (fun a b => stepLt bfq a.tick b.tick)
    ∧ (∀ ti ∈ tickIter s pool cur bfq, ti ∈ s.ticks ∧ ti.pool = pool ∧ beyond bfq cur ti.tick)
    ∧ (∀ u, Stored s pool u → beyond bfq cur u → ∃ ti ∈ tickIter s pool cur bfq, ti.tick = u) := by
  refine ⟨tickIter_pairwise pool cur bfq hI.w.sorted, fun ti h => tickIter_mem.mp h, ?_⟩
  rintro u ⟨x, hx, hp, ht⟩ hb
  exact ⟨x, tickIter_mem.mpr ⟨hx, hp, by rw [ht]; exact hb⟩, ht⟩

/-- what the induction along the path needs to know about the remaining iterator `iter` at cursor `c` -/
structure PathInv (bfq : Bool) (s : St) (pool : Nat) (c : Int) (iter : List TickInfo) : Prop where
  sorted : iter.Pairwise (fun a b => stepLt bfq a.tick b.tick)
  sound : ∀ ti ∈ iter, ti ∈ s.ticks ∧ ti.pool = pool ∧ beyond bfq c ti.tick
  complete : ∀ u, Stored s pool u → beyond bfq c u → ∃ ti ∈ iter, ti.tick = u

theorem pathInv_tickIter {s : St} (hI : Inv s) (pool : Nat) (cur : Int) (bfq : Bool) :
    PathInv bfq s pool cur (tickIter s pool cur bfq) :=
  let h := tickIter_sorted hI pool cur bfq
  ⟨h.1, h.2.1, h.2.2⟩

/-- the head of the iterator is the FIRST stored tick beyond the cursor -/
theorem PathInv.head_first {bfq : Bool} {s : St} {pool : Nat} {c : Int} {ti : TickInfo} {rest : List TickInfo}
    (h : PathInv bfq s pool c (ti :: rest)) :
    ∀ u, Stored s pool u → beyond bfq c u → u = ti.tick ∨ stepLt bfq ti.tick u := by
  intro u hu hb
  obtain ⟨tj, hj, e⟩ := h.complete u hu hb
  rcases List.mem_cons.mp hj with e1 | hr
  · left; rw [← e, e1]
  · right; rw [← e]; exact (List.pairwise_cons.mp h.sorted).1 tj hr

/-- after crossing the head the rest is the iterator of the new cursor -/
theorem PathInv.tail {bfq : Bool} {s : St} {pool : Nat} {c : Int} {ti : TickInfo} {rest : List TickInfo}
    (h : PathInv bfq s pool c (ti :: rest)) : PathInv bfq s pool (cursorAfter bfq ti.tick) rest := by
  have hp := List.pairwise_cons.mp h.sorted
  have hti := (h.sound ti List.mem_cons_self).2.2
  refine ⟨hp.2, ?_, ?_⟩
  · intro tj hj
    have hs := h.sound tj (List.mem_cons_of_mem _ hj)
    refine ⟨hs.1, hs.2.1, ?_⟩
    have := hp.1 tj hj
    cases bfq <;> simp only [stepLt, beyond, cursorAfter, if_true, Bool.false_eq_true, if_false] at * <;> omega
  · intro u hu hb
    have hb' : beyond bfq c u := by
      cases bfq <;> simp only [beyond, cursorAfter, if_true, Bool.false_eq_true, if_false] at * <;> omega
    obtain ⟨tj, hj, e⟩ := h.complete u hu hb'
    rcases List.mem_cons.mp hj with e1 | hr
    · exfalso; subst e1
      cases bfq <;> simp only [beyond, cursorAfter, if_true, Bool.false_eq_true, if_false] at * <;> omega
    · exact ⟨tj, hr, e⟩

/-! ### 2. liquidity along the path -/

theorem stored_of_gross {s : St} {pool : Nat} {u : Int} (h : C04Refine.grossOf s pool u ≠ 0) : Stored s pool u := by
  unfold C04Refine.grossOf at h
  cases hf : findTick s pool u with
  | none => rw [hf] at h; exact absurd rfl h
  | some ti =>
    have := (findTick_isSome_iff s pool u).mp (by rw [hf]; rfl)
    obtain ⟨x, hx, hk⟩ := List.mem_map.mp this
    unfold keyOf at hk
    exact ⟨x, hx, by simpa using congrArg Prod.fst hk, by simpa using congrArg Prod.snd hk⟩

/-- under `Inv` both bounds of every position are stored ticks of its pool -/
theorem bound_stored {s : St} (hI : Inv s) {x : Position} (hx : x ∈ s.positions) {pool : Nat} (hp : x.pool = pool) :
    Stored s pool x.lower ∧ Stored s pool x.upper := by
  have hnn : ∀ y ∈ s.positions, 0 ≤ y.liq.raw := fun y hy => (hI.w.posWf y hy).1
  have hpos := hI.strict x hx
  constructor
  · apply stored_of_gross
    rw [(hI.w.sums pool).gross x.lower]
    have h1 := sumLiq_pos_of_mem (lowerAtOf pool x.lower) s.positions hnn hx (by simp [lowerAtOf, hp]) hpos
    have h2 := sumLiq_nonneg (upperAtOf pool x.lower) s.positions hnn
    omega
  · apply stored_of_gross
    rw [(hI.w.sums pool).gross x.upper]
    have h1 := sumLiq_pos_of_mem (upperAtOf pool x.upper) s.positions hnn hx (by simp [upperAtOf, hp]) hpos
    have h2 := sumLiq_nonneg (lowerAtOf pool x.upper) s.positions hnn
    omega

/-- the stored record of a tick is the one `findTick` returns (keys are unique in a sorted store) -/
theorem netOf_of_mem {s : St} (hs : TicksSorted s.ticks) {ti : TickInfo} (hm : ti ∈ s.ticks) :
    C04Refine.netOf s ti.pool ti.tick = ti.net.raw := by
  unfold C04Refine.netOf findTick
  cases hf : s.ticks.find? (fun x => x.pool == ti.pool && x.tick == ti.tick) with
  | none =>
    have := List.find?_eq_none.mp hf ti hm
    simp at this
  | some x =>
    have hx := List.mem_of_find?_eq_some hf
    have hk := List.find?_some hf
    simp only [Bool.and_eq_true, beq_iff_eq] at hk
    have : x = ti := pairwise_key_unique (sorted_pairwise hs) x hx ti hm (by unfold keyOf; rw [hk.1, hk.2])
    rw [this]

theorem sumLiq_cross (pool : Nat) (t : Int) (l : List Position) (hwf : ∀ x ∈ l, x.lower < x.upper) :
    sumLiq (inRangeOf pool t) l
      = sumLiq (inRangeOf pool (t - 1)) l + sumLiq (lowerAtOf pool t) l - sumLiq (upperAtOf pool t) l := by
  induction l with
  | nil => simp [sumLiq]
  | cons x xs ih =>
    have hx := hwf x List.mem_cons_self
    have := ih (fun y hy => hwf y (List.mem_cons_of_mem _ hy))
    simp only [sumLiq, this, inRangeOf, lowerAtOf, upperAtOf, Bool.and_eq_true, decide_eq_true_eq, beq_iff_eq]
    split_ifs <;> omega

theorem sumLiq_ge_of_mem (c : Position → Bool) (l : List Position) (h : ∀ x ∈ l, 0 ≤ x.liq.raw)
    {x : Position} (hx : x ∈ l) (hc : c x = true) : x.liq.raw ≤ sumLiq c l := by
  induction l with
  | nil => cases hx
  | cons y ys ih =>
    have hn := sumLiq_nonneg c ys (fun z hz => h z (List.mem_cons_of_mem _ hz))
    have hy := h y List.mem_cons_self
    simp only [sumLiq]
    rcases List.mem_cons.mp hx with e | hm
    · subst e; simp only [hc, if_true]; omega
    · have := ih (fun z hz => h z (List.mem_cons_of_mem _ hz)) hm
      split <;> omega

/-- between two stored ticks the in-range sum does not change -/
theorem actLiq_const {s : St} {pool : Nat} {a b : Int} (hI : Inv s) (hab : a ≤ b)
    (hno : ∀ u, a < u → u ≤ b → ¬ Stored s pool u) : actLiq s pool a = actLiq s pool b := by
  apply sumLiq_congr
  intro x hx
  unfold inRangeOf
  by_cases hp : x.pool = pool
  · obtain ⟨hlo, hup⟩ := bound_stored hI hx hp
    have h1 : ¬ (a < x.lower ∧ x.lower ≤ b) := fun h => hno _ h.1 h.2 hlo
    have h2 : ¬ (a < x.upper ∧ x.upper ≤ b) := fun h => hno _ h.1 h.2 hup
    have hwf := (hI.w.posWf x hx).2
    have : decide (x.lower ≤ a ∧ a < x.upper) = decide (x.lower ≤ b ∧ b < x.upper) := by
      rw [decide_eq_decide]; omega
    rw [this]
  · have : (x.pool == pool) = false := by simpa using hp
    simp [this]

/-- **2a. crossing a tick.**  If the running liquidity `l` is the in-range sum at cursor `c` and `ti` is the first stored
    tick beyond `c`, then after the crossing (`l − net` going down, `l + net` going up: `C05Loop.netOf`) it is the
    in-range sum at the new cursor. -/
theorem cross_liq {s : St} {pool : Nat} {bfq : Bool} {c : Int} {ti : TickInfo} (hI : Inv s)
    (hmem : ti ∈ s.ticks) (hp : ti.pool = pool) (hb : beyond bfq c ti.tick)
    (hfirst : ∀ u, Stored s pool u → beyond bfq c u → u = ti.tick ∨ stepLt bfq ti.tick u)
    {l : Dec} (hl : l.raw = actLiq s pool c) :
    (Dec.add l (C05Loop.netOf bfq ti)).raw = actLiq s pool (cursorAfter bfq ti.tick) := by
  have hnet : C04Refine.netOf s pool ti.tick = ti.net.raw := by rw [← hp]; exact netOf_of_mem hI.w.sorted hmem
  have hsum := (hI.w.sums pool).net ti.tick
  have hcross := sumLiq_cross pool ti.tick s.positions (fun x hx => (hI.w.posWf x hx).2)
  rw [hnet] at hsum
  cases bfq
  · -- upwards: c < t, nothing stored in (c, t-1]
    simp only [beyond, stepLt, cursorAfter, Bool.false_eq_true, if_false] at hb hfirst ⊢
    have hconst : actLiq s pool c = actLiq s pool (ti.tick - 1) :=
      actLiq_const hI (by omega) (fun u h1 h2 hu => by rcases hfirst u hu h1 with e | e <;> omega)
    simp only [C05Loop.netOf, Dec.add, Bool.false_eq_true, if_false]
    unfold actLiq at *
    omega
  · -- downwards: t ≤ c, nothing stored in (t, c]
    simp only [beyond, stepLt, cursorAfter, if_true] at hb hfirst ⊢
    have hconst : actLiq s pool ti.tick = actLiq s pool c :=
      actLiq_const hI hb (fun u h1 h2 hu => by rcases hfirst u hu h2 with e | e <;> omega)
    simp only [C05Loop.netOf, Dec.add, Dec.neg, if_true]
    unfold actLiq at *
    omega

theorem actLiq_nonneg {s : St} (hI : Inv s) (pool : Nat) (c : Int) : 0 ≤ actLiq s pool c :=
  sumLiq_nonneg _ _ (fun y hy => (hI.w.posWf y hy).1)

/-- a bucket (identified by its cursor tick) is fine for `Lmin`: no position of the pool is in range there, or one of
    liquidity at least `Lmin` is.  A statement about the positions only. -/
def BucketOK (s : St) (pool : Nat) (Lmin : Int) (c : Int) : Prop :=
  (∀ x ∈ s.positions, inRangeOf pool c x = false) ∨ ∃ x ∈ s.positions, inRangeOf pool c x = true ∧ Lmin ≤ x.liq.raw

/-- every bucket on the path (the current one and the one entered after each initialised tick of the iterator) is
    `BucketOK`.  NB "covered by a position" cannot be required of EVERY bucket: beyond the outermost initialised tick no
    position is in range, the liquidity is 0 there (and `IterOK` allows 0). -/
def Covered (s : St) (pool : Nat) (Lmin : Int) (cur : Int) (bfq : Bool) : Prop :=
  BucketOK s pool Lmin cur ∧ ∀ ti ∈ tickIter s pool cur bfq, BucketOK s pool Lmin (cursorAfter bfq ti.tick)

/-- **2b.** in-range sum of a `BucketOK` bucket: zero or at least `Lmin` -/
theorem bucket_liq {s : St} (hI : Inv s) {pool : Nat} {Lmin c : Int} (h : BucketOK s pool Lmin c) :
    actLiq s pool c = 0 ∨ Lmin ≤ actLiq s pool c := by
  rcases h with h | ⟨x, hx, hc, hl⟩
  · left; exact sumLiq_none _ _ h
  · right
    have := sumLiq_ge_of_mem (inRangeOf pool c) s.positions (fun y hy => (hI.w.posWf y hy).1) hx hc
    unfold actLiq; omega

/-- under `Inv` the in-range sum is non-zero (then ≥ 1, and ≥ the liquidity of each covering position) IFF some position
    covers the bucket -/
theorem actLiq_ne_zero_iff {s : St} (hI : Inv s) (pool : Nat) (c : Int) :
    actLiq s pool c ≠ 0 ↔ ∃ x ∈ s.positions, inRangeOf pool c x = true := by
  constructor
  · exact sumLiq_ne_zero_exists _ _
  · rintro ⟨x, hx, hc⟩
    have := sumLiq_pos_of_mem (inRangeOf pool c) s.positions (fun y hy => (hI.w.posWf y hy).1) hx hc (hI.strict x hx)
    unfold actLiq; omega

/-- every bucket is `BucketOK` for `Lmin` when every position of the pool has liquidity ≥ `Lmin` -/
theorem bucketOK_of_minLiq {s : St} {pool : Nat} {Lmin : Int} (h : ∀ x ∈ s.positions, x.pool = pool → Lmin ≤ x.liq.raw)
    (c : Int) : BucketOK s pool Lmin c := by
  by_cases hex : ∃ x ∈ s.positions, inRangeOf pool c x = true
  · obtain ⟨x, hx, hc⟩ := hex
    exact Or.inr ⟨x, hx, hc, h x hx (inRangeOf_pool hc)⟩
  · left; intro x hx
    cases hc : inRangeOf pool c x with
    | false => rfl
    | true => exact absurd ⟨x, hx, hc⟩ hex

theorem covered_of_minLiq {s : St} {pool : Nat} {Lmin : Int} (h : ∀ x ∈ s.positions, x.pool = pool → Lmin ≤ x.liq.raw)
    (cur : Int) (bfq : Bool) : Covered s pool Lmin cur bfq :=
  ⟨bucketOK_of_minLiq h cur, fun _ _ => bucketOK_of_minLiq h _⟩

/-- **with `Lmin = 1` coverage is a consequence of the store invariant** (positions have raw liquidity ≥ 1) -/
theorem covered_one {s : St} (hI : Inv s) (pool : Nat) (cur : Int) (bfq : Bool) : Covered s pool 1 cur bfq :=
  covered_of_minLiq (fun x hx _ => hI.strict x hx) cur bfq

/-! ### 3. tick prices: the grid assumption -/

/-- **ASSUMED grid facts** for the ticks in use (the cursor, its upper neighbour, the stored ticks of the pool):
    the tick → sqrt-price map is strictly increasing where it is defined, and the prices of the cursor tick and of the
    stored ticks lie within the global price bounds. -/
structure GridOK (tp : TickParams) (s : St) (pool : Nat) (cur : Int) : Prop where
  mono : ∀ t u a b, (t = cur ∨ t = cur + 1 ∨ Stored s pool t) → (u = cur ∨ u = cur + 1 ∨ Stored s pool u) → t < u →
    tickToSqrtPrice t tp = .ok a → tickToSqrtPrice u tp = .ok b → a.raw < b.raw
  bounds : ∀ t a, (t = cur ∨ Stored s pool t) → tickToSqrtPrice t tp = .ok a →
    MinSqrtPrice.raw ≤ a.raw ∧ a.raw ≤ MaxSqrtPrice.raw

/-- a globally strictly increasing, globally bounded grid is `GridOK` for every store -/
theorem GridOK.of_global {tp : TickParams}
    (hm : ∀ t u a b, t < u → tickToSqrtPrice t tp = .ok a → tickToSqrtPrice u tp = .ok b → a.raw < b.raw)
    (hb : ∀ t a, tickToSqrtPrice t tp = .ok a → MinSqrtPrice.raw ≤ a.raw ∧ a.raw ≤ MaxSqrtPrice.raw)
    (s : St) (pool : Nat) (cur : Int) : GridOK tp s pool cur :=
  ⟨fun t u a b _ _ h => hm t u a b h, fun t a _ => hb t a⟩

/-- the price of the first stored tick beyond the cursor is on the trade side of the current price
    (from the price-in-interval invariant `Within` of the pool and the grid) -/
theorem first_price {tp : TickParams} {s : St} {pool : Nat} {cur : Int} {bfq : Bool} {P : Dec}
    (hg : GridOK tp s pool cur) (hw : C04Interval.Within tp P cur) :
    ∀ u, Stored s pool u → beyond bfq cur u → ∀ w, tickToSqrtPrice u tp = .ok w → onSide bfq P w := by
  intro u hu hb w hw'
  obtain ⟨a, ha, hle, hor⟩ := hw
  cases bfq
  · simp only [beyond, onSide, Bool.false_eq_true, if_false] at hb ⊢
    rcases hor with e | ⟨b, hb1, hPb⟩
    · have := hg.mono cur u a w (Or.inl rfl) (Or.inr (Or.inr hu)) hb ha hw'
      omega
    · by_cases hu1 : u = cur + 1
      · subst hu1
        have : b = w := res_ok_inj (hb1.symm.trans hw')
        subst this; exact hPb
      · have := hg.mono (cur + 1) u b w (Or.inr (Or.inl rfl)) (Or.inr (Or.inr hu)) (by omega) hb1 hw'
        omega
  · simp only [beyond, onSide, if_true] at hb ⊢
    by_cases hu1 : u = cur
    · subst hu1
      have : a = w := res_ok_inj (ha.symm.trans hw')
      subst this; exact hle
    · have := hg.mono u cur w a (Or.inr (Or.inr hu)) (Or.inl rfl) (by omega) hw' ha
      omega

/-- **3a. `IterOK` along a path** (induction on the remaining iterator): liquidity component from `cross_liq` /
    `bucket_liq`, price component from the grid. -/
theorem iterOK_gen {bfq : Bool} {tp : TickParams} {Lmin : Int} {s : St} {pool : Nat} (hI : Inv s)
    (hmono : ∀ t u a b, Stored s pool t → Stored s pool u → t < u →
      tickToSqrtPrice t tp = .ok a → tickToSqrtPrice u tp = .ok b → a.raw < b.raw) :
    ∀ (iter : List TickInfo) (c : Int) (p l : Dec), PathInv bfq s pool c iter → l.raw = actLiq s pool c →
      BucketOK s pool Lmin c → (∀ ti ∈ iter, BucketOK s pool Lmin (cursorAfter bfq ti.tick)) →
      (∀ ti ∈ iter, ∀ w, tickToSqrtPrice ti.tick tp = .ok w → onSide bfq p w) →
      C05Loop.IterOK bfq tp Lmin p l iter := by
  intro iter
  induction iter with
  | nil =>
    intro c p l _ hl hb _ _
    have := bucket_liq hI hb
    simp only [C05Loop.IterOK]; omega
  | cons ti rest ih =>
    intro c p l hpath hl hb hbs hpr
    have hliq := bucket_liq hI hb
    have hsnd := hpath.sound ti List.mem_cons_self
    refine ⟨by omega, fun v hv => ⟨hpr ti List.mem_cons_self v hv, ?_⟩⟩
    refine ih (cursorAfter bfq ti.tick) v _ hpath.tail
      (cross_liq hI hsnd.1 hsnd.2.1 hsnd.2.2 hpath.head_first hl)
      (hbs ti List.mem_cons_self) (fun tj hj => hbs tj (List.mem_cons_of_mem _ hj)) ?_
    intro tj hj w hw
    have hlt := (List.pairwise_cons.mp hpath.sorted).1 tj hj
    have hsj := hpath.sound tj (List.mem_cons_of_mem _ hj)
    have st_i : Stored s pool ti.tick := ⟨ti, hsnd.1, hsnd.2.1, rfl⟩
    have st_j : Stored s pool tj.tick := ⟨tj, hsj.1, hsj.2.1, rfl⟩
    cases bfq
    · simp only [stepLt, onSide, Bool.false_eq_true, if_false] at hlt ⊢
      have := hmono ti.tick tj.tick v w st_i st_j hlt hv hw; omega
    · simp only [stepLt, onSide, if_true] at hlt ⊢
      have := hmono tj.tick ti.tick w v st_j st_i hlt hw hv; omega

/-- **2c. liquidity along the path, stated on its own**: after crossing the first `j` ticks of the iterator the running
    liquidity (start value ± the nets crossed) equals the in-range sum at the cursor reached, hence is non-negative. -/
theorem pathLiq {bfq : Bool} {s : St} {pool : Nat} (hI : Inv s) :
    ∀ (iter : List TickInfo) (c : Int) (l : Dec), PathInv bfq s pool c iter → l.raw = actLiq s pool c →
      ∀ j, j ≤ iter.length →
        ((iter.take j).foldl (fun (acc : Dec) ti => Dec.add acc (C05Loop.netOf bfq ti)) l).raw
          = actLiq s pool (((iter.take j).foldl (fun _ ti => cursorAfter bfq ti.tick) c))
        ∧ 0 ≤ ((iter.take j).foldl (fun (acc : Dec) ti => Dec.add acc (C05Loop.netOf bfq ti)) l).raw := by
  intro iter
  induction iter with
  | nil =>
    intro c l _ hl j _
    simp only [List.take_nil, List.foldl_nil]
    exact ⟨hl, by rw [hl]; exact actLiq_nonneg hI pool c⟩
  | cons ti rest ih =>
    intro c l hpath hl j hj
    cases j with
    | zero =>
      simp only [List.take_zero, List.foldl_nil]
      exact ⟨hl, by rw [hl]; exact actLiq_nonneg hI pool c⟩
    | succ j =>
      simp only [List.take_succ_cons, List.foldl_cons]
      have hsnd := hpath.sound ti List.mem_cons_self
      exact ih (cursorAfter bfq ti.tick) _ hpath.tail
        (cross_liq hI hsnd.1 hsnd.2.1 hsnd.2.2 hpath.head_first hl) j (by simpa using hj)

/-- **3b. `IterOK` for the iterator of a stored pool**: no hypothesis about `tickIter` left -/
theorem iterOK_store {s : St} (hI : Inv s) {pool : Nat} {p : Pool} (hp : getPool s pool = some p) {bfq : Bool} {Lmin : Int}
    (hw : C04Interval.Within p.tp p.sqrtP p.tick) (hg : GridOK p.tp s pool p.tick)
    (hc : Covered s pool Lmin p.tick bfq) :
    C05Loop.IterOK bfq p.tp Lmin p.sqrtP p.liq (tickIter s pool p.tick bfq) := by
  refine iterOK_gen hI (fun t u a b ht hu => hg.mono t u a b (Or.inr (Or.inr ht)) (Or.inr (Or.inr hu)))
    _ p.tick p.sqrtP p.liq (pathInv_tickIter hI pool p.tick bfq) ((hI.w.sums pool).active p hp) hc.1 hc.2 ?_
  intro ti hti w hw'
  have hm := tickIter_mem.mp hti
  exact first_price hg hw ti.tick ⟨ti, hm.1, hm.2.1, rfl⟩ hm.2.2 w hw'

/-- the price bound on the side of the trade -/
def boundOf (bfq : Bool) : Dec := if bfq then MinSqrtPrice else MaxSqrtPrice

/-- **3c. `TicksWithin` for the price bounds** (the limit used by the default / zero `mLimit`) -/
theorem ticksWithin_store {tp : TickParams} {s : St} {pool : Nat} {cur : Int} (hg : GridOK tp s pool cur) (bfq : Bool) :
    TicksWithin bfq (boundOf bfq) tp (tickIter s pool cur bfq) := by
  intro ti hti v hv
  have hm := tickIter_mem.mp hti
  have := hg.bounds ti.tick v (Or.inr ⟨ti, hm.1, hm.2.1, rfl⟩) hv
  cases bfq <;> simp only [onSide, boundOf, if_true, Bool.false_eq_true, if_false] <;> omega


/-! ### 4. assembling: `computeSwap` on a store state satisfying the invariant -/

theorem sqrtPriceLimit_default_bfq : sqrtPriceLimit (multipliedPriceLimit true) true = .ok MinSqrtPrice :=
  res_of_rawOr (by decide) (by decide +kernel)
theorem sqrtPriceLimit_default_qfb : sqrtPriceLimit (multipliedPriceLimit false) false = .ok MaxSqrtPrice :=
  res_of_rawOr (by decide) (by decide +kernel)

/-- the limit the keeper entry points use: `multipliedPriceLimit` (swaps) or zero (quotes) — both resolve to the price
    bound on the side of the trade -/
def DefaultLimit (mLimit : Dec) (bfq : Bool) : Prop := mLimit.isZero = true ∨ mLimit = multipliedPriceLimit bfq

theorem sqrtPriceLimit_default {mLimit : Dec} {bfq : Bool} (h : DefaultLimit mLimit bfq) :
    sqrtPriceLimit mLimit bfq = .ok (boundOf bfq) := by
  rcases h with h | h
  · rw [sqrtPriceLimit_zero mLimit bfq h]; rfl
  · subst h
    cases bfq
    · exact sqrtPriceLimit_default_qfb
    · exact sqrtPriceLimit_default_bfq

/-- the limit does not lie strictly inside the path: every stored tick of the pool beyond the cursor has its price within
    the limit (needed because the loop's `invalid-computed-sqrt-price` check compares with the TICK price only, see
    `C05Loop.swapLoop_qfb_exactIn_beyond_limit`) -/
def LimitOutside (tp : TickParams) (s : St) (pool : Nat) (cur : Int) (bfq : Bool) (lim : Dec) : Prop :=
  ∀ u, Stored s pool u → beyond bfq cur u → ∀ v, tickToSqrtPrice u tp = .ok v → onSide bfq v lim

theorem ticksWithin_of_limitOutside {tp : TickParams} {s : St} {pool : Nat} {cur : Int} {bfq : Bool} {lim : Dec}
    (h : LimitOutside tp s pool cur bfq lim) : TicksWithin bfq lim tp (tickIter s pool cur bfq) := by
  intro ti hti v hv
  have hm := tickIter_mem.mp hti
  exact h ti.tick ⟨ti, hm.1, hm.2.1, rfl⟩ hm.2.2 v hv

theorem limitOutside_bound {tp : TickParams} {s : St} {pool : Nat} {cur : Int} (hg : GridOK tp s pool cur) (bfq : Bool) :
    LimitOutside tp s pool cur bfq (boundOf bfq) := by
  intro u hu _ v hv
  have := hg.bounds u v (Or.inr hu) hv
  cases bfq <;> simp only [onSide, boundOf, if_true, Bool.false_eq_true, if_false] <;> omega

/-- positivity of the pool price, from the price-in-interval invariant and the grid bounds -/
theorem price_pos {tp : TickParams} {s : St} {pool : Nat} {cur : Int} {P : Dec} (hg : GridOK tp s pool cur)
    (hw : C04Interval.Within tp P cur) : 0 < P.raw := by
  obtain ⟨a, ha, hle, _⟩ := hw
  have := (hg.bounds cur a (Or.inl rfl) ha).1
  have := MinSqrtPrice_raw
  omega

/-- **4a. price direction of `computeSwap` on a store state** (any price limit).
    DERIVED inside: `IterOK` (from `Inv`, `Within`, `GridOK`, `Covered`), `TicksWithin` (from `LimitOutside`),
    positivity of the pool price.  LEFT as hypotheses: the C05Loop numeric side conditions `hge1` (bfq exact-in) and
    `hbig` (qfb exact-out), which are not derivable (counterexamples in C05Loop). -/
theorem computeSwap_price_direction_store {exactIn : Bool} {s : St} {pool : Nat} {denomIn denomOut : Denom} {amount : Int}
    {fee mLimit : Dec} {upd : Bool} {s2 : St} {o : SwapOut} {p : Pool} {Lmin : Int}
    (hI : Inv s) (hp : getPool s pool = some p)
    (hw : C04Interval.Within p.tp p.sqrtP p.tick) (hg : GridOK p.tp s pool p.tick)
    (hc : Covered s pool Lmin p.tick (decide (denomIn = p.base))) (hLmin : 0 < Lmin)
    (hf0 : 0 ≤ fee.raw) (hf1 : fee.raw < PREC)
    (hlim : ∀ lim, sqrtPriceLimit mLimit (decide (denomIn = p.base)) = .ok lim →
      (exactIn = false ∧ denomIn = p.base) ∨ LimitOutside p.tp s pool p.tick (decide (denomIn = p.base)) lim)
    (hge1 : ∀ lim, sqrtPriceLimit mLimit (decide (denomIn = p.base)) = .ok lim →
      exactIn = true → denomIn = p.base → PREC ≤ lim.raw)
    (hbig : ∀ lim, sqrtPriceLimit mLimit (decide (denomIn = p.base)) = .ok lim →
      exactIn = false → denomIn ≠ p.base → PREC + lim.raw < 2 * (p.sqrtP.raw * Lmin))
    (h : computeSwap exactIn s pool denomIn denomOut amount fee mLimit upd = .ok (s2, o)) :
    (denomIn = p.base → MinSqrtPrice.raw ≤ o.sqrtP.raw ∧ o.sqrtP.raw ≤ p.sqrtP.raw)
    ∧ (denomIn ≠ p.base → p.sqrtP.raw ≤ o.sqrtP.raw ∧ o.sqrtP.raw ≤ MaxSqrtPrice.raw) :=
  computeSwap_price_direction hp hf0 hf1 (price_pos hg hw) hLmin (iterOK_store hI hp hw hg hc)
    (fun lim hl => (hlim lim hl).imp id ticksWithin_of_limitOutside) hge1 hbig h

/-- **4b. default / zero limit** (what `swapExactIn`, `swapExactOut` and the quote queries pass): `LimitOutside` is
    derived from the grid bounds.  `hge1` would read `PREC ≤ 1` for base-for-quote exact-in, so that mode is excluded
    here (use 4a with a limit ≥ 1.0, or `computeSwap_price_within_bounds_store`); `hbig` is about `MaxSqrtPrice`. -/
theorem computeSwap_price_direction_store_default {exactIn : Bool} {s : St} {pool : Nat} {denomIn denomOut : Denom}
    {amount : Int} {fee mLimit : Dec} {upd : Bool} {s2 : St} {o : SwapOut} {p : Pool} {Lmin : Int}
    (hI : Inv s) (hp : getPool s pool = some p)
    (hw : C04Interval.Within p.tp p.sqrtP p.tick) (hg : GridOK p.tp s pool p.tick)
    (hc : Covered s pool Lmin p.tick (decide (denomIn = p.base))) (hLmin : 0 < Lmin)
    (hf0 : 0 ≤ fee.raw) (hf1 : fee.raw < PREC)
    (hdef : DefaultLimit mLimit (decide (denomIn = p.base)))
    (hmode : ¬ (exactIn = true ∧ denomIn = p.base))
    (hbig : exactIn = false → denomIn ≠ p.base → PREC + MaxSqrtPrice.raw < 2 * (p.sqrtP.raw * Lmin))
    (h : computeSwap exactIn s pool denomIn denomOut amount fee mLimit upd = .ok (s2, o)) :
    (denomIn = p.base → MinSqrtPrice.raw ≤ o.sqrtP.raw ∧ o.sqrtP.raw ≤ p.sqrtP.raw)
    ∧ (denomIn ≠ p.base → p.sqrtP.raw ≤ o.sqrtP.raw ∧ o.sqrtP.raw ≤ MaxSqrtPrice.raw) := by
  have hl := sqrtPriceLimit_default hdef
  refine computeSwap_price_direction_store hI hp hw hg hc hLmin hf0 hf1 ?_ ?_ ?_ h
  · intro lim hlim
    have : lim = boundOf (decide (denomIn = p.base)) := res_ok_inj (hlim.symm.trans hl)
    subst this
    exact Or.inr (limitOutside_bound hg _)
  · intro lim _ e b; exact absurd ⟨e, b⟩ hmode
  · intro lim hlim e b
    have : lim = boundOf (decide (denomIn = p.base)) := res_ok_inj (hlim.symm.trans hl)
    subst this
    have := hbig e b
    simpa [boundOf, b] using this

/-- **4c. quote-for-base exact-in at the default limit: NO numeric side condition and NO coverage assumption**
    (`Covered` with `Lmin = 1` is a consequence of the store invariant) -/
theorem computeSwap_direction_qfb_exactIn_store {s : St} {pool : Nat} {denomIn denomOut : Denom} {amount : Int}
    {fee mLimit : Dec} {upd : Bool} {s2 : St} {o : SwapOut} {p : Pool}
    (hI : Inv s) (hp : getPool s pool = some p)
    (hw : C04Interval.Within p.tp p.sqrtP p.tick) (hg : GridOK p.tp s pool p.tick)
    (hf0 : 0 ≤ fee.raw) (hf1 : fee.raw < PREC)
    (hdef : DefaultLimit mLimit (decide (denomIn = p.base))) (hq : denomIn ≠ p.base)
    (h : computeSwap true s pool denomIn denomOut amount fee mLimit upd = .ok (s2, o)) :
    p.sqrtP.raw ≤ o.sqrtP.raw ∧ o.sqrtP.raw ≤ MaxSqrtPrice.raw :=
  (computeSwap_price_direction_store_default hI hp hw hg (covered_one hI pool p.tick _) (by decide) hf0 hf1 hdef
    (fun hh => hq hh.2) (fun e => by cases e) h).2 hq

/-- **4d. base-for-quote exact-out, any limit: NO numeric side condition, NO coverage assumption, NO condition on the
    limit** -/
theorem computeSwap_direction_bfq_exactOut_store {s : St} {pool : Nat} {denomIn denomOut : Denom} {amount : Int}
    {fee mLimit : Dec} {upd : Bool} {s2 : St} {o : SwapOut} {p : Pool}
    (hI : Inv s) (hp : getPool s pool = some p)
    (hw : C04Interval.Within p.tp p.sqrtP p.tick) (hg : GridOK p.tp s pool p.tick)
    (hf0 : 0 ≤ fee.raw) (hf1 : fee.raw < PREC) (hb : denomIn = p.base)
    (h : computeSwap false s pool denomIn denomOut amount fee mLimit upd = .ok (s2, o)) :
    MinSqrtPrice.raw ≤ o.sqrtP.raw ∧ o.sqrtP.raw ≤ p.sqrtP.raw :=
  (computeSwap_price_direction_store hI hp hw hg (covered_one hI pool p.tick _) (by decide) hf0 hf1
    (fun _ _ => Or.inl ⟨rfl, hb⟩) (fun _ _ e => by cases e) (fun _ _ _ hn => absurd hb hn) h).1 hb

/-- **4e. the reported price stays within the price bound on the side of the trade**, all four modes, default limit,
    from the grid bounds alone (not even the store invariant is needed) -/
theorem computeSwap_price_within_bounds_store {exactIn : Bool} {s : St} {pool : Nat} {denomIn denomOut : Denom}
    {amount : Int} {fee mLimit : Dec} {upd : Bool} {s2 : St} {o : SwapOut} {p : Pool}
    (hp : getPool s pool = some p) (hg : GridOK p.tp s pool p.tick)
    (hdef : DefaultLimit mLimit (decide (denomIn = p.base)))
    (h : computeSwap exactIn s pool denomIn denomOut amount fee mLimit upd = .ok (s2, o)) :
    (denomIn = p.base → MinSqrtPrice.raw ≤ o.sqrtP.raw) ∧ (denomIn ≠ p.base → o.sqrtP.raw ≤ MaxSqrtPrice.raw) := by
  obtain ⟨p', lim, hp', hlim, _, _, hres⟩ := computeSwap_price_within_bounds h
  have : p' = p := by rw [hp] at hp'; cases hp'; rfl
  subst this
  have : lim = boundOf (decide (denomIn = p'.base)) := res_ok_inj (hlim.symm.trans (sqrtPriceLimit_default hdef))
  subst this
  have := hres (ticksWithin_store hg _)
  exact ⟨fun b => (this.1 b).1, fun b => (this.2 b).2⟩

/-! #### monotone bookkeeping -/

/-- inversion of a successful `computeSwap` keeping the whole result (cf. `C05Loop.computeSwap_ok_inv`) -/
theorem computeSwap_ok_inv_full {exactIn : Bool} {s : St} {pool : Nat} {denomIn denomOut : Denom} {amount : Int}
    {fee mLimit : Dec} {upd : Bool} {s2 : St} {o : SwapOut}
    (h : computeSwap exactIn s pool denomIn denomOut amount fee mLimit upd = .ok (s2, o)) :
    ∃ p acc lim s1 ss, getPool s pool = some p ∧ getAccum s pool = some acc
      ∧ sqrtPriceLimit mLimit (decide (denomIn = p.base)) = .ok lim
      ∧ (if denomIn = p.base then bfq_ValidateSqrtPrice_err lim fee lim p.sqrtP
          else qfb_ValidateSqrtPrice_err lim fee lim p.sqrtP) = false
      ∧ swapLoop exactIn (decide (denomIn = p.base)) upd lim fee p.tp acc.value denomIn LOOP_FUEL 0 s (ss0Of p amount)
          (tickIter s pool p.tick (decide (denomIn = p.base))) = .ok (s1, ss)
      ∧ ss.remaining.isNegative = false
      ∧ (s2, o) = finishSwap exactIn upd acc denomIn amount s1 ss := by
  rw [computeSwap_eq] at h
  cases hp : getPool s pool with
  | none => rw [hp] at h; cases h
  | some p =>
    rw [hp] at h
    simp only [] at h
    by_cases c1 : (!poolLive p) = true
    · rw [if_pos c1] at h; cases h
    rw [if_neg c1] at h
    by_cases c2 : denomOut ≠ p.base ∧ denomOut ≠ p.quote
    · rw [if_pos c2] at h; cases h
    rw [if_neg c2] at h
    by_cases c3 : denomIn ≠ p.base ∧ denomIn ≠ p.quote
    · rw [if_pos c3] at h; cases h
    rw [if_neg c3] at h
    by_cases c4 : denomOut = denomIn
    · rw [if_pos c4] at h; cases h
    rw [if_neg c4] at h
    cases ha : getAccum s pool with
    | none => rw [ha] at h; cases h
    | some acc =>
      rw [ha] at h
      simp only [] at h
      obtain ⟨lim, hlim, h⟩ := bind_ok h
      by_cases c5 : (if denomIn = p.base then bfq_ValidateSqrtPrice_err lim fee lim p.sqrtP
              else qfb_ValidateSqrtPrice_err lim fee lim p.sqrtP) = true
      · rw [if_pos c5] at h; cases h
      rw [if_neg c5] at h
      obtain ⟨x, hx, h⟩ := bind_ok h
      by_cases c6 : x.2.remaining.isNegative = true
      · rw [if_pos c6] at h; cases h
      rw [if_neg c6] at h
      have h' := res_ok_inj h
      exact ⟨p, acc, lim, x.1, x.2, rfl, rfl, hlim, by simpa using c5, hx, by simpa using c6, h'.symm⟩

theorem finishSwap_fields (exactIn upd : Bool) (acc : Accum) (denomIn : Denom) (amount : Int) (s1 : St) (ss : SwapState) :
    (finishSwap exactIn upd acc denomIn amount s1 ss).2.fees = ss.feeTotal
    ∧ (exactIn = true → (finishSwap exactIn upd acc denomIn amount s1 ss).2.amountOut = Dec.truncateInt ss.calculated)
    ∧ (exactIn = false →
        (finishSwap exactIn upd acc denomIn amount s1 ss).2.amountIn = Dec.truncateInt (Dec.ceil ss.calculated)) := by
  cases exactIn
  · exact ⟨rfl, (fun e => by cases e), (fun _ => rfl)⟩
  · exact ⟨rfl, (fun _ => rfl), (fun e => by cases e)⟩

/-- **4f. monotone bookkeeping of `computeSwap` on a store state** (`swapLoop_calculated_mono` lifted): the loop's
    `calculated`, `feeTotal`, `growthPerLiq` start at 0 and never decrease, so the reported fee total is non-negative and
    so is the computed counter-amount (amount out for exact-in, amount in for exact-out).  No `hge1`. -/
theorem computeSwap_calculated_mono_store {exactIn : Bool} {s : St} {pool : Nat} {denomIn denomOut : Denom} {amount : Int}
    {fee mLimit : Dec} {upd : Bool} {s2 : St} {o : SwapOut} {p : Pool} {Lmin : Int}
    (hI : Inv s) (hp : getPool s pool = some p)
    (hw : C04Interval.Within p.tp p.sqrtP p.tick) (hg : GridOK p.tp s pool p.tick)
    (hc : Covered s pool Lmin p.tick (decide (denomIn = p.base))) (hLmin : 0 < Lmin)
    (hf0 : 0 ≤ fee.raw) (hf1 : fee.raw < PREC)
    (hlim : ∀ lim, sqrtPriceLimit mLimit (decide (denomIn = p.base)) = .ok lim →
      (exactIn = false ∧ denomIn = p.base) ∨ LimitOutside p.tp s pool p.tick (decide (denomIn = p.base)) lim)
    (hbig : ∀ lim, sqrtPriceLimit mLimit (decide (denomIn = p.base)) = .ok lim →
      exactIn = false → denomIn ≠ p.base → PREC + lim.raw < 2 * (p.sqrtP.raw * Lmin))
    (h : computeSwap exactIn s pool denomIn denomOut amount fee mLimit upd = .ok (s2, o)) :
    0 ≤ o.fees.raw ∧ (exactIn = true → 0 ≤ o.amountOut) ∧ (exactIn = false → 0 ≤ o.amountIn) := by
  obtain ⟨p', acc, lim, s1, ss, hp', _, hlimv, hval, hloop, _, hfin⟩ := computeSwap_ok_inv_full h
  have : p' = p := by rw [hp] at hp'; cases hp'; rfl
  subst this
  have hp0 := price_pos hg hw
  have hiter := iterOK_store (bfq := decide (denomIn = p'.base)) hI hp hw hg hc
  have hside : onSide (decide (denomIn = p'.base)) (ss0Of p' amount).sqrtP lim ∧
      (decide (denomIn = p'.base) = true → 0 < lim.raw) := by
    by_cases hb : denomIn = p'.base
    · rw [if_pos hb] at hval
      have hv := Sunrise.C05.validate_bfq lim fee lim p'.sqrtP hval
      have := MinSqrtPrice_raw
      simp only [hb, decide_true, onSide, if_true, ss0Of]
      exact ⟨hv.2, fun _ => by omega⟩
    · rw [if_neg hb] at hval
      have hv := Sunrise.C05.validate_qfb lim fee lim p'.sqrtP hval
      simp only [hb, decide_false, onSide, Bool.false_eq_true, if_false, ss0Of]
      exact ⟨hv.1, fun e => by cases e⟩
  have hmono := swapLoop_calculated_mono (ss := ss0Of p' amount) hf0 hf1 hside.2 hp0 hside.1 hLmin hiter
    ((hlim lim hlimv).imp (fun hh => ⟨hh.1, by simp [hh.2]⟩) ticksWithin_of_limitOutside)
    (fun e b => hbig lim hlimv e (by simpa using b)) hloop
  have hf := finishSwap_fields exactIn upd acc denomIn amount s1 ss
  rw [← hfin] at hf
  simp only [ss0Of, Dec.zero] at hmono
  refine ⟨by rw [hf.1]; exact hmono.2.1, fun e => ?_, fun e => ?_⟩
  · rw [hf.2.1 e]; exact (Dec.truncateInt_nonneg_bounds _ hmono.1).2.2
  · rw [hf.2.2 e]
    have hc := (Dec.ceil_nonneg_bounds ss.calculated hmono.1).1
    exact (Dec.truncateInt_nonneg_bounds _ (by omega)).2.2


/-- **4g. reachable states** (`C04Store.ReachableP`: histories of the store-level model whose swaps satisfy the proved-partial
    side condition): 4a with the invariant discharged by `C04Store.inv_reachable_partial` -/
theorem computeSwap_price_direction_reachable {exactIn : Bool} {s : St} {pool : Nat} {denomIn denomOut : Denom} {amount : Int}
    {fee mLimit : Dec} {upd : Bool} {s2 : St} {o : SwapOut} {p : Pool} {Lmin : Int}
    (hR : Sunrise.C04Store.ReachableP s) (hp : getPool s pool = some p)
    (hw : C04Interval.Within p.tp p.sqrtP p.tick) (hg : GridOK p.tp s pool p.tick)
    (hc : Covered s pool Lmin p.tick (decide (denomIn = p.base))) (hLmin : 0 < Lmin)
    (hf0 : 0 ≤ fee.raw) (hf1 : fee.raw < PREC)
    (hlim : ∀ lim, sqrtPriceLimit mLimit (decide (denomIn = p.base)) = .ok lim →
      (exactIn = false ∧ denomIn = p.base) ∨ LimitOutside p.tp s pool p.tick (decide (denomIn = p.base)) lim)
    (hge1 : ∀ lim, sqrtPriceLimit mLimit (decide (denomIn = p.base)) = .ok lim →
      exactIn = true → denomIn = p.base → PREC ≤ lim.raw)
    (hbig : ∀ lim, sqrtPriceLimit mLimit (decide (denomIn = p.base)) = .ok lim →
      exactIn = false → denomIn ≠ p.base → PREC + lim.raw < 2 * (p.sqrtP.raw * Lmin))
    (h : computeSwap exactIn s pool denomIn denomOut amount fee mLimit upd = .ok (s2, o)) :
    (denomIn = p.base → MinSqrtPrice.raw ≤ o.sqrtP.raw ∧ o.sqrtP.raw ≤ p.sqrtP.raw)
    ∧ (denomIn ≠ p.base → p.sqrtP.raw ≤ o.sqrtP.raw ∧ o.sqrtP.raw ≤ MaxSqrtPrice.raw) :=
  computeSwap_price_direction_store (Sunrise.C04Store.inv_reachable_partial hR) hp hw hg hc hLmin hf0 hf1 hlim hge1 hbig h

/-! ### 5. non-vacuity on an executed history (`C04Store.h3`: pool 0 on the ×10 grid, positions [-1,1) and [0,2),
    price 1.0 = the price of tick 0, cursor 0; stored ticks -1, 0, 1, 2) -/
section Examples
open Sunrise.C04Store Sunrise.C04Interval

deriving instance DecidableEq for Sunrise.CL.Pool

def poolH3 : Pool := ⟨0, "base", "quote", ⟨3000000000000000⟩, tp10, 0, ⟨PREC⟩, ⟨2018030851129819925350125⟩⟩

theorem inv_h3 : Inv h3 := inv_reachable_partial (reachableP_of_noSwap h3_reachable)
theorem pool_h3 : getPool h3 0 = some poolH3 := by decide +kernel
theorem ticks_h3 : ticksOf h3 0 = [-1, 0, 1, 2] := by decide +kernel

theorem stored_h3 {u : Int} (h : Stored h3 0 u) : u = -1 ∨ u = 0 ∨ u = 1 ∨ u = 2 := by
  obtain ⟨x, hx, hp, ht⟩ := h
  have : u ∈ ticksOf h3 0 := by
    unfold ticksOf
    exact List.mem_map.mpr ⟨x, List.mem_filter.mpr ⟨hx, by simpa using hp⟩, ht⟩
  rw [ticks_h3] at this
  simpa using this

/-- the four grid prices in use (computed once in C04Interval by `decide +kernel`) -/
theorem sp_h3 {t : Int} (ht : t = -1 ∨ t = 0 ∨ t = 1 ∨ t = 2) {a : Dec} (h : tickToSqrtPrice t tp10 = .ok a) :
    a.raw = (if t = -1 then 316227766016837933 else if t = 0 then 1000000000000000000
             else if t = 1 then 3162277660168379332 else 10000000000000000000) := by
  rcases ht with e | e | e | e <;> subst e
  · have := res_ok_inj (h.symm.trans sp_m1); subst this; rfl
  · have := res_ok_inj (h.symm.trans sp_0); subst this; rfl
  · have := res_ok_inj (h.symm.trans sp_1); subst this; rfl
  · have := res_ok_inj (h.symm.trans sp_2); subst this; rfl

/-- the grid assumption HOLDS on the executed state -/
theorem grid_h3 : GridOK tp10 h3 0 0 := by
  have hin : ∀ t : Int, (t = 0 ∨ t = 0 + 1 ∨ Stored h3 0 t) → (t = -1 ∨ t = 0 ∨ t = 1 ∨ t = 2) := by
    intro t h
    rcases h with e | e | e
    · omega
    · omega
    · exact stored_h3 e
  constructor
  · intro t u a b ht hu hlt ha hb
    have h1 := hin t ht
    have h2 := hin u hu
    have ea := sp_h3 h1 ha
    have eb := sp_h3 h2 hb
    rw [ea, eb]
    rcases h1 with e | e | e | e <;> rcases h2 with f | f | f | f <;> subst e <;> subst f <;> omega
  · intro t a ht ha
    have h1 : t = -1 ∨ t = 0 ∨ t = 1 ∨ t = 2 := by
      rcases ht with e | e
      · omega
      · exact stored_h3 e
    have ea := sp_h3 h1 ha
    rw [ea]
    rcases h1 with e | e | e | e <;> subst e <;> decide

/-- the price-in-interval invariant HOLDS on the executed state (price = price of the cursor tick) -/
theorem within_h3 : Within poolH3.tp poolH3.sqrtP poolH3.tick := ⟨⟨PREC⟩, sp_0, Int.le_refl _, Or.inl rfl⟩

/-- `IterOK` for both directions on the executed state, with NO assumption (coverage with `Lmin = 1` from `Inv`) -/
example (bfq : Bool) : C05Loop.IterOK bfq tp10 1 poolH3.sqrtP poolH3.liq (tickIter h3 0 0 bfq) :=
  iterOK_store inv_h3 pool_h3 within_h3 grid_h3 (covered_one inv_h3 0 0 bfq)

/-- coverage with a large `Lmin` (10 units of liquidity) on the executed state: a statement about the positions only -/
theorem covered_h3 (bfq : Bool) : Covered h3 0 (10 * PREC) 0 bfq := by
  apply covered_of_minLiq
  have : (h3.positions.all fun x => decide (10 * PREC ≤ x.liq.raw)) = true := by decide +kernel
  intro x hx _
  exact of_decide_eq_true (List.all_eq_true.mp this x hx)

theorem csU_price : outPrice (computeSwap true h3 0 "quote" "base" 5000000 ⟨3000000000000000⟩ (multipliedPriceLimit false) true)
    = 4280898460168379325 := by decide +kernel
theorem csDn_price : outPrice (computeSwap false h3 0 "base" "quote" 800000 ⟨3000000000000000⟩ (multipliedPriceLimit true) true)
    = 452982212813470346 := by decide +kernel
theorem csQO_price : outPrice (computeSwap false h3 0 "quote" "base" 1000 ⟨3000000000000000⟩ (multipliedPriceLimit false) true)
    = 1000495778237323371 := by decide +kernel
theorem csBI_price : outPrice (computeSwap true h3 0 "base" "quote" 1000 ⟨3000000000000000⟩ (multipliedPriceLimit true) true)
    = 999318743509518383 := by decide +kernel

/-- 4c applies to a run that CROSSES the initialised tick 1 (price √10 ≈ 3.16 → final 4.28): the bounds on the reported
    price are obtained from the theorem, not by evaluation -/
example : ∃ s2 o, computeSwap true h3 0 "quote" "base" 5000000 ⟨3000000000000000⟩ (multipliedPriceLimit false) true = .ok (s2, o)
    ∧ o.sqrtP.raw = 4280898460168379325 ∧ poolH3.sqrtP.raw ≤ o.sqrtP.raw ∧ o.sqrtP.raw ≤ MaxSqrtPrice.raw := by
  obtain ⟨s2, o, hok, hpv⟩ := ok_of_outPrice (by decide) csU_price
  exact ⟨s2, o, hok, hpv, computeSwap_direction_qfb_exactIn_store inv_h3 pool_h3 within_h3 grid_h3 (by decide) (by decide)
    (Or.inr rfl) (by decide) hok⟩

/-- 4d applies to a downward exact-out run that crosses the CURSOR tick 0 itself (the bfq iterator starts with it) -/
example : ∃ s2 o, computeSwap false h3 0 "base" "quote" 800000 ⟨3000000000000000⟩ (multipliedPriceLimit true) true = .ok (s2, o)
    ∧ o.sqrtP.raw = 452982212813470346 ∧ MinSqrtPrice.raw ≤ o.sqrtP.raw ∧ o.sqrtP.raw ≤ poolH3.sqrtP.raw := by
  obtain ⟨s2, o, hok, hpv⟩ := ok_of_outPrice (by decide) csDn_price
  exact ⟨s2, o, hok, hpv, computeSwap_direction_bfq_exactOut_store inv_h3 pool_h3 within_h3 grid_h3 (by decide) (by decide)
    rfl hok⟩

/-- 4b applies to quote-for-base exact-out: `hbig` is satisfiable with `Lmin` = 10 units of liquidity -/
example : ∃ s2 o, computeSwap false h3 0 "quote" "base" 1000 ⟨3000000000000000⟩ (multipliedPriceLimit false) true = .ok (s2, o)
    ∧ poolH3.sqrtP.raw ≤ o.sqrtP.raw ∧ o.sqrtP.raw ≤ MaxSqrtPrice.raw := by
  obtain ⟨s2, o, hok, _⟩ := ok_of_outPrice (by decide) csQO_price
  exact ⟨s2, o, hok, (computeSwap_price_direction_store_default inv_h3 pool_h3 within_h3 grid_h3 (covered_h3 _) (by decide)
    (by decide) (by decide) (Or.inr rfl) (by decide) (fun _ _ => by decide) hok).2 (by decide)⟩

/-- 4f and 4e apply to base-for-quote exact-in at the default limit (the mode for which the DIRECTION needs `hge1`) -/
example : ∃ s2 o, computeSwap true h3 0 "base" "quote" 1000 ⟨3000000000000000⟩ (multipliedPriceLimit true) true = .ok (s2, o)
    ∧ 0 ≤ o.fees.raw ∧ 0 ≤ o.amountOut ∧ MinSqrtPrice.raw ≤ o.sqrtP.raw := by
  obtain ⟨s2, o, hok, _⟩ := ok_of_outPrice (by decide) csBI_price
  have hm := computeSwap_calculated_mono_store inv_h3 pool_h3 within_h3 grid_h3 (covered_one inv_h3 0 0 _) (by decide)
    (by decide) (by decide)
    (fun lim hl => Or.inr (by
      have : lim = boundOf (decide (("base" : Denom) = poolH3.base)) :=
        res_ok_inj (hl.symm.trans (sqrtPriceLimit_default (Or.inr rfl)))
      subst this; exact limitOutside_bound grid_h3 _))
    (fun _ _ _ hn => absurd rfl hn) hok
  exact ⟨s2, o, hok, hm.1, hm.2.1 rfl,
    (computeSwap_price_within_bounds_store pool_h3 grid_h3 (Or.inr rfl) hok).1 rfl⟩

/-- the iterator on the executed state, both directions (cf. `tickIter_sorted`) -/
example : (tickIter h3 0 0 true).map (·.tick) = [0, -1] ∧ (tickIter h3 0 0 false).map (·.tick) = [1, 2] := by decide +kernel

/-- running liquidity along the upward path: start, after tick 1, after tick 2 (= 0: beyond the outermost tick no position
    is in range — why `Covered` cannot demand a covering position for EVERY bucket) -/
example : ((tickIter h3 0 0 false).take 2).foldl (fun (acc : Dec) ti => Dec.add acc (C05Loop.netOf false ti)) poolH3.liq = ⟨0⟩ := by
  decide +kernel

end Examples

#print axioms tickIter_sorted
#print axioms cross_liq
#print axioms pathLiq
#print axioms covered_one
#print axioms iterOK_store
#print axioms ticksWithin_store
#print axioms computeSwap_price_direction_store
#print axioms computeSwap_price_direction_store_default
#print axioms computeSwap_direction_qfb_exactIn_store
#print axioms computeSwap_direction_bfq_exactOut_store
#print axioms computeSwap_price_within_bounds_store
#print axioms computeSwap_calculated_mono_store
#print axioms computeSwap_price_direction_reachable
#print axioms grid_h3

end Sunrise.C05Store
