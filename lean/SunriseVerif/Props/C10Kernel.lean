import SunriseVerif.Props.C10
import Mathlib.Tactic.Linarith
import Mathlib.Tactic.Ring
import Mathlib.Tactic.NormNum
import Mathlib.Tactic.Positivity
import Mathlib.Tactic.FieldSimp
import Mathlib.Algebra.Order.Field.Basic
import Mathlib.Algebra.Order.Field.Rat
/-!
C10 — the four rounding-direction statements of Spec/C10.lean (marked (T) there) as theorems for ALL arguments in
their stated range (< 10^16), about the kernels regenerated from x/shareclass/types/types.go over Model/Dec34.lean.
-/
set_option linter.unusedSimpArgs false
set_option linter.unusedVariables false
namespace Sunrise.C10
open Sunrise Sunrise.Gen.KernelsShare

/-! ## digit counts -/

theorem numDigits_pos (n : Nat) : 0 < D34.numDigits n := Nat.length_toDigits_pos

theorem lt_pow_numDigits (n : Nat) : n < 10 ^ D34.numDigits n :=
  (Nat.length_toDigits_le_iff (b := 10) (by omega) (numDigits_pos n)).1 (Nat.le_refl _)

theorem pow_numDigits_le (n : Nat) (hn : 0 < n) : 10 ^ (D34.numDigits n - 1) ≤ n := by
  by_cases h : D34.numDigits n - 1 = 0
  · rw [h]; simp; omega
  · by_contra hlt
    have h1 := (Nat.length_toDigits_le_iff (b := 10) (n := n) (by omega) (Nat.pos_of_ne_zero h)).2 (by omega)
    have h2 : (Nat.toDigits 10 n).length = D34.numDigits n := rfl
    omega

/-! ## `roundMag`: half-up to 34 digits, relative error ≤ 1/(2·10^33) -/

theorem P34_eq : D34.P34 = 10 * D34.P33 := by decide

/-- the arithmetic core of `roundMag` with the powers of ten abstracted -/
theorem round_core (K n p y m : Nat) (hK : 0 < K) (hpl : p * K ≤ n) (hn : n = p * y + m) (hm : m < p) :
    (¬ (m ≠ 0 ∧ 2 * m ≥ p) → 2 * K * (y * p) ≤ (2 * K + 1) * n ∧ 2 * K * n ≤ 2 * K * (y * p) + n)
    ∧ ((m ≠ 0 ∧ 2 * m ≥ p) → 2 * K * ((y + 1) * p) ≤ (2 * K + 1) * n ∧ 2 * K * n ≤ 2 * K * ((y + 1) * p) + n) := by
  obtain ⟨K, rfl⟩ : ∃ k, K = k + 1 := ⟨K - 1, by omega⟩
  constructor
  · intro h
    have h2 : 2 * m ≤ p := by
      by_cases h0 : m = 0
      · omega
      · have : ¬ (2 * m ≥ p) := fun h' => h ⟨h0, h'⟩
        omega
    have h3 : 2 * m * (K + 1) ≤ p * (K + 1) := Nat.mul_le_mul_right _ h2
    constructor
    · nlinarith
    · nlinarith
  · intro h
    have h2 : p ≤ 2 * m := h.2
    have h3 : 2 * (p - m) ≤ p := by omega
    have h4 : 2 * (p - m) * (K + 1) ≤ p * (K + 1) := Nat.mul_le_mul_right _ h3
    obtain ⟨d, hd⟩ : ∃ d, p = m + d := ⟨p - m, by omega⟩
    have hd' : p - m = d := by omega
    rw [hd'] at h3 h4
    subst hd
    constructor
    · nlinarith
    · nlinarith

theorem P34_pow : D34.P34 = 10 ^ 34 := by decide
theorem P33_pow : D34.P33 = 10 ^ 33 := by decide

/-- `roundMag n e = (c, e + k)` with `c·10^k` within relative error 1/(2·10^33) of `n` -/
theorem roundMag_nat (n : Nat) (e : Int) : ∃ c k : Nat, D34.roundMag n e = (c, e + (k : Int))
    ∧ 2 * D34.P33 * (c * 10 ^ k) ≤ (2 * D34.P33 + 1) * n ∧ 2 * D34.P33 * n ≤ 2 * D34.P33 * (c * 10 ^ k) + n := by
  by_cases h : n < D34.P34
  · refine ⟨n, 0, by simp [roundMag_small n e h], ?_, ?_⟩
    · simp only [Nat.pow_zero, Nat.mul_one]
      exact Nat.mul_le_mul_right _ (by omega)
    · simp only [Nat.pow_zero, Nat.mul_one]
      exact Nat.le_add_right _ _
  · have hn0 : 0 < n := by
      have : 0 < D34.P34 := by decide
      omega
    have hlt := lt_pow_numDigits n
    have hge := pow_numDigits_le n hn0
    have hnd : 35 ≤ D34.numDigits n := by
      by_contra hc
      have h1 : 10 ^ D34.numDigits n ≤ 10 ^ 34 := Nat.pow_le_pow_right (by omega) (by omega)
      rw [← P34_pow] at h1
      omega
    obtain ⟨diff, hdiff⟩ : ∃ d, D34.numDigits n = d + 34 := ⟨D34.numDigits n - 34, by omega⟩
    have hd1 : D34.numDigits n - 34 = diff := by omega
    have hd2 : D34.numDigits n - 1 = diff + 33 := by omega
    rw [hdiff, Nat.pow_add, ← P34_pow] at hlt
    rw [hd2, Nat.pow_add, ← P33_pow] at hge
    unfold D34.roundMag
    rw [if_neg h, hd1]
    dsimp only
    generalize hp : 10 ^ diff = p at hlt hge
    have hp0 : 0 < p := by rw [← hp]; exact Nat.pow_pos (by omega)
    have hdm : n = p * (n / p) + n % p := (Nat.div_add_mod n p).symm
    have hm : n % p < p := Nat.mod_lt _ hp0
    have hy : n / p < D34.P34 := (Nat.div_lt_iff_lt_mul hp0).2 (by rw [Nat.mul_comm]; exact hlt)
    have hK : 0 < D34.P33 := by decide
    obtain ⟨c1, c2⟩ := round_core D34.P33 n p (n / p) (n % p) hK hge hdm hm
    by_cases hr : n % p ≠ 0 ∧ 2 * (n % p) ≥ p
    · rw [if_pos hr]
      obtain ⟨b1, b2⟩ := c2 hr
      by_cases hc : n / p + 1 ≥ D34.P34
      · rw [if_pos hc]
        have hy1 : n / p + 1 = D34.P34 := by omega
        refine ⟨D34.P33, diff + 1, ?_, ?_, ?_⟩
        · rw [hy1]
          have : D34.P34 / 10 = D34.P33 := by decide
          rw [this]
          push_cast
          congr 1
          omega
        · rw [Nat.pow_succ, hp]
          have e1 : D34.P33 * (p * 10) = (n / p + 1) * p := by rw [hy1, P34_eq]; ring
          rw [e1]; exact b1
        · rw [Nat.pow_succ, hp]
          have e1 : D34.P33 * (p * 10) = (n / p + 1) * p := by rw [hy1, P34_eq]; ring
          rw [e1]; exact b2
      · rw [if_neg hc]
        exact ⟨n / p + 1, diff, rfl, by rw [hp]; exact b1, by rw [hp]; exact b2⟩
    · rw [if_neg hr]
      obtain ⟨b1, b2⟩ := c1 hr
      exact ⟨n / p, diff, rfl, by rw [hp]; exact b1, by rw [hp]; exact b2⟩

/-! ## `quo`: half-up to 34 digits -/

/-- alignment by digit count: afterwards dividend and divisor are within a factor of ten of each other -/
theorem align_spec (A B : Nat) (hA : 0 < A) (hB : 0 < B) :
    ∃ s t : Nat,
      (if D34.numDigits A < D34.numDigits B then A * 10 ^ (D34.numDigits B - D34.numDigits A) else A) = A * 10 ^ s ∧
      (if D34.numDigits A > D34.numDigits B then B * 10 ^ (D34.numDigits A - D34.numDigits B) else B) = B * 10 ^ t ∧
      ((D34.numDigits B : Int) - (D34.numDigits A : Int)) = (s : Int) - (t : Int) ∧
      A * 10 ^ s < 10 * (B * 10 ^ t) ∧ B * 10 ^ t < 10 * (A * 10 ^ s) := by
  have a1 := lt_pow_numDigits A
  have a2 := pow_numDigits_le A hA
  have b1 := lt_pow_numDigits B
  have b2 := pow_numDigits_le B hB
  obtain ⟨ka, hka⟩ : ∃ k, D34.numDigits A = k + 1 := ⟨D34.numDigits A - 1, by have := numDigits_pos A; omega⟩
  obtain ⟨kb, hkb⟩ : ∃ k, D34.numDigits B = k + 1 := ⟨D34.numDigits B - 1, by have := numDigits_pos B; omega⟩
  rw [hka] at a1 a2
  rw [hkb] at b1 b2
  rw [hka, hkb]
  simp only [Nat.add_sub_cancel, Nat.pow_succ] at a1 a2 b1 b2
  rcases Nat.lt_trichotomy ka kb with h | h | h
  · obtain ⟨d, rfl⟩ : ∃ d, kb = ka + d := ⟨kb - ka, by omega⟩
    refine ⟨d, 0, ?_, ?_, ?_, ?_, ?_⟩
    · rw [if_pos (by omega)]; congr 2; omega
    · rw [if_neg (by omega)]; simp
    · push_cast; omega
    · rw [Nat.pow_add] at b1 b2
      have hY : 0 < 10 ^ d := Nat.pow_pos (by omega)
      simp only [Nat.pow_zero, Nat.mul_one]
      nlinarith
    · rw [Nat.pow_add] at b1 b2
      have hY : 0 < 10 ^ d := Nat.pow_pos (by omega)
      simp only [Nat.pow_zero, Nat.mul_one]
      nlinarith
  · subst h
    refine ⟨0, 0, ?_, ?_, ?_, ?_, ?_⟩
    · rw [if_neg (by omega)]; simp
    · rw [if_neg (by omega)]; simp
    · push_cast; omega
    · simp only [Nat.pow_zero, Nat.mul_one]; omega
    · simp only [Nat.pow_zero, Nat.mul_one]; omega
  · obtain ⟨d, rfl⟩ : ∃ d, ka = kb + d := ⟨ka - kb, by omega⟩
    refine ⟨0, d, ?_, ?_, ?_, ?_, ?_⟩
    · rw [if_neg (by omega)]; simp
    · rw [if_pos (by omega)]; congr 2; omega
    · push_cast; omega
    · rw [Nat.pow_add] at a1 a2
      have hY : 0 < 10 ^ d := Nat.pow_pos (by omega)
      simp only [Nat.pow_zero, Nat.mul_one]
      nlinarith
    · rw [Nat.pow_add] at a1 a2
      have hY : 0 < 10 ^ d := Nat.pow_pos (by omega)
      simp only [Nat.pow_zero, Nat.mul_one]
      nlinarith

/-- the arithmetic core of `quo`'s long division, with the powers of ten abstracted -/
theorem quo_core (K D V q : Nat) (hV : 0 < V) (h1 : V ≤ D)
    (hq : q = if (D * K) % V ≠ 0 ∧ 2 * ((D * K) % V) ≥ V then (D * K) / V + 1 else (D * K) / V) :
    2 * K * (q * V) ≤ (2 * K + 1) * (D * K) ∧ 2 * K * (D * K) ≤ 2 * K * (q * V) + D * K := by
  have hdm : D * K = V * ((D * K) / V) + (D * K) % V := (Nat.div_add_mod _ _).symm
  have hm : (D * K) % V < V := Nat.mod_lt _ hV
  have hpl : V * K ≤ D * K := Nat.mul_le_mul_right _ h1
  by_cases hK : K = 0
  · subst hK; simp
  obtain ⟨c1, c2⟩ := round_core K (D * K) V ((D * K) / V) ((D * K) % V) (Nat.pos_of_ne_zero hK) hpl hdm hm
  by_cases hr : (D * K) % V ≠ 0 ∧ 2 * ((D * K) % V) ≥ V
  · rw [if_pos hr] at hq
    rw [hq]; exact c2 hr
  · rw [if_neg hr] at hq
    rw [hq]; exact c1 hr

theorem quo_nat (x y : D34) (ha : 0 < x.c) (hb : 0 < y.c) : ∃ q s t : Nat,
    D34.quo x y = ⟨(q : Int), x.e - y.e + (t : Int) - (s : Int) - 33⟩
    ∧ 2 * D34.P33 * (q * (y.c.natAbs * 10 ^ t)) ≤ (2 * D34.P33 + 1) * (x.c.natAbs * 10 ^ s * D34.P33)
    ∧ 2 * D34.P33 * (x.c.natAbs * 10 ^ s * D34.P33) ≤ 2 * D34.P33 * (q * (y.c.natAbs * 10 ^ t)) + x.c.natAbs * 10 ^ s * D34.P33 := by
  have hb0 : ¬ (y.c = 0) := by omega
  have hb1 : ¬ (y.c < 0) := by omega
  have ha0 : ¬ (x.c = 0) := by omega
  have ha1 : ¬ (x.c < 0) := by omega
  obtain ⟨s, t, hs, ht, hadj, h1, h2⟩ := align_spec x.c.natAbs y.c.natAbs (by omega) (by omega)
  simp only [D34.quo, hb0, ha0, if_false, ha1, hb1, decide_false, bne_self_eq_false, D34.sgn,
    Bool.false_eq_true]
  rw [hs, ht, hadj]
  have hV : 0 < y.c.natAbs * 10 ^ t := Nat.mul_pos (by omega) (Nat.pow_pos (by omega))
  by_cases hlt : x.c.natAbs * 10 ^ s < y.c.natAbs * 10 ^ t
  · simp only [hlt, decide_true, if_true]
    have hge : y.c.natAbs * 10 ^ t ≤ x.c.natAbs * 10 ^ s * 10 := by omega
    have hc := quo_core D34.P33 (x.c.natAbs * 10 ^ s * 10) (y.c.natAbs * 10 ^ t) _ hV hge rfl
    have e10 : x.c.natAbs * 10 ^ (s + 1) = x.c.natAbs * 10 ^ s * 10 := by rw [Nat.pow_succ, Nat.mul_assoc]
    refine ⟨(if (x.c.natAbs * 10 ^ s * 10) * D34.P33 % (y.c.natAbs * 10 ^ t) ≠ 0 ∧ 2 * ((x.c.natAbs * 10 ^ s * 10) * D34.P33 % (y.c.natAbs * 10 ^ t)) ≥ y.c.natAbs * 10 ^ t then (x.c.natAbs * 10 ^ s * 10) * D34.P33 / (y.c.natAbs * 10 ^ t) + 1 else (x.c.natAbs * 10 ^ s * 10) * D34.P33 / (y.c.natAbs * 10 ^ t)), s + 1, t, ?_, ?_, ?_⟩
    · congr 1
      push_cast
      omega
    · rw [e10]; exact hc.1
    · rw [e10]; exact hc.2
  · simp only [hlt, decide_false, if_false, Bool.false_eq_true]
    have hge : y.c.natAbs * 10 ^ t ≤ x.c.natAbs * 10 ^ s := by omega
    have hc := quo_core D34.P33 (x.c.natAbs * 10 ^ s) (y.c.natAbs * 10 ^ t) _ hV hge rfl
    refine ⟨(if (x.c.natAbs * 10 ^ s) * D34.P33 % (y.c.natAbs * 10 ^ t) ≠ 0 ∧ 2 * ((x.c.natAbs * 10 ^ s) * D34.P33 % (y.c.natAbs * 10 ^ t)) ≥ y.c.natAbs * 10 ^ t then (x.c.natAbs * 10 ^ s) * D34.P33 / (y.c.natAbs * 10 ^ t) + 1 else (x.c.natAbs * 10 ^ s) * D34.P33 / (y.c.natAbs * 10 ^ t)), s, t, ?_, hc.1, hc.2⟩
    congr 1
    omega

/-! ## values in ℚ and relative error -/

/-- 2·10^33: the relative error of one 34-digit half-up rounding is at most 1/K -/
def K : ℚ := 2000000000000000000000000000000000

theorem K_eq : K = 2 * (D34.P33 : ℚ) := by norm_num [K, D34.P33]
theorem K_ge : (1 : ℚ) ≤ K := by norm_num [K]
theorem K_pos : (0 : ℚ) < K := by norm_num [K]

/-- the rational value of a decimal -/
def val (x : D34) : ℚ := (x.c : ℚ) * (10 : ℚ) ^ x.e

/-- `w` is `x` rounded to 34 significant digits (any direction up to half a unit in the 34th digit) -/
def Approx (w x : ℚ) : Prop := K * w ≤ (K + 1) * x ∧ K * x ≤ K * w + x

theorem approx_of_nat (c n : Nat) (z : ℚ) (hz : 0 ≤ z)
    (b1 : 2 * D34.P33 * c ≤ (2 * D34.P33 + 1) * n) (b2 : 2 * D34.P33 * n ≤ 2 * D34.P33 * c + n) :
    Approx ((c : ℚ) * z) ((n : ℚ) * z) := by
  have b1' : 2 * (D34.P33 : ℚ) * c ≤ (2 * (D34.P33 : ℚ) + 1) * n := by exact_mod_cast b1
  have b2' : 2 * (D34.P33 : ℚ) * n ≤ 2 * (D34.P33 : ℚ) * c + n := by exact_mod_cast b2
  rw [← K_eq] at b1' b2'
  have c1 := mul_le_mul_of_nonneg_right b1' hz
  have c2 := mul_le_mul_of_nonneg_right b2' hz
  constructor
  · linarith
  · linarith

theorem cast_natAbs (c : Int) (h : 0 ≤ c) : ((c.natAbs : ℕ) : ℚ) = (c : ℚ) := by
  have : ((c.natAbs : ℕ) : ℤ) = c := Int.natAbs_of_nonneg h
  calc ((c.natAbs : ℕ) : ℚ) = (((c.natAbs : ℕ) : ℤ) : ℚ) := (Int.cast_natCast _).symm
    _ = (c : ℚ) := by rw [this]

theorem ten_ne : (10 : ℚ) ≠ 0 := by norm_num

theorem round_spec (x : D34) (hx : 0 ≤ x.c) : 0 ≤ (D34.round x).c ∧ Approx (val (D34.round x)) (val x) := by
  obtain ⟨c, k, hr, b1, b2⟩ := roundMag_nat x.c.natAbs x.e
  have hneg : ¬ (x.c < 0) := by omega
  have hround : D34.round x = ⟨(c : Int), x.e + (k : Int)⟩ := by
    simp only [D34.round, hr, D34.sgn, hneg, decide_false, Bool.false_eq_true, if_false]
  rw [hround]
  refine ⟨Int.natCast_nonneg c, ?_⟩
  have hz : (0 : ℚ) ≤ (10 : ℚ) ^ x.e := zpow_nonneg (by norm_num) _
  have h := approx_of_nat (c * 10 ^ k) x.c.natAbs ((10 : ℚ) ^ x.e) hz b1 b2
  rw [cast_natAbs x.c hx] at h
  have e1 : val ⟨(c : Int), x.e + (k : Int)⟩ = ((c * 10 ^ k : ℕ) : ℚ) * (10 : ℚ) ^ x.e := by
    simp only [val]
    rw [zpow_add₀ ten_ne, zpow_natCast]
    push_cast
    ring
  rw [e1]
  exact h

theorem mul_spec (x y : D34) (hx : 0 ≤ x.c) (hy : 0 ≤ y.c) :
    0 ≤ (D34.mul x y).c ∧ Approx (val (D34.mul x y)) (val x * val y) := by
  have h := round_spec ⟨x.c * y.c, x.e + y.e⟩ (Int.mul_nonneg hx hy)
  have e1 : val ⟨x.c * y.c, x.e + y.e⟩ = val x * val y := by
    simp only [val]
    rw [zpow_add₀ ten_ne]
    push_cast
    ring
  rw [e1] at h
  exact h

theorem val_ofInt (a : Int) : val (D34.ofInt a) = (a : ℚ) := by
  simp [val, D34.ofInt]

theorem quo_spec (a b : Int) (ha : 0 ≤ a) (hb : 0 < b) :
    0 ≤ (D34.quo (D34.ofInt a) (D34.ofInt b)).c
    ∧ Approx (val (D34.quo (D34.ofInt a) (D34.ofInt b))) ((a : ℚ) / (b : ℚ)) := by
  refine ⟨quo_nonneg a b ha hb, ?_⟩
  by_cases ha0 : a = 0
  · have hb0 : ¬ (b = 0) := by omega
    subst ha0
    simp [D34.quo, D34.ofInt, hb0, val, Approx]
  · have hapos : 0 < a := by omega
    obtain ⟨q, s, t, hq, b1, b2⟩ := quo_nat (D34.ofInt a) (D34.ofInt b) hapos hb
    rw [hq]
    simp only [D34.ofInt] at b1 b2 ⊢
    have b1' : 2 * (D34.P33 : ℚ) * ((q : ℚ) * ((b.natAbs : ℚ) * (10 : ℚ) ^ t))
        ≤ (2 * (D34.P33 : ℚ) + 1) * ((a.natAbs : ℚ) * (10 : ℚ) ^ s * (D34.P33 : ℚ)) := by exact_mod_cast b1
    have b2' : 2 * (D34.P33 : ℚ) * ((a.natAbs : ℚ) * (10 : ℚ) ^ s * (D34.P33 : ℚ))
        ≤ 2 * (D34.P33 : ℚ) * ((q : ℚ) * ((b.natAbs : ℚ) * (10 : ℚ) ^ t)) + (a.natAbs : ℚ) * (10 : ℚ) ^ s * (D34.P33 : ℚ) := by
      exact_mod_cast b2
    rw [← K_eq, cast_natAbs a ha, cast_natAbs b hb.le] at b1' b2'
    have hP : (D34.P33 : ℚ) = (10 : ℚ) ^ (33 : ℕ) := by norm_num [D34.P33]
    have hbq : (0 : ℚ) < (b : ℚ) := by exact_mod_cast hb
    have hu : (0 : ℚ) < (10 : ℚ) ^ s * (D34.P33 : ℚ) := by rw [hP]; positivity
    have e1 : val ⟨(q : Int), (0 : Int) - 0 + (t : Int) - (s : Int) - 33⟩
        = (q : ℚ) * (10 : ℚ) ^ t / ((10 : ℚ) ^ s * (D34.P33 : ℚ)) := by
      simp only [val]
      have e2 : (0 : Int) - 0 + (t : Int) - (s : Int) - 33 = (t : Int) - ((s : Int) + ((33 : ℕ) : Int)) := by
        push_cast; ring
      rw [e2, zpow_sub₀ ten_ne, zpow_add₀ ten_ne, zpow_natCast, zpow_natCast, zpow_natCast, hP]
      push_cast
      ring
    rw [e1]
    unfold Approx
    constructor
    · have : K * ((q : ℚ) * (10 : ℚ) ^ t / ((10 : ℚ) ^ s * (D34.P33 : ℚ))) * ((10 : ℚ) ^ s * (D34.P33 : ℚ) * (b : ℚ))
          ≤ (K + 1) * ((a : ℚ) / (b : ℚ)) * ((10 : ℚ) ^ s * (D34.P33 : ℚ) * (b : ℚ)) := by
        have l : K * ((q : ℚ) * (10 : ℚ) ^ t / ((10 : ℚ) ^ s * (D34.P33 : ℚ))) * ((10 : ℚ) ^ s * (D34.P33 : ℚ) * (b : ℚ))
            = K * ((q : ℚ) * ((b : ℚ) * (10 : ℚ) ^ t)) := by field_simp
        have r : (K + 1) * ((a : ℚ) / (b : ℚ)) * ((10 : ℚ) ^ s * (D34.P33 : ℚ) * (b : ℚ))
            = (K + 1) * ((a : ℚ) * (10 : ℚ) ^ s * (D34.P33 : ℚ)) := by field_simp
        rw [l, r]; exact b1'
      exact le_of_mul_le_mul_right this (mul_pos hu hbq)
    · have : K * ((a : ℚ) / (b : ℚ)) * ((10 : ℚ) ^ s * (D34.P33 : ℚ) * (b : ℚ))
          ≤ (K * ((q : ℚ) * (10 : ℚ) ^ t / ((10 : ℚ) ^ s * (D34.P33 : ℚ))) + (a : ℚ) / (b : ℚ)) * ((10 : ℚ) ^ s * (D34.P33 : ℚ) * (b : ℚ)) := by
        have l : K * ((a : ℚ) / (b : ℚ)) * ((10 : ℚ) ^ s * (D34.P33 : ℚ) * (b : ℚ))
            = K * ((a : ℚ) * (10 : ℚ) ^ s * (D34.P33 : ℚ)) := by field_simp
        have r : (K * ((q : ℚ) * (10 : ℚ) ^ t / ((10 : ℚ) ^ s * (D34.P33 : ℚ))) + (a : ℚ) / (b : ℚ)) * ((10 : ℚ) ^ s * (D34.P33 : ℚ) * (b : ℚ))
            = K * ((q : ℚ) * ((b : ℚ) * (10 : ℚ) ^ t)) + (a : ℚ) * (10 : ℚ) ^ s * (D34.P33 : ℚ) := by field_simp
        rw [l, r]; exact b2'
      exact le_of_mul_le_mul_right this (mul_pos hu hbq)

theorem trim_spec (x : D34) (hx : 0 ≤ x.c) :
    ((D34.sdkIntTrim x : ℤ) : ℚ) ≤ val x ∧ val x < ((D34.sdkIntTrim x : ℤ) : ℚ) + 1 := by
  unfold D34.sdkIntTrim val
  by_cases he : x.e ≥ 0
  · rw [if_pos he]
    have e1 : (10 : ℚ) ^ x.e = (10 : ℚ) ^ x.e.toNat := by
      conv_lhs => rw [← Int.toNat_of_nonneg he]
      exact zpow_natCast _ _
    rw [e1]
    push_cast
    constructor <;> linarith
  · rw [if_neg he]
    obtain ⟨k, hk⟩ : ∃ k : ℕ, x.e = -(k : ℤ) := ⟨(-x.e).toNat, by omega⟩
    have hk' : (-x.e).toNat = k := by omega
    rw [hk', Int.tdiv_eq_ediv_of_nonneg hx, hk, zpow_neg, zpow_natCast]
    have hd : (0 : ℤ) < 10 ^ k := by positivity
    have h1 := Int.ediv_mul_le x.c (ne_of_gt hd)
    have h2 := Int.lt_ediv_add_one_mul_self x.c hd
    have h1' : ((x.c / 10 ^ k : ℤ) : ℚ) * (10 : ℚ) ^ k ≤ (x.c : ℚ) := by exact_mod_cast h1
    have h2' : (x.c : ℚ) < (((x.c / 10 ^ k : ℤ) : ℚ) + 1) * (10 : ℚ) ^ k := by exact_mod_cast h2
    have hp : (0 : ℚ) < (10 : ℚ) ^ k := by positivity
    constructor
    · rw [← div_eq_mul_inv, le_div_iff₀ hp]; exact h1'
    · rw [← div_eq_mul_inv, div_lt_iff₀ hp]; exact h2'

/-! ## two roundings cannot carry a conversion past the next integer -/

theorem range_small (K T : ℚ) (hK : 1 ≤ K) (hT : 0 ≤ T) (hr : 20 * T ≤ K) : (2 * K + 1) * T < K * K := by
  have g1 : (2 * K + 1) * (20 * T) ≤ (2 * K + 1) * K := mul_le_mul_of_nonneg_left hr (by linarith)
  have g2 : K * (2 * K + 1) < K * (20 * K) := mul_lt_mul_of_pos_left (by linarith) (by linarith)
  nlinarith

theorem conv_upper (a b s r : ℤ) (ρ w : ℚ) (ha : 0 ≤ a) (hb : 0 < b) (hs : 0 ≤ s)
    (hrange : 20 * ((a : ℚ) * (s : ℚ)) ≤ K)
    (u1 : K * ρ ≤ (K + 1) * ((a : ℚ) / (b : ℚ))) (v1 : K * w ≤ (K + 1) * (ρ * (s : ℚ))) (h3 : (r : ℚ) ≤ w) :
    r * b ≤ a * s := by
  have hK := K_pos
  have hK1 := K_ge
  have hbq : (0 : ℚ) < b := by exact_mod_cast hb
  have hsq : (0 : ℚ) ≤ s := by exact_mod_cast hs
  have haq : (0 : ℚ) ≤ a := by exact_mod_cast ha
  have hXb : (a : ℚ) / (b : ℚ) * b = a := div_mul_cancel₀ _ (ne_of_gt hbq)
  generalize (a : ℚ) / (b : ℚ) = X at u1 hXb
  generalize K = k at *
  have A := mul_le_mul_of_nonneg_left v1 hK.le
  have B := mul_le_mul_of_nonneg_left u1 (mul_nonneg (by linarith : (0 : ℚ) ≤ k + 1) hsq)
  have C : k * k * w ≤ (k + 1) * (k + 1) * (X * s) := by nlinarith
  have D := mul_le_mul_of_nonneg_right C hbq.le
  have E : (k + 1) * (k + 1) * (X * s) * b = (k + 1) * (k + 1) * ((a : ℚ) * s) := by rw [← hXb]; ring
  have F : k * k * ((r : ℚ) * b) ≤ k * k * (w * b) :=
    mul_le_mul_of_nonneg_left (mul_le_mul_of_nonneg_right h3 hbq.le) (by positivity)
  have T0 : (0 : ℚ) ≤ (a : ℚ) * s := mul_nonneg haq hsq
  have G := range_small k _ hK1 T0 hrange
  have H : k * k * ((r : ℚ) * b) < k * k * ((a : ℚ) * s + 1) := by nlinarith
  have I : (r : ℚ) * b < (a : ℚ) * s + 1 := lt_of_mul_lt_mul_left H (by positivity)
  have J : r * b < a * s + 1 := by exact_mod_cast I
  exact Int.lt_add_one_iff.mp J

theorem conv_lower (a b s r : ℤ) (ρ w : ℚ) (ha : 0 ≤ a) (hb : 0 < b) (hs : 0 ≤ s)
    (hrange : 20 * ((a : ℚ) * (s : ℚ)) ≤ K)
    (u2 : K * ((a : ℚ) / (b : ℚ)) ≤ K * ρ + (a : ℚ) / (b : ℚ)) (v2 : K * (ρ * (s : ℚ)) ≤ K * w + ρ * (s : ℚ))
    (h4 : w < (r : ℚ) + 1) :
    a * s ≤ (r + 1) * b := by
  have hK := K_pos
  have hK1 := K_ge
  have hbq : (0 : ℚ) < b := by exact_mod_cast hb
  have hsq : (0 : ℚ) ≤ s := by exact_mod_cast hs
  have haq : (0 : ℚ) ≤ a := by exact_mod_cast ha
  have hXb : (a : ℚ) / (b : ℚ) * b = a := div_mul_cancel₀ _ (ne_of_gt hbq)
  generalize (a : ℚ) / (b : ℚ) = X at u2 hXb
  generalize K = k at *
  have u2' : (k - 1) * X ≤ k * ρ := by linarith
  have v2' : (k - 1) * (ρ * s) ≤ k * w := by linarith
  have A := mul_le_mul_of_nonneg_left v2' hK.le
  have B := mul_le_mul_of_nonneg_left u2' (mul_nonneg (by linarith : (0 : ℚ) ≤ k - 1) hsq)
  have C : (k - 1) * (k - 1) * (X * s) ≤ k * k * w := by nlinarith
  have D := mul_le_mul_of_nonneg_right C hbq.le
  have E : (k - 1) * (k - 1) * (X * s) * b = (k - 1) * (k - 1) * ((a : ℚ) * s) := by rw [← hXb]; ring
  have F : k * k * (w * b) < k * k * (((r : ℚ) + 1) * b) :=
    mul_lt_mul_of_pos_left (mul_lt_mul_of_pos_right h4 hbq) (by positivity)
  have T0 : (0 : ℚ) ≤ (a : ℚ) * s := mul_nonneg haq hsq
  have G := range_small k _ hK1 T0 hrange
  have H : k * k * ((a : ℚ) * s - 1) < k * k * (((r : ℚ) + 1) * b) := by nlinarith
  have I : (a : ℚ) * s - 1 < ((r : ℚ) + 1) * b := lt_of_mul_lt_mul_left H (by positivity)
  have J : a * s < (r + 1) * b + 1 := by
    have : (a : ℚ) * s < ((r : ℚ) + 1) * b + 1 := by linarith
    exact_mod_cast this
  exact Int.lt_add_one_iff.mp J

theorem range_B30 (a s : ℤ) (ha : 0 ≤ a) (hs : 0 ≤ s) (ha' : a < B30) (hs' : s < B30) :
    20 * ((a : ℚ) * (s : ℚ)) ≤ K := by
  have h1 : (a : ℚ) ≤ 10000000000000000 := by
    have : a ≤ 10000000000000000 := by unfold B30 at ha'; omega
    exact_mod_cast this
  have h2 : (s : ℚ) ≤ 10000000000000000 := by
    have : s ≤ 10000000000000000 := by unfold B30 at hs'; omega
    exact_mod_cast this
  have h3 : (0 : ℚ) ≤ a := by exact_mod_cast ha
  have h4 : (0 : ℚ) ≤ s := by exact_mod_cast hs
  have h5 : (a : ℚ) * s ≤ 10000000000000000 * 10000000000000000 := mul_le_mul h1 h2 h4 (by norm_num)
  unfold K
  linarith

/-- the common shape of both conversions: ⌊round(round(a/b)·s)⌋ is ⌊a·s/b⌋ or one less -/
theorem conv_core (a b s : Int) (ha : 0 ≤ a) (hb : 0 < b) (hs : 0 ≤ s) (ha' : a < B30) (hs' : s < B30) :
    D34.sdkIntTrim (D34.mul (D34.quo (D34.ofInt a) (D34.ofInt b)) (D34.ofInt s)) * b ≤ a * s
    ∧ a * s ≤ (D34.sdkIntTrim (D34.mul (D34.quo (D34.ofInt a) (D34.ofInt b)) (D34.ofInt s)) + 1) * b := by
  obtain ⟨q0, qA⟩ := quo_spec a b ha hb
  obtain ⟨m0, mA⟩ := mul_spec (D34.quo (D34.ofInt a) (D34.ofInt b)) (D34.ofInt s) q0 hs
  obtain ⟨t1, t2⟩ := trim_spec _ m0
  rw [val_ofInt] at mA
  have hr := range_B30 a s ha hs ha' hs'
  exact ⟨conv_upper a b s _ _ _ ha hb hs hr qA.1 mA.1 t1, conv_lower a b s _ _ _ ha hb hs hr qA.2 mA.2 t2⟩

theorem mul_comm' (x y : D34) : D34.mul x y = D34.mul y x := by
  simp only [D34.mul, Int.mul_comm, Int.add_comm]

/-! ## the conversions -/

theorem share_eq (totalShare totalBonded amount : Int) (h1 : 0 < totalShare) (h2 : 0 < totalBonded) :
    CalculateShareByAmount totalShare totalBonded amount
      = D34.sdkIntTrim (D34.mul (D34.quo (D34.ofInt amount) (D34.ofInt totalBonded)) (D34.ofInt totalShare)) := by
  have e1 : Int.isZeroB totalShare = false := by simp [Int.isZeroB]; omega
  have e2 : Int.isZeroB totalBonded = false := by simp [Int.isZeroB]; omega
  simp only [CalculateShareByAmount, e1, e2, Bool.false_eq_true, if_false]

theorem amount_eq (totalShare totalBonded share : Int) (h1 : 0 < totalShare) :
    CalculateAmountByShare totalShare totalBonded share
      = D34.sdkIntTrim (D34.mul (D34.quo (D34.ofInt share) (D34.ofInt totalShare)) (D34.ofInt totalBonded)) := by
  have e1 : Int.isZeroB totalShare = false := by simp [Int.isZeroB]; omega
  simp only [CalculateAmountByShare, e1, Bool.false_eq_true, if_false]
  rw [mul_comm']

/-- shares for an amount are rounded down: share·totalBonded ≤ amount·totalShare (all arguments below 10^16) -/
theorem share_rounds_down (totalShare totalBonded amount : Int) : S_share_rounds_down totalShare totalBonded amount := by
  intro h1 h2 h3 h4 h5 h6
  rw [share_eq _ _ _ h1 h2]
  exact (conv_core amount totalBonded totalShare h3 h2 h1.le h6 h4).1

/-- … and lose less than two units (in fact: amount·totalShare ≤ (share+1)·totalBonded) -/
theorem share_tight (totalShare totalBonded amount : Int) : S_share_tight totalShare totalBonded amount := by
  intro h1 h2 h3 h4 h5 h6
  rw [share_eq _ _ _ h1 h2]
  have h := (conv_core amount totalBonded totalShare h3 h2 h1.le h6 h4).2
  generalize D34.sdkIntTrim _ = r at h ⊢
  have e : (r + 2) * totalBonded = (r + 1) * totalBonded + totalBonded := by ring
  omega

/-- the stronger form of tightness that the proof gives -/
theorem share_tight_one (totalShare totalBonded amount : Int)
    (h1 : 0 < totalShare) (h2 : 0 < totalBonded) (h3 : 0 ≤ amount) (h4 : totalShare < B30) (h6 : amount < B30) :
    amount * totalShare ≤ (CalculateShareByAmount totalShare totalBonded amount + 1) * totalBonded := by
  rw [share_eq _ _ _ h1 h2]
  exact (conv_core amount totalBonded totalShare h3 h2 h1.le h6 h4).2

/-- the value of shares is rounded down: amount·totalShare ≤ share·totalBonded -/
theorem amount_rounds_down (totalShare totalBonded share : Int) : S_amount_rounds_down totalShare totalBonded share := by
  intro h1 h2 h3 h4 h5 h6
  rw [amount_eq _ _ _ h1]
  exact (conv_core share totalShare totalBonded h3 h1 h2 h6 h5).1

/-! ## the reward split -/

theorem scale_val (c e e0 : Int) (h : e0 ≤ e) :
    ((c * 10 ^ (e - e0).toNat : ℤ) : ℚ) * (10 : ℚ) ^ e0 = (c : ℚ) * (10 : ℚ) ^ e := by
  have e1 : (10 : ℚ) ^ e = (10 : ℚ) ^ (((e - e0).toNat : ℕ) : ℤ) * (10 : ℚ) ^ e0 := by
    rw [← zpow_add₀ ten_ne]
    congr 1
    omega
  rw [e1, zpow_natCast]
  push_cast
  ring

theorem val_add (x y : D34) : val (D34.add x y) = val x + val y := by
  simp only [D34.add, val]
  push_cast
  rw [add_mul]
  have h1 := scale_val x.c x.e (min x.e y.e) (by omega)
  have h2 := scale_val y.c y.e (min x.e y.e) (by omega)
  push_cast at h1 h2
  rw [h1, h2]

theorem val_sub (x y : D34) : val (D34.sub x y) = val x - val y := by
  simp only [D34.sub, val]
  push_cast
  rw [sub_mul]
  have h1 := scale_val x.c x.e (min x.e y.e) (by omega)
  have h2 := scale_val y.c y.e (min x.e y.e) (by omega)
  push_cast at h1 h2
  rw [h1, h2]

theorem val_zero : val D34.zero = 0 := by simp [val, D34.zero]

/-- all holders together can claim at most the reward that raised the multiplier (two holders) -/
theorem split_le_reward (reward s1 s2 : Int) : S_split_le_reward reward s1 s2 := by
  intro h1 h2 h3 h4 h5 m
  have hT : 0 < s1 + s2 := by omega
  obtain ⟨q0, qA⟩ := quo_spec reward (s1 + s2) h1 hT
  have hd0 : 0 ≤ (D34.sub m D34.zero).c := add_sub_nonneg D34.zero _ q0
  have hdv : val (D34.sub m D34.zero) = val (D34.quo (D34.ofInt reward) (D34.ofInt (s1 + s2))) := by
    rw [val_sub]
    show val (D34.add D34.zero _) - val D34.zero = _
    rw [val_add, val_zero]
    ring
  obtain ⟨a0, aA⟩ := mul_spec (D34.sub m D34.zero) (D34.ofInt s1) hd0 h2.le
  obtain ⟨b0, bA⟩ := mul_spec (D34.sub m D34.zero) (D34.ofInt s2) hd0 h3
  obtain ⟨ta, _⟩ := trim_spec _ a0
  obtain ⟨tb, _⟩ := trim_spec _ b0
  rw [val_ofInt, hdv] at aA bA
  have hr := range_B30 reward (s1 + s2) h1 hT.le h4 h5
  have v1 : K * (val (D34.mul (D34.sub m D34.zero) (D34.ofInt s1)) + val (D34.mul (D34.sub m D34.zero) (D34.ofInt s2)))
      ≤ (K + 1) * (val (D34.quo (D34.ofInt reward) (D34.ofInt (s1 + s2))) * ((s1 + s2 : ℤ) : ℚ)) := by
    have := aA.1
    have := bA.1
    push_cast
    linarith
  have h := conv_upper reward (s1 + s2) (s1 + s2)
    (D34.sdkIntTrim (D34.mul (D34.sub m D34.zero) (D34.ofInt s1)) + D34.sdkIntTrim (D34.mul (D34.sub m D34.zero) (D34.ofInt s2)))
    _ _ h1 hT hT.le hr qA.1 v1 (by push_cast; linarith)
  exact le_of_mul_le_mul_right h hT

/-! ## non-vacuity -/

example : S_share_rounds_down 3 3 2 ∧ CalculateShareByAmount 3 3 2 = 2 := by decide
example : S_share_rounds_down 9999999999999999 7 9999999999999998
    ∧ CalculateShareByAmount 9999999999999999 7 9999999999999998 = 14285714285714281428571428571428 := by decide
example : S_share_tight 3 3 1 ∧ CalculateShareByAmount 3 3 1 = 0 := by decide
example : S_amount_rounds_down 3 5 1 ∧ CalculateAmountByShare 3 5 1 = 1 := by decide
example : S_split_le_reward 7 50 50 ∧
    CalculateReward (CalculateRewardMultiplierNew D34.zero 7 100) D34.zero 50 = 3 := by decide

end Sunrise.C10

#print axioms Sunrise.C10.share_rounds_down
#print axioms Sunrise.C10.share_tight
#print axioms Sunrise.C10.amount_rounds_down
#print axioms Sunrise.C10.split_le_reward
