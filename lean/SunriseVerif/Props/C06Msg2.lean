import SunriseVerif.Props.C06Msg

/-!
C06 (message level, part 2) — completes what `Props/C06Msg.lean` left open: the WHOLE messages `decreaseLiquidity`,
`createPosition`, `increaseLiquidity` of `Model/CL.lean` against the accrual abstraction `Model/CLAccrual.lean` through
`CLAccrualAbs.absOf` (one pool, one denom), every store-side hypothesis discharged by `C06Msg.WF6`.

PROVED
(a) `poolAddr_ne_feesAddr`: `pool:{id}` ≠ `poolfees:{id'}` for all ids (5th character); `send_frame`, `absOf_bank`: the
    payouts from / deposits into the pool account leave every fee account, hence `absOf`, alone.
(b) `flags_false_of_wf6`: when the position keeps liquidity, NEITHER tick is flagged empty by `updatePosition` (so no tick
    is removed in the partial case).
1.  `decreaseLiquidity_refines` (liq ≠ pos.liq): abstraction after the whole message `ObsEq`
    `step (step a (claim i)) (change i (−liq))`; both guards; fee account pays exactly `claimPay a i`; `WF6` and the accrual
    invariant (every denom) again afterwards.
2.  `decreaseLiquidity_full_refines` (liq = pos.liq, another position remains in the pool): abstraction after the whole
    message `ObsEqFo` `dropRec (step (step a (claim i)) (change i (−liq))) i`; `ObsEqFo` = `ObsEq` except `fo` at ticks with
    gross 0 (`absOf_removeTick`: that is all the removal of an emptied tick changes); `Inv_obsEqFo`: `CLAccrual.Inv` and
    Σ owed are insensitive to it; `ObsEqFo_openApp`: so is the abstract `openPos` (it re-initialises those entries).
3.  `createPosition_refines` (live pool): abstraction after the whole message = EXACTLY abstract `openPos lo hi δ` with the new
    record appended instead of prepended (`List.Perm`; `Inv_perm`); guard; `createPosition_hInv` (every denom).
4.  `increaseLiquidity_refines` / `increaseLiquidity_refines'` (another position remains): = 2 then 3 on the intermediate
    store (its pool record is live by `C04StoreL.Inv.liveOK`); `'`: stated against the abstraction before only,
    `ObsEqFo (openApp (dropRec (step (step a (claim i)) (change i (−liq))) i) lower upper δ)`; `increaseLiquidity_hInv`.
Non-vacuity: `examples` on `C06Msg.exF` (reachable two-position store `C04Store.h3`, constant bank) for 1–4.

HYPOTHESES: `WF6 s` (proved invariant of every message, swaps under `SwapBoundary`: `C06Msg`); `hInv` (accrual invariant
of the abstraction at every denom; propagated by each theorem here, base case `C06Msg.inv_of_feeFree`);
`sender ≠ feesAddr pool` (boundary: a user account is not a module-derived fee account); `hrest` / `hlive` = case
conditions (another position remains / the pool record carries a price).
NOT PROVED: the pool-reset case (full withdrawal of the LAST position of a pool; `increaseLiquidity` on a pool's only
position) and `createPosition` of the FIRST position of a pool (price initialisation): there the pool record's cursor /
price change and the abstraction needs a `moveWithin`-style step; δ is existential in 3/4 (it is
`GetLiquidityFromAmounts` of the amounts; the abstraction does not model amounts).
-/

set_option linter.unusedVariables false
set_option linter.unusedSimpArgs false
namespace Sunrise.C06Msg2
open Sunrise Sunrise.CL Sunrise.C04Refine Sunrise.DecCoinsAlg Sunrise.C06Refine Sunrise.C04StoreL Sunrise.C06Msg
open Sunrise.C06Refine2 (withdraw_refines Inv_dropDead open_refines open_perm Inv_perm)
open Sunrise.C05Loop (bind_ok res_ok_inj)
open Sunrise.C04Interval (err_bind ok_bind panic_bind ite_err_ok ite_ok)

/-! ### (a) the pool account is never a fee account -/

/-- `pool:{id}` ≠ `poolfees:{id'}` (the fifth character is `:` in one, `f` in the other) -/
theorem poolAddr_ne_feesAddr (id id' : Nat) : poolAddr id ≠ feesAddr id' := by
  intro h
  have h2 := congrArg String.toList h
  unfold poolAddr feesAddr at h2
  simp only [String.toList_append] at h2
  have e1 : (toString "pool:").toList = ['p','o','o','l',':'] := by decide
  have e2 : (toString "poolfees:").toList = ['p','o','o','l','f','e','e','s',':'] := by decide
  rw [e1, e2] at h2
  simp only [List.cons_append, List.cons.injEq, true_and] at h2
  exact absurd h2.1 (by decide)

/-- a transfer between two accounts leaves every third account alone -/
theorem send_frame {b b' : Bank} {src dst a : Addr} {d d' : Denom} {x : Int} (h : b.send src dst d x = .ok b')
    (h1 : a ≠ src) (h2 : a ≠ dst) : b'.bal a d' = b.bal a d' := by
  obtain ⟨_, _, e⟩ := Bank.send_ok h
  subst e
  simp only [Bank.credit_bal, h1, h2, false_and, if_false]

/-- `absOf` reads the bank only at the pool's fee account -/
theorem absOf_bank {s : St} {pool : Nat} {d : String} {k : Int} {a : ASt} (b : Bank)
    (hb : b.bal (feesAddr pool) d = s.bank.bal (feesAddr pool) d)
    (h : CLAccrual.absOf s pool d k = some a) : CLAccrual.absOf { s with bank := b } pool d k = some a := by
  obtain ⟨p, acc, hp, hacc, ea⟩ := absOf_some h
  have hp' : getPool { s with bank := b } pool = some p := hp
  have hacc' : getAccum { s with bank := b } pool = some acc := hacc
  rw [absOf_eq hp' hacc', ea]
  unfold absWith
  show some (⟨_, _, _, _, _, _, _, b.bal (feesAddr pool) d * PREC, _, _⟩ : ASt) = _
  rw [hb]
  rfl

/-- `decreaseLiquidity`, inverted, with the two payout transfers exposed -/
theorem decreaseLiquidity_inv_bank {s : St} {sender : Addr} {posId : Nat} {liq : Dec} {s' : St} {ab aq : Int}
    (h : decreaseLiquidity s sender posId liq = .ok (s', ab, aq)) :
    ∃ pos p s1 c s2 ab0 aq0 loE hiE b1 b2,
      getPosition s posId = some pos ∧ liq.isNegative = false ∧ ¬ pos.liq.raw < liq.raw ∧ getPool s pos.pool = some p ∧
      collectFees s sender posId = .ok (s1, c) ∧
      updatePosition s1 pos.pool pos.lower pos.upper (Dec.neg liq) posId = .ok (s2, ab0, aq0, loE, hiE) ∧
      s2.bank.send (poolAddr p.id) sender p.base (iabs ab0) = .ok b1 ∧
      b1.send (poolAddr p.id) sender p.quote (iabs aq0) = .ok b2 ∧ ab = iabs ab0 ∧ aq = iabs aq0 ∧
      s' = (if hiE then removeTick (if loE then removeTick { s2 with bank := b2 } pos.pool pos.lower else { s2 with bank := b2 })
                pos.pool pos.upper
            else (if loE then removeTick { s2 with bank := b2 } pos.pool pos.lower else { s2 with bank := b2 })) := by
  unfold decreaseLiquidity at h
  simp only [bind, pure, err_bind, ok_bind] at h
  cases hpos : getPosition s posId with
  | none => rw [hpos] at h; cases h
  | some pos =>
    rw [hpos] at h
    simp only [] at h
    obtain ⟨_, h⟩ := ite_err_ok h
    obtain ⟨hn, h⟩ := ite_err_ok h
    obtain ⟨hle, h⟩ := ite_err_ok h
    cases hp : getPool s pos.pool with
    | none => rw [hp] at h; cases h
    | some p =>
      rw [hp] at h
      simp only [] at h
      obtain ⟨x, hx, h⟩ := bind_ok h
      obtain ⟨y, hy, h⟩ := bind_ok h
      obtain ⟨_, h⟩ := ite_err_ok h
      obtain ⟨_, h⟩ := ite_err_ok h
      obtain ⟨b1, hb1, h⟩ := bind_ok h
      obtain ⟨b2, hb2, h⟩ := bind_ok h
      have e := res_ok_inj h
      have e0 := congrArg Prod.fst e
      have e1 := congrArg (fun z => z.2.1) e
      have e2 := congrArg (fun z => z.2.2) e
      exact ⟨pos, p, x.1, x.2, y.1, y.2.1, y.2.2.1, y.2.2.2.1, y.2.2.2.2, b1, b2, rfl, by simpa using hn, hle, hp, hx, hy,
        hb1, hb2, e1.symm, e2.symm, e0.symm⟩

/-! ### (b) in the partial case no tick is emptied -/

theorem removeTicks_positions (x : St) (pool : Nat) (lo hi : Int) (loE hiE : Bool) :
    (if hiE then removeTick (if loE then removeTick x pool lo else x) pool hi
      else (if loE then removeTick x pool lo else x)).positions = x.positions := by
  cases loE <;> cases hiE <;> rfl

/-- a position that keeps liquidity keeps both its ticks: neither flag of `updatePosition` is set.  (From `WF6` of the
    state after the message: every bound of a stored position is a stored tick.) -/
theorem flags_false_of_wf6 {x : St} {pool : Nat} {lo hi : Int} {loE hiE : Bool} {q : Position}
    (hw : WF6 (if hiE then removeTick (if loE then removeTick x pool lo else x) pool hi
      else (if loE then removeTick x pool lo else x)))
    (hq : q ∈ x.positions) (hp : q.pool = pool) (hl : q.lower = lo) (hh : q.upper = hi) : loE = false ∧ hiE = false := by
  have hq' : q ∈ (if hiE then removeTick (if loE then removeTick x pool lo else x) pool hi
      else (if loE then removeTick x pool lo else x)).positions := by rw [removeTicks_positions]; exact hq
  obtain ⟨t1, t2⟩ := hw.ticks_stored hq'
  rw [hp, hl] at t1; rw [hp, hh] at t2
  cases hiE with
  | true =>
    exfalso
    simp only [if_true] at t2
    rw [removeTick_find, if_pos rfl] at t2; cases t2
  | false =>
    cases loE with
    | true =>
      exfalso
      simp only [if_true, Bool.false_eq_true, if_false] at t1
      rw [removeTick_find, if_pos rfl] at t1; cases t1
    | false => exact ⟨rfl, rfl⟩

/-- the guard of `change` only reads the position list -/
theorem guard_change_obsEq {x y : ASt} (h : ObsEq x y) {i : Nat} {δ : Int} (g : (CLAccrual.Op.change i δ).guard x) :
    (CLAccrual.Op.change i δ).guard y := by
  obtain ⟨p, hp, h1, h2⟩ := g
  exact ⟨p, by rw [← h.2.2.2.2.2.2.1]; exact hp, h1, h2⟩

/-! ### 1. `decreaseLiquidity_refines` (the position keeps liquidity) -/

/-- per-denom core of `decreaseLiquidity_refines` -/
theorem decrease_key {s s' : St} {sender : Addr} {posId : Nat} {liq : Dec} {ab aq : Int}
    {pool : Nat} {k : Int} {i : Nat} {pos : Position}
    (hw : WF6 s)
    (h : decreaseLiquidity s sender posId liq = .ok (s', ab, aq))
    (hidx : (poolPositions s pool)[i]? = some pos) (hid : pos.id = posId)
    (hInv : ∀ d' b, CLAccrual.absOf s pool d' k = some b → CLAccrual.Inv b)
    (hsender : sender ≠ feesAddr pool)
    (hkeep : liq.raw ≠ pos.liq.raw) :
    ∃ s1 c s2 ab0 aq0 b2,
      collectFees s sender posId = .ok (s1, c) ∧
      updatePosition s1 pool pos.lower pos.upper (Dec.neg liq) posId = .ok (s2, ab0, aq0, false, false) ∧
      s' = { s2 with bank := b2 } ∧ ab = iabs ab0 ∧ aq = iabs aq0 ∧
      (∀ d, b2.bal (feesAddr pool) d = s1.bank.bal (feesAddr pool) d) ∧
      ∀ denom a, CLAccrual.absOf s pool denom k = some a →
        ∃ a', CLAccrual.absOf s' pool denom (k + 1 + 1) = some a' ∧
          ObsEq a' (CLAccrual.step (CLAccrual.step a (.claim i)) (.change i (-liq.raw))) ∧
          (CLAccrual.Op.claim i).guard a ∧
          (CLAccrual.Op.change i (-liq.raw)).guard (CLAccrual.step a (.claim i)) ∧
          coinAmt c denom = CLAccrual.claimPay a i ∧
          s'.bank.bal (feesAddr pool) denom = s.bank.bal (feesAddr pool) denom - CLAccrual.claimPay a i := by
  have hmem := (mem_poolPositions.mp (List.mem_of_getElem? hidx)).1
  have hpool : pos.pool = pool := (mem_poolPositions.mp (List.mem_of_getElem? hidx)).2
  subst hpool
  have hgetpos : getPosition s posId = some pos := by rw [← hid]; exact getPosition_of_mem hw.ids_nodup hmem
  have hw' := decreaseLiquidity_wf6 hw h
  obtain ⟨pos', p, s1, c, s2, ab0, aq0, loE, hiE, b1, b2, hq, hn, hle, hp, hcf, hu, hb1, hb2, eab, eaq, hs'⟩ :=
    decreaseLiquidity_inv_bank h
  have e : pos' = pos := by rw [hgetpos] at hq; exact (Option.some.inj hq).symm
  subst e
  have hpid : p.id = pos'.pool := getPool_id hp
  have hw1 : WF6 s1 := collectFees_wf6 hw hcf
  have hc := collectFees_core hcf
  have hq1 : getPosition s1 posId = some pos' := by rw [getPosition_congr hc.2.1]; exact hq
  have hlt := (hw.inv.w.posWf pos' hmem).2
  have hd : (Dec.neg liq).raw = -liq.raw := rfl
  -- the position keeps liquidity, so it is still stored, and no tick is emptied
  obtain ⟨_, _, _, k4, _⟩ := updatePosition_struct hu hw1.ids_nodup hq1 (by omega)
  have hin := k4 (by rw [hd]; omega)
  rw [hs'] at hw'
  obtain ⟨f1, f2⟩ := flags_false_of_wf6 (x := { s2 with bank := b2 }) hw' hin rfl rfl rfl
  subst f1; subst f2
  simp only [Bool.false_eq_true, if_false] at hs'
  -- the two payouts leave the fee account alone
  have hbank : ∀ d, b2.bal (feesAddr pos'.pool) d = s2.bank.bal (feesAddr pos'.pool) d := by
    intro d
    rw [send_frame hb2 (Ne.symm (poolAddr_ne_feesAddr _ _)) (Ne.symm hsender),
      send_frame hb1 (Ne.symm (poolAddr_ne_feesAddr _ _)) (Ne.symm hsender)]
  have hidx1 : (poolPositions s1 pos'.pool)[i]? = some pos' := by rw [poolPositions_congr hc.2.1]; exact hidx
  obtain ⟨ap, hap, hsh, hshpos⟩ := hw.shares hmem
  -- the bank is untouched by `updatePosition` (any denom: use the abstraction at hand)
  obtain ⟨pl0, hpl0⟩ : ∃ p0, getPool s pos'.pool = some p0 := ⟨p, hp⟩
  refine ⟨s1, c, s2, ab0, aq0, b2, hcf, hu, hs', eab, eaq, ?_, ?_⟩
  · intro d
    cases hacc : getAccum s pos'.pool with
    | none =>
      -- impossible: the position has an accumulator (total shares)
      exfalso
      have hx' : ∃ x, prepareClaimableFees s posId = .ok x := by
        unfold collectFees at hcf
        simp only [bind, pure, err_bind, ok_bind] at hcf
        rw [hq] at hcf
        simp only [] at hcf
        obtain ⟨_, hcf⟩ := ite_err_ok hcf
        obtain ⟨x, hx, _⟩ := bind_ok hcf
        exact ⟨x, hx⟩
      obtain ⟨x, hx⟩ := hx'
      obtain ⟨pos0, acc, ap0, o, tot, hpos0, hacc0, _⟩ := prepare_ok (s' := x.1) (claimed := x.2) hx
      rw [hgetpos] at hpos0
      have := Option.some.inj hpos0; subst this
      rw [hacc] at hacc0; cases hacc0
    | some acc =>
      have habs0 := absOf_eq (denom := d) (k := k) hp hacc
      obtain ⟨⟨a1, e1, _⟩, _, _, _, _, hInv1⟩ := claim_refines_wf hw hcf habs0 hidx hid hInv hsender
      obtain ⟨_, _, _, r4, _⟩ := change_refines_wf hw1 hu e1 hidx1 hid hInv1 (by rw [hd]; omega) (by rw [hd]; omega)
      rw [hbank d, r4]
  · intro denom a habs
    have hg1 : (CLAccrual.Op.claim i).guard a :=
      ⟨posOf s denom pos', abs_pos_at habs hidx, by rw [posOf_some hap]; exact hshpos⟩
    obtain ⟨⟨a1, e1, e2, e3, e4, _⟩, e7, e8, e9, _, hInv1⟩ := claim_refines_wf hw hcf habs hidx hid hInv hsender
    obtain ⟨r1, r2, _, r4, r5, r6⟩ := change_refines_wf hw1 hu e1 hidx1 hid hInv1 (by rw [hd]; omega) (by rw [hd]; omega)
    rw [hd] at r1 r2
    refine ⟨_, ?_, ObsEq_step_change e2 i _, hg1, guard_change_obsEq e2 r2, e3, ?_⟩
    · rw [hs']
      exact absOf_bank b2 (hbank denom) r1
    · rw [hs']
      show b2.bal (feesAddr pos'.pool) denom = _
      rw [hbank denom, r4]; exact e4

/-- **1. `decreaseLiquidity_refines`** (the position keeps liquidity, `liq ≠ pos.liq`): the abstraction of the state after
    the WHOLE message (claim, `UpdatePosition`, the two payouts from the pool account, removal of emptied ticks — none is
    emptied here) is the abstract `claim i` followed by `change i (−liq)`, up to the split of the fee account's balance
    into `recv − paid` (`ObsEq`); both abstract guards hold; the fee account pays exactly the abstract claim; `WF6` and the
    accrual invariant of the abstraction (every denom) hold again afterwards, so the statement can be iterated. -/
theorem decreaseLiquidity_refines {s s' : St} {sender : Addr} {posId : Nat} {liq : Dec} {ab aq : Int}
    {pool : Nat} {denom : String} {k : Int} {a : ASt} {i : Nat} {pos : Position}
    (hw : WF6 s)
    (h : decreaseLiquidity s sender posId liq = .ok (s', ab, aq))
    (habs : CLAccrual.absOf s pool denom k = some a)
    (hidx : (poolPositions s pool)[i]? = some pos) (hid : pos.id = posId)
    (hInv : ∀ d' b, CLAccrual.absOf s pool d' k = some b → CLAccrual.Inv b)
    (hsender : sender ≠ feesAddr pool)
    (hkeep : liq.raw ≠ pos.liq.raw) :
    (∃ a', CLAccrual.absOf s' pool denom (k + 1 + 1) = some a' ∧
      ObsEq a' (CLAccrual.step (CLAccrual.step a (.claim i)) (.change i (-liq.raw)))) ∧
    (CLAccrual.Op.claim i).guard a ∧
    (CLAccrual.Op.change i (-liq.raw)).guard (CLAccrual.step a (.claim i)) ∧
    s'.bank.bal (feesAddr pool) denom = s.bank.bal (feesAddr pool) denom - CLAccrual.claimPay a i ∧
    WF6 s' ∧ (∀ d' b', CLAccrual.absOf s' pool d' (k + 1 + 1) = some b' → CLAccrual.Inv b') := by
  obtain ⟨s1, c, s2, ab0, aq0, b2, _, _, _, _, _, _, key⟩ := decrease_key hw h hidx hid hInv hsender hkeep
  obtain ⟨a', e1, e2, g1, g2, _, e4⟩ := key denom a habs
  refine ⟨⟨a', e1, e2⟩, g1, g2, e4, decreaseLiquidity_wf6 hw h, ?_⟩
  intro d' b' hb'
  obtain ⟨p0, acc0, hp0, hacc0, _⟩ := absOf_some habs
  have hb := absOf_eq (denom := d') (k := k) hp0 hacc0
  obtain ⟨a'', f1, f2, h1, h2, _⟩ := key d' _ hb
  rw [f1] at hb'
  have e := Option.some.inj hb'; subst e
  exact Inv_obsEq f2 (Sunrise.C06A.inv_step _ _ (Sunrise.C06A.inv_step _ _ (hInv d' _ hb) h1) h2)

/-! non-vacuity of `decreaseLiquidity_refines`: on `C06Msg.exF` (pool 0 with the positions [−1,1) of "a0" and [0,2) of
    "a1") the partial withdrawal of `C04Store.h4` succeeds and every hypothesis holds -/
def okD (r : Res (St × Int × Int)) : Bool := match r with | .ok _ => true | _ => false
def exL : Dec := ⟨462475295574264369793569⟩

theorem exF_dec_ok : okD (decreaseLiquidity exF "a0" 0 exL) = true := by decide +kernel

theorem exF_hInv : ∀ d b, CLAccrual.absOf exF 0 d 0 = some b → CLAccrual.Inv b :=
  inv_of_feeFree exF_wf6 (by decide +kernel) (Int.le_refl 0) (fun d => by show (0 : Int) ≤ 1000000000000; decide)

example : ∃ r a pos, decreaseLiquidity exF "a0" 0 exL = .ok r ∧ CLAccrual.absOf exF 0 "quote" 0 = some a ∧
    (poolPositions exF 0)[0]? = some pos ∧ pos.id = 0 ∧ exL.raw ≠ pos.liq.raw ∧ "a0" ≠ feesAddr 0 ∧ WF6 exF ∧
    (∀ d b, CLAccrual.absOf exF 0 d 0 = some b → CLAccrual.Inv b) := by
  have h1 := exF_dec_ok
  have h2 : (CLAccrual.absOf exF 0 "quote" 0).isSome = true := by decide +kernel
  have h3 : ((poolPositions exF 0)[0]?.any fun p => p.id == 0 && p.liq.raw != exL.raw) = true := by decide +kernel
  obtain ⟨a, ha⟩ := Option.isSome_iff_exists.mp h2
  cases hr : decreaseLiquidity exF "a0" 0 exL with
  | err e => rw [hr] at h1; simp [okD] at h1
  | panic e => rw [hr] at h1; simp [okD] at h1
  | ok r =>
    cases hp : (poolPositions exF 0)[0]? with
    | none => rw [hp] at h3; simp at h3
    | some pos =>
      rw [hp] at h3
      simp only [Option.any_some, Bool.and_eq_true, beq_iff_eq, bne_iff_ne, ne_eq] at h3
      exact ⟨r, a, pos, rfl, ha, rfl, h3.1, fun e => h3.2 e.symm, by decide, exF_wf6, exF_hInv⟩

/-! ### 2. full withdrawal (another position remains in the pool) -/

/-- equality of abstract states up to the `recv − paid` split AND up to the growth-outside entry of ticks with zero gross
    liquidity (the store deletes such ticks; `initFo` re-initialises the entry before any position can read it) -/
def ObsEqFo (x y : ASt) : Prop :=
  x.G = y.G ∧ (∀ t, y.gross t ≠ 0 → x.fo t = y.fo t) ∧ x.cur = y.cur ∧ x.gross = y.gross ∧ x.net = y.net ∧
    x.active = y.active ∧ x.pos = y.pos ∧ x.recv - x.paid = y.recv - y.paid ∧ x.k = y.k

theorem ObsEq.toFo {x y : ASt} (h : ObsEq x y) : ObsEqFo x y := by
  obtain ⟨h1, h2, h3, h4, h5, h6, h7, h8, h9⟩ := h
  exact ⟨h1, fun t _ => by rw [h2], h3, h4, h5, h6, h7, h8, h9⟩

theorem ObsEqFo.trans {x y z : ASt} (h1 : ObsEqFo x y) (h2 : ObsEqFo y z) : ObsEqFo x z := by
  obtain ⟨a1, a2, a3, a4, a5, a6, a7, a8, a9⟩ := h1
  obtain ⟨b1, b2, b3, b4, b5, b6, b7, b8, b9⟩ := h2
  refine ⟨a1.trans b1, ?_, a3.trans b3, a4.trans b4, a5.trans b5, a6.trans b6, a7.trans b7, a8.trans b8, a9.trans b9⟩
  intro t ht
  rw [a2 t (by rw [b4]; exact ht), b2 t ht]

/-- growth inside the range of a live record does not read the entries `ObsEqFo` leaves open -/
theorem inside_obsEqFo {x y : ASt} (h : ObsEqFo x y) (hy : CLAccrual.Inv y) {p : APos} (hp : p ∈ y.pos) (hs : 0 < p.s) :
    CLAccrual.inside x p.lo p.hi = CLAccrual.inside y p.lo p.hi := by
  obtain ⟨h1, h2, h3, h4, h5, h6, h7, h8, h9⟩ := h
  have g1 : y.gross p.lo ≠ 0 := by
    intro hz
    rcases Sunrise.C06A.gross_zero_elim y hy p.lo hz p hp with e | ⟨e, _⟩
    · omega
    · exact e rfl
  have g2 : y.gross p.hi ≠ 0 := by
    intro hz
    rcases Sunrise.C06A.gross_zero_elim y hy p.hi hz p hp with e | ⟨_, e⟩
    · omega
    · exact e rfl
  exact Sunrise.C06A.inside_congr y x p.lo p.hi h1 h3 (h2 _ g1) (h2 _ g2)

/-- **`CLAccrual.Inv` and Σ owed are insensitive to `ObsEqFo`** -/
theorem Inv_obsEqFo {x y : ASt} (h : ObsEqFo x y) (hy : CLAccrual.Inv y) :
    CLAccrual.Inv x ∧ CLAccrual.sumBy (CLAccrual.owed x) x.pos = CLAccrual.sumBy (CLAccrual.owed y) y.pos := by
  have hin := fun p hp hs => inside_obsEqFo (p := p) h hy hp hs
  obtain ⟨h1, h2, h3, h4, h5, h6, h7, h8, h9⟩ := h
  have hsum : CLAccrual.sumBy (CLAccrual.owed x) x.pos = CLAccrual.sumBy (CLAccrual.owed y) y.pos := by
    rw [h7]
    apply Sunrise.C06A.sumBy_congr
    intro p hp
    have h0 := (hy.wf p hp).1
    unfold CLAccrual.owed
    by_cases hs : 0 < p.s
    · rw [hin p hp hs]
    · have : p.s = 0 := by omega
      rw [this]; simp
  refine ⟨⟨?_, ?_, ?_, ?_, ?_, ?_⟩, hsum⟩
  · intro p hp
    rw [h7] at hp
    obtain ⟨w1, w2, w3, w4⟩ := hy.wf p hp
    exact ⟨w1, w2, w3, fun hs => by rw [hin p hp hs]; exact w4 hs⟩
  · intro t; rw [h4, h7]; exact hy.gross_eq t
  · intro t; rw [h5, h7]; exact hy.net_eq t
  · rw [h6, h7, h3]; exact hy.active_eq
  · rw [hsum]
    have hb := hy.backed
    have e : (x.recv - x.paid) * PREC = (y.recv - y.paid) * PREC := by rw [h8]
    rw [Int.sub_mul, Int.sub_mul] at e
    rw [h9]; omega
  · rw [h9]; exact hy.k_nonneg

/-- dropping record `i` (what the store does with a position whose whole liquidity is withdrawn) -/
def dropRec (a : ASt) (i : Nat) : ASt := { a with pos := a.pos.eraseIdx i }

theorem ObsEq_drop {x y : ASt} (h : ObsEq x y) (i : Nat) : ObsEq (dropRec x i) (dropRec y i) := by
  obtain ⟨h1, h2, h3, h4, h5, h6, h7, h8, h9⟩ := h
  exact ⟨h1, h2, h3, h4, h5, h6, by show x.pos.eraseIdx i = y.pos.eraseIdx i; rw [h7], h8, h9⟩

/-- removal of a tick whose gross and net liquidity are 0 changes the abstraction only in `fo` at that tick -/
theorem absOf_removeTick {x : St} {pool : Nat} {t : Int} (h0 : grossOf x pool t = 0 ∧ netOf x pool t = 0)
    {d : String} {k : Int} {a : ASt} (h : CLAccrual.absOf x pool d k = some a) :
    ∃ a', CLAccrual.absOf (removeTick x pool t) pool d k = some a' ∧ ObsEqFo a' a := by
  obtain ⟨p, acc, hp, hacc, ea⟩ := absOf_some h
  have hp' : getPool (removeTick x pool t) pool = some p := hp
  have hacc' : getAccum (removeTick x pool t) pool = some acc := hacc
  refine ⟨_, absOf_eq hp' hacc', ?_⟩
  rw [ea]
  have hg := removeTick_empty_abs h0
  refine ⟨rfl, ?_, rfl, ?_, ?_, rfl, rfl, rfl, rfl⟩
  · intro t' ht'
    have hne : t' ≠ t := by
      intro e; subst e; exact ht' h0.1
    show foOf (removeTick x pool t) pool d t' = foOf x pool d t'
    unfold foOf
    rw [removeTick_find, if_neg (by intro e; exact hne (congrArg Prod.snd e))]
  · funext t'; exact (hg pool t').1
  · funext t'; exact (hg pool t').2

theorem absOf_condRemove (e : Bool) {x : St} {pool : Nat} {t : Int}
    (he : e = true → grossOf x pool t = 0 ∧ netOf x pool t = 0)
    {d : String} {k : Int} {a : ASt} (h : CLAccrual.absOf x pool d k = some a) :
    ∃ a', CLAccrual.absOf (if e then removeTick x pool t else x) pool d k = some a' ∧ ObsEqFo a' a := by
  cases e with
  | false => exact ⟨a, h, ObsEq.toFo (ObsEq.refl a)⟩
  | true => exact absOf_removeTick (he rfl) h

/-- per-denom core of `decreaseLiquidity_full_refines` -/
theorem decrease_full_key {s s' : St} {sender : Addr} {posId : Nat} {liq : Dec} {ab aq : Int}
    {pool : Nat} {k : Int} {i : Nat} {pos : Position}
    (hw : WF6 s)
    (h : decreaseLiquidity s sender posId liq = .ok (s', ab, aq))
    (hidx : (poolPositions s pool)[i]? = some pos) (hid : pos.id = posId)
    (hInv : ∀ d' b, CLAccrual.absOf s pool d' k = some b → CLAccrual.Inv b)
    (hsender : sender ≠ feesAddr pool)
    (hall : liq.raw = pos.liq.raw)
    (hrest : ∃ q ∈ s.positions, q.pool = pool ∧ q.id ≠ posId) :
    ∀ denom a, CLAccrual.absOf s pool denom k = some a →
      ∃ a', CLAccrual.absOf s' pool denom (k + 1 + 1) = some a' ∧
        ObsEqFo a' (dropRec (CLAccrual.step (CLAccrual.step a (.claim i)) (.change i (-liq.raw))) i) ∧
        (CLAccrual.Op.claim i).guard a ∧
        (CLAccrual.Op.change i (-liq.raw)).guard (CLAccrual.step a (.claim i)) ∧
        (∃ p', (CLAccrual.step (CLAccrual.step a (.claim i)) (.change i (-liq.raw))).pos[i]? = some p' ∧ p'.s = 0) ∧
        s'.bank.bal (feesAddr pool) denom = s.bank.bal (feesAddr pool) denom - CLAccrual.claimPay a i := by
  have hmem := (mem_poolPositions.mp (List.mem_of_getElem? hidx)).1
  have hpool : pos.pool = pool := (mem_poolPositions.mp (List.mem_of_getElem? hidx)).2
  subst hpool
  have hgetpos : getPosition s posId = some pos := by rw [← hid]; exact getPosition_of_mem hw.ids_nodup hmem
  obtain ⟨pos', p, s1, c, s2, ab0, aq0, loE, hiE, b1, b2, hq, hn, hle, hp, hcf, hu, hb1, hb2, eab, eaq, hs'⟩ :=
    decreaseLiquidity_inv_bank h
  have e : pos' = pos := by rw [hgetpos] at hq; exact (Option.some.inj hq).symm
  subst e
  have hw1 : WF6 s1 := collectFees_wf6 hw hcf
  have hc := collectFees_core hcf
  have hq1 : getPosition s1 posId = some pos' := by rw [getPosition_congr hc.2.1]; exact hq
  have hmem1 : pos' ∈ s1.positions := by rw [hc.2.1]; exact hmem
  have hlt := (hw.inv.w.posWf pos' hmem).2
  have hd : (Dec.neg liq).raw = -liq.raw := rfl
  obtain ⟨_, _, _, _, _, _, _, kl, kh⟩ := updatePosition_struct hu hw1.ids_nodup hq1 (by omega)
  have hbank : ∀ d, b2.bal (feesAddr pos'.pool) d = s2.bank.bal (feesAddr pos'.pool) d := by
    intro d
    rw [send_frame hb2 (Ne.symm (poolAddr_ne_feesAddr _ _)) (Ne.symm hsender),
      send_frame hb1 (Ne.symm (poolAddr_ne_feesAddr _ _)) (Ne.symm hsender)]
  have hidx1 : (poolPositions s1 pos'.pool)[i]? = some pos' := by rw [poolPositions_congr hc.2.1]; exact hidx
  obtain ⟨ap, hap, hsh, hshpos⟩ := hw.shares hmem
  obtain ⟨ap1, hap1, hsh1, hshpos1⟩ := hw1.shares hmem1
  have hticks1 : (findTick s1 pos'.pool pos'.lower).isSome ∧ (findTick s1 pos'.pool pos'.upper).isSome :=
    hw1.ticks_stored hmem1
  have hrest1 : ∃ q ∈ s1.positions, q.pool = pos'.pool ∧ q.id ≠ posId := by rw [hc.2.1]; exact hrest
  intro denom a habs
  have hg1 : (CLAccrual.Op.claim i).guard a :=
    ⟨posOf s denom pos', abs_pos_at habs hidx, by rw [posOf_some hap]; exact hshpos⟩
  obtain ⟨⟨a1, e1, e2, e3, e4, _⟩, e7, e8, e9, _, hInv1⟩ := claim_refines_wf hw hcf habs hidx hid hInv hsender
  have hg2 : (CLAccrual.Op.change i (-liq.raw)).guard a1 := by
    refine ⟨posOf s1 denom pos', abs_pos_at e1 hidx1, ?_, ?_⟩
    · rw [posOf_some hap1]; exact hshpos1
    · rw [posOf_some hap1]; show 0 ≤ ap1.shares.raw + -liq.raw; omega
  obtain ⟨r1, ⟨p', r2, r2'⟩, _, r4⟩ := withdraw_refines hu e1 hidx1 hid rfl rfl (by omega) hw1.ids_nodup hw1.sorted hticks1
    (by rw [← hid]; exact hap1) hsh1 (by rw [hd]; omega) hrest1
  rw [hd] at r1 r2
  have eo := ObsEq_step_change e2 i (-liq.raw)
  -- bank
  have r1b := absOf_bank b2 (hbank denom) r1
  -- removal of the ticks flagged empty
  have hlo : loE = true → grossOf { s2 with bank := b2 } pos'.pool pos'.lower = 0 ∧
      netOf { s2 with bank := b2 } pos'.pool pos'.lower = 0 := fun hE => kl.mp hE
  obtain ⟨a2, q1, q2⟩ := absOf_condRemove loE hlo r1b
  have hhi : hiE = true → grossOf (if loE then removeTick { s2 with bank := b2 } pos'.pool pos'.lower else { s2 with bank := b2 })
        pos'.pool pos'.upper = 0 ∧
      netOf (if loE then removeTick { s2 with bank := b2 } pos'.pool pos'.lower else { s2 with bank := b2 })
        pos'.pool pos'.upper = 0 := by
    intro hE
    have := kh.mp hE
    cases loE with
    | false => exact this
    | true =>
      obtain ⟨g1, g2⟩ := removeTick_empty_abs (hlo rfl) pos'.pool pos'.upper
      simp only [if_true]
      rw [g1, g2]; exact this
  obtain ⟨a3, q3, q4⟩ := absOf_condRemove hiE hhi q1
  have hs'' : s' = (if hiE then removeTick (if loE then removeTick { s2 with bank := b2 } pos'.pool pos'.lower else { s2 with bank := b2 })
      pos'.pool pos'.upper else (if loE then removeTick { s2 with bank := b2 } pos'.pool pos'.lower else { s2 with bank := b2 })) := by
    exact hs'
  refine ⟨a3, by rw [hs'']; exact q3, ?_, hg1, guard_change_obsEq e2 hg2, ⟨p', by rw [← eo.2.2.2.2.2.2.1]; exact r2, r2'⟩, ?_⟩
  · exact (q4.trans q2).trans (ObsEq.toFo (ObsEq_drop eo i))
  · have : s'.bank = b2 := by rw [hs']; cases hiE <;> cases loE <;> rfl
    rw [this, hbank denom, r4]; exact e4

/-- **2. `decreaseLiquidity_full_refines`** (the WHOLE liquidity of the position is withdrawn, `liq = pos.liq`, and the pool
    keeps another position): the abstraction of the state after the whole message is the abstract `claim i`, then
    `change i (−liq)` (which leaves record `i` with zero shares), then dropping record `i` — up to the `recv − paid` split
    and up to the growth-outside entries of ticks with zero gross liquidity (`ObsEqFo`: the store deletes the ticks the
    withdrawal emptied), which `CLAccrual.Inv` and Σ owed do not read (`Inv_obsEqFo`).  `WF6` and the accrual invariant
    (every denom) hold again afterwards. -/
theorem decreaseLiquidity_full_refines {s s' : St} {sender : Addr} {posId : Nat} {liq : Dec} {ab aq : Int}
    {pool : Nat} {denom : String} {k : Int} {a : ASt} {i : Nat} {pos : Position}
    (hw : WF6 s)
    (h : decreaseLiquidity s sender posId liq = .ok (s', ab, aq))
    (habs : CLAccrual.absOf s pool denom k = some a)
    (hidx : (poolPositions s pool)[i]? = some pos) (hid : pos.id = posId)
    (hInv : ∀ d' b, CLAccrual.absOf s pool d' k = some b → CLAccrual.Inv b)
    (hsender : sender ≠ feesAddr pool)
    (hall : liq.raw = pos.liq.raw)
    (hrest : ∃ q ∈ s.positions, q.pool = pool ∧ q.id ≠ posId) :
    (∃ a', CLAccrual.absOf s' pool denom (k + 1 + 1) = some a' ∧
      ObsEqFo a' (dropRec (CLAccrual.step (CLAccrual.step a (.claim i)) (.change i (-liq.raw))) i)) ∧
    (CLAccrual.Op.claim i).guard a ∧
    (CLAccrual.Op.change i (-liq.raw)).guard (CLAccrual.step a (.claim i)) ∧
    (∃ p', (CLAccrual.step (CLAccrual.step a (.claim i)) (.change i (-liq.raw))).pos[i]? = some p' ∧ p'.s = 0) ∧
    s'.bank.bal (feesAddr pool) denom = s.bank.bal (feesAddr pool) denom - CLAccrual.claimPay a i ∧
    WF6 s' ∧ (∀ d' b', CLAccrual.absOf s' pool d' (k + 1 + 1) = some b' → CLAccrual.Inv b') := by
  have key := decrease_full_key hw h hidx hid hInv hsender hall hrest
  obtain ⟨a', e1, e2, g1, g2, g3, e4⟩ := key denom a habs
  refine ⟨⟨a', e1, e2⟩, g1, g2, g3, e4, decreaseLiquidity_wf6 hw h, ?_⟩
  intro d' b' hb'
  obtain ⟨p0, acc0, hp0, hacc0, _⟩ := absOf_some habs
  have hb := absOf_eq (denom := d') (k := k) hp0 hacc0
  obtain ⟨a'', f1, f2, h1, h2, ⟨p', h3, h3'⟩, _⟩ := key d' _ hb
  rw [f1] at hb'
  have e := Option.some.inj hb'; subst e
  have hI2 := Sunrise.C06A.inv_step _ _ (Sunrise.C06A.inv_step _ _ (hInv d' _ hb) h1) h2
  exact (Inv_obsEqFo f2 (Inv_dropDead h3 h3' hI2).1).1

/-! non-vacuity of `decreaseLiquidity_full_refines`: on `exF`, position 0 of "a0" withdraws its whole liquidity while
    position 1 stays in pool 0 -/
example : ∃ pos, (poolPositions exF 0)[0]? = some pos ∧ pos.id = 0 ∧
    okD (decreaseLiquidity exF "a0" 0 pos.liq) = true ∧ (∃ q ∈ exF.positions, q.pool = 0 ∧ q.id ≠ 0) := by
  have h3 : ((poolPositions exF 0)[0]?.any fun p => p.id == 0 && okD (decreaseLiquidity exF "a0" 0 p.liq)) = true := by
    decide +kernel
  have h4 : (exF.positions.any fun q => q.pool == 0 && q.id != 0) = true := by decide +kernel
  cases hp : (poolPositions exF 0)[0]? with
  | none => rw [hp] at h3; simp at h3
  | some pos =>
    rw [hp] at h3
    simp only [Option.any_some, Bool.and_eq_true, beq_iff_eq] at h3
    refine ⟨pos, rfl, h3.1, h3.2, ?_⟩
    obtain ⟨q, hq, hq'⟩ := List.any_eq_true.mp h4
    simp only [Bool.and_eq_true, beq_iff_eq, bne_iff_ne, ne_eq] at hq'
    exact ⟨q, hq, hq'.1, hq'.2⟩

/-! ### 3. `createPosition` on a live pool = abstract `openPos` -/

theorem withFresh_bank (s1 : St) (sender : Addr) (pool : Nat) (lo hi : Int) :
    (withFresh s1 sender pool lo hi).bank = s1.bank := by
  unfold withFresh setPosition; split <;> rfl

/-- `createPosition` on a live pool, inverted, with the two transfers into the pool account exposed -/
theorem createPosition_live_inv_bank {s : St} {sender : Addr} {pool : Nat} {lo hi : Int} {dBase dQuote : Denom}
    {aBase aQuote minBase minQuote : Int} {s' : St} {out : CreatePosOut} {p0 : Pool}
    (h : createPosition s sender pool lo hi dBase aBase dQuote aQuote minBase minQuote = .ok (s', out))
    (hp : getPool s pool = some p0) (hlive : poolLive p0 = true) :
    ∃ delta s3 ab aq loE hiE b1 b2,
      checkTicks lo hi = true ∧ delta.isZero = false ∧
      updatePosition (withFresh s sender pool lo hi) pool lo hi delta s.nextPos = .ok (s3, ab, aq, loE, hiE) ∧
      s3.bank.send sender (poolAddr pool) dBase ab = .ok b1 ∧ b1.send sender (poolAddr pool) dQuote aq = .ok b2 ∧
      s' = { s3 with bank := b2 } := by
  unfold createPosition at h
  rw [hp] at h
  simp only [bind, pure, err_bind, ok_bind, hlive] at h
  obtain ⟨hct, h⟩ := ite_err_ok h
  obtain ⟨_, h⟩ := ite_err_ok h
  obtain ⟨_, h⟩ := ite_err_ok h
  obtain ⟨_, h⟩ := ite_err_ok h
  obtain ⟨_, h⟩ := ite_err_ok h
  obtain ⟨x, _, h⟩ := bind_ok h
  rcases ite_ok h with ⟨hc, _⟩ | ⟨_, h⟩
  · simp at hc
  rcases ite_ok h with ⟨_, h⟩ | ⟨_, h⟩
  · cases h
  obtain ⟨hnz, h⟩ := ite_err_ok h
  obtain ⟨y, hy, h⟩ := bind_ok h
  obtain ⟨_, h⟩ := ite_err_ok h
  obtain ⟨_, h⟩ := ite_err_ok h
  obtain ⟨_, h⟩ := ite_err_ok h
  obtain ⟨_, h⟩ := ite_err_ok h
  obtain ⟨b1, hb1, h⟩ := bind_ok h
  obtain ⟨b2, hb2, h⟩ := bind_ok h
  have hr := res_ok_inj h
  exact ⟨_, y.1, y.2.1, y.2.2.1, y.2.2.2.1, y.2.2.2.2, b1, b2, by simpa using hct, by simpa using hnz, hy, hb1, hb2,
    (congrArg Prod.fst hr).symm⟩

/-- the abstraction of the placeholder state of `createPosition`: one dead record appended -/
theorem absOf_withFresh {s : St} (hw : WF6 s) {sender : Addr} {pool : Nat} {lo hi : Int} {d : String} {k : Int} {a : ASt}
    (h : CLAccrual.absOf s pool d k = some a) :
    CLAccrual.absOf (withFresh s sender pool lo hi) pool d k = some { a with pos := a.pos ++ [⟨lo, hi, 0, 0, 0⟩] } ∧
    (poolPositions (withFresh s sender pool lo hi) pool)[a.pos.length]? = some ⟨s.nextPos, pool, sender, lo, hi, Dec.zero⟩ := by
  obtain ⟨p, acc, hp, hacc, ea⟩ := absOf_some h
  obtain ⟨f1, f2, f3, f4⟩ := withFresh_frame s sender pool lo hi
  obtain ⟨g1, g2⟩ := withFresh_acc s sender pool lo hi
  have fb := withFresh_bank s sender pool lo hi
  have fp := withFresh_positions s sender pool lo hi hw.inv.w.idsLt
  have hp' : getPool (withFresh s sender pool lo hi) pool = some p := by unfold getPool; rw [f1]; exact hp
  have hacc' : getAccum (withFresh s sender pool lo hi) pool = some acc := by rw [getAccum_congr g1]; exact hacc
  have hpp : poolPositions (withFresh s sender pool lo hi) pool =
      poolPositions s pool ++ [⟨s.nextPos, pool, sender, lo, hi, Dec.zero⟩] := by
    unfold poolPositions; rw [fp, List.filter_append]; simp
  have hposOf : ∀ q, posOf (withFresh s sender pool lo hi) d q = posOf s d q := by
    intro q; unfold posOf; rw [getAccPos_congr g2]
  have hlen : a.pos.length = (poolPositions s pool).length := by rw [ea]; simp [absWith]
  constructor
  · rw [absOf_eq hp' hacc', ea]
    unfold absWith
    rw [foOf_congr f2, grossOf_congr' f2, netOf_congr' f2, fb, hpp, List.map_append]
    have e1 : (poolPositions s pool).map (posOf (withFresh s sender pool lo hi) d) = (poolPositions s pool).map (posOf s d) :=
      List.map_congr_left (fun q _ => hposOf q)
    have e2 : posOf (withFresh s sender pool lo hi) d ⟨s.nextPos, pool, sender, lo, hi, Dec.zero⟩ = ⟨lo, hi, 0, 0, 0⟩ := by
      rw [hposOf]; unfold posOf; rw [show getAccPos s s.nextPos = none from getAccPos_fresh hw.sh]; rfl
    rw [e1]; simp only [List.map_cons, List.map_nil, e2]
  · rw [hpp, hlen]; simp

/-- **3. `createPosition_refines`** (live pool: the pool record already carries a price, i.e. the pool has or had a
    position and is not in the reset state): the abstraction of the state after the whole message (placeholder record,
    `UpdatePosition`, the two transfers into the pool account) is EXACTLY the abstract `openPos lo hi δ` (`δ` = the
    liquidity computed from the amounts), except that the new record is appended at the END of the position list (store
    order) instead of prepended — a permutation, irrelevant for the invariant and every sum (`Inv_perm`).  The abstract
    guard holds; `WF6` and the accrual invariant hold again afterwards; the counter `k` is unchanged. -/
theorem createPosition_refines {s s' : St} {sender : Addr} {pool : Nat} {lo hi : Int} {dBase dQuote : Denom}
    {aBase aQuote minBase minQuote : Int} {out : CreatePosOut} {p0 : Pool} {denom : String} {k : Int} {a : ASt}
    (hw : WF6 s)
    (h : createPosition s sender pool lo hi dBase aBase dQuote aQuote minBase minQuote = .ok (s', out))
    (hp : getPool s pool = some p0) (hlive : poolLive p0 = true)
    (habs : CLAccrual.absOf s pool denom k = some a)
    (hInv : CLAccrual.Inv a)
    (hsender : sender ≠ feesAddr pool) :
    ∃ δ : Int,
      CLAccrual.absOf s' pool denom k
        = some { CLAccrual.step a (.openPos lo hi δ) with pos := a.pos ++ [Sunrise.C06Refine2.openRec a lo hi δ] } ∧
      (CLAccrual.step a (.openPos lo hi δ)).pos.Perm (a.pos ++ [Sunrise.C06Refine2.openRec a lo hi δ]) ∧
      (CLAccrual.Op.openPos lo hi δ).guard a ∧
      CLAccrual.Inv { CLAccrual.step a (.openPos lo hi δ) with pos := a.pos ++ [Sunrise.C06Refine2.openRec a lo hi δ] } ∧
      s'.bank.bal (feesAddr pool) denom = s.bank.bal (feesAddr pool) denom ∧
      WF6 s' := by
  obtain ⟨delta, s3, ab, aq, loE, hiE, b1, b2, hct, hnz, hu, hb1, hb2, hs'⟩ := createPosition_live_inv_bank h hp hlive
  have hlt : lo < hi := by
    unfold checkTicks at hct; simp only [Bool.and_eq_true, decide_eq_true_eq] at hct; exact hct.1.1
  have hpoolLt : pool < s.nextPool := hw.inv.w.poolIdsLt pool (getPool_mem_ids hp)
  have hwF := withFresh_winv hw.inv.w sender pool lo hi hlt hpoolLt
  obtain ⟨wF, shF⟩ := withFresh_wf hw.sorted hw.sh hw.inv.w.idsLt sender pool lo hi
  obtain ⟨f1, f2, f3, f4⟩ := withFresh_frame s sender pool lo hi
  obtain ⟨g1, g2⟩ := withFresh_acc s sender pool lo hi
  obtain ⟨hF, hidxF⟩ := absOf_withFresh hw (sender := sender) (lo := lo) (hi := hi) habs
  have hapF : getAccPos (withFresh s sender pool lo hi) s.nextPos = none := by
    rw [getAccPos_congr g2]; exact getAccPos_fresh hw.sh
  have hneF : ∀ t, (findTick (withFresh s sender pool lo hi) pool t).isSome = true →
      grossOf (withFresh s sender pool lo hi) pool t ≠ 0 := by
    intro t ht
    rw [grossOf_congr f2]
    apply hw.gross_ne pool t
    have : findTick (withFresh s sender pool lo hi) pool t = findTick s pool t := by unfold findTick; rw [f2]
    rw [← this]; exact ht
  obtain ⟨r1, r2, r3, _, r5⟩ := open_refines hu hF hidxF rfl rfl rfl rfl (by omega) hwF.idsNodup wF hapF hneF
  have hbank : ∀ d, b2.bal (feesAddr pool) d = s.bank.bal (feesAddr pool) d := by
    intro d
    rw [send_frame hb2 (Ne.symm hsender) (Ne.symm (poolAddr_ne_feesAddr _ _)),
      send_frame hb1 (Ne.symm hsender) (Ne.symm (poolAddr_ne_feesAddr _ _)), r5, withFresh_bank]
  have hset : (a.pos ++ [(⟨lo, hi, 0, 0, 0⟩ : APos)]).set a.pos.length (Sunrise.C06Refine2.openRec a lo hi delta.raw)
      = a.pos ++ [Sunrise.C06Refine2.openRec a lo hi delta.raw] := by
    rw [List.set_append_right _ _ (Nat.le_refl _)]; simp
  have hperm : (CLAccrual.step a (.openPos lo hi delta.raw)).pos.Perm
      (a.pos ++ [Sunrise.C06Refine2.openRec a lo hi delta.raw]) := by
    rw [Sunrise.C06Refine2.step_open]
    exact (List.perm_append_singleton _ _).symm
  refine ⟨delta.raw, ?_, hperm, ⟨hlt, r2⟩, Inv_perm hperm (Sunrise.C06A.inv_step _ _ hInv ⟨hlt, r2⟩), ?_, createPosition_wf6 hw h⟩
  · rw [hs']
    have := absOf_bank b2 ((hbank denom).trans (by rw [r5, withFresh_bank])) r1
    rw [this]
    show some _ = some _
    congr 1
    show ({ CLAccrual.step { a with pos := a.pos ++ [(⟨lo, hi, 0, 0, 0⟩ : APos)] } (.openPos lo hi delta.raw) with
      pos := (a.pos ++ [(⟨lo, hi, 0, 0, 0⟩ : APos)]).set a.pos.length
        (Sunrise.C06Refine2.openRec { a with pos := a.pos ++ [(⟨lo, hi, 0, 0, 0⟩ : APos)] } lo hi delta.raw) } : ASt) = _
    rw [show Sunrise.C06Refine2.openRec { a with pos := a.pos ++ [(⟨lo, hi, 0, 0, 0⟩ : APos)] } lo hi delta.raw
      = Sunrise.C06Refine2.openRec a lo hi delta.raw from rfl, hset]
    rfl
  · rw [hs']; exact hbank denom

/-- the accrual invariant at EVERY denom after `createPosition` on a live pool (iteration form of
    `createPosition_refines`) -/
theorem createPosition_hInv {s s' : St} {sender : Addr} {pool : Nat} {lo hi : Int} {dBase dQuote : Denom}
    {aBase aQuote minBase minQuote : Int} {out : CreatePosOut} {p0 : Pool} {k : Int}
    (hw : WF6 s)
    (h : createPosition s sender pool lo hi dBase aBase dQuote aQuote minBase minQuote = .ok (s', out))
    (hp : getPool s pool = some p0) (hlive : poolLive p0 = true)
    (hInv : ∀ d' b, CLAccrual.absOf s pool d' k = some b → CLAccrual.Inv b)
    (hsender : sender ≠ feesAddr pool) :
    ∀ d' b', CLAccrual.absOf s' pool d' k = some b' → CLAccrual.Inv b' := by
  intro d' b' hb'
  obtain ⟨p1, acc1, hp1, hacc1, _⟩ := absOf_some hb'
  -- the pool and accumulator records exist before as well: take the abstraction before at d'
  cases hacc : getAccum s pool with
  | none =>
    exfalso
    obtain ⟨delta, s3, ab, aq, loE, hiE, b1, b2, _, _, hu, _, _, hs'⟩ := createPosition_live_inv_bank h hp hlive
    obtain ⟨wF, _⟩ := withFresh_wf hw.sorted hw.sh hw.inv.w.idsLt sender pool lo hi
    have hlt : lo ≠ hi := by
      obtain ⟨_, _, _, _, _, _, _, _, hct, _⟩ := createPosition_live_inv_bank h hp hlive
      unfold checkTicks at hct; simp only [Bool.and_eq_true, decide_eq_true_eq] at hct; omega
    obtain ⟨s2, s4, _, _, _, _, _, _, _, h5, _, _, _, _, hac4, _, _, _, _, _, _, _, _, _, _, hsw4⟩ := updatePosition_s4 hu hlt
    obtain ⟨a0, _, _, ha0, _⟩ := setAccumFee_effect (hsw4 wF) h5
    rw [getAccum_congr hac4, getAccum_congr (withFresh_acc s sender pool lo hi).1, hacc] at ha0; cases ha0
  | some acc =>
    obtain ⟨δ, c1, _, _, c4, _⟩ := createPosition_refines hw h hp hlive (absOf_eq (denom := d') (k := k) hp hacc)
      (hInv d' _ (absOf_eq hp hacc)) hsender
    rw [c1] at hb'
    have e := Option.some.inj hb'; subst e
    exact c4

/-! non-vacuity of `createPosition_refines`: a third position [0,2) on the live pool 0 of `exF` -/
def okC (r : Res (St × CreatePosOut)) : Bool := match r with | .ok _ => true | _ => false
example : ∃ p0 a, getPool exF 0 = some p0 ∧ poolLive p0 = true ∧
    okC (createPosition exF "a1" 0 0 2 "base" 500000 "quote" 500000 0 0) = true ∧
    CLAccrual.absOf exF 0 "quote" 0 = some a ∧ CLAccrual.Inv a ∧ "a1" ≠ feesAddr 0 ∧ WF6 exF := by
  have h1 : ((getPool exF 0).any fun p => poolLive p) = true := by decide +kernel
  have h2 : (CLAccrual.absOf exF 0 "quote" 0).isSome = true := by decide +kernel
  obtain ⟨a, ha⟩ := Option.isSome_iff_exists.mp h2
  cases hp : getPool exF 0 with
  | none => rw [hp] at h1; simp at h1
  | some p0 =>
    rw [hp] at h1
    simp only [Option.any_some] at h1
    exact ⟨p0, a, rfl, h1, by decide +kernel, ha, exF_hInv _ _ ha, by decide, exF_wf6⟩

/-! ### 4. `increaseLiquidity` = full withdrawal, then `createPosition` -/

/-- `decreaseLiquidity` keeps every other position -/
theorem decreaseLiquidity_keeps_others {s s' : St} {sender : Addr} {posId : Nat} {liq : Dec} {ab aq : Int} (hw : WF6 s)
    (h : decreaseLiquidity s sender posId liq = .ok (s', ab, aq)) :
    ∀ x ∈ s.positions, x.id ≠ posId → x ∈ s'.positions := by
  obtain ⟨pos, p, s1, c, s2, ab0, aq0, loE, hiE, b2, hq, hn, hle, hp, hcf, hu, hs'⟩ := decreaseLiquidity_inv h
  have hw1 : WF6 s1 := collectFees_wf6 hw hcf
  have hc := collectFees_core hcf
  have hq1 : getPosition s1 posId = some pos := by rw [getPosition_congr hc.2.1]; exact hq
  have hlt := (hw.inv.w.posWf pos (List.mem_of_find?_eq_some hq)).2
  obtain ⟨_, _, k3, _⟩ := updatePosition_struct hu hw1.ids_nodup hq1 (by omega)
  intro x hx hne
  have : s'.positions = s2.positions := by rw [hs']; exact removeTicks_positions _ _ _ _ _ _
  rw [this]
  exact k3 x (by rw [hc.2.1]; exact hx) hne

/-- `IncreaseLiquidity` = `DecreaseLiquidity` of the whole position, then `CreatePosition` with the withdrawn coins added
    (same statement as `C02Refine.increaseLiquidity_parts`; restated here to avoid importing the custody development) -/
theorem increaseLiquidity_parts {s s' : St} {sender : Addr} {posId : Nat} {aBase aQuote minBase minQuote : Int}
    {out : CreatePosOut} (h : increaseLiquidity s sender posId aBase aQuote minBase minQuote = .ok (s', out)) :
    ∃ pos s1 wb wq p, getPosition s posId = some pos ∧
      decreaseLiquidity s sender posId pos.liq = .ok (s1, wb, wq) ∧ getPool s1 pos.pool = some p ∧
      createPosition s1 sender pos.pool pos.lower pos.upper p.base (wb + aBase) p.quote (wq + aQuote)
        (wb + minBase) (wq + minQuote) = .ok (s', out) := by
  unfold increaseLiquidity at h
  simp only [bind, pure, err_bind, ok_bind] at h
  cases hpos : getPosition s posId with
  | none => rw [hpos] at h; cases h
  | some pos =>
    rw [hpos] at h
    simp only [] at h
    obtain ⟨_, h⟩ := ite_err_ok h
    obtain ⟨_, h⟩ := ite_err_ok h
    obtain ⟨_, h⟩ := ite_err_ok h
    obtain ⟨x, hx, h⟩ := bind_ok h
    cases hp : getPool x.1 pos.pool with
    | none => rw [hp] at h; cases h
    | some p =>
      rw [hp] at h
      exact ⟨pos, x.1, x.2.1, x.2.2, p, rfl, hx, hp, h⟩

/-- **4. `increaseLiquidity_refines`** (the pool keeps another position): `increaseLiquidity` is `decreaseLiquidity` of the
    position's WHOLE liquidity (intermediate store `s1`, abstraction `a1`) followed by `createPosition` of the same range
    with the withdrawn coins added.  On the abstraction: `a1` is `claim i ; change i (−liq) ; drop record i` of `a`
    (`ObsEqFo`), and the abstraction of the state after is EXACTLY the abstract `openPos lower upper δ` of `a1`, the new
    record appended at the end (a permutation).  All three abstract guards hold; `WF6` and `CLAccrual.Inv` hold after. -/
theorem increaseLiquidity_refines {s s' : St} {sender : Addr} {posId : Nat} {aBase aQuote minBase minQuote : Int}
    {out : CreatePosOut} {pool : Nat} {denom : String} {k : Int} {a : ASt} {i : Nat} {pos : Position}
    (hw : WF6 s)
    (h : increaseLiquidity s sender posId aBase aQuote minBase minQuote = .ok (s', out))
    (habs : CLAccrual.absOf s pool denom k = some a)
    (hidx : (poolPositions s pool)[i]? = some pos) (hid : pos.id = posId)
    (hInv : ∀ d' b, CLAccrual.absOf s pool d' k = some b → CLAccrual.Inv b)
    (hsender : sender ≠ feesAddr pool)
    (hrest : ∃ q ∈ s.positions, q.pool = pool ∧ q.id ≠ posId) :
    ∃ (a1 : ASt) (δ : Int),
      ObsEqFo a1 (dropRec (CLAccrual.step (CLAccrual.step a (.claim i)) (.change i (-pos.liq.raw))) i) ∧
      CLAccrual.absOf s' pool denom (k + 1 + 1)
        = some { CLAccrual.step a1 (.openPos pos.lower pos.upper δ) with
                 pos := a1.pos ++ [Sunrise.C06Refine2.openRec a1 pos.lower pos.upper δ] } ∧
      (CLAccrual.Op.claim i).guard a ∧
      (CLAccrual.Op.change i (-pos.liq.raw)).guard (CLAccrual.step a (.claim i)) ∧
      (CLAccrual.Op.openPos pos.lower pos.upper δ).guard a1 ∧
      CLAccrual.Inv a1 ∧
      CLAccrual.Inv { CLAccrual.step a1 (.openPos pos.lower pos.upper δ) with
                      pos := a1.pos ++ [Sunrise.C06Refine2.openRec a1 pos.lower pos.upper δ] } ∧
      s'.bank.bal (feesAddr pool) denom = s.bank.bal (feesAddr pool) denom - CLAccrual.claimPay a i ∧
      WF6 s' := by
  have hmem := (mem_poolPositions.mp (List.mem_of_getElem? hidx)).1
  have hpool : pos.pool = pool := (mem_poolPositions.mp (List.mem_of_getElem? hidx)).2
  have hgetpos : getPosition s posId = some pos := by rw [← hid]; exact getPosition_of_mem hw.ids_nodup hmem
  obtain ⟨pos', s1, wb, wq, p, hq, hdec, hp1, hcr⟩ := increaseLiquidity_parts h
  have e : pos' = pos := by rw [hgetpos] at hq; exact (Option.some.inj hq).symm
  subst e
  rw [hpool] at hp1 hcr
  obtain ⟨⟨a1, e1, e2⟩, g1, g2, _, e4, hw1, hInv1⟩ :=
    decreaseLiquidity_full_refines hw hdec habs hidx hid hInv hsender rfl hrest
  -- the pool still has a position, so its record is live
  obtain ⟨q, hqm, hqp, hqid⟩ := hrest
  have hq1 : q ∈ s1.positions := decreaseLiquidity_keeps_others hw hdec q hqm hqid
  have hlive : poolLive p = true := by
    cases hl : poolLive p with
    | true => rfl
    | false =>
      have hno := hw1.inv.liveOK pool p hp1 hl
      unfold poolHasPosition at hno
      rw [List.any_eq_false] at hno
      exact absurd (by simp [hqp]) (hno q hq1)
  obtain ⟨δ, c1, _, c3, c4, c5, c6⟩ := createPosition_refines hw1 hcr hp1 hlive e1 (hInv1 _ _ e1) hsender
  exact ⟨a1, δ, e2, c1, g1, g2, c3, hInv1 _ _ e1, c4, by rw [c5, e4], c6⟩

/-! ### the abstract `openPos` respects `ObsEqFo` (it re-initialises the open entries before reading them) -/

theorem openFo_obsEqFo {x y : ASt} (h : ObsEqFo x y) (lo hi u : Int) (hu : u = lo ∨ u = hi ∨ y.gross u ≠ 0) :
    Sunrise.C06Refine2.openFo x lo hi u = Sunrise.C06Refine2.openFo y lo hi u := by
  obtain ⟨h1, h2, h3, h4, h5, h6, h7, h8, h9⟩ := h
  unfold Sunrise.C06Refine2.openFo CLAccrual.initFo
  simp only [h1, h3, h4]
  by_cases c1 : u = hi ∧ y.gross hi = 0
  · rw [if_pos c1, if_pos c1]
  · rw [if_neg c1, if_neg c1]
    by_cases c2 : u = lo ∧ y.gross lo = 0
    · rw [if_pos c2, if_pos c2]
    · rw [if_neg c2, if_neg c2]
      apply h2
      intro hz
      rcases hu with e | e | e
      · exact c2 ⟨e, by rw [← e]; exact hz⟩
      · exact c1 ⟨e, by rw [← e]; exact hz⟩
      · exact e hz

/-- the state `createPosition_refines` produces: abstract `openPos`, the new record appended -/
def openApp (a : ASt) (lo hi δ : Int) : ASt :=
  { CLAccrual.step a (.openPos lo hi δ) with pos := a.pos ++ [Sunrise.C06Refine2.openRec a lo hi δ] }

theorem ObsEqFo_openApp {x y : ASt} (h : ObsEqFo x y) (lo hi δ : Int) : ObsEqFo (openApp x lo hi δ) (openApp y lo hi δ) := by
  have hfo := openFo_obsEqFo h lo hi
  obtain ⟨h1, h2, h3, h4, h5, h6, h7, h8, h9⟩ := h
  have hrec : Sunrise.C06Refine2.openRec x lo hi δ = Sunrise.C06Refine2.openRec y lo hi δ := by
    unfold Sunrise.C06Refine2.openRec
    congr 1
    exact Sunrise.C06A.inside_congr { y with fo := Sunrise.C06Refine2.openFo y lo hi } { x with fo := Sunrise.C06Refine2.openFo x lo hi }
      lo hi h1 h3 (hfo lo (Or.inl rfl)) (hfo hi (Or.inr (Or.inl rfl)))
  unfold openApp
  rw [Sunrise.C06Refine2.step_open, Sunrise.C06Refine2.step_open]
  refine ⟨h1, ?_, h3, ?_, ?_, ?_, ?_, h8, h9⟩
  · intro t ht
    show Sunrise.C06Refine2.openFo x lo hi t = Sunrise.C06Refine2.openFo y lo hi t
    apply hfo
    by_cases c1 : t = lo
    · exact Or.inl c1
    · by_cases c2 : t = hi
      · exact Or.inr (Or.inl c2)
      · refine Or.inr (Or.inr ?_)
        have : (CLAccrual.applyDelta { y with fo := Sunrise.C06Refine2.openFo y lo hi } lo hi δ
            (Sunrise.C06Refine2.openRec y lo hi δ :: y.pos)).gross t = y.gross t := by
          show y.gross t + (if t = lo then δ else 0) + (if t = hi then δ else 0) = y.gross t
          rw [if_neg c1, if_neg c2]; omega
        intro hz
        apply ht
        show (CLAccrual.applyDelta { y with fo := Sunrise.C06Refine2.openFo y lo hi } lo hi δ
            (Sunrise.C06Refine2.openRec y lo hi δ :: y.pos)).gross t = 0
        rw [this]; exact hz
  · funext t
    show x.gross t + _ + _ = y.gross t + _ + _
    rw [h4]
  · funext t
    show x.net t + _ - _ = y.net t + _ - _
    rw [h5]
  · show (if lo ≤ x.cur ∧ x.cur < hi then x.active + δ else x.active) = (if lo ≤ y.cur ∧ y.cur < hi then y.active + δ else y.active)
    rw [h3, h6]
  · show x.pos ++ [_] = y.pos ++ [_]
    rw [h7, hrec]

/-- **4'. `increaseLiquidity_refines'`**: the same, stated against the abstraction `a` of the state BEFORE the message
    only: the abstraction after `increaseLiquidity` is `claim i ; change i (−liq) ; drop record i ; openPos lower upper δ`
    of `a` (new record appended), up to `ObsEqFo`. -/
theorem increaseLiquidity_refines' {s s' : St} {sender : Addr} {posId : Nat} {aBase aQuote minBase minQuote : Int}
    {out : CreatePosOut} {pool : Nat} {denom : String} {k : Int} {a : ASt} {i : Nat} {pos : Position}
    (hw : WF6 s)
    (h : increaseLiquidity s sender posId aBase aQuote minBase minQuote = .ok (s', out))
    (habs : CLAccrual.absOf s pool denom k = some a)
    (hidx : (poolPositions s pool)[i]? = some pos) (hid : pos.id = posId)
    (hInv : ∀ d' b, CLAccrual.absOf s pool d' k = some b → CLAccrual.Inv b)
    (hsender : sender ≠ feesAddr pool)
    (hrest : ∃ q ∈ s.positions, q.pool = pool ∧ q.id ≠ posId) :
    ∃ (a' : ASt) (δ : Int),
      CLAccrual.absOf s' pool denom (k + 1 + 1) = some a' ∧
      ObsEqFo a' (openApp (dropRec (CLAccrual.step (CLAccrual.step a (.claim i)) (.change i (-pos.liq.raw))) i)
        pos.lower pos.upper δ) ∧
      (CLAccrual.Op.claim i).guard a ∧
      (CLAccrual.Op.change i (-pos.liq.raw)).guard (CLAccrual.step a (.claim i)) ∧
      (CLAccrual.Op.openPos pos.lower pos.upper δ).guard
        (dropRec (CLAccrual.step (CLAccrual.step a (.claim i)) (.change i (-pos.liq.raw))) i) ∧
      CLAccrual.Inv a' ∧ WF6 s' := by
  obtain ⟨a1, δ, e1, e2, g1, g2, g3, _, i2, _, w⟩ := increaseLiquidity_refines hw h habs hidx hid hInv hsender hrest
  exact ⟨_, δ, e2, ObsEqFo_openApp e1 _ _ _, g1, g2, g3, i2, w⟩

/-- the accrual invariant at EVERY denom after `increaseLiquidity` (iteration form of `increaseLiquidity_refines`) -/
theorem increaseLiquidity_hInv {s s' : St} {sender : Addr} {posId : Nat} {aBase aQuote minBase minQuote : Int}
    {out : CreatePosOut} {pool : Nat} {denom : String} {k : Int} {a : ASt} {i : Nat} {pos : Position}
    (hw : WF6 s)
    (h : increaseLiquidity s sender posId aBase aQuote minBase minQuote = .ok (s', out))
    (habs : CLAccrual.absOf s pool denom k = some a)
    (hidx : (poolPositions s pool)[i]? = some pos) (hid : pos.id = posId)
    (hInv : ∀ d' b, CLAccrual.absOf s pool d' k = some b → CLAccrual.Inv b)
    (hsender : sender ≠ feesAddr pool)
    (hrest : ∃ q ∈ s.positions, q.pool = pool ∧ q.id ≠ posId) :
    ∀ d' b', CLAccrual.absOf s' pool d' (k + 1 + 1) = some b' → CLAccrual.Inv b' := by
  have hmem := (mem_poolPositions.mp (List.mem_of_getElem? hidx)).1
  have hpool : pos.pool = pool := (mem_poolPositions.mp (List.mem_of_getElem? hidx)).2
  have hgetpos : getPosition s posId = some pos := by rw [← hid]; exact getPosition_of_mem hw.ids_nodup hmem
  obtain ⟨pos', s1, wb, wq, p, hq, hdec, hp1, hcr⟩ := increaseLiquidity_parts h
  have e : pos' = pos := by rw [hgetpos] at hq; exact (Option.some.inj hq).symm
  subst e
  rw [hpool] at hp1 hcr
  obtain ⟨_, _, _, _, _, hw1, hInv1⟩ := decreaseLiquidity_full_refines hw hdec habs hidx hid hInv hsender rfl hrest
  obtain ⟨q, hqm, hqp, hqid⟩ := hrest
  have hq1 : q ∈ s1.positions := decreaseLiquidity_keeps_others hw hdec q hqm hqid
  have hlive : poolLive p = true := by
    cases hl : poolLive p with
    | true => rfl
    | false =>
      have hno := hw1.inv.liveOK pool p hp1 hl
      unfold poolHasPosition at hno
      rw [List.any_eq_false] at hno
      exact absurd (by simp [hqp]) (hno q hq1)
  exact createPosition_hInv hw1 hcr hp1 hlive hInv1 hsender

/-! non-vacuity of `increaseLiquidity_refines`: on `exF`, "a0" adds 1000 / 1000 to position 0 while position 1 stays -/
example : okC (increaseLiquidity exF "a0" 0 1000 1000 0 0) = true ∧
    (∃ pos, (poolPositions exF 0)[0]? = some pos ∧ pos.id = 0) ∧ (∃ q ∈ exF.positions, q.pool = 0 ∧ q.id ≠ 0) ∧
    "a0" ≠ feesAddr 0 ∧ WF6 exF ∧ (∀ d b, CLAccrual.absOf exF 0 d 0 = some b → CLAccrual.Inv b) := by
  have h3 : ((poolPositions exF 0)[0]?.any fun p => p.id == 0) = true := by decide +kernel
  have h4 : (exF.positions.any fun q => q.pool == 0 && q.id != 0) = true := by decide +kernel
  refine ⟨by decide +kernel, ?_, ?_, by decide, exF_wf6, exF_hInv⟩
  · cases hp : (poolPositions exF 0)[0]? with
    | none => rw [hp] at h3; simp at h3
    | some pos =>
      rw [hp] at h3
      simp only [Option.any_some, beq_iff_eq] at h3
      exact ⟨pos, rfl, h3⟩
  · obtain ⟨q, hq, hq'⟩ := List.any_eq_true.mp h4
    simp only [Bool.and_eq_true, beq_iff_eq, bne_iff_ne, ne_eq] at hq'
    exact ⟨q, hq, hq'.1, hq'.2⟩

end Sunrise.C06Msg2

#print axioms Sunrise.C06Msg2.poolAddr_ne_feesAddr
#print axioms Sunrise.C06Msg2.decreaseLiquidity_refines
#print axioms Sunrise.C06Msg2.decreaseLiquidity_full_refines
#print axioms Sunrise.C06Msg2.Inv_obsEqFo
#print axioms Sunrise.C06Msg2.createPosition_refines
#print axioms Sunrise.C06Msg2.increaseLiquidity_refines
#print axioms Sunrise.C06Msg2.increaseLiquidity_refines'
#print axioms Sunrise.C06Msg2.createPosition_hInv
#print axioms Sunrise.C06Msg2.increaseLiquidity_hInv
