import SunriseVerif.Props.C12
/-!
C12, completion of the induction: preservation of `Inv` (Props/C12.lean) by the four operations that `Core` left out —
`sdSelfDelegate`, `sdWithdraw` (self-delegatable lockup handlers) and `modSelfDelegate`, `modWithdraw` (x/selfdelegation
messages sent directly by a delegator) — and the headline theorems over histories built from ALL fourteen operations.

`Inv` and `OpOk` are unchanged; no hypothesis is added.
-/
set_option linter.unusedSimpArgs false
set_option linter.unusedVariables false
namespace Sunrise.C12
open Sunrise Sunrise.Lockup Sunrise.Gen.KernelsLockup

/-! ### small facts -/

theorem proxyOf_lock : proxyOf lock = "plock" := by decide

theorem proxyOf_other {d : Addr} (h : d ≠ lock) : proxyOf d = "pown" := by
  unfold proxyOf
  unfold lock at h
  simp [h]

theorem convert_other {b b' : Bank} {holder : Addr} {amt : Int} (hh : holder ≠ Convert.moduleAcc)
    (h : Convert.convert bond fee b holder amt = .ok b') :
    ∀ a d, a ≠ holder → a ≠ Convert.moduleAcc → b'.bal a d = b.bal a d :=
  (C13.swapDenoms_exact b b' holder bond fee amt (by decide) hh h).2.2.2.2.2.2.1

/-- TrackUndelegation: x comes out of DF first, y out of DV; both are exhausted when the amount exceeds DF + DV -/
theorem trackUndel_facts {v : Variant} {dv df amt dv' df' : Int} (hdv : 0 ≤ dv) (hdf : 0 ≤ df) (ha : 0 ≤ amt)
    (h : trackUndelegation v dv df amt = some (dv', df')) :
    ∃ x y, 0 ≤ x ∧ x ≤ df ∧ 0 ≤ y ∧ y ≤ dv ∧ x + y ≤ amt ∧ (x + y = amt ∨ (x = df ∧ y = dv))
      ∧ dv' = dv - y ∧ df' = df - x ∧ amt ≠ 0 := by
  have hv : ∃ sd, v = vOf sd := by cases v; exact ⟨false, rfl⟩; exact ⟨true, rfl⟩
  obtain ⟨sd, rfl⟩ := hv
  have b1 := trackUndel_bounds sd df dv amt hdf hdv ha
  simp only at b1
  obtain ⟨x0, xdf, y0, ydv, xya, _⟩ := b1
  have c1 := track_coinArith sd df (kUndelX (vOf sd) df dv amt)
  have c2 := track_coinArith sd dv (kUndelY (vOf sd) df dv amt (kUndelX (vOf sd) df dv amt))
  have hex : kUndelX (vOf sd) df dv amt + kUndelY (vOf sd) df dv amt (kUndelX (vOf sd) df dv amt) = amt
      ∨ (kUndelX (vOf sd) df dv amt = df ∧ kUndelY (vOf sd) df dv amt (kUndelX (vOf sd) df dv amt) = dv) := by
    cases sd <;> simp only [vOf, kUndelX, kUndelY, nv_trackUndel_x, nv_trackUndel_y, sd_trackUndel_x, sd_trackUndel_y,
      Bool.false_eq_true, if_false, if_true] <;> omega
  unfold trackUndelegation at h
  split at h; · simp at h
  rename_i hrej
  simp only [Option.some.injEq, Prod.mk.injEq] at h
  obtain ⟨e1, e2⟩ := h
  refine ⟨kUndelX (vOf sd) df dv amt, kUndelY (vOf sd) df dv amt (kUndelX (vOf sd) df dv amt),
    x0, xdf, y0, ydv, xya, hex, ?_, ?_, ?_⟩
  · rw [← e1]
    split
    · exact c2.2.2.2
    · rename_i hz
      cases sd <;> simp [vOf, kUndelSetDV, nv_trackUndel_setDV, sd_trackUndel_setDV, Int.isZeroB] at hz <;> simp [vOf] <;> omega
  · rw [← e2]
    split
    · exact c1.2.2.1
    · rename_i hz
      cases sd <;> simp [vOf, kUndelSetDF, nv_trackUndel_setDF, sd_trackUndel_setDF, Int.isZeroB] at hz <;> simp [vOf] <;> omega
  · intro hz; subst hz
    cases sd <;> simp [vOf, kUndelReject, nv_trackUndel_reject, sd_trackUndel_reject, Int.isZeroB] at hrej

/-! ### the two x/selfdelegation handlers, taken apart -/

theorem modSelfDelegate_ok {s s' : St} {d : Addr} {amt : Int} {e : Ext} (h : modSelfDelegate s d amt e = .ok s') :
    ∃ b1 b2 b3, 0 < amt ∧ s.bank.send d (proxyOf d) fee amt = .ok b1
      ∧ Convert.convertReverse bond fee b1 (proxyOf d) amt = .ok b2
      ∧ b2.send (proxyOf d) stakingPool bond amt = .ok b3
      ∧ s' = { s with bank := claim b3 (proxyOf d) e, hasProxy := fun a => if a = d then true else s.hasProxy a,
                      stake := fun a => if a = proxyOf d then s.stake (proxyOf d) + amt else s.stake a } := by
  simp only [modSelfDelegate] at h
  split at h; · simp at h
  rename_i hpos
  split at h; · simp at h
  obtain ⟨b1, h1, h⟩ := Bank.bind_ok h
  obtain ⟨b2, h2, h⟩ := Bank.bind_ok h
  obtain ⟨b3, h3, h⟩ := Bank.bind_ok h
  split at h; · simp at h
  simp only [Res.ok.injEq] at h
  exact ⟨b1, b2, b3, by omega, h1, h2, h3, h.symm⟩

theorem modWithdraw_ok {s s' : St} {d : Addr} {amt : Int} (h : modWithdraw s d amt = .ok s') :
    ∃ b1 b2, 0 < amt ∧ Convert.convert bond fee s.bank (proxyOf d) amt = .ok b1
      ∧ b1.send (proxyOf d) d fee amt = .ok b2 ∧ s' = { s with bank := b2 } := by
  simp only [modWithdraw] at h
  split at h; · simp at h
  rename_i hpos
  split at h; · simp at h
  obtain ⟨b1, h1, h⟩ := Bank.bind_ok h
  obtain ⟨b2, h2, h⟩ := Bank.bind_ok h
  simp only [Res.ok.injEq] at h
  exact ⟨b1, b2, by omega, h1, h2, h.symm⟩

/-- SelfDelegate for the lockup itself: `amt` leaves the account's fee balance and ends up as stake of its proxy;
    the proxy's bond balance only receives the hook-paid reward -/
theorem selfDelegate_lock_bal {bk b1 b2 b3 : Bank} {amt : Int} (e : Ext)
    (h1 : bk.send lock "plock" fee amt = .ok b1)
    (h2 : Convert.convertReverse bond fee b1 "plock" amt = .ok b2)
    (h3 : b2.send "plock" stakingPool bond amt = .ok b3) :
    amt ≤ bk.bal lock fee
    ∧ (claim b3 "plock" e).bal lock fee = bk.bal lock fee - amt
    ∧ (claim b3 "plock" e).bal lock shareD = bk.bal lock shareD
    ∧ (claim b3 "plock" e).bal "plock" bond = bk.bal "plock" bond + e.rewBond := by
  obtain ⟨_, hle, e1⟩ := Bank.send_ok h1
  obtain ⟨_, hB, _, _, _, _, hO, _, _, _⟩ :=
    C13.swapDenoms_exact b1 b2 "plock" fee bond amt (by decide) (by decide) h2
  obtain ⟨_, _, e3⟩ := Bank.send_ok h3
  have o1 := hO lock fee (by decide) (by decide)
  have o2 := hO lock shareD (by decide) (by decide)
  subst e3
  refine ⟨hle, ?_, ?_, ?_⟩
  · rw [claim_bal]
    simp [Bank.credit_bal, fee, bond, shareD, lock, stakingPool] at o1 ⊢
    rw [o1, e1]
    simp [Bank.credit_bal, fee, bond, shareD, lock]; omega
  · rw [claim_bal]
    simp [Bank.credit_bal, fee, bond, shareD, lock, stakingPool] at o2 ⊢
    rw [o2, e1]
    simp [Bank.credit_bal, fee, bond, shareD, lock]
  · rw [claim_bal]
    simp [Bank.credit_bal, fee, bond, shareD, lock, stakingPool] at hB ⊢
    rw [hB, e1]
    simp [Bank.credit_bal, fee, bond, shareD, lock]

/-- WithdrawSelfDelegationUnbonded for the lockup itself: `amt` of the proxy's bond balance comes back as fee coins -/
theorem withdraw_lock_bal {bk b1 b2 : Bank} {amt : Int}
    (h1 : Convert.convert bond fee bk "plock" amt = .ok b1)
    (h2 : b1.send "plock" lock fee amt = .ok b2) :
    amt ≤ bk.bal "plock" bond
    ∧ b2.bal lock fee = bk.bal lock fee + amt
    ∧ b2.bal lock shareD = bk.bal lock shareD
    ∧ b2.bal "plock" bond = bk.bal "plock" bond - amt := by
  obtain ⟨hA, _, _, _, _, _, hO, _, _, hle⟩ :=
    C13.swapDenoms_exact bk b1 "plock" bond fee amt (by decide) (by decide) h1
  obtain ⟨_, _, e2⟩ := Bank.send_ok h2
  have o1 := hO lock fee (by decide) (by decide)
  have o2 := hO lock shareD (by decide) (by decide)
  subst e2
  refine ⟨hle, ?_, ?_, ?_⟩
  · simp [Bank.credit_bal, fee, bond, shareD, lock] at o1 ⊢
    rw [o1]
  · simp [Bank.credit_bal, fee, bond, shareD, lock] at o2 ⊢
    rw [o2]
  · simp [Bank.credit_bal, fee, bond, shareD, lock] at hA ⊢
    rw [hA]

/-! ### preservation: x/selfdelegation messages of another delegator (`OpOk`: `d ≠ lock`, so the proxy is "pown") -/

theorem inv_modSelfDelegate {s s' : St} {d : Addr} {amt : Int} {e : Ext} (hI : Inv s) (ho : d ≠ lock ∧ extOk e)
    (h : modSelfDelegate s d amt e = .ok s') : Inv s' := by
  obtain ⟨b1, b2, b3, hpos, h1, h2, h3, es⟩ := modSelfDelegate_ok h
  have hp := proxyOf_other ho.1
  rw [hp] at h1 h2 h3 es
  subst es
  obtain ⟨_, _, e1⟩ := Bank.send_ok h1
  have hO := convReverse_other (by decide : ("pown" : Addr) ≠ Convert.moduleAcc) h2
  obtain ⟨_, _, e3⟩ := Bank.send_ok h3
  have hd : ¬ (lock = d) := fun c => ho.1 c.symm
  refine inv_mono hI rfl rfl rfl rfl rfl rfl rfl rfl rfl rfl rfl rfl ?_ ?_ ?_ ?_
  · show (if "plock" = "pown" then s.stake "pown" + amt else s.stake "plock") = s.stake "plock"
    simp
  · show s.bank.bal lock fee ≤ (claim b3 "pown" e).bal lock fee
    have o := hO lock fee (by decide) (by decide)
    subst e3
    rw [claim_bal]
    simp [Bank.credit_bal, fee, bond, shareD, lock, stakingPool] at o ⊢
    rw [o, e1]
    simp [Bank.credit_bal, fee, bond, shareD, lock] at hd ⊢
    simp [hd]
  · show (claim b3 "pown" e).bal lock shareD = s.bank.bal lock shareD
    have o := hO lock shareD (by decide) (by decide)
    subst e3
    rw [claim_bal]
    simp [Bank.credit_bal, fee, bond, shareD, lock, stakingPool] at o ⊢
    rw [o, e1]
    simp [Bank.credit_bal, fee, bond, shareD, lock]
  · show s.bank.bal "plock" bond ≤ (claim b3 "pown" e).bal "plock" bond
    have o := hO "plock" bond (by decide) (by decide)
    subst e3
    rw [claim_bal]
    simp [Bank.credit_bal, fee, bond, shareD, lock, stakingPool] at o ⊢
    rw [o, e1]
    simp [Bank.credit_bal, fee, bond, shareD, lock]

theorem inv_modWithdraw {s s' : St} {d : Addr} {amt : Int} (hI : Inv s) (ho : d ≠ lock)
    (h : modWithdraw s d amt = .ok s') : Inv s' := by
  obtain ⟨b1, b2, hpos, h1, h2, es⟩ := modWithdraw_ok h
  have hp := proxyOf_other ho
  rw [hp] at h1 h2
  subst es
  have hO := convert_other (by decide : ("pown" : Addr) ≠ Convert.moduleAcc) h1
  obtain ⟨_, _, e2⟩ := Bank.send_ok h2
  subst e2
  refine inv_mono hI rfl rfl rfl rfl rfl rfl rfl rfl rfl rfl rfl rfl rfl ?_ ?_ ?_
  · show s.bank.bal lock fee ≤ ((b1.credit "pown" fee (-amt)).credit d fee amt).bal lock fee
    rw [← hO lock fee (by decide) (by decide)]
    exact credit2_ge _ _ _ _ _ _ _ (by omega) (fun c => by have := c.1; revert this; decide)
  · show ((b1.credit "pown" fee (-amt)).credit d fee amt).bal lock shareD = s.bank.bal lock shareD
    rw [← hO lock shareD (by decide) (by decide)]
    simp [Bank.credit_bal, fee, shareD]
  · show s.bank.bal "plock" bond ≤ ((b1.credit "pown" fee (-amt)).credit d fee amt).bal "plock" bond
    rw [← hO "plock" bond (by decide) (by decide)]
    simp [Bank.credit_bal, fee, bond]

/-! ### preservation: the self-delegatable lockup's own handlers -/

theorem inv_sdSelfDelegate {s s' : St} {c sd : Addr} {amt : Int} {e : Ext} (hI : Inv s) (he : extOk e)
    (h : doSdSelfDelegate s c sd amt e = .ok s') : Inv s' := by
  simp only [doSdSelfDelegate] at h
  split at h; · simp at h
  rename_i hcv
  split at h; · simp at h
  split at h; · simp at h
  rename_i hneg
  split at h; · simp at h
  obtain ⟨locked, hl, h⟩ := Bank.bind_ok h
  split at h; · simp at h
  rename_i hb
  split at h; · simp at h
  rename_i dv df htd
  obtain ⟨b1, b2, b3, hpos, h1, h2, h3, es⟩ := modSelfDelegate_ok h
  rw [proxyOf_lock] at h1 h2 h3 es
  subst es
  have ha : 0 ≤ amt := by omega
  obtain ⟨x, x0, xa, xm, xf, edv, edf, anz, able⟩ := trackDel_facts ha htd
  have hv : s.variant = .sd := by
    simp only [Bool.or_eq_true, Bool.not_eq_true', decide_eq_true_eq, not_or] at hcv
    have := hcv.2; simpa using this
  have hcr : s.created = true := by
    simp only [Bool.or_eq_true, Bool.not_eq_true', decide_eq_true_eq, not_or] at hcv
    have := hcv.1; simpa using this
  have hl' : lockedT s s.now = .ok locked := hl
  have hr := lockedT_range hI hl'
  obtain ⟨hle, fL, fS, fP⟩ := selfDelegate_lock_bal (bk := s.bank) e h1 h2 h3
  have key : ∀ t l, s.now ≤ t → lockedT s t = .ok l → l ≤ locked := fun t l ht hlt => lockedT_antitone hI ht hl' hlt
  have fK : (if "plock" = "plock" then s.stake "plock" + amt else s.stake "plock") = s.stake "plock" + amt := by simp
  obtain ⟨hrf, hrb⟩ := he
  constructor
  · exact hI.ol0
  · exact hI.ut0
  · show 0 ≤ dv; have := hI.dv0; omega
  · show 0 ≤ df; have := hI.df0; omega
  · show 0 ≤ (claim b3 "plock" e).bal lock fee; rw [fL]; omega
  · show 0 ≤ (claim b3 "plock" e).bal lock shareD; rw [fS]; exact hI.bS0
  · show 0 ≤ (claim b3 "plock" e).bal "plock" bond; rw [fP]; have := hI.bP0; omega
  · show 0 ≤ (if "plock" = "plock" then s.stake "plock" + amt else s.stake "plock")
    rw [fK]; have := hI.st0; omega
  · exact hI.ubd0
  · exact hI.sc0
  · intro hc t l ht hlt
    have h1 := hI.cover hc t l ht hlt
    have h2 := key t l ht hlt
    show l - dv ≤ (claim b3 "plock" e).bal lock fee
    rw [fL, edv]
    rcases xf with hx | hx <;> omega
  · have := hI.tracked
    unfold actualDelegated at this ⊢
    simp only [hv] at this ⊢
    show dv + df ≤ (if "plock" = "plock" then s.stake "plock" + amt else s.stake "plock") + sumUnb "plock" s.ubds
        + (claim b3 "plock" e).bal "plock" bond
    rw [fK, fP]; omega
  · intro hnv _
    have : s.variant = .nv := hnv
    rw [hv] at this; exact absurd this (by decide)
  · exact hI.scHead
  · exact hI.headUt
  · intro hc t l ht hlt
    have := hI.cust hc t l ht hlt
    unfold custody at this ⊢
    simp only [hv] at this ⊢
    show l ≤ (claim b3 "plock" e).bal lock fee + (claim b3 "plock" e).bal "plock" bond
        + (if "plock" = "plock" then s.stake "plock" + amt else s.stake "plock") + sumUnb "plock" s.ubds
    rw [fL, fP, fK]; omega
  · intro hc
    have hc' : s.created = false := hc
    rw [hcr] at hc'; simp at hc'

theorem inv_sdWithdraw {s s' : St} {c sd : Addr} {amt : Int} (hI : Inv s)
    (h : doSdWithdraw s c sd amt = .ok s') : Inv s' := by
  simp only [doSdWithdraw] at h
  split at h; · simp at h
  rename_i hcv
  split at h; · simp at h
  split at h; · simp at h
  rename_i hneg
  split at h; · simp at h
  split at h; · simp at h
  rename_i dv df htu
  obtain ⟨b1, b2, hpos, h1, h2, es⟩ := modWithdraw_ok h
  rw [proxyOf_lock] at h1 h2
  subst es
  have ha : 0 ≤ amt := by omega
  obtain ⟨x, y, x0, xdf, y0, ydv, xya, hex, edv, edf, _⟩ := trackUndel_facts hI.dv0 hI.df0 ha htu
  have hv : s.variant = .sd := by
    simp only [Bool.or_eq_true, Bool.not_eq_true', decide_eq_true_eq, not_or] at hcv
    have := hcv.2; simpa using this
  have hcr : s.created = true := by
    simp only [Bool.or_eq_true, Bool.not_eq_true', decide_eq_true_eq, not_or] at hcv
    have := hcv.1; simpa using this
  obtain ⟨hle, fL, fS, fP⟩ := withdraw_lock_bal (bk := s.bank) h1 h2
  have hsu := sumUnb_nonneg "plock" s.ubds (ubdNonneg hI)
  constructor
  · exact hI.ol0
  · exact hI.ut0
  · show 0 ≤ dv; omega
  · show 0 ≤ df; omega
  · show 0 ≤ b2.bal lock fee; rw [fL]; have := hI.bL0; omega
  · show 0 ≤ b2.bal lock shareD; rw [fS]; exact hI.bS0
  · show 0 ≤ b2.bal "plock" bond; rw [fP]; omega
  · exact hI.st0
  · exact hI.ubd0
  · exact hI.sc0
  · intro hc t l ht hlt
    have := hI.cover hc t l ht hlt
    show l - dv ≤ b2.bal lock fee
    rw [fL, edv]; omega
  · have := hI.tracked
    have := hI.st0
    unfold actualDelegated at *
    simp only [hv] at *
    show dv + df ≤ s.stake "plock" + sumUnb "plock" s.ubds + b2.bal "plock" bond
    rw [fP, edv, edf]
    rcases hex with hx | ⟨hx, hy⟩ <;> omega
  · intro hnv _
    have : s.variant = .nv := hnv
    rw [hv] at this; exact absurd this (by decide)
  · exact hI.scHead
  · exact hI.headUt
  · intro hc t l ht hlt
    have := hI.cust hc t l ht hlt
    unfold custody at this ⊢
    simp only [hv] at this ⊢
    show l ≤ b2.bal lock fee + b2.bal "plock" bond + s.stake "plock" + sumUnb "plock" s.ubds
    rw [fL, fP]; omega
  · intro hc
    have hc' : s.created = false := hc
    rw [hcr] at hc'; simp at hc'

/-! ### all fourteen operations -/

theorem inv_step_all {s : St} {op : Op} (hI : Inv s) (ho : OpOk op) : Inv (step s op).1 := by
  cases op
  case sdSelfDelegate c sd x e =>
    unfold step
    by_cases hh : s.halted
    · simp [hh]; exact hI
    · simp only [hh, Bool.false_eq_true, if_false]
      cases ha : Lockup.apply s (.sdSelfDelegate c sd x e) with
      | err c => exact hI
      | panic k => exact hI
      | ok s' => exact inv_sdSelfDelegate hI ho ha
  case sdWithdraw c sd x =>
    unfold step
    by_cases hh : s.halted
    · simp [hh]; exact hI
    · simp only [hh, Bool.false_eq_true, if_false]
      cases ha : Lockup.apply s (.sdWithdraw c sd x) with
      | err c => exact hI
      | panic k => exact hI
      | ok s' => exact inv_sdWithdraw hI ha
  case modSelfDelegate d x e =>
    unfold step
    by_cases hh : s.halted
    · simp [hh]; exact hI
    · simp only [hh, Bool.false_eq_true, if_false]
      cases ha : Lockup.apply s (.modSelfDelegate d x e) with
      | err c => exact hI
      | panic k => exact hI
      | ok s' => exact inv_modSelfDelegate hI ho ha
  case modWithdraw d x =>
    unfold step
    by_cases hh : s.halted
    · simp [hh]; exact hI
    · simp only [hh, Bool.false_eq_true, if_false]
      cases ha : Lockup.apply s (.modWithdraw d x) with
      | err c => exact hI
      | panic k => exact hI
      | ok s' => exact inv_modWithdraw hI ho ha
  all_goals exact inv_step hI trivial ho

/-- invariant by induction over operation lists of any length built from ALL operations of the model -/
theorem inv_run_all (ops : List Op) : ∀ (s : St), Inv s → (∀ op ∈ ops, OpOk op) → Inv (run s ops) := by
  induction ops with
  | nil => intro s hI _; exact hI
  | cons op r ih =>
    intro s hI hall
    exact ih (step s op).1 (inv_step_all hI (hall op (by simp))) (fun o ho => hall o (by simp [ho]))

/-- **outflow_bound** without the `Core` restriction -/
theorem outflow_bound_all (s0 : St) (ops : List Op) (g : Genesis s0) (hops : ∀ op ∈ ops, OpOk op)
    (hc : (run s0 ops).created = true) (t l : Int) (ht : (run s0 ops).now ≤ t) (hl : lockedT (run s0 ops) t = .ok l) :
    l ≤ custody (run s0 ops) :=
  (inv_run_all ops s0 (inv_genesis g) hops).cust hc t l ht hl

/-- **tracked_le_actual** without the `Core` restriction -/
theorem tracked_le_actual_all (s0 : St) (ops : List Op) (g : Genesis s0) (hops : ∀ op ∈ ops, OpOk op) :
    0 ≤ (run s0 ops).DV ∧ 0 ≤ (run s0 ops).DF ∧ (run s0 ops).DV + (run s0 ops).DF ≤ actualDelegated (run s0 ops) :=
  let h := inv_run_all ops s0 (inv_genesis g) hops
  ⟨h.dv0, h.df0, h.tracked⟩

/-! ### non-vacuity: a history through the self-delegatable lockup and its proxy AND through the x/selfdelegation messages of
    a base-account delegator meets the hypotheses of the `_all` theorems; every step succeeds (`outcomes`):
    lock 1000, self-delegate 600 of the locked coins (hook reward 3 to the proxy), proxy undelegates 200, the delegator a0
    self-delegates 500 and undelegates 100 through its own proxy, both unbondings mature, the lockup withdraws 150
    (DV 600 → 450), a0 withdraws 100, the owner sends the 500 that are spendable by then. -/
def exGenesisSd : St :=
  { bank := (Bank.empty.credit "a1" fee 5000).credit "a0" fee 2000, now := 100000000000, ut := 20000000000 }
def exOpsSd : List Op := [
  .init .sd "a1" "a0" 1000 false 110000000000 false 210000000000,
  .sdSelfDelegate "a0" "a0" 600 { rewBond := 3 },
  .block 160000000000,
  .pxUndelegate lock "a0" "a0" 200 { rewFee := 2 },
  .modSelfDelegate "a0" 500 {},
  .pxUndelegate "a0" "a0" "a0" 100 {},
  .block 181000000000,
  .sdWithdraw "a0" "a0" 150,
  .modWithdraw "a0" 100,
  .send "a0" "a0" "a2" fee 500 ]

/-- the outcome class of every step of a history -/
def outcomes (s : St) : List Op → List String
  | [] => []
  | op :: r => (step s op).2 :: outcomes (step s op).1 r

example : Genesis exGenesisSd := by
  refine ⟨rfl, rfl, rfl, rfl, rfl, rfl, rfl, rfl, ?_, ?_, ?_, ?_, ?_⟩ <;> decide
example : ∀ op ∈ exOpsSd, OpOk op := by
  intro op h
  simp only [exOpsSd, List.mem_cons, List.mem_nil_iff, or_false] at h
  rcases h with h | h | h | h | h | h | h | h | h | h <;> subst h <;> simp [OpOk, extOk, lock]
example : outcomes exGenesisSd exOpsSd = ["ok", "ok", "ok", "ok", "ok", "ok", "ok", "ok", "ok", "ok"] := by decide
example : (run exGenesisSd exOpsSd).created = true ∧ (run exGenesisSd exOpsSd).variant = .sd
    ∧ (run exGenesisSd exOpsSd).DV = 450 ∧ (run exGenesisSd exOpsSd).DF = 0
    ∧ (run exGenesisSd exOpsSd).bank.bal lock fee = 50 ∧ (run exGenesisSd exOpsSd).bank.bal "plock" bond = 53
    ∧ (run exGenesisSd exOpsSd).stake "plock" = 400 ∧ (run exGenesisSd exOpsSd).stake "pown" = 400
    ∧ (run exGenesisSd exOpsSd).bank.bal "a0" fee = 1600 ∧ (run exGenesisSd exOpsSd).bank.bal "a2" fee = 500
    ∧ custody (run exGenesisSd exOpsSd) = 503 ∧ actualDelegated (run exGenesisSd exOpsSd) = 453
    ∧ (match lockedT (run exGenesisSd exOpsSd) 181000000000 with | .ok v => v | _ => -1) = 290 := by decide

/-- why `OpOk` keeps `d ≠ lock` for the bare module message (the hypothesis was already there; nothing was added): the lockup
    account has no key and reaches x/selfdelegation only through its own handler, which tracks the delegation first.  A bare
    `modSelfDelegate lock` would move locked coins to the proxy without raising DV, and clause `cover` of `Inv` fails
    (1000 locked, DV 0, fee balance 400) — custody is still intact (the proxy's stake counts). -/
example :
    let s := run exGenesisSd [.init .sd "a1" "a0" 1000 false 110000000000 false 210000000000, .modSelfDelegate lock 600 {}]
    s.DV = 0 ∧ s.bank.bal lock fee = 400 ∧ (match lockedT s s.now with | .ok v => v | _ => -1) = 1000 ∧ custody s = 1000 := by
  decide

#print axioms inv_sdSelfDelegate
#print axioms inv_sdWithdraw
#print axioms inv_modSelfDelegate
#print axioms inv_modWithdraw
#print axioms inv_step_all
#print axioms inv_run_all
#print axioms outflow_bound_all
#print axioms tracked_le_actual_all

end Sunrise.C12
