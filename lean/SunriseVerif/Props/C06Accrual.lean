import SunriseVerif.Model.CLAccrual
import SunriseVerif.Model.CLAccrualAbs
import SunriseVerif.Props.C06
import SunriseVerif.Lemmas.Dec
import Mathlib.Tactic.Linarith
import Mathlib.Tactic.Ring
/-!
C06 (store level) — LP fee and incentive accrual is fully backed and claim-once.
Theorems over `CLAccrual` (one pool, one denom, unbounded histories of position changes, claims, fee steps, incentive
allocations and cursor moves):
* `inv_reachable`     — in every reachable state everything owed to positions plus everything already paid is at most
                        what the fee account received, up to half an ulp (10^-18 coin) per rounded product formed;
* `paid_le_received`  — integer corollary: while fewer than 2·10^18 products have been rounded, claims never pay more
                        than the fee account received (so the transfer out of the fee account cannot fail);
* `second_claim_zero` — a claim directly after a claim pays nothing (this depends on the dust being re-added with
                        QuoDecTruncate: the re-added growth is worth less than one coin to any position);
* `fresh_claims_zero` — a position claims nothing right after it was opened;
* `fee_out_of_range`  — a fee step changes nothing that is owed to a position whose range does not contain the cursor.
-/
namespace Sunrise.C06A
open Sunrise Sunrise.Dec Sunrise.CLAccrual

-- ------------------------------------------------------------------------------------------------ sums
theorem sumBy_congr {f g : Pos → Int} {l : List Pos} (h : ∀ p ∈ l, f p = g p) : sumBy f l = sumBy g l := by
  induction l with
  | nil => rfl
  | cons x xs ih =>
    simp only [sumBy]
    rw [h x List.mem_cons_self, ih (fun p hp => h p (List.mem_cons_of_mem _ hp))]

theorem sumBy_add (f g : Pos → Int) (l : List Pos) : sumBy (fun p => f p + g p) l = sumBy f l + sumBy g l := by
  induction l with
  | nil => rfl
  | cons x xs ih => simp only [sumBy, ih]; omega

theorem sumBy_mul (a : Int) (f : Pos → Int) (l : List Pos) : sumBy (fun p => f p * a) l = sumBy f l * a := by
  induction l with
  | nil => simp [sumBy]
  | cons x xs ih => simp only [sumBy, ih]; ring

theorem sumBy_nonneg {f : Pos → Int} {l : List Pos} (h : ∀ p ∈ l, 0 ≤ f p) : 0 ≤ sumBy f l := by
  induction l with
  | nil => simp [sumBy]
  | cons x xs ih =>
    have := h x List.mem_cons_self
    have := ih (fun p hp => h p (List.mem_cons_of_mem _ hp))
    simp only [sumBy]; omega

theorem sumBy_mono {f g : Pos → Int} {l : List Pos} (h : ∀ p ∈ l, f p ≤ g p) : sumBy f l ≤ sumBy g l := by
  induction l with
  | nil => simp [sumBy]
  | cons x xs ih =>
    have := h x List.mem_cons_self
    have := ih (fun p hp => h p (List.mem_cons_of_mem _ hp))
    simp only [sumBy]; omega

theorem sumBy_zero_elim {f : Pos → Int} {l : List Pos} (h : ∀ p ∈ l, 0 ≤ f p) (hz : sumBy f l = 0) :
    ∀ p ∈ l, f p = 0 := by
  induction l with
  | nil => intro p hp; cases hp
  | cons x xs ih =>
    have hx := h x List.mem_cons_self
    have hn := sumBy_nonneg (fun p hp => h p (List.mem_cons_of_mem _ hp))
    simp only [sumBy] at hz
    intro p hp
    rcases List.mem_cons.mp hp with rfl | hp'
    · omega
    · exact ih (fun q hq => h q (List.mem_cons_of_mem _ hq)) (by omega) p hp'

theorem sumBy_set (f : Pos → Int) : ∀ (l : List Pos) (i : Nat) (p q : Pos), l[i]? = some p →
    sumBy f (l.set i q) = sumBy f l - f p + f q := by
  intro l
  induction l with
  | nil => intro i p q h; simp at h
  | cons y ys ih =>
    intro i p q h
    cases i with
    | zero => simp at h; subst h; simp only [List.set_cons_zero, sumBy]; omega
    | succ j =>
      simp at h
      simp only [List.set_cons_succ, sumBy, ih j p q h]; omega

theorem mem_set {l : List Pos} {i : Nat} {q x : Pos} (h : x ∈ l.set i q) : x = q ∨ x ∈ l := by
  rcases List.mem_or_eq_of_mem_set h with h | h
  · exact Or.inr h
  · exact Or.inl h

-- ------------------------------------------------------------------------------------------------ inside
theorem inside_def (s : St) (lo hi : Int) :
    inside s lo hi = s.G - (if s.cur < lo then s.G - s.fo lo else s.fo lo) - (if s.cur ≥ hi then s.G - s.fo hi else s.fo hi) := rfl

/-- the growth inside a range reads the growth outside only at the two bounding ticks -/
theorem inside_congr (s s' : St) (lo hi : Int) (hG : s'.G = s.G) (hc : s'.cur = s.cur)
    (h1 : s'.fo lo = s.fo lo) (h2 : s'.fo hi = s.fo hi) : inside s' lo hi = inside s lo hi := by
  simp only [inside_def, hG, hc, h1, h2]

theorem inside_addG (s s' : St) (g lo hi : Int) (h : lo < hi) (hG : s'.G = s.G + g) (hc : s'.cur = s.cur) (hf : s'.fo = s.fo) :
    inside s' lo hi = inside s lo hi + (if lo ≤ s.cur ∧ s.cur < hi then g else 0) := by
  have := C06.inside_addGrowth (feeSt s) g lo hi h
  have e : feeSt s' = CLFee.addGrowth (feeSt s) g := by
    simp only [feeSt, CLFee.addGrowth, hG, hc, hf]
  simp only [inside, e]
  exact this

theorem owed_addG (s s' : St) (g : Int) (p : Pos) (h : p.lo < p.hi) (hG : s'.G = s.G + g) (hc : s'.cur = s.cur) (hf : s'.fo = s.fo) :
    owed s' p = owed s p + (if inR s.cur p then p.s else 0) * g := by
  simp only [owed, inside_addG s s' g p.lo p.hi h hG hc hf, inR]
  by_cases c : p.lo ≤ s.cur ∧ s.cur < p.hi
  · simp only [c, and_self, if_true, decide_true]; ring
  · simp only [c, if_false, decide_false, Bool.false_eq_true]; ring

-- ------------------------------------------------------------------------------------------------ bookkeeping facts
theorem gross_zero_elim (s : St) (hI : Inv s) (t : Int) (hz : s.gross t = 0) :
    ∀ p ∈ s.pos, p.s = 0 ∨ (p.lo ≠ t ∧ p.hi ≠ t) := by
  have hn : ∀ p ∈ s.pos, 0 ≤ (fun p : Pos => (if p.lo = t then p.s else 0) + (if p.hi = t then p.s else 0)) p := by
    intro p hp
    have := (hI.wf p hp).1
    show 0 ≤ (if p.lo = t then p.s else 0) + (if p.hi = t then p.s else 0)
    split <;> split <;> omega
  have g := hI.gross_eq t
  rw [hz] at g
  have z := sumBy_zero_elim hn g.symm
  intro p hp
  have hp0 := (hI.wf p hp).1
  have := z p hp
  by_cases h1 : p.lo = t
  · simp only [h1, if_true] at this
    left; split at this <;> omega
  · by_cases h2 : p.hi = t
    · simp only [h1, h2, if_true, if_false] at this
      left; omega
    · exact Or.inr ⟨h1, h2⟩

theorem active_nonneg (s : St) (hI : Inv s) : 0 ≤ s.active := by
  rw [hI.active_eq]
  apply sumBy_nonneg
  intro p hp
  have := (hI.wf p hp).1
  show 0 ≤ (if inR s.cur p then p.s else 0)
  split <;> omega

theorem active_le_total (s : St) (hI : Inv s) : s.active ≤ totalShares s := by
  rw [hI.active_eq]
  apply sumBy_mono
  intro p hp
  have := (hI.wf p hp).1
  show (if inR s.cur p then p.s else 0) ≤ p.s
  split <;> omega

-- ------------------------------------------------------------------------------------------------ rounding facts
theorem rewards_bounds (s : St) (p : Pos) (hs : 0 < p.s) (hc : p.c ≤ inside s p.lo p.hi) (hu : 0 ≤ p.u) :
    2 * (rewards s p * PREC) ≤ 2 * owed s p + PREC ∧ 0 ≤ rewards s p ∧ 2 * owed s p ≤ 2 * (rewards s p * PREC) + PREC := by
  have h1 : ¬ p.s ≤ 0 := by omega
  have h2 : ¬ inside s p.lo p.hi < p.c := by omega
  have hnn : 0 ≤ (inside s p.lo p.hi - p.c) * p.s := Int.mul_nonneg (by omega) (by omega)
  have b := chopRound_nonneg_bounds _ hnn
  simp only [rewards, h1, h2, if_false, owed]
  have hh : HALF * 2 = PREC := by decide
  refine ⟨?_, by omega, ?_⟩ <;> nlinarith [b.1, b.2.1, b.2.2]

theorem dustGrowth_bounds (dust T : Int) (hd : 0 ≤ dust) (hT : 0 ≤ T) :
    0 ≤ dustGrowth dust T ∧ dustGrowth dust T * T ≤ dust * PREC := by
  unfold dustGrowth
  split
  · exact ⟨by omega, by simpa using Int.mul_nonneg hd (by decide)⟩
  · rename_i h
    have hT' : 0 < T := by omega
    have b := quoTruncate_pos_bounds ⟨dust⟩ ⟨T⟩ hd (show (0:Int) < T from hT')
    simp only [quoTruncate] at b
    exact ⟨b.2.2, b.1⟩

theorem pay_bounds (tot : Int) (h : 0 ≤ tot) :
    0 ≤ tquo tot PREC ∧ 0 ≤ tot - tquo tot PREC * PREC ∧ tot - tquo tot PREC * PREC < PREC := by
  have b := chopTrunc_nonneg_bounds tot h
  simp only [chopTrunc] at b
  refine ⟨b.2.2, ?_, ?_⟩ <;> nlinarith [b.1, b.2.1]

-- ------------------------------------------------------------------------------------------------ the invariant
theorem inv_init (t : Int) : Inv (init t) := by
  refine ⟨?_, ?_, ?_, ?_, ?_, ?_⟩ <;> simp [init, sumBy]

/-- a step that only adds g ≥ 0 to the global growth, with g · active ≤ budget, keeps the accounting -/
theorem inv_addG (s s' : St) (hI : Inv s) (g : Int) (hg : 0 ≤ g)
    (hG : s'.G = s.G + g) (hc : s'.cur = s.cur) (hf : s'.fo = s.fo) (hp : s'.pos = s.pos)
    (hgr : s'.gross = s.gross) (hn : s'.net = s.net) (ha : s'.active = s.active)
    (hb : 2 * (sumBy (owed s) s.pos + g * s.active + s'.paid * PREC) ≤ 2 * (s'.recv * PREC) + s'.k * PREC)
    (hk : 0 ≤ s'.k) : Inv s' := by
  have hsum : sumBy (owed s') s.pos = sumBy (owed s) s.pos + s.active * g := by
    rw [hI.active_eq, ← sumBy_mul, ← sumBy_add]
    apply sumBy_congr
    intro p hp'
    exact owed_addG s s' g p (hI.wf p hp').2.1 hG hc hf
  refine ⟨?_, ?_, ?_, ?_, ?_, hk⟩
  · intro p hp'
    rw [hp] at hp'
    have w := hI.wf p hp'
    refine ⟨w.1, w.2.1, w.2.2.1, fun h => ?_⟩
    have := w.2.2.2 h
    rw [inside_addG s s' g p.lo p.hi w.2.1 hG hc hf]
    split <;> omega
  · intro t; rw [hgr, hp]; exact hI.gross_eq t
  · intro t; rw [hn, hp]; exact hI.net_eq t
  · rw [ha, hp, hc]; exact hI.active_eq
  · rw [hp, hsum]; nlinarith [hb]

/-- cursor moves: when the growth inside every live range is unchanged, what is owed is unchanged -/
theorem inv_move (s s' : St) (hI : Inv s)
    (hG : s'.G = s.G) (hp : s'.pos = s.pos) (hgr : s'.gross = s.gross) (hn : s'.net = s.net)
    (hrecv : s'.recv = s.recv) (hpaid : s'.paid = s.paid) (hk : s'.k = s.k)
    (hin : ∀ p ∈ s.pos, 0 < p.s → inside s' p.lo p.hi = inside s p.lo p.hi)
    (hact : s'.active = sumBy (fun p => if inR s'.cur p then p.s else 0) s.pos) : Inv s' := by
  have hsum : sumBy (owed s') s.pos = sumBy (owed s) s.pos := by
    apply sumBy_congr
    intro p hp'
    have w := hI.wf p hp'
    simp only [owed]
    by_cases h0 : 0 < p.s
    · rw [hin p hp' h0]
    · have : p.s = 0 := by omega
      simp [this]
  refine ⟨?_, ?_, ?_, ?_, ?_, ?_⟩
  · intro p hp'
    rw [hp] at hp'
    have w := hI.wf p hp'
    exact ⟨w.1, w.2.1, w.2.2.1, fun h => by rw [hin p hp' h]; exact w.2.2.2 h⟩
  · intro t; rw [hgr, hp]; exact hI.gross_eq t
  · intro t; rw [hn, hp]; exact hI.net_eq t
  · rw [hp]; exact hact
  · rw [hp, hsum, hrecv, hpaid, hk]; exact hI.backed
  · rw [hk]; exact hI.k_nonneg

theorem inv_step (s : St) (op : Op) (hI : Inv s) (hg : op.guard s) : Inv (step s op) := by
  cases op with
  | fee f =>
    simp only [Op.guard] at hg
    have ha := active_nonneg s hI
    have hgb : 0 ≤ (if s.active = 0 then 0 else tquo (f * PREC) s.active)
        ∧ (if s.active = 0 then 0 else tquo (f * PREC) s.active) * s.active ≤ f * PREC := by
      split
      · exact ⟨by omega, by simpa using Int.mul_nonneg hg (by decide)⟩
      · have b := quoTruncate_pos_bounds ⟨f⟩ ⟨s.active⟩ hg (show (0:Int) < s.active by omega)
        simp only [quoTruncate] at b
        exact ⟨b.2.2, b.1⟩
    apply inv_addG s _ hI _ hgb.1 <;> try rfl
    · simp only [step]
      have := hI.backed
      nlinarith [hgb.2]
    · exact hI.k_nonneg
  | crossUp t =>
    obtain ⟨hlt, hz⟩ := hg
    apply inv_move s _ hI <;> try rfl
    · intro p hp h0
      have w := hI.wf p hp
      have e : feeSt (step s (.crossUp t)) = CLFee.crossUp (feeSt s) t := rfl
      simp only [inside, e]
      apply C06.inside_crossUp (feeSt s) t p.lo p.hi w.2.1 hlt
      · intro ⟨a, b⟩
        rcases gross_zero_elim s hI p.lo (hz p.lo a b) p hp with h | h
        · omega
        · exact h.1 rfl
      · intro ⟨a, b⟩
        rcases gross_zero_elim s hI p.hi (hz p.hi a b) p hp with h | h
        · omega
        · exact h.2 rfl
    · simp only [step]
      rw [hI.active_eq, hI.net_eq t, ← sumBy_add]
      apply sumBy_congr
      intro p hp
      have w := hI.wf p hp
      by_cases h0 : p.s = 0
      · simp [h0]
      · have n1 : ¬ (s.cur < p.lo ∧ p.lo < t) := by
          intro ⟨a, b⟩
          rcases gross_zero_elim s hI p.lo (hz p.lo a b) p hp with h | h
          · exact h0 h
          · exact h.1 rfl
        have n2 : ¬ (s.cur < p.hi ∧ p.hi < t) := by
          intro ⟨a, b⟩
          rcases gross_zero_elim s hI p.hi (hz p.hi a b) p hp with h | h
          · exact h0 h
          · exact h.2 rfl
        have := w.2.1
        simp only [inR]
        by_cases c1 : p.lo ≤ s.cur <;> by_cases c2 : s.cur < p.hi <;> by_cases c3 : p.lo ≤ t <;> by_cases c4 : t < p.hi <;>
          by_cases c5 : p.lo = t <;> by_cases c6 : p.hi = t <;> simp [c1, c2, c3, c4, c5, c6] <;> omega
  | crossDown t =>
    obtain ⟨hle, hz⟩ := hg
    apply inv_move s _ hI <;> try rfl
    · intro p hp h0
      have w := hI.wf p hp
      have e : feeSt (step s (.crossDown t)) = CLFee.crossDown (feeSt s) t := rfl
      simp only [inside, e]
      apply C06.inside_crossDown (feeSt s) t p.lo p.hi w.2.1 hle
      · intro ⟨a, b⟩
        rcases gross_zero_elim s hI p.lo (hz p.lo a b) p hp with h | h
        · omega
        · exact h.1 rfl
      · intro ⟨a, b⟩
        rcases gross_zero_elim s hI p.hi (hz p.hi a b) p hp with h | h
        · omega
        · exact h.2 rfl
    · simp only [step]
      have e : s.active - s.net t = s.active + (-1) * s.net t := by ring
      rw [e, hI.active_eq, hI.net_eq t, Int.mul_comm, ← sumBy_mul, ← sumBy_add]
      apply sumBy_congr
      intro p hp
      have w := hI.wf p hp
      by_cases h0 : p.s = 0
      · simp [h0]
      · have n1 : ¬ (t < p.lo ∧ p.lo ≤ s.cur) := by
          intro ⟨a, b⟩
          rcases gross_zero_elim s hI p.lo (hz p.lo a b) p hp with h | h
          · exact h0 h
          · exact h.1 rfl
        have n2 : ¬ (t < p.hi ∧ p.hi ≤ s.cur) := by
          intro ⟨a, b⟩
          rcases gross_zero_elim s hI p.hi (hz p.hi a b) p hp with h | h
          · exact h0 h
          · exact h.2 rfl
        have := w.2.1
        simp only [inR]
        by_cases c1 : p.lo ≤ s.cur <;> by_cases c2 : s.cur < p.hi <;> by_cases c3 : p.lo ≤ t - 1 <;> by_cases c4 : t - 1 < p.hi <;>
          by_cases c5 : p.lo = t <;> by_cases c6 : p.hi = t <;> simp [c1, c2, c3, c4, c5, c6] <;> omega
  | moveWithin t' =>
    simp only [Op.guard] at hg
    have nb : ∀ p ∈ s.pos, 0 < p.s → ¬ (min s.cur t' < p.lo ∧ p.lo ≤ max s.cur t') ∧ ¬ (min s.cur t' < p.hi ∧ p.hi ≤ max s.cur t') := by
      intro p hp h0
      constructor
      · intro ⟨a, b⟩
        have hz : s.gross p.lo = 0 := by
          rcases hg with ⟨h1, h2⟩ | ⟨h1, h2⟩
          · exact h2 p.lo (by omega) (by omega)
          · exact h2 p.lo (by omega) (by omega)
        rcases gross_zero_elim s hI p.lo hz p hp with h | h
        · omega
        · exact h.1 rfl
      · intro ⟨a, b⟩
        have hz : s.gross p.hi = 0 := by
          rcases hg with ⟨h1, h2⟩ | ⟨h1, h2⟩
          · exact h2 p.hi (by omega) (by omega)
          · exact h2 p.hi (by omega) (by omega)
        rcases gross_zero_elim s hI p.hi hz p hp with h | h
        · omega
        · exact h.2 rfl
    apply inv_move s _ hI <;> try rfl
    · intro p hp h0
      have w := hI.wf p hp
      have e : feeSt (step s (.moveWithin t')) = CLFee.moveWithin (feeSt s) t' := rfl
      simp only [inside, e]
      exact C06.inside_moveWithin (feeSt s) t' p.lo p.hi w.2.1 (nb p hp h0).1 (nb p hp h0).2
    · simp only [step]
      rw [hI.active_eq]
      apply sumBy_congr
      intro p hp
      have w := hI.wf p hp
      by_cases h0 : p.s = 0
      · simp [h0]
      · have := nb p hp (by omega)
        have := w.2.1
        simp only [inR]
        by_cases c1 : p.lo ≤ s.cur <;> by_cases c2 : s.cur < p.hi <;> by_cases c3 : p.lo ≤ t' <;> by_cases c4 : t' < p.hi <;>
          simp [c1, c2, c3, c4] <;> omega
  | openPos lo hi δ =>
    obtain ⟨hlt, hδ⟩ := hg
    -- the state after both tick initialisations
    let s1 : St := { s with fo := initFo s lo }
    let s2 : St := { s1 with fo := initFo s1 hi }
    have hfo : ∀ p ∈ s.pos, 0 < p.s → s2.fo p.lo = s.fo p.lo ∧ s2.fo p.hi = s.fo p.hi := by
      intro p hp h0
      have key : ∀ t u, (u = p.lo ∨ u = p.hi) → ¬ (u = t ∧ s.gross t = 0) := by
        intro t u hu ⟨e, z⟩
        rcases gross_zero_elim s hI t z p hp with h | h
        · omega
        · rcases hu with hu | hu
          · exact h.1 (hu ▸ e)
          · exact h.2 (hu ▸ e)
      have e1 : ∀ u, (u = p.lo ∨ u = p.hi) → s2.fo u = s.fo u := by
        intro u hu
        show initFo s1 hi u = s.fo u
        have a : initFo s1 hi u = s1.fo u := by
          unfold initFo
          rw [if_neg]
          exact key hi u hu
        rw [a]
        show initFo s lo u = s.fo u
        unfold initFo
        rw [if_neg]
        exact key lo u hu
      exact ⟨e1 _ (Or.inl rfl), e1 _ (Or.inr rfl)⟩
    have hin : ∀ p ∈ s.pos, 0 < p.s → inside s2 p.lo p.hi = inside s p.lo p.hi := by
      intro p hp h0
      exact inside_congr s s2 p.lo p.hi rfl rfl (hfo p hp h0).1 (hfo p hp h0).2
    have howed : sumBy (owed s2) s.pos = sumBy (owed s) s.pos := by
      apply sumBy_congr
      intro p hp
      have w := hI.wf p hp
      simp only [owed]
      by_cases h0 : 0 < p.s
      · rw [hin p hp h0]
      · have : p.s = 0 := by omega
        simp [this]
    show Inv (applyDelta s2 lo hi δ (⟨lo, hi, δ, inside s2 lo hi, 0⟩ :: s.pos))
    refine ⟨?_, ?_, ?_, ?_, ?_, hI.k_nonneg⟩
    · intro p hp
      rcases List.mem_cons.mp hp with rfl | hp'
      · exact ⟨by show (0:Int) ≤ δ; omega, hlt, by show (0:Int) ≤ 0; omega, fun _ => Int.le_refl _⟩
      · have w := hI.wf p hp'
        exact ⟨w.1, w.2.1, w.2.2.1, fun h => by
          show p.c ≤ inside s2 p.lo p.hi
          rw [hin p hp' h]; exact w.2.2.2 h⟩
    · intro t
      show s.gross t + (if t = lo then δ else 0) + (if t = hi then δ else 0)
        = ((if lo = t then δ else 0) + (if hi = t then δ else 0))
          + sumBy (fun p => (if p.lo = t then p.s else 0) + (if p.hi = t then p.s else 0)) s.pos
      rw [← hI.gross_eq t]
      by_cases a : t = lo <;> by_cases b : t = hi <;> simp [a, b, eq_comm] <;> omega
    · intro t
      show s.net t + (if t = lo then δ else 0) - (if t = hi then δ else 0)
        = ((if lo = t then δ else 0) - (if hi = t then δ else 0))
          + sumBy (fun p => (if p.lo = t then p.s else 0) - (if p.hi = t then p.s else 0)) s.pos
      rw [← hI.net_eq t]
      by_cases a : t = lo <;> by_cases b : t = hi <;> simp [a, b, eq_comm] <;> omega
    · show (if lo ≤ s.cur ∧ s.cur < hi then s.active + δ else s.active)
        = (if inR s.cur ⟨lo, hi, δ, inside s2 lo hi, 0⟩ then δ else 0) + sumBy (fun p => if inR s.cur p then p.s else 0) s.pos
      rw [← hI.active_eq]
      simp only [inR]
      by_cases c : lo ≤ s.cur ∧ s.cur < hi
      · simp [c]; omega
      · simp [c]
    · show 2 * (sumBy (owed s2) (⟨lo, hi, δ, inside s2 lo hi, 0⟩ :: s.pos) + s.paid * PREC) ≤ 2 * (s.recv * PREC) + s.k * PREC
      have : owed s2 ⟨lo, hi, δ, inside s2 lo hi, 0⟩ = 0 := by simp [owed]
      simp only [sumBy, howed, this]
      have := hI.backed
      omega
  | change i δ =>
    obtain ⟨p, hp, hs, hsd⟩ := hg
    have hpm := List.mem_of_getElem? hp
    have w := hI.wf p hpm
    have rb := rewards_bounds s p hs (w.2.2.2 hs) w.2.2.1
    simp only [step, hp]
    generalize hp' : ({ p with s := p.s + δ, c := inside s p.lo p.hi, u := rewards s p } : Pos) = p'
    have e1 : p'.lo = p.lo := by subst hp'; rfl
    have e2 : p'.hi = p.hi := by subst hp'; rfl
    have e3 : p'.s = p.s + δ := by subst hp'; rfl
    have e4 : p'.c = inside s p.lo p.hi := by subst hp'; rfl
    have e5 : p'.u = rewards s p := by subst hp'; rfl
    refine ⟨?_, ?_, ?_, ?_, ?_, ?_⟩
    · intro x hx
      rcases mem_set hx with rfl | hx'
      · refine ⟨by omega, by omega, by omega, fun _ => ?_⟩
        rw [e4, e1, e2]; exact Int.le_refl _
      · exact hI.wf x hx'
    · intro t
      show s.gross t + (if t = p.lo then δ else 0) + (if t = p.hi then δ else 0)
        = sumBy (fun p => (if p.lo = t then p.s else 0) + (if p.hi = t then p.s else 0)) (s.pos.set i p')
      rw [sumBy_set _ _ _ _ _ hp, ← hI.gross_eq t, e1, e2, e3]
      by_cases a : t = p.lo <;> by_cases b : t = p.hi <;> simp [a, b, eq_comm] <;> omega
    · intro t
      show s.net t + (if t = p.lo then δ else 0) - (if t = p.hi then δ else 0)
        = sumBy (fun p => (if p.lo = t then p.s else 0) - (if p.hi = t then p.s else 0)) (s.pos.set i p')
      rw [sumBy_set _ _ _ _ _ hp, ← hI.net_eq t, e1, e2, e3]
      by_cases a : t = p.lo <;> by_cases b : t = p.hi <;> simp [a, b, eq_comm] <;> omega
    · show (if p.lo ≤ s.cur ∧ s.cur < p.hi then s.active + δ else s.active)
        = sumBy (fun p => if inR s.cur p then p.s else 0) (s.pos.set i p')
      rw [sumBy_set _ _ _ _ _ hp, ← hI.active_eq]
      simp only [inR, e1, e2, e3]
      by_cases c : p.lo ≤ s.cur ∧ s.cur < p.hi
      · simp [c]; omega
      · simp [c]
    · show 2 * (sumBy (owed s) (s.pos.set i p') + s.paid * PREC) ≤ 2 * (s.recv * PREC) + (s.k + 1) * PREC
      rw [sumBy_set _ _ _ _ _ hp]
      have : owed s p' = rewards s p * PREC := by
        simp only [owed, e1, e2, e4, e5]; ring
      rw [this]
      have := hI.backed
      nlinarith [rb.1]
    · show 0 ≤ s.k + 1
      have := hI.k_nonneg; omega
  | claim i =>
    obtain ⟨p, hp, hs⟩ := hg
    have hpm := List.mem_of_getElem? hp
    have w := hI.wf p hpm
    have rb := rewards_bounds s p hs (w.2.2.2 hs) w.2.2.1
    have pb := pay_bounds (rewards s p) rb.2.1
    have hT : 0 ≤ totalShares s := by
      have := active_le_total s hI
      have := active_nonneg s hI
      omega
    have db := dustGrowth_bounds (rewards s p - tquo (rewards s p) PREC * PREC) (totalShares s) pb.2.1 hT
    simp only [step, hp]
    generalize hp' : ({ p with c := inside s p.lo p.hi, u := 0 } : Pos) = p'
    have e1 : p'.lo = p.lo := by subst hp'; rfl
    have e2 : p'.hi = p.hi := by subst hp'; rfl
    have e3 : p'.s = p.s := by subst hp'; rfl
    have e4 : p'.c = inside s p.lo p.hi := by subst hp'; rfl
    have e5 : p'.u = 0 := by subst hp'; rfl
    generalize hdg : dustGrowth (rewards s p - tquo (rewards s p) PREC * PREC) (totalShares s) = dg at db ⊢
    generalize hpay : tquo (rewards s p) PREC = pay at pb db hdg ⊢
    -- intermediate state: position reset and payout booked, accumulator not yet increased
    let s1 : St := { s with pos := s.pos.set i p', paid := s.paid + pay * PREC, k := s.k + 1 }
    have ow : owed s p' = 0 := by simp only [owed, e1, e2, e3, e4, e5]; ring
    have hI1 : Inv s1 := by
      refine ⟨?_, ?_, ?_, ?_, ?_, ?_⟩
      · intro x hx
        rcases mem_set hx with rfl | hx'
        · refine ⟨by omega, by omega, by omega, fun _ => ?_⟩
          show x.c ≤ inside s x.lo x.hi
          rw [e4, e1, e2]
        · exact hI.wf x hx'
      · intro t
        show s.gross t = sumBy (fun p => (if p.lo = t then p.s else 0) + (if p.hi = t then p.s else 0)) (s.pos.set i p')
        rw [sumBy_set _ _ _ _ _ hp, ← hI.gross_eq t, e1, e2, e3]; omega
      · intro t
        show s.net t = sumBy (fun p => (if p.lo = t then p.s else 0) - (if p.hi = t then p.s else 0)) (s.pos.set i p')
        rw [sumBy_set _ _ _ _ _ hp, ← hI.net_eq t, e1, e2, e3]; omega
      · show s.active = sumBy (fun p => if inR s.cur p then p.s else 0) (s.pos.set i p')
        rw [sumBy_set _ _ _ _ _ hp, ← hI.active_eq]
        have : (if inR s.cur p' then p'.s else 0) = (if inR s.cur p then p.s else 0) := by
          unfold inR; rw [e1, e2, e3]
        rw [this]; omega
      · show 2 * (sumBy (owed s) (s.pos.set i p') + (s.paid + pay * PREC) * PREC) ≤ 2 * (s.recv * PREC) + (s.k + 1) * PREC
        rw [sumBy_set _ _ _ _ _ hp, ow]
        have := hI.backed
        have hP : (0:Int) < PREC := PREC_pos
        nlinarith [rb.1, pb.2.1]
      · show 0 ≤ s.k + 1
        have := hI.k_nonneg; omega
    apply inv_addG s1 _ hI1 dg db.1 <;> try rfl
    · show 2 * (sumBy (owed s) (s.pos.set i p') + dg * s.active + (s.paid + pay * PREC) * PREC) ≤ 2 * (s.recv * PREC) + (s.k + 1) * PREC
      rw [sumBy_set _ _ _ _ _ hp, ow]
      have := hI.backed
      have ha := active_le_total s hI
      have h1 : dg * s.active ≤ dg * totalShares s := Int.mul_le_mul_of_nonneg_left ha db.1
      nlinarith [rb.1, db.2]
    · show 0 ≤ s.k + 1
      have := hI.k_nonneg; omega

/-- every reachable state satisfies the invariant (unbounded histories) -/
theorem inv_reachable (s : St) (h : Reachable s) : Inv s := by
  induction h with
  | init t => exact inv_init t
  | step op _ hg ih => exact inv_step _ op ih hg

/-- C06: everything owed to positions plus everything paid out is covered by what the fee account received, up to half an
    ulp (5·10^-19 coin) per rounded product -/
theorem fees_backed (s : St) (h : Reachable s) :
    2 * (sumBy (owed s) s.pos + s.paid * PREC) ≤ 2 * (s.recv * PREC) + s.k * PREC := (inv_reachable s h).backed

/-- what each position is owed is never negative -/
theorem owed_nonneg (s : St) (h : Reachable s) : ∀ p ∈ s.pos, 0 ≤ owed s p := by
  intro p hp
  have w := (inv_reachable s h).wf p hp
  simp only [owed]
  have hP : (0:Int) < PREC := PREC_pos
  by_cases h0 : 0 < p.s
  · have := w.2.2.2 h0
    nlinarith [w.2.2.1, Int.mul_nonneg (Int.le_of_lt h0) (by omega : 0 ≤ inside s p.lo p.hi - p.c)]
  · have : p.s = 0 := by omega
    simp only [this, Int.zero_mul, Int.add_zero]
    exact Int.mul_nonneg w.2.2.1 (Int.le_of_lt hP)

/-- integer corollary: while fewer than 2·10^18 products have been rounded, the total paid to claimants (whole coins,
    `paid = coins · 10^18`) never exceeds the raw amount the fee account received, rounded up to whole coins -/
theorem paid_le_received (s : St) (h : Reachable s) (hk : s.k < 2 * PREC) (coins recvCoins : Int)
    (hpaid : s.paid = coins * PREC) (hrecv : s.recv ≤ recvCoins * PREC) : coins ≤ recvCoins := by
  have b := fees_backed s h
  have hn : 0 ≤ sumBy (owed s) s.pos := sumBy_nonneg (owed_nonneg s h)
  have hP : (0:Int) < PREC := PREC_pos
  rw [hpaid] at b
  -- 2·coins·P² ≤ 2·recvCoins·P² + k·P < 2·(recvCoins+1)·P²
  by_contra hc
  have hc' : recvCoins + 1 ≤ coins := by omega
  have h1 : (recvCoins + 1) * PREC * PREC ≤ coins * PREC * PREC :=
    Int.mul_le_mul_of_nonneg_right (Int.mul_le_mul_of_nonneg_right hc' (Int.le_of_lt hP)) (Int.le_of_lt hP)
  have h2 : s.recv * PREC ≤ recvCoins * PREC * PREC := Int.mul_le_mul_of_nonneg_right hrecv (Int.le_of_lt hP)
  have h3 : s.k * PREC < 2 * PREC * PREC := Int.mul_lt_mul_of_pos_right hk hP
  nlinarith [h1, h2, h3, hn]


/-- C06 claim-once: a claim directly after a claim of the same position pays nothing.  The only thing the position can be
    owed in between is its share of the dust the first claim re-added, which is worth less than one coin -/
theorem second_claim_zero (s : St) (h : Reachable s) (i : Nat) (hg : (Op.claim i).guard s) :
    claimPay (step s (.claim i)) i = 0 := by
  have hI := inv_reachable s h
  obtain ⟨p, hp, hs⟩ := hg
  have hpm := List.mem_of_getElem? hp
  have w := hI.wf p hpm
  have rb := rewards_bounds s p hs (w.2.2.2 hs) w.2.2.1
  have pb := pay_bounds (rewards s p) rb.2.1
  have hT : 0 ≤ totalShares s := by
    have := active_le_total s hI
    have := active_nonneg s hI
    omega
  have db := dustGrowth_bounds (rewards s p - tquo (rewards s p) PREC * PREC) (totalShares s) pb.2.1 hT
  have hlen : i < s.pos.length := by
    rcases Nat.lt_or_ge i s.pos.length with h' | h'
    · exact h'
    · rw [List.getElem?_eq_none h'] at hp; cases hp
  -- the position's own shares are part of the total
  have hle : p.s ≤ totalShares s := by
    have hx : ∀ (l : List Pos) (j : Nat) (q : Pos), l[j]? = some q → (∀ x ∈ l, 0 ≤ x.s) → q.s ≤ sumBy (·.s) l := by
      intro l
      induction l with
      | nil => intro j q hq; simp at hq
      | cons y ys ih =>
        intro j q hq hn
        have hy := hn y List.mem_cons_self
        have hrest := sumBy_nonneg (f := (·.s)) (l := ys) (fun x hx => hn x (List.mem_cons_of_mem _ hx))
        cases j with
        | zero => simp at hq; subst hq; simp only [sumBy]; omega
        | succ j' =>
          simp at hq
          have := ih j' q hq (fun x hx => hn x (List.mem_cons_of_mem _ hx))
          simp only [sumBy]; omega
    exact hx s.pos i p hp (fun x hx => (hI.wf x hx).1)
  generalize hdg : dustGrowth (rewards s p - tquo (rewards s p) PREC * PREC) (totalShares s) = dg at db
  -- state after the first claim and the position in it
  have hget : (step s (.claim i)).pos[i]? = some { p with c := inside s p.lo p.hi, u := 0 } := by
    simp only [step, hp]
    exact List.getElem?_set_self hlen
  unfold claimPay
  rw [hget]
  -- growth inside since the checkpoint is the re-added dust growth, if the position is in range
  have hin : inside (step s (.claim i)) p.lo p.hi = inside s p.lo p.hi + (if p.lo ≤ s.cur ∧ s.cur < p.hi then dg else 0) := by
    apply inside_addG s _ dg p.lo p.hi w.2.1
    · simp only [step, hp]; rw [hdg]
    · simp only [step, hp]
    · simp only [step, hp]
  have hP : (0:Int) < PREC := PREC_pos
  have hh : HALF * 2 = PREC := by decide
  -- value of the second claim
  have hval : rewards (step s (.claim i)) { p with c := inside s p.lo p.hi, u := 0 } < PREC ∧
      0 ≤ rewards (step s (.claim i)) { p with c := inside s p.lo p.hi, u := 0 } := by
    unfold rewards
    have h1 : ¬ p.s ≤ 0 := by omega
    simp only [h1, if_false, hin]
    by_cases c : p.lo ≤ s.cur ∧ s.cur < p.hi
    · simp only [c, and_self, if_true]
      have h2 : ¬ inside s p.lo p.hi + dg < inside s p.lo p.hi := by omega
      simp only [h2, if_false]
      have e : inside s p.lo p.hi + dg - inside s p.lo p.hi = dg := by omega
      rw [e]
      have hnn : 0 ≤ dg * p.s := Int.mul_nonneg db.1 w.1
      have b := chopRound_nonneg_bounds _ hnn
      have h3 : dg * p.s ≤ dg * totalShares s := Int.mul_le_mul_of_nonneg_left hle db.1
      constructor
      · have : PREC * chopRound (dg * p.s) < PREC * PREC := by nlinarith [b.1, db.2, pb.2.2]
        have := Int.lt_of_mul_lt_mul_left this (Int.le_of_lt hP)
        omega
      · omega
    · simp only [c, if_false]
      have h2 : ¬ inside s p.lo p.hi + 0 < inside s p.lo p.hi := by omega
      simp only [h2, if_false]
      have e : (inside s p.lo p.hi + 0 - inside s p.lo p.hi) * p.s = 0 := by
        have : inside s p.lo p.hi + 0 - inside s p.lo p.hi = 0 := by omega
        rw [this]; simp
      rw [e]
      have : chopRound 0 = 0 := by decide
      rw [this]; omega
  show tquo (rewards (step s (.claim i)) { p with c := inside s p.lo p.hi, u := 0 }) PREC = 0
  rw [tquo_nonneg_eq hval.2 (Int.le_of_lt hP)]
  exact Int.ediv_eq_zero_of_lt hval.2 hval.1

/-- C06 no retroactive accrual: a position claims nothing right after it was opened, whatever accrued before -/
theorem fresh_claims_zero (s : St) (lo hi δ : Int) :
    claimPay (step s (.openPos lo hi δ)) 0 = 0 := by
  unfold claimPay
  have hget : (step s (.openPos lo hi δ)).pos[0]? =
      some ⟨lo, hi, δ, inside (step s (.openPos lo hi δ)) lo hi, 0⟩ := rfl
  rw [hget]
  show tquo (rewards _ _) PREC = 0
  unfold rewards
  simp only
  split
  · decide
  · split
    · decide
    · have : (inside (step s (.openPos lo hi δ)) lo hi - inside (step s (.openPos lo hi δ)) lo hi) * δ = 0 := by
        rw [Int.sub_self]; simp
      rw [this]
      decide

/-- C06 in-range only: a fee step (or incentive allocation) changes nothing that is owed to a position whose range does
    not contain the cursor -/
theorem fee_out_of_range (s : St) (f : Int) (p : Pos) (hlt : p.lo < p.hi) (hout : ¬ (p.lo ≤ s.cur ∧ s.cur < p.hi)) :
    owed (step s (.fee f)) p = owed s p := by
  rw [owed_addG s (step s (.fee f)) (if s.active = 0 then 0 else tquo (f * PREC) s.active) p hlt rfl rfl rfl]
  simp [inR, hout]

/-- C06 pro-rata: a fee step raises what in-range positions are owed by exactly shares × growth, and the total by
    growth × active liquidity ≤ the fee received -/
theorem fee_in_range (s : St) (f : Int) (p : Pos) (hlt : p.lo < p.hi) (hin : p.lo ≤ s.cur ∧ s.cur < p.hi) :
    owed (step s (.fee f)) p = owed s p + p.s * (if s.active = 0 then 0 else tquo (f * PREC) s.active) := by
  rw [owed_addG s (step s (.fee f)) (if s.active = 0 then 0 else tquo (f * PREC) s.active) p hlt rfl rfl rfl]
  simp [inR, hin]

/-- soundness of the executable check the driver runs on the abstraction of every dumped state: a state on which `invOn`
    is false does not satisfy `Inv`, hence is not a reachable state of the abstraction -/
theorem invOn_of_inv (a : St) (ts : List Int) (h : Inv a) : invOn ts a = true := by
  unfold invOn
  simp only [Bool.and_eq_true, List.all_eq_true, decide_eq_true_eq]
  refine ⟨⟨⟨⟨?_, ?_⟩, h.active_eq⟩, h.backed⟩, h.k_nonneg⟩
  · intro p hp
    have w := h.wf p hp
    refine ⟨⟨⟨w.1, w.2.1⟩, w.2.2.1⟩, ?_⟩
    split
    · rename_i h0; exact decide_eq_true (w.2.2.2 h0)
    · rfl
  · intro t _
    exact ⟨h.gross_eq t, h.net_eq t⟩

theorem invOn_reachable (a : St) (ts : List Int) (h : Reachable a) : invOn ts a = true :=
  invOn_of_inv a ts (inv_reachable a h)


-- non-vacuity: a concrete history (two positions, fees, a crossing, claims) is reachable, has positive claims,
-- and its second claim is zero
def demoOps : List Op :=
  [.openPos (-10) 10 (5 * PREC), .openPos 0 20 (3 * PREC), .fee (7 * PREC), .crossUp 10, .fee (2 * PREC), .claim 0, .claim 1]

def demo : St := demoOps.foldl step (init 3)

example : claimPay (([Op.openPos (-10) 10 (5 * PREC), .openPos 0 20 (3 * PREC), .fee (7 * PREC)]).foldl step (init 3)) 0 = 2
    ∧ claimPay (([Op.openPos (-10) 10 (5 * PREC), .openPos 0 20 (3 * PREC), .fee (7 * PREC)]).foldl step (init 3)) 1 = 4 := by
  decide +kernel

example : demo.paid = 8 * PREC ∧ demo.recv = 9 * PREC ∧ demo.k = 2 := by decide +kernel

end Sunrise.C06A
